(* C06: the renderer as written (object graph + current-node pointer + level map) computes the
   pure denotation den_tok wherever no heading is rendered at section level. *)
From Coq Require Import List Arith NArith Bool Lia.
From MV Require Import Base.PyStr Base.Res Nest.Lines Nest.Split Nest.Nest Nest.TreeProofs.
Import ListNotations.
Open Scope N_scope.

Section Sim.
  Variable env : Type.
  Variable orc : oracles env.

  (* O_adm: the admonition directives of docutils do what BaseAdmonition.run says *)
  Definition adm_spec : Prop :=
    forall (S : Type) (cb : callbacks S) titled name args attrs content off lineno (s : S),
      o_adm_run orc S cb titled name args attrs content off lineno s
      = admonition_run S cb titled name args attrs content off lineno s.
  Hypothesis O_adm : adm_spec.

  Local Notation st := (st env).
  Local Notation shared := (shared env).
  Local Notation dres := (dres env).

  Definition inv (s : st) : Prop :=
    (exists c, get_loc (cur s) (roots s) = Ok c) /\ troot s = None.

  (* the current node is neither the document nor a section *)
  Definition nonsec (s : st) : Prop :=
    exists c, get_loc (cur s) (roots s) = Ok c /\ is_doc_or_section (node_tag c) = false.

  Definition good (top : bool) (s : st) : Prop := inv s /\ (top = false -> nonsec s).

  (* s with ns appended to the current node and registries h *)
  Definition ext (s : st) (ns : list node) (h : shared) : res st :=
    do r <- extend_loc (cur s) ns (roots s); Ok (set_shr h (set_roots r s)).

  Definition simrel (rr : st -> tok -> res st) (rd : bool -> N -> shared -> tok -> res dres) : Prop :=
    forall top s t ns h, good top s ->
      rd top (hoff s) (shr s) t = Ok (ns, h, false) -> rr s t = ext s ns h.

  Definition noflag (rd : bool -> N -> shared -> tok -> res dres) : Prop :=
    forall ho h t ns h' b, rd false ho h t = Ok (ns, h', b) -> b = false.

  (* ---- record bookkeeping ---- *)
  Lemma eta_shr_roots (s : st) : set_shr (shr s) (set_roots (roots s) s) = s.
  Proof. destruct s; reflexivity. Qed.

  Lemma ext_total s ns h : inv s -> exists s', ext s ns h = Ok s'.
  Proof.
    intros [[c Hc] _]. unfold ext.
    destruct (extend_loc_ok _ ns _ _ Hc) as [r' [H1 _]]. rewrite H1. simpl. eauto.
  Qed.

  Lemma ext_props top s ns h s' :
    good top s -> ext s ns h = Ok s' ->
    good top s' /\ cur s' = cur s /\ hoff s' = hoff s /\ lmap s' = lmap s /\ shr s' = h
    /\ troot s' = troot s /\ length (roots s') = length (roots s).
  Proof.
    intros [[[c Hc] Ht] Hn] H. unfold ext in H.
    destruct (extend_loc_ok _ ns _ _ Hc) as [r' [H1 [H2 H3]]]. rewrite H1 in H. simpl in H.
    inversion H; subst s'. simpl. repeat split; auto.
    - eexists; exact H2.
    - intro E. destruct (Hn E) as [c' [Hc' Htag]]. exists (add_kids c ns). split; [exact H2|].
      rewrite node_tag_add_kids. congruence.
  Qed.

  Lemma ext_nil s : inv s -> ext s [] (shr s) = Ok s.
  Proof.
    intros [[c Hc] _]. unfold ext. rewrite (extend_loc_nil _ _ _ Hc). simpl.
    rewrite eta_shr_roots. reflexivity.
  Qed.

  Lemma ext_ext s a h1 s1 b h2 :
    ext s a h1 = Ok s1 -> ext s1 b h2 = ext s (a ++ b) h2.
  Proof.
    unfold ext. intro H.
    destruct (extend_loc (cur s) a (roots s)) as [r1|] eqn:E; [|discriminate].
    simpl in H. inversion H; subst s1. simpl.
    rewrite (extend_loc_app _ _ _ _ _ E).
    destruct (extend_loc (cur s) (a ++ b) (roots s)); reflexivity.
  Qed.

  Lemma extend_cur_ext (s : st) ns : extend_cur s ns = ext s ns (shr s).
  Proof.
    unfold extend_cur, ext. destruct (extend_loc (cur s) ns (roots s)); simpl; [|reflexivity].
    destruct s; reflexivity.
  Qed.

  Lemma ext_set_shr (s : st) h0 ns h : ext (set_shr h0 s) ns h = ext s ns h.
  Proof. unfold ext. simpl. destruct (extend_loc (cur s) ns (roots s)); reflexivity. Qed.

  Lemma good_set_shr top (s : st) h : good top s -> good top (set_shr h s).
  Proof. intro H. exact H. Qed.

  Lemma good_set_hoff top (s : st) o : good top s -> good top (set_hoff o s).
  Proof. intro H. exact H. Qed.

  Lemma good_weaken top s : good false s -> good top s.
  Proof. intros [Hi Hn]. split; auto. Qed.

  Lemma nonsec_seccap s : inv s -> nonsec s -> seccap s = Ok false.
  Proof.
    intros [_ Ht] [c [Hc Htag]]. unfold seccap. rewrite Hc. simpl. rewrite Ht, Htag. reflexivity.
  Qed.

  (* ---- folds ---- *)
  Lemma sim_fold rr rd : simrel rr rd ->
    forall top ts s ns h, good top s ->
      den_fold (rd top (hoff s)) (shr s) ts = Ok (ns, h, false) ->
      fold_res rr s ts = ext s ns h.
  Proof.
    intros Hsim top ts. induction ts as [|t r IH]; intros s ns h Hg H.
    - simpl in H. inversion H; subst. simpl. symmetry. apply ext_nil. apply Hg.
    - simpl in H.
      destruct (rd top (hoff s) (shr s) t) as [[[n1 h1] b1]|] eqn:E1; [|discriminate].
      simpl in H.
      destruct (den_fold (rd top (hoff s)) h1 r) as [[[n2 h2] b2]|] eqn:E2; [|discriminate].
      simpl in H. inversion H; subst ns h.
      apply orb_false_iff in H3 as [Hb1 Hb2]. subst b1 b2.
      simpl. rewrite (Hsim top s t n1 h1 Hg E1).
      destruct (ext_total s n1 h1 (proj1 Hg)) as [s1 Hs1]. rewrite Hs1. simpl.
      destruct (ext_props _ _ _ _ _ Hg Hs1) as [Hg1 [_ [Hh [_ [Hshr _]]]]].
      rewrite (IH s1 n2 h2 Hg1).
      + eapply ext_ext; eauto.
      + rewrite Hh, Hshr. exact E2.
  Qed.

  Lemma noflag_fold rd : noflag rd ->
    forall ho ts h ns h' b, den_fold (rd false ho) h ts = Ok (ns, h', b) -> b = false.
  Proof.
    intros Hnf ho ts. induction ts as [|t r IH]; intros h ns h' b H.
    - simpl in H. inversion H; reflexivity.
    - simpl in H.
      destruct (rd false ho h t) as [[[n1 h1] b1]|] eqn:E1; [|discriminate]. simpl in H.
      destruct (den_fold (rd false ho) h1 r) as [[[n2 h2] b2]|] eqn:E2; [|discriminate].
      simpl in H. inversion H; subst.
      rewrite (Hnf _ _ _ _ _ _ E1), (IH _ _ _ _ E2). reflexivity.
  Qed.

  (* ---- nested_render_text ---- *)
  Lemma sim_nested rr rd : simrel rr rd ->
    forall top s text lineno inline ho ns h, good top s ->
      den_nested env orc rd top (hoff s) (shr s) text lineno inline ho = Ok (ns, h, false) ->
      nested_render_text env orc rr s text lineno inline None ho = ext s ns h.
  Proof.
    intros Hsim top s text lineno inline ho ns h Hg H.
    unfold den_nested in H. unfold nested_render_text.
    destruct (if inline then o_PI orc (s_env (shr s)) text
              else o_P orc (s_env (shr s)) (text ++ nl)) as [toks0 e'].
    unfold render_tokens_.
    change (hoff (set_shr (set_env e' (shr s)) s)) with (hoff s).
    set (s3 := set_hoff (hoff s + ho) (set_shr (set_env e' (shr s)) s)).
    assert (Hg3 : good top s3) by exact Hg.
    rewrite (sim_fold rr rd Hsim top _ s3 ns h Hg3 H).
    unfold ext. simpl.
    destruct (extend_loc (cur s) ns (roots s)); simpl; [|reflexivity].
    destruct s; reflexivity.
  Qed.

  Lemma noflag_nested rd : noflag rd ->
    forall ho0 h text lineno inline ho ns h' b,
      den_nested env orc rd false ho0 h text lineno inline ho = Ok (ns, h', b) -> b = false.
  Proof.
    intros Hnf ho0 h text lineno inline ho ns h' b H. unfold den_nested in H.
    destruct (if inline then o_PI orc (s_env h) text else o_P orc (s_env h) (text ++ nl)).
    eapply noflag_fold; eauto.
  Qed.

  (* ---- current_node_context ---- *)
  Lemma with_node_ext (s : st) n ms h' (body : st -> res st) :
    inv s ->
    (forall s', inv s' -> get_loc (cur s') (roots s') = Ok n ->
                shr s' = shr s -> hoff s' = hoff s -> body s' = ext s' ms h') ->
    with_node s n body = ext s [add_kids n ms] h'.
  Proof.
    intros [[c Hc] Ht] Hbody. unfold with_node. rewrite Hc. simpl.
    unfold extend_cur.
    destruct (extend_loc_ok _ [n] _ _ Hc) as [r1 [H1 [H2 H3]]]. rewrite H1. simpl.
    pose proof (get_child_after_extend _ _ _ _ _ Hc H1) as Hchild.
    set (s' := set_cur (child_loc (cur s) (length (node_kids c))) (set_roots r1 s)).
    assert (Hinv' : inv s') by (split; [eexists; exact Hchild | exact Ht]).
    rewrite (Hbody s' Hinv' Hchild eq_refl eq_refl).
    unfold ext. simpl.
    rewrite (extend_loc_nest _ _ ms _ _ _ Hc H1).
    destruct (extend_loc (cur s) [add_kids n ms] (roots s)); simpl; [|reflexivity].
    destruct s; reflexivity.
  Qed.

  Lemma with_detached_ext (s : st) n ms h' (body : st -> res st) :
    (forall s', inv s' -> get_loc (cur s') (roots s') = Ok n ->
                shr s' = shr s -> hoff s' = hoff s -> body s' = ext s' ms h') ->
    troot s = None ->
    with_detached s n body = Ok (add_kids n ms, set_shr h' s).
  Proof.
    intros Hbody Ht. unfold with_detached.
    set (s' := set_cur (length (roots s), []) (set_roots (roots s ++ [n]) s)).
    assert (Hget : get_loc (cur s') (roots s') = Ok n).
    { unfold get_loc. simpl. rewrite nth_error_app_last. reflexivity. }
    assert (Hinv' : inv s') by (split; [eexists; exact Hget | exact Ht]).
    rewrite (Hbody s' Hinv' Hget eq_refl eq_refl).
    unfold ext, extend_loc. simpl. rewrite nth_error_app_last. simpl.
    rewrite replace_nth_app_last. rewrite nth_error_app_last.
    rewrite firstn_app, Nat.sub_diag, firstn_all. simpl. rewrite app_nil_r.
    destruct s; reflexivity.
  Qed.

  (* ---- MockState ---- *)
  Lemma sim_nested_parse rr rd : simrel rr rd -> noflag rd ->
    forall (s : st) lineno block off n r,
      inv s -> is_doc_or_section (node_tag n) = false ->
      cb_nested_parse (den_mock_state env orc rd (hoff s) lineno) block off n (shr s) = Ok r ->
      cb_nested_parse (mock_state env orc rr lineno) block off n s = Ok (fst r, set_shr (snd r) s).
  Proof.
    intros Hsim Hnf s lineno block off n r Hinv Htag H. simpl in *.
    destruct (den_nested env orc rd false (hoff s) (shr s) (join nl block) (lineno + N.of_nat off) false 0)
      as [[[ms h'] b]|] eqn:E; [|discriminate].
    simpl in H. inversion H; subst r. simpl.
    assert (b = false) by (eapply noflag_nested; eauto). subst b.
    apply with_detached_ext; [|apply Hinv].
    intros s' Hinv' Hget Hshr Hh.
    apply (sim_nested rr rd Hsim false).
    - split; [exact Hinv'|]. intros _. exists n. split; assumption.
    - rewrite Hshr, Hh. exact E.
  Qed.

  Lemma sim_inline_text rr rd : simrel rr rd -> noflag rd ->
    forall (s : st) lineno text ln r,
      inv s ->
      cb_inline_text (den_mock_state env orc rd (hoff s) lineno) text ln (shr s) = Ok r ->
      cb_inline_text (mock_state env orc rr lineno) text ln s = Ok (fst r, set_shr (snd r) s).
  Proof.
    intros Hsim Hnf s lineno text ln r Hinv H. simpl in *.
    destruct (den_nested env orc rd false (hoff s) (shr s) text ln true 0) as [[[ms h'] b]|] eqn:E;
      [|discriminate].
    simpl in H. inversion H; subst r. simpl.
    assert (b = false) by (eapply noflag_nested; eauto). subst b.
    rewrite (with_detached_ext s (Node NElement [] None []) ms h').
    - reflexivity.
    - intros s' Hinv' Hget Hshr Hh. apply (sim_nested rr rd Hsim false).
      + split; [exact Hinv'|]. intros _. eexists. split; [exact Hget|reflexivity].
      + rewrite Hshr, Hh. exact E.
    - apply Hinv.
  Qed.

  Lemma inv_set_shr (s : st) h : inv s -> inv (set_shr h s).
  Proof. intro H. exact H. Qed.

  Lemma sim_adm rr rd : simrel rr rd -> noflag rd ->
    forall (s : st) position titled name args attrs content off r,
      inv s ->
      o_adm_run orc shared (den_mock_state env orc rd (hoff s) position) titled name args attrs content off
                position (shr s) = Ok r ->
      o_adm_run orc st (mock_state env orc rr position) titled name args attrs content off
                position s = Ok (fst r, set_shr (snd r) s).
  Proof.
    intros Hsim Hnf s position titled name args attrs content off r Hinv H.
    rewrite O_adm in *. unfold admonition_run in *.
    destruct (is_nil content).
    - inversion H; subst. simpl. destruct s; reflexivity.
    - destruct titled.
      + destruct args as [|a args']; [discriminate|].
        destruct (cb_inline_text (den_mock_state env orc rd (hoff s) position) a position (shr s))
          as [r0|] eqn:E0; [|discriminate].
        rewrite (sim_inline_text rr rd Hsim Hnf s position a position r0 Hinv E0).
        simpl in *.
        set (n1 := Node NAdm (name ++ attrs) (Some position) [] ) in *.
        destruct (den_nested env orc rd false (hoff s) (snd r0) (join nl content)
                    (position + N.of_nat off) false 0) as [[[ms h'] b]|] eqn:E1; [|discriminate].
        simpl in H. inversion H; subst r. simpl.
        pose proof (sim_nested_parse rr rd Hsim Hnf (set_shr (snd r0) s) position content off
                      (add_kids n1 [Node NTitle a None (fst r0)])
                      (add_kids (add_kids n1 [Node NTitle a None (fst r0)]) ms, h')) as Hp.
        simpl in Hp. rewrite E1 in Hp. simpl in Hp.
        rewrite (Hp (inv_set_shr _ _ Hinv) eq_refl eq_refl). simpl.
        destruct s; reflexivity.
      + simpl in *.
        set (n1 := Node NAdm (name ++ attrs) (Some position) []) in *.
        destruct (den_nested env orc rd false (hoff s) (shr s) (join nl content)
                    (position + N.of_nat off) false 0) as [[[ms h'] b]|] eqn:E1; [|discriminate].
        simpl in H. inversion H; subst r. simpl.
        pose proof (sim_nested_parse rr rd Hsim Hnf s position content off n1
                      (add_kids n1 ms, h')) as Hp.
        simpl in Hp. rewrite E1 in Hp. simpl in Hp.
        rewrite (Hp Hinv eq_refl eq_refl). reflexivity.
  Qed.

  (* ---- directives ---- *)
  Lemma ext_chain3 (s : st) a b c h1 h2 s1 s2 :
    ext s a h1 = Ok s1 -> ext s1 b h2 = Ok s2 ->
    ext s2 c h2 = ext s (a ++ b ++ c) h2.
  Proof.
    intros H1 H2. rewrite (ext_ext _ _ _ _ c h2 H2).
    rewrite (ext_ext _ _ _ _ (b ++ c) h2 H1). reflexivity.
  Qed.

  Lemma sim_directive rr rd : simrel rr rd -> noflag rd ->
    forall top (s : st) name first content mp pre ns h,
      good top s ->
      (do position <- token_line mp;
       den_directive env orc rd top (hoff s) (shr s) name first content position pre) = Ok (ns, h, false) ->
      render_directive env orc rr s name first content mp pre = ext s ns h.
  Proof.
    intros Hsim Hnf top s name first content mp pre ns h Hg H.
    unfold render_directive. destruct (token_line mp) as [position|]; [|discriminate].
    simpl in *. unfold den_directive in H. unfold run_directive.
    destruct (o_dir_lookup orc name) as [[kind cls]|].
    2:{ inversion H; subst. simpl. rewrite extend_cur_ext. reflexivity. }
    destruct (parse_directive_text cls first content) as [p|e].
    2:{ inversion H; subst. simpl. rewrite extend_cur_ext. reflexivity. }
    destruct (o_opt_validate orc name (p_optblock p)) as [attrs warns].
    set (ws := directive_warnings p warns position) in *.
    rewrite extend_cur_ext.
    destruct (ext_total s ws (shr s) (proj1 Hg)) as [s1 Hs1]. rewrite Hs1. simpl.
    destruct (ext_props _ _ _ _ _ Hg Hs1) as [Hg1 [Hc1 [Hh1 [_ [Hshr1 _]]]]].
    destruct kind as [titled| |].
    - (* admonition *)
      destruct (o_adm_run orc shared (den_mock_state env orc rd (hoff s) position) titled name (p_args p)
                  attrs (p_body p) (p_off p - pre)%nat position (shr s)) as [x|] eqn:E; [|discriminate].
      simpl in H.
      rewrite <- Hshr1, <- Hh1 in E.
      rewrite (sim_adm rr rd Hsim Hnf s1 position titled name (p_args p) attrs (p_body p)
                 (p_off p - pre)%nat x (proj1 Hg1) E). simpl.
      destruct (fst x) as [out|lvl msg]; inversion H; subst ns h; simpl;
        rewrite extend_cur_ext; simpl; rewrite ext_set_shr;
        rewrite (ext_ext _ _ _ _ _ _ Hs1); reflexivity.
    - (* include *)
      unfold den_include in H. unfold include_run.
      destruct (p_args p) as [|a args']; [discriminate|].
      destruct (o_fs_read orc a) as [file|].
      2:{ simpl in H. inversion H; subst ns h. simpl. rewrite extend_cur_ext.
          rewrite (ext_ext _ _ _ _ _ _ Hs1). rewrite Hshr1. reflexivity. }
      destruct (o_include_opts orc (p_optblock p)) as [literal iho].
      destruct literal.
      { simpl in H. inversion H; subst ns h. simpl. rewrite extend_cur_ext.
        rewrite (ext_ext _ _ _ _ _ _ Hs1). rewrite Hshr1. reflexivity. }
      rewrite Hshr1.
      destruct (mem_str a (o_source orc :: s_incl (shr s))).
      { simpl in H. inversion H; subst ns h. simpl. rewrite extend_cur_ext.
        rewrite (ext_ext _ _ _ _ _ _ Hs1). rewrite Hshr1. reflexivity. }
      destruct (den_nested env orc rd top (hoff s) (set_incl (s_incl (shr s) ++ [a]) (shr s))
                  (join nl (split_lines file)) (0 + 1) false iho)
        as [[[direct h'] b]|] eqn:E; [|discriminate].
      simpl in H. inversion H; subst ns h b.
      set (s1' := set_shr (set_incl (s_incl (shr s) ++ [a]) (shr s)) s1).
      assert (Hg1' : good top s1') by exact Hg1.
      rewrite <- Hh1 in E. change (hoff s1) with (hoff s1') in E.
      rewrite (sim_nested rr rd Hsim top s1' _ _ _ _ direct h' Hg1' E).
      unfold s1'. rewrite ext_set_shr.
      destruct (ext_total s1 direct h' (proj1 Hg1)) as [s2 Hs2]. rewrite Hs2. simpl.
      rewrite extend_cur_ext. simpl.
      destruct (ext_props _ _ _ _ _ Hg1 Hs2) as [_ [_ [_ [_ [Hshr2 _]]]]]. rewrite Hshr2.
      rewrite ext_set_shr.
      rewrite (ext_ext _ _ _ _ [] _ Hs2). rewrite (ext_ext _ _ _ _ _ _ Hs1). reflexivity.
    - (* any other directive *)
      rewrite Hshr1.
      destruct (o_other_directive orc name (p_args p) (p_optblock p) (p_body p) (p_off p - pre)%nat
                  position (shr s)) as [ons h'].
      simpl in H. inversion H; subst ns h. simpl. rewrite extend_cur_ext. simpl.
      rewrite ext_set_shr. rewrite (ext_ext _ _ _ _ _ _ Hs1). reflexivity.
  Qed.

  Lemma noflag_directive rd : noflag rd ->
    forall ho h name first content position pre ns h' b,
      den_directive env orc rd false ho h name first content position pre = Ok (ns, h', b) -> b = false.
  Proof.
    intros Hnf ho h name first content position pre ns h' b H. unfold den_directive in H.
    destruct (o_dir_lookup orc name) as [[kind cls]|]; [|inversion H; reflexivity].
    destruct (parse_directive_text cls first content) as [p|e]; [|inversion H; reflexivity].
    destruct (o_opt_validate orc name (p_optblock p)) as [attrs warns].
    destruct kind as [titled| |].
    - destruct (o_adm_run orc shared (den_mock_state env orc rd ho position) titled name (p_args p)
                  attrs (p_body p) (p_off p - pre)%nat position h) as [x|]; [|discriminate].
      simpl in H. destruct (fst x); inversion H; reflexivity.
    - unfold den_include in H.
      destruct (p_args p) as [|a args']; [discriminate|].
      destruct (o_fs_read orc a) as [file|]; [|simpl in H; inversion H; reflexivity].
      destruct (o_include_opts orc (p_optblock p)) as [literal iho].
      destruct literal; [simpl in H; inversion H; reflexivity|].
      destruct (mem_str a (o_source orc :: s_incl h)); [simpl in H; inversion H; reflexivity|].
      destruct (den_nested env orc rd false ho (set_incl (s_incl h ++ [a]) h)
                  (join nl (split_lines file)) (0 + 1) false iho)
        as [[[direct h2] b2]|] eqn:E; [|discriminate].
      simpl in H. inversion H; subst. eapply noflag_nested; eauto.
    - destruct (o_other_directive orc name (p_args p) (p_optblock p) (p_body p) (p_off p - pre)%nat
                  position h) as [ons h2].
      simpl in H. inversion H; reflexivity.
  Qed.

  (* ---- one step ---- *)
  Lemma sim_children rr rd : simrel rr rd ->
    forall top (s : st) ks ns h, good top s ->
      den_children env rd top (hoff s) (shr s) ks = Ok (ns, h, false) ->
      render_children rr s ks = ext s ns h.
  Proof. intros Hsim top s ks ns h Hg H. eapply sim_fold; eauto. Qed.

  Lemma sim_cont rr rd : simrel rr rd ->
    forall (s : st) n ks ms h' b h0,
      inv s -> is_doc_or_section (node_tag n) = false ->
      den_children env rd false (hoff s) h0 ks = Ok (ms, h', b) -> b = false ->
      with_node (set_shr h0 s) n (fun s => render_children rr s ks)
      = ext s [add_kids n ms] h'.
  Proof.
    intros Hsim s n ks ms h' b h0 Hinv Htag H Hb. subst b.
    rewrite <- (ext_set_shr s h0).
    apply with_node_ext; [exact Hinv|].
    intros s' Hinv' Hget Hshr Hh.
    apply (sim_children rr rd Hsim false).
    - split; [exact Hinv'|]. intros _. exists n. split; assumption.
    - rewrite Hshr, Hh. exact H.
  Qed.

  Lemma sim_step rr rd : simrel rr rd -> noflag rd ->
    simrel (render_step env orc rr) (den_step env orc rd).
  Proof.
    intros Hsim Hnf top s t ns h Hg H.
    destruct t as [k c mp|k c mp ks|ks|lvl c mp ks|label mp|label mp ks|label mp
                   |colon info content mp|inline key mp|c mp]; simpl in *.
    - (* leaf *) inversion H; subst. apply extend_cur_ext.
    - (* container *)
      destruct (den_children env rd false (hoff s) (shr s) ks) as [[[ms h'] b]|] eqn:E;
        [|discriminate].
      simpl in H. unfold wrap1 in H. simpl in H. inversion H; subst.
      pose proof (sim_cont rr rd Hsim s (Node (NGen k) c (line_of mp) []) ks ms h false (shr s)
                    (proj1 Hg) eq_refl E eq_refl) as Hc.
      replace (set_shr (shr s) s) with s in Hc by (destruct s; reflexivity). exact Hc.
    - (* inline *) eapply sim_children; eauto.
    - (* heading *)
      unfold render_heading. destruct top; [discriminate|].
      destruct Hg as [Hinv Hn]. rewrite (nonsec_seccap s Hinv (Hn eq_refl)). simpl.
      destruct (den_children env rd false (hoff s) (shr s) ks) as [[[ms h'] b]|] eqn:E;
        [|discriminate].
      simpl in H. inversion H; subst.
      pose proof (sim_cont rr rd Hsim s (Node (NRubric (lvl + hoff s)) c (line_of mp) []) ks ms h'
                    false (shr s) Hinv eq_refl E eq_refl) as Hc.
      replace (set_shr (shr s) s) with s in Hc by (destruct s; reflexivity). rewrite Hc.
      unfold ext. simpl.
      destruct (extend_loc (cur s) [Node (NRubric (lvl + hoff s)) c (line_of mp) ms]
                  (roots s)); reflexivity.
    - (* target *)
      destruct (note_explicit_target label (token_line_d mp 0) (shr s)) as [msgs h'].
      inversion H; subst. rewrite extend_cur_ext. simpl. apply ext_set_shr.
    - (* footnote definition *)
      unfold mem_strs in *. destruct (mem_str label (s_footdefs (shr s))).
      + inversion H; subst. apply extend_cur_ext.
      + destruct (note_explicit_target label (token_line_d mp 0) (add_footdef label (shr s)))
          as [msgs h1].
        destruct (den_children env rd false (hoff s) h1 ks)
          as [[[ms h'] b]|] eqn:E; [|discriminate].
        simpl in H. unfold wrap1 in H. simpl in H. inversion H; subst.
        pose proof (sim_cont rr rd Hsim s (Node NFootnote label (line_of mp) msgs) ks ms h false
                 h1 (proj1 Hg) eq_refl E eq_refl) as Hc.
        cbn [add_kids] in Hc. exact Hc.
    - (* footnote reference *)
      inversion H; subst. rewrite extend_cur_ext. simpl. apply ext_set_shr.
    - (* fence *)
      unfold render_fence. unfold den_fence in H.
      destruct (parse_info info) as [name arguments].
      destruct (directive_name name) as [dn|].
      + destruct (negb colon && str_eqb dn eval_rst_name).
        * destruct (o_eval_rst orc content (token_line_d mp 0) (shr s)) as [ens h'].
          inversion H; subst. rewrite extend_cur_ext. simpl. apply ext_set_shr.
        * eapply sim_directive; eauto.
      + destruct colon.
        * destruct (den_nested env orc rd false (hoff s) (shr s) content (token_line_d mp 0) false 0)
            as [[[ms h'] b]|] eqn:E; [|discriminate].
          simpl in H. unfold wrap1 in H. simpl in H. inversion H; subst.
          change [Node NDiv name (line_of mp) ms]
            with [add_kids (Node NDiv name (line_of mp) []) ms].
          apply with_node_ext; [apply Hg|].
          intros s' Hinv' Hget Hshr Hh. apply (sim_nested rr rd Hsim false).
          -- split; [exact Hinv'|]. intros _. eexists. split; [exact Hget|reflexivity].
          -- rewrite Hshr, Hh. exact E.
        * inversion H; subst. apply extend_cur_ext.
    - (* substitution *)
      unfold render_substitution. unfold den_substitution in H.
      destruct (token_line mp) as [position|]; [|discriminate]. simpl in *.
      destruct (o_jinja orc key) as [rendered|].
      2:{ inversion H; subst. apply extend_cur_ext. }
      destruct (existsb (fun r => mem_str r (s_subrefs (shr s))) (o_sub_names orc key)).
      { inversion H; subst. apply extend_cur_ext. }
      set (h1 := set_subrefs (add_all (o_sub_names orc key) (s_subrefs (shr s))) (shr s)) in *.
      destruct (den_nested env orc rd top (hoff s) h1 rendered position
                  (inline && negb (o_is_directive_start orc rendered)) 0)
        as [[[ms h2] b]|] eqn:E; [|discriminate].
      simpl in H. inversion H; subst ns h b.
      rewrite (sim_nested rr rd Hsim top (set_shr h1 s) _ _ _ _ ms h2 (good_set_shr _ _ _ Hg) E).
      rewrite ext_set_shr.
      destruct (ext_total s ms h2 (proj1 Hg)) as [s2 Hs2]. rewrite Hs2. simpl.
      destruct (ext_props _ _ _ _ _ Hg Hs2) as [_ [_ [_ [_ [Hshr2 _]]]]]. rewrite Hshr2.
      unfold ext in *. destruct (extend_loc (cur s) ms (roots s)); [|discriminate].
      simpl in *. inversion Hs2; subst s2. reflexivity.
    - (* front matter *) inversion H; subst. apply extend_cur_ext.
  Qed.

  Lemma noflag_step rd : noflag rd -> noflag (den_step env orc rd).
  Proof.
    intros Hnf ho h t ns h' b H.
    destruct t as [k c mp|k c mp ks|ks|lvl c mp ks|label mp|label mp ks|label mp
                   |colon info content mp|inline key mp|c mp]; simpl in *.
    - inversion H; reflexivity.
    - destruct (den_children env rd false ho h ks) as [[[ms h2] b2]|] eqn:E; [|discriminate].
      simpl in H. unfold wrap1 in H. simpl in H. inversion H; subst.
      eapply noflag_fold; eauto.
    - eapply noflag_fold; eauto.
    - destruct (den_children env rd false ho h ks) as [[[ms h2] b2]|] eqn:E; [|discriminate].
      simpl in H. inversion H; subst. eapply noflag_fold; eauto.
    - destruct (note_explicit_target label (token_line_d mp 0) h). inversion H; reflexivity.
    - unfold mem_strs in H. destruct (mem_str label (s_footdefs h)); [inversion H; reflexivity|].
      destruct (note_explicit_target label (token_line_d mp 0) (add_footdef label h)) as [msgs h1].
      destruct (den_children env rd false ho h1 ks) as [[[ms h2] b2]|] eqn:E;
        [|discriminate].
      simpl in H. unfold wrap1 in H. simpl in H. inversion H; subst. eapply noflag_fold; eauto.
    - inversion H; reflexivity.
    - unfold den_fence in H. destruct (parse_info info) as [name arguments].
      destruct (directive_name name) as [dn|].
      + destruct (negb colon && str_eqb dn eval_rst_name).
        * destruct (o_eval_rst orc content (token_line_d mp 0) h). inversion H; reflexivity.
        * destruct (token_line mp) as [position|]; [|discriminate]. simpl in H.
          eapply noflag_directive; eauto.
      + destruct colon; [|inversion H; reflexivity].
        destruct (den_nested env orc rd false ho h content (token_line_d mp 0) false 0)
          as [[[ms h2] b2]|] eqn:E; [|discriminate].
        simpl in H. unfold wrap1 in H. simpl in H. inversion H; subst.
        eapply noflag_nested; eauto.
    - unfold den_substitution in H.
      destruct (token_line mp) as [position|]; [|discriminate]. simpl in H.
      destruct (o_jinja orc key) as [rendered|]; [|inversion H; reflexivity].
      destruct (existsb (fun r => mem_str r (s_subrefs h)) (o_sub_names orc key));
        [inversion H; reflexivity|].
      destruct (den_nested env orc rd false ho
                  (set_subrefs (add_all (o_sub_names orc key) (s_subrefs h)) h) rendered position
                  (inline && negb (o_is_directive_start orc rendered)) 0)
        as [[[ms h2] b2]|] eqn:E; [|discriminate].
      simpl in H. inversion H; subst. eapply noflag_nested; eauto.
    - inversion H; reflexivity.
  Qed.

  (* ---- all fuel ---- *)
  Lemma noflag_tok f : noflag (den_tok env orc f).
  Proof.
    induction f as [|f IH].
    - intros ho h t ns h' b H. discriminate.
    - exact (noflag_step _ IH).
  Qed.

  Theorem sim_tok f : simrel (render_tok env orc f) (den_tok env orc f).
  Proof.
    induction f as [|f IH].
    - intros top s t ns h Hg H. discriminate.
    - exact (sim_step _ _ IH (noflag_tok f)).
  Qed.

  Theorem sim_tokens f top (s : st) ts ns h :
    good top s -> hoff s = 0 ->
    den_tokens env orc f top (shr s) ts = Ok (ns, h, false) ->
    render_tokens env orc f s ts = ext s ns h.
  Proof.
    intros Hg Hh H. unfold render_tokens, render_tokens_. unfold den_tokens in H.
    apply (sim_fold _ _ (sim_tok f) top); [exact Hg|]. rewrite Hh. exact H.
  Qed.

End Sim.
