(* C06: witnesses (by computation on the toy oracle instance of Toy.v). *)
From Coq Require Import List Arith NArith Bool.
From MV Require Import Base.PyStr Base.Res Nest.Lines Nest.Split Nest.Nest Nest.SimProofs
  Nest.WrapSpec Nest.Toy.
Import ListNotations.
Open Scope N_scope.

Lemma toy_adm_spec : adm_spec bool toy.
Proof. intros S cb titled name args attrs content off lineno s. reflexivity. Qed.

Definition para (k : N) (c : str) (line : N) : node :=
  Node (NGen k_para) c (Some line) [Node (NGen k) c (Some line) []].

(* A reference definition that sits in an included file (or in a directive body) is recorded in
   md_env - but only after the surrounding text has been tokenised: the use "U" outside stays
   literal text, whereas it is a link when the same line is written in place. *)
Lemma refdefs_refuted_include :
  o_fs_read toy s_f = Some (unlines [l_D]) /\
  fst (o_P toy false doc_in_place) = [TCont k_para l_U (Some (0, 1)) [TLeaf k_link l_U (Some (0, 1))]] /\
  render_doc bool toy 6 false doc_in_place = Ok ([para k_link l_U 1], sh0 true) /\
  render_doc bool toy 6 false doc_include = Ok ([para k_text l_U 1], sh0 true).
Proof. repeat split; vm_compute; reflexivity. Qed.

Lemma refdefs_refuted_directive :
  render_doc bool toy 6 false doc_directive_in_place
  = Ok ([para k_link l_U 1; para k_text [120] 3], sh0 true) /\
  render_doc bool toy 6 false doc_directive
  = Ok ([para k_text l_U 1; Node NAdm s_note (Some 2) [para k_text [120] 4]], sh0 true).
Proof. split; vm_compute; reflexivity. Qed.

Theorem refdefs_visible_refuted :
  exists (env : Type) (orc : oracles env) (e0 : env) (path : str) (pre file : list str) n1 n2 h,
    adm_spec env orc /\
    o_fs_read orc path = Some (unlines file) /\
    render_doc env orc 6 e0 (unlines (pre ++ file)) = Ok (n1, h) /\
    render_doc env orc 6 e0 (unlines (pre ++ print_lines (Include path) [])) = Ok (n2, h) /\
    n1 <> n2.
Proof.
  exists bool, toy, false, s_f, [l_U], [l_D], [para k_link l_U 1], [para k_text l_U 1], (sh0 true).
  destruct refdefs_refuted_include as [H1 [_ [H3 H4]]].
  repeat split; try assumption. discriminate.
Qed.

(* non-vacuity of the transparency statements on the toy instance: a note around "x" *)
Example toy_note_transparent :
  render_doc bool toy 6 false (unlines (print_lines (Adm false s_note [] ONone Backtick 3) [[120]]))
  = Ok ([Node NAdm s_note (Some 1) [para k_text [120] 2]], sh0 false)
  /\ render_doc bool toy 6 false (unlines [[120]]) = Ok ([para k_text [120] 1], sh0 false)
  /\ expected bool toy 5 (Adm false s_note [] ONone Backtick 3) [[120]]
       (fun h k => den_text_at bool toy 5 false 0 h (unlines [[120]]) k) (sh0 false) 1
     = Ok ([Node NAdm s_note (Some 1) [para k_text [120] 2]], sh0 false, false).
Proof. repeat split; vm_compute; reflexivity. Qed.

Example toy_wf : wfW bool toy (Adm false s_note [] ONone Backtick 3) [[120]].
Proof.
  cbn [wfW]. repeat split; try (vm_compute; reflexivity).
  eexists. split; [vm_compute; reflexivity|]. split; [reflexivity|discriminate].
Qed.
