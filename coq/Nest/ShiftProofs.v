(* C06: line-shift equivariance of the denotation.  Rendering a token forest whose line numbers
   are all k higher gives the same nodes with every line number k higher, and the same
   registries.  Holds for documents without include directives (an included file keeps its own
   line numbers) whose tokens carry a map wherever a default line would be used, under the
   corresponding equivariance of the opaque directive / eval-rst oracles. *)
From Coq Require Import List Arith NArith Bool Lia.
From MV Require Import Base.PyStr Base.Res Nest.Lines Nest.Split Nest.Nest Nest.TreeProofs
  Nest.SimProofs Nest.WrapSpec Nest.WrapProofs Nest.MoreProofs.
Import ListNotations.
Open Scope N_scope.

Definition is_some {A} (o : option A) : bool := match o with Some _ => true | None => false end.

(* the tokens whose line defaults to 0 when they have no map do have one *)
Fixpoint mapped (t : tok) : bool :=
  match t with
  | TLeaf _ _ _ => true
  | TCont _ _ _ ks => forallb mapped ks
  | TInline ks => forallb mapped ks
  | THeading _ _ _ ks => forallb mapped ks
  | TTarget _ m => is_some m
  | TFootDef _ m ks => is_some m && forallb mapped ks
  | TFootRef _ _ => true
  | TFence _ _ _ m => is_some m
  | TSubst _ _ _ => true
  | TFrontMatter _ _ => true
  end.

Definition map_res {A B} (f : A -> B) (r : res A) : res B :=
  match r with Ok a => Ok (f a) | Raise e => Raise e end.

Lemma shift_tok_add a b t : shift_tok a (shift_tok b t) = shift_tok (b + a) t.
Proof.
  assert (Hm : forall m, shift_map a (shift_map b m) = shift_map (b + a) m).
  { intros [[x y]|]; simpl; [|reflexivity]. rewrite !N.add_assoc. reflexivity. }
  induction t using tok_ind'; simpl; rewrite ?Hm; try reflexivity;
    (f_equal; rewrite map_map; apply map_ext_in; intros x Hx;
     rewrite Forall_forall in H; apply H; exact Hx).
Qed.

Lemma forallb_map_ext {A B} (f : B -> bool) (g : A -> B) (h : A -> bool) l :
  Forall (fun x => f (g x) = h x) l -> forallb f (map g l) = forallb h l.
Proof. induction 1; simpl; [reflexivity|]. rewrite H. f_equal. exact IHForall. Qed.

Lemma mapped_shift k t : mapped (shift_tok k t) = mapped t.
Proof.
  assert (Hs : forall m, is_some (shift_map k m) = is_some m) by (intros [[x y]|]; reflexivity).
  induction t using tok_ind'; simpl; rewrite ?Hs; try reflexivity;
    first [apply forallb_map_ext; exact H | f_equal; apply forallb_map_ext; exact H].
Qed.

Lemma mapped_shift_all k ts : forallb mapped (map (shift_tok k) ts) = forallb mapped ts.
Proof. apply forallb_map_ext. apply Forall_forall. intros. apply mapped_shift. Qed.

Lemma shift_node_add_kids k n ns :
  shift_node k (add_kids n ns) = add_kids (shift_node k n) (map (shift_node k) ns).
Proof. destruct n. simpl. rewrite map_app. reflexivity. Qed.

Lemma line_of_shift k m :
  line_of (shift_map k m) = match line_of m with Some a => Some (a + k) | None => None end.
Proof. destruct m as [[a b]|]; reflexivity. Qed.

Section Shift.
  Variable env : Type.
  Variable orc : oracles env.
  Hypothesis O_adm : adm_spec env orc.

  Local Notation shared := (shared env).
  Local Notation dres := (dres env).

  Definition shift_dres (k : N) (r : dres) : dres :=
    (map (shift_node k) (fst (fst r)), snd (fst r), snd r).

  (* the oracle side of equivariance *)
  Record shift_oracles : Prop := {
    so_no_include : forall n c, o_dir_lookup orc n <> Some (KInclude, c);
    so_other : forall name args ob body off pos h k,
      o_other_directive orc name args ob body off (pos + k) h
      = (map (shift_node k) (fst (o_other_directive orc name args ob body off pos h)),
         snd (o_other_directive orc name args ob body off pos h));
    so_rst : forall content pos h k,
      o_eval_rst orc content (pos + k) h
      = (map (shift_node k) (fst (o_eval_rst orc content pos h)), snd (o_eval_rst orc content pos h));
    so_P_mapped : forall e text, forallb mapped (fst (o_P orc e text)) = true;
    so_PI_mapped : forall e text, forallb mapped (fst (o_PI orc e text)) = true }.
  Hypothesis O_shift : shift_oracles.

  Definition equiv (rd : bool -> N -> shared -> tok -> res dres) : Prop :=
    forall top ho h t k, mapped t = true ->
      rd top ho h (shift_tok k t) = map_res (shift_dres k) (rd top ho h t).

  Lemma equiv_fold rd : equiv rd ->
    forall top ho k ts h, forallb mapped ts = true ->
      den_fold (rd top ho) h (map (shift_tok k) ts) = map_res (shift_dres k) (den_fold (rd top ho) h ts).
  Proof.
    intros Heq top ho k ts. induction ts as [|t r IH]; intros h Hm; [reflexivity|].
    simpl in Hm. apply andb_true_iff in Hm as [Ht Hr].
    cbn [map den_fold]. rewrite (Heq top ho h t k Ht).
    destruct (rd top ho h t) as [[[n1 h1] b1]|e]; [|reflexivity].
    cbn [map_res bind shift_dres fst snd]. rewrite (IH h1 Hr).
    destruct (den_fold (rd top ho) h1 r) as [[[n2 h2] b2]|e]; [|reflexivity].
    cbn [map_res bind shift_dres fst snd]. unfold shift_dres. cbn [fst snd]. rewrite map_app. reflexivity.
  Qed.

  Lemma drop_fm_mapped ts : forallb mapped ts = true -> forallb mapped (drop_front_matter ts) = true.
  Proof.
    intro H. destruct ts as [|t r]; [reflexivity|]. destruct t; exact H.
  Qed.

  Lemma equiv_nested rd : equiv rd ->
    forall top ho0 h text lineno k inline ho,
      den_nested env orc rd top ho0 h text (lineno + k) inline ho
      = map_res (shift_dres k) (den_nested env orc rd top ho0 h text lineno inline ho).
  Proof.
    intros Heq top ho0 h text lineno k inline ho. unfold den_nested.
    assert (Hm : forallb mapped (fst (if inline then o_PI orc (s_env h) text
                                      else o_P orc (s_env h) (text ++ nl))) = true).
    { destruct inline; [apply (so_PI_mapped O_shift) | apply (so_P_mapped O_shift)]. }
    destruct (if inline then o_PI orc (s_env h) text else o_P orc (s_env h) (text ++ nl))
      as [toks e'].
    cbn [fst] in Hm. apply drop_fm_mapped in Hm.
    set (ts := drop_front_matter toks) in *.
    replace (map (shift_tok 1) (map (shift_tok (lineno + k)) ts))
      with (map (shift_tok k) (map (shift_tok 1) (map (shift_tok lineno) ts))).
    - apply equiv_fold; [exact Heq|]. rewrite !mapped_shift_all. exact Hm.
    - rewrite !map_map. apply map_ext. intro t. rewrite !shift_tok_add. f_equal. lia.
  Qed.

  Definition shift_dout (k : N) (o : dout) : dout :=
    match o with DNodes ns => DNodes (map (shift_node k) ns) | DError l m => DError l m end.

  Lemma equiv_adm rd : equiv rd ->
    forall ho titled name args attrs content off pos k h,
      admonition_run shared (den_mock_state env orc rd ho (pos + k)) titled name args attrs content off
                     (pos + k) h
      = map_res (fun x => (shift_dout k (fst x), snd x))
                (admonition_run shared (den_mock_state env orc rd ho pos) titled name args attrs content
                                off pos h).
  Proof.
    intros Heq ho titled name args attrs content off pos k h. unfold admonition_run.
    destruct (is_nil content); [reflexivity|].
    assert (Hbody : forall h1 n1,
      (do r2 <- cb_nested_parse (den_mock_state env orc rd ho (pos + k)) content off
                  (shift_node k n1) h1; Ok (DNodes [fst r2], snd r2))
      = map_res (fun x => (shift_dout k (fst x), snd x))
          (do r2 <- cb_nested_parse (den_mock_state env orc rd ho pos) content off n1 h1;
           Ok (DNodes [fst r2], snd r2))).
    { intros h1 n1. cbn [cb_nested_parse den_mock_state].
      replace (pos + k + N.of_nat off) with (pos + N.of_nat off + k) by lia.
      rewrite (equiv_nested rd Heq).
      destruct (den_nested env orc rd false ho h1 (join nl content) (pos + N.of_nat off) false 0)
        as [[[ns h'] b]|e]; [|reflexivity].
      cbn [map_res bind shift_dres fst snd shift_dout map].
      rewrite shift_node_add_kids. reflexivity. }
    destruct titled.
    - destruct args as [|a args']; [reflexivity|].
      cbn [cb_inline_text den_mock_state]. rewrite (equiv_nested rd Heq).
      destruct (den_nested env orc rd false ho h a pos true 0) as [[[tn h1] tb]|e]; [|reflexivity].
      cbn [map_res bind shift_dres fst snd].
      specialize (Hbody h1 (add_kids (Node NAdm (name ++ attrs) (Some pos) []) [Node NTitle a None tn])).
      cbn [add_kids shift_node app map] in Hbody. cbn [add_kids app]. exact Hbody.
    - cbn [bind fst snd]. exact (Hbody h (Node NAdm (name ++ attrs) (Some pos) [])).
  Qed.

  Lemma shift_sysmsg k t l : shift_node k (sysmsg t l) = sysmsg t (l + k).
  Proof. reflexivity. Qed.

  Lemma shift_warnings k p warns pos :
    directive_warnings p warns (pos + k) = map (shift_node k) (directive_warnings p warns pos).
  Proof.
    unfold directive_warnings. rewrite !map_app, map_map.
    destruct (p_warn_split p), (p_warn_content p); reflexivity.
  Qed.

  Lemma shift_fill_lines k pos ns :
    fill_lines (pos + k) (map (shift_node k) ns) = map (shift_node k) (fill_lines pos ns).
  Proof.
    unfold fill_lines. rewrite !map_map. apply map_ext. intros [t p [l|] ks]; reflexivity.
  Qed.

  Lemma equiv_directive rd : equiv rd ->
    forall top ho h name first content pos pre k,
      den_directive env orc rd top ho h name first content (pos + k) pre
      = map_res (shift_dres k) (den_directive env orc rd top ho h name first content pos pre).
  Proof.
    intros Heq top ho h name first content pos pre k. unfold den_directive.
    destruct (o_dir_lookup orc name) as [[kind cls]|] eqn:Ed; [|reflexivity].
    destruct (parse_directive_text cls first content) as [p|e]; [|reflexivity].
    destruct (o_opt_validate orc name (p_optblock p)) as [attrs warns].
    rewrite shift_warnings.
    destruct kind as [titled| |].
    - rewrite !O_adm. rewrite (equiv_adm rd Heq).
      destruct (admonition_run shared (den_mock_state env orc rd ho pos) titled name (p_args p) attrs
                  (p_body p) (p_off p - pre)%nat pos h) as [[out h']|e]; [|reflexivity].
      cbn [map_res bind fst snd]. destruct out as [ns|l m]; cbn [shift_dout map_res];
        unfold shift_dres; cbn [fst snd]; rewrite !map_app; rewrite ?shift_fill_lines; reflexivity.
    - exfalso. exact (so_no_include O_shift name cls Ed).
    - rewrite (so_other O_shift).
      destruct (o_other_directive orc name (p_args p) (p_optblock p) (p_body p) (p_off p - pre)%nat pos h)
        as [ons h'].
      cbn [fst snd bind map_res]. unfold shift_dres. cbn [fst snd]. rewrite !map_app.
      rewrite shift_fill_lines. reflexivity.
  Qed.

  Lemma equiv_step rd : equiv rd -> equiv (den_step env orc rd).
  Proof.
    intros Heq top ho h t k Hm.
    destruct t as [k0 c mp|k0 c mp ks|ks|lvl c mp ks|label mp|label mp ks|label mp
                   |colon info content mp|inline key mp|c mp]; cbn [shift_tok den_step mapped] in *.
    - rewrite line_of_shift. destruct (line_of mp); reflexivity.
    - unfold den_children. rewrite (equiv_fold rd Heq false ho k ks h Hm).
      destruct (den_fold (rd false ho) h ks) as [[[ns h'] b]|e]; [|reflexivity].
      cbn [map_res bind shift_dres wrap1 fst snd map]. rewrite line_of_shift.
      destruct (line_of mp); cbn [add_kids shift_node app]; reflexivity.
    - unfold den_children. apply (equiv_fold rd Heq top ho k ks h Hm).
    - destruct top; [reflexivity|].
      unfold den_children. rewrite (equiv_fold rd Heq false ho k ks h Hm).
      destruct (den_fold (rd false ho) h ks) as [[[ns h'] b]|e]; [|reflexivity].
      cbn [map_res bind shift_dres fst snd map shift_node]. rewrite line_of_shift.
      destruct (line_of mp); reflexivity.
    - destruct mp as [[a b]|]; [|discriminate]. cbn [shift_map token_line_d line_of].
      unfold note_explicit_target. destruct (mem_strs label (s_names h)); reflexivity.
    - apply andb_true_iff in Hm as [Hmp Hks]. destruct mp as [[a b]|]; [|discriminate].
      cbn [shift_map token_line_d line_of].
      destruct (mem_strs label (s_footdefs h)); [reflexivity|].
      unfold note_explicit_target. destruct (mem_strs label (s_names (add_footdef label h)));
        unfold den_children; rewrite (equiv_fold rd Heq false ho k ks _ Hks);
        destruct (den_fold (rd false ho) _ ks) as [[[ns h'] bb]|e]; reflexivity.
    - rewrite line_of_shift. destruct (line_of mp); reflexivity.
    - destruct mp as [[a b]|]; [|discriminate].
      unfold den_fence. cbn [shift_map token_line token_line_d line_of bind].
      destruct (parse_info info) as [name arguments].
      destruct (directive_name name) as [dn|].
      + destruct (negb colon && str_eqb dn eval_rst_name).
        * rewrite (so_rst O_shift). destruct (o_eval_rst orc content a h). reflexivity.
        * apply (equiv_directive rd Heq).
      + destruct colon; [|reflexivity].
        rewrite (equiv_nested rd Heq).
        destruct (den_nested env orc rd false ho h content a false 0) as [[[ns h'] bb]|e]; reflexivity.
    - unfold den_substitution. destruct mp as [[a b]|]; [|reflexivity].
      cbn [shift_map token_line bind].
      destruct (o_jinja orc key) as [rendered|]; [|reflexivity].
      destruct (existsb (fun r => mem_str r (s_subrefs h)) (o_sub_names orc key)); [reflexivity|].
      rewrite (equiv_nested rd Heq).
      destruct (den_nested env orc rd top ho _ rendered a _ 0) as [[[ns h'] bb]|e]; reflexivity.
    - rewrite line_of_shift. destruct (line_of mp); reflexivity.
  Qed.

  Theorem den_tok_shift f : equiv (den_tok env orc f).
  Proof.
    induction f as [|f IH]; [intros top ho h t k Hm; reflexivity|].
    exact (equiv_step _ IH).
  Qed.

  (* a text rendered at the constant line shift k = the same text rendered at shift 0 with
     every line number k higher *)
  Theorem den_text_at_shift f top ho h text k :
    den_text_at env orc f top ho h text k
    = map_res (shift_dres k) (den_text_at env orc f top ho h text 0).
  Proof.
    unfold den_text_at.
    pose proof (so_P_mapped O_shift (s_env h) text) as Hm.
    destruct (o_P orc (s_env h) text) as [toks e']. cbn [fst] in Hm. apply drop_fm_mapped in Hm.
    set (ts := drop_front_matter toks) in *.
    rewrite (map_shift_tok_0 ts).
    replace (map (shift_tok 1) (map (shift_tok k) ts)) with (map (shift_tok k) (map (shift_tok 1) ts)).
    - apply (equiv_fold _ (den_tok_shift f)). rewrite mapped_shift_all. exact Hm.
    - rewrite !map_map. apply map_ext. intro t. rewrite !shift_tok_add. f_equal. lia.
  Qed.

  (* one admonition layer, line numbers stated exactly *)
  Section Exact.
    Hypothesis O_fence : fence_oracle env orc.

    Theorem adm_transparent_exact name first o k len X F e0 p attrs warns ns h b :
      wfW env orc (Adm false name first o k len) X ->
      parse_directive_text adm_class first (directive_content k (opt_lines o ++ X)) = Ok p ->
      o_opt_validate orc name (p_optblock p) = (attrs, warns) ->
      den_text_at env orc F false 0 (sh0 e0) (unlines X) 0 = Ok (ns, h, b) ->
      render_doc env orc (1 + F) e0 (unlines (print_lines (Adm false name first o k len) X))
      = Ok (directive_warnings p warns 1
            ++ [Node NAdm (name ++ attrs) (Some 1)
                  (map (shift_node
                          (1 + N.of_nat (p_off p - prepended_lines (is_colon k) (unlines (opt_lines o ++ X)))))
                       ns)], h).
    Proof.
      intros Hwf Hp Hval Hden.
      pose proof (directive_transparent env orc O_adm O_fence (Adm false name first o k len) X F e0) as HT.
      cbn [depth] in HT.
      set (sh := 1 + N.of_nat (p_off p - prepended_lines (is_colon k) (unlines (opt_lines o ++ X)))).
      specialize (HT (directive_warnings p warns 1
                      ++ [Node NAdm (name ++ attrs) (Some 1) (map (shift_node sh) ns)], h, false) Hwf).
      cbn [fst snd] in HT. apply HT. clear HT.
      cbn [expected cls_of]. rewrite Hp, Hval. cbn [bind fst snd].
      fold sh. rewrite (den_text_at_shift F false 0 (sh0 e0) (unlines X) sh). rewrite Hden.
      reflexivity.
    Qed.
  End Exact.

End Shift.
