(* C20: the lemmas behind the multi-step theorems of Props/C20.v (statements repeated there). *)
From Coq Require Import List NArith Bool.
From MV Require Import Base.PyStr Base.Res Nest.Raw Nest.RawProofs Gen.RawSites Gen.RawSrc Nest.RawSrcProofs Gen.SettingsSites.
Import ListNotations.
Open Scope N_scope.


Definition docs_py : str :=
  [109; 121; 115; 116; 95; 112; 97; 114; 115; 101; 114; 47; 95; 100; 111; 99; 115; 46; 112; 121].

Lemma C20_rest_untouched_l : forall doc : dnode,
  Rstrip doc (fst (post_process false doc))
  /\ (has_raw doc = false -> fst (post_process false doc) = doc)
  /\ post_process true doc = (doc, O)
  /\ snd (post_process false doc) = count_raw doc
  /\ (count_warning doc = O -> raw_flat doc = true ->
      count_warning (fst (post_process false doc)) = count_raw doc).
Proof.
  intro doc. repeat split.
  - apply rest_untouched.
  - apply strip_no_raw_id.
  - intros Hw Hf. simpl. rewrite (one_warning_each doc Hw). apply flat_counts. exact Hf.
Qed.

Lemma C20_all_raw_in_tree_l :
  length raw_sites = 6%nat
  /\ forallb (fun s => sink_in_tree_before_loop (rs_sink s) || str_eqb (rs_file s) docs_py) raw_sites = true
  /\ raw_loop_exact = true /\ raw_loop_after_render = true /\ raw_loop_top_level = true.
Proof. vm_compute. repeat split; reflexivity. Qed.

Lemma C20_include_refuses_before_io_l :
  (forall st name arg resolve resolve_std fs,      (* every argument, <standard> spelling included *)
      file_insertion_enabled st = false ->
      include_run_prefix st name arg resolve resolve_std fs = (RError 2 name, []))
  /\ (include_check_index = 0%nat /\ include_fs_before_check = 0%nat /\ include_check_level = 2)
  /\ (forall (regs : Type) render_other render_text resolve resolve_std fs st bs (r : regs),
        file_insertion_enabled st = false ->
        render_blocks regs render_other render_text resolve resolve_std fs st bs r
        = (fst (render_refused regs render_other bs r), snd (render_refused regs render_other bs r), [])
        /\ snd (render_refused regs render_other bs r)
           = snd (render_refused regs render_other (filter (fun b => negb (is_include b)) bs) r)
        /\ ((forall id r, forallb (fun n => negb (is_refusal n)) (fst (render_other id r)) = true) ->
            filter (fun n => negb (is_refusal n)) (fst (render_refused regs render_other bs r))
            = fst (render_refused regs render_other (filter (fun b => negb (is_include b)) bs) r))).
Proof.
  split; [exact include_refuses|]. split; [vm_compute; repeat split; reflexivity|].
  intros regs render_other render_text resolve resolve_std fs st bs r H. split; [|split].
  - apply blocks_refused. exact H.
  - apply refused_registries.
  - intro Ho. apply refused_nodes. exact Ho.
Qed.

Lemma C20_include_reads_when_enabled_l : forall st name arg resolve resolve_std fs,
  file_insertion_enabled st = true ->
  In (FsRead (include_path arg resolve resolve_std))
     (snd (include_run_prefix st name arg resolve resolve_std fs))
  /\ (is_standard_arg arg = true -> include_path arg resolve resolve_std = resolve_std (standard_inner arg))
  /\ (is_standard_arg arg = false -> include_path arg resolve resolve_std = resolve arg).
Proof.
  intros st name arg resolve resolve_std fs H. split.
  - apply include_reads_when_enabled. exact H.
  - apply include_path_forms.
Qed.

Lemma C20_src_is_model_l :
  (forall raw_enabled doc, post_process_src raw_enabled doc = post_process raw_enabled doc)
  /\ (forall st opts name arg resolve resolve_std fs slice circular,
        include_run_src st opts name arg resolve resolve_std fs slice circular
        = include_run_head st opts name arg resolve resolve_std fs slice circular).
Proof. split; [exact post_process_src_model | exact include_run_src_head]. Qed.

Lemma C20_no_raw_survives_src_l : forall doc : dnode,
  has_raw (fst (post_process_src false doc)) = false
  /\ Rstrip doc (fst (post_process_src false doc))
  /\ snd (post_process_src false doc) = count_raw doc
  /\ post_process_src true doc = (doc, O).
Proof.
  intro doc. rewrite !post_process_src_model. repeat split.
  - apply post_process_no_raw.
  - apply rest_untouched.
Qed.

Lemma C20_include_refuses_before_io_src_l :
  (forall st opts name arg resolve resolve_std fs slice circular,
      file_insertion_enabled st = false ->
      include_run_src st opts name arg resolve resolve_std fs slice circular = (HError 2 name, []))
  /\ (forall st opts name arg resolve resolve_std fs slice circular,
        file_insertion_enabled st = true ->
        In (FsRead (include_path arg resolve resolve_std))
           (snd (include_run_src st opts name arg resolve resolve_std fs slice circular))).
Proof.
  split; intros st opts name arg resolve resolve_std fs slice circular H;
    rewrite include_run_src_head; unfold include_run_head.
  - rewrite (include_refuses st name arg resolve resolve_std fs H). reflexivity.
  - pose proof (include_reads_when_enabled st name arg resolve resolve_std fs H) as Hr.
    destruct (include_run_prefix st name arg resolve resolve_std fs) as [[text|l m] tr]; cbn [snd] in *.
    + destruct (slice text); [|exact Hr]. destruct (io_literal opts); [exact Hr|].
      destruct (io_code opts); [exact Hr|]. destruct (circular _); exact Hr.
    + exact Hr.
Qed.

Lemma C20_settings_shared_l :
  length settings_sites = 19%nat
  /\ forallb (site_shares_settings settings_sites) settings_sites = true.
Proof. vm_compute. split; reflexivity. Qed.

Lemma C20_example_l :
  post_process false
    (DNode (KElem 0) [] [DNode (KElem 1) [] [DText [97]; DNode (KRaw [104; 116; 109; 108]) [] [DText [60]]];
                         DNode (KRaw [108; 97; 116; 101; 120]) [] []; DText [98]])
  = (DNode (KElem 0) [] [DNode (KElem 1) [] [DText [97]; raw_warning]; raw_warning; DText [98]], 2%nat).
Proof. vm_compute. reflexivity. Qed.
