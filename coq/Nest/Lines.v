(* Line-level string operations used by the nested-parse machinery (C06):
   split_lines (newline separators only), "\n".join, text + "\n" per line,
   str.isspace / lstrip / strip, str.split(None, k).  Executable definitions first,
   their algebraic lemmas after. Self-contained (only Base.PyStr is used). *)
From Coq Require Import List NArith Bool Lia.
From MV Require Import Base.PyStr.
Import ListNotations.
Open Scope N_scope.

Definition c_nl : N := 10.
Definition c_cr : N := 13.
Definition nl : str := [c_nl].

(* the characters at which myst_parser.parsers.directives.split_lines breaks a line
   (_RE_NEWLINE = r"\r\n|\r|\n", fix 620bbcf): newlines only, as markdown-it; unlike
   str.splitlines, \v \f \x1c-\x1e \x85 U+2028 U+2029 stay inside their line *)
Definition is_sep (c : N) : bool := mem_N c [10; 13].

(* split_lines(text): "\r\n" is one break; no empty last line for a trailing break *)
Fixpoint split_lines (s : str) : list str :=
  match s with
  | [] => []
  | c :: s' =>
      if is_sep c then
        [] :: (match s' with
               | d :: r => if (c =? c_cr) && (d =? c_nl) then split_lines r else split_lines s'
               | [] => []
               end)
      else match split_lines s' with
           | [] => [[c]]
           | l :: ls => (c :: l) :: ls
           end
  end.

(* every line followed by "\n" (a text as markdown-it sees it) *)
Fixpoint unlines (ls : list str) : str :=
  match ls with
  | [] => []
  | l :: r => l ++ nl ++ unlines r
  end.

Definition sepfree (l : str) : bool := forallb (fun c => negb (is_sep c)) l.
Definition all_sepfree (ls : list str) : bool := forallb sepfree ls.

(* str.isspace() per character *)
Definition is_space (c : N) : bool :=
  ((9 <=? c) && (c <=? 13)) || ((28 <=? c) && (c <=? 32)) || (c =? 133) || (c =? 160)
  || (c =? 5760) || ((8192 <=? c) && (c <=? 8202)) || (c =? 8232) || (c =? 8233)
  || (c =? 8239) || (c =? 8287) || (c =? 12288).

Fixpoint lstrip (s : str) : str :=
  match s with
  | [] => []
  | c :: s' => if is_space c then lstrip s' else s
  end.

Definition rstrip (s : str) : str := rev (lstrip (rev s)).
Definition strip (s : str) : str := rstrip (lstrip s).

(* "not s.strip()" *)
Definition is_blank (s : str) : bool := forallb is_space s.

(* first whitespace-delimited word of a string that starts with a non-space, and the rest *)
Fixpoint span_word (s : str) : str * str :=
  match s with
  | [] => ([], [])
  | c :: s' => if is_space c then ([], s)
               else let '(w, r) := span_word s' in (c :: w, r)
  end.

(* s.split(None, k) : at most k splits, the remainder keeps its trailing whitespace *)
Fixpoint split_ws_fuel (fuel : nat) (k : nat) (s : str) : list str :=
  match fuel with
  | O => []
  | S f =>
      let s1 := lstrip s in
      match s1 with
      | [] => []
      | _ :: _ =>
          match k with
          | O => [s1]
          | S k' => let '(w, r) := span_word s1 in w :: split_ws_fuel f k' r
          end
      end
  end.

Definition split_ws_max (k : nat) (s : str) : list str := split_ws_fuel (S (length s)) k s.
(* s.split() *)
Definition split_ws (s : str) : list str := split_ws_max (length s) s.

Fixpoint last_opt {A} (l : list A) : option A :=
  match l with [] => None | [x] => Some x | _ :: r => last_opt r end.

(* what "\n".join(ls).split_lines() returns for separator-free lines: one trailing "" is lost *)
Fixpoint strip_last_empty (ls : list str) : list str :=
  match ls with
  | [] => []
  | [l] => match l with [] => [] | _ => [l] end
  | l :: r => l :: strip_last_empty r
  end.

(* ------------------------------------------------------------------ lemmas *)

Lemma split_lines_sepfree_nonempty l :
  sepfree l = true -> l <> [] -> split_lines l = [l].
Proof.
  induction l as [|c l IH]; intros H Hne; [congruence|].
  simpl in H. apply andb_true_iff in H as [Hc Hl].
  simpl. destruct (is_sep c); [discriminate|].
  destruct l as [|d l'].
  - reflexivity.
  - rewrite IH; auto. discriminate.
Qed.

Lemma split_lines_line l rest :
  sepfree l = true -> split_lines (l ++ nl ++ rest) = l :: split_lines rest.
Proof.
  induction l as [|c l IH]; intro H.
  - simpl. destruct rest as [|d r]; [reflexivity|].
    replace ((c_nl =? c_cr) && (d =? c_nl)) with false by reflexivity. reflexivity.
  - simpl in H. apply andb_true_iff in H as [Hc Hl].
    change ((c :: l) ++ nl ++ rest) with (c :: (l ++ nl ++ rest)).
    cbn [split_lines]. destruct (is_sep c); [discriminate|].
    rewrite IH by assumption. reflexivity.
Qed.

Lemma split_lines_unlines ls :
  all_sepfree ls = true -> split_lines (unlines ls) = ls.
Proof.
  induction ls as [|l r IH]; intro H; [reflexivity|].
  simpl in H. apply andb_true_iff in H as [Hl Hr].
  cbn [unlines]. rewrite split_lines_line by assumption. rewrite IH by assumption. reflexivity.
Qed.

Lemma join_cons2 sep a b r : join sep (a :: b :: r) = a ++ sep ++ join sep (b :: r).
Proof. reflexivity. Qed.

Lemma split_lines_join ls :
  all_sepfree ls = true -> split_lines (join nl ls) = strip_last_empty ls.
Proof.
  induction ls as [|l r IH]; intro H; [reflexivity|].
  simpl in H. apply andb_true_iff in H as [Hl Hr].
  destruct r as [|b r'].
  - cbn [join strip_last_empty]. destruct l as [|c l']; [reflexivity|].
    apply split_lines_sepfree_nonempty; [assumption|discriminate].
  - rewrite join_cons2. rewrite split_lines_line by assumption.
    rewrite IH by assumption. reflexivity.
Qed.

Lemma strip_last_empty_id ls x :
  last_opt ls = Some x -> x <> [] -> strip_last_empty ls = ls.
Proof.
  induction ls as [|l r IH]; intros H Hx; [reflexivity|].
  destruct r as [|b r'].
  - simpl in H. inversion H; subst. destruct x; [congruence|reflexivity].
  - change (strip_last_empty (l :: b :: r')) with (l :: strip_last_empty (b :: r')).
    rewrite IH; auto.
Qed.

(* join + "\n" of a non-empty line list is the text itself *)
Lemma join_nl_unlines ls : ls <> [] -> join nl ls ++ nl = unlines ls.
Proof.
  induction ls as [|l r IH]; intro H; [congruence|].
  destruct r as [|b r'].
  - reflexivity.
  - rewrite join_cons2. change (unlines (l :: b :: r')) with (l ++ nl ++ unlines (b :: r')).
    rewrite <- IH by discriminate. rewrite <- !app_assoc. reflexivity.
Qed.

Lemma last_opt_cons {A} (a : A) r : r <> [] -> last_opt (a :: r) = last_opt r.
Proof. destruct r; [congruence|reflexivity]. Qed.

Lemma last_opt_app {A} (a : list A) b x : last_opt b = Some x -> last_opt (a ++ b) = Some x.
Proof.
  induction a as [|y a IH]; intro H; [exact H|].
  simpl app. destruct (a ++ b) eqn:E.
  - destruct a; destruct b; simpl in *; try discriminate.
  - rewrite <- E. specialize (IH H). rewrite E in *. exact IH.
Qed.

Lemma lstrip_nonspace c s : is_space c = false -> lstrip (c :: s) = c :: s.
Proof. intro H. simpl. rewrite H. reflexivity. Qed.

Lemma lstrip_app_nonblank l r : is_blank l = false -> lstrip (l ++ r) = lstrip l ++ r.
Proof.
  induction l as [|c l IH]; intro H; [discriminate|].
  simpl in H. simpl. destruct (is_space c) eqn:E.
  - simpl in H. apply IH. exact H.
  - reflexivity.
Qed.

Lemma lstrip_blank_app l r : is_blank l = true -> lstrip (l ++ r) = lstrip r.
Proof.
  induction l as [|c l IH]; intro H; [reflexivity|].
  simpl in H. apply andb_true_iff in H as [Hc Hl]. simpl. rewrite Hc. auto.
Qed.

Lemma startswith_app s r p : startswith s p = true -> startswith (s ++ r) p = true.
Proof.
  revert s; induction p as [|c p IH]; intros s H.
  - destruct s; simpl; [destruct r|]; reflexivity.
  - destruct s as [|x s]; [discriminate|]. simpl in *.
    apply andb_true_iff in H as [H1 H2]. rewrite H1. simpl. auto.
Qed.

Lemma startswith_app_false l r p :
  startswith l p = false -> (length p <= length l)%nat -> startswith (l ++ r) p = false.
Proof.
  revert l; induction p as [|c p IH]; intros l H Hlen.
  - destruct l; discriminate.
  - destruct l as [|x l]; [simpl in Hlen; lia|]. simpl in *.
    destruct (c =? x); simpl in *; [apply IH; [assumption|lia]|reflexivity].
Qed.
