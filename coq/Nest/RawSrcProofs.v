(* C20: the definitions regenerated from the source (Gen/RawSrc.v) equal the hand-written model
   of Nest/Raw.v.  These are the proof obligations that an edit of the raw_enabled block of
   Parser.parse or of the head of MockIncludeDirective.run breaks. *)
From Coq Require Import List Arith NArith Bool Lia.
From MV Require Import Base.PyStr Base.Res Nest.Raw Nest.RawProofs Gen.RawSrc.
Import ListNotations.
Open Scope N_scope.

(* ---- the include head ---- *)
Theorem include_run_src_head st opts name arg resolve resolve_std fs slice circular :
  include_run_src st opts name arg resolve resolve_std fs slice circular
  = include_run_head st opts name arg resolve resolve_std fs slice circular.
Proof.
  unfold include_run_src, include_run_head, include_run_prefix, include_path.
  destruct (file_insertion_enabled st); cbn [negb]; [|reflexivity].
  destruct (fs (if is_standard_arg arg then resolve_std (standard_inner arg) else resolve arg));
    [|reflexivity].
  destruct (slice s); [|reflexivity].
  destruct (io_literal opts); [reflexivity|]. destruct (io_code opts); [reflexivity|].
  destruct (circular _); reflexivity.
Qed.

(* ---- the loop ---- *)
Fixpoint trav_kids (i : nat) (l : list dnode) : list (list nat) :=
  match l with
  | [] => []
  | c :: r => map (cons i) (traverse_raw c) ++ trav_kids (S i) r
  end.

Lemma traverse_raw_node k p ks :
  traverse_raw (DNode k p ks) = (if is_raw k then [[]] else []) ++ trav_kids O ks.
Proof. reflexivity. Qed.

Definition rep (d : dnode) (p : list nat) : dnode := replace_at p raw_warning d.

Lemma rep_warning_nonempty ps :
  Forall (fun p => p <> []) ps -> fold_left rep ps raw_warning = raw_warning.
Proof.
  induction 1 as [|p ps Hp _ IH]; [reflexivity|].
  simpl. destruct p as [|i p']; [congruence|]. unfold rep at 2. simpl.
  destruct i; exact IH.
Qed.

Lemma trav_kids_nonempty i l : Forall (fun p => p <> []) (trav_kids i l).
Proof.
  revert i. induction l as [|c r IH]; intro i; simpl; [constructor|].
  apply Forall_app. split; [|apply IH].
  apply Forall_forall. intros p Hp. apply in_map_iff in Hp as [q [Hq _]]. subst. discriminate.
Qed.

Lemma nth_error_replace_nth_d_eq i x l :
  (i < length l)%nat -> nth_error (replace_nth_d i x l) i = Some x.
Proof. revert i; induction l; intros [|i] H; simpl in *; try lia; auto. apply IHl. lia. Qed.

Lemma replace_nth_d_twice i x y l : replace_nth_d i x (replace_nth_d i y l) = replace_nth_d i x l.
Proof. revert i; induction l; intros [|i]; simpl; auto. f_equal. apply IHl. Qed.

(* the paths below child i only touch child i *)
Lemma fold_child k pl ks i c qs :
  nth_error ks i = Some c ->
  fold_left rep (map (cons i) qs) (DNode k pl ks)
  = DNode k pl (replace_nth_d i (fold_left rep qs c) ks).
Proof.
  revert c ks. induction qs as [|q qs IH]; intros c ks Hc.
  - simpl. f_equal. clear -Hc. revert i Hc. induction ks; intros [|i] H; simpl in *; try discriminate.
    + congruence.
    + f_equal. auto.
  - simpl. unfold rep at 2. simpl. rewrite Hc.
    rewrite (IH (replace_at q raw_warning c) (replace_nth_d i (replace_at q raw_warning c) ks)).
    + rewrite replace_nth_d_twice. reflexivity.
    + apply nth_error_replace_nth_d_eq. apply nth_error_Some. congruence.
Qed.

Lemma replace_nth_d_app_mid a x c r :
  replace_nth_d (length a) x (a ++ c :: r) = a ++ x :: r.
Proof. induction a; simpl; auto. f_equal. exact IHa. Qed.

Lemma fold_kids k pl : forall r a,
  Forall (fun c => fold_left rep (traverse_raw c) c = strip_raw c) r ->
  fold_left rep (trav_kids (length a) r) (DNode k pl (a ++ r)) = DNode k pl (a ++ map strip_raw r).
Proof.
  induction r as [|c r IH]; intros a H; [reflexivity|].
  inversion H as [|? ? Hc Hr]; subst.
  simpl trav_kids. rewrite fold_left_app.
  rewrite (fold_child k pl (a ++ c :: r) (length a) c).
  2:{ rewrite nth_error_app2 by lia. rewrite Nat.sub_diag. reflexivity. }
  rewrite Hc. rewrite replace_nth_d_app_mid.
  replace (a ++ strip_raw c :: r) with ((a ++ [strip_raw c]) ++ r) by (rewrite <- app_assoc; reflexivity).
  replace (S (length a)) with (length (a ++ [strip_raw c])) by (rewrite app_length; simpl; lia).
  rewrite (IH (a ++ [strip_raw c]) Hr). rewrite <- app_assoc. reflexivity.
Qed.

Lemma loop_is_strip t : fold_left rep (traverse_raw t) t = strip_raw t.
Proof.
  induction t as [s|k p ks IH] using dnode_ind'; [reflexivity|].
  rewrite traverse_raw_node. simpl strip_raw. destruct (is_raw k) eqn:E.
  - simpl. unfold rep at 2. simpl. apply rep_warning_nonempty. apply trav_kids_nonempty.
  - simpl app. apply (fold_kids k p ks [] IH).
Qed.

Lemma trav_kids_length i l :
  length (trav_kids i l) = fold_right (fun c acc => (length (traverse_raw c) + acc)%nat) O l.
Proof.
  revert i. induction l as [|c r IH]; intro i; [reflexivity|].
  simpl. rewrite app_length, map_length, IH. reflexivity.
Qed.

Lemma traverse_count t : length (traverse_raw t) = count_raw t.
Proof.
  induction t as [s|k p ks IH] using dnode_ind'; [reflexivity|].
  rewrite traverse_raw_node, app_length, trav_kids_length. simpl count_raw.
  f_equal; [destruct (is_raw k); reflexivity|].
  induction IH as [|c r Hc Hr IHr]; [reflexivity|]. simpl. rewrite Hc, IHr. reflexivity.
Qed.

Lemma src_fold ps : forall d n,
  fold_left (fun s node => let warning := raw_warning in
                           let s := (fst s, S (snd s)) in
                           let s := (parent_replace (fst s) node warning, snd s) in s) ps (d, n)
  = (fold_left rep ps d, (n + length ps)%nat).
Proof.
  induction ps as [|p ps IH]; intros d n; simpl; [f_equal; lia|].
  rewrite IH. unfold rep at 2, parent_replace. f_equal. lia.
Qed.

Theorem post_process_src_model raw_enabled doc :
  post_process_src raw_enabled doc = post_process raw_enabled doc.
Proof.
  unfold post_process_src, post_process. destruct raw_enabled; cbn [negb]; [reflexivity|].
  cbn [fst]. rewrite src_fold. rewrite loop_is_strip, traverse_count. reflexivity.
Qed.
