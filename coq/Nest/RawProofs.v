(* C20: proofs about Nest/Raw.v *)
From Coq Require Import List Arith NArith Bool Lia.
From MV Require Import Base.PyStr Base.Res Nest.Raw.
Import ListNotations.
Open Scope N_scope.

Section DnodeInd.
  Variable Q : dnode -> Prop.
  Hypothesis Htext : forall s, Q (DText s).
  Hypothesis Hnode : forall k p ks, Forall Q ks -> Q (DNode k p ks).
  Fixpoint dnode_ind' (n : dnode) : Q n :=
    match n with
    | DText s => Htext s
    | DNode k p ks =>
        Hnode k p ks ((fix all (l : list dnode) : Forall Q l :=
                         match l with
                         | [] => Forall_nil Q
                         | c :: r => Forall_cons c (dnode_ind' c) (all r)
                         end) ks)
    end.
End DnodeInd.

(* ---- no raw node survives, whatever its format and depth ---- *)
Lemma no_raw_survives t : has_raw (strip_raw t) = false.
Proof.
  induction t as [s|k p ks IH] using dnode_ind'; [reflexivity|].
  simpl. destruct (is_raw k) eqn:E; [reflexivity|].
  simpl. rewrite E. simpl.
  induction IH as [|c r Hc Hr IHr]; [reflexivity|].
  simpl. rewrite Hc. exact IHr.
Qed.

Lemma post_process_no_raw doc : has_raw (fst (post_process false doc)) = false.
Proof. apply no_raw_survives. Qed.

Lemma post_process_enabled doc : post_process true doc = (doc, O).
Proof. reflexivity. Qed.

(* ---- every other node stays in place and order ---- *)
Inductive Rstrip : dnode -> dnode -> Prop :=
| RS_text : forall s, Rstrip (DText s) (DText s)
| RS_raw : forall f p ks, Rstrip (DNode (KRaw f) p ks) raw_warning
| RS_node : forall k p ks ks', is_raw k = false -> Forall2 Rstrip ks ks' ->
                               Rstrip (DNode k p ks) (DNode k p ks').

Lemma rest_untouched t : Rstrip t (strip_raw t).
Proof.
  induction t as [s|k p ks IH] using dnode_ind'; [constructor|].
  simpl. destruct k as [f|l|tag]; simpl; try constructor; try reflexivity.
  - induction IH; simpl; constructor; auto.
  - induction IH; simpl; constructor; auto.
Qed.

Lemma strip_no_raw_id t : has_raw t = false -> strip_raw t = t.
Proof.
  induction t as [s|k p ks IH] using dnode_ind'; intro H; [reflexivity|].
  simpl in *. apply orb_false_iff in H as [Hk Hks]. rewrite Hk. f_equal.
  induction IH as [|c r Hc Hr IHr]; [reflexivity|].
  simpl in *. apply orb_false_iff in Hks as [H1 H2]. rewrite Hc by assumption. f_equal. auto.
Qed.

Lemma fold_sum_zero {A} (f : A -> nat) l :
  fold_right (fun c acc => (f c + acc)%nat) O l = O -> Forall (fun c => f c = O) l.
Proof.
  induction l as [|c r IH]; simpl; intro H; constructor; [lia|apply IH; lia].
Qed.

(* exactly one warning node per removed (top-most) raw node *)
Lemma one_warning_each t :
  count_warning t = O -> count_warning (strip_raw t) = count_top_raw t.
Proof.
  induction t as [s|k p ks IH] using dnode_ind'; intro H; [reflexivity|].
  simpl in *. destruct (is_raw k) eqn:E.
  - destruct k; try discriminate. reflexivity.
  - simpl.
    assert (Hself : (match k with
                     | KSysMsg 2 => if str_eqb p raw_disabled_msg then 1 else 0
                     | _ => 0 end = 0)%nat) by lia.
    rewrite Hself. simpl.
    assert (Hks : Forall (fun c => count_warning c = O) ks) by (apply fold_sum_zero; lia).
    clear H Hself. induction IH as [|c r Hc Hr IHr]; [reflexivity|].
    simpl. inversion Hks; subst. rewrite Hc by assumption. f_equal. auto.
Qed.

(* raw nodes hold text only: then every raw node is a top-most one *)
Fixpoint raw_flat (n : dnode) : bool :=
  match n with
  | DText _ => true
  | DNode k _ ks => if is_raw k then negb (existsb has_raw ks) else forallb raw_flat ks
  end.

Lemma count_raw_zero t : has_raw t = false -> count_raw t = O.
Proof.
  induction t as [s|k p ks IH] using dnode_ind'; intro H; [reflexivity|].
  simpl in *. apply orb_false_iff in H as [Hk Hks]. rewrite Hk. simpl.
  induction IH as [|c r Hc Hr IHr]; [reflexivity|].
  simpl in *. apply orb_false_iff in Hks as [H1 H2]. rewrite Hc by assumption. simpl. auto.
Qed.

Lemma flat_counts t : raw_flat t = true -> count_top_raw t = count_raw t.
Proof.
  induction t as [s|k p ks IH] using dnode_ind'; intro H; [reflexivity|].
  simpl in *. destruct (is_raw k) eqn:E.
  - apply negb_true_iff in H. simpl.
    assert (Hz : fold_right (fun c acc => (count_raw c + acc)%nat) O ks = O).
    { clear IH. induction ks as [|c r IHr]; [reflexivity|].
      simpl in *. apply orb_false_iff in H as [H1 H2].
      rewrite (count_raw_zero c H1). simpl. auto. }
    rewrite Hz. reflexivity.
  - simpl. induction IH as [|c r Hc Hr IHr]; [reflexivity|].
    simpl in *. apply andb_true_iff in H as [H1 H2]. rewrite Hc by assumption. f_equal. auto.
Qed.

(* ---- include refuses before any file-system operation ---- *)
Lemma include_refuses st name arg resolve resolve_std fs :
  file_insertion_enabled st = false ->
  include_run_prefix st name arg resolve resolve_std fs = (RError 2 name, []).
Proof. intro H. unfold include_run_prefix. rewrite H. reflexivity. Qed.

Lemma include_reads_when_enabled st name arg resolve resolve_std fs :
  file_insertion_enabled st = true ->
  In (FsRead (include_path arg resolve resolve_std))
     (snd (include_run_prefix st name arg resolve resolve_std fs)).
Proof.
  intro H. unfold include_run_prefix. rewrite H. simpl.
  destruct (fs (include_path arg resolve resolve_std)); cbn [snd]; rewrite !in_app_iff; simpl; intuition.
Qed.

(* both argument spellings: the ordinary path and the <standard include> *)
Lemma include_path_forms arg resolve resolve_std :
  (is_standard_arg arg = true -> include_path arg resolve resolve_std = resolve_std (standard_inner arg))
  /\ (is_standard_arg arg = false -> include_path arg resolve resolve_std = resolve arg).
Proof. unfold include_path. split; intro H; rewrite H; reflexivity. Qed.

Section Doc.
  Variable regs : Type.
  Variable render_other : N -> regs -> list dnode * regs.
  Variable render_text : str -> regs -> list dnode * regs.
  Variable resolve : str -> str.
  Variable resolve_std : str -> str.
  Variable fs : str -> option str.

  Definition refusal (name content : str) : dnode :=
    DNode (KSysMsg 2) name [DNode (KElem 0) content []].

  (* the other blocks rendered one after the other; one refusal node where an include stood *)
  Fixpoint render_refused (bs : list block) (r : regs) : list dnode * regs :=
    match bs with
    | [] => ([], r)
    | BOther id :: rest =>
        let '(ns, r1) := render_other id r in
        let '(ms, r2) := render_refused rest r1 in (ns ++ ms, r2)
    | BInclude name arg content :: rest =>
        let '(ms, r2) := render_refused rest r in (refusal name content :: ms, r2)
    end.

  Lemma blocks_refused st bs : file_insertion_enabled st = false ->
    forall r, render_blocks regs render_other render_text resolve resolve_std fs st bs r
              = (fst (render_refused bs r), snd (render_refused bs r), []).
  Proof.
    intro H. induction bs as [|b rest IH]; intro r; [reflexivity|].
    destruct b as [id|name arg content]; simpl.
    - destruct (render_other id r) as [ns r1]. rewrite IH.
      destruct (render_refused rest r1) as [ms r2]. reflexivity.
    - rewrite (include_refuses st name arg resolve resolve_std fs H). rewrite IH.
      destruct (render_refused rest r) as [ms r2]. reflexivity.
  Qed.

  (* the registries at the end are those of the document without the include directives *)
  Lemma refused_registries bs : forall r,
    snd (render_refused bs r) = snd (render_refused (filter (fun b => negb (is_include b)) bs) r).
  Proof.
    induction bs as [|b rest IH]; intro r; [reflexivity|].
    destruct b as [id|name arg content]; simpl.
    - destruct (render_other id r) as [ns r1]. specialize (IH r1).
      destruct (render_refused rest r1) as [ms r2].
      destruct (render_refused (filter (fun b => negb (is_include b)) rest) r1) as [ms' r2'].
      exact IH.
    - specialize (IH r). destruct (render_refused rest r) as [ms r2]. exact IH.
  Qed.

  Definition is_refusal (n : dnode) : bool :=
    match n with DNode (KSysMsg 2) _ [DNode (KElem 0) _ []] => true | _ => false end.

  (* ... and so are the nodes, once the refusal nodes are taken out - provided no other block
     produces a node of that very shape *)
  Lemma refused_nodes bs :
    (forall id r, forallb (fun n => negb (is_refusal n)) (fst (render_other id r)) = true) ->
    forall r,
      filter (fun n => negb (is_refusal n)) (fst (render_refused bs r))
      = fst (render_refused (filter (fun b => negb (is_include b)) bs) r).
  Proof.
    intro Hother. induction bs as [|b rest IH]; intro r; [reflexivity|].
    destruct b as [id|name arg content]; simpl.
    - pose proof (Hother id r) as Ho. destruct (render_other id r) as [ns r1]. specialize (IH r1).
      destruct (render_refused rest r1) as [ms r2].
      destruct (render_refused (filter (fun b => negb (is_include b)) rest) r1) as [ms' r2'].
      simpl in *. rewrite filter_app, IH. f_equal.
      clear -Ho. induction ns as [|n ns IHn]; [reflexivity|].
      simpl in *. apply andb_true_iff in Ho as [H1 H2]. rewrite H1. f_equal. auto.
    - specialize (IH r). destruct (render_refused rest r) as [ms r2]. simpl in *. exact IH.
  Qed.
End Doc.
