(* C06: the fence model of Fence.v satisfies O_fence_content, and so does the toy oracle
   instance built on it: fence_oracle has a concrete instance. *)
From Coq Require Import List Arith NArith Bool Lia.
From MV Require Import Base.PyStr Base.Res Nest.Lines Nest.Split Nest.Fence Nest.Nest
  Nest.SimProofs Nest.WrapSpec Nest.Toy.
Import ListNotations.
Open Scope N_scope.

Lemma fchar_kind k : fence_kind_of (fchar k) = Some k.
Proof. destruct k; reflexivity. Qed.

Lemma fchar_not_space k : (fchar k =? c_space) = false.
Proof. destruct k; reflexivity. Qed.

Lemma fchar_not_blank k : ((fchar k =? c_space) || (fchar k =? 9)) = false.
Proof. destruct k; reflexivity. Qed.

Lemma fchar_not_sep k : is_sep (fchar k) = false.
Proof. destruct k; reflexivity. Qed.

Lemma count_char_repeat c n rest :
  startswith rest [c] = false -> count_char c (repeat c n ++ rest) = n.
Proof.
  intro H. induction n as [|n IH]; simpl.
  - destruct rest as [|x r]; [reflexivity|]. simpl in *.
    destruct (c =? x) eqn:E.
    + destruct r; discriminate.
    + rewrite N.eqb_sym, E. reflexivity.
  - rewrite N.eqb_refl. f_equal. exact IH.
Qed.

Lemma skipn_repeat {A} (c : A) n rest : skipn n (repeat c n ++ rest) = rest.
Proof. induction n; simpl; auto. Qed.

Lemma sepfree_repeat k n : sepfree (repeat (fchar k) n) = true.
Proof. induction n; simpl; [reflexivity|]. rewrite fchar_not_sep. exact IHn. Qed.

Lemma sepfree_app a b : sepfree (a ++ b) = sepfree a && sepfree b.
Proof. unfold sepfree. apply forallb_app. Qed.

Lemma skip_blanks_fence k n rest :
  (0 < n)%nat -> skip_blanks (repeat (fchar k) n ++ rest) = repeat (fchar k) n ++ rest.
Proof. intro H. destruct n; [lia|]. simpl. rewrite fchar_not_blank. reflexivity. Qed.

Lemma closes_close_line k len : (0 < len)%nat -> closes k len (close_line k len) = true.
Proof.
  intro H. unfold closes, close_line.
  rewrite <- (app_nil_r (repeat (fchar k) len)).
  rewrite (skip_blanks_fence k len [] H).
  rewrite (count_char_repeat (fchar k) len []) by reflexivity.
  rewrite skipn_repeat. rewrite Nat.leb_refl. reflexivity.
Qed.

Lemma scan_close_body k len body cl :
  no_closer k len body = true -> closes k len cl = true ->
  scan_close k len (body ++ [cl]) = (body, Some []).
Proof.
  intros Hn Hc. induction body as [|l r IH]; simpl.
  - rewrite Hc. reflexivity.
  - simpl in Hn. apply andb_true_iff in Hn as [H1 H2]. apply negb_true_iff in H1.
    rewrite H1. rewrite (IH H2). reflexivity.
Qed.

Lemma map_strip0 body : map (strip_upto 0) body = body.
Proof. induction body; simpl; [reflexivity|]. f_equal. exact IHbody. Qed.

Lemma all_sepfree_snoc a l : all_sepfree (a ++ [l]) = all_sepfree a && sepfree l.
Proof. unfold all_sepfree. rewrite forallb_app. simpl. rewrite andb_true_r. reflexivity. Qed.

(* the fence model on the lines of a safe fence *)
Lemma parse_fence_safe k len info body :
  fence_safe k len info body = true ->
  parse_fence ((repeat (fchar k) len ++ info) :: body ++ [close_line k len])
  = Some {| fe_colon := is_colon k; fe_info := info; fe_content := unlines body;
            fe_lines := N.of_nat (length body) + 2; fe_rest := [] |}.
Proof.
  unfold fence_safe, info_safe. intro H.
  apply andb_true_iff in H as [H Hnc]. apply andb_true_iff in H as [H Hsf].
  apply andb_true_iff in H as [Hlen Hinfo]. apply andb_true_iff in Hinfo as [Hinfo Hbt].
  apply andb_true_iff in Hinfo as [Hisf Hstart]. apply negb_true_iff in Hstart.
  apply Nat.leb_le in Hlen.
  destruct len as [|len']; [lia|]. set (len := S len') in *.
  unfold parse_fence.
  assert (Hlead : count_lead_spaces (repeat (fchar k) len ++ info) = O).
  { unfold len. simpl. rewrite fchar_not_space. reflexivity. }
  rewrite Hlead. cbn [Nat.ltb Nat.leb skipn].
  assert (Hhd : exists r, repeat (fchar k) len ++ info = fchar k :: r).
  { unfold len. simpl. eexists; reflexivity. }
  destruct Hhd as [r Hr]. rewrite Hr. rewrite fchar_kind. rewrite <- Hr.
  rewrite (count_char_repeat (fchar k) len info Hstart).
  replace (len <? 3)%nat with false by (symmetry; apply Nat.ltb_ge; lia).
  rewrite skipn_repeat.
  replace (match k with Backtick => mem_N 96 info | _ => false end) with false.
  2:{ destruct k; try reflexivity. apply negb_true_iff in Hbt. symmetry. exact Hbt. }
  rewrite (scan_close_body k len body (close_line k len) Hnc (closes_close_line k len ltac:(lia))).
  rewrite map_strip0.
  destruct (len <=? 2)%nat eqn:E; [apply Nat.leb_le in E; lia | reflexivity].
Qed.

Lemma fence_lines_sepfree k len info body :
  fence_safe k len info body = true ->
  all_sepfree ((repeat (fchar k) len ++ info) :: body ++ [close_line k len]) = true.
Proof.
  unfold fence_safe, info_safe. intro H.
  apply andb_true_iff in H as [H Hnc]. apply andb_true_iff in H as [H Hsf].
  apply andb_true_iff in H as [Hlen Hinfo]. apply andb_true_iff in Hinfo as [Hinfo Hbt].
  apply andb_true_iff in Hinfo as [Hisf Hstart].
  change (all_sepfree ((repeat (fchar k) len ++ info) :: body ++ [close_line k len]))
    with (sepfree (repeat (fchar k) len ++ info) && all_sepfree (body ++ [close_line k len])).
  rewrite sepfree_app, sepfree_repeat, Hisf. rewrite all_sepfree_snoc, Hsf.
  unfold close_line. rewrite sepfree_repeat. reflexivity.
Qed.

(* O_fence_content holds for the toy oracle instance: the hypothesis of the transparency
   theorems is satisfiable together with O_adm *)
Theorem toy_fence_oracle : fence_oracle bool toy.
Proof.
  intros e k len info body Hsafe. unfold fence_text. cbn [o_P toy]. unfold toy_P.
  rewrite (split_lines_unlines _ (fence_lines_sepfree k len info body Hsafe)).
  cbv zeta.
  set (ls := (repeat (fchar k) len ++ info) :: body ++ [close_line k len]).
  pose proof (parse_fence_safe k len info body Hsafe) as Hp. fold ls in Hp.
  assert (Hd : forall n, toy_defs (S n) ls = false).
  { intro n. cbn [toy_defs]. unfold ls at 1. fold ls. rewrite Hp. cbn [fe_rest].
    destruct n; reflexivity. }
  assert (Hs : forall n d, toy_scan (S n) d ls 0
                           = [TFence (is_colon k) info (unlines body) (Some (0, N.of_nat (length body) + 2))]).
  { intros n d. cbn [toy_scan]. unfold ls at 1. fold ls. rewrite Hp.
    cbn [fe_rest fe_colon fe_info fe_content fe_lines].
    replace (toy_scan n d [] (0 + (N.of_nat (length body) + 2))) with (@nil tok)
      by (destruct n; reflexivity).
    reflexivity. }
  rewrite Hd, Hs, orb_false_r. reflexivity.
Qed.
