(* C06: what "transparent" means for the wrappers, and the oracle hypotheses on the Markdown
   parser that the transparency theorems use.  Definitions only. *)
From Coq Require Import List Arith NArith Bool.
From MV Require Import Base.PyStr Base.Res Nest.Lines Nest.Split Nest.Nest.
Import ListNotations.
Open Scope N_scope.

Section WrapSpec.
  Variable env : Type.
  Variable orc : oracles env.
  Local Notation shared := (shared env).
  Local Notation dres := (dres env).

  (* The nodes (and registries) the text denotes when it is parsed from registries h and its
     tokens carry line numbers shifted by the constant k - exactly what nested_render_text
     followed by _render_tokens does with k = lineno; k = 0 is the document's own rendering. *)
  Definition den_text_at (f : nat) (top : bool) (ho : N) (h : shared) (text : str) (k : N) : res dres :=
    let '(toks, e') := o_P orc (s_env h) text in
    den_fold (den_tok env orc f top ho) (set_env e' h)
             (map (shift_tok 1) (map (shift_tok k) (drop_front_matter toks))).

  (* ---- O_fence_content ----
     A fence token's content is exactly the lines between the fences; backtick, tilde and colon
     fences alike; parsing a fence leaves the environment as it was. *)
  Definition info_safe (k : fkind) (info : str) : bool :=
    sepfree info
    && negb (startswith info [fchar k])
    && (match k with Backtick => negb (mem_N (fchar Backtick) info) | _ => true end).

  Definition fence_safe (k : fkind) (len : nat) (info : str) (body : list str) : bool :=
    (3 <=? len)%nat && info_safe k info && all_sepfree body && no_closer k len body.

  Definition fence_text (k : fkind) (len : nat) (info : str) (body : list str) : str :=
    unlines ((repeat (fchar k) len ++ info) :: body ++ [close_line k len]).

  Definition fence_oracle : Prop :=
    forall e k len info body,
      fence_safe k len info body = true ->
      o_P orc e (fence_text k len info body)
      = ([TFence (is_colon k) info (unlines body) (Some (0, N.of_nat (length body) + 2))], e).

  (* ---- admonition wrappers ---- *)
  Definition info_of (name first : str) : str :=
    [c_lbrace] ++ name ++ [c_rbrace] ++ (match first with [] => [] | _ => c_space :: first end).

  (* the outermost fence of print_lines w X: kind, length, info string, lines in between *)
  Fixpoint fence_parts (w : wrapper) (X : list str) : fkind * nat * str * list str :=
    match w with
    | Adm _ name first o k len => (k, len, info_of name first, opt_lines o ++ X)
    | Nest o i => fence_parts o (print_lines i X)
    | Include path => (Backtick, 3%nat, info_of include_name path, [])
    | Subst _ => (Backtick, 3%nat, [], [])
    end.

  Definition cls_of (titled : bool) : dclass := if titled then admt_class else adm_class.

  (* well-formed use of an admonition wrapper (note, warning, ... or the titled "admonition")
     around the body lines X: the fence cannot be closed from inside, the info string names
     the directive (and carries the title), docutils knows the name as an admonition class, and
     the directive text splitter hands back exactly X as the body (the body/offset hypothesis;
     SplitProofs.v proves it for the usual layouts, the "---" one included) *)
  Fixpoint wfW (w : wrapper) (X : list str) : Prop :=
    match w with
    | Adm titled name first o k len =>
        fence_safe k len (info_of name first) (opt_lines o ++ X) = true
        /\ parse_info (info_of name first) = ([c_lbrace] ++ name ++ [c_rbrace], first)
        /\ str_eqb name eval_rst_name = false
        /\ o_dir_lookup orc name = Some (KAdm titled, cls_of titled)
        /\ (exists p, parse_directive_text (cls_of titled) first
                        (directive_content k (opt_lines o ++ X)) = Ok p
                      /\ p_body p = X /\ X <> [])
    | Nest o i => wfW o (print_lines i X) /\ wfW i X
    | _ => False
    end.

  (* state.inline_text(title, lineno) at fuel f: the title's nodes and the registries after it *)
  Definition den_title (f : nat) (h : shared) (title : str) (lineno : N) : res dres :=
    den_nested env orc (den_tok env orc f) false 0 h title lineno true 0.

  (* The expected denotation of the fence token of  print_lines w X  when that token sits at
     line pos and the registries are h: one admonition node per layer (preceded by the option
     warnings; a titled one starts with its title node, rendered first), the innermost one
     holding [bd h' lineno] = the body's own denotation from the registries h' it finds, at the
     constant shift lineno.  F is the fuel of the body. *)
  Fixpoint expected (F : nat) (w : wrapper) (X : list str) (bd : shared -> N -> res dres)
      (h : shared) (pos : N) : res dres :=
    match w with
    | Adm titled name first o k len =>
        match parse_directive_text (cls_of titled) first (directive_content k (opt_lines o ++ X)) with
        | Ok p =>
            let '(attrs, warns) := o_opt_validate orc name (p_optblock p) in
            do r1 <- (if titled then
                        match p_args p with
                        | a :: _ => do rt <- den_title F h a pos;
                                    Ok ([Node NTitle a None (fst (fst rt))], snd (fst rt))
                        | [] => Raise IndexError
                        end
                      else Ok ([], h));
            do r <- bd (snd r1)
                      (pos + N.of_nat (p_off p - prepended_lines (is_colon k) (unlines (opt_lines o ++ X))));
            Ok (directive_warnings p warns pos
                ++ [Node NAdm (name ++ attrs) (Some pos) (fst r1 ++ fst (fst r))], snd (fst r), false)
        | Raise e => Raise e
        end
    | Nest o i =>
        expected (depth i + F) o (print_lines i X)
                 (fun h' lineno => expected F i X bd h' (lineno + 1)) h pos
    | _ => Raise AssertionError
    end.

  (* the fence token of print_lines w X as the parser delivers it for a text that starts at
     line a (0-based) *)
  Definition fence_tok (w : wrapper) (X : list str) (a b : N) : tok :=
    let '(k, len, info, body) := fence_parts w X in
    TFence (is_colon k) info (unlines body) (Some (a, b)).

End WrapSpec.
