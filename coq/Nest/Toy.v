(* C06: a small concrete instance of the oracles, used for the refutation witness and the
   non-vacuity examples.  The toy Markdown parser knows paragraphs (one per line), backtick
   fences, one reference definition line "D" and one line "U" that uses the reference; like
   markdown-it it collects the definitions of the *whole text* (outside fences) before it
   produces the inline content, and it records them in the environment it returns. *)
From Coq Require Import List Arith NArith Bool.
From MV Require Import Base.PyStr Base.Res Nest.Lines Nest.Split Nest.Fence Nest.Nest.
Import ListNotations.
Open Scope N_scope.

Definition l_D : str := [68].
Definition l_U : str := [85].
Definition bt3 : str := [96; 96; 96].

Definition k_para : N := 1.
Definition k_link : N := 2.     (* resolved reference *)
Definition k_text : N := 3.     (* literal text *)

(* pass 1: is "D" among the lines outside fences?  Fences are detected by Fence.parse_fence. *)
Fixpoint toy_defs (fuel : nat) (ls : list str) : bool :=
  match fuel with
  | O => false
  | S f =>
      match ls with
      | [] => false
      | l :: r =>
          match parse_fence ls with
          | Some fe => toy_defs f (fe_rest fe)
          | None => str_eqb l l_D || toy_defs f r
          end
      end
  end.

(* pass 2: tokens, 0-based maps *)
Fixpoint toy_scan (fuel : nat) (defined : bool) (ls : list str) (i : N) : list tok :=
  match fuel with
  | O => []
  | S f =>
      match ls with
      | [] => []
      | l :: r =>
          match parse_fence ls with
          | Some fe =>
              TFence (fe_colon fe) (fe_info fe) (fe_content fe) (Some (i, i + fe_lines fe))
              :: toy_scan f defined (fe_rest fe) (i + fe_lines fe)
          | None =>
              if str_eqb l l_D then toy_scan f defined r (i + 1)
              else if is_nil l then toy_scan f defined r (i + 1)
              else
                TCont k_para l (Some (i, i + 1))
                  [TLeaf (if str_eqb l l_U && defined then k_link else k_text) l (Some (i, i + 1))]
                :: toy_scan f defined r (i + 1)
          end
      end
  end.

Definition toy_P (e : bool) (text : str) : list tok * bool :=
  let ls := split_lines text in
  let defined := e || toy_defs (S (length ls)) ls in
  (toy_scan (S (length ls)) defined ls 0, defined).

Definition toy_PI (e : bool) (text : str) : list tok * bool := ([TLeaf k_text text None], e).

Definition s_note : str := [110; 111; 116; 101].
Definition s_f : str := [102].
Definition incl_class : dclass :=
  {| d_optspec := true; d_req := 1; d_opt := 0; d_final_ws := true; d_has_content := false |}.

Definition toy : oracles bool :=
  {| o_P := toy_P;
     o_PI := toy_PI;
     o_dir_lookup := fun name =>
       if str_eqb name s_note then Some (KAdm false, adm_class)
       else if str_eqb name include_name then Some (KInclude, incl_class)
       else None;
     o_opt_validate := fun _ _ => ([], []);
     o_other_directive := fun _ _ _ _ _ _ h => ([], h);
     o_eval_rst := fun _ _ h => ([], h);
     o_jinja := fun _ => None;
     o_sub_names := fun _ => [];
     o_is_directive_start := fun _ => false;
     o_fs_read := fun p => if str_eqb p s_f then Some (l_D ++ nl) else None;
     o_include_opts := fun _ => (false, 0);
     o_source := [109];
     o_adm_run := admonition_run |}.

(* the witness documents *)
Definition doc_in_place : str := unlines [l_U; l_D].
Definition doc_include : str := unlines (l_U :: print_lines (Include s_f) []).
Definition doc_directive : str :=
  unlines (l_U :: print_lines (Adm false s_note [] ONone Backtick 3) [l_D; [120]]).
Definition doc_directive_in_place : str := unlines [l_U; l_D; [120]].
