(* find = filter over walk; deepcopy / strip(inplace=False) never alter pre-existing cells;
   strip drops exactly the whitespace-only Data children. *)
From Coq Require Import List NArith Bool Arith Lia.
From MV Require Import Base.PyStr Base.Res Html.HtmlTypes Gen.Html Html.HtmlModel Html.HtmlStore Html.HtmlInv.
Import ListNotations.
Local Open Scope nat_scope.

(* ---------- find ---------- *)

Definition matches_at (st : store) (q : query) (j : nat) : bool :=
  match nth_error st j with Some c => matches q c | None => false end.

Lemma filter_cells_filter st q ids :
  Forall (fun j => j < length st) ids ->
  filter_cells st q ids = Ok (filter (matches_at st q) ids).
Proof.
  induction 1 as [|j ids Hj _ IH]; simpl; auto.
  destruct (nth_error_lt_Some _ _ Hj) as [c Hc]. rewrite (get_Some _ _ _ Hc). cbn [bind].
  rewrite IH. cbn [bind filter].
  assert (E : matches_at st q j = matches q c) by (unfold matches_at; rewrite Hc; reflexivity).
  rewrite E. reflexivity.
Qed.

(* the elements find iterates over *)
Definition find_domain (st : store) (i : nat) (q : query) (w : list nat) : list nat :=
  let it := if q_recurse q then w else children_of st i in
  if q_include_self q then i :: it else it.

Theorem find_is_filter st i q :
  tree_ok st -> i < length st ->
  exists w, walk_top st i = Ok w
            /\ (forall j, In j w <-> Desc st i j) /\ NoDup w
            /\ find_top st i q = Ok (filter (matches_at st q) (find_domain st i q w)).
Proof.
  intros Hok Hi. destruct (walk_spec st Hok (length st) i Hi) as [w [Hw [Hm Hnd]]]; [lia|].
  exists w. split; [exact Hw|]. split; [exact Hm|]. split; [exact Hnd|].
  unfold find_top, find, find_domain. destruct (nth_error_lt_Some _ _ Hi) as [c Hc].
  rewrite (get_Some _ _ _ Hc). cbn [bind].
  assert (Hch : children_of st i = c_children c) by (unfold children_of; rewrite Hc; reflexivity).
  assert (Hvw : Forall (fun j => j < length st) w).
  { apply Forall_forall. intros j Hj. apply Hm in Hj. destruct (desc_gt _ _ _ Hok Hj). auto. }
  assert (Hvc : Forall (fun j => j < length st) (c_children c)).
  { apply Forall_forall. intros j Hj. destruct (ok_child _ Hok _ _ _ Hc Hj) as [_ [? _]]. auto. }
  unfold walk_top in Hw. destruct (q_recurse q).
  - rewrite Hw. cbn [bind]. apply filter_cells_filter. destruct (q_include_self q); auto.
  - cbn [bind]. rewrite Hch. apply filter_cells_filter. destruct (q_include_self q); auto.
Qed.

(* ---------- prefix preservation ---------- *)

Definition extends (st st' : store) : Prop := exists ext, st' = st ++ ext.

Lemma extends_refl st : extends st st.
Proof. exists []. rewrite app_nil_r. reflexivity. Qed.

Lemma extends_trans a b c : extends a b -> extends b c -> extends a c.
Proof. intros [e1 ->] [e2 ->]. exists (e1 ++ e2). rewrite app_assoc. reflexivity. Qed.

Lemma extends_length a b : extends a b -> length a <= length b.
Proof. intros [e ->]. rewrite app_length. lia. Qed.

Lemma extends_nth a b j : extends a b -> j < length a -> nth_error b j = nth_error a j.
Proof. intros [e ->] H. apply nth_error_app1. exact H. Qed.

Lemma upd_extends st stc j f s2 :
  extends st stc -> length st <= j -> upd stc j f = Ok s2 -> extends st s2 /\ length s2 = length stc.
Proof.
  intros [e ->] Hj H. unfold upd in H. destruct (get (st ++ e) j) as [c|]; [|discriminate].
  cbn [bind] in H. inversion H; subst s2. split.
  - rewrite set_nth_app_r by exact Hj. eexists. reflexivity.
  - apply set_nth_length.
Qed.

Lemma append_child_extends st stc p item s2 :
  extends st stc -> length st <= p -> length st <= item ->
  append_child stc p item = Ok s2 -> extends st s2 /\ length s2 = length stc.
Proof.
  intros He Hp Hi H. unfold append_child in H.
  destruct (get stc item) as [ci|]; [|discriminate]. cbn [bind] in H.
  destruct (match c_parent ci with Some q => if Nat.eqb q p then Ok tt else Raise AssertionError | None => Ok tt end);
    [|discriminate]. cbn [bind] in H.
  destruct (upd stc item (set_parent (Some p))) as [s1|] eqn:E1; [|discriminate]. cbn [bind] in H.
  destruct (upd_extends _ _ _ _ _ He Hi E1) as [He1 Hl1].
  destruct (upd_extends _ _ _ _ _ He1 Hp H) as [He2 Hl2]. split; auto. congruence.
Qed.

(* ---------- deepcopy ---------- *)

Fixpoint copy_go (f : nat) (n : nat) (st : store) (cs : list nat) : res store :=
  match cs with
  | [] => Ok st
  | k :: cs' =>
      do r <- deepcopy f st k;
      do st' <- append_child (fst r) n (snd r);
      copy_go f n st' cs'
  end.

Lemma deepcopy_unfold f st i :
  deepcopy (S f) st i =
  do c <- get st i;
  if is_terminal (c_kind c) then Ok (alloc st (new_terminal (c_kind c) (c_data c)))
  else
    do st2 <- copy_go f (length st) (st ++ [new_element (c_kind c) (c_name c) (c_attrs c)]) (c_children c);
    Ok (st2, length st).
Proof.
  simpl. destruct (get st i) as [c|e]; simpl; auto.
  destruct (is_terminal (c_kind c)); auto.
  assert (E : forall cs s,
    (fix go (st0 : store) (cs : list nat) {struct cs} : res store :=
       match cs with
       | [] => Ok st0
       | k :: cs' =>
           do r <- deepcopy f st0 k;
           do st' <- append_child (fst r) (length st) (snd r); go st' cs'
       end) s cs = copy_go f (length st) s cs).
  { induction cs as [|k cs IH]; intro s; simpl; auto.
    destruct (deepcopy f s k) as [r|]; simpl; auto.
    destruct (append_child (fst r) (length st) (snd r)); simpl; auto. }
  rewrite E. reflexivity.
Qed.

(* all children of cells from [lo] on are themselves at or after [lo] *)
Definition closed_from (lo : nat) (st : store) : Prop :=
  forall j c k, lo <= j -> nth_error st j = Some c -> In k (c_children c) -> lo <= k.

Lemma closed_from_snoc lo st c : c_children c = [] -> closed_from lo st -> closed_from lo (st ++ [c]).
Proof.
  intros Hc H j c' k Hj Hn Hk. destruct (Nat.lt_ge_cases j (length st)) as [Hl|Hl].
  - rewrite nth_error_app1 in Hn by exact Hl. eapply H; eauto.
  - rewrite nth_error_app2 in Hn by exact Hl. destruct (j - length st) as [|d]; simpl in Hn.
    + inversion Hn; subst. rewrite Hc in Hk. destruct Hk.
    + destruct d; discriminate.
Qed.

Lemma closed_from_upd lo st j f s2 :
  closed_from lo st -> upd st j f = Ok s2 ->
  (forall c k, nth_error st j = Some c -> In k (c_children (f c)) -> In k (c_children c) \/ lo <= k) ->
  closed_from lo s2.
Proof.
  intros H Hu Hf j' c' k Hj Hn Hk. unfold upd in Hu.
  destruct (get st j) as [c|] eqn:Eg; [|discriminate]. cbn [bind] in Hu. inversion Hu; subst s2.
  apply get_Ok in Eg. destruct (Nat.eq_dec j j') as [<-|Hne].
  - rewrite nth_error_set_nth_eq in Hn by (eapply nth_error_Some_lt; eauto). inversion Hn; subst c'.
    destruct (Hf c k Eg Hk) as [Hin|]; auto. eapply H; eauto.
  - rewrite nth_error_set_nth_neq in Hn by exact Hne. eapply H; eauto.
Qed.

Lemma closed_from_append lo st p item s2 :
  closed_from lo st -> lo <= item -> append_child st p item = Ok s2 -> closed_from lo s2.
Proof.
  intros H Hi Ha. unfold append_child in Ha.
  destruct (get st item) as [ci|]; [|discriminate]. cbn [bind] in Ha.
  destruct (match c_parent ci with Some q => if Nat.eqb q p then Ok tt else Raise AssertionError | None => Ok tt end);
    [|discriminate]. cbn [bind] in Ha.
  destruct (upd st item (set_parent (Some p))) as [s1|] eqn:E1; [|discriminate]. cbn [bind] in Ha.
  assert (H1 : closed_from lo s1).
  { eapply closed_from_upd; [exact H|exact E1|]. intros c k _ Hk. left. exact Hk. }
  eapply closed_from_upd; [exact H1|exact Ha|]. intros c k _ Hk. cbn in Hk.
  apply in_app_or in Hk as [Hk|[<-|[]]]; auto.
Qed.

Lemma deepcopy_props : forall f st i st' n,
  deepcopy f st i = Ok (st', n) ->
  n = length st /\ extends st st' /\ length st < length st'
  /\ (forall lo, lo <= length st -> closed_from lo st -> closed_from lo st').
Proof.
  induction f as [|f IH]; intros st i st' n H; [discriminate|].
  rewrite deepcopy_unfold in H. destruct (get st i) as [c|]; [|discriminate]. cbn [bind] in H.
  destruct (is_terminal (c_kind c)).
  - unfold alloc in H. inversion H; subst. split; auto. split; [eexists; reflexivity|].
    split; [rewrite app_length; simpl; lia|]. intros lo _ Hc. apply closed_from_snoc; auto.
  - destruct (copy_go f (length st) (st ++ [new_element (c_kind c) (c_name c) (c_attrs c)]) (c_children c))
      as [st2|] eqn:Eg; [|discriminate]. cbn [bind] in H. inversion H; subst st2 n. clear H.
    assert (G : forall cs s s2, copy_go f (length st) s cs = Ok s2 ->
                extends st s -> length st < length s ->
                extends st s2 /\ length st < length s2
                /\ (forall lo, lo <= length st -> closed_from lo s -> closed_from lo s2)).
    { induction cs as [|k cs IHcs]; intros s s2 Hg He Hl; simpl in Hg.
      - inversion Hg; subst. auto.
      - destruct (deepcopy f s k) as [[s1 cc]|] eqn:Ed; [|discriminate]. cbn [bind fst snd] in Hg.
        destruct (append_child s1 (length st) cc) as [s1'|] eqn:Ea; [|discriminate]. cbn [bind] in Hg.
        destruct (IH _ _ _ _ Ed) as [Hcc [He1 [Hl1 Hc1]]].
        assert (He1' : extends st s1) by (eapply extends_trans; eauto).
        assert (Hcc' : length st <= cc) by (subst cc; lia).
        destruct (append_child_extends _ _ _ _ _ He1' (le_n _) Hcc' Ea) as [He2 Hl2].
        destruct (IHcs _ _ Hg He2) as [He3 [Hl3 Hc3]]; [lia|].
        split; auto. split; auto. intros lo Hlo Hc. apply Hc3; auto.
        eapply closed_from_append; [|
          |exact Ea]; [apply Hc1; [lia|exact Hc]|lia]. }
    destruct (G _ _ _ Eg) as [He [Hl Hc]].
    + eexists; reflexivity.
    + rewrite app_length; simpl; lia.
    + split; auto. split; auto. split; auto. intros lo Hlo Hcl. apply Hc; auto.
      apply closed_from_snoc; auto.
Qed.

(* ---------- strip ---------- *)

Definition ws_at (st : store) (j : nat) : bool :=
  match nth_error st j with Some c => ws_data c | None => false end.

Lemma keep_children_filter st ids :
  Forall (fun j => j < length st) ids ->
  keep_children st ids = Ok (filter (fun j => negb (ws_at st j)) ids).
Proof.
  induction 1 as [|j ids Hj _ IH]; simpl; auto.
  destruct (nth_error_lt_Some _ _ Hj) as [c Hc]. rewrite (get_Some _ _ _ Hc). cbn [bind].
  rewrite IH. cbn [bind filter].
  assert (E : ws_at st j = ws_data c) by (unfold ws_at; rewrite Hc; reflexivity).
  rewrite E. destruct (ws_data c); reflexivity.
Qed.

Lemma keep_children_sub st ids kept : keep_children st ids = Ok kept -> forall k, In k kept -> In k ids.
Proof.
  revert kept; induction ids as [|e r IH]; intros kept H k Hk; simpl in H.
  - inversion H; subst. destruct Hk.
  - destruct (get st e) as [c|]; [|discriminate]. cbn [bind] in H.
    destruct (keep_children st r) as [rest|]; [|discriminate]. cbn [bind] in H.
    inversion H; subst kept. destruct (ws_data c).
    + right. eapply IH; eauto.
    + destruct Hk as [<-|Hk]; [left; auto|right; eapply IH; eauto].
Qed.

(* what a store update may touch: only parent / children fields, only from [lo] on *)
Definition same_below (lo : nat) (st st' : store) : Prop :=
  length st' = length st /\ forall j, j < lo -> nth_error st' j = nth_error st j.

Lemma same_below_refl lo st : same_below lo st st.
Proof. split; auto. Qed.

Lemma same_below_trans lo a b c : same_below lo a b -> same_below lo b c -> same_below lo a c.
Proof. intros [L1 H1] [L2 H2]. split; [congruence|]. intros j Hj. rewrite H2, H1; auto. Qed.

Lemma upd_same_below lo st j f s2 : lo <= j -> upd st j f = Ok s2 -> same_below lo st s2.
Proof.
  intros Hj H. unfold upd in H. destruct (get st j) as [c|]; [|discriminate]. cbn [bind] in H.
  inversion H; subst. split; [apply set_nth_length|]. intros j' Hj'. apply nth_error_set_nth_neq. lia.
Qed.

Lemma adopt_props lo self : forall items st s2,
  adopt st self items = Ok s2 -> Forall (fun k => lo <= k) items -> closed_from lo st ->
  same_below lo st s2 /\ closed_from lo s2 /\ (forall j, children_of s2 j = children_of st j).
Proof.
  induction items as [|it r IH]; intros st s2 H F Hc; simpl in H.
  - inversion H; subst. split; [apply same_below_refl|]. auto.
  - inversion F as [|? ? Hit Fr]; subst.
    destruct (get st it) as [c|] eqn:Eg; [|discriminate]. cbn [bind] in H.
    destruct (match c_parent c with
              | None => upd st it (set_parent (Some self))
              | Some q => if Nat.eqb q self then Ok st else Raise AssertionError
              end) as [s1|] eqn:E1; [|discriminate]. cbn [bind] in H.
    assert (P1 : same_below lo st s1 /\ closed_from lo s1 /\ (forall j, children_of s1 j = children_of st j)).
    { destruct (c_parent c) as [q|].
      - destruct (Nat.eqb q self); [|discriminate]. inversion E1; subst. split; [apply same_below_refl|]. auto.
      - split; [eapply upd_same_below; eauto|]. split.
        + eapply closed_from_upd; [exact Hc|exact E1|]. intros c' k _ Hk. left. exact Hk.
        + intro j. unfold upd in E1. rewrite Eg in E1. cbn [bind] in E1. inversion E1; subst s1.
          unfold children_of. apply get_Ok in Eg. destruct (Nat.eq_dec it j) as [<-|Hne].
          * rewrite nth_error_set_nth_eq by (eapply nth_error_Some_lt; eauto). rewrite Eg. reflexivity.
          * rewrite nth_error_set_nth_neq by exact Hne. reflexivity. }
    destruct P1 as [S1 [C1 K1]]. destruct (IH _ _ H Fr C1) as [S2 [C2 K2]].
    split; [eapply same_below_trans; eauto|]. split; auto. intro j. rewrite K2, K1. reflexivity.
Qed.

Fixpoint strip_go (f : nat) (st : store) (cs : list nat) : res store :=
  match cs with
  | [] => Ok st
  | k :: cs' => do st' <- strip_inplace f st k true; strip_go f st' cs'
  end.

Lemma strip_unfold f st el recurse :
  strip_inplace (S f) st el recurse =
  do c <- get st el;
  do kept <- keep_children st (c_children c);
  do st1 <- reset_children st el kept;
  if recurse then strip_go f st1 kept else Ok st1.
Proof.
  simpl. destruct (get st el) as [c|]; simpl; auto.
  destruct (keep_children st (c_children c)) as [kept|]; simpl; auto.
  destruct (reset_children st el kept) as [st1|]; simpl; auto.
  destruct recurse; auto.
  generalize st1. induction kept as [|k cs IH]; intro s; simpl; auto.
  destruct (strip_inplace f s k true); simpl; auto.
Qed.

(* an in-place strip of an element at or after [lo], in a store closed from [lo], touches
   nothing below [lo] *)
Lemma strip_inplace_frame : forall f st el recurse st' lo,
  strip_inplace f st el recurse = Ok st' -> lo <= el -> closed_from lo st ->
  same_below lo st st' /\ closed_from lo st'.
Proof.
  induction f as [|f IH]; intros st el recurse st' lo H Hel Hc; [discriminate|].
  rewrite strip_unfold in H. destruct (get st el) as [c|] eqn:Eg; [|discriminate]. cbn [bind] in H.
  destruct (keep_children st (c_children c)) as [kept|] eqn:Ek; [|discriminate]. cbn [bind] in H.
  destruct (reset_children st el kept) as [st1|] eqn:Er; [|discriminate]. cbn [bind] in H.
  apply get_Ok in Eg.
  assert (Fk : Forall (fun k => lo <= k) kept).
  { apply Forall_forall. intros k Hk. eapply Hc; [exact Hel|exact Eg|]. eapply keep_children_sub; eauto. }
  unfold reset_children in Er. destruct (adopt st el kept) as [s1|] eqn:Ea; [|discriminate]. cbn [bind] in Er.
  destruct (adopt_props lo el _ _ _ Ea Fk Hc) as [S1 [C1 K1]].
  assert (S2 : same_below lo s1 st1) by (eapply upd_same_below; eauto).
  assert (C2 : closed_from lo st1).
  { eapply closed_from_upd; [exact C1|exact Er|]. intros c' k _ Hk. cbn in Hk. right.
    rewrite Forall_forall in Fk. auto. }
  assert (S12 : same_below lo st st1) by (eapply same_below_trans; eauto).
  destruct recurse.
  - clear Ek Ea Er K1 S2 C1 S1. revert st1 H S12 C2.
    induction Fk as [|k cs Hk _ IHcs]; intros st1 H S12 C2; simpl in H.
    + inversion H; subst. auto.
    + destruct (strip_inplace f st1 k true) as [s2|] eqn:Es; [|discriminate]. cbn [bind] in H.
      destruct (IH _ _ _ _ _ Es Hk C2) as [S3 C3].
      apply (IHcs s2 H); [eapply same_below_trans; eauto|exact C3].
  - inversion H; subst. auto.
Qed.

(* C16_copy_strip_pure *)
Theorem deepcopy_pure st i st' n :
  deepcopy_top st i = Ok (st', n) ->
  n = length st /\ (forall j, j < length st -> nth_error st' j = nth_error st j) /\ length st < length st'.
Proof.
  intro H. destruct (deepcopy_props _ _ _ _ _ H) as [Hn [He [Hl _]]].
  split; auto. split; auto. intros j Hj. apply extends_nth; auto.
Qed.

Theorem strip_copy_pure st i recurse st' n :
  strip_top st i false recurse = Ok (st', n) ->
  n = length st /\ (forall j, j < length st -> nth_error st' j = nth_error st j).
Proof.
  unfold strip_top, strip. intro H.
  destruct (deepcopy (S (length st)) st i) as [[s1 m]|] eqn:Ed; [|discriminate]. cbn [bind fst snd] in H.
  destruct (strip_inplace (S (length st)) s1 m recurse) as [s2|] eqn:Es; [|discriminate]. cbn [bind] in H.
  inversion H; subst s2 n. clear H.
  destruct (deepcopy_props _ _ _ _ _ Ed) as [Hm [He [Hl Hc]]]. split; auto.
  assert (C0 : closed_from (length st) st).
  { intros j c k Hj Hn _. apply nth_error_Some_lt in Hn. lia. }
  destruct (strip_inplace_frame _ _ _ _ _ (length st) Es) as [[_ S] _]; [lia|apply Hc; auto|].
  intros j Hj. rewrite S by exact Hj. apply extends_nth; auto.
Qed.

(* the in-place step (the one applied to the copy): exactly the whitespace-only Data
   children are dropped, nothing else about any element changes *)
Theorem strip_step_exact st el st' :
  tree_ok st -> el < length st ->
  strip_inplace (S (length st)) st el false = Ok st' ->
  children_of st' el = filter (fun j => negb (ws_at st j)) (children_of st el)
  /\ (forall j, j <> el -> children_of st' j = children_of st j)
  /\ (forall j, option_map (fun c => (c_kind c, c_name c, c_attrs c, c_data c)) (nth_error st' j)
               = option_map (fun c => (c_kind c, c_name c, c_attrs c, c_data c)) (nth_error st j)).
Proof.
  intros Hok Hel H. rewrite strip_unfold in H.
  destruct (nth_error_lt_Some _ _ Hel) as [c Hc]. rewrite (get_Some _ _ _ Hc) in H. cbn [bind] in H.
  assert (Hv : Forall (fun j => j < length st) (c_children c)).
  { apply Forall_forall. intros j Hj. destruct (ok_child _ Hok _ _ _ Hc Hj) as [_ [? _]]. auto. }
  rewrite (keep_children_filter _ _ Hv) in H. cbn [bind] in H.
  set (kept := filter (fun j => negb (ws_at st j)) (c_children c)) in *.
  destruct (reset_children st el kept) as [st1|] eqn:Er; [|discriminate]. cbn [bind] in H.
  inversion H; subst st1. clear H.
  unfold reset_children in Er. destruct (adopt st el kept) as [s1|] eqn:Ea; [|discriminate]. cbn [bind] in Er.
  assert (Ad : forall items s s2, adopt s el items = Ok s2 ->
            length s2 = length s /\
            forall j, match nth_error s2 j, nth_error s j with
                      | Some a, Some b => c_kind a = c_kind b /\ c_name a = c_name b /\ c_attrs a = c_attrs b
                                          /\ c_data a = c_data b /\ c_children a = c_children b
                      | None, None => True
                      | _, _ => False
                      end).
  { induction items as [|it r IH]; intros s s2 Hs; simpl in Hs.
    - inversion Hs; subst. split; auto. intro j. destruct (nth_error s2 j); [repeat split; reflexivity|exact I].
    - destruct (get s it) as [ci|] eqn:Eg; [|discriminate]. cbn [bind] in Hs.
      destruct (match c_parent ci with
                | None => upd s it (set_parent (Some el))
                | Some q => if Nat.eqb q el then Ok s else Raise AssertionError
                end) as [sm|] eqn:Em; [|discriminate]. cbn [bind] in Hs.
      destruct (IH _ _ Hs) as [L2 P2].
      assert (P1 : length sm = length s /\ forall j, match nth_error sm j, nth_error s j with
                      | Some a, Some b => c_kind a = c_kind b /\ c_name a = c_name b /\ c_attrs a = c_attrs b
                                          /\ c_data a = c_data b /\ c_children a = c_children b
                      | None, None => True
                      | _, _ => False
                      end).
      { destruct (c_parent ci) as [q|].
        - destruct (Nat.eqb q el); [|discriminate]. inversion Em; subst. split; auto.
          intro j. destruct (nth_error sm j); [repeat split; reflexivity|exact I].
        - unfold upd in Em. rewrite Eg in Em. cbn [bind] in Em. inversion Em; subst sm.
          split; [apply set_nth_length|]. intro j. apply get_Ok in Eg.
          destruct (Nat.eq_dec it j) as [<-|Hne].
          + rewrite nth_error_set_nth_eq by (eapply nth_error_Some_lt; eauto). rewrite Eg. repeat split.
          + rewrite nth_error_set_nth_neq by exact Hne. destruct (nth_error s j); [repeat split; reflexivity|exact I]. }
      destruct P1 as [L1 P1]. split; [congruence|]. intro j. specialize (P1 j). specialize (P2 j).
      destruct (nth_error s2 j), (nth_error sm j), (nth_error s j); try tauto.
      destruct P1 as [? [? [? [? ?]]]]. destruct P2 as [? [? [? [? ?]]]]. repeat split; congruence. }
  destruct (Ad _ _ _ Ea) as [L1 P1].
  unfold upd in Er. destruct (get s1 el) as [c1|] eqn:Eg1; [|discriminate]. cbn [bind] in Er.
  inversion Er; subst st'. clear Er. apply get_Ok in Eg1.
  pose proof (nth_error_Some_lt _ _ _ Eg1) as Hl1.
  assert (Hch : children_of st el = c_children c) by (unfold children_of; rewrite Hc; reflexivity).
  split; [|split].
  - unfold children_of at 1. rewrite nth_error_set_nth_eq by exact Hl1. cbn. rewrite Hch. reflexivity.
  - intros j Hj. unfold children_of. rewrite nth_error_set_nth_neq by auto.
    specialize (P1 j). destruct (nth_error s1 j), (nth_error st j); tauto.
  - intro j. destruct (Nat.eq_dec el j) as [<-|Hne].
    + rewrite nth_error_set_nth_eq by exact Hl1. specialize (P1 el). rewrite Eg1, Hc in P1. rewrite Hc.
      destruct P1 as [? [? [? [? ?]]]]. cbn. congruence.
    + rewrite nth_error_set_nth_neq by exact Hne. specialize (P1 j).
      destruct (nth_error s1 j), (nth_error st j); try tauto. destruct P1 as [? [? [? [? ?]]]]. cbn. congruence.
Qed.

(* ---------- the statements of Props/C16.v for trees built by the parser ---------- *)

Theorem tree_consistent_built (name : str) (evs : list event) (t : tree) :
  build (init_tree name) evs = Ok t ->
  let st := t_cells t in
  (exists c, nth_error st 0 = Some c /\ c_parent c = None)
  /\ (forall p cp k, nth_error st p = Some cp -> In k (c_children cp) ->
        p < k /\ k < length st /\ parent_of st k = Some p)
  /\ (forall k c, nth_error st k = Some c -> k <> 0 ->
        exists p, c_parent c = Some p /\ count_occ Nat.eq_dec (children_of st p) k = 1)
  /\ exists w, walk_top st (t_outmost t) = Ok w
               /\ NoDup (t_outmost t :: w)
               /\ (forall j, In j (t_outmost t :: w) <-> j < length st).
Proof.
  intro H. pose proof (build_binv name evs t H) as B.
  destruct (b_ok _ B) as [H1 H2 H3]. cbv zeta. rewrite (b_out _ B).
  split; [exact H1|]. split; [exact H2|]. split; [exact H3|].
  apply walk_root_enumerates. apply (b_ok _ B).
Qed.

Theorem find_is_filter_built (name : str) (evs : list event) (t : tree) (i : nat) (q : query) :
  build (init_tree name) evs = Ok t -> i < length (t_cells t) ->
  let st := t_cells t in
  exists w, walk_top st i = Ok w
            /\ (forall j, In j w <-> Desc st i j) /\ NoDup w
            /\ find_top st i q = Ok (filter (matches_at st q) (find_domain st i q w)).
Proof.
  intros H Hi. apply find_is_filter; auto. apply (b_ok _ (build_binv name evs t H)).
Qed.

Theorem copy_strip_pure (st : store) (i : nat) :
  (forall st' n, deepcopy_top st i = Ok (st', n) ->
     n = length st /\ (forall j, j < length st -> nth_error st' j = nth_error st j) /\ length st < length st')
  /\ (forall recurse st' n, strip_top st i false recurse = Ok (st', n) ->
     n = length st /\ (forall j, j < length st -> nth_error st' j = nth_error st j)).
Proof.
  split.
  - intros st' n. apply deepcopy_pure.
  - intros recurse st' n. apply strip_copy_pure.
Qed.

Theorem strip_exact_built (name : str) (evs : list event) (t : tree) (el : nat) (st' : store) :
  build (init_tree name) evs = Ok t -> el < length (t_cells t) ->
  let st := t_cells t in
  strip_inplace (S (length st)) st el false = Ok st' ->
  children_of st' el = filter (fun j => negb (ws_at st j)) (children_of st el)
  /\ (forall j, j <> el -> children_of st' j = children_of st j)
  /\ (forall j, option_map (fun c => (c_kind c, c_name c, c_attrs c, c_data c)) (nth_error st' j)
               = option_map (fun c => (c_kind c, c_name c, c_attrs c, c_data c)) (nth_error st j)).
Proof.
  intros H Hel. apply strip_step_exact; auto. apply (b_ok _ (build_binv name evs t H)).
Qed.
