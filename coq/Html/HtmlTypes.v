(* Basic types shared by the regenerated tables (Gen/Html.v) and the model of
   myst_parser/parsers/parse_html.py.  Definitions only. *)
From Coq Require Import List NArith Bool.
From MV Require Import Base.PyStr.
Import ListNotations.
Open Scope N_scope.

(* the concrete Element subclasses *)
Inductive kind : Type :=
| KRoot | KTag | KXTag | KVoid | KData | KDecl | KComment | KPi | KChar | KEntity.

Definition kind_eqb (a b : kind) : bool :=
  match a, b with
  | KRoot, KRoot | KTag, KTag | KXTag, KXTag | KVoid, KVoid | KData, KData
  | KDecl, KDecl | KComment, KComment | KPi, KPi | KChar, KChar | KEntity, KEntity => true
  | _, _ => false
  end.

(* an attribute value as html.parser delivers it: None for  <a b>  *)
Definition attrs := list (str * option str).

(* str(value) of an attribute value inside an f-string: str(None) = "None" *)
Definition py_str_opt (v : option str) : str :=
  match v with Some s => s | None => [78; 111; 110; 101] end.

(* bool(x) of a str / list / dict *)
Definition truthy {A} (l : list A) : bool := match l with [] => false | _ => true end.

(* s.replace(c, r) for a one-character c *)
Definition replace_char (c : N) (r : str) (s : str) : str :=
  flat_map (fun x => if N.eqb x c then r else [x]) s.
