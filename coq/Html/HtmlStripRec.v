(* strip(inplace=False, recurse=True): the whole result.  deepcopy lays the copy of every subtree
   out in one contiguous block of new ids (footprint fp); the in-place strip of a child only
   touches the block of that child, so the blocks of its siblings keep what was established. *)
From Coq Require Import List NArith Bool Arith Lia.
From MV Require Import Base.PyStr Base.Res Html.HtmlTypes Gen.Html Html.HtmlModel Html.HtmlStore Html.HtmlInv
  Html.HtmlOps Html.HtmlIso.
Import ListNotations.
Local Open Scope nat_scope.

(* ---------- footprints: the subtree of j lies in [j, hi), the subtrees of its children in
   consecutive disjoint blocks (gaps allowed) ---------- *)

Fixpoint chain (P : nat -> nat -> Prop) (lo : nat) (ks : list nat) (hi : nat) : Prop :=
  match ks with
  | [] => lo <= hi
  | k :: r => lo <= k /\ exists mid, P k mid /\ chain P mid r hi
  end.

Fixpoint fp (f : nat) (s : store) (j hi : nat) : Prop :=
  match f with
  | O => False
  | S f' => exists c, nth_error s j = Some c /\ chain (fp f' s) (S j) (c_children c) hi
  end.

Section Chain.
Variable P : nat -> nat -> Prop.
Hypothesis HP : forall k m, P k m -> k < m.

Lemma chain_le : forall ks lo hi, chain P lo ks hi -> lo <= hi.
Proof.
  induction ks as [|k r IH]; intros lo hi H; simpl in H; auto.
  destruct H as [Hk [mid [Hp Hc]]]. apply HP in Hp. apply IH in Hc. lia.
Qed.

Lemma chain_in : forall ks lo hi, chain P lo ks hi -> forall k, In k ks -> lo <= k /\ k < hi.
Proof.
  induction ks as [|k0 r IH]; intros lo hi H k Hk; [destruct Hk|].
  simpl in H. destruct H as [Hk0 [mid [Hp Hc]]]. pose proof (HP _ _ Hp). pose proof (chain_le _ _ _ Hc).
  destruct Hk as [<-|Hk]; [lia|]. destruct (IH _ _ Hc k Hk). lia.
Qed.

Lemma chain_weaken_lo : forall ks lo lo' hi, chain P lo ks hi -> lo' <= lo -> chain P lo' ks hi.
Proof.
  intros [|k r] lo lo' hi H Hl; simpl in *; [lia|]. destruct H as [Hk H]. split; [lia|exact H].
Qed.

Lemma chain_filter (p : nat -> bool) : forall ks lo hi, chain P lo ks hi -> chain P lo (filter p ks) hi.
Proof.
  induction ks as [|k r IH]; intros lo hi H; simpl in *; auto.
  destruct H as [Hk [mid [Hp Hc]]]. destruct (p k).
  - simpl. split; auto. exists mid. split; auto.
  - apply (chain_weaken_lo _ mid); [apply IH; exact Hc|]. apply HP in Hp. lia.
Qed.

Lemma chain_snoc : forall ks lo mid k hi,
  chain P lo ks mid -> mid <= k -> P k hi -> chain P lo (ks ++ [k]) hi.
Proof.
  induction ks as [|k0 r IH]; intros lo mid k hi H Hm Hp; simpl in *.
  - split; [lia|]. exists hi. split; auto.
  - destruct H as [Hk0 [m0 [Hp0 Hc]]]. split; auto. exists m0. split; auto. eapply IH; eauto.
Qed.

Lemma chain_mono (Q : nat -> nat -> Prop) : forall ks lo hi,
  (forall k m, lo <= k -> m <= hi -> P k m -> Q k m) -> chain P lo ks hi -> chain Q lo ks hi.
Proof.
  induction ks as [|k r IH]; intros lo hi H C; simpl in *; auto.
  destruct C as [Hk [mid [Hp Hc]]]. pose proof (HP _ _ Hp). pose proof (chain_le _ _ _ Hc).
  split; auto. exists mid. split; [apply H; auto; lia|]. apply IH; auto.
  intros k' m' ? ? ?. apply H; auto; lia.
Qed.
End Chain.

Lemma fp_lt : forall f s j hi, fp f s j hi -> j < hi.
Proof.
  induction f as [|f IH]; intros s j hi H; [destruct H|]. destruct H as [c [_ Hc]].
  apply chain_le in Hc; [lia|]. intros k m. apply IH.
Qed.

Lemma fp_frame : forall f s s2 j hi,
  fp f s j hi -> (forall a, j <= a < hi -> cell_same s s2 a) -> fp f s2 j hi.
Proof.
  induction f as [|f IH]; intros s s2 j hi H Hs; [destruct H|].
  assert (Hlt : j < hi) by (eapply fp_lt; exact H).
  destruct H as [c [Hc Hch]].
  destruct (Hs j ltac:(lia) c Hc) as [c2 [Hc2 [_ Hk]]]. exists c2. split; auto. rewrite <- Hk.
  eapply chain_mono; [intros k m; apply fp_lt| |exact Hch].
  intros k m Hk1 Hm Hp. apply (IH s s2); auto. intros a Ha. apply Hs. lia.
Qed.

Lemma cell_same_refl s a : cell_same s s a.
Proof. intros c Hc. exists c. split; auto. split; [apply shape_eq_refl|reflexivity]. Qed.

Lemma cell_same_trans s1 s2 s3 a : cell_same s1 s2 a -> cell_same s2 s3 a -> cell_same s1 s3 a.
Proof.
  intros H1 H2 c Hc. destruct (H1 c Hc) as [c2 [Hc2 [Hs2 Hk2]]]. destruct (H2 c2 Hc2) as [c3 [Hc3 [Hs3 Hk3]]].
  exists c3. split; auto. split; [eapply shape_eq_trans; eauto|congruence].
Qed.

(* deepcopy allocates the copy of a subtree as one block *)
Lemma deepcopy_fp : forall f s i s' n, deepcopy f s i = Ok (s', n) -> fp f s' n (length s').
Proof.
  induction f as [|f IH]; intros s i s' n H; [discriminate|].
  rewrite deepcopy_unfold in H. destruct (get s i) as [c|] eqn:Ei; [|discriminate]. cbn [bind] in H.
  destruct (is_terminal (c_kind c)).
  - unfold alloc in H. inversion H; subst s' n. clear H. cbn [fp].
    exists (new_terminal (c_kind c) (c_data c)). split.
    + rewrite nth_error_app2 by lia. rewrite Nat.sub_diag. reflexivity.
    + simpl. rewrite app_length. simpl. lia.
  - set (L := length s) in *. set (cnew := new_element (c_kind c) (c_name c) (c_attrs c)) in *.
    destruct (copy_go f L (s ++ [cnew]) (c_children c)) as [s2|] eqn:Eg; [|discriminate]. cbn [bind] in H.
    inversion H; subst s2 n. clear H.
    assert (G : forall cs sc sf, copy_go f L sc cs = Ok sf -> L < length sc ->
      (exists cL, nth_error sc L = Some cL /\ chain (fp f sc) (S L) (c_children cL) (length sc)) ->
      exists cL, nth_error sf L = Some cL /\ chain (fp f sf) (S L) (c_children cL) (length sf)).
    { induction cs as [|k cs IHcs]; intros sc sf Hg Hl I; simpl in Hg.
      - inversion Hg; subst sf. exact I.
      - destruct (deepcopy f sc k) as [[s1 cc]|] eqn:Ed; [|discriminate]. cbn [bind fst snd] in Hg.
        destruct (append_child s1 L cc) as [s2|] eqn:Ea; [|discriminate]. cbn [bind] in Hg.
        destruct I as [cL [HcL Hch]].
        destruct (deepcopy_props _ _ _ _ _ Ed) as [Hcc [He1 [Hl1 _]]].
        pose proof (IH _ _ _ _ Ed) as Hfp.
        destruct (append_child_effect _ _ _ _ Ea) as [cp [ci [Hcp [Hci [Hlen [Hsame Hpar]]]]]].
        assert (HLcc : L <> cc) by lia.
        destruct (Hpar HLcc) as [cp2 [Hcp2 [_ [Hchp _]]]].
        assert (HcL1 : nth_error s1 L = Some cL) by (rewrite (extends_nth _ _ L He1 Hl); exact HcL).
        assert (HcpL : cp = cL) by congruence. subst cp.
        apply (IHcs s2 sf Hg); [rewrite Hlen; lia|].
        exists cp2. split; [exact Hcp2|]. rewrite Hchp, Hlen.
        apply (chain_snoc _ _ _ (length sc)).
        + eapply chain_mono; [intros k0 m; apply fp_lt| |exact Hch].
          intros k0 m Hk0 Hm Hp. apply (fp_frame f sc s2); auto.
          intros a Ha x Hx. apply Hsame; [lia|]. rewrite (extends_nth _ _ a He1) by lia. exact Hx.
        + lia.
        + rewrite <- Hlen. apply (fp_frame f s1 s2); [rewrite Hlen; exact Hfp|].
          intros a Ha. apply Hsame. lia. }
    destruct (G _ _ _ Eg) as [cL [HcL Hch]].
    + rewrite app_length. simpl. unfold L. lia.
    + exists cnew. split; [rewrite nth_error_app2 by (unfold L; lia); unfold L; rewrite Nat.sub_diag; reflexivity|].
      simpl. rewrite app_length. simpl. unfold L. lia.
    + cbn [fp]. exists cL. split; auto.
Qed.

(* ---------- original vs copy, plain (b = false) or stripped at every level (b = true) ---------- *)

Fixpoint rel (b : bool) (f : nat) (s : store) (i j : nat) : Prop :=
  match f with
  | O => False
  | S f' => exists c c', nth_error s i = Some c /\ nth_error s j = Some c' /\ shape_eq c c'
              /\ Forall2 (rel b f' s)
                   (if b then filter (fun k => negb (ws_at s k)) (c_children c) else c_children c)
                   (c_children c')
  end.

(* j is i minus, at every level, exactly the whitespace-only Data children *)
Definition stripped_of (f : nat) (s : store) (i j : nat) : Prop := rel true f s i j.

Lemma iso_rel : forall f s i j, iso f s i j -> rel false f s i j.
Proof.
  induction f as [|f IH]; intros s i j H; [destruct H|].
  destruct H as [c [c' [Hc [Hc' [Hs Hch]]]]]. exists c, c'. repeat (split; auto).
  induction Hch; constructor; auto.
Qed.

Lemma rel_shape b f s i j : rel b f s i j -> cells_shape_eq s i j.
Proof.
  destruct f; [intros []|]. intros [c [c' [Hc [Hc' [Hs _]]]]]. unfold cells_shape_eq. rewrite Hc, Hc'. exact Hs.
Qed.

(* the old part of the store: ids below L, closed under children *)
Definition low (L : nat) (s : store) : Prop :=
  L <= length s /\ forall a c k, a < L -> nth_error s a = Some c -> In k (c_children c) -> k < L.

Lemma low_same L s s2 : low L s -> length s2 = length s -> (forall a, a < L -> cell_same s s2 a) -> low L s2.
Proof.
  intros [Hl Hc] Hlen Hs. split; [lia|]. intros a c2 k Ha Hc2 Hk.
  destruct (nth_error_lt_Some s a) as [c Hca]; [lia|].
  destruct (Hs a Ha c Hca) as [c2' [Hc2' [_ Hkk]]]. rewrite Hc2 in Hc2'. inversion Hc2'; subst c2'.
  rewrite <- Hkk in Hk. eapply Hc; eauto.
Qed.

Lemma ws_at_same s s2 a : cell_same s s2 a -> a < length s -> ws_at s2 a = ws_at s a.
Proof.
  intros H Ha. destruct (nth_error_lt_Some s a Ha) as [c Hc]. destruct (H c Hc) as [c2 [Hc2 [[H1 [_ [_ H4]]] _]]].
  unfold ws_at. rewrite Hc, Hc2. unfold ws_data. rewrite H1, H4. reflexivity.
Qed.

Lemma pairs_frame (b : bool) g s s2 L
  (IH : forall i j hi, rel b g s i j -> fp g s j hi -> i < L -> L <= j ->
                       (forall a, a < L \/ j <= a < hi -> cell_same s s2 a) -> rel b g s2 i j) :
  forall xs ks, Forall2 (rel b g s) xs ks -> forall lo hi,
  chain (fp g s) lo ks hi -> Forall (fun x => x < L) xs -> L <= lo ->
  (forall a, a < L \/ lo <= a < hi -> cell_same s s2 a) -> Forall2 (rel b g s2) xs ks.
Proof.
  induction 1 as [|x k xs ks Hxk _ IHl]; intros lo hi Hch Hx Hlo Hs; constructor.
  - simpl in Hch. destruct Hch as [Hk [mid [Hp Hc]]]. inversion Hx; subst.
    pose proof (fp_lt _ _ _ _ Hp). pose proof (chain_le _ (fp_lt g s) _ _ _ Hc).
    apply (IH x k mid); auto; [lia|]. intros a Ha. apply Hs. lia.
  - simpl in Hch. destruct Hch as [Hk [mid [Hp Hc]]]. inversion Hx; subst.
    pose proof (fp_lt _ _ _ _ Hp).
    apply (IHl mid hi); auto; [lia|]. intros a Ha. apply Hs. lia.
Qed.

Lemma rel_frame b : forall g s s2 L i j hi,
  low L s -> rel b g s i j -> fp g s j hi -> i < L -> L <= j ->
  (forall a, a < L \/ j <= a < hi -> cell_same s s2 a) -> rel b g s2 i j.
Proof.
  induction g as [|g IH]; intros s s2 L i j hi Hlow H Hfp Hi Hj Hs; [destruct H|].
  assert (Hlt : j < hi) by (eapply fp_lt; exact Hfp).
  destruct H as [c [c' [Hc [Hc' [Hsh Hch]]]]]. destruct Hfp as [c'' [Hc'' Hchain]].
  rewrite Hc' in Hc''. inversion Hc''; subst c''. clear Hc''.
  destruct (Hs i (or_introl Hi) c Hc) as [d [Hd [Hsd Hkd]]].
  destruct (Hs j ltac:(lia) c' Hc') as [d' [Hd' [Hsd' Hkd']]].
  destruct Hlow as [HL Hcl].
  assert (Hkids : forall k, In k (c_children c) -> k < L) by (intros k Hk; eapply Hcl; eauto).
  exists d, d'. split; [exact Hd|]. split; [exact Hd'|]. split.
  - apply (shape_eq_trans d c d'); [apply shape_eq_sym; exact Hsd|]. apply (shape_eq_trans c c' d'); assumption.
  - rewrite <- Hkd, <- Hkd'.
    assert (E : (if b then filter (fun k => negb (ws_at s2 k)) (c_children c) else c_children c)
              = (if b then filter (fun k => negb (ws_at s k)) (c_children c) else c_children c)).
    { destruct b; [|reflexivity]. apply filter_ext_in. intros k Hk. f_equal.
      apply ws_at_same; [apply Hs; left; auto|]. pose proof (Hkids k Hk). lia. }
    rewrite E.
    apply (pairs_frame b g s s2 L) with (lo := S j) (hi := hi); auto.
    + intros i0 j0 hi0 H1 H2 H3 H4 H5. apply (IH s s2 L i0 j0 hi0); auto. split; auto.
    + apply Forall_forall. intros k Hk. apply Hkids. destruct b; [apply filter_In in Hk as [Hk _]|]; exact Hk.
    + intros a Ha. apply Hs. lia.
Qed.

Lemma chain_fp_frame g s s2 ks lo hi :
  chain (fp g s) lo ks hi -> (forall a, lo <= a < hi -> cell_same s s2 a) -> chain (fp g s2) lo ks hi.
Proof.
  intros H Hs. eapply chain_mono; [intros k m; apply fp_lt| |exact H].
  intros k m Hk Hm Hp. apply (fp_frame g s s2); auto. intros a Ha. apply Hs. lia.
Qed.

(* the recursive in-place strip of a copy j of i *)
Lemma strip_rec : forall f g s i j hi s2 L,
  low L s -> i < L -> L <= j -> hi <= length s ->
  rel false g s i j -> fp g s j hi ->
  strip_inplace f s j true = Ok s2 ->
  length s2 = length s /\ (forall a, ~ (j <= a < hi) -> cell_same s s2 a)
  /\ rel true g s2 i j /\ fp g s2 j hi.
Proof.
  induction f as [|f IH]; intros g s i j hi s2 L Hlow Hi Hj Hhi Hrel Hfp H; [discriminate|].
  destruct g as [|g]; [destruct Hrel|].
  assert (Hlt : j < hi) by (eapply fp_lt; exact Hfp).
  destruct Hrel as [c [c' [Hc [Hc' [Hsh Hch]]]]]. destruct Hfp as [c'' [Hc'' Hchain]].
  rewrite Hc' in Hc''. inversion Hc''; subst c''. clear Hc''.
  cbn [negb] in Hch.
  pose proof Hlow as [HL Hcl].
  assert (Hkids : forall k, In k (c_children c) -> k < L) by (intros k Hk; eapply Hcl; eauto).
  rewrite strip_unfold, (get_Some _ _ _ Hc') in H. cbn [bind] in H.
  assert (Hval : Forall (fun k => k < length s) (c_children c')).
  { apply Forall_forall. intros k Hk. destruct (chain_in _ (fp_lt g s) _ _ _ Hchain k Hk). lia. }
  rewrite (keep_children_filter _ _ Hval) in H. cbn [bind] in H.
  set (kept := filter (fun k => negb (ws_at s k)) (c_children c')) in *.
  unfold reset_children in H. destruct (adopt s j kept) as [sa|] eqn:Ea; [|discriminate]. cbn [bind] in H.
  destruct (adopt_shape _ _ _ _ Ea) as [La Pa].
  unfold upd in H. destruct (get sa j) as [cma|] eqn:Eg; [|discriminate]. cbn [bind] in H. apply get_Ok in Eg.
  set (s1 := set_nth sa j (set_children kept cma)) in *.
  destruct (Pa j c' Hc') as [cma' [Hcma' [Hsa _]]]. rewrite Eg in Hcma'. inversion Hcma'; subst cma'. clear Hcma'.
  assert (L1 : length s1 = length s) by (unfold s1; rewrite set_nth_length; exact La).
  assert (Hj1 : nth_error s1 j = Some (set_children kept cma)).
  { unfold s1. apply nth_error_set_nth_eq. rewrite La. lia. }
  assert (Same1 : forall a, a <> j -> cell_same s s1 a).
  { intros a Ha x Hx. unfold s1. rewrite nth_error_set_nth_neq by auto. apply Pa. exact Hx. }
  assert (Low1 : low L s1) by (apply (low_same L s); auto; intros a Ha; apply Same1; lia).
  set (xs := filter (fun k => negb (ws_at s k)) (c_children c)) in *.
  assert (Hxs : Forall (fun x => x < L) xs).
  { apply Forall_forall. intros k Hk. apply filter_In in Hk as [Hk _]. auto. }
  assert (F0 : Forall2 (rel false g s) xs kept).
  { unfold xs, kept. apply Forall2_filter; [exact Hch|]. intros a b Hin Hab. f_equal.
    pose proof (rel_shape _ _ _ _ _ Hab) as Hs. unfold cells_shape_eq in Hs. unfold ws_at.
    destruct (nth_error s a) as [ca|]; [|destruct Hs]. destruct (nth_error s b) as [cb|]; [|destruct Hs].
    destruct Hs as [H1 [_ [_ H4]]]. unfold ws_data. rewrite H1, H4. reflexivity. }
  assert (C0 : chain (fp g s) (S j) kept hi) by (apply chain_filter; [intros k m; apply fp_lt|exact Hchain]).
  assert (F1 : Forall2 (rel false g s1) xs kept).
  { apply (pairs_frame false g s s1 L) with (lo := S j) (hi := hi); auto.
    - intros i0 j0 hi0 H1 H2 H3 H4 H5. apply (rel_frame false g s s1 L i0 j0 hi0); auto.
    - intros a Ha. apply Same1. lia. }
  assert (C1 : chain (fp g s1) (S j) kept hi) by (apply (chain_fp_frame g s); auto; intros a Ha; apply Same1; lia).
  (* the loop over the kept children *)
  assert (G : forall ks xs sc, Forall2 (rel false g sc) xs ks -> forall lo sf,
    strip_go f sc ks = Ok sf -> chain (fp g sc) lo ks hi -> Forall (fun x => x < L) xs -> low L sc -> L <= lo ->
    hi <= length sc ->
    length sf = length sc /\ (forall a, ~ (lo <= a < hi) -> cell_same sc sf a)
    /\ Forall2 (rel true g sf) xs ks /\ chain (fp g sf) lo ks hi).
  { clear - IH. intros ks xs0 sc F. revert F. intro F.
    induction ks as [|k r IHr] in xs0, sc, F |- *; intros lo sf Hg Hch Hx Hlow Hlo Hhi; simpl in Hg.
    - inversion Hg; subst sf. inversion F; subst. split; auto. split; [intros; apply cell_same_refl|].
      split; [constructor|exact Hch].
    - inversion F as [|x k' xs' r' Hxk Frest]; subst. inversion Hx as [|? ? HxL Hx']; subst.
      destruct (strip_inplace f sc k true) as [s'|] eqn:Es; [|discriminate]. cbn [bind] in Hg.
      simpl in Hch. destruct Hch as [Hk [mid [Hp Hc]]].
      pose proof (fp_lt _ _ _ _ Hp) as Hkm. pose proof (chain_le _ (fp_lt g sc) _ _ _ Hc) as Hmh.
      destruct (IH g sc x k mid s' L Hlow HxL ltac:(lia) ltac:(lia) Hxk Hp Es) as [L' [Fr' [R' P']]].
      assert (Low' : low L s') by (apply (low_same L sc); auto; intros a Ha; apply Fr'; lia).
      assert (Frest' : Forall2 (rel false g s') xs' r).
      { apply (pairs_frame false g sc s' L) with (lo := mid) (hi := hi); auto; [|lia|intros a Ha; apply Fr'; lia].
        intros i0 j0 hi0 H1 H2 H3 H4 H5. apply (rel_frame false g sc s' L i0 j0 hi0); auto. }
      assert (Hc' : chain (fp g s') mid r hi) by (apply (chain_fp_frame g sc); auto; intros a Ha; apply Fr'; lia).
      destruct (IHr xs' s' Frest' mid sf Hg Hc' Hx' Low' ltac:(lia) ltac:(lia)) as [L2 [Fr2 [R2 C2]]].
      split; [congruence|]. split.
      + intros a Ha. eapply cell_same_trans; [apply Fr'; lia|apply Fr2; lia].
      + split.
        * constructor; auto. apply (rel_frame true g s' sf L x k mid); auto; [lia|].
          intros a Ha. apply Fr2. lia.
        * simpl. split; auto. exists mid. split; auto. apply (fp_frame g s' sf); auto.
          intros a Ha. apply Fr2. lia. }
  destruct (G kept xs s1 F1 (S j) s2 H C1 Hxs Low1 ltac:(lia) ltac:(lia)) as [L2 [Fr2 [R2 C2]]].
  assert (SameAll : forall a, ~ (j <= a < hi) -> cell_same s s2 a).
  { intros a Ha. eapply cell_same_trans; [apply Same1; lia|apply Fr2; lia]. }
  split; [congruence|]. split; [exact SameAll|].
  destruct (SameAll i ltac:(lia) c Hc) as [d [Hd [Hsd Hkd]]].
  destruct (Fr2 j ltac:(lia) _ Hj1) as [d' [Hd' [Hsd' Hkd']]]. cbn [set_children c_children] in Hkd'.
  split.
  - cbn [rel]. exists d, d'. split; [exact Hd|]. split; [exact Hd'|]. split.
    + apply (shape_eq_trans d c d'); [apply shape_eq_sym; exact Hsd|].
      apply (shape_eq_trans c c' d'); [exact Hsh|]. apply (shape_eq_trans c' cma d'); [exact Hsa|].
      eapply shape_eq_trans; [|exact Hsd']. repeat split.
    + rewrite <- Hkd, <- Hkd'.
      assert (E : filter (fun k => negb (ws_at s2 k)) (c_children c) = xs).
      { unfold xs. apply filter_ext_in. intros k Hk. f_equal. pose proof (Hkids k Hk).
        apply ws_at_same; [apply SameAll; lia|lia]. }
      rewrite E. exact R2.
  - cbn [fp]. exists d'. split; [exact Hd'|]. rewrite <- Hkd'. exact C2.
Qed.

(* deepcopy followed by the recursive in-place strip of the copy, whatever the two fuels *)
Lemma strip_rec_general (f1 f2 : nat) (st : store) (i : nat) (s1 : store) (m : nat) (st' : store) :
  vc st -> cells_ok st ->
  deepcopy f1 st i = Ok (s1, m) -> strip_inplace f2 s1 m true = Ok st' ->
  m = length st /\ stripped_of f1 st' i m.
Proof.
  intros Hvc Hok Ed Es.
  destruct (deepcopy_iso _ _ _ _ _ Hvc Hok Ed) as [Hm [He [Hl [_ [_ [_ [Hiso _]]]]]]].
  pose proof (deepcopy_fp _ _ _ _ _ Ed) as Hfp.
  assert (Hi_lt : i < length st).
  { destruct f1 as [|f1]; [discriminate|]. rewrite deepcopy_unfold in Ed. destruct (get st i) as [x|] eqn:Egi; [|discriminate].
    apply get_Ok in Egi. eapply nth_error_Some_lt; eauto. }
  assert (Hlow : low (length st) s1).
  { split; [lia|]. intros a c k Ha Hc Hk. rewrite (extends_nth _ _ a He Ha) in Hc. eapply Hvc; eauto. }
  destruct (strip_rec _ _ _ i m (length s1) st' (length st) Hlow Hi_lt ltac:(lia) (le_n _) (iso_rel _ _ _ _ Hiso) Hfp Es)
    as [_ [_ [R _]]].
  split; [exact Hm|exact R].
Qed.

(* C16: strip(inplace=False, recurse=True) returns, on fresh cells, the original minus exactly
   the whitespace-only Data children at every level; the original is unchanged *)
Theorem strip_rec_exact (st : store) (i : nat) (st' : store) (n : nat) :
  vc st -> cells_ok st ->
  strip_top st i false true = Ok (st', n) ->
  n = length st
  /\ (forall a, a < length st -> nth_error st' a = nth_error st a)
  /\ stripped_of (S (length st)) st' i n.
Proof.
  intros Hvc Hok H.
  destruct (strip_copy_pure st i true st' n H) as [Hn Hpure].
  split; [exact Hn|]. split; [exact Hpure|].
  unfold strip_top, strip in H.
  destruct (deepcopy (S (length st)) st i) as [[s1 m]|] eqn:Ed; [|discriminate]. cbn [bind fst snd] in H.
  destruct (strip_inplace (S (length st)) s1 m true) as [s2|] eqn:Es; [|discriminate]. cbn [bind] in H.
  inversion H; subst s2 n. clear H.
  destruct (strip_rec_general _ _ _ _ _ _ _ Hvc Hok Ed Es) as [Hm R]. rewrite Hm in R. exact R.
Qed.

Theorem strip_rec_exact_built (name : str) (evs : list event) (t : tree) (i : nat) (st' : store) (n : nat) :
  build (init_tree name) evs = Ok t ->
  let st := t_cells t in
  strip_top st i false true = Ok (st', n) ->
  n = length st
  /\ (forall a, a < length st -> nth_error st' a = nth_error st a)
  /\ stripped_of (S (length st)) st' i n.
Proof.
  intros H st. destruct (built_cells_ok _ _ _ H) as [Hok Hvc]. apply strip_rec_exact; auto.
Qed.

(* what stripped_of means for the text: the result renders as the original rendered with the
   whitespace-only Data children skipped at every level *)
Fixpoint render_stripped (f : nat) (st : store) (i : nat) : res str :=
  match f with
  | O => Raise OutOfFuel
  | S f' =>
      do c <- get st i;
      do ks <- (fix go (cs : list nat) : res str :=
                  match cs with
                  | [] => Ok []
                  | k :: cs' => do s <- render_stripped f' st k; do r <- go cs'; Ok (s ++ r)
                  end) (filter (fun k => negb (ws_at st k)) (c_children c));
      Ok (render_cell c ks)
  end.

Lemma stripped_render : forall f s i j, stripped_of f s i j -> forall g, render g s j = render_stripped g s i.
Proof.
  unfold stripped_of. induction f as [|f IH]; intros s i j H g; [destruct H|].
  destruct H as [c [c' [Hc [Hc' [[H1 [H2 [H3 H4]]] Hch]]]]].
  destruct g as [|g]; [reflexivity|].
  cbn [render render_stripped]. rewrite (get_Some _ _ _ Hc), (get_Some _ _ _ Hc'). cbn [bind].
  match goal with |- bind ?A _ = bind ?B _ => assert (E : A = B) end.
  { induction Hch as [|x y xs ys Hxy _ IHch]; [reflexivity|].
    rewrite (IH _ _ _ Hxy g), IHch. reflexivity. }
  rewrite E. match goal with |- bind ?B _ = _ => destruct B end; simpl; auto.
  unfold render_cell. rewrite H1, H2, H3, H4. reflexivity.
Qed.

Theorem strip_rec_render (name : str) (evs : list event) (t : tree) (i : nat) (st' : store) (n : nat) :
  build (init_tree name) evs = Ok t ->
  let st := t_cells t in
  strip_top st i false true = Ok (st', n) ->
  forall g, render g st' n = render_stripped g st' i.
Proof.
  intros H st Hs g. destruct (strip_rec_exact_built _ _ _ _ _ _ H Hs) as [_ [_ R]].
  eapply stripped_render; exact R.
Qed.
