(* The directive that html_to_nodes builds for a <div class="admonition">, expressed on the
   syntax tree of the element: title extraction, <p> flattening, body text, option block. *)
From Coq Require Import List NArith Bool Arith Lia.
From MV Require Import Base.PyStr Base.Res Html.HtmlTypes Gen.Html Gen.HtmlNodes Html.HtmlModel Html.HtmlStore
  Html.HtmlInv Html.HtmlRound Html.HtmlOps Html.HtmlIso Html.HtmlTotal Html.HtmlToNodes Html.HtmlToNodesProofs
  Html.HtmlToNodesTotal.
Import ListNotations.
Local Open Scope nat_scope.

(* ---------- specification on syntax trees ---------- *)

Definition ws_html (h : html) : bool := match h with HData s => forallb is_space s | _ => false end.

Definition h_name (h : html) : str :=
  match h with HElem n _ _ | HVoid n _ | HSelf n _ => n | _ => [] end.
Definition h_attrs (h : html) : attrs :=
  match h with HElem _ a _ | HVoid _ a | HSelf _ a => a | _ => [] end.
Definition h_children (h : html) : list html := match h with HElem _ _ ch => ch | _ => [] end.

(* <div|p class="... title ..."> or class admonition-title *)
Definition is_title_html (h : html) : bool :=
  (str_eqb (h_name h) s_div || str_eqb (h_name h) s_p)
  && (mem_str s_title (classes (h_attrs h)) || mem_str s_admonition_title (classes (h_attrs h))).

(* a <p> contributes its inner HTML followed by a blank line, anything else its own text *)
Definition flat_html (h : html) : str :=
  if str_eqb (h_name h) s_p then print_doc (h_children h) ++ [10%N; 10%N] else print h.

(* the Markdown spelling:  ```{admonition} <title>  /  option lines  /  blank  /  body *)
Definition spec_admonition (a : attrs) (ch : list html) : directive :=
  let kept := filter (fun h => negb (ws_html h)) ch in
  let tr := match kept with
            | first :: rest => if is_title_html first then (print_doc (h_children first), rest) else (s_note, kept)
            | [] => (s_note, kept)
            end in
  let options := rstrip (option_block option_keys_admonition a) in
  mkdir s_admonition (fst tr)
        (options ++ (if truthy options then [10%N; 10%N] else []) ++ lstrip (concat (map flat_html (snd tr)))).

(* ---------- proof ---------- *)

Lemma repr_ws st k h : Repr st k h -> ws_at st k = ws_html h.
Proof.
  intro R. unfold ws_at. destruct h.
  - apply Repr_elem in R. destruct R as [c [Hc [Hk _]]]. rewrite Hc. unfold ws_data. rewrite Hk. reflexivity.
  - destruct R as [c [Hc [Hk _]]]. rewrite Hc. unfold ws_data. rewrite Hk. reflexivity.
  - destruct R as [c [Hc [Hk _]]]. rewrite Hc. unfold ws_data. rewrite Hk. reflexivity.
  - destruct R as [c [Hc [Hk [Hd _]]]]. rewrite Hc. unfold ws_data. rewrite Hk, Hd. reflexivity.
  - destruct R as [c [Hc [Hk _]]]. rewrite Hc. unfold ws_data. rewrite Hk. reflexivity.
  - destruct R as [c [Hc [Hk _]]]. rewrite Hc. unfold ws_data. rewrite Hk. reflexivity.
  - destruct R as [c [Hc [Hk _]]]. rewrite Hc. unfold ws_data. rewrite Hk. reflexivity.
  - destruct R as [c [Hc [Hk _]]]. rewrite Hc. unfold ws_data. rewrite Hk. reflexivity.
  - destruct R as [c [Hc [Hk _]]]. rewrite Hc. unfold ws_data. rewrite Hk. reflexivity.
Qed.

Lemma reprL_filter st : forall hs ids, ReprL st ids hs ->
  ReprL st (filter (fun k => negb (ws_at st k)) ids) (filter (fun h => negb (ws_html h)) hs).
Proof.
  induction hs as [|h hs IH]; intros ids R; simpl in R.
  - subst. reflexivity.
  - destruct ids as [|k ids]; [destruct R|]. destruct R as [Rk Rr]. simpl. rewrite (repr_ws _ _ _ Rk).
    destruct (ws_html h); simpl; auto.
Qed.

(* name / attributes / children of a represented cell *)
Lemma repr_cell st cok k h : cells_ok st -> Repr st k h ->
  cok = I ->
  exists c, nth_error st k = Some c /\ c_name c = h_name h /\ c_attrs c = h_attrs h
            /\ ReprL st (c_children c) (h_children h).
Proof.
  intros Hok R _. destruct h.
  - apply Repr_elem in R. destruct R as [c [Hc [_ [Hn [Ha Hr]]]]]. exists c. auto.
  - destruct R as [c [Hc [_ [Hn [Ha Hch]]]]]. exists c. simpl. rewrite Hch. auto.
  - destruct R as [c [Hc [_ [Hn [Ha Hch]]]]]. exists c. simpl. rewrite Hch. auto.
  - destruct R as [c [Hc [Hk [_ Hch]]]]. exists c. destruct (Hok _ _ Hc) as [_ [Ht _]].
    rewrite Hk in Ht. destruct (Ht eq_refl) as [Hn [Ha _]]. simpl. rewrite Hch. auto.
  - destruct R as [c [Hc [Hk [_ Hch]]]]. exists c. destruct (Hok _ _ Hc) as [_ [Ht _]].
    rewrite Hk in Ht. destruct (Ht eq_refl) as [Hn [Ha _]]. simpl. rewrite Hch. auto.
  - destruct R as [c [Hc [Hk [_ Hch]]]]. exists c. destruct (Hok _ _ Hc) as [_ [Ht _]].
    rewrite Hk in Ht. destruct (Ht eq_refl) as [Hn [Ha _]]. simpl. rewrite Hch. auto.
  - destruct R as [c [Hc [Hk [_ Hch]]]]. exists c. destruct (Hok _ _ Hc) as [_ [Ht _]].
    rewrite Hk in Ht. destruct (Ht eq_refl) as [Hn [Ha _]]. simpl. rewrite Hch. auto.
  - destruct R as [c [Hc [Hk [_ Hch]]]]. exists c. destruct (Hok _ _ Hc) as [_ [Ht _]].
    rewrite Hk in Ht. destruct (Ht eq_refl) as [Hn [Ha _]]. simpl. rewrite Hch. auto.
  - destruct R as [c [Hc [Hk [_ Hch]]]]. exists c. destruct (Hok _ _ Hc) as [_ [Ht _]].
    rewrite Hk in Ht. destruct (Ht eq_refl) as [Hn [Ha _]]. simpl. rewrite Hch. auto.
Qed.

Lemma render_list_iso f s : forall xs ys g, Forall2 (iso f s) xs ys -> render_list g s ys = render_list g s xs.
Proof.
  induction 1 as [|x y xs ys Hxy _ IH]; simpl; auto. rewrite (iso_render _ _ _ _ Hxy g), IH. reflexivity.
Qed.

Section Adm.
  Variable st st' : store.
  Variable n : nat.
  Hypothesis Hgood' : good st'.
  Hypothesis Hok : cells_ok st.
  Hypothesis Hgood : good st.
  Hypothesis Hpre : forall j, j < length st -> nth_error st' j = nth_error st j.
  Hypothesis Hlen : length st <= length st'.

  Let f := S (length st').

  Lemma repr_up k h : Repr st k h -> Repr st' k h.
  Proof.
    intro R. apply (Repr_frame st st' 0); [apply (proj1 Hgood)| |lia|exact R].
    intros j _ Hj. apply Hpre. exact Hj.
  Qed.

  Lemma reprL_up : forall hs ids, ReprL st ids hs -> ReprL st' ids hs.
  Proof.
    induction hs as [|h hs IH]; intros ids R; simpl in *; auto.
    destruct ids as [|k ids]; [destruct R|]. destruct R as [Rk Rr]. split; [apply repr_up; auto|auto].
  Qed.

  (* the copy of a represented element renders like the element *)
  Lemma copy_render g k k' h : iso g st' k k' -> Repr st k h -> render f st' k' = Ok (print h).
  Proof.
    intros Hi R. rewrite <- (iso_render _ _ _ _ Hi f).
    apply (render_repr st' (proj1 Hgood')); [apply repr_up; exact R|unfold f; lia].
  Qed.

  Lemma copy_children_render g k k' h : iso (S g) st' k k' -> Repr st k h ->
    exists c', nth_error st' k' = Some c' /\ c_name c' = h_name h /\ c_attrs c' = h_attrs h
               /\ render_list f st' (c_children c') = Ok (print_doc (h_children h)).
  Proof.
    intros Hi R. destruct (repr_cell st I k h Hok R eq_refl) as [c [Hc [Hn [Ha Hr]]]].
    cbn [iso] in Hi. destruct Hi as [c0 [c' [Hc0 [Hc' [[_ [Hs2 [Hs3 _]]] Hch]]]]].
    assert (c0 = c).
    { rewrite Hpre in Hc0 by (eapply nth_error_Some_lt; eauto). congruence. }
    subst c0. exists c'. split; [exact Hc'|]. split; [congruence|]. split; [congruence|].
    rewrite (render_list_iso _ _ _ _ f Hch).
    apply (render_list_repr st' (proj1 Hgood')); [apply reprL_up; exact Hr|].
    intros j Hj. unfold f. lia.
  Qed.

  Lemma flat_render g : forall hs ids ids', ReprL st ids hs -> Forall2 (iso (S g) st') ids ids' ->
    render_flat f st' ids' = Ok (concat (map flat_html hs)).
  Proof.
    induction hs as [|h hs IH]; intros ids ids' R F; simpl in R.
    - subst. inversion F; subst. reflexivity.
    - destruct ids as [|k ids]; [destruct R|]. destruct R as [Rk Rr]. inversion F as [|? k' ? ids2 Hkk' F']; subst.
      cbn [render_flat map concat].
      destruct (copy_children_render g k k' h Hkk' Rk) as [c' [Hc' [Hn [_ Hrl]]]].
      rewrite (get_Some _ _ _ Hc'). cbn [bind]. rewrite Hn. unfold flat_html.
      destruct (str_eqb (h_name h) s_p).
      + rewrite Hrl. cbn [bind]. rewrite (IH ids ids2 Rr F'). reflexivity.
      + rewrite (copy_render _ k k' h Hkk' Rk). cbn [bind]. rewrite (IH ids ids2 Rr F'). reflexivity.
  Qed.
End Adm.

Theorem admonition_spec (st : store) (el : nat) (nm : str) (a : attrs) (ch : list html) :
  good st -> cells_ok st -> Repr st el (HElem nm a ch) ->
  admonition_directive st el = Ok (spec_admonition a ch).
Proof.
  intros Hgood Hok R. pose proof R as R0. apply Repr_elem in R. destruct R as [c [Hc [_ [_ [Ha Hr]]]]].
  pose proof (nth_error_Some_lt _ _ _ Hc) as Hl.
  destruct (strip_copy_total st el Hgood Hl) as [st' [n [Hs [Hg' [Hn Hpre]]]]].
  assert (Hs' : strip_top st el false false = Ok (st', n)) by exact Hs.
  destruct (strip_copy_exact st el st' n (proj2 Hgood) Hok Hs') as [Hnl [c0 [c' [Hc0 [_ [Hc' [_ Hiso]]]]]]].
  assert (c0 = c) by congruence. subst c0.
  assert (Hlen : length st <= length st') by lia.
  unfold admonition_directive. rewrite Hs. cbn [bind fst snd].
  rewrite (get_Some _ _ _ Hc'), (get_Some _ _ _ Hc). cbn [bind].
  pose proof (reprL_filter st ch (c_children c) Hr) as Rk.
  assert (Eg : exists g, length st = S g) by (destruct (length st); [lia|eauto]). destruct Eg as [g Eg].
  rewrite Eg in Hiso.
  unfold spec_admonition. rewrite Ha.
  remember (filter (fun k => negb (ws_at st k)) (c_children c)) as kept_ids eqn:Ekid.
  remember (filter (fun h => negb (ws_html h)) ch) as kept eqn:Ek.
  clear Ekid Ek.
  (* title *)
  destruct kept as [|firsth resth].
  - simpl in Rk. subst kept_ids. inversion Hiso as [Hnil|]; subst. try rewrite <- Hnil. cbn [bind render_flat fst snd map concat].
    reflexivity.
  - simpl in Rk. destruct kept_ids as [|k ids]; [destruct Rk|]. destruct Rk as [Rk1 Rk2].
    inversion Hiso as [|? k' ? ids' Hkk' Hrest Hx Hy]; subst. try rewrite <- Hy.
    destruct (copy_children_render st st' Hg' Hok Hgood Hpre Hlen g k k' firsth Hkk' Rk1) as [cf [Hcf [Hnf [Haf Hrl]]]].
    rewrite (get_Some _ _ _ Hcf). cbn [bind].
    assert (Et : is_title_cell cf = is_title_html firsth) by (unfold is_title_cell, is_title_html; rewrite Hnf, Haf; reflexivity).
    rewrite Et. destruct (is_title_html firsth).
    + rewrite Hrl. cbn [bind fst snd].
      rewrite (flat_render st st' Hg' Hok Hgood Hpre Hlen g resth ids ids' Rk2 Hrest). cbn [bind]. reflexivity.
    + cbn [bind fst snd].
      assert (F : Forall2 (iso (S g) st') (k :: ids) (k' :: ids')) by (constructor; auto).
      assert (RL : ReprL st (k :: ids) (firsth :: resth)) by (simpl; auto).
      rewrite (flat_render st st' Hg' Hok Hgood Hpre Hlen g (firsth :: resth) (k :: ids) (k' :: ids') RL F). cbn [bind]. reflexivity.
Qed.

(* ---------- end to end on well-formed documents ---------- *)

(* the in-place strip of the root of a parsed tree, explicitly *)
Lemma strip_root_exact t : binv t ->
  exists c0, nth_error (t_cells t) 0 = Some c0 /\
  strip_inplace (S (length (t_cells t))) (t_cells t) (t_outmost t) false
  = Ok (set_nth (t_cells t) 0 (set_children (filter (fun j => negb (ws_at (t_cells t) j)) (c_children c0)) c0)).
Proof.
  intros B. pose proof (b_ok _ B) as Hok. rewrite (b_out _ B).
  destruct (ok_root _ Hok) as [c0 [H0 _]]. exists c0. split; [exact H0|].
  rewrite strip_unfold, (get_Some _ _ _ H0). cbn [bind].
  assert (Hv : Forall (fun j => j < length (t_cells t)) (c_children c0)).
  { apply Forall_forall. intros j Hj. destruct (ok_child _ Hok _ _ _ H0 Hj) as [_ [? _]]. auto. }
  rewrite (keep_children_filter _ _ Hv). cbn [bind]. unfold reset_children. rewrite adopt_same.
  - cbn [bind]. unfold upd. rewrite (get_Some _ _ _ H0). cbn [bind]. reflexivity.
  - intros k Hk. apply filter_In in Hk as [Hk _]. destruct (ok_child _ Hok _ _ _ H0 Hk) as [_ [Hl Hp]].
    unfold parent_of in Hp. destruct (nth_error (t_cells t) k) as [c|]; [|discriminate]. eauto.
Qed.

Definition is_admonition_html (h : html) : bool :=
  match h with
  | HElem n a _ => str_eqb n s_div && mem_str s_admonition (classes a)
  | _ => false
  end.

Lemma all_convertible_adm st : forall hs ids, cells_ok st -> ReprL st ids hs ->
  forallb is_admonition_html hs = true -> all_convertible false true st ids = Ok true.
Proof.
  unfold all_convertible. induction hs as [|h hs IH]; intros ids Hok R F; simpl in R.
  - subst. reflexivity.
  - destruct ids as [|k ids]; [destruct R|]. destruct R as [Rk Rr]. simpl in F. apply andb_true_iff in F as [Fh Fr].
    destruct h; try discriminate. apply Repr_elem in Rk. destruct Rk as [c [Hc [_ [Hn [Ha _]]]]].
    rewrite (get_Some _ _ _ Hc). cbn [bind]. unfold convertible. rewrite Hn, Ha. simpl in Fh. cbn [andb orb].
    rewrite Fh. apply IH; auto.
Qed.

Lemma convert_adm st : good st -> cells_ok st -> forall hs ids acc, ReprL st ids hs ->
  forallb is_admonition_html hs = true ->
  convert st ids acc = Ok (ODirectives (rev acc ++ map (fun h => spec_admonition (h_attrs h) (h_children h)) hs)).
Proof.
  intros Hg Hok. induction hs as [|h hs IH]; intros ids acc R F; simpl in R.
  - subst. simpl. rewrite app_nil_r. reflexivity.
  - destruct ids as [|k ids]; [destruct R|]. destruct R as [Rk Rr]. simpl in F. apply andb_true_iff in F as [Fh Fr].
    destruct h; try discriminate. pose proof Rk as Rk0. apply Repr_elem in Rk. destruct Rk as [c [Hc [_ [Hn [Ha _]]]]].
    cbn [convert]. rewrite (get_Some _ _ _ Hc). cbn [bind]. rewrite Hn.
    simpl in Fh. apply andb_true_iff in Fh as [Fd _]. apply str_eqb_eq in Fd. rewrite Fd in *.
    change (str_eqb s_div s_img) with false. cbn iota.
    rewrite (admonition_spec st k _ _ _ Hg Hok Rk0). cbn [bind].
    rewrite (IH ids _ Rr Fr). cbn [rev map h_attrs h_children]. rewrite <- app_assoc. reflexivity.
Qed.

Lemma cells_ok_set_children s i c kept :
  cells_ok s -> nth_error s i = Some c -> is_terminal (c_kind c) = false -> cells_ok (set_nth s i (set_children kept c)).
Proof.
  intros Hok Hc Ht a x Hx. destruct (Nat.eq_dec i a) as [<-|Hne].
  - rewrite nth_error_set_nth_eq in Hx by (eapply nth_error_Some_lt; eauto). inversion Hx; subst x.
    destruct (Hok _ _ Hc) as [H1 [H2 H3]]. split; simpl; auto. split; auto. intro H. congruence.
  - rewrite nth_error_set_nth_neq in Hx by exact Hne. eapply Hok; eauto.
Qed.

Section Oracle.
  Variable parse : str -> list event.
  Hypothesis O_htmlparser_events : forall hs, wf_doc hs = true -> parse (print_doc hs) = events_doc hs.

  (* C17_admonition_equiv *)
  Theorem admonition_equiv (hs : list html) :
    wf_doc hs = true ->
    let kept := filter (fun h => negb (ws_html h)) hs in
    kept <> [] -> forallb is_admonition_html kept = true ->
    html_to_nodes parse false false true (print_doc hs)
    = ODirectives (map (fun h => spec_admonition (h_attrs h) (h_children h)) kept).
  Proof.
    intros Hwf kept Hne Hadm. unfold html_to_nodes. cbv zeta. cbn [orb negb]. unfold tokenize.
    rewrite (O_htmlparser_events hs Hwf).
    destruct (block_all hs false Hwf (init_tree []) 0 [] _ (binv_init []) eq_refl eq_refl)
      as [t [ids [Hb [B [Hs [Hp [Hfr [Hl [F R]]]]]]]]].
    rewrite Hb. cbn [bind]. destruct (strip_root_exact t B) as [c0 [H0 Hst]]. rewrite Hst. cbn [bind].
    rewrite (b_out _ B).
    set (kids := filter (fun j => negb (ws_at (t_cells t) j)) (c_children c0)) in *.
    set (st := set_nth (t_cells t) 0 (set_children kids c0)) in *.
    pose proof (nth_error_Some_lt _ _ _ H0) as Hl0.
    assert (Hroot : nth_error st 0 = Some (set_children kids c0)) by (apply nth_error_set_nth_eq; exact Hl0).
    rewrite (get_Some _ _ _ Hroot). cbn [bind set_children c_children].
    destruct (built_cells_ok _ _ _ Hb) as [Hok Hvc].
    (* the root's children represent the document *)
    assert (Hc0 : c_children c0 = ids).
    { rewrite Hp in H0. inversion H0. reflexivity. }
    assert (Rk : ReprL (t_cells t) kids kept) by (unfold kids, kept; rewrite Hc0; apply reprL_filter; exact R).
    assert (Hg : good st).
    { destruct (strip_inplace_good _ _ _ _ (good_built t B) Hst) as [Hg _]. exact Hg. }
    assert (Hok' : cells_ok st).
    { apply cells_ok_set_children; auto. rewrite Hp in H0. inversion H0. reflexivity. }
    assert (Hge : Forall (fun i => 1 <= i) kids).
    { apply Forall_forall. intros k Hk. unfold kids in Hk. apply filter_In in Hk as [Hk _]. rewrite Hc0 in Hk.
      rewrite Forall_forall in F. specialize (F k Hk). simpl in F. lia. }
    assert (Rk' : ReprL st kids kept).
    { apply (ReprL_frame (t_cells t) st 1); auto.
      - apply tree_ok_incr. apply (b_ok _ B).
      - intros j Hj _. unfold st. apply nth_error_set_nth_neq. lia. }
    destruct kids as [|k ks] eqn:Ekids.
    { exfalso. simpl in Rk. destruct kept; [congruence|destruct Rk]. }
    rewrite (all_convertible_adm st kept (k :: ks) Hok' Rk' Hadm).
    rewrite (convert_adm st Hg Hok' kept (k :: ks) [] Rk' Hadm). reflexivity.
  Qed.
End Oracle.
