(* Model of myst_parser/parsers/parse_html.py: Element graph as a store, the Tree stack
   machine driven by html.parser events, render / walk / find / strip / deepcopy, and the
   specification side (well-formed documents, print, events_of).
   Executable definitions only; proofs are in HtmlStore.v, HtmlInv.v, HtmlRound.v, HtmlOps.v. *)
From Coq Require Import List NArith Bool Arith.
From MV Require Import Base.PyStr Base.Res Html.HtmlTypes Gen.Html.
Import ListNotations.
Local Open Scope nat_scope.

(* ------------------------------------------------------------------ events of html.parser *)

Inductive event : Type :=
| EStart (n : str) (a : attrs)       (* handle_starttag *)
| EStartEnd (n : str) (a : attrs)    (* handle_startendtag *)
| EEnd (n : str)                     (* handle_endtag *)
| EData (s : str)                    (* handle_data *)
| EDecl (s : str)                    (* handle_decl *)
| EUnknownDecl (s : str)             (* unknown_decl *)
| EComment (s : str)                 (* handle_comment *)
| EPi (s : str)                      (* handle_pi *)
| ECharRef (s : str)                 (* handle_charref *)
| EEntityRef (s : str).              (* handle_entityref *)

(* ------------------------------------------------------------------ the store *)

(* one Element object; its identity is its index in the store (allocation order) *)
Record cell : Type := mkcell {
  c_kind : kind;
  c_name : str;
  c_attrs : attrs;            (* the Attribute dict, in insertion order *)
  c_data : str;               (* TerminalElement.data *)
  c_parent : option nat;      (* _parent *)
  c_children : list nat       (* _children *)
}.

Definition store := list cell.

(* dereferencing an id that was never allocated cannot happen in Python; the model
   reports it as KeyError and the theorems show it unreachable *)
Definition get (st : store) (i : nat) : res cell :=
  match nth_error st i with Some c => Ok c | None => Raise KeyError end.

Fixpoint set_nth {A} (l : list A) (i : nat) (x : A) : list A :=
  match l, i with
  | [], _ => []
  | _ :: r, O => x :: r
  | y :: r, S i' => y :: set_nth r i' x
  end.

Definition upd (st : store) (i : nat) (f : cell -> cell) : res store :=
  do c <- get st i; Ok (set_nth st i (f c)).

Definition set_parent (p : option nat) (c : cell) : cell :=
  mkcell (c_kind c) (c_name c) (c_attrs c) (c_data c) p (c_children c).

Definition set_children (ch : list nat) (c : cell) : cell :=
  mkcell (c_kind c) (c_name c) (c_attrs c) (c_data c) (c_parent c) ch.

(* dict(list_of_pairs): first position, last value of a repeated key *)
Fixpoint dict_set (d : attrs) (k : str) (v : option str) : attrs :=
  match d with
  | [] => [(k, v)]
  | (k', v') :: d' => if str_eqb k k' then (k', v) :: d' else (k', v') :: dict_set d' k v
  end.

Fixpoint dict_of_pairs_acc (d : attrs) (l : attrs) : attrs :=
  match l with
  | [] => d
  | (k, v) :: l' => dict_of_pairs_acc (dict_set d k v) l'
  end.

(* Attribute(attr or {}) *)
Definition dict_of_pairs (l : attrs) : attrs := dict_of_pairs_acc [] l.

(* Element.__init__(name, attr) / TerminalElement.__init__(data) *)
Definition new_element (k : kind) (name : str) (a : attrs) : cell :=
  mkcell k name (dict_of_pairs a) [] None [].

Definition new_terminal (k : kind) (data : str) : cell :=
  mkcell k [] (dict_of_pairs []) data None [].

Definition alloc (st : store) (c : cell) : store * nat := (st ++ [c], length st).

(* MutableSequence.append(item) = self.insert(len(self), item):
   AssertionError if the item already has a different parent *)
Definition append_child (st : store) (p item : nat) : res store :=
  do ci <- get st item;
  do _ <- (match c_parent ci with
           | Some q => if Nat.eqb q p then Ok tt else Raise AssertionError
           | None => Ok tt
           end);
  do st1 <- upd st item (set_parent (Some p));
  upd st1 p (fun c => set_children (c_children c ++ [item]) c).

(* ------------------------------------------------------------------ class Tree *)

Record tree : Type := mktree {
  t_cells : store;
  t_outmost : nat;          (* self.outmost *)
  t_stack : list nat        (* self.stack, head = last pushed *)
}.

(* Tree.__init__ + clear(): a fresh Root, alone on the stack *)
Definition init_tree (name : str) : tree :=
  mktree [new_element KRoot name []] 0 [0].

(* stack.pop() *)
Definition pop (s : list nat) : res (nat * list nat) :=
  match s with [] => Raise IndexError | x :: r => Ok (x, r) end.

(* Tree.last(): self.stack[-1] *)
Definition tree_last (t : tree) : res nat :=
  match t_stack t with [] => Raise IndexError | x :: _ => Ok x end.

Definition nest_tag (t : tree) (name : str) (a : attrs) : res tree :=
  do pr <- pop (t_stack t);
  let '(pointer, rest) := pr in
  let '(st1, item) := alloc (t_cells t) (new_element k_nest_tag name a) in
  do st2 <- append_child st1 pointer item;
  Ok (mktree st2 (t_outmost t) (item :: pointer :: rest)).

Definition nest_leaf (t : tree) (c : cell) : res tree :=
  do top <- tree_last t;
  let '(st1, item) := alloc (t_cells t) c in
  do st2 <- append_child st1 top item;
  Ok (mktree st2 (t_outmost t) (t_stack t)).

Definition nest_xtag (t : tree) (name : str) (a : attrs) : res tree :=
  nest_leaf t (new_element k_nest_xtag name a).

Definition nest_vtag (t : tree) (name : str) (a : attrs) : res tree :=
  nest_leaf t (new_element k_nest_vtag name a).

Definition nest_terminal (t : tree) (k : kind) (data : str) : res tree :=
  nest_leaf t (new_terminal k data).

(* the for/else loop of enclose over reversed(self.stack): number of elements to pop.
   The root (self.outmost) is never closed. *)
Fixpoint enclose_count (st : store) (outmost : nat) (stack : list nat) (name : str) (count : nat)
  : res nat :=
  match stack with
  | [] => Ok 0
  | ind :: rest =>
      if Nat.eqb ind outmost then Ok 0
      else
        do c <- get st ind;
        if str_eqb (c_name c) name then Ok (S count)
        else enclose_count st outmost rest name (S count)
  end.

Fixpoint pop_n (n : nat) (s : list nat) : res (list nat) :=
  match n with
  | O => Ok s
  | S n' => do pr <- pop s; pop_n n' (snd pr)
  end.

Definition enclose (t : tree) (name : str) : res tree :=
  do count <- enclose_count (t_cells t) (t_outmost t) (t_stack t) name 0;
  do s <- pop_n count (t_stack t);
  Ok (mktree (t_cells t) (t_outmost t) s).

(* ------------------------------------------------------------------ class HtmlToAst *)

Definition handle (t : tree) (e : event) : res tree :=
  match e with
  | EStart n a => if mem_str n void_elements then nest_vtag t n a else nest_tag t n a
  | EStartEnd n a => nest_xtag t n a
  | EEnd n => if negb (mem_str n void_elements) then enclose t n else Ok t
  | EData s => nest_terminal t k_handle_data s
  | EDecl s => nest_terminal t k_handle_decl s
  | EUnknownDecl s => nest_terminal t k_unknown_decl s
  | EComment s => nest_terminal t k_handle_comment s
  | EPi s => nest_terminal t k_handle_pi s
  | ECharRef s => nest_terminal t k_handle_charref s
  | EEntityRef s => nest_terminal t k_handle_entityref s
  end.

Fixpoint build (t : tree) (evs : list event) : res tree :=
  match evs with
  | [] => Ok t
  | e :: r => do t' <- handle t e; build t' r
  end.

(* tokenize_html(text, name): html.parser is the function [parse] *)
Definition tokenize (parse : str -> list event) (text name : str) : res tree :=
  build (init_tree name) (parse text).

(* What an html.parser instance carries over from one feed() to the next: the unprocessed
   tail of the input (rawdata) and the CDATA mode entered by an unclosed <script>/<style>. *)
Record pstate : Type := mkpstate { p_rawdata : str; p_cdata : option str }.

(* HTMLParser.__init__ -> reset() *)
Definition fresh_pstate : pstate := mkpstate [] None.

(* One call tokenize_html(text, name):  parser = HtmlToAst(name); return parser.feed(text).
   A new instance per call: fresh parser state, fresh Tree.  [feed] is html.parser's goahead:
   the events emitted for a text from a given state, and the state left behind. *)
Definition tokenize_call (feed : pstate -> str -> list event * pstate) (call : str * str) : res tree :=
  build (init_tree (snd call)) (fst (feed fresh_pstate (fst call))).

(* a sequence of calls in one process *)
Definition session (feed : pstate -> str -> list event * pstate) (calls : list (str * str)) : list (res tree) :=
  map (tokenize_call feed) calls.

(* ------------------------------------------------------------------ render *)

(* Attribute.__str__ *)
Definition render_attrs (a : attrs) : str :=
  join attr_sep (map (fun kv => render_attr (fst kv) (snd kv)) a).

Definition render_cell (c : cell) (children_s : str) : str :=
  let n := c_name c in
  let ha := truthy (c_attrs c) in
  let s := render_attrs (c_attrs c) in
  let d := c_data c in
  match c_kind c with
  | KRoot => render_Root n ha s d children_s
  | KTag => render_Tag n ha s d children_s
  | KXTag => render_XTag n ha s d children_s
  | KVoid => render_VoidTag n ha s d children_s
  | KData => render_Data n ha s d children_s
  | KDecl => render_Declaration n ha s d children_s
  | KComment => render_Comment n ha s d children_s
  | KPi => render_Pi n ha s d children_s
  | KChar => render_Char n ha s d children_s
  | KEntity => render_Entity n ha s d children_s
  end.

(* Element.render() without tag_overrides; recursion on fuel *)
Fixpoint render (f : nat) (st : store) (i : nat) : res str :=
  match f with
  | O => Raise OutOfFuel
  | S f' =>
      do c <- get st i;
      do ks <- (fix go (cs : list nat) : res str :=
                  match cs with
                  | [] => Ok []
                  | k :: cs' => do s <- render f' st k; do r <- go cs'; Ok (s ++ r)
                  end) (c_children c);
      Ok (render_cell c ks)
  end.

(* "".join(child.render() for child in ids) *)
Fixpoint render_list (f : nat) (st : store) (ids : list nat) : res str :=
  match ids with
  | [] => Ok []
  | k :: r => do s <- render f st k; do t <- render_list f st r; Ok (s ++ t)
  end.

Definition render_top (st : store) (i : nat) : res str := render (length st) st i.

(* ------------------------------------------------------------------ walk / find *)

(* Element.walk(include_self=False): document order *)
Fixpoint walk (f : nat) (st : store) (i : nat) : res (list nat) :=
  match f with
  | O => Raise OutOfFuel
  | S f' =>
      do c <- get st i;
      (fix go (cs : list nat) : res (list nat) :=
         match cs with
         | [] => Ok []
         | k :: cs' => do w <- walk f' st k; do r <- go cs'; Ok (k :: w ++ r)
         end) (c_children c)
  end.

Definition walk_top (st : store) (i : nat) : res (list nat) := walk (length st) st i.

Definition is_space (c : N) : bool := mem_N c py_isspace.

(* str.split() with no argument: maximal runs of non-whitespace *)
Fixpoint split_ws_aux (s : str) (cur : str) : list str :=
  match s with
  | [] => match cur with [] => [] | _ => [rev cur] end
  | c :: s' =>
      if is_space c then
        match cur with [] => split_ws_aux s' [] | _ => rev cur :: split_ws_aux s' [] end
      else split_ws_aux s' (c :: cur)
  end.

Definition split_ws (s : str) : list str := split_ws_aux s [].

Fixpoint dict_get (d : attrs) (k : str) : option (option str) :=
  match d with
  | [] => None
  | (k', v) :: d' => if str_eqb k k' then Some v else dict_get d' k
  end.

(* Attribute.__getitem__: self.get(key, "") *)
Definition attr_getitem (d : attrs) (k : str) : option str :=
  match dict_get d k with Some v => v | None => Some [] end.

Definition s_class : str := [99; 108; 97; 115; 115]%N.

(* Attribute.classes: (self["class"] or "").split() *)
Definition classes (d : attrs) : list str :=
  split_ws (match attr_getitem d s_class with Some s => s | None => [] end).

Inductive pycls : Type := PElement | PTerminalElement | PKind (k : kind).

Definition is_terminal (k : kind) : bool :=
  match k with KData | KDecl | KComment | KPi | KChar | KEntity => true | _ => false end.

(* isinstance(c, cls) *)
Definition isinstance (k : kind) (cls : pycls) : bool :=
  match cls with
  | PElement => true
  | PTerminalElement => is_terminal k
  | PKind k' => kind_eqb k k'
  end.

Inductive ident : Type := IName (s : str) | IClass (c : pycls).

Record query : Type := mkquery {
  q_ident : ident;
  q_attrs : option attrs;            (* attrs: dict | None *)
  q_classes : option (list str);     (* classes: iterable | None *)
  q_include_self : bool;
  q_recurse : bool
}.

Definition ostr_eqb (a b : option str) : bool :=
  match a, b with
  | None, None => true
  | Some x, Some y => str_eqb x y
  | _, _ => false
  end.

(* the body of the for-loop in Element.find for one candidate *)
Definition matches (q : query) (c : cell) : bool :=
  (match q_ident q with
   | IName s => str_eqb (c_name c) s
   | IClass cls => isinstance (c_kind c) cls
   end)
  && (match q_classes q with
      | None => true
      | Some cl => forallb (fun x => mem_str x (classes (c_attrs c))) cl
      end)
  && (match q_attrs q with
      | None => true
      | Some d => forallb (fun kv => ostr_eqb (attr_getitem (c_attrs c) (fst kv)) (snd kv)) d
      end).

Fixpoint filter_cells (st : store) (q : query) (ids : list nat) : res (list nat) :=
  match ids with
  | [] => Ok []
  | i :: r =>
      do c <- get st i;
      do rest <- filter_cells st q r;
      Ok (if matches q c then i :: rest else rest)
  end.

Definition find (f : nat) (st : store) (i : nat) (q : query) : res (list nat) :=
  do c <- get st i;
  do it <- (if q_recurse q then walk f st i else Ok (c_children c));
  filter_cells st q (if q_include_self q then i :: it else it).

Definition find_top (st : store) (i : nat) (q : query) : res (list nat) := find (length st) st i q.

(* ------------------------------------------------------------------ deepcopy / strip *)

Fixpoint deepcopy (f : nat) (st : store) (i : nat) : res (store * nat) :=
  match f with
  | O => Raise OutOfFuel
  | S f' =>
      do c <- get st i;
      if is_terminal (c_kind c) then
        Ok (alloc st (new_terminal (c_kind c) (c_data c)))
      else
        let '(st1, n) := alloc st (new_element (c_kind c) (c_name c) (c_attrs c)) in
        do st2 <- (fix go (st : store) (cs : list nat) : res store :=
                     match cs with
                     | [] => Ok st
                     | k :: cs' =>
                         do r <- deepcopy f' st k;
                         do st' <- append_child (fst r) n (snd r);
                         go st' cs'
                     end) st1 (c_children c);
        Ok (st2, n)
  end.

(* isinstance(e, Data) and e.data.strip() == "" *)
Definition ws_data (c : cell) : bool :=
  kind_eqb (c_kind c) KData && forallb is_space (c_data c).

Fixpoint keep_children (st : store) (ids : list nat) : res (list nat) :=
  match ids with
  | [] => Ok []
  | e :: r =>
      do c <- get st e;
      do rest <- keep_children st r;
      Ok (if ws_data c then rest else e :: rest)
  end.

(* Element.reset_children(children) with deepcopy=False *)
Fixpoint adopt (st : store) (self : nat) (items : list nat) : res store :=
  match items with
  | [] => Ok st
  | it :: r =>
      do c <- get st it;
      do st' <- (match c_parent c with
                 | None => upd st it (set_parent (Some self))
                 | Some q => if Nat.eqb q self then Ok st else Raise AssertionError
                 end);
      adopt st' self r
  end.

Definition reset_children (st : store) (self : nat) (items : list nat) : res store :=
  do st1 <- adopt st self items;
  upd st1 self (set_children items).

(* Element.strip(inplace=True, recurse) *)
Fixpoint strip_inplace (f : nat) (st : store) (el : nat) (recurse : bool) : res store :=
  match f with
  | O => Raise OutOfFuel
  | S f' =>
      do c <- get st el;
      do kept <- keep_children st (c_children c);
      do st1 <- reset_children st el kept;
      if recurse then
        (fix go (st : store) (cs : list nat) : res store :=
           match cs with
           | [] => Ok st
           | k :: cs' => do st' <- strip_inplace f' st k true; go st' cs'
           end) st1 kept
      else Ok st1
  end.

(* Element.strip(inplace, recurse): returns the store and the stripped element *)
Definition strip (f : nat) (st : store) (i : nat) (inplace recurse : bool) : res (store * nat) :=
  if inplace then
    do st' <- strip_inplace f st i recurse; Ok (st', i)
  else
    do r <- deepcopy f st i;
    do st' <- strip_inplace f (fst r) (snd r) recurse;
    Ok (st', snd r).

Definition deepcopy_top (st : store) (i : nat) := deepcopy (length st) st i.
Definition strip_top (st : store) (i : nat) (inplace recurse : bool) :=
  strip (S (length st)) st i inplace recurse.

(* ------------------------------------------------------------------ specification side *)

Local Open Scope N_scope.

(* well-formed HTML documents as syntax trees *)
Inductive html : Type :=
| HElem (n : str) (a : attrs) (ch : list html)    (* <n a>ch</n> *)
| HVoid (n : str) (a : attrs)                     (* <n a>       *)
| HSelf (n : str) (a : attrs)                     (* <n a/>      *)
| HData (s : str)
| HDecl (s : str)                                 (* <!s>   *)
| HComment (s : str)                              (* <!--s--> *)
| HPi (s : str)                                   (* <?s>   *)
| HChar (s : str)                                 (* &#s;   *)
| HEntity (s : str).                              (* &s;    *)

(* serialisation of a double-quoted attribute value: & and the double quote are written as references *)
Definition spec_escape (v : str) : str :=
  flat_map (fun c => if N.eqb c 38 then [38; 97; 109; 112; 59]
                     else if N.eqb c 34 then [38; 113; 117; 111; 116; 59] else [c]) v.

Definition print_attr (kv : str * option str) : str :=
  [32] ++ fst kv ++ match snd kv with None => [] | Some v => [61; 34] ++ spec_escape v ++ [34] end.

Definition print_attrs (a : attrs) : str := concat (map print_attr a).

Fixpoint print (h : html) : str :=
  match h with
  | HElem n a ch =>
      [60] ++ n ++ print_attrs a ++ [62] ++
      (fix go (l : list html) : str := match l with [] => [] | x :: r => print x ++ go r end) ch ++
      [60; 47] ++ n ++ [62]
  | HVoid n a => [60] ++ n ++ print_attrs a ++ [62]
  | HSelf n a => [60] ++ n ++ print_attrs a ++ [47; 62]
  | HData s => s
  | HDecl s => [60; 33] ++ s ++ [62]
  | HComment s => [60; 33; 45; 45] ++ s ++ [45; 45; 62]
  | HPi s => [60; 63] ++ s ++ [62]
  | HChar s => [38; 35] ++ s ++ [59]
  | HEntity s => [38] ++ s ++ [59]
  end.

Fixpoint print_doc (hs : list html) : str :=
  match hs with [] => [] | h :: r => print h ++ print_doc r end.

Fixpoint events_of (h : html) : list event :=
  match h with
  | HElem n a ch =>
      EStart n a ::
      (fix go (l : list html) : list event := match l with [] => [] | x :: r => events_of x ++ go r end) ch
      ++ [EEnd n]
  | HVoid n a => [EStart n a]
  | HSelf n a => [EStartEnd n a]
  | HData s => [EData s]
  | HDecl s => [EDecl s]
  | HComment s => [EComment s]
  | HPi s => [EPi s]
  | HChar s => [ECharRef s]
  | HEntity s => [EEntityRef s]
  end.

Fixpoint events_doc (hs : list html) : list event :=
  match hs with [] => [] | h :: r => events_of h ++ events_doc r end.

(* the void elements of the HTML standard (WHATWG, syntax.html#void-elements), sorted *)
Definition spec_void : list str :=
  [[97; 114; 101; 97]; [98; 97; 115; 101]; [98; 114]; [99; 111; 108]; [101; 109; 98; 101; 100];
   [104; 114]; [105; 109; 103]; [105; 110; 112; 117; 116]; [108; 105; 110; 107]; [109; 101; 116; 97];
   [112; 97; 114; 97; 109]; [115; 111; 117; 114; 99; 101]; [116; 114; 97; 99; 107]; [119; 98; 114]].

Definition is_lower (c : N) : bool := (97 <=? c) && (c <=? 122).
Definition is_upper (c : N) : bool := (65 <=? c) && (c <=? 90).
Definition is_digit (c : N) : bool := (48 <=? c) && (c <=? 57).
Definition is_hex (c : N) : bool := is_digit c || ((97 <=? c) && (c <=? 102)) || ((65 <=? c) && (c <=? 70)).

(* lower-case ASCII name: [a-z][a-z0-9-]* *)
Definition wf_name (n : str) : bool :=
  match n with
  | [] => false
  | c :: r => is_lower c && forallb (fun x => is_lower x || is_digit x || N.eqb x 45) r
  end.

Definition no_char (c : N) (s : str) : bool := negb (mem_N c s).

(* attribute value: any string (printed double-quoted with & and the double quote as references), or absent *)
Definition wf_value (v : option str) : bool := true.

Fixpoint wf_attrs (a : attrs) : bool :=
  match a with
  | [] => true
  | (k, v) :: r => wf_name k && wf_value v && negb (mem_str k (map fst r)) && wf_attrs r
  end.

Definition is_data (h : html) : bool := match h with HData _ => true | _ => false end.

Definition lower_char (c : N) : N := if is_upper c then (c + 32)%N else c.

Definition s_doctype : str := [100; 111; 99; 116; 121; 112; 101].

Definition wf_charref (s : str) : bool :=
  match s with
  | [] => false
  | c :: r =>
      (is_digit c && forallb is_digit r)
      || ((N.eqb c 120 || N.eqb c 88) && truthy r && forallb is_hex r)
  end.

Definition wf_entity (s : str) : bool :=
  match s with
  | [] => false
  | c :: r => (is_lower c || is_upper c)
              && forallb (fun x => is_lower x || is_upper x || is_digit x || N.eqb x 45 || N.eqb x 46) r
  end.

Fixpoint wf (h : html) : bool :=
  match h with
  | HElem n a ch =>
      wf_name n && negb (mem_str n spec_void) && wf_attrs a
      && (if mem_str n cdata_elements then forallb is_data ch else true)
      && (fix go (prev_data : bool) (l : list html) : bool :=
            match l with
            | [] => true
            | x :: r => wf x && negb (prev_data && is_data x) && go (is_data x) r
            end) false ch
  | HVoid n a => wf_name n && mem_str n spec_void && wf_attrs a
  | HSelf n a => wf_name n && wf_attrs a
  | HData s => truthy s && no_char 60 s && no_char 38 s
  | HDecl s => startswith (map lower_char s) s_doctype && no_char 62 s
  | HComment s => no_char 62 s
  | HPi s => no_char 62 s
  | HChar s => wf_charref s
  | HEntity s => wf_entity s
  end.

Fixpoint wf_seq (prev_data : bool) (l : list html) : bool :=
  match l with
  | [] => true
  | x :: r => wf x && negb (prev_data && is_data x) && wf_seq (is_data x) r
  end.

Definition wf_doc (hs : list html) : bool := wf_seq false hs.
