(* deepcopy returns an isomorphic tree on fresh cells; strip(inplace=False) returns the original
   minus exactly its whitespace-only Data children. *)
From Coq Require Import List NArith Bool Arith Lia.
From MV Require Import Base.PyStr Base.Res Html.HtmlTypes Gen.Html Html.HtmlModel Html.HtmlStore Html.HtmlInv Html.HtmlOps.
Import ListNotations.
Local Open Scope nat_scope.

(* ---------- well-formed cells ---------- *)

Fixpoint nodup_keys (a : attrs) : bool :=
  match a with
  | [] => true
  | (k, _) :: r => negb (mem_str k (map fst r)) && nodup_keys r
  end.

(* what every object created by the classes satisfies: attrs is a dict; a TerminalElement has
   the empty name, no attributes and no children *)
Definition cell_ok (c : cell) : Prop :=
  nodup_keys (c_attrs c) = true
  /\ (is_terminal (c_kind c) = true -> c_name c = [] /\ c_attrs c = [] /\ c_children c = [])
  /\ (is_terminal (c_kind c) = false -> c_data c = []).

Definition cells_ok (s : store) : Prop := forall a c, nth_error s a = Some c -> cell_ok c.

(* every listed child is allocated *)
Definition vc (s : store) : Prop :=
  forall a c k, nth_error s a = Some c -> In k (c_children c) -> k < length s.

Lemma mem_str_app' s l1 l2 : mem_str s (l1 ++ l2) = mem_str s l1 || mem_str s l2.
Proof. induction l1 as [|x l1 IH]; simpl; auto. rewrite IH. apply orb_assoc. Qed.

Lemma dict_set_keys d k v :
  map fst (dict_set d k v) = if mem_str k (map fst d) then map fst d else map fst d ++ [k].
Proof.
  induction d as [|[k' v'] d IH]; simpl; [reflexivity|].
  destruct (str_eqb k k') eqn:E; simpl; [reflexivity|]. rewrite IH. destruct (mem_str k (map fst d)); reflexivity.
Qed.

Lemma nodup_keys_spec a : nodup_keys a = true <-> NoDup (map fst a).
Proof.
  induction a as [|[k v] r IH]; simpl.
  - split; [constructor|reflexivity].
  - rewrite andb_true_iff, negb_true_iff, IH. split.
    + intros [H1 H2]. constructor; auto. intro Hin. apply mem_str_In in Hin. congruence.
    + intro H. inversion H; subst. split; auto. destruct (mem_str k (map fst r)) eqn:E; auto.
      apply mem_str_In in E. contradiction.
Qed.

Lemma dict_set_nodup d k v : nodup_keys d = true -> nodup_keys (dict_set d k v) = true.
Proof.
  rewrite !nodup_keys_spec, dict_set_keys. intro H. destruct (mem_str k (map fst d)) eqn:E; auto.
  apply NoDup_app_intro; auto.
  - constructor; [intros []|constructor].
  - intros x Hx [<-|[]]. apply mem_str_In in Hx. congruence.
Qed.

Lemma dict_acc_nodup : forall l d, nodup_keys d = true -> nodup_keys (dict_of_pairs_acc d l) = true.
Proof.
  induction l as [|[k v] l IH]; intros d H; simpl; auto. apply IH. apply dict_set_nodup. exact H.
Qed.

Lemma dict_of_pairs_nodup a : nodup_keys (dict_of_pairs a) = true.
Proof. apply dict_acc_nodup. reflexivity. Qed.

Lemma dict_set_fresh' d k v : mem_str k (map fst d) = false -> dict_set d k v = d ++ [(k, v)].
Proof.
  induction d as [|[k' v'] d IH]; simpl; intro H; auto.
  apply orb_false_iff in H as [H1 H2]. rewrite H1. rewrite IH; auto.
Qed.

Lemma dict_acc_id : forall l d, nodup_keys l = true ->
  (forall kv, In kv l -> mem_str (fst kv) (map fst d) = false) -> dict_of_pairs_acc d l = d ++ l.
Proof.
  induction l as [|[k v] r IH]; intros d Hn Hd; simpl.
  - rewrite app_nil_r. reflexivity.
  - simpl in Hn. apply andb_true_iff in Hn as [Hk Hr]. apply negb_true_iff in Hk.
    rewrite dict_set_fresh' by (apply (Hd (k, v)); simpl; auto). rewrite IH; auto.
    + rewrite <- app_assoc. reflexivity.
    + intros kv Hkv. rewrite map_app, mem_str_app'. rewrite (Hd kv) by (simpl; auto). simpl.
      rewrite orb_false_r. apply str_eqb_neq. intro E.
      assert (Hin : In k (map fst r)) by (rewrite <- E; apply in_map; exact Hkv).
      apply mem_str_In in Hin. congruence.
Qed.

(* Attribute(d) of a dict d is a copy of d *)
Lemma dict_of_pairs_id a : nodup_keys a = true -> dict_of_pairs a = a.
Proof. intro H. unfold dict_of_pairs. rewrite dict_acc_id; auto. Qed.

(* ---------- the parser only builds well-formed cells ---------- *)

Definition nonterm_at (s : store) (i : nat) : Prop :=
  exists c, nth_error s i = Some c /\ is_terminal (c_kind c) = false.

Record binv2 (t : tree) : Prop := mk_binv2 {
  b2_cells : cells_ok (t_cells t);
  b2_stack : Forall (nonterm_at (t_cells t)) (t_stack t)
}.

Lemma cell_ok_new_element k n a : is_terminal k = false -> cell_ok (new_element k n a).
Proof.
  intro H. split; simpl; [apply dict_of_pairs_nodup|]. split; [intro H'; congruence|reflexivity].
Qed.

Lemma cell_ok_new_terminal k d : is_terminal k = true -> cell_ok (new_terminal k d).
Proof.
  intro H. split; simpl; auto. split; auto. intro H'. congruence.
Qed.

Lemma binv2_add t c top rest cp :
  binv2 t -> t_stack t = top :: rest -> nth_error (t_cells t) top = Some cp -> cell_ok c -> c_children c = [] ->
  cells_ok (add_child_result (t_cells t) top c cp)
  /\ (forall i, nonterm_at (t_cells t) i -> nonterm_at (add_child_result (t_cells t) top c cp) i).
Proof.
  intros [Hc Hs] Hst Hp Hok Hcc.
  assert (Htop : is_terminal (c_kind cp) = false).
  { rewrite Hst in Hs. inversion Hs as [|? ? [c' [Hc' Hn]] _]; subst. rewrite Hp in Hc'. inversion Hc'; subst. exact Hn. }
  split.
  - intros a x Hx. destruct (add_child_cases _ _ _ _ _ _ Hp Hx) as [[-> ->]|[[-> ->]|[_ [_ Hx']]]].
    + destruct Hok as [H1 [H2 H3]]. split; simpl; auto.
    + destruct (Hc _ _ Hp) as [H1 [H2 H3]]. split; simpl; auto. split; auto. intro H. congruence.
    + eapply Hc; eauto.
  - intros i [ci [Hi Hn]]. pose proof (nth_error_Some_lt _ _ _ Hi) as Hl.
    pose proof (nth_error_Some_lt _ _ _ Hp) as Hlt.
    destruct (Nat.eq_dec i top) as [->|Hne].
    + eexists. split; [apply add_child_parent; exact Hlt|]. simpl. rewrite Hp in Hi. inversion Hi; subst. exact Hn.
    + exists ci. split; auto. rewrite add_child_other; auto.
Qed.

Lemma binv2_nest_leaf t c t' :
  binv t -> binv2 t -> cell_ok c -> c_parent c = None -> c_children c = [] -> nest_leaf t c = Ok t' -> binv2 t'.
Proof.
  intros B B2 Hok Hp Hcc H. destruct (binv_top _ B) as [top [rest [cp [Hs Hcp]]]].
  rewrite (nest_leaf_spec _ _ _ _ _ Hs Hcp Hp) in H. inversion H; subst t'. clear H.
  destruct (binv2_add t c top rest cp B2 Hs Hcp Hok Hcc) as [H1 H2].
  constructor; simpl; auto. eapply Forall_impl; [|apply (b2_stack _ B2)]. exact H2.
Qed.

Lemma binv2_handle t e t' : binv t -> binv2 t -> handle t e = Ok t' -> binv2 t'.
Proof.
  intros B B2 H. destruct e; cbn [handle] in H.
  - destruct (mem_str n void_elements).
    + eapply (binv2_nest_leaf t (new_element k_nest_vtag n a)); eauto. apply cell_ok_new_element. reflexivity.
    + destruct (binv_top _ B) as [top [rest [cp [Hs Hcp]]]].
      rewrite (nest_tag_spec _ n a _ _ _ Hs Hcp) in H. inversion H; subst t'. clear H.
      assert (Hok : cell_ok (new_element k_nest_tag n a)) by (apply cell_ok_new_element; reflexivity).
      destruct (binv2_add t _ top rest cp B2 Hs Hcp Hok eq_refl) as [H1 H2].
      constructor; simpl; auto. constructor.
      * eexists. split; [apply add_child_new; eapply nth_error_Some_lt; eauto|]. reflexivity.
      * rewrite <- Hs. eapply Forall_impl; [|apply (b2_stack _ B2)]. exact H2.
  - eapply (binv2_nest_leaf t (new_element k_nest_xtag n a)); eauto. apply cell_ok_new_element. reflexivity.
  - destruct (negb (mem_str n void_elements)).
    + unfold enclose in H.
      destruct (enclose_count (t_cells t) (t_outmost t) (t_stack t) n 0) as [cnt|]; [|discriminate]. cbn [bind] in H.
      destruct (pop_n cnt (t_stack t)) as [s|] eqn:Ep; [|discriminate]. cbn [bind] in H. inversion H; subst t'.
      constructor; simpl; [apply (b2_cells _ B2)|].
      assert (G : forall m st s0, pop_n m st = Ok s0 -> Forall (nonterm_at (t_cells t)) st -> Forall (nonterm_at (t_cells t)) s0).
      { induction m as [|m IH]; intros st s0 Hp F; simpl in Hp.
        - inversion Hp; subst. exact F.
        - destruct st as [|x st]; [discriminate|]. simpl in Hp. inversion F; subst. eapply IH; eauto. }
      eapply G; eauto. apply (b2_stack _ B2).
    + inversion H; subst. exact B2.
  - eapply (binv2_nest_leaf t (new_terminal k_handle_data s)); eauto. apply cell_ok_new_terminal. reflexivity.
  - eapply (binv2_nest_leaf t (new_terminal k_handle_decl s)); eauto. apply cell_ok_new_terminal. reflexivity.
  - eapply (binv2_nest_leaf t (new_terminal k_unknown_decl s)); eauto. apply cell_ok_new_terminal. reflexivity.
  - eapply (binv2_nest_leaf t (new_terminal k_handle_comment s)); eauto. apply cell_ok_new_terminal. reflexivity.
  - eapply (binv2_nest_leaf t (new_terminal k_handle_pi s)); eauto. apply cell_ok_new_terminal. reflexivity.
  - eapply (binv2_nest_leaf t (new_terminal k_handle_charref s)); eauto. apply cell_ok_new_terminal. reflexivity.
  - eapply (binv2_nest_leaf t (new_terminal k_handle_entityref s)); eauto. apply cell_ok_new_terminal. reflexivity.
Qed.

Lemma binv_handle_ok' t e t' : binv t -> handle t e = Ok t' -> binv t'.
Proof. intros B H. destruct (binv_handle t e B) as [t'' [H' B']]. congruence. Qed.

Lemma binv2_build evs : forall t t', binv t -> binv2 t -> build t evs = Ok t' -> binv2 t'.
Proof.
  induction evs as [|e evs IH]; intros t t' B B2 H; simpl in H.
  - inversion H; subst. exact B2.
  - destruct (handle t e) as [t1|] eqn:E; [|discriminate]. cbn [bind] in H.
    eapply (IH t1); [eapply binv_handle_ok'; eauto|eapply binv2_handle; eauto|exact H].
Qed.

Lemma built_cells_ok name evs t :
  build (init_tree name) evs = Ok t -> cells_ok (t_cells t) /\ vc (t_cells t).
Proof.
  intro H. split.
  - assert (B2 : binv2 (init_tree name)).
    { constructor; simpl.
      - intros [|a] c Hc; simpl in Hc; [|destruct a; discriminate]. inversion Hc; subst.
        apply cell_ok_new_element. reflexivity.
      - constructor; [|constructor]. eexists. split; reflexivity. }
    apply (b2_cells _ (binv2_build evs _ _ (binv_init name) B2 H)).
  - pose proof (b_ok _ (build_binv name evs t H)) as Hok. intros a c k Ha Hk.
    destruct (ok_child _ Hok _ _ _ Ha Hk) as [_ [? _]]. auto.
Qed.

(* ---------- isomorphism of two subtrees of one store ---------- *)

Definition shape_eq (c c' : cell) : Prop :=
  c_kind c = c_kind c' /\ c_name c = c_name c' /\ c_attrs c = c_attrs c' /\ c_data c = c_data c'.

Fixpoint iso (f : nat) (s : store) (i j : nat) : Prop :=
  match f with
  | O => False
  | S f' => exists c c', nth_error s i = Some c /\ nth_error s j = Some c' /\ shape_eq c c'
                         /\ Forall2 (iso f' s) (c_children c) (c_children c')
  end.

(* cell a looks the same in s2 (parent pointers aside) *)
Definition cell_same (s s2 : store) (a : nat) : Prop :=
  forall c, nth_error s a = Some c ->
  exists c2, nth_error s2 a = Some c2 /\ shape_eq c c2 /\ c_children c = c_children c2.

Lemma shape_eq_refl c : shape_eq c c.
Proof. repeat split. Qed.

Lemma shape_eq_trans a b c : shape_eq a b -> shape_eq b c -> shape_eq a c.
Proof. intros [? [? [? ?]]] [? [? [? ?]]]. repeat split; congruence. Qed.

Lemma shape_eq_sym a b : shape_eq a b -> shape_eq b a.
Proof. intros [? [? [? ?]]]. repeat split; congruence. Qed.

(* the left subtree lives below L, the right one above L; only cell L may differ *)
Lemma iso_frame : forall f s s2 L i j,
  iso f s i j -> i < L -> L < j ->
  (forall a c k, a < L -> nth_error s a = Some c -> In k (c_children c) -> k < L) ->
  closed_from (S L) s ->
  (forall a, a <> L -> cell_same s s2 a) ->
  iso f s2 i j.
Proof.
  induction f as [|f IH]; intros s s2 L i j H Hi Hj Hl Hr Hs; [destruct H|].
  destruct H as [c [c' [Hc [Hc' [Hsh Hch]]]]].
  destruct (Hs i ltac:(lia) c Hc) as [d [Hd [Hsd Hcd]]].
  destruct (Hs j ltac:(lia) c' Hc') as [d' [Hd' [Hsd' Hcd']]].
  exists d, d'. split; [exact Hd|]. split; [exact Hd'|]. split.
  - apply (shape_eq_trans d c d'); [apply shape_eq_sym; exact Hsd|]. apply (shape_eq_trans c c' d'); assumption.
  - rewrite <- Hcd, <- Hcd'.
    assert (Hlk : forall k, In k (c_children c) -> k < L) by (intros k Hk; eapply Hl; eauto).
    assert (Hrk : forall k, In k (c_children c') -> L < k).
    { intros k Hk. assert (S L <= k) by (eapply Hr; [|exact Hc'|exact Hk]; lia). lia. }
    clear Hc Hc' Hcd Hcd'. induction Hch as [|x y xs ys Hxy _ IHch]; constructor.
    + apply (IH s s2 L x y Hxy); auto; [apply Hlk|apply Hrk]; simpl; auto.
    + apply IHch; intros k Hk; [apply Hlk|apply Hrk]; simpl; auto.
Qed.

(* isomorphic subtrees render identically (whatever the fuel) *)
Lemma iso_render : forall f s i j, iso f s i j -> forall g, render g s i = render g s j.
Proof.
  induction f as [|f IH]; intros s i j H g; [destruct H|].
  destruct H as [c [c' [Hc [Hc' [[H1 [H2 [H3 H4]]] Hch]]]]].
  destruct g as [|g]; [reflexivity|].
  assert (U : forall x, render (S g) s x =
              do cx <- get s x; do ks <- render_list g s (c_children cx); Ok (render_cell cx ks)).
  { intro x. simpl. destruct (get s x) as [cx|e]; simpl; auto.
    assert (E : (fix go (cs : list nat) : res str :=
                 match cs with
                 | [] => Ok []
                 | k :: cs' => do s0 <- render g s k; do r <- go cs'; Ok (s0 ++ r)
                 end) (c_children cx) = render_list g s (c_children cx)).
    { induction (c_children cx) as [|k cs IHc]; simpl; auto. rewrite IHc. reflexivity. }
    rewrite E. reflexivity. }
  rewrite !U, (get_Some _ _ _ Hc), (get_Some _ _ _ Hc'). cbn [bind].
  assert (E : render_list g s (c_children c) = render_list g s (c_children c')).
  { induction Hch as [|x y xs ys Hxy _ IHch]; simpl; auto. rewrite (IH _ _ _ Hxy g), IHch. reflexivity. }
  rewrite E. destruct (render_list g s (c_children c')); simpl; auto.
  unfold render_cell. rewrite H1, H2, H3, H4. reflexivity.
Qed.

(* ... and walk lists elements of the same class / name / attributes / data, in the same order *)
Definition cells_shape_eq (s : store) (a b : nat) : Prop :=
  match nth_error s a, nth_error s b with
  | Some c, Some c' => shape_eq c c'
  | _, _ => False
  end.

Lemma iso_shape f s i j : iso f s i j -> cells_shape_eq s i j.
Proof.
  destruct f; [intros []|]. intros [c [c' [Hc [Hc' [Hs _]]]]]. unfold cells_shape_eq. rewrite Hc, Hc'. exact Hs.
Qed.

Lemma iso_walk : forall f s i j, iso f s i j -> forall g,
  match walk g s i, walk g s j with
  | Ok w, Ok w' => Forall2 (cells_shape_eq s) w w'
  | Raise e, Raise e' => e = e'
  | _, _ => False
  end.
Proof.
  induction f as [|f IH]; intros s i j H g; [destruct H|].
  destruct H as [c [c' [Hc [Hc' [Hsh Hch]]]]].
  destruct g as [|g]; [reflexivity|].
  rewrite !walk_unfold, (get_Some _ _ _ Hc), (get_Some _ _ _ Hc'). cbn [bind].
  induction Hch as [|x y xs ys Hxy _ IHch]; simpl; [constructor|].
  pose proof (IH _ _ _ Hxy g) as Hw. pose proof (iso_shape _ _ _ _ Hxy) as Hs.
  destruct (walk g s x) as [w|e], (walk g s y) as [w'|e']; try contradiction; cbn [bind]; auto.
  destruct (walk_go g s xs) as [r|e], (walk_go g s ys) as [r'|e']; try contradiction; cbn [bind]; auto.
  constructor; auto. apply Forall2_app; auto.
Qed.

(* ---------- deepcopy ---------- *)

Lemma vc_snoc s c : vc s -> c_children c = [] -> vc (s ++ [c]).
Proof.
  intros H Hc a x k Ha Hk. rewrite app_length. simpl.
  destruct (Nat.lt_ge_cases a (length s)) as [Hl|Hl].
  - rewrite nth_error_app1 in Ha by exact Hl. pose proof (H _ _ _ Ha Hk). lia.
  - rewrite nth_error_app2 in Ha by exact Hl. destruct (a - length s) as [|d]; simpl in Ha.
    + inversion Ha; subst. rewrite Hc in Hk. destruct Hk.
    + destruct d; discriminate.
Qed.

Lemma cells_ok_snoc s c : cells_ok s -> cell_ok c -> cells_ok (s ++ [c]).
Proof.
  intros H Hc a x Ha. destruct (Nat.lt_ge_cases a (length s)) as [Hl|Hl].
  - rewrite nth_error_app1 in Ha by exact Hl. eapply H; eauto.
  - rewrite nth_error_app2 in Ha by exact Hl. destruct (a - length s) as [|d]; simpl in Ha.
    + inversion Ha; subst. exact Hc.
    + destruct d; discriminate.
Qed.

(* effect of  p.append(item)  on a store where item is fresh-parented or already p's *)
Lemma append_child_effect s p item s2 :
  append_child s p item = Ok s2 ->
  exists cp ci, nth_error s p = Some cp /\ nth_error s item = Some ci /\ length s2 = length s
    /\ (forall a, a <> p -> cell_same s s2 a)
    /\ (p <> item ->
        exists cp2, nth_error s2 p = Some cp2 /\ shape_eq cp cp2 /\ c_children cp2 = c_children cp ++ [item]
                    /\ c_parent cp2 = c_parent cp).
Proof.
  intro H. unfold append_child in H.
  destruct (get s item) as [ci|] eqn:Ei; [|discriminate]. cbn [bind] in H.
  destruct (match c_parent ci with Some q => if Nat.eqb q p then Ok tt else Raise AssertionError | None => Ok tt end);
    [|discriminate]. cbn [bind] in H.
  unfold upd at 1 in H. rewrite Ei in H. cbn [bind] in H.
  unfold upd in H. apply get_Ok in Ei.
  set (s1 := set_nth s item (set_parent (Some p) ci)) in *.
  destruct (get s1 p) as [cp1|] eqn:Ep; [|discriminate]. cbn [bind] in H. inversion H; subst s2. clear H.
  apply get_Ok in Ep. pose proof (nth_error_Some_lt _ _ _ Ei) as Hli.
  assert (Hlp : p < length s) by (apply nth_error_Some_lt in Ep; unfold s1 in Ep; rewrite set_nth_length in Ep; exact Ep).
  destruct (nth_error_lt_Some _ _ Hlp) as [cp Hcp].
  exists cp, ci. split; [exact Hcp|]. split; [exact Ei|]. split; [unfold s1; rewrite !set_nth_length; reflexivity|]. split.
  - intros x Hx c Hc. rewrite nth_error_set_nth_neq by auto. unfold s1.
    destruct (Nat.eq_dec item x) as [<-|Hne].
    + rewrite nth_error_set_nth_eq by exact Hli. rewrite Ei in Hc. inversion Hc; subst c.
      exists (set_parent (Some p) ci). split; [reflexivity|]. split; [repeat split|reflexivity].
    + rewrite nth_error_set_nth_neq by exact Hne. exists c. split; auto. split; [apply shape_eq_refl|reflexivity].
  - intro Hne. assert (Ecp : cp1 = cp).
    { unfold s1 in Ep. rewrite nth_error_set_nth_neq in Ep by auto. congruence. }
    subst cp1. exists (set_children (c_children cp ++ [item]) cp).
    split; [apply nth_error_set_nth_eq; unfold s1; rewrite set_nth_length; exact Hlp|].
    split; [repeat split|]. split; reflexivity.
Qed.

Lemma vc_same (s s2 : store) : length s2 = length s ->
  (forall a c2 k, nth_error s2 a = Some c2 -> In k (c_children c2) -> k < length s) -> vc s2.
Proof. intros Hl H a c k Ha Hk. rewrite Hl. eapply H; eauto. Qed.

Lemma iso_extends : forall g sc s1 x y, extends sc s1 -> iso g sc x y -> iso g s1 x y.
Proof.
  induction g as [|g IHg]; intros sc s1 x y He Hxy; [destruct Hxy|].
  destruct Hxy as [cx [cy [Hx [Hy [Hs Hc]]]]]. exists cx, cy.
  split; [rewrite (extends_nth _ _ x He (nth_error_Some_lt _ _ _ Hx)); exact Hx|].
  split; [rewrite (extends_nth _ _ y He (nth_error_Some_lt _ _ _ Hy)); exact Hy|].
  split; auto. clear Hx Hy. induction Hc; constructor; eauto.
Qed.

Lemma Forall2_bounds {A B} (P Q : A -> B -> Prop) (PA : A -> Prop) (PB : B -> Prop) l1 l2 :
  Forall2 P l1 l2 -> Forall PA l1 -> Forall PB l2 ->
  (forall a b, PA a -> PB b -> P a b -> Q a b) -> Forall2 Q l1 l2.
Proof.
  intros F. induction F as [|a b l1 l2 Hab _ IH]; intros F1 F2 H; constructor.
  - inversion F1; inversion F2; subst. auto.
  - inversion F1; inversion F2; subst. auto.
Qed.

(* the contract of deepcopy on well-formed stores *)
Definition copy_post (f : nat) (s : store) (i : nat) (s' : store) (n : nat) : Prop :=
  n = length s /\ extends s s' /\ length s < length s'
  /\ vc s' /\ cells_ok s' /\ closed_from (S n) s' /\ iso f s' i n
  /\ (exists cn, nth_error s' n = Some cn /\ c_parent cn = None /\ Forall (fun b => n < b) (c_children cn)).

(* state of the copy loop: cell L is the copy under construction *)
Record loop_inv (f : nat) (s : store) (L : nat) (cnew : cell) (sc : store) (done : list nat) : Prop := mk_loop_inv {
  li_ext : extends s sc;
  li_len : L < length sc;
  li_vc : vc sc;
  li_ok : cells_ok sc;
  li_closed : closed_from (S L) sc;
  li_cell : exists cL, nth_error sc L = Some cL /\ shape_eq cnew cL /\ c_parent cL = None
                       /\ Forall (fun b => L < b) (c_children cL)
                       /\ Forall2 (iso f sc) done (c_children cL)
}.

Lemma deepcopy_iso : forall f s i s' n,
  vc s -> cells_ok s -> deepcopy f s i = Ok (s', n) -> copy_post f s i s' n.
Proof.
  induction f as [|f IH]; intros s i s' n Hvc Hok H; [discriminate|].
  rewrite deepcopy_unfold in H. destruct (get s i) as [c|] eqn:Ei; [|discriminate]. cbn [bind] in H.
  apply get_Ok in Ei. pose proof (nth_error_Some_lt _ _ _ Ei) as Hli.
  destruct (Hok _ _ Ei) as [Hnd [Hterm Hdata]].
  destruct (is_terminal (c_kind c)) eqn:Et.
  - unfold alloc in H. inversion H; subst s' n. clear H. destruct (Hterm eq_refl) as [Hn [Ha Hc]].
    unfold copy_post. split; [reflexivity|]. split; [eexists; reflexivity|].
    split; [rewrite app_length; simpl; lia|]. split; [apply vc_snoc; auto|].
    split; [apply cells_ok_snoc; auto; apply cell_ok_new_terminal; exact Et|]. split.
    + intros a x k Ha' Hx Hk. apply nth_error_Some_lt in Hx. rewrite app_length in Hx. simpl in Hx. lia.
    + assert (Hnew : nth_error (s ++ [new_terminal (c_kind c) (c_data c)]) (length s)
                     = Some (new_terminal (c_kind c) (c_data c))).
      { rewrite nth_error_app2 by lia. rewrite Nat.sub_diag. reflexivity. }
      split.
      * cbn [iso]. exists c, (new_terminal (c_kind c) (c_data c)).
        split; [rewrite nth_error_app1 by exact Hli; exact Ei|]. split; [exact Hnew|]. split.
        -- unfold shape_eq. simpl. rewrite Hn, Ha. repeat split.
        -- rewrite Hc. constructor.
      * eexists. split; [exact Hnew|]. simpl. split; auto.
  - set (L := length s) in *.
    set (cnew := new_element (c_kind c) (c_name c) (c_attrs c)) in *.
    destruct (copy_go f L (s ++ [cnew]) (c_children c)) as [s2|] eqn:Eg; [|discriminate]. cbn [bind] in H.
    inversion H; subst s2 n. clear H.
    assert (Hcnew : cell_ok cnew) by (apply cell_ok_new_element; exact Et).
    assert (G : forall cs sc sf done,
      copy_go f L sc cs = Ok sf -> Forall (fun k => k < L) cs -> Forall (fun k => k < L) done ->
      loop_inv f s L cnew sc done -> loop_inv f s L cnew sf (done ++ cs)).
    { induction cs as [|k cs IHcs]; intros sc sf done Hg Hks Hdn I; simpl in Hg.
      - inversion Hg; subst sf. rewrite app_nil_r. exact I.
      - destruct (deepcopy f sc k) as [[s1 cc]|] eqn:Ed; [|discriminate]. cbn [bind fst snd] in Hg.
        destruct (append_child s1 L cc) as [s2|] eqn:Ea; [|discriminate]. cbn [bind] in Hg.
        destruct I as [He Hl Hv Hc Hcl [cL [HcL [HsL [HpL [Hgt Hdone]]]]]].
        inversion Hks as [|? ? HkL Hks']; subst.
        destruct (IH _ _ _ _ Hv Hc Ed) as [Hcc [He1 [Hl1 [Hv1 [Hc1 [_ [Hiso1 _]]]]]]].
        destruct (append_child_effect _ _ _ _ Ea) as [cp [ci [Hcp [Hci [Hlen [Hsame Hpar]]]]]].
        assert (HLcc : L <> cc) by lia.
        destruct (Hpar HLcc) as [cp2 [Hcp2 [Hscp [Hchp Hparp]]]].
        assert (HcL1 : nth_error s1 L = Some cL) by (rewrite (extends_nth _ _ L He1 Hl); exact HcL).
        assert (HcpL : cp = cL) by congruence. subst cp.
        assert (Hes1 : extends s s1) by (eapply extends_trans; eauto).
        assert (Hlow : forall a x k0, a < L -> nth_error s1 a = Some x -> In k0 (c_children x) -> k0 < L).
        { intros a x k0 Ha Hx Hk0. assert (Hx' : nth_error s a = Some x).
          { rewrite <- Hx. symmetry. eapply extends_nth; [exact Hes1|exact Ha]. }
          eapply Hvc; eauto. }
        assert (Hcl1 : closed_from (S L) s1).
        { destruct (deepcopy_props _ _ _ _ _ Ed) as [_ [_ [_ Hp]]]. apply Hp; [lia|exact Hcl]. }
        assert (T : forall a b, a < L -> L < b -> iso f s1 a b -> iso f s2 a b).
        { intros a b Ha Hb Hab. eapply (iso_frame f s1 s2 L); eauto. }
        apply (IHcs s2 sf (done ++ [k])) in Hg; [rewrite <- app_assoc in Hg; exact Hg|exact Hks'| |].
        + apply Forall_app. split; auto.
        + constructor.
          * destruct (append_child_extends s s1 L cc s2) as [He2 _]; auto; lia.
          * rewrite Hlen. lia.
          * apply (vc_same s1 s2 Hlen). intros a c2 k0 Ha Hk0.
            destruct (Nat.eq_dec a L) as [->|Hne].
            -- rewrite Hcp2 in Ha. inversion Ha; subst c2. rewrite Hchp in Hk0. apply in_app_or in Hk0 as [Hk0|[<-|[]]].
               ++ eapply Hv1; [exact HcL1|exact Hk0].
               ++ eapply nth_error_Some_lt; eauto.
            -- destruct (nth_error_lt_Some s1 a) as [x Hx]; [rewrite <- Hlen; eapply nth_error_Some_lt; eauto|].
               destruct (Hsame a Hne x Hx) as [x2 [Hx2 [_ Hxc]]]. rewrite Hx2 in Ha. inversion Ha; subst x2.
               rewrite <- Hxc in Hk0. eapply Hv1; eauto.
          * intros a c2 Ha. destruct (Nat.eq_dec a L) as [->|Hne].
            -- rewrite Hcp2 in Ha. inversion Ha; subst c2.
               destruct (Hc1 _ _ HcL1) as [Hn1 [Ht1 Hd1]]. destruct Hscp as [Hk1 [Hk2 [Hk3 Hk4]]].
               split; [rewrite <- Hk3; exact Hn1|]. split.
               ++ intro Htm. rewrite <- Hk1 in Htm.
                  destruct HsL as [HsK _]. rewrite <- HsK in Htm. unfold cnew in Htm. simpl in Htm. congruence.
               ++ intro Htm. rewrite <- Hk4. apply Hd1. rewrite Hk1. exact Htm.
            -- destruct (nth_error_lt_Some s1 a) as [x Hx]; [rewrite <- Hlen; eapply nth_error_Some_lt; eauto|].
               destruct (Hsame a Hne x Hx) as [x2 [Hx2 [[Hs1 [Hs2 [Hs3 Hs4]]] Hxc]]]. rewrite Hx2 in Ha. inversion Ha; subst x2.
               destruct (Hc1 _ _ Hx) as [Hn1 [Ht1 Hd1]]. split; [rewrite <- Hs3; exact Hn1|]. split.
               ++ intro Htm. rewrite <- Hs1 in Htm. destruct (Ht1 Htm) as [? [? ?]]. rewrite <- Hs2, <- Hs3, <- Hxc. auto.
               ++ intro Htm. rewrite <- Hs4. apply Hd1. rewrite Hs1. exact Htm.
          * eapply closed_from_append; [exact Hcl1| |exact Ea]. lia.
          * exists cp2. split; [exact Hcp2|]. split; [eapply shape_eq_trans; eauto|]. split; [congruence|]. rewrite Hchp. split.
            -- apply Forall_app. split; auto. constructor; [lia|constructor].
            -- apply Forall2_app.
               ++ eapply (Forall2_bounds (iso f sc) (iso f s2)); [exact Hdone|exact Hdn|exact Hgt|].
                  intros a b Ha Hb Hab. apply T; auto. exact (iso_extends f sc s1 a b He1 Hab).
               ++ constructor; [|constructor]. apply T; [exact HkL|lia|exact Hiso1]. }
    assert (I0 : loop_inv f s L cnew (s ++ [cnew]) []).
    { constructor.
      - eexists; reflexivity.
      - rewrite app_length; simpl; lia.
      - apply vc_snoc; auto.
      - apply cells_ok_snoc; auto.
      - intros a x k Ha Hx Hk. apply nth_error_Some_lt in Hx. rewrite app_length in Hx. simpl in Hx. fold L in Hx. lia.
      - exists cnew. split; [rewrite nth_error_app2 by (unfold L; lia); unfold L; rewrite Nat.sub_diag; reflexivity|].
        split; [apply shape_eq_refl|]. split; [reflexivity|]. split; constructor. }
    assert (Hks : Forall (fun k => k < L) (c_children c)).
    { apply Forall_forall. intros k Hk. eapply Hvc; eauto. }
    destruct (G _ _ _ [] Eg Hks (Forall_nil _) I0) as [He Hl Hv Hc Hcl [cL [HcL [HsL [HpL [Hgt Hdone]]]]]].
    unfold copy_post. split; [reflexivity|]. split; [exact He|]. split; [exact Hl|]. split; [exact Hv|].
    split; [exact Hc|]. split; [exact Hcl|]. split; [|exists cL; auto].
    cbn [iso]. exists c, cL. split; [rewrite (extends_nth _ _ i He Hli); exact Ei|]. split; [exact HcL|]. split.
    + destruct HsL as [H1 [H2 [H3 H4]]]. unfold cnew in *. simpl in *. repeat split; auto.
      * rewrite <- H3. symmetry. apply dict_of_pairs_id. exact Hnd.
      * rewrite <- H4. apply Hdata. reflexivity.
    + exact Hdone.
Qed.

(* ---------- strip(inplace=False) ---------- *)

Lemma adopt_shape self : forall items s s2,
  adopt s self items = Ok s2 -> length s2 = length s /\ forall a, cell_same s s2 a.
Proof.
  induction items as [|it r IH]; intros s s2 H; simpl in H.
  - inversion H; subst. split; auto. intros a c Hc. exists c. split; auto. split; [apply shape_eq_refl|reflexivity].
  - destruct (get s it) as [ci|] eqn:Eg; [|discriminate]. cbn [bind] in H.
    destruct (match c_parent ci with
              | None => upd s it (set_parent (Some self))
              | Some q => if Nat.eqb q self then Ok s else Raise AssertionError
              end) as [sm|] eqn:Em; [|discriminate]. cbn [bind] in H.
    destruct (IH _ _ H) as [L2 P2].
    assert (P1 : length sm = length s /\ forall a, cell_same s sm a).
    { destruct (c_parent ci) as [q|].
      - destruct (Nat.eqb q self); [|discriminate]. inversion Em; subst. split; auto.
        intros a c Hc. exists c. split; auto. split; [apply shape_eq_refl|reflexivity].
      - unfold upd in Em. rewrite Eg in Em. cbn [bind] in Em. inversion Em; subst sm. apply get_Ok in Eg.
        split; [apply set_nth_length|]. intros a c Hc. destruct (Nat.eq_dec it a) as [<-|Hne].
        + rewrite nth_error_set_nth_eq by (eapply nth_error_Some_lt; eauto). rewrite Eg in Hc. inversion Hc; subst c.
          eexists. split; [reflexivity|]. split; [repeat split|reflexivity].
        + rewrite nth_error_set_nth_neq by exact Hne. exists c. split; auto. split; [apply shape_eq_refl|reflexivity]. }
    destruct P1 as [L1 P1]. split; [congruence|]. intros a c Hc.
    destruct (P1 a c Hc) as [c1 [Hc1 [Hs1 Hk1]]]. destruct (P2 a c1 Hc1) as [c2 [Hc2 [Hs2 Hk2]]].
    exists c2. split; auto. split; [eapply shape_eq_trans; eauto|congruence].
Qed.

Lemma Forall2_filter {A B} (R : A -> B -> Prop) (p : A -> bool) (q : B -> bool) l1 l2 :
  Forall2 R l1 l2 -> (forall a b, In a l1 -> R a b -> p a = q b) -> Forall2 R (filter p l1) (filter q l2).
Proof.
  intros F H. induction F as [|a b l1 l2 Hab _ IH]; simpl; [constructor|].
  rewrite (H a b (or_introl eq_refl) Hab). destruct (q b).
  - constructor; auto. apply IH. intros; apply H; simpl; auto.
  - apply IH. intros; apply H; simpl; auto.
Qed.

(* C16: strip(inplace=False, recurse=False) = the original minus exactly its whitespace-only
   Data children, on fresh cells *)
Theorem strip_copy_exact (st : store) (i : nat) (st' : store) (n : nat) :
  vc st -> cells_ok st ->
  strip_top st i false false = Ok (st', n) ->
  n = length st
  /\ exists c c', nth_error st i = Some c /\ nth_error st' i = Some c /\ nth_error st' n = Some c'
       /\ shape_eq c c'
       /\ Forall2 (iso (length st) st') (filter (fun k => negb (ws_at st k)) (c_children c)) (c_children c').
Proof.
  intros Hvc Hok H.
  destruct (strip_copy_pure st i false st' n H) as [Hn Hpure].
  unfold strip_top, strip in H.
  destruct (deepcopy (S (length st)) st i) as [[s1 m]|] eqn:Ed; [|discriminate]. cbn [bind fst snd] in H.
  destruct (strip_inplace (S (length st)) s1 m false) as [s2|] eqn:Es; [|discriminate]. cbn [bind] in H.
  inversion H; subst s2 n. clear H.
  destruct (deepcopy_iso _ _ _ _ _ Hvc Hok Ed) as [Hm [He [Hl [Hv1 [Hc1 [Hcl [Hiso [cm [Hcm [_ Hgt]]]]]]]]]].
  split; [first [exact Hm|reflexivity]|]. cbn [iso] in Hiso. destruct Hiso as [c [cm' [Hc [Hcm' [Hsh Hch]]]]].
  rewrite Hcm in Hcm'. inversion Hcm'; subst cm'. clear Hcm'.
  assert (Hi_lt : i < length st).
  { pose proof Ed as Ed'. rewrite deepcopy_unfold in Ed'. destruct (get st i) as [x|] eqn:Egi; [|discriminate].
    apply get_Ok in Egi. eapply nth_error_Some_lt; eauto. }
  assert (Hci : nth_error st i = Some c) by (rewrite <- (extends_nth _ _ i He Hi_lt); exact Hc).
  assert (Hkids : forall a, In a (c_children c) -> a < length st) by (intros a Ha; eapply Hvc; eauto).
  (* the in-place step on the copy *)
  rewrite strip_unfold, (get_Some _ _ _ Hcm) in Es. cbn [bind] in Es.
  assert (Hval : Forall (fun j => j < length s1) (c_children cm)).
  { apply Forall_forall. intros k Hk. eapply Hv1; eauto. }
  rewrite (keep_children_filter _ _ Hval) in Es. cbn [bind] in Es.
  set (kept := filter (fun j => negb (ws_at s1 j)) (c_children cm)) in *.
  unfold reset_children in Es. destruct (adopt s1 m kept) as [sa|] eqn:Ea; [|discriminate]. cbn [bind] in Es.
  destruct (adopt_shape _ _ _ _ Ea) as [La Pa].
  unfold upd in Es. destruct (get sa m) as [cma|] eqn:Eg; [|discriminate]. cbn [bind] in Es.
  inversion Es; subst st'. clear Es. apply get_Ok in Eg.
  destruct (Pa m cm Hcm) as [cma' [Hcma' [Hsa _]]]. rewrite Eg in Hcma'. inversion Hcma'; subst cma'.
  assert (Hmlt : m < length sa) by (eapply nth_error_Some_lt; eauto).
  exists c, (set_children kept cma). split; [exact Hci|].
  split; [rewrite (Hpure i Hi_lt); exact Hci|].
  split; [try (replace (length st) with m by exact Hm); apply nth_error_set_nth_eq; exact Hmlt|]. split.
  { eapply shape_eq_trans; [exact Hsh|]. destruct Hsa as [? [? [? ?]]]. repeat split; assumption. }
  cbn [set_children c_children].
  assert (F1 : Forall2 (iso (length st) s1) (filter (fun k => negb (ws_at st k)) (c_children c)) kept).
  { unfold kept. apply Forall2_filter; [exact Hch|]. intros a b Hin Hab. f_equal.
    pose proof (iso_shape _ _ _ _ Hab) as Hs. unfold cells_shape_eq in Hs.
    destruct (nth_error s1 a) as [ca|] eqn:Eca; [|destruct Hs]. destruct (nth_error s1 b) as [cb|] eqn:Ecb; [|destruct Hs].
    unfold ws_at. rewrite <- (extends_nth _ _ a He (Hkids a Hin)), Eca, Ecb.
    destruct Hs as [H1 [_ [_ H4]]]. unfold ws_data. rewrite H1, H4. reflexivity. }
  (* move the isomorphisms into the final store: only cell m differs *)
  assert (Hsame : forall a, a <> m -> cell_same s1 (set_nth sa m (set_children kept cma)) a).
  { intros a Ha x Hx. rewrite nth_error_set_nth_neq by auto. apply Pa. exact Hx. }
  assert (Hlow : forall a x k0, a < m -> nth_error s1 a = Some x -> In k0 (c_children x) -> k0 < m).
  { intros a x k0 Ha Hx Hk0. rewrite Hm in *. assert (Hx' : nth_error st a = Some x).
    { rewrite <- Hx. symmetry. eapply extends_nth; eauto. }
    eapply Hvc; eauto. }
  eapply (Forall2_bounds (iso (length st) s1) _ (fun a => a < m) (fun b => m < b)); [exact F1| | |].
  - apply Forall_forall. intros a Ha. apply filter_In in Ha as [Ha _]. rewrite Hm. auto.
  - apply Forall_forall. intros b Hb. unfold kept in Hb. apply filter_In in Hb as [Hb _].
    rewrite Forall_forall in Hgt. auto.
  - intros a b Ha Hb Hab. eapply (iso_frame _ s1 _ m); eauto.
Qed.

(* ---------- top-level statements ---------- *)

(* deepcopy returns an isomorphic tree on fresh cells: same render, walk visits elements of the
   same class / name / attributes / data in the same order *)
Theorem deepcopy_isomorphic (st : store) (i : nat) (st' : store) (n : nat) :
  vc st -> cells_ok st -> deepcopy_top st i = Ok (st', n) ->
  n = length st /\ iso (length st) st' i n
  /\ (forall g, render g st' n = render g st' i)
  /\ (forall g, match walk g st' i, walk g st' n with
                | Ok w, Ok w' => Forall2 (cells_shape_eq st') w w'
                | Raise e, Raise e' => e = e'
                | _, _ => False
                end).
Proof.
  intros Hvc Hok H. destruct (deepcopy_iso _ _ _ _ _ Hvc Hok H) as [Hn [_ [_ [_ [_ [_ [Hiso _]]]]]]].
  split; [exact Hn|]. split; [exact Hiso|]. split.
  - intro g. symmetry. eapply iso_render; eauto.
  - intro g. eapply iso_walk; eauto.
Qed.

(* the same for trees built by the parser *)
Theorem deepcopy_isomorphic_built (name : str) (evs : list event) (t : tree) (i : nat) (st' : store) (n : nat) :
  build (init_tree name) evs = Ok t ->
  let st := t_cells t in
  deepcopy_top st i = Ok (st', n) ->
  n = length st /\ iso (length st) st' i n
  /\ (forall g, render g st' n = render g st' i)
  /\ (forall g, match walk g st' i, walk g st' n with
                | Ok w, Ok w' => Forall2 (cells_shape_eq st') w w'
                | Raise e, Raise e' => e = e'
                | _, _ => False
                end).
Proof.
  intros H st. destruct (built_cells_ok _ _ _ H) as [Hok Hvc]. apply deepcopy_isomorphic; auto.
Qed.

Theorem strip_copy_exact_built (name : str) (evs : list event) (t : tree) (i : nat) (st' : store) (n : nat) :
  build (init_tree name) evs = Ok t ->
  let st := t_cells t in
  strip_top st i false false = Ok (st', n) ->
  n = length st
  /\ exists c c', nth_error st i = Some c /\ nth_error st' i = Some c /\ nth_error st' n = Some c'
       /\ shape_eq c c'
       /\ Forall2 (iso (length st) st') (filter (fun k => negb (ws_at st k)) (c_children c)) (c_children c').
Proof.
  intros H st. destruct (built_cells_ok _ _ _ H) as [Hok Hvc]. apply strip_copy_exact; auto.
Qed.
