(* Domain mapping for the source translation of parse_html.py / html_to_nodes.py (TRUSTED):
   one Gallina primitive per Python construct that gen/c16_src.py and gen/c17_src.py emit.
   Python objects are store ids; `self.stack` is t_stack (head = right end of the deque);
   `for x in l: body` is sequential iteration in the exception monad. Definitions only. *)
From Coq Require Import List NArith Bool Arith.
From MV Require Import Base.PyStr Base.Res Html.HtmlTypes Gen.Html Html.HtmlModel.
Import ListNotations.
Local Open Scope nat_scope.

(* ---------- loops ---------- *)

(* for x in l: a = body(x, a) *)
Fixpoint for_res {X A : Type} (l : list X) (body : X -> A -> res A) (a : A) : res A :=
  match l with
  | [] => Ok a
  | x :: r => do a' <- body x a; for_res r body a'
  end.

(* for x in l: ... break ...   [body returns (broke, a)]; result (broke, a) for the else clause *)
Fixpoint for_break {X A : Type} (l : list X) (body : X -> A -> res (bool * A)) (a : A) : res (bool * A) :=
  match l with
  | [] => Ok (false, a)
  | x :: r => do ba <- body x a;
              if fst ba then Ok (true, snd ba) else for_break r body (snd ba)
  end.

(* for _ in range(n): a = body(a) *)
Fixpoint repeat_res {A : Type} (n : nat) (body : A -> res A) (a : A) : res A :=
  match n with
  | O => Ok a
  | S n' => do a' <- body a; repeat_res n' body a'
  end.

(* ---------- deque self.stack of a Tree ---------- *)

Definition stack_pop (t : tree) : res (nat * tree) :=            (* self.stack.pop() *)
  match t_stack t with
  | [] => Raise IndexError
  | x :: r => Ok (x, mktree (t_cells t) (t_outmost t) r)
  end.

Definition stack_push (t : tree) (x : nat) : tree :=             (* self.stack.append(x) *)
  mktree (t_cells t) (t_outmost t) (x :: t_stack t).

Definition stack_last (t : tree) : res nat :=                    (* self.stack[-1] *)
  match t_stack t with [] => Raise IndexError | x :: _ => Ok x end.

Definition stack_reversed (t : tree) : list nat := t_stack t.    (* reversed(self.stack) *)

(* ---------- objects ---------- *)

(* Cls(...) : allocate a new object *)
Definition st_new (st : store) (c : cell) : nat * store := (length st, st ++ [c]).
Definition t_new (t : tree) (c : cell) : nat * tree :=
  (length (t_cells t), mktree (t_cells t ++ [c]) (t_outmost t) (t_stack t)).

Definition with_cells (t : tree) (st : store) : tree := mktree st (t_outmost t) (t_stack t).

(* attribute reads: x.name, x._parent, x._children, x.attrs, x.data, type(x) *)
Definition o_name (st : store) (x : nat) : res str := do c <- get st x; Ok (c_name c).
Definition o_parent (st : store) (x : nat) : res (option nat) := do c <- get st x; Ok (c_parent c).
Definition o_children (st : store) (x : nat) : res (list nat) := do c <- get st x; Ok (c_children c).
Definition o_attrs (st : store) (x : nat) : res attrs := do c <- get st x; Ok (c_attrs c).
Definition o_data (st : store) (x : nat) : res str := do c <- get st x; Ok (c_data c).
Definition o_kind (st : store) (x : nat) : res kind := do c <- get st x; Ok (c_kind c).

(* attribute writes: x._parent = p ; x._children = l *)
Definition set_o_parent (st : store) (x : nat) (p : option nat) : res store := upd st x (set_parent p).
Definition set_o_children (st : store) (x : nat) (l : list nat) : res store := upd st x (set_children l).

(* list.insert(index, item) *)
Fixpoint list_insert {A} (l : list A) (i : nat) (x : A) : list A :=
  match i, l with
  | O, _ => x :: l
  | S i', y :: r => y :: list_insert r i' x
  | S _, [] => [x]
  end.

(* a != b on objects / None: identity *)
Definition opt_nat_neq (a : option nat) (b : nat) : bool :=
  match a with Some q => negb (Nat.eqb q b) | None => true end.

(* str.strip() *)
Fixpoint py_lstrip (s : str) : str :=
  match s with c :: r => if is_space c then py_lstrip r else s | [] => [] end.
Definition py_strip (s : str) : str := rev (py_lstrip (rev (py_lstrip s))).

(* test_func of Element.find: isinstance(c, identifier) for a class, c.name == identifier for a str *)
Definition ident_test (st : store) (identifier : ident) (c : nat) : res bool :=
  do cell <- get st c;
  Ok (match identifier with
      | IName s => str_eqb (c_name cell) s
      | IClass cls => isinstance (c_kind cell) cls
      end).

(* ---------- Tree.__init__ / Tree.clear ---------- *)

(* the Tree object before __init__ has run *)
Definition t_empty : tree := mktree [] 0 [].
(* self.outmost = x ; self.stack = deque() / self.stack.clear() *)
Definition set_outmost (t : tree) (x : nat) : tree := mktree (t_cells t) x (t_stack t).
Definition set_stack (t : tree) (s : list nat) : tree := mktree (t_cells t) (t_outmost t) s.
(* entry of Tree.clear(): the method overwrites self.outmost and empties self.stack (checked by the
   generator), so no object allocated so far stays reachable from the Tree; ids restart at 0 *)
Definition t_forget (t : tree) : tree := mktree [] 0 (t_stack t).

(* ---------- class Attribute(dict) ---------- *)

(* dict.get(key, default) *)
Definition py_get (d : attrs) (k : str) (default : option str) : option str :=
  match dict_get d k with Some v => v | None => default end.
(* x or d   for x : str | None *)
Definition ostr_or (x : option str) (d : str) : str :=
  match x with Some s => if truthy s then s else d | None => d end.

