(* Domain mapping for the source translation of html_to_nodes.py (TRUSTED), on top of SrcPrims.v. *)
From Coq Require Import List NArith Bool Arith.
From MV Require Import Base.PyStr Base.Res Html.HtmlTypes Gen.Html Gen.HtmlNodes Html.HtmlModel Html.SrcPrims
  Gen.HtmlSrc Html.HtmlToNodes.
Import ListNotations.
Local Open Scope nat_scope.

(* value or "" *)
Definition ostr_or_empty (v : option str) : str := match v with Some s => s | None => [] end.

(* a str-typed use of an attribute value that was checked to be present *)
Definition ostr_val (v : option str) : str := match v with Some s => s | None => [] end.

(* ([msg_node] if msg_node else []) + default_html(...): the myst.html warning in front of the raw node *)
Definition warn_raw (o : out) : out := match o with ORaw t => OWarnRaw t | _ => o end.

(* feed(): one regenerated handler per event *)
Fixpoint feed_src (t : tree) (evs : list event) : res tree :=
  match evs with
  | [] => Ok t
  | e :: r => do t' <- handle_src t e; feed_src t' r
  end.

(* tokenize_html(text): a new parser HtmlToAst("") whose __init__ builds Tree(""), then feed(): clear(), the
   handlers, the root object (regenerated tree_init_src / clear_src) *)
Definition tokenize_src (parse : str -> list event) (text : str) : res (nat * store) :=
  do t <- feed_src (clear_src (tree_init_src []) []) (parse text); Ok (t_outmost t, t_cells t).

(* "".join(child.render() for child in ids): Element.render as modelled in HtmlModel.v *)
Definition render_join (st : store) (ids : list nat) : res str := render_list (S (length st)) st ids.
