(* Totality of deepcopy / strip / render on consistent stores (no exception can leave
   html_to_nodes after its try block). *)
From Coq Require Import List NArith Bool Arith Lia.
From MV Require Import Base.PyStr Base.Res Html.HtmlTypes Gen.Html Html.HtmlModel Html.HtmlStore Html.HtmlInv
  Html.HtmlRound Html.HtmlOps Html.HtmlIso.
Import ListNotations.
Local Open Scope nat_scope.

(* parent pointers after append: only the appended item changes its parent *)
Lemma append_child_parents s p item s2 :
  append_child s p item = Ok s2 ->
  parent_of s2 item = Some p /\ (forall a, a <> item -> parent_of s2 a = parent_of s a).
Proof.
  intro H. unfold append_child in H.
  destruct (get s item) as [ci|] eqn:Ei; [|discriminate]. cbn [bind] in H.
  destruct (match c_parent ci with Some q => if Nat.eqb q p then Ok tt else Raise AssertionError | None => Ok tt end);
    [|discriminate]. cbn [bind] in H.
  unfold upd at 1 in H. rewrite Ei in H. cbn [bind] in H. apply get_Ok in Ei.
  set (s1 := set_nth s item (set_parent (Some p) ci)) in *.
  unfold upd in H. destruct (get s1 p) as [cp1|] eqn:Ep; [|discriminate]. cbn [bind] in H. inversion H; subst s2. clear H.
  apply get_Ok in Ep. pose proof (nth_error_Some_lt _ _ _ Ei) as Hli.
  assert (P1 : parent_of s1 item = Some p /\ forall x, x <> item -> parent_of s1 x = parent_of s x).
  { unfold parent_of, s1. split.
    - rewrite nth_error_set_nth_eq by exact Hli. reflexivity.
    - intros x Hx. rewrite nth_error_set_nth_neq by auto. reflexivity. }
  assert (P2 : forall x, parent_of (set_nth s1 p (set_children (c_children cp1 ++ [item]) cp1)) x = parent_of s1 x).
  { intro x. unfold parent_of. destruct (Nat.eq_dec p x) as [<-|Hne].
    - rewrite nth_error_set_nth_eq by (eapply nth_error_Some_lt; eauto). rewrite Ep. reflexivity.
    - rewrite nth_error_set_nth_neq by exact Hne. reflexivity. }
  destruct P1 as [P1a P1b]. split.
  - rewrite P2. exact P1a.
  - intros x Hx. rewrite P2. apply P1b. exact Hx.
Qed.

(* append of a parent-less (or already owned) allocated item to an allocated element succeeds *)
Lemma append_child_ok s p item :
  p < length s -> (exists ci, nth_error s item = Some ci /\ (c_parent ci = None \/ c_parent ci = Some p)) ->
  exists s2, append_child s p item = Ok s2.
Proof.
  intros Hp [ci [Hi Hpar]]. unfold append_child. rewrite (get_Some _ _ _ Hi). cbn [bind].
  assert (E : (match c_parent ci with Some q => if Nat.eqb q p then Ok tt else Raise AssertionError | None => Ok tt end) = Ok tt).
  { destruct Hpar as [->| ->]; [reflexivity|]. rewrite Nat.eqb_refl. reflexivity. }
  rewrite E. cbn [bind]. unfold upd at 1. rewrite (get_Some _ _ _ Hi). cbn [bind]. unfold upd.
  destruct (nth_error_lt_Some (set_nth s item (set_parent (Some p) ci)) p) as [cp Hcp]; [rewrite set_nth_length; exact Hp|].
  rewrite (get_Some _ _ _ Hcp). cbn [bind]. eauto.
Qed.

(* the copy root has no parent and is the parent of the copies of the children *)
Lemma deepcopy_parents : forall f s i s' n,
  deepcopy f s i = Ok (s', n) ->
  exists cn, nth_error s' n = Some cn /\ c_parent cn = None
             /\ Forall (fun b => parent_of s' b = Some n) (c_children cn).
Proof.
  induction f as [|f IH]; intros s i s' n H; [discriminate|].
  rewrite deepcopy_unfold in H. destruct (get s i) as [c|] eqn:Ei; [|discriminate]. cbn [bind] in H.
  destruct (is_terminal (c_kind c)).
  - unfold alloc in H. inversion H; subst. eexists. split; [rewrite nth_error_app2 by lia; rewrite Nat.sub_diag; reflexivity|].
    simpl. split; auto.
  - set (L := length s) in *. set (cnew := new_element (c_kind c) (c_name c) (c_attrs c)) in *.
    destruct (copy_go f L (s ++ [cnew]) (c_children c)) as [s2|] eqn:Eg; [|discriminate]. cbn [bind] in H.
    inversion H; subst s2 n. clear H.
    assert (G : forall cs sc sf, copy_go f L sc cs = Ok sf -> L < length sc ->
              (exists cn, nth_error sc L = Some cn /\ c_parent cn = None /\ Forall (fun b => parent_of sc b = Some L) (c_children cn)
                          /\ Forall (fun b => b < length sc) (c_children cn)) ->
              (exists cn, nth_error sf L = Some cn /\ c_parent cn = None /\ Forall (fun b => parent_of sf b = Some L) (c_children cn))).
    { induction cs as [|k cs IHcs]; intros sc sf Hg Hl [cn [Hcn [Hp [Hch Hval]]]]; simpl in Hg.
      - inversion Hg; subst. eauto.
      - destruct (deepcopy f sc k) as [[s1 cc]|] eqn:Ed; [|discriminate]. cbn [bind fst snd] in Hg.
        destruct (append_child s1 L cc) as [s2|] eqn:Ea; [|discriminate]. cbn [bind] in Hg.
        destruct (deepcopy_props _ _ _ _ _ Ed) as [Hcc [He1 [Hl1 _]]].
        destruct (append_child_parents _ _ _ _ Ea) as [Hpi Hpo].
        destruct (append_child_effect _ _ _ _ Ea) as [cp [ci [Hcp [Hci [Hlen [_ Hpar]]]]]].
        assert (HLcc : L <> cc) by lia. destruct (Hpar HLcc) as [cp2 [Hcp2 [_ [Hchp Hparp]]]].
        assert (HcnL : nth_error s1 L = Some cn) by (rewrite (extends_nth _ _ L He1 Hl); exact Hcn).
        assert (cp = cn) by congruence. subst cp.
        apply (IHcs s2 sf Hg); [rewrite Hlen; lia|]. exists cp2. split; [exact Hcp2|]. split; [congruence|]. rewrite Hchp. split.
        + apply Forall_app. split.
          * rewrite Forall_forall in *. intros b Hb. rewrite Hpo by (specialize (Hval b Hb); lia).
            unfold parent_of. rewrite (extends_nth _ _ b He1 (Hval b Hb)). apply (Hch b Hb).
          * constructor; [exact Hpi|constructor].
        + apply Forall_app. split.
          * rewrite Forall_forall in *. intros b Hb. specialize (Hval b Hb). rewrite Hlen. lia.
          * constructor; [rewrite Hlen; lia|constructor]. }
    apply (G _ _ _ Eg).
    + rewrite app_length. simpl. unfold L. lia.
    + exists cnew. split; [rewrite nth_error_app2 by (unfold L; lia); unfold L; rewrite Nat.sub_diag; reflexivity|].
      simpl. repeat split; constructor.
Qed.

(* children are allocated after their parent: preserved by deepcopy *)
Lemma incr_snoc s c : incr s -> c_children c = [] -> incr (s ++ [c]).
Proof.
  intros H Hc a x k Ha Hk. destruct (Nat.lt_ge_cases a (length s)) as [Hl|Hl].
  - rewrite nth_error_app1 in Ha by exact Hl. eapply H; eauto.
  - rewrite nth_error_app2 in Ha by exact Hl. destruct (a - length s) as [|d]; simpl in Ha.
    + inversion Ha; subst. rewrite Hc in Hk. destruct Hk.
    + destruct d; discriminate.
Qed.

Lemma incr_append s p item s2 : incr s -> p < item -> append_child s p item = Ok s2 -> incr s2.
Proof.
  intros Hi Hlt Ha. destruct (append_child_effect _ _ _ _ Ha) as [cp [ci [Hcp [Hci [Hlen [Hsame Hpar]]]]]].
  assert (Hne : p <> item) by lia. destruct (Hpar Hne) as [cp2 [Hcp2 [_ [Hchp _]]]].
  intros a x k Hx Hk. destruct (Nat.eq_dec a p) as [->|Hap].
  - rewrite Hcp2 in Hx. inversion Hx; subst x. rewrite Hchp in Hk. apply in_app_or in Hk as [Hk|[<-|[]]]; [|exact Hlt].
    eapply Hi; eauto.
  - destruct (nth_error_lt_Some s a) as [y Hy]; [rewrite <- Hlen; eapply nth_error_Some_lt; eauto|].
    destruct (Hsame a Hap y Hy) as [y2 [Hy2 [_ Hyc]]]. rewrite Hy2 in Hx. inversion Hx; subst y2.
    rewrite <- Hyc in Hk. eapply Hi; eauto.
Qed.

Lemma deepcopy_incr : forall f s i s' n, incr s -> deepcopy f s i = Ok (s', n) -> incr s'.
Proof.
  induction f as [|f IH]; intros s i s' n Hi H; [discriminate|].
  rewrite deepcopy_unfold in H. destruct (get s i) as [c|] eqn:Ei; [|discriminate]. cbn [bind] in H.
  destruct (is_terminal (c_kind c)).
  - unfold alloc in H. inversion H; subst. apply incr_snoc; auto.
  - set (L := length s) in *.
    destruct (copy_go f L (s ++ [new_element (c_kind c) (c_name c) (c_attrs c)]) (c_children c)) as [s2|] eqn:Eg; [|discriminate].
    cbn [bind] in H. inversion H; subst s2 n. clear H.
    assert (G : forall cs sc sf, copy_go f L sc cs = Ok sf -> L < length sc -> incr sc -> incr sf).
    { induction cs as [|k cs IHcs]; intros sc sf Hg Hl Hsc; simpl in Hg.
      - inversion Hg; subst. exact Hsc.
      - destruct (deepcopy f sc k) as [[s1 cc]|] eqn:Ed; [|discriminate]. cbn [bind fst snd] in Hg.
        destruct (append_child s1 L cc) as [s2|] eqn:Ea; [|discriminate]. cbn [bind] in Hg.
        destruct (deepcopy_props _ _ _ _ _ Ed) as [Hcc [He1 [Hl1 _]]].
        destruct (append_child_effect _ _ _ _ Ea) as [_ [_ [_ [_ [Hlen _]]]]].
        apply (IHcs s2 sf Hg); [lia|]. eapply incr_append; [eapply IH; eauto| |exact Ea]. lia. }
    eapply G; [exact Eg| |apply incr_snoc; auto]. rewrite app_length. simpl. unfold L. lia.
Qed.

(* deepcopy of an element of the original region [0, L0) succeeds *)
Lemma deepcopy_total : forall f sc i L0,
  L0 <= length sc ->
  (forall a c k, a < L0 -> nth_error sc a = Some c -> In k (c_children c) -> a < k /\ k < L0) ->
  i < L0 -> L0 <= f + i ->
  exists s' n, deepcopy f sc i = Ok (s', n).
Proof.
  induction f as [|f IH]; intros sc i L0 HL Hreg Hi Hf; [lia|].
  rewrite deepcopy_unfold. destruct (nth_error_lt_Some sc i) as [c Hc]; [lia|]. rewrite (get_Some _ _ _ Hc). cbn [bind].
  destruct (is_terminal (c_kind c)); [unfold alloc; eauto|].
  set (L := length sc). set (cnew := new_element (c_kind c) (c_name c) (c_attrs c)).
  assert (G : forall cs s1, Forall (fun k => i < k /\ k < L0) cs ->
            extends sc s1 -> L < length s1 ->
            exists sf, copy_go f L s1 cs = Ok sf).
  { induction cs as [|k cs IHcs]; intros s1 Hks He Hl; simpl; [eauto|].
    inversion Hks as [|? ? [Hk1 Hk2] Hks']; subst.
    assert (Hreg1 : forall a x k0, a < L0 -> nth_error s1 a = Some x -> In k0 (c_children x) -> a < k0 /\ k0 < L0).
    { intros a x k0 Ha Hx Hk0. rewrite (extends_nth _ _ a He) in Hx by (unfold L in *; lia). eapply Hreg; eauto. }
    destruct (IH s1 k L0) as [s2 [cc Hd]]; [pose proof (extends_length _ _ He); lia|exact Hreg1|exact Hk2|lia|].
    rewrite Hd. cbn [bind fst snd].
    destruct (deepcopy_props _ _ _ _ _ Hd) as [Hcc [He2 [Hl2 _]]].
    destruct (deepcopy_parents _ _ _ _ _ Hd) as [cn [Hcn [Hpn _]]].
    destruct (append_child_ok s2 L cc) as [s3 Ha]; [lia|exists cn; auto|].
    rewrite Ha. cbn [bind].
    destruct (append_child_extends sc s2 L cc s3) as [He3 Hlen]; [eapply extends_trans; eauto|unfold L; lia|unfold L in *; pose proof (extends_length _ _ He); lia|exact Ha|].
    apply IHcs; auto. lia. }
  destruct (G (c_children c) (sc ++ [cnew])) as [sf Hsf].
  - apply Forall_forall. intros k Hk. eapply Hreg; eauto.
  - eexists; reflexivity.
  - rewrite app_length. simpl. unfold L. lia.
  - rewrite Hsf. cbn [bind]. eauto.
Qed.

(* render never fails on a store whose children are allocated and come after their parent *)
Lemma render_total s : incr s -> vc s -> forall f i, i < length s -> length s <= f + i ->
  exists r, render f s i = Ok r.
Proof.
  intros Hi Hv f. induction f as [|f IH]; intros i Hl Hf; [lia|].
  rewrite render_unfold. destruct (nth_error_lt_Some _ _ Hl) as [c Hc]. rewrite (get_Some _ _ _ Hc). cbn [bind].
  assert (G : forall cs, (forall k, In k cs -> i < k /\ k < length s) -> exists r, render_list f s cs = Ok r).
  { induction cs as [|k cs IHcs]; intros Hk; simpl; [eauto|].
    destruct (Hk k (or_introl eq_refl)) as [H1 H2]. destruct (IH k H2) as [r Hr]; [lia|]. rewrite Hr. cbn [bind].
    destruct IHcs as [r' Hr']; [intros; apply Hk; simpl; auto|]. rewrite Hr'. cbn [bind]. eauto. }
  destruct (G (c_children c)) as [r Hr].
  - intros k Hk. split; [eapply Hi; eauto|eapply Hv; eauto].
  - rewrite Hr. cbn [bind]. eauto.
Qed.

Lemma render_list_total s : incr s -> vc s -> forall f cs,
  (forall k, In k cs -> k < length s /\ length s <= f + k) -> exists r, render_list f s cs = Ok r.
Proof.
  intros Hi Hv f. induction cs as [|k cs IH]; intros Hk; simpl; [eauto|].
  destruct (Hk k (or_introl eq_refl)) as [H1 H2]. destruct (render_total s Hi Hv f k H1 H2) as [r Hr]. rewrite Hr. cbn [bind].
  destruct IH as [r' Hr']; [intros; apply Hk; simpl; auto|]. rewrite Hr'. cbn [bind]. eauto.
Qed.
