(* No exception leaves html_to_nodes after its try block: the conversion of img /
   div.admonition elements (strip copy, title, body rendering) is total. *)
From Coq Require Import List NArith Bool Arith Lia.
From MV Require Import Base.PyStr Base.Res Html.HtmlTypes Gen.Html Gen.HtmlNodes Html.HtmlModel Html.HtmlStore
  Html.HtmlInv Html.HtmlRound Html.HtmlOps Html.HtmlIso Html.HtmlTotal Html.HtmlToNodes Html.HtmlToNodesProofs.
Import ListNotations.
Local Open Scope nat_scope.

Definition good (s : store) : Prop := incr s /\ vc s.

Lemma good_built t : binv t -> good (t_cells t).
Proof.
  intro B. pose proof (b_ok _ B) as Hok. split; [apply tree_ok_incr; auto|].
  intros a c k Ha Hk. destruct (ok_child _ Hok _ _ _ Ha Hk) as [_ [? _]]. auto.
Qed.

(* an in-place strip keeps the store good (children lists only shrink) *)
Lemma strip_inplace_good f s el s' :
  good s -> strip_inplace (S f) s el false = Ok s' -> good s' /\ length s' = length s.
Proof.
  intros [Hi Hv] H. rewrite strip_unfold in H. destruct (get s el) as [c|] eqn:Eg; [|discriminate]. cbn [bind] in H.
  destruct (keep_children s (c_children c)) as [kept|] eqn:Ek; [|discriminate]. cbn [bind] in H.
  destruct (reset_children s el kept) as [s1|] eqn:Er; [|discriminate]. cbn [bind] in H. inversion H; subst s1. clear H.
  apply get_Ok in Eg. unfold reset_children in Er. destruct (adopt s el kept) as [sa|] eqn:Ea; [|discriminate]. cbn [bind] in Er.
  destruct (adopt_shape _ _ _ _ Ea) as [La Pa]. unfold upd in Er. destruct (get sa el) as [ca|] eqn:Eg2; [|discriminate].
  cbn [bind] in Er. inversion Er; subst s'. clear Er. apply get_Ok in Eg2.
  destruct (Pa el c Eg) as [ca' [Hca' [_ Hkc]]]. rewrite Eg2 in Hca'. inversion Hca'; subst ca'.
  assert (Hcases : forall a x k, nth_error (set_nth sa el (set_children kept ca)) a = Some x -> In k (c_children x) ->
             exists y, nth_error s a = Some y /\ In k (c_children y)).
  { intros a x k Hx Hk. destruct (Nat.eq_dec el a) as [<-|Hne].
    - rewrite nth_error_set_nth_eq in Hx by (eapply nth_error_Some_lt; eauto). inversion Hx; subst x. simpl in Hk.
      exists c. split; auto. eapply keep_children_sub; eauto.
    - rewrite nth_error_set_nth_neq in Hx by exact Hne.
      destruct (nth_error_lt_Some s a) as [y Hy]; [rewrite <- La; eapply nth_error_Some_lt; eauto|].
      destruct (Pa a y Hy) as [y2 [Hy2 [_ Hyc]]]. rewrite Hy2 in Hx. inversion Hx; subst y2. exists y. split; auto. congruence. }
  split; [|rewrite set_nth_length; exact La]. split.
  - intros a x k Hx Hk. destruct (Hcases a x k Hx Hk) as [y [Hy Hky]]. eapply Hi; eauto.
  - intros a x k Hx Hk. destruct (Hcases a x k Hx Hk) as [y [Hy Hky]]. rewrite set_nth_length, La. eapply Hv; eauto.
Qed.

Lemma strip_inplace_ok f s el :
  vc s -> (exists c, nth_error s el = Some c /\ Forall (fun k => parent_of s k = Some el) (c_children c)) ->
  exists s', strip_inplace (S f) s el false = Ok s'.
Proof.
  intros Hv [c [Hc Hp]]. rewrite strip_unfold, (get_Some _ _ _ Hc). cbn [bind].
  assert (Hval : Forall (fun j => j < length s) (c_children c)).
  { apply Forall_forall. intros k Hk. eapply Hv; eauto. }
  rewrite (keep_children_filter _ _ Hval). cbn [bind]. unfold reset_children. rewrite adopt_same.
  - cbn [bind]. unfold upd. rewrite (get_Some _ _ _ Hc). cbn [bind]. eauto.
  - intros k Hk. apply filter_In in Hk as [Hk _]. rewrite Forall_forall in Hp. specialize (Hp k Hk).
    unfold parent_of in Hp. destruct (nth_error s k) as [ck|]; [|discriminate]. eauto.
Qed.

Lemma deepcopy_vc : forall f s i s' n, vc s -> deepcopy f s i = Ok (s', n) -> vc s'.
Proof.
  induction f as [|f IH]; intros s i s' n Hv H; [discriminate|].
  rewrite deepcopy_unfold in H. destruct (get s i) as [c|] eqn:Ei; [|discriminate]. cbn [bind] in H.
  destruct (is_terminal (c_kind c)).
  - unfold alloc in H. inversion H; subst. apply vc_snoc; auto.
  - set (L := length s) in *.
    destruct (copy_go f L (s ++ [new_element (c_kind c) (c_name c) (c_attrs c)]) (c_children c)) as [s2|] eqn:Eg; [|discriminate].
    cbn [bind] in H. inversion H; subst s2 n. clear H.
    assert (G : forall cs sc sf, copy_go f L sc cs = Ok sf -> L < length sc -> vc sc -> vc sf).
    { induction cs as [|k cs IHcs]; intros sc sf Hg Hl Hsc; simpl in Hg.
      - inversion Hg; subst. exact Hsc.
      - destruct (deepcopy f sc k) as [[s1 cc]|] eqn:Ed; [|discriminate]. cbn [bind fst snd] in Hg.
        destruct (append_child s1 L cc) as [s2|] eqn:Ea; [|discriminate]. cbn [bind] in Hg.
        destruct (deepcopy_props _ _ _ _ _ Ed) as [Hcc [He1 [Hl1 _]]].
        destruct (append_child_effect _ _ _ _ Ea) as [cp [ci [Hcp [Hci [Hlen [Hsame Hpar]]]]]].
        assert (HLcc : L <> cc) by lia. destruct (Hpar HLcc) as [cp2 [Hcp2 [_ [Hchp _]]]].
        pose proof (IH _ _ _ _ Hsc Ed) as Hv1.
        apply (IHcs s2 sf Hg); [lia|]. apply (vc_same s1 s2 Hlen). intros a c2 k0 Ha Hk0.
        destruct (Nat.eq_dec a L) as [->|Hne].
        + rewrite Hcp2 in Ha. inversion Ha; subst c2. rewrite Hchp in Hk0. apply in_app_or in Hk0 as [Hk0|[<-|[]]].
          * exact (Hv1 L cp k0 Hcp Hk0).
          * eapply nth_error_Some_lt; eauto.
        + destruct (nth_error_lt_Some s1 a) as [x Hx]; [rewrite <- Hlen; eapply nth_error_Some_lt; eauto|].
          destruct (Hsame a Hne x Hx) as [x2 [Hx2 [_ Hxc]]]. rewrite Hx2 in Ha. inversion Ha; subst x2.
          rewrite <- Hxc in Hk0. exact (Hv1 a x k0 Hx Hk0). }
    eapply G; [exact Eg| |apply vc_snoc; auto]. rewrite app_length. simpl. unfold L. lia.
Qed.

(* child.strip(): succeeds on a good store and yields a good store *)
Lemma strip_copy_total s i :
  good s -> i < length s ->
  exists s' n, strip (S (length s)) s i false false = Ok (s', n) /\ good s' /\ n < length s'
               /\ (forall j, j < length s -> nth_error s' j = nth_error s j).
Proof.
  intros [Hi Hv] Hl. unfold strip.
  destruct (deepcopy_total (S (length s)) s i (length s)) as [s1 [m Hd]]; [lia| |exact Hl|lia|].
  { intros a c k _ Ha Hk. split; [eapply Hi; eauto|eapply Hv; eauto]. }
  rewrite Hd. cbn [bind fst snd].
  destruct (deepcopy_props _ _ _ _ _ Hd) as [Hm [He [Hl1 _]]].
  destruct (deepcopy_parents _ _ _ _ _ Hd) as [cn [Hcn [_ Hpar]]].
  pose proof (deepcopy_vc _ _ _ _ _ Hv Hd) as Hv1. pose proof (deepcopy_incr _ _ _ _ _ Hi Hd) as Hi1.
  destruct (strip_inplace_ok (length s) s1 m Hv1) as [s2 Hs]; [eauto|]. rewrite Hs. cbn [bind].
  destruct (strip_inplace_good _ _ _ _ (conj Hi1 Hv1) Hs) as [Hg Hlen].
  exists s2, m. split; [reflexivity|]. split; [exact Hg|]. split; [rewrite Hlen; lia|].
  assert (P : strip_top s i false false = Ok (s2, m)).
  { unfold strip_top, strip. rewrite Hd. cbn [bind fst snd]. rewrite Hs. reflexivity. }
  destruct (strip_copy_pure s i false s2 m P) as [_ Hp]. exact Hp.
Qed.

Lemma render_flat_total s : good s -> forall f ids,
  (forall k, In k ids -> k < length s) -> length s <= f ->
  exists r, render_flat f s ids = Ok r.
Proof.
  intros [Hi Hv] f. induction ids as [|k ids IH]; intros Hk Hf; simpl; [eauto|].
  destruct (nth_error_lt_Some s k (Hk k (or_introl eq_refl))) as [c Hc]. rewrite (get_Some _ _ _ Hc). cbn [bind].
  assert (E : exists x, (if str_eqb (c_name c) s_p
               then do inner <- render_list f s (c_children c); Ok (inner ++ [10%N; 10%N])
               else render f s k) = Ok x).
  { destruct (str_eqb (c_name c) s_p).
    - destruct (render_list_total s Hi Hv f (c_children c)) as [r Hr].
      + intros j Hj. split; [eapply Hv; eauto|lia].
      + rewrite Hr. cbn [bind]. eauto.
    - apply (render_total s Hi Hv); [apply Hk; simpl; auto|lia]. }
  destruct E as [x Hx]. rewrite Hx. cbn [bind].
  destruct IH as [r Hr]; [intros; apply Hk; simpl; auto|exact Hf|]. rewrite Hr. cbn [bind]. eauto.
Qed.

Lemma admonition_total s el : good s -> el < length s -> exists d, admonition_directive s el = Ok d.
Proof.
  intros Hg Hl. unfold admonition_directive.
  destruct (strip_copy_total s el Hg Hl) as [s1 [n [Hs [Hg1 [Hn Hpre]]]]]. rewrite Hs. cbn [bind fst snd].
  destruct (nth_error_lt_Some _ _ Hn) as [cc Hcc]. rewrite (get_Some _ _ _ Hcc). cbn [bind].
  destruct (nth_error_lt_Some _ _ Hl) as [ce Hce]. rewrite (get_Some _ _ _ Hce). cbn [bind].
  destruct Hg1 as [Hi1 Hv1].
  assert (Hkids : forall k, In k (c_children cc) -> k < length s1) by (intros k Hk; eapply Hv1; eauto).
  assert (T : exists tr, (match c_children cc with
            | first :: rest =>
                do cf <- get s1 first;
                if is_title_cell cf
                then do t <- render_list (S (length s1)) s1 (c_children cf); Ok (t, rest)
                else Ok (s_note, c_children cc)
            | [] => Ok (s_note, c_children cc)
            end) = Ok tr /\ forall k, In k (snd tr) -> k < length s1).
  { destruct (c_children cc) as [|first rest] eqn:Ech.
    - eexists. split; [reflexivity|]. intros k [].
    - destruct (nth_error_lt_Some s1 first) as [cf Hcf]; [apply Hkids; simpl; auto|].
      rewrite (get_Some _ _ _ Hcf). cbn [bind]. destruct (is_title_cell cf).
      + destruct (render_list_total s1 Hi1 Hv1 (S (length s1)) (c_children cf)) as [r Hr].
        * intros j Hj. split; [eapply Hv1; eauto|lia].
        * rewrite Hr. cbn [bind]. eexists. split; [reflexivity|]. simpl. intros k Hk. apply Hkids. simpl; auto.
      + eexists. split; [reflexivity|]. simpl. exact Hkids. }
  destruct T as [tr [Htr Hrest]]. rewrite Htr. cbn [bind].
  destruct (render_flat_total s1 (conj Hi1 Hv1) (S (length s1)) (snd tr) Hrest) as [body Hb]; [lia|].
  rewrite Hb. cbn [bind]. eauto.
Qed.

Lemma convert_total s : good s -> forall ids acc,
  (forall k, In k ids -> k < length s) -> exists o, convert s ids acc = Ok o.
Proof.
  intros Hg. induction ids as [|i r IH]; intros acc Hk; simpl; [eauto|].
  destruct (nth_error_lt_Some s i (Hk i (or_introl eq_refl))) as [c Hc]. rewrite (get_Some _ _ _ Hc). cbn [bind].
  destruct (str_eqb (c_name c) s_img).
  - destruct (img_directive c); [|eauto]. apply IH. intros; apply Hk; simpl; auto.
  - destruct (admonition_total s i Hg (Hk i (or_introl eq_refl))) as [d Hd]. rewrite Hd. cbn [bind].
    apply IH. intros; apply Hk; simpl; auto.
Qed.

(* C17: no exception leaves html_to_nodes *)
Theorem no_escape (parse : str -> list event) (gfm img adm : bool) (text : str) :
  forall e, html_to_nodes parse gfm img adm text <> OEscapes e.
Proof.
  intro e. unfold html_to_nodes. cbv zeta.
  set (t' := if gfm then gfm_filter text else text).
  destruct (negb (img || adm)); [discriminate|].
  destruct (build_total [] (parse t')) as [t [Ht _]]. pose proof (build_binv _ _ _ Ht) as B.
  destruct (strip_root_ok t B) as [st [croot [Hst [Hroot Hvalid]]]].
  unfold tokenize. rewrite Ht. cbn [bind]. rewrite Hst. cbn [bind]. rewrite Hroot. cbn [bind].
  destruct (strip_inplace_good _ _ _ _ (good_built t B) Hst) as [Hg _].
  destruct (c_children croot) as [|k ks] eqn:Ech; [discriminate|].
  destruct (all_convertible_ok img adm st _ Hvalid) as [b Hb]. rewrite Hb.
  destruct b; [|discriminate].
  destruct (convert_total st Hg (k :: ks) []) as [o Ho].
  - rewrite Forall_forall in Hvalid. exact Hvalid.
  - rewrite Ho. intro E. subst o.
    (* convert itself never answers OEscapes *)
    revert Ho. generalize (@nil directive). generalize (k :: ks). clear.
    induction l as [|i r IH]; intros acc Ho; simpl in Ho; [discriminate|].
    destruct (get st i) as [c|]; [|discriminate]. cbn [bind] in Ho.
    destruct (str_eqb (c_name c) s_img).
    + destruct (img_directive c); [eapply IH; eauto|discriminate].
    + destruct (admonition_directive st i); [|discriminate]. cbn [bind] in Ho. eapply IH; eauto.
Qed.
