(* Every attribute value written by option_line is read back unchanged by the option reader. *)
From Coq Require Import List NArith Bool Arith Lia.
From MV Require Import Base.PyStr Base.Res Html.HtmlTypes Gen.Html Gen.HtmlNodes Html.HtmlModel
  Html.HtmlToNodes Html.OptRead.
Import ListNotations.
Local Open Scope N_scope.

Definition value_or_empty (v : option str) : str := match v with Some s => s | None => [] end.

(* the option block after _parse_directive_options has removed the leading ':' of each line *)
Definition yaml_line (kv : str * option str) : str := fst kv ++ [58; 32] ++ option_value (snd kv).
Definition yaml_block (kvs : attrs) : str := join [10] (map yaml_line kvs).

Definition wf_key (k : str) : bool := truthy k && forallb key_char k.

(* what follows a value: nothing, or a line break and the next key *)
Definition tail_ok (tail : str) : Prop :=
  tail = [] \/ exists d r, tail = 10 :: d :: r /\ key_char d = true.

(* ---------- facts about the regenerated classes and templates ---------- *)

Lemma G_option_line k v : option_line k v = [58] ++ k ++ [58; 32] ++ option_value v.
Proof. reflexivity. Qed.

Lemma G_quote s : quote_tpl s = [34] ++ s ++ [34].
Proof. reflexivity. Qed.

Lemma G_sep : plain_sep = 32. Proof. reflexivity. Qed.

(* characters the plain reader treats specially are outside the plain classes *)
Definition reader_special : list N := [10; 32; 35; 9; 13; 133; 8232; 8233; 0].

Lemma G_rest_special : forallb (fun x => negb (plain_restc x)) reader_special = true.
Proof. vm_compute. reflexivity. Qed.

Lemma G_first_special : forallb (fun x => negb (plain_firstc x)) (reader_special ++ [34; 39; 124; 62]) = true.
Proof. vm_compute. reflexivity. Qed.

(* everything the double-quoted reader treats specially is escaped *)
Lemma G_escaped : forallb (fun x => mem_N x escape_set) [34; 92; 0; 10; 13; 133; 8232; 8233] = true.
Proof. vm_compute. reflexivity. Qed.

Lemma restc_not_special c x : plain_restc c = true -> In x reader_special -> c <> x.
Proof.
  intros Hc Hx E. subst x. pose proof G_rest_special as G. rewrite forallb_forall in G.
  specialize (G c Hx). rewrite Hc in G. discriminate.
Qed.

Lemma firstc_not_special c x :
  plain_firstc c = true -> In x (reader_special ++ [34; 39; 124; 62]) -> c <> x.
Proof.
  intros Hc Hx E. subst x. pose proof G_first_special as G. rewrite forallb_forall in G.
  specialize (G c Hx). rewrite Hc in G. discriminate.
Qed.

Lemma not_escaped_not c x :
  mem_N c escape_set = false -> In x [34; 92; 0; 10; 13; 133; 8232; 8233] -> c <> x.
Proof.
  intros Hc Hx E. subst x. pose proof G_escaped as G. rewrite forallb_forall in G.
  specialize (G c Hx). congruence.
Qed.

Ltac neq_eqb H := rewrite (proj2 (N.eqb_neq _ _) H).

(* the escape of an escaped character is read back as that character *)
Lemma G_escape_roundtrip c rest :
  mem_N c escape_set = true ->
  exists a b d e, escape_prefix ++ hex_pad escape_width c = [92; 117; a; b; d; e]
                  /\ read_hex4 (a :: b :: d :: e :: rest) = Some (c, rest).
Proof.
  intro H. apply mem_N_In in H. unfold escape_set in H.
  repeat (destruct H as [<-|H]; [do 4 eexists; split; [vm_compute; reflexivity|reflexivity]|]).
  destruct H.
Qed.

(* ---------- keys ---------- *)

Lemma read_key_ok : forall k acc rest,
  forallb key_char k = true -> (k <> [] \/ acc <> []) ->
  read_key (k ++ 58 :: 32 :: rest) acc = RdOk (rev acc ++ k, 32 :: rest).
Proof.
  induction k as [|c k IH]; intros acc rest Hk Hne; simpl.
  - destruct acc as [|a acc]; [destruct Hne; congruence|]. rewrite app_nil_r. reflexivity.
  - simpl in Hk. apply andb_true_iff in Hk as [Hc Hk].
    assert (E : N.eqb c 58 = false).
    { destruct (N.eqb c 58) eqn:E; auto. apply N.eqb_eq in E. subst c. vm_compute in Hc. discriminate. }
    rewrite E, Hc. rewrite IH; auto.
    + simpl. rewrite <- app_assoc. reflexivity.
    + right. discriminate.
Qed.

(* ---------- plain values ---------- *)

Lemma read_plain_end tail acc :
  tail_ok tail -> read_plain tail acc [] = RdOk (rev acc, tail).
Proof.
  intros [->|[d [r [-> _]]]]; reflexivity.
Qed.

Lemma read_plain_tail : forall r acc pending b tail,
  plain_tail b r = true -> pending = (if b then [32] else []) -> tail_ok tail ->
  read_plain (r ++ tail) acc pending = RdOk (rev acc ++ pending ++ r, tail).
Proof.
  induction r as [|c r IH]; intros acc pending b tail Hp Hb Ht.
  - simpl in Hp. apply negb_true_iff in Hp. subst b pending. rewrite !app_nil_r. simpl.
    apply read_plain_end. exact Ht.
  - cbn [plain_tail] in Hp. cbn [app read_plain].
    destruct (plain_restc c) eqn:Ec.
    + assert (N10 : c <> 10) by (apply (restc_not_special c 10 Ec); simpl; tauto).
      assert (N32 : c <> 32) by (apply (restc_not_special c 32 Ec); simpl; tauto).
      assert (N35 : c <> 35) by (apply (restc_not_special c 35 Ec); simpl; tauto).
      assert (N9 : c <> 9) by (apply (restc_not_special c 9 Ec); simpl; tauto).
      assert (N13 : c <> 13) by (apply (restc_not_special c 13 Ec); simpl; tauto).
      assert (N133 : c <> 133) by (apply (restc_not_special c 133 Ec); simpl; tauto).
      assert (N8232 : c <> 8232) by (apply (restc_not_special c 8232 Ec); simpl; tauto).
      assert (N8233 : c <> 8233) by (apply (restc_not_special c 8233 Ec); simpl; tauto).
      assert (N0 : c <> 0) by (apply (restc_not_special c 0 Ec); simpl; tauto).
      neq_eqb N10. neq_eqb N32. neq_eqb N35. neq_eqb N9. cbn [andb orb].
      unfold other_breaks, mem_N, c_nul. cbn [existsb].
      neq_eqb N13. neq_eqb N133. neq_eqb N8232. neq_eqb N8233. neq_eqb N0. cbn [orb].
      rewrite (IH _ [] false tail Hp eq_refl Ht). f_equal. f_equal.
      cbn [rev app]. rewrite rev_app_distr.
      assert (Er : rev pending = pending) by (subst pending; destruct b; reflexivity).
      rewrite Er. rewrite <- !app_assoc. reflexivity.
    + destruct (N.eqb c plain_sep && negb b) eqn:Es; [|discriminate].
      apply andb_true_iff in Es as [Es Eb]. apply N.eqb_eq in Es. rewrite G_sep in Es. subst c.
      apply negb_true_iff in Eb. subst b pending. cbn [N.eqb Pos.eqb].
      rewrite (IH acc [32] true tail Hp eq_refl Ht). reflexivity.
Qed.

(* ---------- double-quoted values ---------- *)

Lemma read_dq_escape : forall v acc f tail,
  (length (escape_value v) < f)%nat ->
  read_dq f (escape_value v ++ 34 :: tail) acc = RdOk (rev acc ++ v, tail).
Proof.
  induction v as [|c v IH]; intros acc f tail Hf.
  - destruct f as [|f]; [simpl in Hf; lia|]. simpl. rewrite app_nil_r. reflexivity.
  - unfold escape_value in *. cbn [flat_map] in *. fold (escape_value v) in *.
    destruct (mem_N c escape_set) eqn:Ec.
    + destruct (G_escape_roundtrip c (escape_value v ++ 34 :: tail) Ec) as [a [b [d [e [E1 E2]]]]].
      rewrite E1 in *. rewrite app_length in Hf. cbn [length] in Hf.
      destruct f as [|f]; [lia|]. cbn [app read_dq N.eqb Pos.eqb]. rewrite E2.
      rewrite IH by lia. cbn [rev]. rewrite <- app_assoc. reflexivity.
    + assert (N34 : c <> 34) by (apply (not_escaped_not c 34 Ec); simpl; tauto).
      assert (N92 : c <> 92) by (apply (not_escaped_not c 92 Ec); simpl; tauto).
      assert (N0 : c <> 0) by (apply (not_escaped_not c 0 Ec); simpl; tauto).
      assert (N10 : c <> 10) by (apply (not_escaped_not c 10 Ec); simpl; tauto).
      assert (N13 : c <> 13) by (apply (not_escaped_not c 13 Ec); simpl; tauto).
      assert (N133 : c <> 133) by (apply (not_escaped_not c 133 Ec); simpl; tauto).
      assert (N8232 : c <> 8232) by (apply (not_escaped_not c 8232 Ec); simpl; tauto).
      assert (N8233 : c <> 8233) by (apply (not_escaped_not c 8233 Ec); simpl; tauto).
      rewrite app_length in Hf. cbn [length] in Hf.
      destruct f as [|f]; [lia|]. cbn [app read_dq].
      neq_eqb N34. neq_eqb N92. unfold c_nul, is_break, other_breaks, mem_N. cbn [existsb].
      neq_eqb N0. neq_eqb N10. neq_eqb N13. neq_eqb N133. neq_eqb N8232. neq_eqb N8233. cbn [orb].
      rewrite IH by lia. cbn [rev]. rewrite <- app_assoc. reflexivity.
Qed.

(* ---------- one value ---------- *)

Lemma skip_spaces_32 s : skip_spaces (32 :: s) = skip_spaces s.
Proof. reflexivity. Qed.

Lemma skip_spaces_ne c s : c <> 32 -> skip_spaces (c :: s) = c :: s.
Proof. intro H. simpl. apply N.eqb_neq in H. rewrite H. reflexivity. Qed.

Lemma skip_spaces_tail tail : tail_ok tail -> skip_spaces tail = tail.
Proof. intros [->|[d [r [-> _]]]]; reflexivity. Qed.

Lemma read_value_ok v tail :
  tail_ok tail ->
  read_value (32 :: option_value v ++ tail) = RdOk (value_or_empty v, tail).
Proof.
  intro Ht. unfold option_value, value_or_empty.
  set (value := match v with Some s => s | None => [] end).
  destruct value as [|c r] eqn:Ev.
  - (* no value / empty value: nothing is written after "key: " *)
    cbn [truthy andb app]. unfold read_value. rewrite skip_spaces_32.
    rewrite (skip_spaces_tail _ Ht). destruct Ht as [->|[d [r [-> _]]]]; reflexivity.
  - cbn [truthy andb]. destruct (plain_fullmatch (c :: r)) eqn:Ep; cbn [negb].
    + (* plain *)
      cbn [plain_fullmatch] in Ep. apply andb_true_iff in Ep as [Ec Er].
      assert (N32 : c <> 32) by (apply (firstc_not_special c 32 Ec); simpl; tauto).
      assert (N10 : c <> 10) by (apply (firstc_not_special c 10 Ec); simpl; tauto).
      assert (N34 : c <> 34) by (apply (firstc_not_special c 34 Ec); simpl; tauto).
      assert (N39 : c <> 39) by (apply (firstc_not_special c 39 Ec); simpl; tauto).
      assert (N124 : c <> 124) by (apply (firstc_not_special c 124 Ec); simpl; tauto).
      assert (N62 : c <> 62) by (apply (firstc_not_special c 62 Ec); simpl; tauto).
      assert (N35 : c <> 35) by (apply (firstc_not_special c 35 Ec); simpl; tauto).
      assert (N9 : c <> 9) by (apply (firstc_not_special c 9 Ec); simpl; tauto).
      assert (N13 : c <> 13) by (apply (firstc_not_special c 13 Ec); simpl; tauto).
      assert (N133 : c <> 133) by (apply (firstc_not_special c 133 Ec); simpl; tauto).
      assert (N8232 : c <> 8232) by (apply (firstc_not_special c 8232 Ec); simpl; tauto).
      assert (N8233 : c <> 8233) by (apply (firstc_not_special c 8233 Ec); simpl; tauto).
      assert (N0 : c <> 0) by (apply (firstc_not_special c 0 Ec); simpl; tauto).
      unfold read_value. cbn [app]. rewrite skip_spaces_32, (skip_spaces_ne c _ N32).
      neq_eqb N10. neq_eqb N34. neq_eqb N39. neq_eqb N124. neq_eqb N62. cbn [orb].
      cbn [read_plain]. neq_eqb N10. neq_eqb N32. neq_eqb N35. cbn [andb].
      unfold other_breaks, mem_N, c_nul. cbn [existsb]. neq_eqb N9.
      neq_eqb N13. neq_eqb N133. neq_eqb N8232. neq_eqb N8233. neq_eqb N0. cbn [orb app].
      rewrite (read_plain_tail r [c] [] false tail Er eq_refl Ht). reflexivity.
    + (* double quoted *)
      rewrite G_quote. unfold read_value. cbn [app]. rewrite skip_spaces_32.
      rewrite skip_spaces_ne by discriminate. cbn [N.eqb Pos.eqb orb].
      rewrite <- app_assoc. cbn [app].
      rewrite read_dq_escape.
      * reflexivity.
      * rewrite app_length. simpl. lia.
Qed.

(* ---------- the block ---------- *)

Lemma join_first (sep : str) d p (l : list str) : exists r, join sep ((d :: p) :: l) = d :: r.
Proof. destruct l; simpl; eauto. Qed.

Lemma line_end_ok tail : tail_ok tail ->
  line_end tail = RdOk (match tail with [] => [] | _ :: r => r end).
Proof.
  intros [->|[d [r [-> Hd]]]]; [reflexivity|]. cbn [line_end N.eqb Pos.eqb]. rewrite Hd. reflexivity.
Qed.

Lemma wf_key_head k : wf_key k = true -> exists d r, k = d :: r /\ key_char d = true.
Proof.
  unfold wf_key. destruct k as [|d r]; [discriminate|]. simpl. intro H.
  apply andb_true_iff in H as [H _]. eauto.
Qed.

Lemma read_items_block : forall kvs f,
  Forall (fun kv => wf_key (fst kv) = true) kvs ->
  (length (yaml_block kvs) < f)%nat ->
  read_items f (yaml_block kvs) = RdOk (map (fun kv => (fst kv, value_or_empty (snd kv))) kvs).
Proof.
  induction kvs as [|[k v] rest IH]; intros f F Hf.
  - destruct f; [simpl in Hf; lia|]. reflexivity.
  - inversion F as [|? ? Hk Fr]; subst. cbn [fst] in Hk.
    destruct (wf_key_head k Hk) as [d [kr [Ek Hd]]].
    unfold wf_key in Hk. apply andb_true_iff in Hk as [_ Hkc].
    (* the text after this value *)
    set (tail := match rest with [] => [] | _ => 10 :: yaml_block rest end).
    assert (Eb : yaml_block ((k, v) :: rest) = k ++ 58 :: 32 :: option_value v ++ tail).
    { unfold yaml_block, tail. destruct rest as [|kv' rest'].
      - simpl. unfold yaml_line. cbn [fst snd]. rewrite app_nil_r. reflexivity.
      - change (join [10] (map yaml_line ((k, v) :: kv' :: rest')))
          with (yaml_line (k, v) ++ [10] ++ join [10] (map yaml_line (kv' :: rest'))).
        unfold yaml_line at 1. cbn [fst snd]. rewrite <- !app_assoc. reflexivity. }
    assert (Ht : tail_ok tail).
    { unfold tail. destruct rest as [|[k' v'] rest']; [left; reflexivity|]. right.
      inversion Fr as [|? ? Hk' _]; subst. cbn [fst] in Hk'.
      destruct (wf_key_head k' Hk') as [d' [kr' [Ek' Hd']]]. subst k'.
      destruct (join_first [10] d' (kr' ++ [58; 32] ++ option_value v') (map yaml_line rest')) as [r0 Er0].
      exists d', r0. split; [|exact Hd']. unfold yaml_block. cbn [map]. unfold yaml_line at 1. cbn [fst snd app].
      f_equal. exact Er0. }
    rewrite Eb in *. destruct f as [|f]; [lia|]. cbn [read_items].
    assert (Ene : k ++ 58 :: 32 :: option_value v ++ tail <> []) by (subst k; discriminate).
    destruct (k ++ 58 :: 32 :: option_value v ++ tail) as [|x xs] eqn:Es; [congruence|]. rewrite <- Es.
    rewrite (read_key_ok k [] _ Hkc) by (left; subst k; discriminate). cbn [rev app].
    rewrite (read_value_ok v tail Ht). rewrite (line_end_ok tail Ht).
    match goal with |- match read_items f ?T with _ => _ end = _ =>
      assert (Hrest : read_items f T = RdOk (map (fun kv => (fst kv, value_or_empty (snd kv))) rest)) end.
    { unfold tail. destruct rest as [|kv' rest'].
      - destruct f; [cbn [length] in Hf; lia|reflexivity].
      - apply IH; auto. assert (Hl : length (k ++ 58 :: 32 :: option_value v ++ tail) = S (length xs))
          by (rewrite Es; reflexivity).
        unfold tail in Hl. rewrite !app_length in Hl. cbn [length] in Hl. rewrite app_length in Hl. cbn [length] in Hl.
        cbn [length] in Hf. lia. }
    rewrite Hrest. reflexivity.
Qed.

(* C17_option_values_carried *)
Theorem values_carried (kvs : attrs) :
  Forall (fun kv => wf_key (fst kv) = true) kvs ->
  options_to_items (yaml_block kvs) = RdOk (map (fun kv => (fst kv, value_or_empty (snd kv))) kvs).
Proof. intro F. unfold options_to_items. apply read_items_block; auto. Qed.

(* the option block of html_to_nodes is the YAML block with ':' in front of every line *)
Theorem option_block_lines (keys : list str) (a : attrs) :
  option_block keys a
  = join [10] (map (fun kv => [58] ++ yaml_line kv) (filter (fun kv => mem_str (fst kv) keys) (sorted_items a))).
Proof.
  unfold option_block. f_equal.
Qed.

(* the recognised keys are keys the reader understands *)
Lemma keys_wf : forallb wf_key (option_keys_image ++ option_keys_admonition) = true.
Proof. vm_compute. reflexivity. Qed.

(* ---------- C17_img_equiv: what an <img> hands to run_directive ---------- *)

Lemma filter_keys_wf keys (a : attrs) :
  forallb wf_key keys = true ->
  Forall (fun kv => wf_key (fst kv) = true) (filter (fun kv : str * option str => mem_str (fst kv) keys) a).
Proof.
  intro Hk. apply Forall_forall. intros kv Hin. apply filter_In in Hin as [_ Hm].
  apply mem_str_In in Hm. rewrite forallb_forall in Hk. apply Hk. exact Hm.
Qed.

Theorem img_equiv (c : cell) (src : str) :
  dict_get (c_attrs c) s_src = Some (Some src) ->
  let opts := filter (fun kv => mem_str (fst kv) option_keys_image) (sorted_items (c_attrs c)) in
  exists d, img_directive c = Some d
            /\ d_name d = s_image /\ d_first d = src
            /\ d_content d = join [10] (map (fun kv => [58] ++ yaml_line kv) opts)
            /\ options_to_items (yaml_block opts)
               = RdOk (map (fun kv => (fst kv, value_or_empty (snd kv))) opts).
Proof.
  intros Hsrc opts. unfold img_directive. rewrite Hsrc. eexists. split; [reflexivity|].
  cbn [d_name d_first d_content]. split; [reflexivity|]. split; [reflexivity|].
  split; [apply option_block_lines|].
  apply values_carried. apply filter_keys_wf.
  pose proof keys_wf as K. rewrite forallb_app in K. apply andb_true_iff in K as [K _]. exact K.
Qed.

(* without the quoting (the code before the repair) a value is not carried over *)
Theorem unquoted_value_refuted :
  exists v, options_to_items ([97; 108; 116; 58; 32] ++ v) <> RdOk [([97; 108; 116], v)].
Proof. exists [97; 32; 35; 98]. vm_compute. discriminate. Qed.

(* ---------- the right-stripped block of an admonition: the last line may be "key:" ---------- *)

Lemma read_items_step k v B L :
  wf_key k = true ->
  (B = [] \/ exists d r, B = d :: r /\ key_char d = true) ->
  (forall f', (length B < f')%nat -> read_items f' B = RdOk L) ->
  forall f, Nat.lt (length (k ++ 58 :: 32 :: option_value v ++ match B with [] => [] | _ => 10 :: B end)) f ->
  read_items f (k ++ 58 :: 32 :: option_value v ++ match B with [] => [] | _ => 10 :: B end)
  = RdOk ((k, value_or_empty v) :: L).
Proof.
  intros Hk HB HL f Hf.
  destruct (wf_key_head k Hk) as [d [kr [Ek Hd]]].
  unfold wf_key in Hk. apply andb_true_iff in Hk as [_ Hkc].
  set (tail := match B with [] => [] | _ => 10 :: B end) in *.
  assert (Ht : tail_ok tail).
  { unfold tail. destruct HB as [->|[d' [r' [-> Hd']]]]; [left; reflexivity|]. right. eauto. }
  destruct f as [|f]; [lia|]. cbn [read_items].
  assert (Ene : k ++ 58 :: 32 :: option_value v ++ tail <> []) by (subst k; discriminate).
  destruct (k ++ 58 :: 32 :: option_value v ++ tail) as [|x xs] eqn:Es; [congruence|]. rewrite <- Es.
  rewrite (read_key_ok k [] _ Hkc) by (left; subst k; discriminate). cbn [rev app].
  rewrite (read_value_ok v tail Ht). rewrite (line_end_ok tail Ht).
  match goal with |- match read_items f ?T with _ => _ end = _ => assert (Hrest : read_items f T = RdOk L) end.
  { assert (Hl : length (k ++ 58 :: 32 :: option_value v ++ tail) = S (length xs)) by (rewrite Es; reflexivity).
    rewrite !app_length in Hl. cbn [length] in Hl. rewrite app_length in Hl. cbn [length] in Hf.
    unfold tail in *. unfold Nat.lt in *. destruct B as [|b0 B0].
    - apply HL. simpl in *. lia.
    - apply HL. cbn [length] in *. lia. }
  rewrite Hrest. reflexivity.
Qed.

(* last line: "key:" when the value is empty *)
Definition yaml_line_last (kv : str * option str) : str :=
  match value_or_empty (snd kv) with [] => fst kv ++ [58] | _ => yaml_line kv end.

Fixpoint yaml_block_r (kvs : attrs) : str :=
  match kvs with
  | [] => []
  | [kv] => yaml_line_last kv
  | kv :: rest => yaml_line kv ++ [10] ++ yaml_block_r rest
  end.

Lemma read_key_end : forall k acc, forallb key_char k = true -> (k <> [] \/ acc <> []) ->
  read_key (k ++ [58]) acc = RdOk (rev acc ++ k, []).
Proof.
  induction k as [|c k IH]; intros acc Hk Hne; simpl.
  - destruct acc as [|a acc]; [destruct Hne; congruence|]. rewrite app_nil_r. reflexivity.
  - simpl in Hk. apply andb_true_iff in Hk as [Hc Hk].
    assert (E : N.eqb c 58 = false).
    { destruct (N.eqb c 58) eqn:E; auto. apply N.eqb_eq in E. subst c. vm_compute in Hc. discriminate. }
    rewrite E, Hc. rewrite IH; auto.
    + simpl. rewrite <- app_assoc. reflexivity.
    + right. discriminate.
Qed.

Lemma yaml_block_r_head k v rest : wf_key k = true ->
  exists d r, yaml_block_r ((k, v) :: rest) = d :: r /\ key_char d = true.
Proof.
  intro Hk. destruct (wf_key_head k Hk) as [d [kr [-> Hd]]]. destruct rest as [|kv' rest'].
  - cbn [yaml_block_r]. unfold yaml_line_last, yaml_line. cbn [fst snd].
    destruct (value_or_empty v); cbn [app]; eauto.
  - cbn [yaml_block_r]. unfold yaml_line. cbn [fst snd app]. eauto.
Qed.

Theorem values_carried_r : forall (kvs : attrs),
  Forall (fun kv => wf_key (fst kv) = true) kvs ->
  forall f, (length (yaml_block_r kvs) < f)%nat ->
  read_items f (yaml_block_r kvs) = RdOk (map (fun kv => (fst kv, value_or_empty (snd kv))) kvs).
Proof.
  induction kvs as [|[k v] rest IH]; intros F f Hf.
  - destruct f; [simpl in Hf; lia|]. reflexivity.
  - inversion F as [|? ? Hk Fr]; subst. cbn [fst] in Hk. destruct rest as [|kv' rest'].
    + cbn [yaml_block_r map] in *. unfold yaml_line_last in *. cbn [fst snd] in *.
      destruct (value_or_empty v) as [|c0 r0] eqn:Ev.
      * (* "key:" at the end *)
        destruct f as [|f]; [lia|]. cbn [read_items].
        destruct (wf_key_head k Hk) as [d [kr [Ek Hd]]].
        pose proof Hk as Hk'. unfold wf_key in Hk'. apply andb_true_iff in Hk' as [_ Hkc].
        destruct (k ++ [58]) as [|x xs] eqn:Es; [subst k; discriminate|]. rewrite <- Es.
        rewrite (read_key_end k [] Hkc) by (left; subst k; discriminate). cbn [rev app].
        unfold read_value. cbn [skip_spaces line_end]. destruct f; [subst k; simpl in Hf; lia|]. reflexivity.
      * assert (E : yaml_line (k, v) = k ++ 58 :: 32 :: option_value v ++ match @nil N with [] => [] | _ => 10 :: [] end).
        { unfold yaml_line. cbn [fst snd]. rewrite app_nil_r. reflexivity. }
        rewrite E in *. rewrite (read_items_step k v [] [] Hk (or_introl eq_refl)).
        -- rewrite Ev. reflexivity.
        -- intros f' Hf'. destruct f'; [simpl in Hf'; lia|]. reflexivity.
        -- exact Hf.
    + inversion Fr as [|? ? Hk2 _]; subst. destruct kv' as [k2 v2]. cbn [fst] in Hk2.
      destruct (yaml_block_r_head k2 v2 rest' Hk2) as [d [r [Eh Hd]]].
      assert (E : yaml_block_r ((k, v) :: (k2, v2) :: rest')
                  = k ++ 58 :: 32 :: option_value v ++
                    match yaml_block_r ((k2, v2) :: rest') with [] => [] | _ => 10 :: yaml_block_r ((k2, v2) :: rest') end).
      { rewrite Eh. change (yaml_block_r ((k, v) :: (k2, v2) :: rest'))
          with (yaml_line (k, v) ++ [10] ++ yaml_block_r ((k2, v2) :: rest')).
        rewrite Eh. unfold yaml_line. cbn [fst snd]. rewrite <- !app_assoc. reflexivity. }
      rewrite E in *. cbn [map]. apply read_items_step.
      * exact Hk.
      * right. eauto.
      * intros f' Hf'. apply IH; auto.
      * exact Hf.
Qed.

Theorem values_carried_rstripped (kvs : attrs) :
  Forall (fun kv => wf_key (fst kv) = true) kvs ->
  options_to_items (yaml_block_r kvs) = RdOk (map (fun kv => (fst kv, value_or_empty (snd kv))) kvs).
Proof. intro F. unfold options_to_items. apply values_carried_r; auto. Qed.
