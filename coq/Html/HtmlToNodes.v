(* Model of myst_parser/mdit_to_docutils/html_to_nodes.py: the GFM tag filter (RE_FLOW.subn at
   character level), option_line, and the decision logic of html_to_nodes on top of the
   HTML-to-AST model.  Executable definitions only; proofs are in HtmlToNodesProofs.v. *)
From Coq Require Import List NArith Bool Arith.
From MV Require Import Base.PyStr Base.Res Html.HtmlTypes Gen.Html Gen.HtmlNodes Html.HtmlModel.
Import ListNotations.
Local Open Scope N_scope.

(* ------------------------------------------------------------------ RE_FLOW *)

Definition cls := N -> bool.

(* a sequence of character classes matches a prefix of s *)
Fixpoint pat_match (p : list cls) (s : str) : bool :=
  match p, s with
  | [], _ => true
  | cl :: p', c :: s' => cl c && pat_match p' s'
  | _ :: _, [] => false
  end.

Definition cls_in (l : list N) : cls := fun c => mem_N c l.
Definition cls_eq (x : N) : cls := fun c => N.eqb c x.

(* tag letters then the look-ahead class (?=[...]) *)
Definition tag_body (ci : N -> cls) (tag : str) : list cls := map ci tag ++ [cls_in flow_look].

(* (\/?)(tag1|tag2|...)(?=[...]) : with and without the optional slash *)
Definition tag_pats (ci : N -> cls) : list (list cls) :=
  flat_map (fun tag => [cls_eq flow_slash :: tag_body ci tag; tag_body ci tag]) flow_tags.

(* a pattern letter under the flags of RE_FLOW *)
Definition re_ci (l : N) : cls := cls_in (flow_ci l).

(* does RE_FLOW match at a '<' that is followed by s *)
Definition tag_ahead (s : str) : bool := existsb (fun p => pat_match p s) (tag_pats re_ci).

(* s.group(0).replace(a, b) restricted to the first character of the match (the rest of a
   match consists of '/' and letters) *)
Definition replace_open (c : N) : str :=
  if str_eqb [c] flow_replace_from then flow_replace_to else [c].

(* RE_FLOW.subn(lambda s: s.group(0).replace("<", "&lt;"), text)[0] *)
Fixpoint gfm_filter (s : str) : str :=
  match s with
  | [] => []
  | c :: r =>
      if N.eqb c flow_open && tag_ahead r then replace_open c ++ gfm_filter r
      else c :: gfm_filter r
  end.

(* ------------------------------------------------------------------ option_line *)

Definition excl (lits : list N) (sp : bool) : cls :=
  fun c => negb (mem_N c lits || (sp && mem_N c re_space)).

Definition plain_firstc : cls := excl plain_first_excl plain_first_space.
Definition plain_restc : cls := excl plain_rest_excl plain_rest_space.

(* [^rest]*(?:sep [^rest]+)*  up to the end of the string *)
Fixpoint plain_tail (after_sep : bool) (r : str) : bool :=
  match r with
  | [] => negb after_sep
  | c :: r' =>
      if plain_restc c then plain_tail false r'
      else if N.eqb c plain_sep && negb after_sep then plain_tail true r'
      else false
  end.

(* RE_OPTION_PLAIN.fullmatch(value) is not None *)
Definition plain_fullmatch (v : str) : bool :=
  match v with
  | [] => false
  | c :: r => plain_firstc c && plain_tail false r
  end.

Definition hexdigit (d : N) : N := if d <? 10 then 48 + d else 87 + d.

Fixpoint hex_fuel (fuel : nat) (n : N) (acc : str) : str :=
  match fuel with
  | O => acc
  | S f => let acc' := hexdigit (n mod 16) :: acc in
           if n / 16 =? 0 then acc' else hex_fuel f (n / 16) acc'
  end.

(* format(n, "x"); the fuel suffices, hex n denotes n: hval_hex in HtmlToNodesProofs.v *)
Definition hex (n : N) : str := hex_fuel (S (N.to_nat (N.log2 n))) n [].

(* format(n, "0<w>x") *)
Definition hex_pad (w : nat) (n : N) : str :=
  let h := hex n in repeat 48 (w - length h)%nat ++ h.

(* RE_OPTION_ESCAPE.sub(lambda m: f"\\u{ord(m.group(0)):04x}", value) *)
Definition escape_value (v : str) : str :=
  flat_map (fun c => if mem_N c escape_set then escape_prefix ++ hex_pad escape_width c else [c]) v.

Definition option_value (v : option str) : str :=
  let value := match v with Some s => s | None => [] end in      (* value or "" *)
  if truthy value && negb (plain_fullmatch value) then quote_tpl (escape_value value) else value.

Definition option_line (k : str) (v : option str) : str := option_line_tpl k (option_value v).

(* ------------------------------------------------------------------ html_to_nodes *)

(* str < str : code point order *)
Fixpoint str_ltb (a b : str) : bool :=
  match a, b with
  | [], [] => false
  | [], _ :: _ => true
  | _ :: _, [] => false
  | x :: a', y :: b' => if x <? y then true else if y <? x then false else str_ltb a' b'
  end.

Fixpoint insert_sorted (kv : str * option str) (l : attrs) : attrs :=
  match l with
  | [] => [kv]
  | kv' :: r => if str_ltb (fst kv') (fst kv) then kv' :: insert_sorted kv r
                else if str_eqb (fst kv') (fst kv) then kv' :: insert_sorted kv r   (* stable *)
                else kv :: l
  end.

(* sorted(attrs.items()): keys are distinct *)
Definition sorted_items (a : attrs) : attrs := fold_right insert_sorted [] a.

(* "\n".join(option_line(k, v) for k, v in sorted(attrs.items()) if k in KEYS) *)
Definition option_block (keys : list str) (a : attrs) : str :=
  join [10] (map (fun kv => option_line (fst kv) (snd kv))
                 (filter (fun kv => mem_str (fst kv) keys) (sorted_items a))).

Fixpoint lstrip (s : str) : str :=
  match s with
  | [] => []
  | c :: r => if is_space c then lstrip r else s
  end.

Definition rstrip (s : str) : str := rev (lstrip (rev s)).

Definition s_img : str := [105; 109; 103].
Definition s_div : str := [100; 105; 118].
Definition s_p : str := [112].
Definition s_src : str := [115; 114; 99].
Definition s_admonition : str := [97; 100; 109; 111; 110; 105; 116; 105; 111; 110].
Definition s_title : str := [116; 105; 116; 108; 101].
Definition s_admonition_title : str := s_admonition ++ [45] ++ s_title.
Definition s_image : str := [105; 109; 97; 103; 101].
Definition s_note : str := [78; 111; 116; 101].

(* what html_to_nodes hands to renderer.run_directive *)
Record directive : Type := mkdir { d_name : str; d_first : str; d_content : str }.

Inductive out : Type :=
| ORaw (text : str)          (* default_html: one raw node, format html, containing text *)
| OWarnRaw (text : str)      (* tokenize_html raised: myst.html warning + the raw node *)
| OMissingSrc                (* [reporter.error("<img> missing 'src' attribute")] *)
| ODirectives (l : list directive)
| OEscapes (e : exn).        (* an exception leaves html_to_nodes (after the try block) *)

(* the test of the all(...) over the top-level elements *)
Definition convertible (img adm : bool) (c : cell) : bool :=
  (img && str_eqb (c_name c) s_img)
  || (adm && str_eqb (c_name c) s_div && mem_str s_admonition (classes (c_attrs c))).

Definition all_convertible (img adm : bool) (st : store) (ids : list nat) : res bool :=
  (fix go (l : list nat) : res bool :=
     match l with
     | [] => Ok true
     | i :: r => do c <- get st i; if convertible img adm c then go r else Ok false
     end) ids.

Local Open Scope nat_scope.

Definition img_directive (c : cell) : option directive :=
  match dict_get (c_attrs c) s_src with
  | Some (Some src) => Some (mkdir s_image src (option_block option_keys_image (c_attrs c)))
  | _ => None            (* child.attrs.get("src") is None *)
  end.

Definition is_title_cell (c : cell) : bool :=
  (str_eqb (c_name c) s_div || str_eqb (c_name c) s_p)
  && (mem_str s_title (classes (c_attrs c)) || mem_str s_admonition_title (classes (c_attrs c))).

(* "".join(child.render() for child in new_children): <p> children are flattened and
   followed by Data("\n\n") *)
Fixpoint render_flat (f : nat) (st : store) (ids : list nat) : res str :=
  match ids with
  | [] => Ok []
  | i :: r =>
      do c <- get st i;
      do s <- (if str_eqb (c_name c) s_p
               then do inner <- render_list f st (c_children c); Ok (inner ++ [10%N; 10%N])
               else render f st i);
      do t <- render_flat f st r;
      Ok (s ++ t)
  end.

Definition admonition_directive (st : store) (el : nat) : res directive :=
  do r <- strip (S (length st)) st el false false;            (* child.strip() *)
  let st1 := fst r in
  let f := S (length st1) in
  do cc <- get st1 (snd r);
  do ce <- get st el;
  let children := c_children cc in
  do tr <- (match children with
            | first :: rest =>
                do cf <- get st1 first;
                if is_title_cell cf
                then do t <- render_list f st1 (c_children cf); Ok (t, rest)
                else Ok (s_note, children)
            | [] => Ok (s_note, children)
            end);
  let options := rstrip (option_block option_keys_admonition (c_attrs ce)) in
  do body <- render_flat f st1 (snd tr);
  Ok (mkdir s_admonition (fst tr)
            (options ++ (if truthy options then [10%N; 10%N] else []) ++ lstrip body)).

Fixpoint convert (st : store) (ids : list nat) (acc : list directive) : res out :=
  match ids with
  | [] => Ok (ODirectives (rev acc))
  | i :: r =>
      do c <- get st i;
      if str_eqb (c_name c) s_img then
        match img_directive c with
        | None => Ok OMissingSrc
        | Some d => convert st r (d :: acc)
        end
      else
        do d <- admonition_directive st i;
        convert st r (d :: acc)
  end.

(* html_to_nodes(text, line_number, renderer); html.parser is [parse] *)
Definition html_to_nodes (parse : str -> list event) (gfm img adm : bool) (text : str) : out :=
  let text := if gfm then gfm_filter text else text in
  if negb (img || adm) then ORaw text
  else
    match (do t <- tokenize parse text [];
           do st <- strip_inplace (S (length (t_cells t))) (t_cells t) (t_outmost t) false;
           do croot <- get st (t_outmost t);
           Ok (st, c_children croot)) with
    | Raise _ => OWarnRaw text
    | Ok (st, children) =>
        match children with
        | [] => ORaw text
        | _ =>
            match all_convertible img adm st children with
            | Ok true =>
                match convert st children [] with
                | Ok o => o
                | Raise e => OEscapes e
                end
            | Ok false => ORaw text
            | Raise e => OEscapes e
            end
        end
    end.
