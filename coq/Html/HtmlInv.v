(* Invariants of the Tree stack machine: totality (never raises, root stays at the bottom of
   the stack) and tree consistency of the element store (walk enumerates every element once). *)
From Coq Require Import List NArith Bool Arith Lia.
From MV Require Import Base.PyStr Base.Res Html.HtmlTypes Gen.Html Html.HtmlModel Html.HtmlStore.
Import ListNotations.
Local Open Scope nat_scope.

(* ---------- the store is a tree ---------- *)

Record tree_ok (st : store) : Prop := mk_tree_ok {
  (* the root exists and has no parent *)
  ok_root : exists c, nth_error st 0 = Some c /\ c_parent c = None;
  (* every listed child is a later, existing element whose parent is the lister *)
  ok_child : forall p cp k, nth_error st p = Some cp -> In k (c_children cp) ->
               p < k /\ k < length st /\ parent_of st k = Some p;
  (* every non-root element has a parent that lists it exactly once *)
  ok_parent : forall k c, nth_error st k = Some c -> k <> 0 ->
               exists p, c_parent c = Some p /\ count_occ Nat.eq_dec (children_of st p) k = 1
}.

Lemma count_occ_app_single l (k n : nat) :
  count_occ Nat.eq_dec (l ++ [n]) k = count_occ Nat.eq_dec l k + (if Nat.eq_dec n k then 1 else 0).
Proof.
  rewrite count_occ_app. simpl. destruct (Nat.eq_dec n k); lia.
Qed.

Lemma tree_ok_add_child st p c cp :
  tree_ok st -> nth_error st p = Some cp -> c_parent c = None -> c_children c = [] ->
  tree_ok (add_child_result st p c cp).
Proof.
  intros [Hroot Hch Hpar] Hp Hc Hcc.
  pose proof (nth_error_Some_lt _ _ _ Hp) as Hlt.
  set (st' := add_child_result st p c cp).
  assert (Hparent_of : forall k, k < length st -> parent_of st' k = parent_of st k).
  { intros k Hk. unfold parent_of, st'. destruct (Nat.eq_dec k p) as [->|Hkp].
    - rewrite add_child_parent by auto. rewrite Hp. reflexivity.
    - rewrite add_child_other by auto. reflexivity. }
  constructor.
  - destruct Hroot as [c0 [H0 Hc0]]. destruct (Nat.eq_dec 0 p) as [<-|Hn].
    + exists (set_children (c_children cp ++ [length st]) cp). split.
      * apply add_child_parent. auto.
      * rewrite Hp in H0. inversion H0; subst. exact Hc0.
    + exists c0. split; auto. unfold st'. rewrite add_child_other by lia. auto.
  - intros q cq k Hq Hk. unfold st' in Hq.
    destruct (add_child_cases _ _ _ _ _ _ Hp Hq) as [[-> ->]|[[-> ->]|[Hqp [Hql Hq']]]].
    + simpl in Hk. rewrite Hcc in Hk. destruct Hk.
    + simpl in Hk. apply in_app_or in Hk as [Hk|[<-|[]]].
      * destruct (Hch _ _ _ Hp Hk) as [H1 [H2 H3]]. unfold st'. rewrite add_child_length.
        repeat split; try lia. rewrite Hparent_of; auto.
      * unfold st'. rewrite add_child_length. repeat split; try lia.
        unfold parent_of. rewrite add_child_new by auto. reflexivity.
    + destruct (Hch _ _ _ Hq' Hk) as [H1 [H2 H3]]. unfold st'. rewrite add_child_length.
      repeat split; try lia. rewrite Hparent_of; auto.
  - intros k ck Hk Hk0. unfold st' in Hk.
    destruct (add_child_cases _ _ _ _ _ _ Hp Hk) as [[-> ->]|[[-> ->]|[Hkp [Hkl Hk']]]].
    + exists p. split; [reflexivity|]. unfold children_of, st'. rewrite add_child_parent by auto.
      simpl. rewrite count_occ_app_single. destruct (Nat.eq_dec (length st) (length st)); try congruence.
      assert (count_occ Nat.eq_dec (c_children cp) (length st) = 0).
      { apply count_occ_not_In. intro Hin. destruct (Hch _ _ _ Hp Hin) as [_ [H2 _]]. lia. }
      lia.
    + destruct (Hpar _ _ Hp Hk0) as [q [Hq Hcnt]]. exists q. split; [exact Hq|].
      assert (Hqin : In p (children_of st q)) by (apply (count_occ_In Nat.eq_dec); lia).
      unfold children_of in Hqin, Hcnt. destruct (nth_error st q) as [cq|] eqn:Eq; [|destruct Hqin].
      destruct (Hch _ _ _ Eq Hqin) as [Hqp _].
      unfold children_of, st'. rewrite add_child_other by lia. rewrite Eq. exact Hcnt.
    + destruct (Hpar _ _ Hk' Hk0) as [q [Hq Hcnt]]. exists q. split; [exact Hq|].
      assert (Hqin : In k (children_of st q)) by (apply (count_occ_In Nat.eq_dec); lia).
      unfold children_of in Hqin, Hcnt. destruct (nth_error st q) as [cq|] eqn:Eq; [|destruct Hqin].
      pose proof (nth_error_Some_lt _ _ _ Eq) as Hql.
      unfold children_of, st'. destruct (Nat.eq_dec q p) as [->|Hqp].
      * rewrite add_child_parent by auto. simpl. rewrite count_occ_app_single.
        rewrite Hp in Eq. inversion Eq; subst cq.
        destruct (Nat.eq_dec (length st) k); [lia|]. lia.
      * rewrite add_child_other by lia. rewrite Eq. exact Hcnt.
Qed.

Lemma tree_ok_init name : tree_ok (t_cells (init_tree name)).
Proof.
  constructor; simpl.
  - eexists. split; reflexivity.
  - intros [|p] cp k H Hk; simpl in H.
    + inversion H; subst. destruct Hk.
    + destruct p; discriminate.
  - intros [|k] c H Hk; [congruence|]. destruct k; discriminate.
Qed.

(* ---------- the invariant of the stack machine ---------- *)

Record binv (t : tree) : Prop := mk_binv {
  b_ok : tree_ok (t_cells t);
  b_out : t_outmost t = 0;
  b_bottom : exists s, t_stack t = s ++ [0];
  b_valid : Forall (fun i => i < length (t_cells t)) (t_stack t)
}.

Lemma binv_init name : binv (init_tree name).
Proof.
  constructor.
  - apply tree_ok_init.
  - reflexivity.
  - exists []. reflexivity.
  - simpl. constructor; auto.
Qed.

Lemma binv_top t : binv t -> exists top rest cp, t_stack t = top :: rest /\ nth_error (t_cells t) top = Some cp.
Proof.
  intros [_ _ [s Hs] Hv]. destruct (t_stack t) as [|top rest] eqn:E.
  - destruct s; discriminate.
  - inversion Hv; subst. destruct (nth_error_lt_Some _ _ H1) as [cp Hcp]. eauto.
Qed.

Lemma Forall_lt_weaken l n m : n <= m -> Forall (fun i => i < n) l -> Forall (fun i => i < m) l.
Proof. intros H F. eapply Forall_impl; [|exact F]. simpl. intros; lia. Qed.

Lemma binv_nest_leaf t c :
  binv t -> c_parent c = None -> c_children c = [] ->
  exists t', nest_leaf t c = Ok t' /\ binv t' /\ t_stack t' = t_stack t.
Proof.
  intros B Hc Hcc. destruct (binv_top _ B) as [top [rest [cp [Hs Hp]]]].
  rewrite (nest_leaf_spec _ _ _ _ _ Hs Hp Hc). eexists. split; [reflexivity|]. split; [|reflexivity].
  destruct B as [Hok Hout Hbot Hval]. constructor; simpl; auto.
  - apply tree_ok_add_child; auto.
  - rewrite add_child_length. eapply Forall_lt_weaken; [|exact Hval]. lia.
Qed.

Lemma binv_nest_tag t name a :
  binv t -> exists t', nest_tag t name a = Ok t' /\ binv t'.
Proof.
  intros B. destruct (binv_top _ B) as [top [rest [cp [Hs Hp]]]].
  rewrite (nest_tag_spec _ _ _ _ _ _ Hs Hp). eexists. split; [reflexivity|].
  destruct B as [Hok Hout [s Hbot] Hval]. constructor; simpl; auto.
  - apply tree_ok_add_child; auto.
  - exists (length (t_cells t) :: s). rewrite Hs in Hbot. rewrite Hbot. reflexivity.
  - rewrite add_child_length. constructor; [lia|]. rewrite <- Hs.
    eapply Forall_lt_weaken; [|exact Hval]. lia.
Qed.

(* the search for the matching open tag never reaches below the root *)
Lemma enclose_count_bound st name : forall s cnt,
  Forall (fun i => i < length st) (s ++ [0]) ->
  exists n, enclose_count st 0 (s ++ [0]) name cnt = Ok n /\ (n = 0 \/ (cnt < n /\ n <= cnt + length s)).
Proof.
  induction s as [|x s IH]; intros cnt Hv; simpl.
  - exists 0. auto.
  - inversion Hv as [|? ? Hx Hv']; subst.
    destruct (Nat.eqb x 0); [exists 0; auto|].
    destruct (nth_error_lt_Some _ _ Hx) as [c Hc]. rewrite (get_Some _ _ _ Hc). cbn [bind].
    destruct (str_eqb (c_name c) name).
    + exists (S cnt). split; auto. right. lia.
    + destruct (IH (S cnt) Hv') as [n [Hn Hb]]. exists n. split; auto.
      destruct Hb as [->|Hb]; [auto|right; lia].
Qed.

Lemma pop_n_skipn : forall n s, n <= length s -> pop_n n s = Ok (skipn n s).
Proof.
  induction n as [|n IH]; intros s H; simpl; auto.
  destruct s as [|x s]; simpl in *; [lia|]. apply IH. lia.
Qed.

Lemma binv_enclose t name : binv t -> exists t', enclose t name = Ok t' /\ binv t'.
Proof.
  intros [Hok Hout [s Hbot] Hval]. unfold enclose. rewrite Hout, Hbot.
  rewrite Hbot in Hval.
  destruct (enclose_count_bound (t_cells t) name s 0 Hval) as [n [Hn Hb]]. rewrite Hn. cbn [bind].
  assert (Hle : n <= length s) by (destruct Hb as [->|Hb]; lia).
  rewrite pop_n_skipn by (rewrite app_length; simpl; lia). cbn [bind].
  eexists. split; [reflexivity|]. constructor; simpl; auto.
  - exists (skipn n s). rewrite skipn_app. replace (n - length s) with 0 by lia. reflexivity.
  - rewrite <- (firstn_skipn n (s ++ [0])) in Hval. apply Forall_app in Hval. tauto.
Qed.

Lemma binv_handle t e : binv t -> exists t', handle t e = Ok t' /\ binv t'.
Proof.
  intro B. destruct e; cbn [handle].
  - destruct (mem_str n void_elements).
    + destruct (binv_nest_leaf t (new_element k_nest_vtag n a) B eq_refl eq_refl) as [t' [H1 [H2 _]]]; exists t'; split; [exact H1|exact H2].
    + apply binv_nest_tag. exact B.
  - destruct (binv_nest_leaf t (new_element k_nest_xtag n a) B eq_refl eq_refl) as [t' [H1 [H2 _]]]; exists t'; split; [exact H1|exact H2].
  - destruct (negb (mem_str n void_elements)).
    + apply binv_enclose. exact B.
    + exists t. auto.
  - destruct (binv_nest_leaf t (new_terminal k_handle_data s) B eq_refl eq_refl) as [t' [H1 [H2 _]]]; exists t'; split; [exact H1|exact H2].
  - destruct (binv_nest_leaf t (new_terminal k_handle_decl s) B eq_refl eq_refl) as [t' [H1 [H2 _]]]; exists t'; split; [exact H1|exact H2].
  - destruct (binv_nest_leaf t (new_terminal k_unknown_decl s) B eq_refl eq_refl) as [t' [H1 [H2 _]]]; exists t'; split; [exact H1|exact H2].
  - destruct (binv_nest_leaf t (new_terminal k_handle_comment s) B eq_refl eq_refl) as [t' [H1 [H2 _]]]; exists t'; split; [exact H1|exact H2].
  - destruct (binv_nest_leaf t (new_terminal k_handle_pi s) B eq_refl eq_refl) as [t' [H1 [H2 _]]]; exists t'; split; [exact H1|exact H2].
  - destruct (binv_nest_leaf t (new_terminal k_handle_charref s) B eq_refl eq_refl) as [t' [H1 [H2 _]]]; exists t'; split; [exact H1|exact H2].
  - destruct (binv_nest_leaf t (new_terminal k_handle_entityref s) B eq_refl eq_refl) as [t' [H1 [H2 _]]]; exists t'; split; [exact H1|exact H2].
Qed.

Lemma binv_build evs : forall t, binv t -> exists t', build t evs = Ok t' /\ binv t'.
Proof.
  induction evs as [|e evs IH]; intros t B; simpl.
  - eauto.
  - destruct (binv_handle t e B) as [t1 [H1 B1]]. rewrite H1. cbn [bind]. apply IH. exact B1.
Qed.

(* C16_build_total *)
Theorem build_total (name : str) (evs : list event) :
  exists t, build (init_tree name) evs = Ok t
            /\ t_outmost t = 0 /\ (exists s, t_stack t = s ++ [t_outmost t])
            /\ Forall (fun i => i < length (t_cells t)) (t_stack t).
Proof.
  destruct (binv_build evs _ (binv_init name)) as [t [H [Hok Hout [s Hs] Hv]]].
  exists t. repeat split; auto. exists s. rewrite Hout. exact Hs.
Qed.

Lemma build_binv name evs t : build (init_tree name) evs = Ok t -> binv t.
Proof.
  intro H. destruct (binv_build evs _ (binv_init name)) as [t' [H' B]]. congruence.
Qed.

(* ---------- descendants and walk ---------- *)

(* top-down, the shape of walk *)
Inductive Desc (st : store) : nat -> nat -> Prop :=
| D_child : forall i j, In j (children_of st i) -> Desc st i j
| D_step : forall i k j, In k (children_of st i) -> Desc st k j -> Desc st i j.

Lemma children_of_facts st p k :
  tree_ok st -> In k (children_of st p) -> p < k /\ k < length st /\ parent_of st k = Some p.
Proof.
  intros Hok Hin. unfold children_of in Hin. destruct (nth_error st p) as [cp|] eqn:E; [|destruct Hin].
  eapply ok_child; eauto.
Qed.

Lemma desc_gt st i j : tree_ok st -> Desc st i j -> i < j /\ j < length st.
Proof.
  intros Hok D. induction D as [i j H|i k j H D IH].
  - destruct (children_of_facts _ _ _ Hok H) as [? [? ?]]. lia.
  - destruct (children_of_facts _ _ _ Hok H) as [? [? ?]]. lia.
Qed.

(* bottom-up reading: the parent of a descendant is the ancestor or one of its descendants *)
Lemma desc_parent st i j :
  tree_ok st -> Desc st i j -> exists q, parent_of st j = Some q /\ (q = i \/ Desc st i q).
Proof.
  intros Hok D. induction D as [i j H|i k j H D IH].
  - destruct (children_of_facts _ _ _ Hok H) as [_ [_ Hp]]. eauto.
  - destruct IH as [q [Hq [->|Hd]]].
    + exists k. split; auto. right. apply D_child. exact H.
    + exists q. split; auto. right. eapply D_step; eauto.
Qed.

Lemma desc_snoc st i p j : Desc st i p -> In j (children_of st p) -> Desc st i j.
Proof.
  intros D H. induction D as [i p Hp|i k p Hk D IH].
  - eapply D_step; eauto. apply D_child. exact H.
  - eapply D_step; eauto.
Qed.

Lemma parent_lists st k : tree_ok st -> k <> 0 -> k < length st ->
  exists p, parent_of st k = Some p /\ In k (children_of st p) /\ p < k.
Proof.
  intros Hok Hk Hl. destruct (nth_error_lt_Some _ _ Hl) as [c Hc].
  destruct (ok_parent _ Hok _ _ Hc Hk) as [p [Hp Hcnt]].
  assert (Hin : In k (children_of st p)) by (apply (count_occ_In Nat.eq_dec); lia).
  exists p. unfold parent_of. rewrite Hc. repeat split; auto.
  destruct (children_of_facts _ _ _ Hok Hin) as [? _]. auto.
Qed.

(* every element other than the root descends from the root *)
Lemma desc_complete st : tree_ok st -> forall j, j <> 0 -> j < length st -> Desc st 0 j.
Proof.
  intros Hok j. induction j as [j IH] using lt_wf_ind. intros Hj Hl.
  destruct (parent_lists _ _ Hok Hj Hl) as [p [Hp [Hin Hlt]]].
  destruct (Nat.eq_dec p 0) as [->|Hp0].
  - apply D_child. exact Hin.
  - eapply desc_snoc; [|exact Hin]. apply IH; auto.
    destruct (children_of_facts _ _ _ Hok Hin) as [_ [? _]]. lia.
Qed.

(* two different children of one element have disjoint subtrees *)
Lemma desc_unique_child st i : tree_ok st -> forall j k1 k2,
  In k1 (children_of st i) -> In k2 (children_of st i) ->
  (k1 = j \/ Desc st k1 j) -> (k2 = j \/ Desc st k2 j) -> k1 = k2.
Proof.
  intros Hok j. induction j as [j IH] using lt_wf_ind. intros k1 k2 H1 H2 D1 D2.
  destruct (children_of_facts _ _ _ Hok H1) as [Hi1 [_ Hp1]].
  destruct (children_of_facts _ _ _ Hok H2) as [Hi2 [_ Hp2]].
  destruct D1 as [->|D1]; destruct D2 as [E2|D2]; auto.
  - (* j = k1, k2 above k1 *)
    destruct (desc_parent _ _ _ Hok D2) as [q [Hq Hd]]. rewrite Hp1 in Hq. inversion Hq; subst q.
    destruct Hd as [->|Hd]; [lia|]. destruct (desc_gt _ _ _ Hok Hd). lia.
  - subst j. destruct (desc_parent _ _ _ Hok D1) as [q [Hq Hd]]. rewrite Hp2 in Hq. inversion Hq; subst q.
    destruct Hd as [->|Hd]; [lia|]. destruct (desc_gt _ _ _ Hok Hd). lia.
  - destruct (desc_parent _ _ _ Hok D1) as [q1 [Hq1 Hd1]].
    destruct (desc_parent _ _ _ Hok D2) as [q2 [Hq2 Hd2]].
    rewrite Hq1 in Hq2. inversion Hq2; subst q2.
    assert (Hlt : q1 < j).
    { destruct (desc_gt _ _ _ Hok D1) as [? Hjl].
      assert (Hj0 : j <> 0) by lia.
      destruct (parent_lists _ _ Hok Hj0 Hjl) as [p [Hp [_ Hpl]]]. rewrite Hq1 in Hp. inversion Hp; subst. exact Hpl. }
    apply (IH q1 Hlt k1 k2); auto.
    + destruct Hd1; auto.
    + destruct Hd2; auto.
Qed.

Lemma NoDup_children st i : tree_ok st -> NoDup (children_of st i).
Proof.
  intro Hok. apply (NoDup_count_occ Nat.eq_dec). intro k.
  destruct (count_occ Nat.eq_dec (children_of st i) k) as [|n] eqn:E; [lia|].
  assert (Hin : In k (children_of st i)) by (apply (count_occ_In Nat.eq_dec); lia).
  destruct (children_of_facts _ _ _ Hok Hin) as [Hlt [Hl Hp]].
  assert (Hk0 : k <> 0) by lia.
  destruct (nth_error_lt_Some _ _ Hl) as [c Hc].
  destruct (ok_parent _ Hok _ _ Hc Hk0) as [p [Hp' Hcnt]].
  unfold parent_of in Hp. rewrite Hc in Hp. rewrite Hp' in Hp. inversion Hp; subst p. lia.
Qed.

Lemma NoDup_app_intro {A} (l1 l2 : list A) :
  NoDup l1 -> NoDup l2 -> (forall x, In x l1 -> In x l2 -> False) -> NoDup (l1 ++ l2).
Proof.
  induction l1 as [|a l1 IH]; intros H1 H2 H; simpl; auto.
  inversion H1; subst. constructor.
  - rewrite in_app_iff. intros [Hin|Hin]; [contradiction|]. apply (H a); simpl; auto.
  - apply IH; auto. intros x Hx1 Hx2. apply (H x); simpl; auto.
Qed.

(* the inner loop of walk, as a function of the per-child results *)
Fixpoint walk_go (f : nat) (st : store) (cs : list nat) : res (list nat) :=
  match cs with
  | [] => Ok []
  | k :: cs' => do w <- walk f st k; do r <- walk_go f st cs'; Ok (k :: w ++ r)
  end.

Lemma walk_unfold f st i :
  walk (S f) st i = do c <- get st i; walk_go f st (c_children c).
Proof.
  simpl. destruct (get st i) as [c|e]; simpl; auto.
  induction (c_children c) as [|k cs IH]; simpl; auto.
  destruct (walk f st k); simpl; auto. rewrite IH. reflexivity.
Qed.

Lemma walk_go_spec st f i :
  tree_ok st ->
  (forall k, In k (children_of st i) ->
     exists w, walk f st k = Ok w /\ (forall j, In j w <-> Desc st k j) /\ NoDup w) ->
  forall cs, (forall k, In k cs -> In k (children_of st i)) -> NoDup cs ->
  exists ws, walk_go f st cs = Ok ws
             /\ (forall j, In j ws <-> exists k, In k cs /\ (k = j \/ Desc st k j))
             /\ NoDup ws.
Proof.
  intros Hok Hrec. induction cs as [|k cs IH]; intros Hsub Hnd; simpl.
  - exists []. repeat split; try constructor.
    + intros [].
    + intros [k [[] _]].
  - inversion Hnd as [|? ? Hk Hnd']; subst.
    destruct (Hrec k (Hsub k (or_introl eq_refl))) as [w [Hw [Hmw Hndw]]]. rewrite Hw. cbn [bind].
    destruct (IH (fun x Hx => Hsub x (or_intror Hx)) Hnd') as [r [Hr [Hmr Hndr]]]. rewrite Hr. cbn [bind].
    exists (k :: w ++ r). split; [reflexivity|]. split.
    + intro j. simpl. rewrite in_app_iff, Hmw, Hmr. split.
      * intros [<-|[D|[k' [Hk' D]]]].
        -- exists k. auto.
        -- exists k. auto.
        -- exists k'. auto.
      * intros [k' [[<-|Hk'] D]].
        -- destruct D as [->|D]; auto.
        -- right; right. exists k'. auto.
    + assert (Hdisj : forall j k', In k' cs -> (k = j \/ Desc st k j) -> (k' = j \/ Desc st k' j) -> False).
      { intros j k' Hk' D1 D2.
        assert (k = k') by (eapply (desc_unique_child st i Hok j k k'); auto using in_eq, in_cons).
        subst k'. contradiction. }
      constructor.
      * rewrite in_app_iff, Hmw, Hmr. intros [D|[k' [Hk' D]]].
        -- destruct (desc_gt _ _ _ Hok D). lia.
        -- apply (Hdisj k k' Hk'); auto.
      * apply NoDup_app_intro; auto. intros j Hjw Hjr.
        apply Hmw in Hjw. apply Hmr in Hjr. destruct Hjr as [k' [Hk' D]].
        apply (Hdisj j k' Hk'); auto.
Qed.

Lemma walk_spec st : tree_ok st -> forall f i, i < length st -> length st <= f + i ->
  exists w, walk f st i = Ok w /\ (forall j, In j w <-> Desc st i j) /\ NoDup w.
Proof.
  intros Hok f. induction f as [|f IH]; intros i Hi Hf; [lia|].
  rewrite walk_unfold. destruct (nth_error_lt_Some _ _ Hi) as [c Hc]. rewrite (get_Some _ _ _ Hc). cbn [bind].
  assert (Hch : children_of st i = c_children c) by (unfold children_of; rewrite Hc; reflexivity).
  destruct (walk_go_spec st f i Hok) with (cs := c_children c) as [ws [Hws [Hm Hnd]]].
  - intros k Hk. destruct (children_of_facts _ _ _ Hok Hk) as [? [? _]]. apply IH; lia.
  - rewrite Hch. auto.
  - rewrite <- Hch. apply NoDup_children. auto.
  - exists ws. split; auto. split; auto. intro j. rewrite Hm. rewrite <- Hch. split.
    + intros [k [Hk [<-|D]]]; [apply D_child; auto|eapply D_step; eauto].
    + intro D. inversion D; subst; eauto.
Qed.

(* C16_tree_consistent: walk from the root reaches every element exactly once *)
Theorem walk_root_enumerates st :
  tree_ok st ->
  exists w, walk_top st 0 = Ok w /\ NoDup (0 :: w) /\ (forall j, In j (0 :: w) <-> j < length st).
Proof.
  intro Hok. destruct (ok_root _ Hok) as [c0 [H0 _]]. pose proof (nth_error_Some_lt _ _ _ H0) as Hl.
  destruct (walk_spec st Hok (length st) 0 Hl) as [w [Hw [Hm Hnd]]]; [lia|].
  exists w. split; [exact Hw|]. split.
  - constructor; auto. rewrite Hm. intro D. destruct (desc_gt _ _ _ Hok D). lia.
  - intro j. simpl. rewrite Hm. split.
    + intros [<-|D]; auto. destruct (desc_gt _ _ _ Hok D). auto.
    + intro Hj. destruct (Nat.eq_dec j 0) as [->|Hj0]; auto. right. apply desc_complete; auto.
Qed.
