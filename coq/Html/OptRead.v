(* A reader for the sub-language of directive option blocks that html_to_nodes emits:
     key: plain value            (one line)
     key: "double quoted value"  (one line; escapes: backslash-backslash, backslash-quote, backslash-uXXXX)
     key:                        (no value)
   It models myst_parser.parsers.options.options_to_items on that sub-language only; outside it
   the reader answers NotModelled.  Tied to the real tokenizer by correspondence (props/C17.py).
   Executable definitions only. *)
From Coq Require Import List NArith Bool Arith.
From MV Require Import Base.PyStr Base.Res Html.HtmlTypes.
Import ListNotations.
Local Open Scope N_scope.

Inductive rd (A : Type) : Type :=
| RdOk (a : A)
| RdError              (* options.TokenizeError *)
| RdNotModelled.       (* outside the modelled sub-language *)
Arguments RdOk {A} a.
Arguments RdError {A}.
Arguments RdNotModelled {A}.

(* _CHARS_NEWLINE other than "\n", and the stream end marker *)
Definition other_breaks : list N := [13; 133; 8232; 8233].
Definition c_nul : N := 0.

(* characters that end a plain chunk or are special at its start *)
Definition is_break (c : N) : bool := N.eqb c 10 || mem_N c other_breaks.

(* a key as html_to_nodes writes it: letters, digits, '-' , '_' *)
Definition key_char (c : N) : bool :=
  ((97 <=? c) && (c <=? 122)) || ((65 <=? c) && (c <=? 90)) || ((48 <=? c) && (c <=? 57))
  || N.eqb c 45 || N.eqb c 95.

(* plain key up to ':' ; the colon must be followed by space, line break or the end *)
Fixpoint read_key (s : str) (acc : str) : rd (str * str) :=
  match s with
  | [] => RdNotModelled
  | c :: r =>
      if N.eqb c 58 then
        match acc with
        | [] => RdNotModelled
        | _ => match r with
               | [] => RdOk (rev acc, r)
               | d :: _ => if N.eqb d 32 || N.eqb d 10 then RdOk (rev acc, r) else RdNotModelled
               end
        end
      else if key_char c then read_key r (c :: acc)
      else RdNotModelled
  end.

Fixpoint skip_spaces (s : str) : str :=
  match s with
  | c :: r => if N.eqb c 32 then skip_spaces r else s
  | [] => []
  end.

(* after a value: end of the block, or a line break followed by the next key at column 0 *)
Definition line_end (s : str) : rd str :=
  match s with
  | [] => RdOk []
  | c :: r =>
      if N.eqb c 10 then
        match r with
        | d :: _ => if key_char d then RdOk r else RdNotModelled
        | [] => RdNotModelled
        end
      else RdNotModelled
  end.

(* _scan_plain_scalar on one line: chunks separated by runs of spaces; [pending] = spaces seen
   since the last chunk character (reversed accumulators) *)
Fixpoint read_plain (s : str) (acc pending : str) : rd (str * str) :=
  match s with
  | [] => RdOk (rev acc, [])
  | c :: r =>
      if N.eqb c 10 then RdOk (rev acc, s)
      else if N.eqb c 32 then read_plain r acc (c :: pending)
      else if N.eqb c 35 && (truthy pending || negb (truthy acc)) then RdNotModelled   (* comment *)
      else if N.eqb c 9 || mem_N c other_breaks || N.eqb c c_nul then RdNotModelled
      else read_plain r (c :: pending ++ acc) []
  end.

Definition hexval (c : N) : option N :=
  if (48 <=? c) && (c <=? 57) then Some (c - 48)
  else if (97 <=? c) && (c <=? 102) then Some (c - 87)
  else if (65 <=? c) && (c <=? 70) then Some (c - 55)
  else None.

(* \uXXXX *)
Definition read_hex4 (s : str) : option (N * str) :=
  match s with
  | a :: b :: c :: d :: r =>
      match hexval a, hexval b, hexval c, hexval d with
      | Some x, Some y, Some z, Some w => Some (((x * 16 + y) * 16 + z) * 16 + w, r)
      | _, _, _, _ => None
      end
  | _ => None
  end.

(* _scan_flow_scalar (double quoted) on one line; the opening quote is already consumed *)
Fixpoint read_dq (fuel : nat) (s : str) (acc : str) : rd (str * str) :=
  match fuel with
  | O => RdNotModelled
  | S f =>
      match s with
      | [] => RdError                                  (* unexpected end of stream *)
      | c :: r =>
          if N.eqb c 34 then RdOk (rev acc, r)
          else if N.eqb c 92 then
            match r with
            | e :: r' =>
                if N.eqb e 117 then
                  match read_hex4 r' with
                  | Some (code, r'') => read_dq f r'' (code :: acc)
                  | None => RdError
                  end
                else if N.eqb e 92 || N.eqb e 34 then read_dq f r' (e :: acc)
                else RdNotModelled
            | [] => RdError
            end
          else if N.eqb c c_nul then RdError
          else if is_break c then RdNotModelled         (* line folding *)
          else read_dq f r (c :: acc)
      end
  end.

(* the value after "key:" *)
Definition read_value (s : str) : rd (str * str) :=
  let s' := skip_spaces s in
  match s' with
  | [] => RdOk ([], [])
  | c :: r =>
      if N.eqb c 10 then RdOk ([], s')
      else if N.eqb c 34 then read_dq (S (length r)) r []
      else if N.eqb c 39 || N.eqb c 124 || N.eqb c 62 then RdNotModelled   (* other scalar styles *)
      else read_plain s' [] []
  end.

(* options_to_items on the sub-language *)
Fixpoint read_items (fuel : nat) (s : str) : rd (list (str * str)) :=
  match fuel with
  | O => RdNotModelled
  | S f =>
      match s with
      | [] => RdOk []
      | _ =>
          match read_key s [] with
          | RdOk (k, r1) =>
              match read_value r1 with
              | RdOk (v, r2) =>
                  match line_end r2 with
                  | RdOk r3 =>
                      match read_items f r3 with
                      | RdOk l => RdOk ((k, v) :: l)
                      | RdError => RdError
                      | RdNotModelled => RdNotModelled
                      end
                  | RdError => RdError
                  | RdNotModelled => RdNotModelled
                  end
              | RdError => RdError
              | RdNotModelled => RdNotModelled
              end
          | RdError => RdError
          | RdNotModelled => RdNotModelled
          end
      end
  end.

Definition options_to_items (s : str) : rd (list (str * str)) := read_items (S (length s)) s.
