(* Exact round trip on well-formed documents:
   render (build (events_of h)) = print h, via a representation relation between store
   cells and html syntax trees, a frame lemma, and the "balanced block" lemma. *)
From Coq Require Import List NArith Bool Arith Lia.
From MV Require Import Base.PyStr Base.Res Html.HtmlTypes Gen.Html Html.HtmlModel Html.HtmlStore Html.HtmlInv.
Import ListNotations.
Local Open Scope nat_scope.

(* ---------- induction principle for the nested type html ---------- *)

Section HtmlInd.
  Variable P : html -> Prop.
  Hypothesis H_elem : forall n a ch, Forall P ch -> P (HElem n a ch).
  Hypothesis H_void : forall n a, P (HVoid n a).
  Hypothesis H_self : forall n a, P (HSelf n a).
  Hypothesis H_data : forall s, P (HData s).
  Hypothesis H_decl : forall s, P (HDecl s).
  Hypothesis H_comment : forall s, P (HComment s).
  Hypothesis H_pi : forall s, P (HPi s).
  Hypothesis H_char : forall s, P (HChar s).
  Hypothesis H_entity : forall s, P (HEntity s).

  Fixpoint html_ind2 (h : html) : P h :=
    match h with
    | HElem n a ch =>
        H_elem n a ch
          ((fix go (l : list html) : Forall P l :=
              match l with
              | [] => Forall_nil P
              | x :: r => Forall_cons x (html_ind2 x) (go r)
              end) ch)
    | HVoid n a => H_void n a
    | HSelf n a => H_self n a
    | HData s => H_data s
    | HDecl s => H_decl s
    | HComment s => H_comment s
    | HPi s => H_pi s
    | HChar s => H_char s
    | HEntity s => H_entity s
    end.
End HtmlInd.

(* ---------- the nested fixpoints of the specification, unfolded ---------- *)

Lemma print_go ch :
  (fix go (l : list html) : str := match l with [] => [] | x :: r => print x ++ go r end) ch = print_doc ch.
Proof. induction ch as [|x r IH]; simpl; [reflexivity|]. rewrite IH. reflexivity. Qed.

Lemma print_elem n a ch :
  print (HElem n a ch) = [60%N] ++ n ++ print_attrs a ++ [62%N] ++ print_doc ch ++ [60%N; 47%N] ++ n ++ [62%N].
Proof. cbn [print]. rewrite print_go. reflexivity. Qed.

Lemma events_go ch :
  (fix go (l : list html) : list event := match l with [] => [] | x :: r => events_of x ++ go r end) ch
  = events_doc ch.
Proof. induction ch as [|x r IH]; simpl; [reflexivity|]. rewrite IH. reflexivity. Qed.

Lemma events_elem n a ch :
  events_of (HElem n a ch) = EStart n a :: events_doc ch ++ [EEnd n].
Proof. cbn [events_of]. rewrite events_go. reflexivity. Qed.

Lemma wf_go ch : forall b,
  (fix go (prev_data : bool) (l : list html) : bool :=
     match l with
     | [] => true
     | x :: r => wf x && negb (prev_data && is_data x) && go (is_data x) r
     end) b ch = wf_seq b ch.
Proof. induction ch as [|x r IH]; intro b; simpl; [reflexivity|]. rewrite IH. reflexivity. Qed.

Lemma wf_elem n a ch :
  wf (HElem n a ch) =
  wf_name n && negb (mem_str n spec_void) && wf_attrs a
  && (if mem_str n cdata_elements then forallb is_data ch else true)
  && wf_seq false ch.
Proof. cbn [wf]. rewrite wf_go. reflexivity. Qed.

(* ---------- representation of a syntax tree by a store cell ---------- *)

Fixpoint Repr (st : store) (i : nat) (h : html) {struct h} : Prop :=
  exists c, nth_error st i = Some c /\
  match h with
  | HElem n a ch =>
      c_kind c = KTag /\ c_name c = n /\ c_attrs c = a /\
      (fix all (ids : list nat) (hs : list html) {struct hs} : Prop :=
         match hs with
         | [] => ids = []
         | x :: hs' => match ids with [] => False | k :: ids' => Repr st k x /\ all ids' hs' end
         end) (c_children c) ch
  | HVoid n a => c_kind c = KVoid /\ c_name c = n /\ c_attrs c = a /\ c_children c = []
  | HSelf n a => c_kind c = KXTag /\ c_name c = n /\ c_attrs c = a /\ c_children c = []
  | HData s => c_kind c = KData /\ c_data c = s /\ c_children c = []
  | HDecl s => c_kind c = KDecl /\ c_data c = s /\ c_children c = []
  | HComment s => c_kind c = KComment /\ c_data c = s /\ c_children c = []
  | HPi s => c_kind c = KPi /\ c_data c = s /\ c_children c = []
  | HChar s => c_kind c = KChar /\ c_data c = s /\ c_children c = []
  | HEntity s => c_kind c = KEntity /\ c_data c = s /\ c_children c = []
  end.

Fixpoint ReprL (st : store) (ids : list nat) (hs : list html) {struct hs} : Prop :=
  match hs with
  | [] => ids = []
  | x :: hs' => match ids with [] => False | k :: ids' => Repr st k x /\ ReprL st ids' hs' end
  end.

Lemma Repr_elem st i n a ch :
  Repr st i (HElem n a ch) <->
  exists c, nth_error st i = Some c /\ c_kind c = KTag /\ c_name c = n /\ c_attrs c = a
            /\ ReprL st (c_children c) ch.
Proof.
  cbn [Repr].
  assert (E : forall ids, (fix all (ids : list nat) (hs : list html) {struct hs} : Prop :=
         match hs with
         | [] => ids = []
         | x :: hs' => match ids with [] => False | k :: ids' => Repr st k x /\ all ids' hs' end
         end) ids ch <-> ReprL st ids ch).
  { induction ch as [|x r IH]; intros ids; simpl; [tauto|]. destruct ids; [tauto|]. rewrite IH. tauto. }
  split; intros [c [H1 [H2 [H3 [H4 H5]]]]]; exists c; repeat split; auto; apply E; auto.
Qed.

Lemma ReprL_app st ids1 hs1 ids2 hs2 :
  ReprL st ids1 hs1 -> ReprL st ids2 hs2 -> ReprL st (ids1 ++ ids2) (hs1 ++ hs2).
Proof.
  revert ids1; induction hs1 as [|x r IH]; intros ids1 H1 H2; simpl in *.
  - subst. exact H2.
  - destruct ids1 as [|k ids1]; [destruct H1|]. destruct H1 as [Hk Hr]. simpl. split; auto.
Qed.

(* children are allocated after their parent *)
Definition incr (st : store) : Prop :=
  forall j c k, nth_error st j = Some c -> In k (c_children c) -> j < k.

Lemma tree_ok_incr st : tree_ok st -> incr st.
Proof. intros Hok j c k Hj Hk. destruct (ok_child _ Hok _ _ _ Hj Hk). auto. Qed.

(* frame: cells from [lo] on are untouched *)
Lemma Repr_frame st st' lo :
  incr st ->
  (forall j, lo <= j -> j < length st -> nth_error st' j = nth_error st j) ->
  forall h i, lo <= i -> Repr st i h -> Repr st' i h.
Proof.
  intros Hinc Hfr h. induction h using html_ind2; intros i Hi R;
    try (destruct R as [c [Hc R]]; exists c; split; [rewrite Hfr; auto; eapply nth_error_Some_lt; eauto|exact R]).
  apply Repr_elem in R. apply Repr_elem. destruct R as [c [Hc [H1 [H2 [H3 H4]]]]].
  exists c. split; [rewrite Hfr; auto; eapply nth_error_Some_lt; eauto|]. repeat split; auto.
  assert (Hgt : forall k, In k (c_children c) -> lo <= k).
  { intros k Hk. pose proof (Hinc _ _ _ Hc Hk). lia. }
  clear Hc H1 H2 H3. revert H4 Hgt. generalize (c_children c) as ids.
  induction H as [|x r Hx Hr IH]; intros ids R Hgt; simpl in *; auto.
  destruct ids as [|k ids]; [destruct R|]. destruct R as [Rk Rr]. split.
  - apply Hx; auto. apply Hgt. simpl; auto.
  - apply IH; auto. intros k' Hk'. apply Hgt. simpl; auto.
Qed.

Lemma ReprL_frame st st' lo :
  incr st ->
  (forall j, lo <= j -> j < length st -> nth_error st' j = nth_error st j) ->
  forall hs ids, Forall (fun i => lo <= i) ids -> ReprL st ids hs -> ReprL st' ids hs.
Proof.
  intros Hinc Hfr hs. induction hs as [|x r IH]; intros ids F R; simpl in *; auto.
  destruct ids as [|k ids]; [destruct R|]. destruct R as [Rk Rr]. inversion F; subst. split.
  - eapply Repr_frame; eauto.
  - apply IH; auto.
Qed.

(* ---------- render of a represented tree is its print ---------- *)

Lemma render_unfold f st i :
  render (S f) st i =
  do c <- get st i; do ks <- render_list f st (c_children c); Ok (render_cell c ks).
Proof.
  simpl. destruct (get st i) as [c|e]; simpl; auto.
  assert (E : (fix go (cs : list nat) : res str :=
                 match cs with
                 | [] => Ok []
                 | k :: cs' => do s <- render f st k; do r <- go cs'; Ok (s ++ r)
                 end) (c_children c) = render_list f st (c_children c)).
  { induction (c_children c) as [|k cs IH]; simpl; auto. rewrite IH. reflexivity. }
  rewrite E. reflexivity.
Qed.

(* the two replace() passes of escape_attr equal the one-pass serialisation rule *)
Lemma escape_attr_spec v : escape_attr v = spec_escape v.
Proof.
  unfold escape_attr, spec_escape, replace_char. induction v as [|c v IH]; [reflexivity|].
  cbn [flat_map]. destruct (N.eqb c 38) eqn:E38.
  - rewrite flat_map_app, IH. reflexivity.
  - cbn [flat_map app]. rewrite IH. destruct (N.eqb c 34); reflexivity.
Qed.

Lemma render_attr_print k v : [32%N] ++ render_attr k v = print_attr (k, v).
Proof.
  unfold render_attr, print_attr. destruct v; simpl; rewrite ?app_nil_r; [|reflexivity].
  rewrite escape_attr_spec. reflexivity.
Qed.

Lemma join_cons_sep (sep : str) p (l : list str) :
  l <> [] -> join sep (p :: l) = p ++ sep ++ join sep l.
Proof. destruct l; [congruence|]. reflexivity. Qed.

Lemma join_space_concat (sep : str) (l : list str) :
  l <> [] -> sep ++ join sep l = concat (map (fun p => sep ++ p) l).
Proof.
  induction l as [|p l IH]; [congruence|]. intros _. destruct l as [|q l].
  - simpl. rewrite !app_nil_r. reflexivity.
  - rewrite join_cons_sep by discriminate.
    assert (E : concat (map (fun p => sep ++ p) (p :: q :: l))
                = (sep ++ p) ++ concat (map (fun p => sep ++ p) (q :: l))) by reflexivity.
    rewrite E. rewrite <- IH by discriminate. rewrite <- !app_assoc. reflexivity.
Qed.

(* the f-string parts  ' ' if self.attrs else ''  and  self.attrs  give the printed attribute list *)
Lemma render_attrs_print (a : attrs) :
  (if truthy a then [32%N] else []) ++ render_attrs a = print_attrs a.
Proof.
  unfold render_attrs, print_attrs. destruct a as [|kv a]; [reflexivity|].
  cbn [truthy]. change [32%N] with attr_sep. rewrite join_space_concat by discriminate.
  rewrite map_map. f_equal. apply map_ext. intros [k v]. apply render_attr_print.
Qed.

Lemma render_repr st : incr st -> forall h i f,
  Repr st i h -> length st <= f + i -> render f st i = Ok (print h).
Proof.
  intros Hinc h. induction h using html_ind2; intros i f R Hf.
  - apply Repr_elem in R. destruct R as [c [Hc [H1 [H2 [H3 H4]]]]].
    pose proof (nth_error_Some_lt _ _ _ Hc) as Hl. destruct f as [|f]; [lia|].
    rewrite render_unfold, (get_Some _ _ _ Hc). cbn [bind].
    assert (Hks : render_list f st (c_children c) = Ok (print_doc ch)).
    { assert (Hgt : forall k, In k (c_children c) -> length st <= f + k).
      { intros k Hk. pose proof (Hinc _ _ _ Hc Hk). lia. }
      clear Hc H1 H2 H3. revert H4 Hgt. generalize (c_children c) as ids.
      induction H as [|x r Hx Hr IH]; intros ids R Hgt; simpl in *.
      - subst. reflexivity.
      - destruct ids as [|k ids]; [destruct R|]. destruct R as [Rk Rr]. simpl.
        rewrite (Hx k f Rk) by (apply Hgt; simpl; auto). cbn [bind].
        rewrite (IH ids Rr) by (intros k' Hk'; apply Hgt; simpl; auto). reflexivity. }
    rewrite Hks. cbn [bind]. unfold render_cell. rewrite H1, H2, H3. unfold render_Tag.
    rewrite print_elem. rewrite <- render_attrs_print. rewrite <- !app_assoc. reflexivity.
  - destruct R as [c [Hc [H1 [H2 [H3 H4]]]]].
    pose proof (nth_error_Some_lt _ _ _ Hc) as Hl. destruct f as [|f]; [lia|].
    rewrite render_unfold, (get_Some _ _ _ Hc). cbn [bind]. rewrite H4. cbn [render_list bind].
    unfold render_cell. rewrite H1, H2, H3. unfold render_VoidTag. cbn [print].
    rewrite <- render_attrs_print. rewrite <- !app_assoc. reflexivity.
  - destruct R as [c [Hc [H1 [H2 [H3 H4]]]]].
    pose proof (nth_error_Some_lt _ _ _ Hc) as Hl. destruct f as [|f]; [lia|].
    rewrite render_unfold, (get_Some _ _ _ Hc). cbn [bind]. rewrite H4. cbn [render_list bind].
    unfold render_cell. rewrite H1, H2, H3. unfold render_XTag. cbn [print].
    rewrite <- render_attrs_print. rewrite <- !app_assoc. reflexivity.
  - destruct R as [c [Hc [H1 [H2 H3]]]].
    pose proof (nth_error_Some_lt _ _ _ Hc) as Hl. destruct f as [|f]; [lia|].
    rewrite render_unfold, (get_Some _ _ _ Hc). cbn [bind]. rewrite H3. cbn [render_list bind].
    unfold render_cell. rewrite H1, H2. reflexivity.
  - destruct R as [c [Hc [H1 [H2 H3]]]].
    pose proof (nth_error_Some_lt _ _ _ Hc) as Hl. destruct f as [|f]; [lia|].
    rewrite render_unfold, (get_Some _ _ _ Hc). cbn [bind]. rewrite H3. cbn [render_list bind].
    unfold render_cell. rewrite H1, H2. reflexivity.
  - destruct R as [c [Hc [H1 [H2 H3]]]].
    pose proof (nth_error_Some_lt _ _ _ Hc) as Hl. destruct f as [|f]; [lia|].
    rewrite render_unfold, (get_Some _ _ _ Hc). cbn [bind]. rewrite H3. cbn [render_list bind].
    unfold render_cell. rewrite H1, H2. reflexivity.
  - destruct R as [c [Hc [H1 [H2 H3]]]].
    pose proof (nth_error_Some_lt _ _ _ Hc) as Hl. destruct f as [|f]; [lia|].
    rewrite render_unfold, (get_Some _ _ _ Hc). cbn [bind]. rewrite H3. cbn [render_list bind].
    unfold render_cell. rewrite H1, H2. reflexivity.
  - destruct R as [c [Hc [H1 [H2 H3]]]].
    pose proof (nth_error_Some_lt _ _ _ Hc) as Hl. destruct f as [|f]; [lia|].
    rewrite render_unfold, (get_Some _ _ _ Hc). cbn [bind]. rewrite H3. cbn [render_list bind].
    unfold render_cell. rewrite H1, H2. reflexivity.
  - destruct R as [c [Hc [H1 [H2 H3]]]].
    pose proof (nth_error_Some_lt _ _ _ Hc) as Hl. destruct f as [|f]; [lia|].
    rewrite render_unfold, (get_Some _ _ _ Hc). cbn [bind]. rewrite H3. cbn [render_list bind].
    unfold render_cell. rewrite H1, H2. reflexivity.
Qed.

Lemma render_list_repr st : incr st -> forall hs ids f,
  ReprL st ids hs -> (forall k, In k ids -> length st <= f + k) ->
  render_list f st ids = Ok (print_doc hs).
Proof.
  intros Hinc hs. induction hs as [|x r IH]; intros ids f R Hf; simpl in *.
  - subst. reflexivity.
  - destruct ids as [|k ids]; [destruct R|]. destruct R as [Rk Rr]. simpl.
    rewrite (render_repr st Hinc x k f Rk) by (apply Hf; simpl; auto). cbn [bind].
    rewrite (IH ids f Rr) by (intros k' Hk'; apply Hf; simpl; auto). reflexivity.
Qed.

(* ---------- facts about the regenerated tables ---------- *)

(* the code's void_elements is the standard's list *)
Lemma void_same : void_elements = spec_void.
Proof. reflexivity. Qed.

Lemma mem_str_app s l1 l2 : mem_str s (l1 ++ l2) = mem_str s l1 || mem_str s l2.
Proof. induction l1 as [|x l1 IH]; simpl; auto. rewrite IH. apply orb_assoc. Qed.

Lemma dict_set_fresh d k v :
  mem_str k (map fst d) = false -> dict_set d k v = d ++ [(k, v)].
Proof.
  induction d as [|[k' v'] d IH]; simpl; intro H; auto.
  apply orb_false_iff in H as [H1 H2]. rewrite H1. rewrite IH; auto.
Qed.

Lemma dict_acc_fresh : forall l d, wf_attrs l = true ->
  (forall kv, In kv l -> mem_str (fst kv) (map fst d) = false) ->
  dict_of_pairs_acc d l = d ++ l.
Proof.
  induction l as [|[k v] r IH]; intros d Hwf Hd; simpl.
  - rewrite app_nil_r. reflexivity.
  - simpl in Hwf. apply andb_true_iff in Hwf as [Hwf Hr]. apply andb_true_iff in Hwf as [_ Hk].
    apply negb_true_iff in Hk.
    rewrite dict_set_fresh by (apply (Hd (k, v)); simpl; auto).
    rewrite IH; auto.
    + rewrite <- app_assoc. reflexivity.
    + intros kv Hkv. rewrite map_app, mem_str_app. rewrite (Hd kv) by (simpl; auto). simpl.
      rewrite orb_false_r. apply str_eqb_neq. intro E.
      assert (Hin : In k (map fst r)) by (rewrite <- E; apply in_map; exact Hkv).
      apply mem_str_In in Hin. congruence.
Qed.

Lemma dict_of_pairs_wf a : wf_attrs a = true -> dict_of_pairs a = a.
Proof. intro H. unfold dict_of_pairs. rewrite dict_acc_fresh; auto. Qed.

(* ---------- the balanced block lemma ---------- *)

Lemma binv_handle_ok t e t' : binv t -> handle t e = Ok t' -> binv t'.
Proof. intros B H. destruct (binv_handle t e B) as [t'' [H' B']]. congruence. Qed.

Definition block_post (t t' : tree) (top : nat) (ctop : cell) (ids : list nat) (hs : list html) : Prop :=
  binv t' /\ t_stack t' = t_stack t /\
  nth_error (t_cells t') top = Some (set_children (c_children ctop ++ ids) ctop) /\
  (forall j, j < length (t_cells t) -> j <> top -> nth_error (t_cells t') j = nth_error (t_cells t) j) /\
  length (t_cells t) <= length (t_cells t') /\
  Forall (fun i => length (t_cells t) <= i) ids /\
  ReprL (t_cells t') ids hs.

(* a balanced block of events leaves the stack as it found it and appends the
   represented trees to the children of the current top element *)
Definition single_ok (h : html) : Prop :=
  wf h = true ->
  forall t top rest ctop, binv t -> t_stack t = top :: rest -> nth_error (t_cells t) top = Some ctop ->
  exists t', build t (events_of h) = Ok t' /\ block_post t t' top ctop [length (t_cells t)] [h].

Definition block_ok (hs : list html) : Prop :=
  forall b, wf_seq b hs = true ->
  forall t top rest ctop, binv t -> t_stack t = top :: rest -> nth_error (t_cells t) top = Some ctop ->
  exists t' ids, build t (events_doc hs) = Ok t' /\ block_post t t' top ctop ids hs.

Lemma leaf_post t c top rest ctop h :
  binv t -> t_stack t = top :: rest -> nth_error (t_cells t) top = Some ctop ->
  c_parent c = None -> c_children c = [] ->
  (forall st', nth_error st' (length (t_cells t)) = Some (set_parent (Some top) c) ->
               Repr st' (length (t_cells t)) h) ->
  exists t', nest_leaf t c = Ok t' /\ block_post t t' top ctop [length (t_cells t)] [h].
Proof.
  intros B Hs Hp Hc Hcc HR.
  destruct (binv_nest_leaf t c B Hc Hcc) as [t' [Ht' [B' Hs']]].
  exists t'. split; [exact Ht'|].
  rewrite (nest_leaf_spec _ _ _ _ _ Hs Hp Hc) in Ht'. inversion Ht'; subst t'. clear Ht'.
  pose proof (nth_error_Some_lt _ _ _ Hp) as Hlt.
  unfold block_post. cbn [t_cells t_stack].
  refine (conj B' (conj eq_refl (conj _ (conj _ (conj _ (conj _ (conj _ eq_refl))))))).
  - apply add_child_parent. exact Hlt.
  - intros j Hj Hjt. apply add_child_other; auto.
  - rewrite add_child_length. lia.
  - constructor; auto.
  - apply HR. apply add_child_new. exact Hlt.
Qed.

Lemma build_single t e : build t [e] = handle t e.
Proof. simpl. destruct (handle t e); reflexivity. Qed.

Lemma block_of_singles hs : Forall single_ok hs -> block_ok hs.
Proof.
  induction 1 as [|h r Hh Hr IH]; intros b Hwf t top rest ctop B Hs Hp.
  - exists t, []. split; [reflexivity|]. unfold block_post. rewrite app_nil_r.
    refine (conj B (conj eq_refl (conj _ (conj (fun j _ _ => eq_refl) (conj (le_n _) (conj (Forall_nil _) eq_refl)))))).
    destruct ctop; exact Hp.
  - simpl in Hwf. apply andb_true_iff in Hwf as [Hwf Hwr]. apply andb_true_iff in Hwf as [Hwh _].
    destruct (Hh Hwh t top rest ctop B Hs Hp) as [t1 [Hb1 [B1 [Hs1 [Hp1 [Hfr1 [Hl1 [_ R1]]]]]]]].
    rewrite Hs in Hs1.
    destruct (IH _ Hwr t1 top rest _ B1 Hs1 Hp1) as [t2 [ids2 [Hb2 [B2 [Hs2 [Hp2 [Hfr2 [Hl2 [F2 R2]]]]]]]]].
    exists t2, (length (t_cells t) :: ids2). split.
    + cbn [events_doc]. rewrite build_app, Hb1. cbn [bind]. exact Hb2.
    + pose proof (nth_error_Some_lt _ _ _ Hp) as Hlt.
      unfold block_post.
      refine (conj B2 (conj _ (conj _ (conj _ (conj _ (conj _ _)))))).
      * congruence.
      * rewrite Hp2. cbn [set_children c_children c_kind c_name c_attrs c_data c_parent].
        rewrite <- app_assoc. reflexivity.
      * intros j Hj Hjt. rewrite Hfr2 by (auto; lia). apply Hfr1; auto.
      * lia.
      * constructor; [lia|]. eapply Forall_impl; [|exact F2]. simpl. intros; lia.
      * cbn [ReprL]. split; auto. simpl in R1. destruct R1 as [R1 _].
        apply (Repr_frame (t_cells t1) (t_cells t2) (length (t_cells t))); auto.
        -- apply tree_ok_incr. apply (b_ok _ B1).
        -- intros j Hj1 Hj2. apply Hfr2; auto. lia.
Qed.

Lemma single_all : forall h, single_ok h.
Proof.
  induction h using html_ind2; intros Hwf t top rest ctop B Hs Hp.
  - (* <n a> ch </n> *)
    rewrite wf_elem in Hwf.
    apply andb_true_iff in Hwf as [Hwf Hch]. apply andb_true_iff in Hwf as [Hwf _].
    apply andb_true_iff in Hwf as [Hwf Ha]. apply andb_true_iff in Hwf as [_ Hv].
    apply negb_true_iff in Hv. rewrite <- void_same in Hv.
    rewrite events_elem. cbn [build handle]. rewrite Hv.
    rewrite (nest_tag_spec _ n a _ _ _ Hs Hp). cbn [bind].
    set (m := length (t_cells t)).
    set (cnew := new_element k_nest_tag n a).
    set (t1 := mktree (add_child_result (t_cells t) top cnew ctop) (t_outmost t) (m :: top :: rest)).
    assert (B1 : binv t1).
    { destruct (binv_nest_tag t n a B) as [t1' [E B1']].
      rewrite (nest_tag_spec _ n a _ _ _ Hs Hp) in E. inversion E; subst t1'. exact B1'. }
    pose proof (nth_error_Some_lt _ _ _ Hp) as Hlt.
    assert (Hm : nth_error (t_cells t1) m = Some (set_parent (Some top) cnew)) by (apply add_child_new; exact Hlt).
    destruct (block_of_singles ch H false Hch t1 m (top :: rest) _ B1 eq_refl Hm)
      as [t2 [ids [Hb2 [B2 [Hs2 [Hp2 [Hfr2 [Hl2 [F2 R2]]]]]]]]].
    rewrite build_app, Hb2. cbn [bind]. rewrite build_single. cbn [handle]. rewrite Hv. cbn [negb].
    (* the end tag finds the element just built on top of the stack *)
    assert (Hm0 : Nat.eqb m (t_outmost t2) = false).
    { rewrite (b_out _ B2). apply Nat.eqb_neq. unfold m. destruct (ok_root _ (b_ok _ B)) as [c0 [H0 _]].
      apply nth_error_Some_lt in H0. lia. }
    unfold enclose. rewrite Hs2. cbn [t_stack t1 enclose_count]. rewrite Hm0.
    rewrite (get_Some _ _ _ Hp2). cbn [bind set_children c_name set_parent cnew new_element].
    rewrite str_eqb_refl. cbn [bind pop_n pop snd].
    eexists. split; [reflexivity|].
    assert (B3 : binv (mktree (t_cells t2) (t_outmost t2) (top :: rest))).
    { destruct (binv_enclose t2 n B2) as [t3 [E B3]]. unfold enclose in E.
      rewrite Hs2 in E. cbn [t_stack t1 enclose_count] in E. rewrite Hm0 in E.
      rewrite (get_Some _ _ _ Hp2) in E. cbn [bind set_children c_name set_parent cnew new_element] in E.
      rewrite str_eqb_refl in E. cbn [bind pop_n pop snd] in E. inversion E; subst t3. exact B3. }
    assert (Hl1 : length (t_cells t1) = S m) by (apply add_child_length).
    unfold block_post. cbn [t_cells t_stack].
    refine (conj B3 (conj (eq_sym Hs) (conj _ (conj _ (conj _ (conj _ _)))))).
    + rewrite Hfr2 by (try rewrite Hl1; lia). apply add_child_parent. exact Hlt.
    + intros j Hj Hjt. rewrite Hfr2 by (try rewrite Hl1; fold m in Hj; lia).
      apply add_child_other; auto.
    + fold m. lia.
    + constructor; auto.
    + cbn [ReprL]. split; auto. apply Repr_elem. eexists. split; [exact Hp2|].
      cbn [set_children set_parent cnew new_element c_kind c_name c_attrs c_children app].
      repeat split; auto. apply dict_of_pairs_wf. exact Ha.
  - (* <n a> void *)
    cbn [wf] in Hwf. apply andb_true_iff in Hwf as [Hwf Ha]. apply andb_true_iff in Hwf as [_ Hv].
    rewrite <- void_same in Hv. cbn [events_of]. rewrite build_single. cbn [handle]. rewrite Hv.
    apply (leaf_post t (new_element k_nest_vtag n a) top rest ctop); auto.
    intros st' Hst. eexists. split; [exact Hst|]. cbn. repeat split; auto. apply dict_of_pairs_wf. exact Ha.
  - (* <n a/> *)
    cbn [wf] in Hwf. apply andb_true_iff in Hwf as [_ Ha].
    cbn [events_of]. rewrite build_single. cbn [handle].
    apply (leaf_post t (new_element k_nest_xtag n a) top rest ctop); auto.
    intros st' Hst. eexists. split; [exact Hst|]. cbn. repeat split; auto. apply dict_of_pairs_wf. exact Ha.
  - cbn [events_of]. rewrite build_single. cbn [handle].
    apply (leaf_post t (new_terminal k_handle_data s) top rest ctop); auto.
    intros st' Hst. eexists. split; [exact Hst|]. cbn. repeat split; auto.
  - cbn [events_of]. rewrite build_single. cbn [handle].
    apply (leaf_post t (new_terminal k_handle_decl s) top rest ctop); auto.
    intros st' Hst. eexists. split; [exact Hst|]. cbn. repeat split; auto.
  - cbn [events_of]. rewrite build_single. cbn [handle].
    apply (leaf_post t (new_terminal k_handle_comment s) top rest ctop); auto.
    intros st' Hst. eexists. split; [exact Hst|]. cbn. repeat split; auto.
  - cbn [events_of]. rewrite build_single. cbn [handle].
    apply (leaf_post t (new_terminal k_handle_pi s) top rest ctop); auto.
    intros st' Hst. eexists. split; [exact Hst|]. cbn. repeat split; auto.
  - cbn [events_of]. rewrite build_single. cbn [handle].
    apply (leaf_post t (new_terminal k_handle_charref s) top rest ctop); auto.
    intros st' Hst. eexists. split; [exact Hst|]. cbn. repeat split; auto.
  - cbn [events_of]. rewrite build_single. cbn [handle].
    apply (leaf_post t (new_terminal k_handle_entityref s) top rest ctop); auto.
    intros st' Hst. eexists. split; [exact Hst|]. cbn. repeat split; auto.
Qed.

Lemma block_all hs : block_ok hs.
Proof. apply block_of_singles. apply Forall_forall. intros h _. apply single_all. Qed.

(* ---------- C16_roundtrip ---------- *)

Theorem roundtrip_events (name : str) (hs : list html) :
  wf_doc hs = true ->
  exists t, build (init_tree name) (events_doc hs) = Ok t
            /\ render_top (t_cells t) (t_outmost t) = Ok (print_doc hs).
Proof.
  intro Hwf.
  destruct (block_all hs false Hwf (init_tree name) 0 [] _ (binv_init name) eq_refl eq_refl)
    as [t [ids [Hb [B [Hs [Hp [Hfr [Hl [F R]]]]]]]]].
  exists t. split; [exact Hb|]. rewrite (b_out _ B). unfold render_top.
  pose proof (nth_error_Some_lt _ _ _ Hp) as Hlt.
  destruct (length (t_cells t)) as [|f] eqn:El; [lia|].
  rewrite render_unfold, (get_Some _ _ _ Hp). cbn [bind set_children c_children].
  cbn [init_tree t_cells new_element c_children app].
  rewrite (render_list_repr (t_cells t) (tree_ok_incr _ (b_ok _ B)) hs ids f R).
  - reflexivity.
  - intros k Hk. rewrite Forall_forall in F. specialize (F k Hk). cbn in F. lia.
Qed.

Section Oracle.
  (* html.parser: the event stream it emits for a text *)
  Variable parse : str -> list event.
  (* O_htmlparser_events: on the print of a well-formed document the parser emits its events *)
  Hypothesis O_htmlparser_events : forall hs, wf_doc hs = true -> parse (print_doc hs) = events_doc hs.

  Theorem roundtrip (name : str) (hs : list html) :
    wf_doc hs = true ->
    exists t, tokenize parse (print_doc hs) name = Ok t
              /\ render_top (t_cells t) (t_outmost t) = Ok (print_doc hs).
  Proof.
    intro Hwf. unfold tokenize. rewrite (O_htmlparser_events hs Hwf). apply roundtrip_events. exact Hwf.
  Qed.
End Oracle.

(* ---------- history: every call starts from a fresh parser state ---------- *)

Theorem session_fresh (feed : pstate -> str -> list event * pstate) :
  (forall hs, wf_doc hs = true -> fst (feed fresh_pstate (print_doc hs)) = events_doc hs) ->
  forall (calls : list (str * str)) (i : nat),
    (* no call of the sequence raises, whatever was parsed before *)
    (forall c, nth_error calls i = Some c -> exists t, nth_error (session feed calls) i = Some (Ok t))
    (* a well-formed document round-trips at any position of the sequence *)
    /\ (forall hs name, nth_error calls i = Some (print_doc hs, name) -> wf_doc hs = true ->
         exists t, nth_error (session feed calls) i = Some (Ok t)
                   /\ render_top (t_cells t) (t_outmost t) = Ok (print_doc hs)).
Proof.
  intros O calls i. unfold session. split.
  - intros c Hc. rewrite (map_nth_error _ _ _ Hc). unfold tokenize_call.
    destruct (build_total (snd c) (fst (feed fresh_pstate (fst c)))) as [t [Ht _]]. exists t. rewrite Ht. reflexivity.
  - intros hs name Hc Hwf. rewrite (map_nth_error _ _ _ Hc). unfold tokenize_call. cbn [fst snd].
    rewrite (O hs Hwf). destruct (roundtrip_events name hs Hwf) as [t [Ht Hr]]. exists t. rewrite Ht. auto.
Qed.
