(* Store-level lemmas for the model of parse_html.py: list update, allocation, append. *)
From Coq Require Import List NArith Bool Arith Lia.
From MV Require Import Base.PyStr Base.Res Html.HtmlTypes Gen.Html Html.HtmlModel.
Import ListNotations.
Local Open Scope nat_scope.

(* ---------- set_nth ---------- *)

Lemma set_nth_length {A} (l : list A) i x : length (set_nth l i x) = length l.
Proof.
  revert i; induction l as [|y l IH]; intros [|i]; simpl; auto.
Qed.

Lemma nth_error_set_nth_eq {A} (l : list A) i x :
  i < length l -> nth_error (set_nth l i x) i = Some x.
Proof.
  revert i; induction l as [|y l IH]; intros [|i] H; simpl in *; try lia; auto.
  apply IH. lia.
Qed.

Lemma nth_error_set_nth_neq {A} (l : list A) i j x :
  i <> j -> nth_error (set_nth l i x) j = nth_error l j.
Proof.
  revert i j; induction l as [|y l IH]; intros [|i] [|j] H; simpl; auto; try congruence.
Qed.

Lemma set_nth_app_l {A} (l r : list A) i x :
  i < length l -> set_nth (l ++ r) i x = set_nth l i x ++ r.
Proof.
  revert i; induction l as [|y l IH]; intros [|i] H; simpl in *; try lia; auto.
  rewrite IH; auto. lia.
Qed.

Lemma set_nth_app_r {A} (l r : list A) i x :
  length l <= i -> set_nth (l ++ r) i x = l ++ set_nth r (i - length l) x.
Proof.
  revert i; induction l as [|y l IH]; intros i H; simpl in *.
  - rewrite Nat.sub_0_r. reflexivity.
  - destruct i as [|i]; [lia|]. simpl. rewrite IH; auto. lia.
Qed.

Lemma nth_error_Some_lt {A} (l : list A) i x : nth_error l i = Some x -> i < length l.
Proof. intro H. apply nth_error_Some. congruence. Qed.

Lemma nth_error_lt_Some {A} (l : list A) i : i < length l -> exists x, nth_error l i = Some x.
Proof.
  intro H. destruct (nth_error l i) eqn:E; eauto.
  apply nth_error_None in E. lia.
Qed.

(* ---------- views of the store ---------- *)

Definition children_of (st : store) (i : nat) : list nat :=
  match nth_error st i with Some c => c_children c | None => [] end.

Definition parent_of (st : store) (i : nat) : option nat :=
  match nth_error st i with Some c => c_parent c | None => None end.

Lemma get_Some st i c : nth_error st i = Some c -> get st i = Ok c.
Proof. unfold get. intros ->. reflexivity. Qed.

Lemma get_Ok st i c : get st i = Ok c -> nth_error st i = Some c.
Proof. unfold get. destruct (nth_error st i); congruence. Qed.

(* ---------- alloc + append of a fresh element ---------- *)

(* the store after  item = Cls(...); p.append(item)  *)
Definition add_child_result (st : store) (p : nat) (c cp : cell) : store :=
  set_nth (st ++ [set_parent (Some p) c]) p (set_children (c_children cp ++ [length st]) cp).

Lemma append_fresh st p c cp :
  nth_error st p = Some cp -> c_parent c = None ->
  append_child (st ++ [c]) p (length st) = Ok (add_child_result st p c cp).
Proof.
  intros Hp Hc. unfold append_child.
  assert (Hn : nth_error (st ++ [c]) (length st) = Some c).
  { rewrite nth_error_app2 by lia. rewrite Nat.sub_diag. reflexivity. }
  rewrite (get_Some _ _ _ Hn). cbn [bind]. rewrite Hc. cbn [bind].
  unfold upd at 1. rewrite (get_Some _ _ _ Hn). cbn [bind].
  rewrite set_nth_app_r by lia. rewrite Nat.sub_diag. cbn [set_nth].
  unfold upd.
  assert (Hp' : nth_error (st ++ [set_parent (Some p) c]) p = Some cp).
  { rewrite nth_error_app1; auto. eapply nth_error_Some_lt; eauto. }
  rewrite (get_Some _ _ _ Hp'). cbn [bind]. reflexivity.
Qed.

Lemma add_child_length st p c cp : length (add_child_result st p c cp) = S (length st).
Proof. unfold add_child_result. rewrite set_nth_length, app_length. simpl. lia. Qed.

Lemma add_child_new st p c cp :
  p < length st ->
  nth_error (add_child_result st p c cp) (length st) = Some (set_parent (Some p) c).
Proof.
  intro H. unfold add_child_result. rewrite nth_error_set_nth_neq by lia.
  rewrite nth_error_app2 by lia. rewrite Nat.sub_diag. reflexivity.
Qed.

Lemma add_child_parent st p c cp :
  p < length st ->
  nth_error (add_child_result st p c cp) p = Some (set_children (c_children cp ++ [length st]) cp).
Proof.
  intro H. unfold add_child_result. apply nth_error_set_nth_eq. rewrite app_length. simpl. lia.
Qed.

Lemma add_child_other st p c cp j :
  j <> p -> j < length st ->
  nth_error (add_child_result st p c cp) j = nth_error st j.
Proof.
  intros H1 H2. unfold add_child_result. rewrite nth_error_set_nth_neq by lia.
  apply nth_error_app1. exact H2.
Qed.

Lemma add_child_beyond st p c cp j :
  S (length st) <= j -> nth_error (add_child_result st p c cp) j = None.
Proof.
  intro H. apply nth_error_None. rewrite add_child_length. lia.
Qed.

(* complete case analysis of a lookup in the new store *)
Lemma add_child_cases st p c cp j x :
  nth_error st p = Some cp ->
  nth_error (add_child_result st p c cp) j = Some x ->
  (j = length st /\ x = set_parent (Some p) c)
  \/ (j = p /\ x = set_children (c_children cp ++ [length st]) cp)
  \/ (j <> p /\ j < length st /\ nth_error st j = Some x).
Proof.
  intros Hp H. pose proof (nth_error_Some_lt _ _ _ Hp) as Hlt.
  destruct (Nat.eq_dec j (length st)) as [->|Hn].
  - left. rewrite add_child_new in H by auto. split; congruence.
  - destruct (Nat.eq_dec j p) as [->|Hjp].
    + right; left. rewrite add_child_parent in H by auto. split; congruence.
    + right; right. pose proof (nth_error_Some_lt _ _ _ H) as Hl. rewrite add_child_length in Hl.
      assert (j < length st) by lia. rewrite add_child_other in H by auto. auto.
Qed.

(* ---------- the leaf/tag nesting operations in terms of add_child_result ---------- *)

Lemma nest_leaf_spec t c top rest cp :
  t_stack t = top :: rest -> nth_error (t_cells t) top = Some cp -> c_parent c = None ->
  nest_leaf t c = Ok (mktree (add_child_result (t_cells t) top c cp) (t_outmost t) (t_stack t)).
Proof.
  intros Hs Hp Hc. unfold nest_leaf, tree_last. rewrite Hs. cbn [bind alloc].
  rewrite (append_fresh _ _ _ _ Hp Hc). reflexivity.
Qed.

Lemma nest_tag_spec t name a top rest cp :
  t_stack t = top :: rest -> nth_error (t_cells t) top = Some cp ->
  nest_tag t name a =
  Ok (mktree (add_child_result (t_cells t) top (new_element k_nest_tag name a) cp) (t_outmost t)
             (length (t_cells t) :: top :: rest)).
Proof.
  intros Hs Hp. unfold nest_tag. rewrite Hs. cbn [pop bind alloc].
  rewrite (append_fresh _ _ (new_element k_nest_tag name a) _ Hp eq_refl). reflexivity.
Qed.

Lemma build_app t l1 l2 :
  build t (l1 ++ l2) = do t' <- build t l1; build t' l2.
Proof.
  revert t; induction l1 as [|e l1 IH]; intro t; simpl; auto.
  destruct (handle t e); simpl; auto.
Qed.
