(* The code regenerated from html_to_nodes.py (Gen/HtmlNodesSrc.v): refinement lemmas for option_line /
   default_html, and the C17 statements proved on the regenerated html_to_nodes / per-child step. *)
From Coq Require Import List NArith Bool Arith Lia.
From MV Require Import Base.PyStr Base.Res Html.HtmlTypes Gen.Html Gen.HtmlNodes Html.HtmlModel Html.SrcPrims Gen.HtmlSrc
  Html.HtmlStore Html.HtmlInv Html.HtmlRound Html.HtmlOps Html.HtmlIso Html.HtmlTotal Html.HtmlSrcProofs
  Html.HtmlToNodes Html.HtmlToNodesProofs Html.HtmlToNodesTotal Html.HtmlAdmonition Html.OptRead Html.OptReadProofs
  Html.NodesPrims Gen.HtmlNodesSrc.
Import ListNotations.
Local Open Scope nat_scope.

(* ---------- option_line, default_html ---------- *)

Lemma option_line_src_eq k v : option_line_src k v = option_line k v.
Proof.
  unfold option_line_src, option_line, option_value, ostr_or_empty. cbv zeta.
  set (value := match v with Some s => s | None => [] end).
  destruct (truthy value && negb (plain_fullmatch value)); reflexivity.
Qed.

Lemma option_block_src_eq keys a : option_block_src keys a = option_block keys a.
Proof.
  unfold option_block_src, option_block. f_equal. apply map_ext. intros [k v]. apply option_line_src_eq.
Qed.

Lemma default_html_src_eq text : default_html_src text = ORaw text.
Proof. reflexivity. Qed.

(* ---------- tokenize + root strip ---------- *)

Lemma feed_src_eq evs : forall t, binv t -> feed_src t evs = build t evs.
Proof.
  induction evs as [|e evs IH]; intros t B; simpl; [reflexivity|].
  rewrite handle_src_eq by (apply (b_valid _ B)).
  destruct (binv_handle t e B) as [t' [Ht' B']]. rewrite Ht'. cbn [bind]. apply IH. exact B'.
Qed.

(* with recurse=False the in-place strip does not look at its fuel *)
Lemma strip_inplace_fuel a b st el : strip_inplace (S a) st el false = strip_inplace (S b) st el false.
Proof. rewrite !strip_unfold. reflexivity. Qed.

Lemma strip_src_inplace f st el :
  strip_src (S (S f)) st el true false = do st' <- strip_inplace (S f) st el false; Ok (el, st').
Proof.
  rewrite strip_src_eq. unfold strip_ref. cbn [bind fst snd].
  rewrite (strip_inplace_fuel (S f) f). reflexivity.
Qed.

Lemma strip_src_copy f st el :
  strip_src (S (S f)) st el false false = swap_res (strip (S f) st el false false).
Proof.
  rewrite strip_src_eq. unfold strip_ref, strip.
  destruct (deepcopy (S f) st el) as [[s1 m]|e]; cbn [bind fst snd swap_res]; [|reflexivity].
  rewrite (strip_inplace_fuel (S f) f). destruct (strip_inplace (S f) s1 m false); reflexivity.
Qed.

(* the regenerated test of the all(...) *)
Lemma all_loop img adm st : forall ids,
  Forall (fun j => j < length st) ids ->
  exists b r, for_break ids (fun child (_ : bool) =>
       do n <- o_name st child; do a <- o_attrs st child;
       if orb (andb img (str_eqb n s_img)) (andb (andb adm (str_eqb n s_div)) (mem_str s_admonition (classes a)))
       then Ok (false, true) else Ok (true, false)) true = Ok (b, r)
    /\ all_convertible img adm st ids = Ok r.
Proof.
  unfold all_convertible. induction 1 as [|k ids Hk _ IH]; simpl.
  - exists false, true. auto.
  - destruct (nth_error_lt_Some _ _ Hk) as [c Hc]. unfold o_name, o_attrs. rewrite (get_Some _ _ _ Hc). cbn [bind].
    unfold convertible.
    destruct (img && str_eqb (c_name c) s_img || adm && str_eqb (c_name c) s_div && mem_str s_admonition (classes (c_attrs c)));
      cbn [fst snd].
    + exact IH.
    + exists true, false. auto.
Qed.

(* the per-child step never reports anything but the missing-src error through __ret *)
Lemma child_step_ret child st nl b st' nl' r :
  child_step_src child st nl = Ok (b, (st', nl', r)) -> r = None \/ r = Some OMissingSrc.
Proof.
  unfold child_step_src. intro H.
  destruct (o_name st child) as [n|]; [|discriminate]. cbn [bind] in H.
  destruct (str_eqb n _).
  - destruct (o_attrs st child) as [a|]; [|discriminate]. cbn [bind] in H.
    destruct (match dict_get a _ with Some (Some _) => false | _ => true end).
    + inversion H. auto.
    + inversion H. auto.
  - destruct (strip_src _ st child false false) as [[e s1]|]; [|discriminate]. cbn [bind] in H.
    destruct (o_children s1 e) as [ch|]; [|discriminate]. cbn [bind] in H.
    match type of H with (do __tr <- ?X; _) = _ => destruct X as [[title rest]|]; [|discriminate] end. cbn [bind] in H.
    destruct (o_attrs s1 child) as [a|]; [|discriminate]. cbn [bind] in H.
    match type of H with (do __acc <- ?X; _) = _ => destruct X as [[s2 nc]|]; [|discriminate] end. cbn [bind] in H.
    destruct (render_join s2 nc) as [body|]; [|discriminate]. cbn [bind] in H. inversion H. auto.
Qed.

Lemma steps_ret : forall ids st nl b st' nl' r,
  for_break ids (fun child (acc : store * list directive * option out) => let '(st0, nl0, ret0) := acc in
                  match ret0 with Some _ => Ok (true, (st0, nl0, ret0)) | None => child_step_src child st0 nl0 end)
            (st, nl, None) = Ok (b, (st', nl', r)) -> r = None \/ r = Some OMissingSrc.
Proof.
  induction ids as [|k ids IH]; intros st nl b st' nl' r H; simpl in H.
  - inversion H. auto.
  - destruct (child_step_src k st nl) as [[b1 [[s1 n1] r1]]|] eqn:E; [|discriminate]. cbn [bind fst snd] in H.
    destruct b1.
    + inversion H; subst. eapply child_step_ret; eauto.
    + destruct (child_step_ret _ _ _ _ _ _ _ E) as [Hr|Hr]; subst r1.
      * eapply IH; eauto.
      * (* a later step sees the pending return and stops *)
        destruct ids as [|k2 ids2]; simpl in H; [inversion H; auto|]. cbn [bind fst snd] in H. inversion H. auto.
Qed.

(* C17_passthrough for the regenerated html_to_nodes *)
Theorem passthrough_src (parse : str -> list event) (gfm img adm : bool) (text : str) :
  let t' := filtered gfm text in
  let o := html_to_nodes_src parse gfm img adm text in
  (img = false -> adm = false -> o = ORaw t')
  /\ (forall x, o <> OWarnRaw x)
  /\ (o = ORaw t'
      \/ exists t st croot,
           tokenize parse t' [] = Ok t
           /\ strip_inplace (S (length (t_cells t))) (t_cells t) (t_outmost t) false = Ok st
           /\ get st (t_outmost t) = Ok croot
           /\ c_children croot <> []
           /\ all_convertible img adm st (c_children croot) = Ok true
           /\ (img || adm) = true).
Proof.
  cbv zeta. unfold html_to_nodes_src, html_to_nodes_res, filtered. cbv zeta.
  set (t' := if gfm then gfm_filter text else text).
  destruct (img || adm) eqn:Eia; cbn [negb].
  2:{ rewrite default_html_src_eq. split; [reflexivity|]. split; [discriminate|]. left. reflexivity. }
  destruct (build_total [] (parse t')) as [t [Ht _]]. pose proof (build_binv _ _ _ Ht) as B.
  destruct (strip_root_ok t B) as [st [croot [Hst [Hroot Hvalid]]]].
  unfold tokenize_src. change (clear_src (tree_init_src []) []) with (init_tree []).
  rewrite feed_src_eq by apply binv_init. rewrite Ht. cbn [bind].
  rewrite strip_src_inplace. cbn [t_cells t_outmost]. rewrite Hst. cbn [bind].
  unfold o_children. rewrite !Hroot. cbn [bind].
  assert (Htok : tokenize parse t' [] = Ok t) by exact Ht.
  split; [intros -> ->; discriminate|].
  destruct (c_children croot) as [|k ks] eqn:Ech.
  { cbn [length Nat.ltb Nat.leb]. rewrite default_html_src_eq. split; [discriminate|]. left. reflexivity. }
  cbn [length Nat.ltb Nat.leb].
  destruct (all_loop img adm st (k :: ks) Hvalid) as [b [r [Hloop Hall]]].
  change [105; 109; 103]%N with s_img. change [100; 105; 118]%N with s_div.
  change [97; 100; 109; 111; 110; 105; 116; 105; 111; 110]%N with s_admonition.
  rewrite Hloop. cbn [bind snd]. destruct r; cbn [negb].
  2:{ rewrite default_html_src_eq. split; [discriminate|]. left. reflexivity. }
  match goal with |- context [for_break (k :: ks) ?f ?i] => destruct (for_break (k :: ks) f i) as [[b2 [[s2 nl2] r2]]|e] eqn:Ef end;
    cbn [bind snd].
  - destruct (steps_ret _ _ _ _ _ _ _ Ef) as [Hr|Hr]; subst r2.
    + split; [discriminate|]. right. exists t, st, croot. rewrite Ech. repeat split; auto. discriminate.
    + split; [discriminate|]. right. exists t, st, croot. rewrite Ech. repeat split; auto. discriminate.
  - split; [discriminate|]. right. exists t, st, croot. rewrite Ech. repeat split; auto. discriminate.
Qed.

(* ---------- <img>: the regenerated step builds the model's directive ---------- *)

Theorem img_step_src (st : store) (child : nat) (c : cell) (src : str) (nl : list directive) :
  get st child = Ok c -> c_name c = s_img -> dict_get (c_attrs c) s_src = Some (Some src) ->
  child_step_src child st nl
  = Ok (false, (st, nl ++ [mkdir s_image src (option_block option_keys_image (c_attrs c))], None)).
Proof.
  intros Hc Hn Hs. unfold child_step_src, o_name, o_attrs. rewrite Hc. cbn [bind]. rewrite Hn.
  change [105; 109; 103]%N with s_img. rewrite str_eqb_refl.
  change [115; 114; 99]%N with s_src. rewrite Hs. cbn iota.
  unfold attr_getitem. rewrite Hs. cbn [ostr_val]. rewrite option_block_src_eq. reflexivity.
Qed.

(* ---------- <div class=admonition>: the regenerated step builds spec_admonition ---------- *)

Lemma iso_repr s : forall h g k k', iso g s k k' -> Repr s k h -> Repr s k' h.
Proof.
  intro h. induction h using html_ind2; intros g k k' Hi R; (destruct g as [|g]; [destruct Hi|]);
    cbn [iso] in Hi; destruct Hi as [c [c' [Hc [Hc' [[Hk [Hn [Ha Hd]]] Hch]]]]].
  - apply Repr_elem in R. apply Repr_elem. destruct R as [c0 [Hc0 [R1 [R2 [R3 R4]]]]].
    rewrite Hc in Hc0. inversion Hc0; subst c0. exists c'. split; [exact Hc'|].
    split; [congruence|]. split; [congruence|]. split; [congruence|].
    clear Hc Hc' Hk Hn Ha Hd R1 R2 R3 Hc0. revert R4 Hch. generalize (c_children c) (c_children c').
    induction H as [|x r Hx _ IHr]; intros l l' R4 Hch; simpl in *.
    + subst l. inversion Hch. reflexivity.
    + destruct l as [|y l]; [destruct R4|]. destruct R4 as [Ra Rl]. inversion Hch as [|? b ? l2 Hab Hl2]; subst.
      split; [eapply Hx; eauto|eapply IHr; eauto].
  - destruct R as [c0 [Hc0 [R1 [R2 [R3 R4]]]]]. rewrite Hc in Hc0. inversion Hc0; subst c0.
    exists c'. split; [exact Hc'|]. rewrite R4 in Hch. inversion Hch. repeat split; congruence.
  - destruct R as [c0 [Hc0 [R1 [R2 [R3 R4]]]]]. rewrite Hc in Hc0. inversion Hc0; subst c0.
    exists c'. split; [exact Hc'|]. rewrite R4 in Hch. inversion Hch. repeat split; congruence.
  - destruct R as [c0 [Hc0 [R1 [R2 R3]]]]. rewrite Hc in Hc0. inversion Hc0; subst c0.
    exists c'. split; [exact Hc'|]. rewrite R3 in Hch. inversion Hch. repeat split; congruence.
  - destruct R as [c0 [Hc0 [R1 [R2 R3]]]]. rewrite Hc in Hc0. inversion Hc0; subst c0.
    exists c'. split; [exact Hc'|]. rewrite R3 in Hch. inversion Hch. repeat split; congruence.
  - destruct R as [c0 [Hc0 [R1 [R2 R3]]]]. rewrite Hc in Hc0. inversion Hc0; subst c0.
    exists c'. split; [exact Hc'|]. rewrite R3 in Hch. inversion Hch. repeat split; congruence.
  - destruct R as [c0 [Hc0 [R1 [R2 R3]]]]. rewrite Hc in Hc0. inversion Hc0; subst c0.
    exists c'. split; [exact Hc'|]. rewrite R3 in Hch. inversion Hch. repeat split; congruence.
  - destruct R as [c0 [Hc0 [R1 [R2 R3]]]]. rewrite Hc in Hc0. inversion Hc0; subst c0.
    exists c'. split; [exact Hc'|]. rewrite R3 in Hch. inversion Hch. repeat split; congruence.
  - destruct R as [c0 [Hc0 [R1 [R2 R3]]]]. rewrite Hc in Hc0. inversion Hc0; subst c0.
    exists c'. split; [exact Hc'|]. rewrite R3 in Hch. inversion Hch. repeat split; congruence.
Qed.

Lemma reprL_iso s g : forall hs ids ids', Forall2 (iso g s) ids ids' -> ReprL s ids hs -> ReprL s ids' hs.
Proof.
  induction hs as [|h hs IH]; intros ids ids' F R; simpl in *.
  - subst. inversion F. reflexivity.
  - destruct ids as [|k ids]; [destruct R|]. destruct R as [Rk Rr]. inversion F as [|? k' ? l' Hkk' F']; subst.
    split; [eapply iso_repr; eauto|eapply IH; eauto].
Qed.

(* what the flattened child list represents *)
Definition flat_list (h : html) : list html :=
  if str_eqb (h_name h) s_p then h_children h ++ [HData [10%N; 10%N]] else [h].

Lemma print_doc_app a b : print_doc (a ++ b) = print_doc a ++ print_doc b.
Proof. induction a as [|x a IH]; simpl; [reflexivity|]. rewrite IH, app_assoc. reflexivity. Qed.

Lemma print_flat h : print_doc (flat_list h) = flat_html h.
Proof.
  unfold flat_list, flat_html. destruct (str_eqb (h_name h) s_p).
  - rewrite print_doc_app. simpl. reflexivity.
  - simpl. rewrite app_nil_r. reflexivity.
Qed.

Lemma print_flat_all hs : print_doc (flat_map flat_list hs) = concat (map flat_html hs).
Proof.
  induction hs as [|h hs IH]; simpl; [reflexivity|]. rewrite print_doc_app, print_flat, IH. reflexivity.
Qed.

Lemma ReprL_app' s : forall h1 i1 h2 i2, ReprL s i1 h1 -> ReprL s i2 h2 -> ReprL s (i1 ++ i2) (h1 ++ h2).
Proof.
  induction h1 as [|x r IH]; intros i1 h2 i2 H1 H2; simpl in *.
  - subst. exact H2.
  - destruct i1 as [|k i1]; [destruct H1|]. destruct H1 as [Hk Hr]. simpl. split; auto.
Qed.

Lemma ReprL_snoc_extends s c : forall hs ids, incr s -> ReprL s ids hs -> ReprL (s ++ [c]) ids hs.
Proof.
  intros hs ids Hi R. apply (ReprL_frame s (s ++ [c]) 0); auto.
  - intros j _ Hj. apply nth_error_app1. exact Hj.
  - apply Forall_forall. intros; lia.
Qed.

(* the loop over the remaining children: <p> -> its children + a new Data("\n\n") *)
Lemma flatten_loop : forall hs ids s nc done,
  incr s -> vc s -> cells_ok s -> ReprL s ids hs -> ReprL s nc done ->
  exists s' nc',
    for_res ids (fun child (acc : store * list nat) => let '(st0, new_children) := acc in
       do n <- o_name st0 child;
       if str_eqb n s_p
       then do c <- o_children st0 child;
            let '(v, st1) := st_new st0 (new_terminal KData [10%N; 10%N]) in
            Ok (st1, (new_children ++ c) ++ [v])
       else Ok (st0, new_children ++ [child])) (s, nc) = Ok (s', nc')
    /\ incr s' /\ ReprL s' nc' (done ++ flat_map flat_list hs).
Proof.
  induction hs as [|h hs IH]; intros ids s nc done Hi Hv Hok R Rd; simpl in R.
  - subst ids. simpl. exists s, nc. rewrite app_nil_r. auto.
  - destruct ids as [|k ids]; [destruct R|]. destruct R as [Rk Rr]. cbn [for_res flat_map].
    destruct (repr_cell s I k h Hok Rk eq_refl) as [c [Hc [Hn [_ Hch]]]].
    unfold o_name, o_children. rewrite (get_Some _ _ _ Hc). cbn [bind]. rewrite Hn. unfold flat_list at 1.
    destruct (str_eqb (h_name h) s_p); cbn [bind st_new].
    + set (d := new_terminal KData [10%N; 10%N]).
      assert (Hi' : incr (s ++ [d])) by (apply incr_snoc; auto).
      assert (Hv' : vc (s ++ [d])) by (apply vc_snoc; auto).
      assert (Hok' : cells_ok (s ++ [d])) by (apply cells_ok_snoc; auto; apply cell_ok_new_terminal; reflexivity).
      assert (Rd' : ReprL (s ++ [d]) ((nc ++ c_children c) ++ [length s]) ((done ++ h_children h) ++ [HData [10%N; 10%N]])).
      { apply ReprL_app'; [apply ReprL_app'; apply ReprL_snoc_extends; auto|].
        simpl. split; [|reflexivity]. exists d. split; [rewrite nth_error_app2 by lia; rewrite Nat.sub_diag; reflexivity|].
        repeat split. }
      destruct (IH ids (s ++ [d]) _ _ Hi' Hv' Hok' (ReprL_snoc_extends s d _ _ Hi Rr) Rd') as [s' [nc' [Hl [Hi2 R2]]]].
      exists s', nc'. split; [exact Hl|]. split; [exact Hi2|]. rewrite <- !app_assoc in R2. rewrite <- app_assoc. exact R2.
    + assert (Rd' : ReprL s (nc ++ [k]) (done ++ [h])) by (apply ReprL_app'; simpl; auto).
      destruct (IH ids s _ _ Hi Hv Hok Rr Rd') as [s' [nc' [Hl [Hi2 R2]]]].
      exists s', nc'. split; [exact Hl|]. split; [exact Hi2|]. rewrite <- app_assoc in R2. exact R2.
Qed.

Lemma strip_inplace_cells_ok f s el s' :
  cells_ok s -> strip_inplace (S f) s el false = Ok s' -> cells_ok s'.
Proof.
  intros Hok0 Es. rewrite strip_unfold in Es. destruct (get s el) as [cn|] eqn:Egn; [|discriminate]. cbn [bind] in Es.
  destruct (keep_children s (c_children cn)) as [kept|] eqn:Ek; [|discriminate]. cbn [bind] in Es.
  unfold reset_children in Es. destruct (adopt s el kept) as [sa|] eqn:Ea; [|discriminate]. cbn [bind] in Es.
  destruct (adopt_shape _ _ _ _ Ea) as [La Pa]. unfold upd in Es. destruct (get sa el) as [ca|] eqn:Ega; [|discriminate].
  cbn [bind] in Es. inversion Es; subst s'. apply get_Ok in Egn, Ega.
  intros x y Hy. destruct (Nat.eq_dec el x) as [<-|Hne].
  - rewrite nth_error_set_nth_eq in Hy by (eapply nth_error_Some_lt; eauto). inversion Hy; subst y.
    destruct (Pa el cn Egn) as [c2 [Hc2 [[S1 [S2 [S3 S4]]] _]]]. rewrite Ega in Hc2. inversion Hc2; subst c2.
    destruct (Hok0 _ _ Egn) as [O1 [O2 O3]]. split; simpl; [congruence|]. split.
    + intro T. rewrite <- S1 in T. destruct (O2 T) as [A [B C]]. split; [congruence|]. split; [congruence|].
      destruct kept as [|k0 ks0]; [reflexivity|]. exfalso.
      assert (Hin : In k0 (c_children cn)) by (eapply keep_children_sub; [exact Ek|simpl; auto]). rewrite C in Hin. destruct Hin.
    + intro T. rewrite <- S4. apply O3. rewrite S1. exact T.
  - rewrite nth_error_set_nth_neq in Hy by exact Hne.
    destruct (nth_error_lt_Some s x) as [y0 Hy0]; [rewrite <- La; eapply nth_error_Some_lt; eauto|].
    destruct (Pa x y0 Hy0) as [y2 [Hy2 [[S1 [S2 [S3 S4]]] Sc]]]. rewrite Hy2 in Hy. inversion Hy; subst y2.
    destruct (Hok0 _ _ Hy0) as [O1 [O2 O3]]. split; [congruence|]. split.
    + intro T. rewrite <- S1 in T. destruct (O2 T) as [? [? ?]]. rewrite <- S2, <- S3, <- Sc. auto.
    + intro T. rewrite <- S4. apply O3. rewrite S1. exact T.
Qed.

Theorem admonition_step_src (st : store) (child : nat) (nm : str) (a : attrs) (ch : list html) (nl : list directive) :
  good st -> cells_ok st -> Repr st child (HElem nm a ch) -> str_eqb nm s_img = false ->
  exists st', child_step_src child st nl = Ok (false, (st', nl ++ [spec_admonition a ch], None)).
Proof.
  intros Hgood Hok R Hnm. pose proof R as R0. apply Repr_elem in R. destruct R as [c [Hc [_ [Hn [Ha Hr]]]]].
  pose proof (nth_error_Some_lt _ _ _ Hc) as Hl.
  destruct (strip_copy_total st child Hgood Hl) as [st1 [n [Hs [Hg1 [Hnlt Hpre]]]]].
  assert (Hs' : strip_top st child false false = Ok (st1, n)) by exact Hs.
  destruct (strip_copy_exact st child st1 n (proj2 Hgood) Hok Hs') as [Hnl [c0 [c' [Hc0 [_ [Hc' [_ Hiso]]]]]]].
  assert (c0 = c) by congruence. subst c0.
  assert (Hlen : length st <= length st1) by lia.
  assert (Hok1 : cells_ok st1).
  { unfold strip_top, strip in Hs'. destruct (deepcopy (S (length st)) st child) as [[s0 m]|] eqn:Ed; [|discriminate].
    cbn [bind fst snd] in Hs'. destruct (strip_inplace (S (length st)) s0 m false) as [s2|] eqn:Es; [|discriminate].
    cbn [bind] in Hs'. inversion Hs'; subst s2 m.
    destruct (deepcopy_iso _ _ _ _ _ (proj2 Hgood) Hok Ed) as [_ [_ [_ [_ [Hok0 _]]]]].
    eapply strip_inplace_cells_ok; eauto. }
  (* the regenerated step *)
  unfold child_step_src. unfold o_name at 1. rewrite (get_Some _ _ _ Hc). cbn [bind]. rewrite Hn.
  change [105; 109; 103]%N with s_img. rewrite Hnm.
  rewrite strip_src_copy. unfold strip_top in Hs'. rewrite Hs'. cbn [swap_res bind].
  unfold o_children at 1. rewrite (get_Some _ _ _ Hc'). cbn [bind].
  (* the kept children of the copy represent the non-blank children *)
  pose proof (reprL_filter st ch (c_children c) Hr) as Rk.
  set (kept := filter (fun h => negb (ws_html h)) ch) in *.
  assert (Rk1 : ReprL st1 (c_children c') kept).
  { eapply reprL_iso; [exact Hiso|]. apply (reprL_up st st1 Hgood Hpre Hlen). exact Rk. }
  unfold spec_admonition. fold kept. rewrite <- Ha.
  destruct Hg1 as [Hi1 Hv1].
  (* title *)
  assert (T : exists rest_ids rest_hs title,
     (match c_children c' with
      | first :: rest => do n0 <- o_name st1 first; do a0 <- o_attrs st1 first;
          if (orb (str_eqb n0 s_div) (str_eqb n0 s_p)) && (orb (mem_str s_title (classes a0)) (mem_str s_admonition_title (classes a0)))
          then do k <- o_children st1 first; do t <- render_join st1 k; Ok (t, rest)
          else Ok (s_note, c_children c')
      | [] => Ok (s_note, c_children c') end) = Ok (title, rest_ids)
     /\ ReprL st1 rest_ids rest_hs
     /\ (title, rest_hs) = match kept with
                           | first :: rest => if is_title_html first then (print_doc (h_children first), rest) else (s_note, kept)
                           | [] => (s_note, kept)
                           end).
  { destruct kept as [|fh rh]; simpl in Rk1.
    - rewrite Rk1. exists [], [], s_note. repeat split.
    - destruct (c_children c') as [|k ids]; [destruct Rk1|]. destruct Rk1 as [Rf Rr].
      destruct (repr_cell st1 I k fh Hok1 Rf eq_refl) as [cf [Hcf [Hnf [Haf Hchf]]]].
      unfold o_name, o_attrs, o_children. rewrite (get_Some _ _ _ Hcf). cbn [bind]. rewrite Hnf, Haf.
      unfold is_title_html. destruct ((str_eqb (h_name fh) s_div || str_eqb (h_name fh) s_p)
                  && (mem_str s_title (classes (h_attrs fh)) || mem_str s_admonition_title (classes (h_attrs fh)))).
      + unfold render_join. rewrite (render_list_repr st1 Hi1 _ _ _ Hchf) by (intros; lia). cbn [bind].
        exists ids, rh, (print_doc (h_children fh)). repeat split; auto.
      + exists (k :: ids), (fh :: rh), s_note. repeat split; simpl; auto. }
  destruct T as [rest_ids [rest_hs [title [HT [Rrest Etr]]]]].
  change [97; 100; 109; 111; 110; 105; 116; 105; 111; 110; 45; 116; 105; 116; 108; 101]%N with s_admonition_title.
  change [100; 105; 118]%N with s_div. change [112]%N with s_p. change [116; 105; 116; 108; 101]%N with s_title.
  change [78; 111; 116; 101]%N with s_note. cbv zeta.
  destruct (flatten_loop rest_hs rest_ids st1 [] [] Hi1 Hv1 Hok1 Rrest eq_refl) as [s2 [nc [Hloop [Hi2 R2]]]].
  exists s2.
  match goal with |- bind ?m _ = _ => replace m with (@Ok (str * list nat) (title, rest_ids)) by (symmetry; exact HT) end.
  cbn [bind].
  unfold o_attrs. rewrite (get_Some _ _ _ (eq_trans (Hpre child Hl) Hc)). cbn [bind].
  rewrite option_block_src_eq.
  rewrite Hloop. cbn [bind].
  unfold render_join. rewrite (render_list_repr s2 Hi2 _ _ _ R2) by (intros; lia). cbn [bind app].
  rewrite print_flat_all.
  change [97; 100; 109; 111; 110; 105; 116; 105; 111; 110]%N with s_admonition.
  destruct kept as [|fh rh]; inversion Etr; subst; reflexivity.
Qed.

(* C17_img_equiv for the regenerated step *)
Theorem img_equiv_src (st : store) (child : nat) (c : cell) (src : str) (nl : list directive) :
  get st child = Ok c -> c_name c = s_img -> dict_get (c_attrs c) s_src = Some (Some src) ->
  let opts := filter (fun kv => mem_str (fst kv) option_keys_image) (sorted_items (c_attrs c)) in
  exists d, child_step_src child st nl = Ok (false, (st, nl ++ [d], None))
            /\ d_name d = s_image /\ d_first d = src
            /\ d_content d = join [10%N] (map (fun kv => [58%N] ++ yaml_line kv) opts)
            /\ options_to_items (yaml_block opts)
               = RdOk (map (fun kv => (fst kv, value_or_empty (snd kv))) opts).
Proof.
  intros Hc Hn Hs opts. destruct (img_equiv c src Hs) as [d [Hd [H1 [H2 [H3 H4]]]]].
  exists d. split; [|auto]. rewrite (img_step_src st child c src nl Hc Hn Hs).
  unfold img_directive in Hd. rewrite Hs in Hd. inversion Hd. reflexivity.
Qed.
