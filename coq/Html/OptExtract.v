(* Model of the option-block extraction in directives._parse_directive_options for content
   that starts with ':' (split_lines, take the leading lines that start with ':', strip the
   colon), and the proof that the content written by html_to_nodes yields the YAML block that
   OptRead reads.  Model first (executable), proofs below. *)
From Coq Require Import List NArith Bool Arith Lia.
From MV Require Import Base.PyStr Base.Res Html.HtmlTypes Gen.Html Gen.HtmlNodes Html.HtmlModel Html.HtmlToNodes
  Html.OptRead Html.OptReadProofs.
Import ListNotations.
Local Open Scope N_scope.

(* _RE_NEWLINE.split(text):  \r\n | \r | \n *)
Fixpoint split_nl (s : str) (cur : str) : list str :=
  match s with
  | [] => [rev cur]
  | c :: r =>
      if N.eqb c 10 then rev cur :: split_nl r []
      else if N.eqb c 13 then
        rev cur :: match r with
                   | d :: r' => if N.eqb d 10 then split_nl r' [] else split_nl r []
                   | [] => split_nl r []
                   end
      else split_nl r (c :: cur)
  end.

(* if lines[-1] == "": lines.pop() *)
Fixpoint drop_last_empty (l : list str) : list str :=
  match l with
  | [] => []
  | [x] => match x with [] => [] | _ => [x] end
  | x :: r => x :: drop_last_empty r
  end.

Definition split_lines (s : str) : list str := drop_last_empty (split_nl s []).

(* line.lstrip().startswith(":") *)
Definition starts_colon (l : str) : bool :=
  match lstrip l with c :: _ => N.eqb c 58 | [] => false end.

(* the while loop: leading option lines with their colon removed, and the remaining lines *)
Fixpoint take_opts (lines : list str) : list str * list str :=
  match lines with
  | l :: r => if starts_colon l
              then let yr := take_opts r in (tl (lstrip l) :: fst yr, snd yr)
              else ([], lines)
  | [] => ([], [])
  end.

Definition s_dashes : str := [45; 45; 45].

(* (options_block, remaining content lines); None = no option block / the "---" form (not modelled) *)
Definition extract_options (content : str) : option (str * list str) :=
  if startswith content s_dashes then None
  else if starts_colon content then
    let yr := take_opts (split_lines content) in Some (join [10] (fst yr), snd yr)
  else None.

(* ------------------------------------------------------------------ proofs *)

Definition no_nl (l : str) : bool := forallb (fun c => negb (N.eqb c 10 || N.eqb c 13)) l.

Lemma split_nl_line : forall l cur r, no_nl l = true ->
  split_nl (l ++ 10 :: r) cur = (rev cur ++ l) :: split_nl r [].
Proof.
  induction l as [|c l IH]; intros cur r H; simpl.
  - rewrite app_nil_r. reflexivity.
  - simpl in H. apply andb_true_iff in H as [Hc Hl]. apply negb_true_iff in Hc. apply orb_false_iff in Hc as [H10 H13].
    rewrite H10, H13. rewrite IH by exact Hl. simpl. rewrite <- app_assoc. reflexivity.
Qed.

Lemma split_nl_last : forall l cur, no_nl l = true -> split_nl l cur = [rev cur ++ l].
Proof.
  induction l as [|c l IH]; intros cur H; simpl.
  - rewrite app_nil_r. reflexivity.
  - simpl in H. apply andb_true_iff in H as [Hc Hl]. apply negb_true_iff in Hc. apply orb_false_iff in Hc as [H10 H13].
    rewrite H10, H13. rewrite IH by exact Hl. simpl. rewrite <- app_assoc. reflexivity.
Qed.

Lemma drop_last_empty_cons x (r : list str) : r <> [] -> drop_last_empty (x :: r) = x :: drop_last_empty r.
Proof. destruct r; [congruence|reflexivity]. Qed.

Lemma split_nl_nonempty s cur : split_nl s cur <> [].
Proof.
  revert cur. induction s as [|c s IH]; intro cur; simpl; [discriminate|].
  destruct (N.eqb c 10); [discriminate|]. destruct (N.eqb c 13); [discriminate|]. apply IH.
Qed.

Lemma starts_colon_line y : starts_colon (58 :: y) = true /\ tl (lstrip (58 :: y)) = y.
Proof. unfold starts_colon. split; reflexivity. Qed.

(* the lines of  ":y1\n:y2\n...:yn" ++ tail *)
Lemma take_opts_block : forall ylines rest,
  (match rest with [] => True | l :: _ => starts_colon l = false end) ->
  take_opts (map (cons 58) ylines ++ rest) = (ylines, rest).
Proof.
  induction ylines as [|y ys IH]; intros rest Hr; cbn [map app].
  - destruct rest as [|l r]; [reflexivity|]. cbn [take_opts]. rewrite Hr. reflexivity.
  - destruct (starts_colon_line y) as [H1 H2]. cbn [take_opts]. rewrite H1, H2. rewrite IH by exact Hr. reflexivity.
Qed.

Definition block_text (ylines : list str) : str := join [10] (map (cons 58) ylines).

Lemma split_nl_line' y r : no_nl y = true -> split_nl (58 :: y ++ 10 :: r) [] = (58 :: y) :: split_nl r [].
Proof. intro H. apply (split_nl_line (58 :: y) [] r). simpl. exact H. Qed.

Lemma split_nl_last' y : no_nl y = true -> split_nl (58 :: y) [] = [58 :: y].
Proof. intro H. apply (split_nl_last (58 :: y) []). simpl. exact H. Qed.

Lemma block_text_cons y y2 ys :
  block_text (y :: y2 :: ys) = 58 :: y ++ 10 :: block_text (y2 :: ys).
Proof. reflexivity. Qed.

Lemma split_block : forall ylines tail_lines t,
  ylines <> [] -> Forall (fun y => no_nl y = true) ylines ->
  (t = [] /\ tail_lines = [] \/ exists body, t = 10 :: 10 :: body /\ tail_lines = [] :: split_nl body []) ->
  split_nl (block_text ylines ++ t) [] = map (cons 58) ylines ++ tail_lines.
Proof.
  induction ylines as [|y ys IH]; intros tl0 t Hne F Ht; [congruence|].
  inversion F as [|? ? Hy Fys]; subst. destruct ys as [|y2 ys].
  - unfold block_text. cbn [map join]. destruct Ht as [[-> ->]|[body [-> ->]]].
    + rewrite !app_nil_r. apply split_nl_last'. exact Hy.
    + change ((58 :: y) ++ 10 :: 10 :: body) with (58 :: y ++ 10 :: (10 :: body)).
      rewrite split_nl_line' by exact Hy. reflexivity.
  - rewrite block_text_cons. cbn [app]. rewrite <- app_assoc. cbn [app].
    rewrite split_nl_line' by exact Hy. cbn [map app]. f_equal. apply (IH tl0 t); auto. discriminate.
Qed.

Lemma drop_last_opts : forall ylines, ylines <> [] -> drop_last_empty (map (cons 58) ylines) = map (cons 58) ylines.
Proof.
  induction ylines as [|y ys IH]; intro H; [congruence|]. destruct ys as [|y2 ys]; [reflexivity|].
  cbn [map]. rewrite drop_last_empty_cons by discriminate. f_equal. apply IH. discriminate.
Qed.

Lemma drop_last_app : forall (a b : list str), b <> [] -> drop_last_empty (a ++ b) = a ++ drop_last_empty b.
Proof.
  induction a as [|x a IH]; intros b Hb; [reflexivity|]. cbn [app].
  rewrite drop_last_empty_cons by (destruct a; simpl; [exact Hb|discriminate]). f_equal. apply IH. exact Hb.
Qed.

(* the extraction step on the content written by html_to_nodes: option lines, then nothing or a
   blank line and the body *)
Theorem extract_block (ylines : list str) (t : str) :
  ylines <> [] -> Forall (fun y => no_nl y = true) ylines ->
  (t = [] \/ exists body, t = 10 :: 10 :: body) ->
  exists rest, extract_options (block_text ylines ++ t) = Some (join [10] ylines, rest).
Proof.
  intros Hne F Ht. unfold extract_options.
  assert (Hhd : exists r0, block_text ylines ++ t = 58 :: r0).
  { destruct ylines as [|y ys]; [congruence|]. unfold block_text. destruct ys; cbn [map join app]; eexists; reflexivity. }
  destruct Hhd as [r0 Hhd]. rewrite Hhd.
  change (startswith (58 :: r0) s_dashes) with false. cbn iota.
  change (starts_colon (58 :: r0)) with true. cbn iota. rewrite <- Hhd.
  unfold split_lines. destruct Ht as [->|[body ->]].
  - rewrite (split_block ylines [] []) by auto. rewrite app_nil_r.
    rewrite drop_last_opts by exact Hne.
    rewrite <- (app_nil_r (map (cons 58) ylines)). rewrite take_opts_block by exact I. eexists. reflexivity.
  - rewrite (split_block ylines ([] :: split_nl body []) (10 :: 10 :: body)); auto.
    2:{ right. exists body. auto. }
    rewrite drop_last_app by discriminate.
    assert (Hd : exists X, drop_last_empty ([] :: split_nl body []) = [] :: X).
    { rewrite drop_last_empty_cons by apply split_nl_nonempty. eauto. }
    destruct Hd as [X ->]. rewrite take_opts_block by reflexivity. eexists. reflexivity.
Qed.

(* option values never contain a line break, so every option line is one line *)
Lemma hexdigit_no_nl d : (d <? 16) = true -> negb (N.eqb (hexdigit d) 10 || N.eqb (hexdigit d) 13) = true.
Proof.
  intro H. apply N.ltb_lt in H. unfold hexdigit. destruct (d <? 10) eqn:E.
  - apply N.ltb_lt in E. apply negb_true_iff. apply orb_false_iff. split; apply N.eqb_neq; lia.
  - apply N.ltb_ge in E. apply negb_true_iff. apply orb_false_iff. split; apply N.eqb_neq; lia.
Qed.

Lemma G_escape_no_nl : forallb (fun c => no_nl (escape_prefix ++ hex_pad escape_width c)) escape_set = true.
Proof. vm_compute. reflexivity. Qed.

Lemma no_nl_app a b : no_nl (a ++ b) = no_nl a && no_nl b.
Proof. unfold no_nl. apply forallb_app. Qed.

Lemma escape_no_nl v : no_nl (escape_value v) = true.
Proof.
  induction v as [|c v IH]; [reflexivity|]. unfold escape_value in *. cbn [flat_map]. rewrite no_nl_app, IH, andb_true_r.
  destruct (mem_N c escape_set) eqn:E.
  - pose proof G_escape_no_nl as G. rewrite forallb_forall in G. apply G. apply mem_N_In. exact E.
  - simpl. rewrite andb_true_r. apply negb_true_iff. apply orb_false_iff.
    split; apply N.eqb_neq; apply (not_escaped_not c _ E); simpl; tauto.
Qed.

Lemma plain_tail_no_nl : forall r b, plain_tail b r = true -> no_nl r = true.
Proof.
  induction r as [|c r IH]; intros b H; [reflexivity|]. cbn [plain_tail] in H. simpl.
  destruct (plain_restc c) eqn:Ec.
  - rewrite (IH _ H), andb_true_r. apply negb_true_iff. apply orb_false_iff.
    split; apply N.eqb_neq; apply (restc_not_special c _ Ec); simpl; tauto.
  - destruct (N.eqb c plain_sep && negb b) eqn:Es; [|discriminate].
    apply andb_true_iff in Es as [Es _]. apply N.eqb_eq in Es. rewrite G_sep in Es. subst c.
    rewrite (IH _ H). reflexivity.
Qed.

Lemma option_value_no_nl v : no_nl (option_value v) = true.
Proof.
  unfold option_value. destruct (match v with Some s => s | None => [] end) as [|c r] eqn:E; [reflexivity|].
  cbn [truthy andb]. destruct (plain_fullmatch (c :: r)) eqn:Ep; cbn [negb].
  - cbn [plain_fullmatch] in Ep. apply andb_true_iff in Ep as [Ec Er]. simpl. rewrite (plain_tail_no_nl _ _ Er), andb_true_r.
    apply negb_true_iff. apply orb_false_iff. split; apply N.eqb_neq; apply (firstc_not_special c _ Ec); simpl; tauto.
  - rewrite G_quote. rewrite !no_nl_app, escape_no_nl. reflexivity.
Qed.

Lemma key_no_nl k : forallb key_char k = true -> no_nl k = true.
Proof.
  induction k as [|c k IH]; intro H; [reflexivity|]. simpl in H. apply andb_true_iff in H as [Hc Hk].
  simpl. rewrite (IH Hk), andb_true_r. apply negb_true_iff. apply orb_false_iff.
  split; apply N.eqb_neq; intro E; subst c; vm_compute in Hc; discriminate.
Qed.

Lemma yaml_line_no_nl kv : wf_key (fst kv) = true -> no_nl (yaml_line kv) = true.
Proof.
  intro H. unfold wf_key in H. apply andb_true_iff in H as [_ H]. unfold yaml_line.
  rewrite !no_nl_app, (key_no_nl _ H), option_value_no_nl. reflexivity.
Qed.

(* <img>: the whole content is the option block; the extraction gives the YAML block, which the
   reader turns back into the attribute values *)
Theorem img_content_extracted (kvs : attrs) :
  kvs <> [] -> Forall (fun kv => wf_key (fst kv) = true) kvs ->
  exists rest, extract_options (join [10] (map (fun kv => [58] ++ yaml_line kv) kvs))
               = Some (yaml_block kvs, rest).
Proof.
  intros Hne F.
  assert (E : join [10] (map (fun kv => [58] ++ yaml_line kv) kvs) = block_text (map yaml_line kvs) ++ []).
  { rewrite app_nil_r. unfold block_text. rewrite map_map. reflexivity. }
  rewrite E. apply extract_block.
  - destruct kvs; [congruence|discriminate].
  - apply Forall_forall. intros y Hy. apply in_map_iff in Hy as [kv [<- Hkv]]. apply yaml_line_no_nl.
    rewrite Forall_forall in F. apply F. exact Hkv.
  - left. reflexivity.
Qed.

Theorem option_block_extracted (kvs : attrs) :
  kvs <> [] -> Forall (fun kv => wf_key (fst kv) = true) kvs ->
  (exists rest, extract_options (join [10] (map (fun kv => [58] ++ yaml_line kv) kvs)) = Some (yaml_block kvs, rest))
  /\ forall body, exists rest,
       extract_options (block_text (map yaml_line kvs) ++ 10 :: 10 :: body) = Some (yaml_block kvs, rest).
Proof.
  intros Hne F. split; [apply img_content_extracted; auto|].
  intro body. apply extract_block.
  - destruct kvs; [congruence|discriminate].
  - apply Forall_forall. intros y Hy. apply in_map_iff in Hy as [kv [<- Hkv]]. apply yaml_line_no_nl.
    rewrite Forall_forall in F. apply F. exact Hkv.
  - right. eauto.
Qed.

(* ---------- the rstrip() of the admonition option block ---------- *)

Lemma lstrip_app x y : lstrip x <> [] -> lstrip (x ++ y) = lstrip x ++ y.
Proof.
  induction x as [|c x IH]; simpl; intro H; [congruence|]. destruct (is_space c); [apply IH; exact H|reflexivity].
Qed.

Lemma rstrip_app a b : rstrip b <> [] -> rstrip (a ++ b) = a ++ rstrip b.
Proof.
  unfold rstrip. intro H. rewrite rev_app_distr. rewrite lstrip_app.
  - rewrite rev_app_distr, rev_involutive. reflexivity.
  - intro E. apply H. rewrite E. reflexivity.
Qed.

Lemma rstrip_keep p x : is_space x = false -> rstrip (p ++ [x]) = p ++ [x].
Proof. intro H. unfold rstrip. rewrite rev_app_distr. simpl. rewrite H. simpl. rewrite rev_involutive. reflexivity. Qed.

Lemma G_isspace : py_isspace = re_space. Proof. reflexivity. Qed.

Lemma restc_not_space c : plain_restc c = true -> is_space c = false.
Proof.
  unfold plain_restc, excl, is_space. rewrite G_isspace. intro H. apply negb_true_iff in H.
  apply orb_false_iff in H as [_ H]. exact H.
Qed.

Lemma firstc_not_space c : plain_firstc c = true -> is_space c = false.
Proof.
  unfold plain_firstc, excl, is_space. rewrite G_isspace. intro H. apply negb_true_iff in H.
  apply orb_false_iff in H as [_ H]. exact H.
Qed.

Lemma plain_tail_last : forall r b, plain_tail b r = true -> r <> [] ->
  exists p x, r = p ++ [x] /\ is_space x = false.
Proof.
  induction r as [|c r IH]; intros b H Hne; [congruence|]. cbn [plain_tail] in H.
  destruct r as [|c2 r2].
  - exists [], c. split; [reflexivity|]. destruct (plain_restc c) eqn:Ec; [apply restc_not_space; exact Ec|].
    destruct (N.eqb c plain_sep && negb b); [simpl in H; discriminate|discriminate].
  - assert (H' : exists b', plain_tail b' (c2 :: r2) = true).
    { destruct (plain_restc c); [eauto|]. destruct (N.eqb c plain_sep && negb b); [eauto|discriminate]. }
    destruct H' as [b' H']. destruct (IH b' H') as [p [x [E Hx]]]; [discriminate|].
    exists (c :: p), x. rewrite E. auto.
Qed.

Lemma option_value_last v : option_value v <> [] -> exists p x, option_value v = p ++ [x] /\ is_space x = false.
Proof.
  unfold option_value. destruct (match v with Some s => s | None => [] end) as [|c r] eqn:E;
    [intro H; cbn in H; congruence|]. intros _.
  cbn [truthy andb]. destruct (plain_fullmatch (c :: r)) eqn:Ep; cbn [negb].
  - cbn [plain_fullmatch] in Ep. apply andb_true_iff in Ep as [Ec Er]. destruct r as [|c2 r2].
    + exists [], c. split; [reflexivity|apply firstc_not_space; exact Ec].
    + destruct (plain_tail_last _ _ Er) as [p [x [Ex Hx]]]; [discriminate|]. exists (c :: p), x. rewrite Ex. auto.
  - rewrite G_quote. exists ([34] ++ escape_value (c :: r)), 34. split; [rewrite <- app_assoc; reflexivity|reflexivity].
Qed.

Lemma option_value_empty v : value_or_empty v = [] -> option_value v = [].
Proof. unfold option_value, value_or_empty. intros ->. reflexivity. Qed.

Lemma option_value_nonempty v : value_or_empty v <> [] -> option_value v <> [].
Proof.
  unfold option_value, value_or_empty. destruct (match v with Some s => s | None => [] end) as [|c r]; [congruence|].
  intros _. cbn [truthy andb]. destruct (negb (plain_fullmatch (c :: r))); [rewrite G_quote|]; discriminate.
Qed.

(* the last option line after rstrip() *)
Lemma rstrip_last_line kv : rstrip (58 :: yaml_line kv) = 58 :: yaml_line_last kv /\ rstrip (58 :: yaml_line kv) <> [].
Proof.
  unfold yaml_line, yaml_line_last. destruct kv as [k v]. cbn [fst snd].
  destruct (value_or_empty v) as [|c0 r0] eqn:Ev.
  - rewrite (option_value_empty v Ev), app_nil_r.
    assert (E : 58 :: k ++ [58; 32] = (58 :: k ++ [58]) ++ [32]) by (cbn [app]; rewrite <- app_assoc; reflexivity).
    rewrite E. unfold rstrip. rewrite rev_app_distr. cbn [rev app lstrip].
    change (is_space 32) with true. cbn iota.
    rewrite rev_app_distr. cbn [rev app lstrip]. change (is_space 58) with false. cbn iota.
    split.
    + change (rev (58 :: rev k ++ [58])) with (rev (rev k ++ [58]) ++ [58]).
      rewrite rev_app_distr, rev_involutive. reflexivity.
    + intro H. apply (f_equal (@length N)) in H. rewrite rev_length in H. simpl in H. discriminate.
  - destruct (option_value_last v) as [p [x [Ex Hx]]]; [apply option_value_nonempty; congruence|].
    rewrite Ex. assert (E : 58 :: k ++ [58; 32] ++ p ++ [x] = (58 :: k ++ [58; 32] ++ p) ++ [x])
      by (cbn [app]; rewrite <- !app_assoc; reflexivity).
    rewrite E, (rstrip_keep _ x Hx). split; [unfold yaml_line; cbn [fst snd]; rewrite Ex, E; reflexivity|]. cbn [app]. discriminate.
Qed.

(* colon-prefixed lines of the right-stripped block *)
Fixpoint block_text_r (kvs : attrs) : str :=
  match kvs with
  | [] => []
  | [kv] => 58 :: yaml_line_last kv
  | kv :: rest => (58 :: yaml_line kv) ++ [10] ++ block_text_r rest
  end.

Lemma rstrip_block : forall kvs, kvs <> [] ->
  rstrip (block_text (map yaml_line kvs)) = block_text_r kvs /\ block_text_r kvs <> [].
Proof.
  induction kvs as [|kv rest IH]; intro Hne; [congruence|]. destruct rest as [|kv2 rest'].
  - unfold block_text. cbn [map join block_text_r]. destruct (rstrip_last_line kv) as [E1 E2]. rewrite E1. split; [reflexivity|discriminate].
  - destruct (IH ltac:(discriminate)) as [E1 E2].
    cbn [map]. rewrite block_text_cons.
    assert (Ea : 58 :: yaml_line kv ++ 10 :: block_text (yaml_line kv2 :: map yaml_line rest')
                 = (58 :: yaml_line kv ++ [10]) ++ block_text (map yaml_line (kv2 :: rest')))
      by (cbn [app map]; rewrite <- app_assoc; reflexivity).
    rewrite Ea. rewrite rstrip_app by (rewrite E1; exact E2). rewrite E1.
    split; [cbn [block_text_r app]; rewrite <- app_assoc; reflexivity|discriminate].
Qed.

(* the admonition content: right-stripped option lines, a blank line, the body *)
Theorem admonition_options_extracted (kvs : attrs) (body : str) :
  kvs <> [] -> Forall (fun kv => wf_key (fst kv) = true) kvs ->
  exists rest,
    extract_options (rstrip (block_text (map yaml_line kvs)) ++ 10 :: 10 :: body) = Some (yaml_block_r kvs, rest)
    /\ options_to_items (yaml_block_r kvs) = RdOk (map (fun kv => (fst kv, value_or_empty (snd kv))) kvs).
Proof.
  intros Hne F. destruct (rstrip_block kvs Hne) as [E _]. rewrite E.
  (* the lines of the stripped block *)
  set (ylines := (fix go (l : attrs) : list str :=
                    match l with [] => [] | [kv] => [yaml_line_last kv] | kv :: r => yaml_line kv :: go r end) kvs).
  assert (Eb : block_text_r kvs = block_text ylines /\ yaml_block_r kvs = join [10] ylines /\ ylines <> []
               /\ Forall (fun y => no_nl y = true) ylines).
  { unfold ylines. clear E ylines. induction kvs as [|kv rest IH]; [congruence|]. inversion F as [|? ? Hk Fr]; subst.
    destruct rest as [|kv2 rest'].
    - split; [reflexivity|]. split; [reflexivity|]. split; [discriminate|]. constructor; [|constructor].
      unfold yaml_line_last. destruct (value_or_empty (snd kv)).
      + unfold wf_key in Hk. apply andb_true_iff in Hk as [_ Hk]. rewrite no_nl_app, (key_no_nl _ Hk). reflexivity.
      + apply yaml_line_no_nl. exact Hk.
    - destruct (IH ltac:(discriminate) Fr) as [I1 [I2 [I3 I4]]].
      set (ys := (fix go (l : attrs) : list str :=
                    match l with [] => [] | [kv] => [yaml_line_last kv] | kv :: r => yaml_line kv :: go r end) (kv2 :: rest')) in *.
      split; [|split; [|split; [discriminate|constructor; [apply yaml_line_no_nl; exact Hk|exact I4]]]].
      + change (block_text_r (kv :: kv2 :: rest')) with ((58 :: yaml_line kv) ++ [10] ++ block_text_r (kv2 :: rest')).
        rewrite I1. unfold block_text. destruct ys as [|y ys']; [congruence|]. reflexivity.
      + change (yaml_block_r (kv :: kv2 :: rest')) with (yaml_line kv ++ [10] ++ yaml_block_r (kv2 :: rest')).
        rewrite I2. destruct ys as [|y ys']; [congruence|]. reflexivity. }
  destruct Eb as [E1 [E2 [E3 E4]]]. rewrite E1, E2.
  destruct (extract_block ylines (10 :: 10 :: body) E3 E4) as [rest Hr]; [right; eauto|].
  exists rest. split; [exact Hr|]. rewrite <- E2. apply values_carried_rstripped. exact F.
Qed.

Theorem admonition_options_carried (a : attrs) (body : str) :
  let opts := filter (fun kv => mem_str (fst kv) option_keys_admonition) (sorted_items a) in
  opts <> [] ->
  exists rest,
    extract_options (rstrip (option_block option_keys_admonition a) ++ 10 :: 10 :: body) = Some (yaml_block_r opts, rest)
    /\ options_to_items (yaml_block_r opts) = RdOk (map (fun kv => (fst kv, value_or_empty (snd kv))) opts).
Proof.
  intros opts Hne. rewrite option_block_lines. fold opts.
  assert (E : join [10] (map (fun kv => [58] ++ yaml_line kv) opts) = block_text (map yaml_line opts)).
  { unfold block_text. rewrite map_map. reflexivity. }
  rewrite E. apply admonition_options_extracted; auto. apply filter_keys_wf.
  pose proof keys_wf as K. rewrite forallb_app in K. apply andb_true_iff in K as [_ K]. exact K.
Qed.
