(* The definitions regenerated from parse_html.py (Gen/HtmlSrc.v) equal the hand-written model
   (Html/HtmlModel.v) on consistent states.  These are the proof obligations that an edit of the
   control code of Tree / HtmlToAst / Element breaks. *)
From Coq Require Import List NArith Bool Arith Lia.
From MV Require Import Base.PyStr Base.Res Html.HtmlTypes Gen.Html Html.HtmlModel Html.SrcPrims Gen.HtmlSrc
  Html.HtmlStore Html.HtmlInv Html.HtmlRound Html.HtmlOps Html.HtmlIso Html.HtmlStripRec.
Import ListNotations.
Local Open Scope nat_scope.

Lemma list_insert_end {A} (l : list A) x : list_insert l (length l) x = l ++ [x].
Proof. induction l as [|y l IH]; simpl; [reflexivity|]. rewrite IH. reflexivity. Qed.

(* x.append(item) = MutableSequence.append -> Element.insert(len(self), item) *)
Lemma append_src_eq st p item : p < length st -> append_src st p item = append_child st p item.
Proof.
  intro Hp. destruct (nth_error_lt_Some _ _ Hp) as [cp Hcp].
  unfold append_src, o_children. rewrite (get_Some _ _ _ Hcp). cbn [bind].
  unfold insert_src, append_child, o_parent, set_o_parent, set_o_children, o_children.
  destruct (get st item) as [ci|e] eqn:Ei; cbn [bind]; [|reflexivity].
  destruct (c_parent ci) as [q|] eqn:Eq; cbn [negb andb opt_nat_neq].
  - destruct (Nat.eqb q p); cbn [negb bind]; [|reflexivity].
    destruct (upd st item (set_parent (Some p))) as [st1|e] eqn:Eu; cbn [bind]; [|reflexivity].
    unfold upd. destruct (get st1 p) as [c1|e] eqn:E1; cbn [bind]; [|reflexivity].
    (* the children of p are read after the parent of item was set: same length *)
    assert (Hlen : length (c_children c1) = length (c_children cp)).
    { unfold upd in Eu. rewrite Ei in Eu. cbn [bind] in Eu. inversion Eu; subst st1. apply get_Ok in E1, Ei.
      destruct (Nat.eq_dec item p) as [->|Hne].
      - rewrite nth_error_set_nth_eq in E1 by (eapply nth_error_Some_lt; eauto). inversion E1; subst c1.
        rewrite Ei in Hcp. inversion Hcp; subst. reflexivity.
      - rewrite nth_error_set_nth_neq in E1 by exact Hne. congruence. }
    rewrite <- Hlen, list_insert_end. reflexivity.
  - destruct (upd st item (set_parent (Some p))) as [st1|e] eqn:Eu; cbn [bind]; [|reflexivity].
    unfold upd. destruct (get st1 p) as [c1|e] eqn:E1; cbn [bind]; [|reflexivity].
    assert (Hlen : length (c_children c1) = length (c_children cp)).
    { unfold upd in Eu. rewrite Ei in Eu. cbn [bind] in Eu. inversion Eu; subst st1. apply get_Ok in E1, Ei.
      destruct (Nat.eq_dec item p) as [->|Hne].
      - rewrite nth_error_set_nth_eq in E1 by (eapply nth_error_Some_lt; eauto). inversion E1; subst c1.
        rewrite Ei in Hcp. inversion Hcp; subst. reflexivity.
      - rewrite nth_error_set_nth_neq in E1 by exact Hne. congruence. }
    rewrite <- Hlen, list_insert_end. reflexivity.
Qed.

Lemma last_src_eq t : last_src t = tree_last t.
Proof. unfold last_src, stack_last, tree_last. destruct (t_stack t); reflexivity. Qed.

(* a state whose stack entries are allocated *)
Definition stack_valid (t : tree) : Prop := Forall (fun i => i < length (t_cells t)) (t_stack t).

Lemma nest_tag_src_eq t name a : stack_valid t -> nest_tag_src t name a = nest_tag t name a.
Proof.
  intro Hv. unfold nest_tag_src, nest_tag, stack_pop, pop, k_nest_tag. destruct (t_stack t) as [|p rest] eqn:Es; [reflexivity|].
  cbn [bind t_new alloc t_cells t_outmost t_stack fst snd].
  unfold stack_valid in Hv. rewrite Es in Hv. inversion Hv; subst.
  rewrite append_src_eq by (rewrite app_length; simpl; lia).
  destruct (append_child (t_cells t ++ [new_element KTag name a]) p (length (t_cells t))); reflexivity.
Qed.

Lemma nest_leaf_src_eq t c :
  stack_valid t ->
  (do top <- last_src t;
   let '(item, t1) := t_new t c in
   do s <- append_src (t_cells t1) top item; Ok (with_cells t1 s)) = nest_leaf t c.
Proof.
  intro Hv. rewrite last_src_eq. unfold nest_leaf, tree_last. destruct (t_stack t) as [|p rest] eqn:Es; [reflexivity|].
  cbn [bind t_new alloc t_cells]. unfold stack_valid in Hv. rewrite Es in Hv. inversion Hv; subst.
  rewrite append_src_eq by (rewrite app_length; simpl; lia).
  destruct (append_child (t_cells t ++ [c]) p (length (t_cells t))); cbn [bind]; [|reflexivity].
  unfold with_cells. cbn [t_outmost t_stack]. rewrite Es. reflexivity.
Qed.

Lemma nest_xtag_src_eq t name a : stack_valid t -> nest_xtag_src t name a = nest_xtag t name a.
Proof.
  intro Hv. unfold nest_xtag, k_nest_xtag. rewrite <- (nest_leaf_src_eq t _ Hv). unfold nest_xtag_src.
  destruct (last_src t); cbn [bind]; [|reflexivity]. cbn [t_new].
  destruct (append_src _ _ _); reflexivity.
Qed.

Lemma nest_vtag_src_eq t name a : stack_valid t -> nest_vtag_src t name a = nest_vtag t name a.
Proof.
  intro Hv. unfold nest_vtag, k_nest_vtag. rewrite <- (nest_leaf_src_eq t _ Hv). unfold nest_vtag_src.
  destruct (last_src t); cbn [bind]; [|reflexivity]. cbn [t_new].
  destruct (append_src _ _ _); reflexivity.
Qed.

Lemma nest_terminal_src_eq t k d : stack_valid t -> nest_terminal_src t k d = nest_terminal t k d.
Proof.
  intro Hv. unfold nest_terminal. rewrite <- (nest_leaf_src_eq t _ Hv). unfold nest_terminal_src.
  destruct (last_src t); cbn [bind]; [|reflexivity]. cbn [t_new].
  destruct (append_src _ _ _); reflexivity.
Qed.

(* the search loop of enclose *)
Section Enclose.
  Variable t : tree.
  Variable name : str.
  Variable body : nat -> tree * nat -> res (bool * (tree * nat)).
  Hypothesis body_spec : forall ind cnt,
    body ind (t, cnt) =
    if Nat.eqb ind (t_outmost t) then Ok (true, (t, 0))
    else do n <- o_name (t_cells t) ind;
         if str_eqb n name then Ok (true, (t, cnt + 1)) else Ok (false, (t, cnt + 1)).

  Lemma enclose_loop : forall stack cnt,
    match enclose_count (t_cells t) (t_outmost t) stack name cnt with
    | Ok n => exists b m, for_break stack body (t, cnt) = Ok (b, (t, m)) /\ (if b then m else 0) = n
    | Raise e => for_break stack body (t, cnt) = Raise e
    end.
  Proof.
    induction stack as [|ind rest IH]; intro cnt; simpl.
    - exists false, cnt. auto.
    - rewrite body_spec. destruct (Nat.eqb ind (t_outmost t)); cbn [bind fst snd].
      + exists true, 0. auto.
      + unfold o_name. destruct (get (t_cells t) ind) as [c|e]; cbn [bind]; [|reflexivity].
        destruct (str_eqb (c_name c) name); cbn [bind fst snd].
        * exists true, (cnt + 1). split; auto. lia.
        * replace (cnt + 1) with (S cnt) by lia. apply IH.
  Qed.
End Enclose.

Lemma repeat_pop : forall n t,
  repeat_res n (fun acc : tree => do r <- stack_pop acc; let '(_, t') := r in Ok t') t
  = do s <- pop_n n (t_stack t); Ok (mktree (t_cells t) (t_outmost t) s).
Proof.
  induction n as [|n IH]; intro t; simpl.
  - destruct t; reflexivity.
  - unfold stack_pop, pop. destruct (t_stack t) as [|x r] eqn:Es; [reflexivity|]. cbn [bind snd]. rewrite IH. reflexivity.
Qed.

Lemma enclose_src_eq t name : enclose_src t name = enclose t name.
Proof.
  unfold enclose_src, enclose, stack_reversed.
  match goal with |- context [for_break _ ?f _] => set (body := f) end.
  assert (Hb : forall ind cnt,
    body ind (t, cnt) =
    if Nat.eqb ind (t_outmost t) then Ok (true, (t, 0))
    else do n <- o_name (t_cells t) ind;
         if str_eqb n name then Ok (true, (t, cnt + 1)) else Ok (false, (t, cnt + 1))).
  { intros ind cnt. unfold body. destruct (Nat.eqb ind (t_outmost t)); [reflexivity|].
    destruct (o_name (t_cells t) ind); cbn [bind]; [|reflexivity]. destruct (str_eqb _ _); reflexivity. }
  pose proof (enclose_loop t name body Hb (t_stack t) 0) as H.
  destruct (enclose_count (t_cells t) (t_outmost t) (t_stack t) name 0) as [n|e].
  - destruct H as [b [m [Hf Hn]]]. rewrite Hf. cbn [bind fst snd]. destruct b; subst n.
    + rewrite repeat_pop. destruct (pop_n m (t_stack t)); reflexivity.
    + rewrite repeat_pop. simpl. destruct t; reflexivity.
  - rewrite H. reflexivity.
Qed.

Lemma handle_src_eq t e : stack_valid t -> handle_src t e = handle t e.
Proof.
  intro Hv. destruct e; cbn [handle_src handle];
    unfold k_handle_data, k_handle_decl, k_unknown_decl, k_handle_comment, k_handle_pi, k_handle_charref, k_handle_entityref.
  - unfold handle_starttag_src. destruct (mem_str n void_elements).
    + rewrite nest_vtag_src_eq by exact Hv. destruct (nest_vtag t n a); reflexivity.
    + rewrite nest_tag_src_eq by exact Hv. destruct (nest_tag t n a); reflexivity.
  - unfold handle_startendtag_src. rewrite nest_xtag_src_eq by exact Hv. destruct (nest_xtag t n a); reflexivity.
  - unfold handle_endtag_src. destruct (negb (mem_str n void_elements)); [|reflexivity].
    rewrite enclose_src_eq. destruct (enclose t n); reflexivity.
  - unfold handle_data_src. rewrite nest_terminal_src_eq by exact Hv. destruct (nest_terminal t _ s); reflexivity.
  - unfold handle_decl_src. rewrite nest_terminal_src_eq by exact Hv. destruct (nest_terminal t _ s); reflexivity.
  - unfold unknown_decl_src. rewrite nest_terminal_src_eq by exact Hv. destruct (nest_terminal t _ s); reflexivity.
  - unfold handle_comment_src. rewrite nest_terminal_src_eq by exact Hv. destruct (nest_terminal t _ s); reflexivity.
  - unfold handle_pi_src. rewrite nest_terminal_src_eq by exact Hv. destruct (nest_terminal t _ s); reflexivity.
  - unfold handle_charref_src. rewrite nest_terminal_src_eq by exact Hv. destruct (nest_terminal t _ s); reflexivity.
  - unfold handle_entityref_src. rewrite nest_terminal_src_eq by exact Hv. destruct (nest_terminal t _ s); reflexivity.
Qed.

(* feed(): one handler call per event, on the regenerated handlers *)
Fixpoint build_src (t : tree) (evs : list event) : res tree :=
  match evs with
  | [] => Ok t
  | e :: r => do t' <- handle_src t e; build_src t' r
  end.

Theorem build_src_eq evs : forall t, binv t -> build_src t evs = build t evs.
Proof.
  induction evs as [|e evs IH]; intros t B; simpl; [reflexivity|].
  rewrite handle_src_eq by (apply (b_valid _ B)).
  destruct (binv_handle t e B) as [t' [Ht' B']]. rewrite Ht'. cbn [bind]. apply IH. exact B'.
Qed.

(* ================= Element methods ================= *)

Lemma bind_ok_r {A} (r : res A) : (do x <- r; Ok x) = r.
Proof. destruct r; reflexivity. Qed.

(* ---------- walk ---------- *)

Lemma walk_src_eq : forall f st i b,
  walk_src f st i b = do w <- walk f st i; Ok (if b then i :: w else w).
Proof.
  induction f as [|f IH]; intros st i b; [reflexivity|].
  rewrite walk_unfold. cbn [walk_src]. unfold o_children.
  assert (L : forall cs out,
    for_res cs (fun child (acc : store * list nat) => let '(st0, out0) := acc in
                 do w <- walk_src f st0 child false; Ok (st0, (out0 ++ [child]) ++ w)) (st, out)
    = do r <- walk_go f st cs; Ok (st, out ++ r)).
  { induction cs as [|k cs IHcs]; intro out; simpl.
    - rewrite app_nil_r. reflexivity.
    - rewrite IH. destruct (walk f st k) as [w|e]; cbn [bind]; [|reflexivity].
      rewrite IHcs. destruct (walk_go f st cs) as [r|e]; cbn [bind]; [|reflexivity].
      rewrite <- !app_assoc. reflexivity. }
  destruct b.
  - destruct (get st i) as [c|e]; cbn [bind]; [|reflexivity]. cbn [app].
    rewrite L. destruct (walk_go f st (c_children c)); reflexivity.
  - destruct (get st i) as [c|e]; cbn [bind]; [|reflexivity].
    rewrite L. destruct (walk_go f st (c_children c)); reflexivity.
Qed.

(* ---------- deepcopy ---------- *)

Definition swap_res {A B} (r : res (A * B)) : res (B * A) :=
  match r with Ok (a, b) => Ok (b, a) | Raise e => Raise e end.

Lemma append_child_len st p item s2 : append_child st p item = Ok s2 -> length s2 = length st.
Proof.
  intro H. unfold append_child in H.
  destruct (get st item) as [ci|]; [|discriminate]. cbn [bind] in H.
  destruct (match c_parent ci with Some q => if Nat.eqb q p then Ok tt else Raise AssertionError | None => Ok tt end);
    [|discriminate]. cbn [bind] in H.
  unfold upd in H. destruct (get st item) as [c1|]; [|discriminate]. cbn [bind] in H.
  destruct (get (set_nth st item (set_parent (Some p) c1)) p) as [c2|]; [|discriminate]. cbn [bind] in H.
  inversion H. rewrite !set_nth_length. reflexivity.
Qed.

Lemma get_app_l st ext i c : get st i = Ok c -> get (st ++ ext) i = Ok c.
Proof. intro H. apply get_Ok in H. apply get_Some. rewrite nth_error_app1; [exact H|eapply nth_error_Some_lt; eauto]. Qed.

Lemma deepcopy_src_eq : forall f st i, deepcopy_src f st i = swap_res (deepcopy f st i).
Proof.
  induction f as [|f IH]; intros st i; [reflexivity|].
  rewrite deepcopy_unfold. cbn [deepcopy_src]. unfold o_kind, o_data, o_name, o_attrs, o_children.
  destruct (get st i) as [c|e] eqn:Ei; cbn [bind swap_res]; [|reflexivity].
  destruct (is_terminal (c_kind c)); [reflexivity|].
  cbn [st_new]. set (cnew := new_element (c_kind c) (c_name c) (c_attrs c)). set (L := length st).
  rewrite (get_app_l st [cnew] i c Ei). cbn [bind].
  assert (G : forall cs s, L < length s ->
    for_res cs (fun child (acc : store) => do r <- deepcopy_src f acc child; let '(v, s') := r in
                                           do s'' <- append_src s' L v; Ok s'') s
    = copy_go f L s cs).
  { induction cs as [|k cs IHcs]; intros s Hl; simpl; [reflexivity|].
    rewrite IH. destruct (deepcopy f s k) as [[s1 cc]|e] eqn:Ed; cbn [swap_res bind fst snd]; [|reflexivity].
    destruct (deepcopy_props _ _ _ _ _ Ed) as [_ [He [Hl1 _]]].
    rewrite append_src_eq by lia.
    destruct (append_child s1 L cc) as [s2|e] eqn:Ea; cbn [bind]; [|reflexivity].
    apply IHcs. apply append_child_len in Ea. lia. }
  rewrite G by (rewrite app_length; simpl; unfold L; lia).
  destruct (copy_go f L (st ++ [cnew]) (c_children c)); reflexivity.
Qed.

(* ---------- reset_children(children) (deepcopy=False) ---------- *)

Lemma reset_children_src_eq fuel st self items :
  reset_children_src fuel st self items false = reset_children st self items.
Proof.
  unfold reset_children_src, reset_children.
  assert (L : forall its s nc,
    for_res its (fun item (acc : store * list nat) => let '(st0, new_children) := acc in
       do p <- o_parent st0 item;
       if match p with None => true | Some _ => false end
       then do st1 <- set_o_parent st0 item (Some self); Ok (st1, new_children ++ [item])
       else do p2 <- o_parent st0 item;
            if opt_nat_neq p2 self then Raise AssertionError else Ok (st0, new_children ++ [item])) (s, nc)
    = do s' <- adopt s self its; Ok (s', nc ++ its)).
  { induction its as [|it r IH]; intros s nc; simpl.
    - rewrite app_nil_r. reflexivity.
    - unfold o_parent, set_o_parent. destruct (get s it) as [c|e]; cbn [bind]; [|reflexivity].
      destruct (c_parent c) as [q|]; cbn [opt_nat_neq].
      + destruct (Nat.eqb q self); cbn [negb bind]; [|reflexivity].
        rewrite IH. destruct (adopt s self r); cbn [bind]; [|reflexivity]. rewrite <- app_assoc. reflexivity.
      + destruct (upd s it (set_parent (Some self))) as [s1|e]; cbn [bind]; [|reflexivity].
        rewrite IH. destruct (adopt s1 self r); cbn [bind]; [|reflexivity]. rewrite <- app_assoc. reflexivity. }
  cbn iota. rewrite L. destruct (adopt st self items) as [s'|e]; cbn [bind]; [|reflexivity].
  unfold set_o_children. cbn [app]. destruct (upd s' self (set_children items)); reflexivity.
Qed.

(* ---------- strip ---------- *)

Lemma py_lstrip_nil s : py_lstrip s = [] <-> forallb is_space s = true.
Proof.
  induction s as [|c s IH]; simpl; [tauto|]. destruct (is_space c); simpl; [exact IH|]. split; discriminate.
Qed.

Lemma py_strip_empty s : str_eqb (py_strip s) [] = forallb is_space s.
Proof.
  unfold py_strip. destruct (forallb is_space s) eqn:E.
  - apply py_lstrip_nil in E. rewrite E. reflexivity.
  - destruct (py_lstrip s) as [|c r] eqn:El.
    + apply py_lstrip_nil in El. congruence.
    + (* the left-stripped text starts with a non-space character, which survives the right strip *)
      assert (Hc : is_space c = false).
      { clear E. revert c r El. induction s as [|x s IH]; intros c r El; simpl in El; [discriminate|].
        destruct (is_space x) eqn:Ex; [eapply IH; eauto|]. inversion El; subst. exact Ex. }
      assert (Hne : py_lstrip (rev (c :: r)) <> []).
      { intro H. apply py_lstrip_nil in H. rewrite forallb_forall in H.
        specialize (H c). rewrite H in Hc; [discriminate|]. apply in_rev. rewrite rev_involutive. simpl; auto. }
      destruct (py_lstrip (rev (c :: r))) as [|y ys] eqn:E2; [congruence|].
      destruct (rev (y :: ys)) eqn:E3; [|reflexivity].
      apply (f_equal (@rev N)) in E3. rewrite rev_involutive in E3. discriminate.
Qed.

(* the list comprehension of strip: the children that are not whitespace-only Data *)
Lemma keep_loop st : forall ids acc,
  for_res ids (fun e (l : list nat) => do k <- o_kind st e; do d <- o_data st e;
                Ok (if negb (kind_eqb k KData && str_eqb (py_strip d) []) then l ++ [e] else l)) acc
  = do kept <- keep_children st ids; Ok (acc ++ kept).
Proof.
  induction ids as [|e r IH]; intro acc; simpl.
  - rewrite app_nil_r. reflexivity.
  - unfold o_kind, o_data. destruct (get st e) as [c|x]; cbn [bind]; [|reflexivity].
    rewrite IH. destruct (keep_children st r) as [rest|x]; cbn [bind]; [|reflexivity].
    unfold ws_data. rewrite py_strip_empty. destruct (kind_eqb (c_kind c) KData && forallb is_space (c_data c)); cbn [negb].
    + reflexivity.
    + rewrite <- app_assoc. reflexivity.
Qed.

(* strip with the model's split into copy + in-place step *)
Definition strip_ref (f : nat) (st : store) (i : nat) (inplace recurse : bool) : res (nat * store) :=
  do r <- (if inplace then Ok (st, i) else deepcopy f st i);
  do st' <- strip_inplace (S f) (fst r) (snd r) recurse;
  Ok (snd r, st').

Lemma strip_inplace_step f st el recurse :
  strip_inplace (S f) st el recurse =
  do c <- get st el;
  do kept <- keep_children st (c_children c);
  do st1 <- reset_children st el kept;
  if recurse then strip_go f st1 kept else Ok st1.
Proof. apply strip_unfold. Qed.

(* the part of strip after `element` is fixed: the generated text, with the recursive call at fuel f *)
Lemma strip_tail f st el (recurse : bool) :
  (forall s i, strip_src f s i true true = do s' <- strip_inplace f s i true; Ok (i, s')) ->
  (do a <- o_children st el;
   do kept <- for_res a (fun e (l : list nat) => do k <- o_kind st e; do d <- o_data st e;
                  Ok (if negb (kind_eqb k KData && str_eqb (py_strip d) []) then l ++ [e] else l)) [];
   do st1 <- reset_children_src f st el kept false;
   if recurse
   then do c <- o_children st1 el;
        do acc <- for_res c (fun child (acc : store) => do r <- strip_src f acc child true true; Ok (snd r)) st1;
        Ok (el, acc)
   else Ok (el, st1) : res (nat * store))
  = do st' <- strip_inplace (S f) st el recurse; Ok (el, st').
Proof.
  intro HQ. rewrite strip_inplace_step. unfold o_children at 1.
  destruct (get st el) as [c|e]; cbn [bind]; [|reflexivity].
  rewrite keep_loop. destruct (keep_children st (c_children c)) as [kept|e]; cbn [bind app]; [|reflexivity].
  rewrite reset_children_src_eq. destruct (reset_children st el kept) as [s1|e] eqn:Er; cbn [bind]; [|reflexivity].
  destruct recurse; [|reflexivity].
  unfold reset_children in Er. destruct (adopt st el kept) as [sa|]; [|discriminate]. cbn [bind] in Er.
  unfold upd in Er. destruct (get sa el) as [ca|] eqn:Ega; [|discriminate]. cbn [bind] in Er. inversion Er; subst s1.
  apply get_Ok in Ega. unfold o_children, get at 1. rewrite nth_error_set_nth_eq by (eapply nth_error_Some_lt; eauto).
  cbn [bind set_children c_children].
  assert (G : forall ks s,
    for_res ks (fun child (acc : store) => do r <- strip_src f acc child true true; Ok (snd r)) s = strip_go f s ks).
  { induction ks as [|k ks IHks]; intro s; simpl; [reflexivity|].
    rewrite HQ. destruct (strip_inplace f s k true); cbn [bind snd]; [apply IHks|reflexivity]. }
  rewrite G. destruct (strip_go f _ kept); reflexivity.
Qed.

Lemma strip_src_step f :
  (forall s i, strip_src f s i true true = do s' <- strip_inplace f s i true; Ok (i, s')) ->
  forall st i inplace recurse, strip_src (S f) st i inplace recurse = strip_ref f st i inplace recurse.
Proof.
  intros HQ st i inplace recurse. unfold strip_ref. cbn [strip_src]. destruct inplace; cbn [negb].
  - cbn [bind fst snd]. exact (strip_tail f st i recurse HQ).
  - rewrite deepcopy_src_eq. destruct (deepcopy f st i) as [[s1 m]|e]; cbn [swap_res bind fst snd]; [|reflexivity].
    exact (strip_tail f s1 m recurse HQ).
Qed.

Lemma strip_src_rec : forall f s i, strip_src f s i true true = do s' <- strip_inplace f s i true; Ok (i, s').
Proof.
  induction f as [|f IH]; intros s i; [reflexivity|].
  rewrite (strip_src_step f IH). unfold strip_ref. cbn [bind fst snd]. reflexivity.
Qed.

Theorem strip_src_eq f st i inplace recurse :
  strip_src (S f) st i inplace recurse = strip_ref f st i inplace recurse.
Proof. apply strip_src_step. apply strip_src_rec. Qed.

(* ---------- find ---------- *)

(* the inner for/else over the attribute query *)
Lemma attrs_loop st child c (out : list nat) : get st child = Ok c -> forall d,
  for_break d (fun '(key, value) (acc : store * list nat) => let '(st0, out0) := acc in
     do a <- o_attrs st0 child;
     if negb (ostr_eqb (attr_getitem a key) value) then Ok (true, (st0, out0)) else Ok (false, (st0, out0))) (st, out)
  = Ok (negb (forallb (fun kv => ostr_eqb (attr_getitem (c_attrs c) (fst kv)) (snd kv)) d), (st, out)).
Proof.
  intro Hc. induction d as [|[k v] d IH]; simpl; [reflexivity|].
  unfold o_attrs. rewrite Hc. cbn [bind].
  destruct (ostr_eqb (attr_getitem (c_attrs c) k) v); cbn [negb bind fst snd andb]; [exact IH|reflexivity].
Qed.

Lemma find_src_eq f0 st i identifier qa qc include_self recurse :
  find_src (S f0) st i identifier qa qc include_self recurse
  = find (S f0) st i (mkquery identifier qa qc include_self recurse).
Proof.
  set (f := S f0). unfold find_src, find. cbn [q_recurse q_include_self].
  set (q := mkquery identifier qa qc include_self recurse).
  (* the iterator *)
  assert (Hit : (if recurse then walk_src f st i false else o_children st i)
                = do c <- get st i; (if recurse then walk f st i else Ok (c_children c))).
  { destruct recurse.
    - rewrite walk_src_eq, bind_ok_r. unfold f. rewrite walk_unfold. destruct (get st i); reflexivity.
    - unfold o_children. destruct (get st i); reflexivity. }
  rewrite Hit. destruct (get st i) as [c|e]; cbn [bind]; [|reflexivity].
  destruct (if recurse then walk f st i else Ok (c_children c)) as [it|e]; cbn [bind]; [|reflexivity].
  (* the main loop *)
  set (body := fun child (acc : store * list nat) => let '(st0, out0) := acc in
      do b <- ident_test st0 identifier child;
      if b then
        do a <- o_attrs st0 child;
        if match qc with Some cl => negb (forallb (fun x => mem_str x (classes a)) cl) | None => false end
        then Ok (st0, out0)
        else
          do acc2 <- for_break (match qa with Some d => d | None => [] end)
               (fun '(key, value) (acc1 : store * list nat) => let '(st1, out1) := acc1 in
                  do a1 <- o_attrs st1 child;
                  if negb (ostr_eqb (attr_getitem a1 key) value) then Ok (true, (st1, out1)) else Ok (false, (st1, out1)))
               (st0, out0);
          let '(st2, out2) := snd acc2 in
          if fst acc2 then Ok (st2, out2) else Ok (st2, out2 ++ [child])
      else Ok (st0, out0)).
  assert (Hbody : forall k out, body k (st, out) =
            do ck <- get st k; Ok (st, if matches q ck then out ++ [k] else out)).
  { intros k out. unfold body, ident_test, o_attrs. destruct (get st k) as [ck|e] eqn:Ek; cbn [bind]; [|reflexivity].
    unfold matches. cbn [q_ident q_classes q_attrs q].
    destruct (match identifier with IName s => str_eqb (c_name ck) s | IClass cls => isinstance (c_kind ck) cls end);
      cbn [andb]; [|reflexivity].
    destruct qc as [cl|].
    - destruct (forallb (fun x => mem_str x (classes (c_attrs ck))) cl); cbn [negb andb]; [|reflexivity].
      rewrite (attrs_loop st k ck out Ek). cbn [bind fst snd].
      destruct qa as [d|]; cbn [forallb negb]; [|reflexivity].
      destruct (forallb (fun kv => ostr_eqb (attr_getitem (c_attrs ck) (fst kv)) (snd kv)) d); reflexivity.
    - rewrite (attrs_loop st k ck out Ek). cbn [bind fst snd].
      destruct qa as [d|]; cbn [forallb negb]; [|reflexivity].
      destruct (forallb (fun kv => ostr_eqb (attr_getitem (c_attrs ck) (fst kv)) (snd kv)) d); reflexivity. }
  assert (L : forall ids out, for_res ids body (st, out) = do r <- filter_cells st q ids; Ok (st, out ++ r)).
  { induction ids as [|k ids IHids]; intro out; cbn [for_res filter_cells].
    - cbn [bind]. rewrite app_nil_r. reflexivity.
    - rewrite Hbody. destruct (get st k) as [ck|e]; cbn [bind]; [|reflexivity].
      rewrite IHids. destruct (filter_cells st q ids) as [r|e]; cbn [bind]; [|reflexivity].
      destruct (matches q ck); [rewrite <- app_assoc|]; reflexivity. }
  destruct include_self.
  - match goal with |- bind (for_res ?l ?b ?a) ?k = _ => replace b with body by reflexivity end.
    rewrite L. destruct (filter_cells st q (i :: it)); reflexivity.
  - match goal with |- bind (for_res ?l ?b ?a) ?k = _ => replace b with body by reflexivity end.
    rewrite L. destruct (filter_cells st q it); reflexivity.
Qed.

(* ================= the property theorems for the regenerated code ================= *)

Theorem build_total_src (name : str) (evs : list event) :
  exists t, build_src (init_tree name) evs = Ok t
            /\ t_outmost t = 0 /\ (exists s, t_stack t = s ++ [t_outmost t])
            /\ Forall (fun i => i < length (t_cells t)) (t_stack t).
Proof. rewrite build_src_eq by apply binv_init. apply build_total. Qed.

Theorem tree_consistent_src (name : str) (evs : list event) (t : tree) :
  build_src (init_tree name) evs = Ok t ->
  let st := t_cells t in
  (exists c, nth_error st 0 = Some c /\ c_parent c = None)
  /\ (forall p cp k, nth_error st p = Some cp -> In k (c_children cp) ->
        p < k /\ k < length st /\ parent_of st k = Some p)
  /\ (forall k c, nth_error st k = Some c -> k <> 0 ->
        exists p, c_parent c = Some p /\ count_occ Nat.eq_dec (children_of st p) k = 1)
  /\ exists w, walk_src (length st) st (t_outmost t) false = Ok w
               /\ NoDup (t_outmost t :: w)
               /\ (forall j, In j (t_outmost t :: w) <-> j < length st).
Proof.
  rewrite build_src_eq by apply binv_init. intro H.
  destruct (tree_consistent_built name evs t H) as [H1 [H2 [H3 [w [Hw [Hn Hm]]]]]].
  split; [exact H1|]. split; [exact H2|]. split; [exact H3|]. exists w. split; [|auto].
  rewrite walk_src_eq. unfold walk_top in Hw. rewrite Hw. reflexivity.
Qed.

Theorem find_is_filter_src (name : str) (evs : list event) (t : tree) (i : nat)
        (identifier : ident) (qa : option attrs) (qc : option (list str)) (include_self recurse : bool) :
  build_src (init_tree name) evs = Ok t -> i < length (t_cells t) ->
  let st := t_cells t in
  let q := mkquery identifier qa qc include_self recurse in
  exists w, walk_src (length st) st i false = Ok w
            /\ (forall j, In j w <-> Desc st i j) /\ NoDup w
            /\ find_src (length st) st i identifier qa qc include_self recurse
               = Ok (filter (matches_at st q) (find_domain st i q w)).
Proof.
  rewrite build_src_eq by apply binv_init. intros H Hi st q.
  destruct (find_is_filter_built name evs t i q H Hi) as [w [Hw [Hm [Hn Hf]]]].
  exists w. split; [rewrite walk_src_eq; unfold walk_top in Hw; unfold st; rewrite Hw; reflexivity|].
  split; [exact Hm|]. split; [exact Hn|].
  unfold st. destruct (length (t_cells t)) as [|f0] eqn:El; [lia|].
  rewrite find_src_eq. unfold find_top in Hf. rewrite El in Hf. exact Hf.
Qed.

Theorem copy_strip_pure_src (st : store) (i : nat) (fuel : nat) :
  (forall st' n, deepcopy_src fuel st i = Ok (n, st') ->
     n = length st /\ (forall j, j < length st -> nth_error st' j = nth_error st j) /\ length st < length st')
  /\ (forall recurse st' n, strip_src fuel st i false recurse = Ok (n, st') ->
     n = length st /\ (forall j, j < length st -> nth_error st' j = nth_error st j)).
Proof.
  split.
  - intros st' n H. rewrite deepcopy_src_eq in H. destruct (deepcopy fuel st i) as [[s1 m]|] eqn:Ed; [|discriminate].
    inversion H; subst. destruct (deepcopy_props _ _ _ _ _ Ed) as [Hn [He [Hl _]]].
    split; auto. split; auto. intros j Hj. apply extends_nth; auto.
  - intros recurse st' n H. destruct fuel as [|f]; [discriminate|].
    rewrite strip_src_eq in H. unfold strip_ref in H.
    destruct (deepcopy f st i) as [[s1 m]|] eqn:Ed; [|discriminate]. cbn [bind fst snd] in H.
    destruct (strip_inplace (S f) s1 m recurse) as [s2|] eqn:Es; [|discriminate]. cbn [bind] in H. inversion H; subst.
    destruct (deepcopy_props _ _ _ _ _ Ed) as [Hm [He [Hl Hc]]]. split; auto.
    assert (C0 : closed_from (length st) st).
    { intros j c k Hj Hn _. apply nth_error_Some_lt in Hn. lia. }
    destruct (strip_inplace_frame _ _ _ _ _ (length st) Es) as [[_ S] _]; [lia|apply Hc; auto|].
    intros j Hj. rewrite S by exact Hj. apply extends_nth; auto.
Qed.

(* the whole result of the regenerated strip(inplace=False, recurse=True), for every fuel *)
Theorem strip_rec_exact_src (name : str) (evs : list event) (t : tree) (i : nat) (fuel : nat) (st' : store) (n : nat) :
  build_src (init_tree name) evs = Ok t ->
  let st := t_cells t in
  strip_src fuel st i false true = Ok (n, st') ->
  n = length st
  /\ (forall a, a < length st -> nth_error st' a = nth_error st a)
  /\ exists g, stripped_of g st' i n /\ forall h, render h st' n = render_stripped h st' i.
Proof.
  intros Hb st H.
  destruct (copy_strip_pure_src st i fuel) as [_ Hp]. destruct (Hp true st' n H) as [Hn Hpure].
  split; [exact Hn|]. split; [exact Hpure|].
  rewrite build_src_eq in Hb by apply binv_init.
  destruct (built_cells_ok _ _ _ Hb) as [Hok Hvc].
  destruct fuel as [|f]; [discriminate|]. rewrite strip_src_eq in H. unfold strip_ref in H.
  destruct (deepcopy f st i) as [[s1 m]|] eqn:Ed; [|discriminate]. cbn [bind fst snd] in H.
  destruct (strip_inplace (S f) s1 m true) as [s2|] eqn:Es; [|discriminate]. cbn [bind] in H. inversion H; subst m s2.
  destruct (strip_rec_general _ _ _ _ _ _ _ Hvc Hok Ed Es) as [_ R].
  exists f. split; [exact R|]. intro h. eapply stripped_render; exact R.
Qed.

(* ---------- Tree.__init__, Tree.clear, class Attribute ---------- *)

Lemma tree_init_src_eq name : tree_init_src name = init_tree name.
Proof. reflexivity. Qed.

Lemma clear_src_eq t name : clear_src t name = init_tree name.
Proof. reflexivity. Qed.

Lemma attr_getitem_src_eq d k : attr_getitem_src d k = attr_getitem d k.
Proof. reflexivity. Qed.

Lemma classes_src_eq d : classes_src d = classes d.
Proof.
  unfold classes_src, classes, ostr_or. rewrite attr_getitem_src_eq. change [99; 108; 97; 115; 115]%N with s_class.
  destruct (attr_getitem d s_class) as [[|c s]|]; reflexivity.
Qed.

(* HtmlToAst(name) followed by feed(): __init__ builds the Tree, feed() clears it and runs the
   handlers; equal to the modelled call *)
Theorem tokenize_src_model (name : str) (evs : list event) :
  build_src (clear_src (tree_init_src name) name) evs = build (init_tree name) evs
  /\ (forall t, clear_src t name = init_tree name)
  /\ (forall d k, attr_getitem_src d k = attr_getitem d k)
  /\ (forall d, classes_src d = classes d).
Proof.
  split; [rewrite clear_src_eq; apply build_src_eq; apply binv_init|].
  split; [intro t; apply clear_src_eq|]. split; [apply attr_getitem_src_eq|apply classes_src_eq].
Qed.

(* ---------- render ---------- *)

(* the regenerated render methods (the join over the children as a loop, dispatch on the class)
   return what the modelled render returns, whenever that one returns *)
Lemma render_src_refines : forall f st i s, render f st i = Ok s -> render_src f st i = Ok s.
Proof.
  induction f as [|f IH]; intros st i s H; [discriminate|].
  rewrite render_unfold in H. cbn [render_src].
  destruct (get st i) as [c|] eqn:Eg; [|discriminate]. cbn [bind] in H |- *.
  destruct (render_list f st (c_children c)) as [ks|] eqn:Ek; [|discriminate]. cbn [bind] in H.
  assert (L : forall ids ks0 (a : list N), render_list f st ids = Ok ks0 ->
    for_res ids (fun child (__acc : list N) => do __r <- render_src f st child; Ok (__acc ++ __r)) a = Ok (a ++ ks0)).
  { induction ids as [|k ids IHi]; intros ks0 a Hr; simpl in Hr.
    - inversion Hr; subst. simpl. rewrite app_nil_r. reflexivity.
    - destruct (render f st k) as [s0|] eqn:Er; [|discriminate]. cbn [bind] in Hr.
      destruct (render_list f st ids) as [r|] eqn:Erl; [|discriminate]. cbn [bind] in Hr. inversion Hr; subst ks0.
      cbn [for_res]. rewrite (IH _ _ _ Er). cbn [bind]. rewrite (IHi r (a ++ s0) eq_refl). rewrite app_assoc. reflexivity. }
  inversion H; subst s. clear H. unfold render_cell.
  destruct (c_kind c); try reflexivity.
  - rewrite (L _ _ [] Ek). cbn [bind app]. reflexivity.
  - rewrite (L _ _ [] Ek). cbn [bind]. unfold render_Tag. f_equal. simpl. rewrite <- !app_assoc. reflexivity.
Qed.

(* the exact round trip, entirely on regenerated code: HtmlToAst(name).feed(text) = __init__, clear,
   the handlers; then render *)
Theorem roundtrip_src (parse : str -> list event) :
  (forall hs, wf_doc hs = true -> parse (print_doc hs) = events_doc hs) ->
  forall (name : str) (hs : list html), wf_doc hs = true ->
  exists t, build_src (clear_src (tree_init_src name) name) (parse (print_doc hs)) = Ok t
            /\ render_src (length (t_cells t)) (t_cells t) (t_outmost t) = Ok (print_doc hs).
Proof.
  intros O name hs Hwf. destruct (roundtrip parse O name hs Hwf) as [t [Ht Hr]].
  exists t. split.
  - rewrite clear_src_eq, build_src_eq by apply binv_init. exact Ht.
  - apply render_src_refines. exact Hr.
Qed.

