(* Proofs about the model of html_to_nodes.py: GFM tag filter, pass-through conditions. *)
From Coq Require Import List NArith Bool Arith Lia.
From MV Require Import Base.PyStr Base.Res Html.HtmlTypes Gen.Html Gen.HtmlNodes Html.HtmlModel
  Html.HtmlStore Html.HtmlInv Html.HtmlOps Html.HtmlToNodes.
Import ListNotations.
Local Open Scope N_scope.

(* ------------------------------------------------------------------ specification of the GFM tag filter *)

(* the disallowed raw HTML of the GFM spec (6.11) *)
Definition spec_tags : list str :=
  [[116;105;116;108;101]; [116;101;120;116;97;114;101;97]; [115;116;121;108;101]; [120;109;112];
   [105;102;114;97;109;101]; [110;111;101;109;98;101;100]; [110;111;102;114;97;109;101;115];
   [115;99;114;105;112;116]; [112;108;97;105;110;116;101;120;116]].

(* tab, newline, form feed, carriage return, space, '/', '>' *)
Definition spec_look : list N := [9; 10; 12; 13; 32; 47; 62].

(* ASCII case-insensitive comparison with a lower-case letter *)
Definition ascii_ci (l : N) : cls := fun c => N.eqb c l || N.eqb c (l - 32).

Definition spec_body (tag : str) : list cls := map ascii_ci tag ++ [cls_in spec_look].
Definition spec_pats : list (list cls) :=
  flat_map (fun tag => [cls_eq 47 :: spec_body tag; spec_body tag]) spec_tags.

(* after a '<': optional '/', a disallowed tag name in any ASCII case, then a delimiter *)
Definition opens_tag (s : str) : bool := existsb (fun p => pat_match p s) spec_pats.

(* no position of s is a '<' that can open a disallowed element *)
Fixpoint no_occ (s : str) : bool :=
  match s with
  | [] => true
  | c :: r => negb (N.eqb c 60 && opens_tag r) && no_occ r
  end.

(* out is text with some '<' that RE_FLOW matches rewritten to "&lt;" and nothing else changed *)
Inductive Neutral : str -> str -> Prop :=
| N_nil : Neutral [] []
| N_keep : forall c t o, Neutral t o -> Neutral (c :: t) (c :: o)
| N_repl : forall t o, tag_ahead t = true -> Neutral t o -> Neutral (60 :: t) ([38; 108; 116; 59] ++ o).

(* ------------------------------------------------------------------ facts about the regenerated regex *)

Lemma flow_open_is : flow_open = 60. Proof. reflexivity. Qed.
Lemma replace_open_60 : replace_open 60 = [38; 108; 116; 59]. Proof. reflexivity. Qed.

(* every tag of the spec is in RE_FLOW's alternation *)
Lemma F_tags : forallb (fun t => mem_str t flow_tags) spec_tags = true.
Proof. vm_compute. reflexivity. Qed.

(* each letter matches both of its ASCII cases under the regex flags *)
Lemma F_ci : forallb (fun t => forallb (fun l => mem_N l (flow_ci l) && mem_N (l - 32) (flow_ci l)) t) spec_tags = true.
Proof. vm_compute. reflexivity. Qed.

Lemma F_look : forallb (fun c => mem_N c flow_look) spec_look = true.
Proof. vm_compute. reflexivity. Qed.

Lemma F_slash : flow_slash = 47. Proof. reflexivity. Qed.

(* no class of a spec pattern accepts '<' or '&' *)
Lemma F_local : forallb (fun p => forallb (fun cl : cls => negb (cl 60) && negb (cl 38)) p) spec_pats = true.
Proof. vm_compute. reflexivity. Qed.

(* the HTML attributes that are options of the docutils image / admonition directives *)
Definition spec_image_keys : list str :=
  [[97;108;105;103;110]; [97;108;116]; [99;108;97;115;115]; [104;101;105;103;104;116]; [110;97;109;101];
   [119;105;100;116;104]].                       (* align alt class height name width *)
Definition spec_admonition_keys : list str := [[99;108;97;115;115]; [110;97;109;101]].   (* class name *)

Lemma keys_spec : option_keys_image = spec_image_keys /\ option_keys_admonition = spec_admonition_keys.
Proof. split; reflexivity. Qed.

(* ------------------------------------------------------------------ proofs *)

Lemma pat_match_mono (pa pb : list cls) s :
  Forall2 (fun a b : cls => forall c, a c = true -> b c = true) pa pb ->
  pat_match pa s = true -> pat_match pb s = true.
Proof.
  intro F. revert s. induction F as [|a b pa pb Hab _ IH]; intros s H; simpl in *; auto.
  destruct s as [|c s]; [discriminate|]. apply andb_true_iff in H as [H1 H2].
  rewrite (Hab c H1). simpl. apply IH. exact H2.
Qed.

Lemma body_mono tag :
  In tag spec_tags ->
  Forall2 (fun a b : cls => forall c, a c = true -> b c = true) (spec_body tag) (tag_body re_ci tag).
Proof.
  intro Hin. unfold spec_body, tag_body. apply Forall2_app.
  - pose proof F_ci as F. rewrite forallb_forall in F. specialize (F tag Hin). rewrite forallb_forall in F. clear Hin.
    induction tag as [|l tag IH]; simpl; constructor.
    + cbv beta. intros c Hc. unfold ascii_ci in Hc. unfold re_ci, cls_in.
      specialize (F l (or_introl eq_refl)). apply andb_true_iff in F as [F1 F2].
      apply orb_true_iff in Hc as [Hc|Hc]; apply N.eqb_eq in Hc; subst c; assumption.
    + apply IH. intros x Hx. apply F. right. exact Hx.
  - constructor; [|constructor]. cbv beta. intros c Hc. unfold cls_in in *.
    apply mem_N_In in Hc. apply mem_N_In.
    pose proof F_look as F. rewrite forallb_forall in F. specialize (F c Hc). apply mem_N_In in F. exact F.
Qed.

(* an ASCII-case-insensitive opener is matched by RE_FLOW *)
Lemma opens_tag_ahead s : opens_tag s = true -> tag_ahead s = true.
Proof.
  unfold opens_tag, tag_ahead. rewrite !existsb_exists. intros [p [Hp Hm]].
  unfold spec_pats in Hp. apply in_flat_map in Hp as [tag [Htag Hp]].
  assert (Hflow : In tag flow_tags).
  { pose proof F_tags as F. rewrite forallb_forall in F. apply mem_str_In. apply F. exact Htag. }
  pose proof (body_mono tag Htag) as Hb.
  destruct Hp as [<-|[<-|[]]].
  - exists (cls_eq flow_slash :: tag_body re_ci tag). split.
    + unfold tag_pats. apply in_flat_map. exists tag. split; [exact Hflow|]. left. reflexivity.
    + eapply pat_match_mono; [|exact Hm]. constructor; [|exact Hb]. rewrite F_slash. auto.
  - exists (tag_body re_ci tag). split.
    + unfold tag_pats. apply in_flat_map. exists tag. split; [exact Hflow|]. right. left. reflexivity.
    + eapply pat_match_mono; [|exact Hm]. exact Hb.
Qed.

(* what a pattern that rejects '<' and '&' sees of the filtered text it also sees of the text *)
Lemma pat_local (p : list cls) :
  (forall cl, In cl p -> cl 60 = false /\ cl 38 = false) ->
  forall r, pat_match p (gfm_filter r) = true -> pat_match p r = true.
Proof.
  induction p as [|cl p IH]; intros Hp r H; [reflexivity|].
  destruct r as [|c r]; [simpl in H; discriminate|].
  cbn [gfm_filter] in H. destruct (Hp cl (or_introl eq_refl)) as [H60 H38].
  destruct (N.eqb c flow_open && tag_ahead r) eqn:E.
  - apply andb_true_iff in E as [E _]. apply N.eqb_eq in E. rewrite flow_open_is in E. subst c.
    rewrite replace_open_60 in H. cbn [app pat_match] in H. rewrite H38 in H. discriminate.
  - cbn [pat_match] in *. apply andb_true_iff in H as [H1 H2]. rewrite H1. simpl.
    apply IH; auto. intros cl' Hcl'. apply Hp. right. exact Hcl'.
Qed.

Lemma opens_tag_local r : opens_tag (gfm_filter r) = true -> opens_tag r = true.
Proof.
  unfold opens_tag. rewrite !existsb_exists. intros [p [Hp Hm]]. exists p. split; [exact Hp|].
  apply pat_local; auto. intros cl Hcl.
  pose proof F_local as F. rewrite forallb_forall in F. specialize (F p Hp). rewrite forallb_forall in F.
  specialize (F cl Hcl). apply andb_true_iff in F as [F1 F2]. apply negb_true_iff in F1, F2. auto.
Qed.

Theorem gfm_no_occ t : no_occ (gfm_filter t) = true.
Proof.
  induction t as [|c r IH]; [reflexivity|]. cbn [gfm_filter].
  destruct (N.eqb c flow_open && tag_ahead r) eqn:E.
  - apply andb_true_iff in E as [E _]. apply N.eqb_eq in E. rewrite flow_open_is in E. subst c.
    rewrite replace_open_60. cbn [app no_occ N.eqb Pos.eqb andb negb]. exact IH.
  - cbn [no_occ]. rewrite IH, andb_true_r. apply negb_true_iff.
    destruct (N.eqb c 60) eqn:Ec; [|reflexivity]. simpl.
    destruct (opens_tag (gfm_filter r)) eqn:Eo; [|reflexivity].
    apply opens_tag_local, opens_tag_ahead in Eo.
    apply N.eqb_eq in Ec. subst c. rewrite flow_open_is in E. simpl in E. congruence.
Qed.

Lemma no_occ_skipn s : no_occ s = true -> forall i,
  match skipn i s with c :: r => N.eqb c 60 && opens_tag r | [] => false end = false.
Proof.
  induction s as [|c r IH]; intros H i.
  - destruct i; reflexivity.
  - cbn [no_occ] in H. apply andb_true_iff in H as [H1 H2]. apply negb_true_iff in H1.
    destruct i as [|i]; simpl; auto.
Qed.

Theorem gfm_neutral t : Neutral t (gfm_filter t).
Proof.
  induction t as [|c r IH]; [constructor|]. cbn [gfm_filter].
  destruct (N.eqb c flow_open && tag_ahead r) eqn:E.
  - apply andb_true_iff in E as [E1 E2]. apply N.eqb_eq in E1. rewrite flow_open_is in E1. subst c.
    rewrite replace_open_60. apply N_repl; auto.
  - apply N_keep. exact IH.
Qed.

(* C17_gfm_filter_neutralises *)
Theorem gfm_filter_neutralises (text : str) :
  (forall i, match skipn i (gfm_filter text) with c :: r => N.eqb c 60 && opens_tag r | [] => false end = false)
  /\ Neutral text (gfm_filter text).
Proof. split; [apply no_occ_skipn, gfm_no_occ|apply gfm_neutral]. Qed.

(* ---------- which characters the case-insensitive match of RE_FLOW covers ---------- *)

(* re.IGNORECASE on a str pattern: besides the two ASCII cases, 'i' also matches U+0130 and
   U+0131 (dotted capital / dotless small i) and 's' also matches U+017F (long s); no other
   letter of the tag list has a non-ASCII case variant. *)
Definition spec_ci (l : N) : list N :=
  [l - 32; l] ++ (if N.eqb l 105 then [304; 305] else if N.eqb l 115 then [383] else []).

Lemma casefold_classes : Forall (fun l => flow_ci l = spec_ci l) (concat flow_tags).
Proof. repeat constructor. Qed.

(* ---------- un-filtering ---------- *)

Definition s_lt_tail : str := [108; 116; 59].     (* "lt;" *)

(* rewrite every "&lt;" that is followed by what RE_FLOW matches after a '<' back to '<' *)
Fixpoint unf (skip : nat) (s : str) : str :=
  match s with
  | [] => []
  | c :: r =>
      match skip with
      | S k => unf k r
      | O => if N.eqb c 38 && startswith r s_lt_tail && tag_ahead (skipn 3 r)
             then 60 :: unf 3 r else c :: unf 0 r
      end
  end.

Definition unfilter (s : str) : str := unf 0 s.

(* the text holds no "&lt;" + tag of its own *)
Fixpoint no_esc (s : str) : bool :=
  match s with
  | [] => true
  | c :: r => negb (N.eqb c 38 && startswith r s_lt_tail && tag_ahead (skipn 3 r)) && no_esc r
  end.

Lemma F_local_re : forallb (fun p => forallb (fun cl : cls => negb (cl 60) && negb (cl 38)) p) (tag_pats re_ci) = true.
Proof. vm_compute. reflexivity. Qed.

Lemma pat_local_conv (p : list cls) :
  (forall cl, In cl p -> cl 60 = false) ->
  forall r, pat_match p r = true -> pat_match p (gfm_filter r) = true.
Proof.
  induction p as [|cl p IH]; intros Hp r H; [reflexivity|].
  destruct r as [|c r]; [discriminate|]. cbn [pat_match] in H. apply andb_true_iff in H as [H1 H2].
  cbn [gfm_filter]. assert (E : N.eqb c flow_open = false).
  { rewrite flow_open_is. destruct (N.eqb c 60) eqn:E; auto. apply N.eqb_eq in E. subst c.
    rewrite (Hp cl (or_introl eq_refl)) in H1. discriminate. }
  rewrite E. cbn [andb pat_match]. rewrite H1. simpl. apply IH; auto. intros cl' Hcl'. apply Hp. right. exact Hcl'.
Qed.

Lemma tag_ahead_filter r : tag_ahead (gfm_filter r) = tag_ahead r.
Proof.
  assert (L : forall p, In p (tag_pats re_ci) -> forall cl, In cl p -> cl 60 = false /\ cl 38 = false).
  { intros p Hp cl Hcl. pose proof F_local_re as F. rewrite forallb_forall in F. specialize (F p Hp).
    rewrite forallb_forall in F. specialize (F cl Hcl). apply andb_true_iff in F as [F1 F2].
    apply negb_true_iff in F1, F2. auto. }
  unfold tag_ahead. destruct (existsb (fun p => pat_match p r) (tag_pats re_ci)) eqn:E.
  - apply existsb_exists in E as [p [Hp Hm]]. apply existsb_exists. exists p. split; auto.
    apply pat_local_conv; auto. intros cl Hcl. apply (L p Hp cl Hcl).
  - destruct (existsb (fun p => pat_match p (gfm_filter r)) (tag_pats re_ci)) eqn:E'; auto.
    apply existsb_exists in E' as [p [Hp Hm]]. apply pat_local in Hm; [|apply (L p Hp)].
    assert (existsb (fun p => pat_match p r) (tag_pats re_ci) = true) by (apply existsb_exists; eauto). congruence.
Qed.

Definition lt_pat : list cls := [cls_eq 108; cls_eq 116; cls_eq 59].

Lemma sw_step c p a r : startswith (a :: r) (c :: p) = N.eqb a c && startswith r p.
Proof. simpl. rewrite N.eqb_sym. reflexivity. Qed.

Lemma startswith_pat r : startswith r s_lt_tail = pat_match lt_pat r.
Proof.
  unfold lt_pat, s_lt_tail.
  destruct r as [|a r]; [reflexivity|]. rewrite sw_step. cbn [pat_match]. unfold cls_eq at 1. f_equal.
  destruct r as [|b r]; [reflexivity|]. rewrite sw_step. cbn [pat_match]. unfold cls_eq at 1. f_equal.
  destruct r as [|c r]; [reflexivity|]. rewrite sw_step. cbn [pat_match]. unfold cls_eq at 1. f_equal.
  destruct r; reflexivity.
Qed.

Lemma lt_pat_local : forall cl, In cl lt_pat -> cl 60 = false /\ cl 38 = false.
Proof. intros cl [<-|[<-|[<-|[]]]]; split; reflexivity. Qed.

Lemma startswith_filter r : startswith (gfm_filter r) s_lt_tail = startswith r s_lt_tail.
Proof.
  rewrite !startswith_pat. destruct (pat_match lt_pat r) eqn:E.
  - apply pat_local_conv; auto. intros cl Hcl. apply lt_pat_local. exact Hcl.
  - destruct (pat_match lt_pat (gfm_filter r)) eqn:E'; auto.
    apply pat_local in E'; [congruence|apply lt_pat_local].
Qed.

Lemma filter_lt_tail r : startswith r s_lt_tail = true ->
  exists r', r = s_lt_tail ++ r' /\ gfm_filter r = s_lt_tail ++ gfm_filter r'.
Proof.
  unfold s_lt_tail.
  destruct r as [|a r]; [discriminate|]. rewrite sw_step. intro H. apply andb_true_iff in H as [Ha H].
  destruct r as [|b r]; [discriminate|]. rewrite sw_step in H. apply andb_true_iff in H as [Hb H].
  destruct r as [|c r]; [discriminate|]. rewrite sw_step in H. apply andb_true_iff in H as [Hc _].
  apply N.eqb_eq in Ha, Hb, Hc. subst a b c. exists r. split; reflexivity.
Qed.

Lemma unf_amp_lt r : unf 0 (38 :: 108 :: 116 :: 59 :: r) = if tag_ahead r then 60 :: unf 0 r else 38 :: unf 0 (108 :: 116 :: 59 :: r).
Proof.
  assert (H0 : startswith (108 :: 116 :: 59 :: r) s_lt_tail = true).
  { unfold s_lt_tail. rewrite !sw_step, !N.eqb_refl. destruct r; reflexivity. }
  cbn [unf]. rewrite N.eqb_refl, H0. cbn [skipn andb]. destruct (tag_ahead r); reflexivity.
Qed.

Lemma unf_other c r : N.eqb c 38 && startswith r s_lt_tail = false -> unf 0 (c :: r) = c :: unf 0 r.
Proof. intro H. cbn [unf]. rewrite H. reflexivity. Qed.

Lemma unfilter_filter_len : forall n t, (length t <= n)%nat -> unf 0 (gfm_filter t) = unf 0 t.
Proof.
  induction n as [|n IH]; intros t Hn.
  - destruct t; [reflexivity|simpl in Hn; inversion Hn].
  - destruct t as [|c r]; [reflexivity|]. simpl in Hn. cbn [gfm_filter].
    destruct (N.eqb c flow_open && tag_ahead r) eqn:E.
    + apply andb_true_iff in E as [E1 E2]. apply N.eqb_eq in E1. rewrite flow_open_is in E1. subst c.
      rewrite replace_open_60. change ([38; 108; 116; 59] ++ gfm_filter r) with (38 :: 108 :: 116 :: 59 :: gfm_filter r).
      rewrite unf_amp_lt, tag_ahead_filter, E2. rewrite (unf_other 60 r) by reflexivity.
      f_equal. apply IH. apply le_S_n in Hn. exact Hn.
    + destruct (N.eqb c 38 && startswith r s_lt_tail) eqn:E2.
      * apply andb_true_iff in E2 as [Ec E3]. apply N.eqb_eq in Ec. subst c.
        destruct (filter_lt_tail r E3) as [r' [-> Hf]]. rewrite Hf. unfold s_lt_tail. cbn [app].
        rewrite !unf_amp_lt, tag_ahead_filter. simpl in Hn. apply le_S_n in Hn.
        destruct (tag_ahead r').
        -- f_equal. apply IH. lia.
        -- f_equal. change (108 :: 116 :: 59 :: gfm_filter r') with ([108; 116; 59] ++ gfm_filter r').
           fold s_lt_tail. rewrite <- Hf. apply IH. exact Hn.
      * rewrite (unf_other c r E2). rewrite unf_other by (rewrite startswith_filter; exact E2).
        f_equal. apply IH. apply le_S_n in Hn. exact Hn.
Qed.

Lemma unf_no_esc t : no_esc t = true -> unf 0 t = t.
Proof.
  induction t as [|c r IH]; intro H; [reflexivity|]. cbn [no_esc] in H. apply andb_true_iff in H as [H1 H2].
  apply negb_true_iff in H1. cbn [unf]. rewrite H1. f_equal. apply IH. exact H2.
Qed.

(* un-filtering undoes the filter (and nothing but "&lt;" + tag is touched by either) *)
Theorem gfm_unfilter (text : str) :
  unfilter (gfm_filter text) = unfilter text
  /\ (no_esc text = true -> unfilter (gfm_filter text) = text).
Proof.
  unfold unfilter. split.
  - apply (unfilter_filter_len (length text)). apply le_n.
  - intro H. rewrite (unfilter_filter_len (length text)) by apply le_n. apply unf_no_esc. exact H.
Qed.

(* non-vacuity: <script> is neutralised, <scripts> is not touched *)
Example gfm_example :
  gfm_filter [60;83;99;114;105;112;116;62;60;115;99;114;105;112;116;115;62]
  = [38;108;116;59;83;99;114;105;112;116;62;60;115;99;114;105;112;116;115;62].
Proof. vm_compute. reflexivity. Qed.

(* ------------------------------------------------------------------ pass-through *)
Local Open Scope nat_scope.

Lemma adopt_same st self : forall items,
  (forall k, In k items -> exists c, nth_error st k = Some c /\ c_parent c = Some self) ->
  adopt st self items = Ok st.
Proof.
  induction items as [|k r IH]; intro H; simpl; auto.
  destruct (H k (or_introl eq_refl)) as [c [Hc Hp]]. rewrite (get_Some _ _ _ Hc). cbn [bind].
  rewrite Hp, Nat.eqb_refl. cbn [bind]. apply IH. intros k' Hk'. apply H. right. exact Hk'.
Qed.

(* tokenize_html(text).strip(inplace=True, recurse=False) never raises *)
Lemma strip_root_ok t : binv t ->
  exists st croot, strip_inplace (S (length (t_cells t))) (t_cells t) (t_outmost t) false = Ok st
                   /\ get st (t_outmost t) = Ok croot
                   /\ Forall (fun j => j < length st) (c_children croot).
Proof.
  intros B. pose proof (b_ok _ B) as Hok. rewrite (b_out _ B).
  destruct (ok_root _ Hok) as [c0 [H0 _]]. rewrite strip_unfold, (get_Some _ _ _ H0). cbn [bind].
  assert (Hv : Forall (fun j => j < length (t_cells t)) (c_children c0)).
  { apply Forall_forall. intros j Hj. destruct (ok_child _ Hok _ _ _ H0 Hj) as [_ [? _]]. auto. }
  rewrite (keep_children_filter _ _ Hv). cbn [bind]. unfold reset_children.
  rewrite adopt_same.
  - cbn [bind]. unfold upd. rewrite (get_Some _ _ _ H0). cbn [bind]. eexists. eexists. split; [reflexivity|].
    split.
    + apply get_Some. apply nth_error_set_nth_eq. eapply nth_error_Some_lt; eauto.
    + cbn [set_children c_children]. rewrite set_nth_length. apply Forall_forall. intros j Hj.
      apply filter_In in Hj as [Hj _]. rewrite Forall_forall in Hv. auto.
  - intros k Hk. apply filter_In in Hk as [Hk _]. destruct (ok_child _ Hok _ _ _ H0 Hk) as [_ [Hl Hp]].
    unfold parent_of in Hp. destruct (nth_error (t_cells t) k) as [c|]; [|discriminate]. eauto.
Qed.

Lemma all_convertible_ok img adm st ids :
  Forall (fun j => j < length st) ids -> exists b, all_convertible img adm st ids = Ok b.
Proof.
  unfold all_convertible. induction 1 as [|j ids Hj _ IH]; [eauto|].
  destruct (nth_error_lt_Some _ _ Hj) as [c Hc]. rewrite (get_Some _ _ _ Hc). cbn [bind].
  destruct (convertible img adm c); eauto.
Qed.

Definition filtered (gfm : bool) (text : str) : str := if gfm then gfm_filter text else text.

(* C17_passthrough *)
Theorem passthrough (parse : str -> list event) (gfm img adm : bool) (text : str) :
  let t' := filtered gfm text in
  let o := html_to_nodes parse gfm img adm text in
  (* neither extension on: exactly one raw node with the (filtered) input *)
  (img = false -> adm = false -> o = ORaw t')
  (* the parse-failure branch is never taken *)
  /\ (forall x, o <> OWarnRaw x)
  (* anything but the raw node requires a non-empty tree all of whose top-level elements are
     img / div.admonition elements of an enabled extension *)
  /\ (o = ORaw t'
      \/ exists t st croot,
           tokenize parse t' [] = Ok t
           /\ strip_inplace (S (length (t_cells t))) (t_cells t) (t_outmost t) false = Ok st
           /\ get st (t_outmost t) = Ok croot
           /\ c_children croot <> []
           /\ all_convertible img adm st (c_children croot) = Ok true
           /\ (img || adm) = true).
Proof.
  cbv zeta. unfold html_to_nodes, filtered. cbv zeta.
  set (t' := if gfm then gfm_filter text else text).
  destruct (img || adm) eqn:Eia; cbn [negb].
  2:{ split; [reflexivity|]. split; [discriminate|]. left. reflexivity. }
  destruct (build_total [] (parse t')) as [t [Ht _]].
  pose proof (build_binv _ _ _ Ht) as B.
  destruct (strip_root_ok t B) as [st [croot [Hst [Hroot Hvalid]]]].
  unfold tokenize. rewrite Ht. cbn [bind]. rewrite Hst. cbn [bind]. rewrite Hroot. cbn [bind].
  split.
  { intros -> ->. discriminate. }
  destruct (c_children croot) as [|k ks] eqn:Ech.
  { split; [discriminate|]. left. reflexivity. }
  destruct (all_convertible img adm st (k :: ks)) as [[|]|e] eqn:Eall.
  - destruct (convert st (k :: ks) []) as [o|e] eqn:Ec.
    + split.
      * (* convert never yields OWarnRaw *)
        intros x Hx. subst o. revert Ec. generalize (@nil directive). generalize (k :: ks).
        induction l as [|i r IH]; intros acc Ec; simpl in Ec.
        -- discriminate.
        -- destruct (get st i) as [c|]; [|discriminate]. cbn [bind] in Ec.
           destruct (str_eqb (c_name c) s_img).
           ++ destruct (img_directive c); [eapply IH; eauto|discriminate].
           ++ destruct (admonition_directive st i); [|discriminate]. cbn [bind] in Ec. eapply IH; eauto.
      * right. exists t, st, croot. rewrite Ech. repeat split; auto; discriminate.
    + split; [discriminate|]. right. exists t, st, croot. rewrite Ech. repeat split; auto; discriminate.
  - split; [discriminate|]. left. reflexivity.
  - exfalso. destruct (all_convertible_ok img adm st _ Hvalid) as [b Hb]. congruence.
Qed.

(* ---------- the fuel of hex suffices: hex n denotes n (no silent truncation) ---------- *)
Local Open Scope N_scope.

Definition hexdigit_val (c : N) : N := if c <? 58 then c - 48 else c - 87.
Definition hval (s : str) : N := fold_left (fun a c => 16 * a + hexdigit_val c) s 0.

Lemma fold_hval_acc s : forall a,
  fold_left (fun a c => 16 * a + hexdigit_val c) s a = a * 16 ^ N.of_nat (length s) + hval s.
Proof.
  unfold hval. induction s as [|c s IH]; intro a.
  - simpl. lia.
  - cbn [fold_left length]. rewrite IH, (IH (16 * 0 + hexdigit_val c)). rewrite Nat2N.inj_succ, N.pow_succ_r'. lia.
Qed.

Lemma hexdigit_val_digit m : m < 16 -> hexdigit_val (hexdigit m) = m.
Proof.
  intro H. unfold hexdigit, hexdigit_val. destruct (m <? 10) eqn:E.
  - apply N.ltb_lt in E. assert (E2 : 48 + m <? 58 = true) by (apply N.ltb_lt; lia). rewrite E2. lia.
  - apply N.ltb_ge in E. assert (E2 : 87 + m <? 58 = false) by (apply N.ltb_ge; lia). rewrite E2. lia.
Qed.

Lemma hex_fuel_val : forall fuel n acc,
  n < 2 ^ N.of_nat fuel ->
  hval (hex_fuel fuel n acc) = n * 16 ^ N.of_nat (length acc) + hval acc.
Proof.
  induction fuel as [|f IH]; intros n acc Hn.
  - simpl in Hn. assert (n = 0) by lia. subst. simpl. lia.
  - cbn [hex_fuel].
    assert (Hmod : n mod 16 < 16) by (apply N.mod_lt; lia).
    assert (Hdiv : n = 16 * (n / 16) + n mod 16) by (apply N.div_mod; lia).
    set (q := n / 16) in *. set (m := n mod 16) in *.
    assert (Hc : hval (hexdigit m :: acc) = m * 16 ^ N.of_nat (length acc) + hval acc).
    { unfold hval at 1. cbn [fold_left]. rewrite fold_hval_acc, hexdigit_val_digit by exact Hmod. lia. }
    destruct (q =? 0) eqn:E.
    + apply N.eqb_eq in E. rewrite Hc. rewrite E in Hdiv. lia.
    + apply N.eqb_neq in E. rewrite IH.
      * rewrite Hc. cbn [length]. rewrite Nat2N.inj_succ, N.pow_succ_r'. lia.
      * rewrite Nat2N.inj_succ, N.pow_succ_r' in Hn. lia.
Qed.

Lemma hval_hex n : hval (hex n) = n.
Proof.
  unfold hex. rewrite hex_fuel_val.
  - simpl. unfold hval. simpl. lia.
  - rewrite Nat2N.inj_succ, N2Nat.id.
    destruct n as [|p]; [simpl; lia|].
    apply N.log2_lt_pow2; lia.
Qed.

Lemma hex_inj a b : hex a = hex b -> a = b.
Proof. intro H. rewrite <- (hval_hex a), <- (hval_hex b), H. reflexivity. Qed.
