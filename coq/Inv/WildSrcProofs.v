(* The definition regenerated from inventory.py (Gen/WildSrc.v) equals the hand-written model.
   This is the proof obligation that an edit of _create_regex / match_with_wildcard breaks. *)
From Coq Require Import List NArith Bool.
From MV Require Import Base.PyStr.
From MV Require Import Inv.WildModel.
From MV Require Import Inv.WildProofs.
From MV Require Import Gen.WildSrc.
Import ListNotations.
Open Scope N_scope.

Definition flush (st : option (list pe * bool) * list pe * bool) : list pe :=
  let '(_, acc, bl) := st in if bl then acc ++ [PLit c_bsl] else acc.

Lemma comp_true_cons' c p :
  comp true (c :: p) =
  if c =? c_star then PLit c_star :: comp false p
  else PLit c_bsl :: (if c =? c_bsl then comp true p
                      else if c =? c_star then PStar :: comp false p else PLit c :: comp false p).
Proof.
  rewrite comp_true_cons. destruct (c =? c_star) eqn:E; [reflexivity|].
  destruct (c =? c_bsl); reflexivity.
Qed.

Section Step.
  Variable step : option (list pe * bool) * list pe * bool -> N -> option (list pe * bool) * list pe * bool.
  Hypothesis step_spec : forall acc bl c,
    step (None, acc, bl) c =
    if andb bl (c =? 42) then (None, acc ++ [PLit c], false)
    else if bl then
      (if c =? 92 then (None, acc ++ [PLit 92], true)
       else if c =? 42 then (None, (acc ++ [PLit 92]) ++ [PStar], false)
       else (None, (acc ++ [PLit 92]) ++ [PLit c], false))
    else
      (if c =? 92 then (None, acc, true)
       else if c =? 42 then (None, acc ++ [PStar], false)
       else (None, acc ++ [PLit c], false)).

  Lemma fold_step p : forall acc bl,
    fst (fst (fold_left step p (None, acc, bl))) = None /\
    flush (fold_left step p (None, acc, bl)) = acc ++ comp bl p.
  Proof.
    induction p as [|c p IH]; intros acc bl.
    - simpl. split; [reflexivity|]. destruct bl; [reflexivity | rewrite app_nil_r; reflexivity].
    - cbn [fold_left]. rewrite step_spec.
      destruct bl.
      + rewrite comp_true_cons'. unfold c_star, c_bsl. cbn [andb].
        destruct (c =? 42) eqn:E42.
        * apply N.eqb_eq in E42. subst c.
          destruct (IH (acc ++ [PLit 42]) false) as [H1 H2]. split; [exact H1|].
          rewrite H2, <- app_assoc. reflexivity.
        * destruct (c =? 92) eqn:E92.
          -- destruct (IH (acc ++ [PLit 92]) true) as [H1 H2]. split; [exact H1|].
             rewrite H2, <- app_assoc. reflexivity.
          -- destruct (IH ((acc ++ [PLit 92]) ++ [PLit c]) false) as [H1 H2]. split; [exact H1|].
             rewrite H2, <- !app_assoc. reflexivity.
      + rewrite comp_false_cons. unfold c_star, c_bsl. cbn [andb].
        destruct (c =? 92) eqn:E92.
        * apply IH.
        * destruct (c =? 42) eqn:E42.
          -- destruct (IH (acc ++ [PStar]) false) as [H1 H2]. split; [exact H1|].
             rewrite H2, <- app_assoc. reflexivity.
          -- destruct (IH (acc ++ [PLit c]) false) as [H1 H2]. split; [exact H1|].
             rewrite H2, <- app_assoc. reflexivity.
  Qed.
End Step.

Theorem create_regex_src_eq p : create_regex_src p = (create_regex p, true).
Proof.
  unfold create_regex_src, create_regex.
  match goal with |- context [fold_left ?f p ?i] => set (step := f) end.
  assert (Hs : forall acc bl c,
    step (None, acc, bl) c =
    if andb bl (c =? 42) then (None, acc ++ [PLit c], false)
    else if bl then
      (if c =? 92 then (None, acc ++ [PLit 92], true)
       else if c =? 42 then (None, (acc ++ [PLit 92]) ++ [PStar], false)
       else (None, (acc ++ [PLit 92]) ++ [PLit c], false))
    else
      (if c =? 92 then (None, acc, true)
       else if c =? 42 then (None, acc ++ [PStar], false)
       else (None, acc ++ [PLit c], false))).
  { intros acc bl c. subst step. cbv beta iota.
    destruct bl; cbn [andb]; destruct (c =? 42); destruct (c =? 92); reflexivity. }
  destruct (fold_step step Hs p [] false) as [H1 H2].
  destruct (fold_left step p (None, [], false)) as [[r acc] bl].
  cbn [fst] in H1. subst r. cbn [flush] in H2. cbn [app] in H2.
  destruct bl; rewrite <- H2; reflexivity.
Qed.

Theorem match_with_wildcard_src_eq n p : match_with_wildcard_src n p = match_with_wildcard n p.
Proof.
  unfold match_with_wildcard_src, match_with_wildcard. destruct p as [p|]; [|reflexivity].
  rewrite create_regex_src_eq. reflexivity.
Qed.

(* the documented semantics, for the definition regenerated from the source *)
Theorem wildcard_correct_src (n p : str) :
  match_with_wildcard_src n (Some p) = true <-> Matches p n.
Proof. rewrite match_with_wildcard_src_eq. apply wildcard_correct. Qed.
