From Coq Require Import List NArith Bool Lia.
From MV Require Import Base.PyStr Inv.WildModel Inv.SphinxModel.
Import ListNotations.
Open Scope N_scope.

(* ---------- association-list dictionary facts ---------- *)

Lemma upd_notin {V} k (f : option V -> V) d :
  ~ In k (map fst d) -> upd k f d = d ++ [(k, f None)].
Proof.
  induction d as [|[k' v] d IH]; simpl; intro H; [reflexivity|].
  destruct (str_eqb k k') eqn:E.
  - apply str_eqb_eq in E. subst. exfalso. apply H. left. reflexivity.
  - rewrite IH; [reflexivity|]. intro Hin. apply H. right. exact Hin.
Qed.

Lemma upd_app_last {V} k (f : option V -> V) d v :
  ~ In k (map fst d) -> upd k f (d ++ [(k, v)]) = d ++ [(k, f (Some v))].
Proof.
  induction d as [|[k' v'] d IH]; simpl; intro H.
  - rewrite str_eqb_refl. reflexivity.
  - destruct (str_eqb k k') eqn:E.
    + apply str_eqb_eq in E. subst. exfalso. apply H. left. reflexivity.
    + rewrite IH; [reflexivity|]. intro Hin. apply H. right. exact Hin.
Qed.

Lemma nodup_keys_cons {V} k (v : V) d :
  nodup_keys ((k, v) :: d) = true -> ~ In k (map fst d) /\ nodup_keys d = true.
Proof.
  simpl. intro H. apply andb_true_iff in H as [H1 H2]. split; [|exact H2].
  intro Hin. apply mem_str_In in Hin. rewrite Hin in H1. discriminate.
Qed.

(* ---------- to_sphinx builds the grouped list ---------- *)

Definition conv (inv : inventory) (e : str * item) : str * sitem :=
  let '(n, it) := e in (n, (inv_name inv, inv_version inv, it_loc it, text_or_dash (it_text it))).

Definition step_ref (inv : inventory) (K : str) (objs : sinv) (e : str * item) : sinv :=
  let '(n, it) := e in
  upd K (fun o => upd n (fun _ => (inv_name inv, inv_version inv, it_loc it, text_or_dash (it_text it)))
                      (match o with None => [] | Some m => m end)) objs.

Lemma fold_refs_tail inv K : forall refs objs m,
  ~ In K (map fst objs) ->
  nodup_keys refs = true ->
  (forall n, In n (map fst refs) -> ~ In n (map fst m)) ->
  fold_left (step_ref inv K) refs (objs ++ [(K, m)]) = objs ++ [(K, m ++ map (conv inv) refs)].
Proof.
  induction refs as [|[n it] refs IH]; intros objs m HK Hnd Hfresh; simpl.
  - rewrite app_nil_r. reflexivity.
  - apply nodup_keys_cons in Hnd as [Hn Hnd].
    rewrite upd_app_last by exact HK.
    rewrite upd_notin by (apply Hfresh; left; reflexivity).
    rewrite IH; try assumption.
    + rewrite <- app_assoc. reflexivity.
    + intros n' Hin. rewrite map_app, in_app_iff. intros [H|H].
      * apply (Hfresh n'); [right; exact Hin | exact H].
      * simpl in H. destruct H as [H|[]]. subst. contradiction.
Qed.

Definition group_refs (inv : inventory) (K : str) (refs : list (str * item)) : sinv :=
  match refs with [] => [] | _ => [(K, map (conv inv) refs)] end.

Lemma fold_refs inv K refs objs :
  ~ In K (map fst objs) -> nodup_keys refs = true ->
  fold_left (step_ref inv K) refs objs = objs ++ group_refs inv K refs.
Proof.
  intros HK Hnd. destruct refs as [|[n it] refs]; simpl.
  - rewrite app_nil_r. reflexivity.
  - apply nodup_keys_cons in Hnd as [Hn Hnd].
    rewrite upd_notin by exact HK. cbn [upd].
    rewrite fold_refs_tail; try assumption.
    + reflexivity.
    + intros n' Hin [H|[]]. simpl in H. subst. contradiction.
Qed.

Lemma skey_same_domain d t t' : skey d t = skey d t' -> t = t'.
Proof. unfold skey. intro H. apply app_inv_head in H. inversion H. reflexivity. Qed.

Lemma mem_N_cons x c d : mem_N x (c :: d) = (x =? c) || mem_N x d.
Proof. reflexivity. Qed.

Lemma skey_inj d d' t t' :
  mem_N c_colon d = false -> mem_N c_colon d' = false ->
  skey d t = skey d' t' -> d = d' /\ t = t'.
Proof.
  unfold skey. revert d'. induction d as [|c d IH]; intros [|c' d'] Hd Hd' H.
  - inversion H. auto.
  - simpl in H. inversion H. subst. rewrite mem_N_cons, N.eqb_refl in Hd'. discriminate.
  - simpl in H. inversion H. subst. rewrite mem_N_cons, N.eqb_refl in Hd. discriminate.
  - simpl in H. inversion H. subst. rewrite mem_N_cons in Hd, Hd'.
    apply orb_false_iff in Hd as [_ Hd]. apply orb_false_iff in Hd' as [_ Hd'].
    destruct (IH d' Hd Hd' H2) as [E1 E2]. subst. auto.
Qed.

Definition step_type (inv : inventory) (d : str) (objs : sinv) (e : str * list (str * item)) : sinv :=
  let '(t, refs) := e in fold_left (step_ref inv (skey d t)) refs objs.

Definition group_types (inv : inventory) (d : str) (types : list (str * list (str * item))) : sinv :=
  flat_map (fun '(t, refs) => group_refs inv (skey d t) refs) types.

Lemma group_refs_keys inv K refs k : In k (map fst (group_refs inv K refs)) -> k = K.
Proof. destruct refs; simpl; [tauto | intros [H|[]]; auto]. Qed.

Lemma group_types_keys inv d types k :
  In k (map fst (group_types inv d types)) -> exists t, In t (map fst types) /\ k = skey d t.
Proof.
  induction types as [|[t refs] types IH]; simpl; [tauto|].
  rewrite map_app, in_app_iff. intros [H|H].
  - apply group_refs_keys in H. exists t. auto.
  - destruct (IH H) as [t' [H1 H2]]. exists t'. auto.
Qed.

Lemma fold_types inv d : forall types objs,
  (forall t, In t (map fst types) -> ~ In (skey d t) (map fst objs)) ->
  nodup_keys types = true ->
  forallb (fun '(t, refs) => nodup_keys refs) types = true ->
  fold_left (step_type inv d) types objs = objs ++ group_types inv d types.
Proof.
  induction types as [|[t refs] types IH]; intros objs Hfresh Hnd Hrefs; simpl.
  - rewrite app_nil_r. reflexivity.
  - apply nodup_keys_cons in Hnd as [Ht Hnd].
    simpl in Hrefs. apply andb_true_iff in Hrefs as [Hr Hrefs].
    rewrite fold_refs; [| apply Hfresh; left; reflexivity | exact Hr].
    rewrite IH; try assumption.
    + rewrite <- app_assoc. reflexivity.
    + intros t' Hin. rewrite map_app, in_app_iff. intros [H|H].
      * apply (Hfresh t'); [right; exact Hin | exact H].
      * apply group_refs_keys in H. apply skey_same_domain in H. subst. contradiction.
Qed.

Definition step_dom (inv : inventory) (objs : sinv) (e : str * list (str * list (str * item))) : sinv :=
  let '(d, types) := e in fold_left (step_type inv d) types objs.

Definition grouped_of (inv : inventory) (doms : objs_t) : sinv :=
  flat_map (fun '(d, types) => group_types inv d types) doms.

Definition wf_dom (e : str * list (str * list (str * item))) : bool :=
  let '(d, types) := e in
  negb (mem_N c_colon d) && nodup_keys types &&
  forallb (fun '(t, refs) => nodup_keys refs && forallb (fun '(n, it) => text_ok (it_text it)) refs) types.

Lemma wf_dom_parts d types : wf_dom (d, types) = true ->
  mem_N c_colon d = false /\ nodup_keys types = true /\
  forallb (fun '(t, refs) => nodup_keys refs) types = true.
Proof.
  unfold wf_dom. intro H. apply andb_true_iff in H as [H H3]. apply andb_true_iff in H as [H1 H2].
  split; [destruct (mem_N c_colon d); [discriminate | reflexivity] | split; [exact H2|]].
  clear -H3. induction types as [|[t refs] types IH]; simpl in *; [reflexivity|].
  apply andb_true_iff in H3 as [Ha Hb]. apply andb_true_iff in Ha as [Ha _].
  rewrite Ha, (IH Hb). reflexivity.
Qed.

Lemma fold_doms inv : forall doms objs,
  (forall d t, In d (map fst doms) -> ~ In (skey d t) (map fst objs)) ->
  nodup_keys doms = true -> forallb wf_dom doms = true ->
  fold_left (step_dom inv) doms objs = objs ++ grouped_of inv doms.
Proof.
  induction doms as [|[d types] doms IH]; intros objs Hfresh Hnd Hwf; simpl.
  - rewrite app_nil_r. reflexivity.
  - apply nodup_keys_cons in Hnd as [Hd Hnd].
    simpl in Hwf. apply andb_true_iff in Hwf as [Hw Hwf].
    destruct (wf_dom_parts _ _ Hw) as [Hc [Hnt Hnr]].
    rewrite fold_types; try assumption.
    2:{ intros t _. apply Hfresh. left. reflexivity. }
    rewrite IH; try assumption.
    + rewrite <- app_assoc. reflexivity.
    + intros d' t' Hin. rewrite map_app, in_app_iff. intros [H|H].
      * apply (Hfresh d' t'); [right; exact Hin | exact H].
      * apply group_types_keys in H as [t [_ H]].
        assert (Hc' : mem_N c_colon d' = false).
        { clear -Hin Hwf. induction doms as [|[d2 ty2] doms IH]; simpl in *; [tauto|].
          apply andb_true_iff in Hwf as [Hw Hwf]. destruct Hin as [E|Hin].
          - subst. apply wf_dom_parts in Hw. tauto.
          - apply IH; assumption. }
        destruct (skey_inj _ _ _ _ Hc' Hc H) as [E _]. subst. contradiction.
Qed.

Lemma to_sphinx_unfold inv : to_sphinx inv = fold_left (step_dom inv) (inv_objects inv) [].
Proof.
  unfold to_sphinx, step_dom, step_type, step_ref.
  f_equal.
Qed.

Lemma wf_inv_parts inv : wf_inv inv = true ->
  nodup_keys (inv_objects inv) = true /\ forallb wf_dom (inv_objects inv) = true.
Proof. unfold wf_inv. intro H. apply andb_true_iff in H. exact H. Qed.

Theorem to_sphinx_grouped inv :
  wf_inv inv = true -> to_sphinx inv = grouped_of inv (inv_objects inv).
Proof.
  intro H. destruct (wf_inv_parts _ H) as [Hnd Hwf].
  rewrite to_sphinx_unfold. rewrite fold_doms; try assumption; [reflexivity|].
  intros d t _ [].
Qed.

(* ---------- filtering the Sphinx representation ---------- *)

Definition erase_base (m : invmatch) : invmatch :=
  {| m_inv := m_inv m; m_domain := m_domain m; m_otype := m_otype m; m_name := m_name m;
     m_project := m_project m; m_version := m_version m; m_base := None;
     m_loc := m_loc m; m_text := m_text m |}.

Lemma flat_map_flat_map {A B C} (f : B -> list C) (g : A -> list B) l :
  flat_map f (flat_map g l) = flat_map (fun x => flat_map f (g x)) l.
Proof.
  induction l as [|a l IH]; simpl; [reflexivity|].
  rewrite flat_map_app, IH. reflexivity.
Qed.

Lemma map_flat_map' {A B C} (f : B -> C) (g : A -> list B) l :
  map f (flat_map g l) = flat_map (fun x => map f (g x)) l.
Proof.
  induction l as [|a l IH]; simpl; [reflexivity|].
  rewrite map_app, IH. reflexivity.
Qed.

Lemma flat_map_ext_in {A B} (f g : A -> list B) l :
  (forall a, In a l -> f a = g a) -> flat_map f l = flat_map g l.
Proof.
  induction l as [|a l IH]; intro H; simpl; [reflexivity|].
  rewrite (H a (or_introl eq_refl)), IH; [reflexivity|].
  intros; apply H; right; assumption.
Qed.

Lemma flat_map_nil {A B} (l : list A) : flat_map (fun _ => @nil B) l = [].
Proof. induction l; simpl; auto. Qed.

Lemma split_colon_skey d t : mem_N c_colon d = false -> split_colon (skey d t) = Some (d, t).
Proof.
  unfold skey. induction d as [|c d IH]; intro H; simpl.
  - reflexivity.
  - rewrite mem_N_cons in H. apply orb_false_iff in H as [H1 H2].
    rewrite N.eqb_sym in H1. rewrite H1. rewrite (IH H2). reflexivity.
Qed.

Lemma dash_roundtrip t : text_ok t = true -> dash_to_none (text_or_dash t) = t.
Proof.
  destruct t as [x|]; [|reflexivity].
  unfold text_ok. intro H. apply andb_true_iff in H as [H1 H2].
  destruct x as [|c x]; [discriminate|].
  unfold text_or_dash, dash_to_none.
  apply negb_true_iff in H2. rewrite H2. reflexivity.
Qed.

Section OneInventory.
  Variables (iname : str) (inv : inventory) (qd qo qt : option str).

  Definition Fk (e : str * list (str * sitem)) : list invmatch :=
    let '(key, data) := e in
    match split_colon key with
    | None => []
    | Some (dname, oname) =>
        if negb (match_with_wildcard dname qd && match_with_wildcard oname qo) then [] else
        flat_map (fun '(tname, (project, version, loc, text)) =>
          if match_with_wildcard tname qt then
            [{| m_inv := iname; m_domain := dname; m_otype := oname; m_name := tname;
                m_project := project; m_version := version; m_base := None;
                m_loc := loc; m_text := dash_to_none text |}]
          else []) data
    end.

  Definition Hn (dname oname : str) (e : str * item) : list invmatch :=
    let '(tname, it) := e in
    if match_with_wildcard tname qt then
      [{| m_inv := iname; m_domain := dname; m_otype := oname; m_name := tname;
          m_project := inv_name inv; m_version := inv_version inv;
          m_base := inv_base inv; m_loc := it_loc it; m_text := it_text it |}]
    else [].

  Lemma per_type d t refs :
    mem_N c_colon d = false ->
    forallb (fun '(n, it) => text_ok (it_text it)) refs = true ->
    flat_map Fk (group_refs inv (skey d t) refs) =
    map erase_base
      (if negb (match_with_wildcard d qd && match_with_wildcard t qo) then []
       else flat_map (Hn d t) refs).
  Proof.
    intros Hc Hok. destruct refs as [|r refs].
    - simpl. destruct (negb _); reflexivity.
    - unfold group_refs. remember (r :: refs) as rs eqn:Ers.
      change (flat_map Fk [(skey d t, map (conv inv) rs)]) with (Fk (skey d t, map (conv inv) rs) ++ []).
      rewrite app_nil_r. unfold Fk.
      rewrite split_colon_skey by exact Hc.
      destruct (negb (match_with_wildcard d qd && match_with_wildcard t qo)); [reflexivity|].
      rewrite map_flat_map'. rewrite flat_map_concat_map, map_map, <- flat_map_concat_map.
      apply flat_map_ext_in. intros [n it] Hin.
      assert (Hit : text_ok (it_text it) = true).
      { rewrite forallb_forall in Hok. apply (Hok (n, it)). exact Hin. }
      unfold conv, Hn. destruct (match_with_wildcard n qt); [|reflexivity].
      simpl. unfold erase_base. simpl. rewrite (dash_roundtrip _ Hit). reflexivity.
  Qed.

  Lemma per_domain d types :
    wf_dom (d, types) = true ->
    flat_map Fk (group_types inv d types) =
    map erase_base
      (if negb (match_with_wildcard d qd) then [] else
       flat_map (fun '(oname, odata) =>
         if negb (match_with_wildcard oname qo) then [] else flat_map (Hn d oname) odata) types).
  Proof.
    intro Hw. unfold wf_dom in Hw.
    apply andb_true_iff in Hw as [Hw H3]. apply andb_true_iff in Hw as [H1 _].
    assert (Hc : mem_N c_colon d = false) by (destruct (mem_N c_colon d); [discriminate|reflexivity]).
    unfold group_types. rewrite flat_map_flat_map.
    transitivity (flat_map (fun '(t, refs) => map erase_base
       (if negb (match_with_wildcard d qd && match_with_wildcard t qo) then []
        else flat_map (Hn d t) refs)) types).
    - apply flat_map_ext_in. intros [t refs] Hin.
      apply per_type; [exact Hc|].
      rewrite forallb_forall in H3. specialize (H3 _ Hin). simpl in H3.
      apply andb_true_iff in H3 as [_ H3]. exact H3.
    - destruct (match_with_wildcard d qd); simpl.
      + rewrite map_flat_map'. apply flat_map_ext_in. intros [t refs] _. reflexivity.
      + rewrite <- (flat_map_nil types) at 1. apply flat_map_ext_in. intros [t refs] _. reflexivity.
  Qed.
End OneInventory.

Theorem native_equals_sphinx invs qi qd qo qt :
  forallb (fun '(k, i) => wf_inv i) invs = true ->
  filter_sphinx_inventories (map (fun '(k, i) => (k, to_sphinx i)) invs) qi qd qo qt =
  map erase_base (filter_inventories invs qi qd qo qt).
Proof.
  intro Hwf. unfold filter_sphinx_inventories, filter_inventories.
  rewrite map_flat_map'. rewrite flat_map_concat_map, map_map, <- flat_map_concat_map.
  apply flat_map_ext_in. intros [iname inv] Hin.
  rewrite forallb_forall in Hwf. specialize (Hwf _ Hin). simpl in Hwf.
  destruct (negb (match_with_wildcard iname qi)); [reflexivity|].
  rewrite (to_sphinx_grouped _ Hwf).
  destruct (wf_inv_parts _ Hwf) as [_ Hd].
  unfold grouped_of. rewrite flat_map_flat_map. rewrite map_flat_map'.
  apply flat_map_ext_in. intros [d types] Hin2.
  rewrite forallb_forall in Hd. specialize (Hd _ Hin2).
  apply (per_domain iname inv qd qo qt d types Hd).
Qed.

(* the premises are needed: an empty display text does not survive the conversion *)
Theorem sphinx_text_refuted :
  exists invs, filter_sphinx_inventories (map (fun '(k, i) => (k, to_sphinx i)) invs) None None None None
               <> map erase_base (filter_inventories invs None None None None).
Proof.
  exists [([107], {| inv_name := []; inv_version := []; inv_base := None;
                     inv_objects := [([112], [([116], [([110], {| it_loc := [108]; it_text := Some [] |})])])] |})].
  vm_compute. discriminate.
Qed.
