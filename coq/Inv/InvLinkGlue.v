(* C19's inv: link statement transported to the code regenerated from base.py (Gen/InvLinkSrc.v). *)
From Coq Require Import List NArith Bool.
From MV Require Import Base.PyStr.
From MV Require Import Inv.WildModel.
From MV Require Import Inv.LinkModel.
From MV Require Import Inv.LinkProofs.
From MV Require Import Inv.InvLinkPrims.
From MV Require Import Gen.InvLinkSrc.
From MV Require Import Inv.InvLinkSrcProofs.
Import ListNotations.

Section Glue.
Variable normalize_link_text : str -> str.
Variable urlparse : str -> option urlparts.
Variable get_matches : option str -> option str -> option str -> option str -> list invmatch.

Theorem inv_link_render_src token up :
  urlparse (link_href normalize_link_text token) = Some up ->
  let '(invs, domains, otypes) := path_filters (up_path up) in
  let ms := get_matches invs domains otypes (Some (up_fragment up)) in
  let res := render_link_inventory_src normalize_link_text urlparse get_matches token in
  match ms with
  | [] => map fst (fst res) = [W_iref_missing] /\ snd res = None
  | m :: rest =>
      map fst (fst res) = (match rest with [] => [] | _ => [W_iref_ambiguous] end) /\
      exists n, snd res = Some n /\ n_refuri n = Some (joined (m_base m) (m_loc m))
  end.
Proof.
  intro H. rewrite render_link_inventory_src_eq.
  pose proof (link_model_render normalize_link_text urlparse get_matches token up H) as L.
  destruct (path_filters (up_path up)) as [[invs domains] otypes]. cbv zeta in *.
  destruct (get_matches invs domains otypes (Some (up_fragment up))) as [|m rest].
  - exact L.
  - destruct rest as [|m2 rest]; cbn [render_link_inventory] in L;
      destruct L as [L1 [n [L2 [L3 _]]]]; (split; [exact L1|]); exists n; (split; [exact L2|]);
      rewrite L3, refuri_joined; reflexivity.
Qed.
End Glue.
