(* C19 round 4: the data the source translation of render_link_inventory / get_inventory_matches
   (gen/c19_link.py -> Gen/InvLinkSrc.v) works on, and the primitives of its DOMAIN MAPPING.
     token                     -> the record [tok] (href attribute, info, has children, the reftitle that
                                  copy_attributes would copy from the token's title / reftitle)
     urlparse(href)            -> the oracle [urlparse] (None = ValueError), result (path, fragment)
     self.md.normalizeLinkText -> the oracle [normalize_link_text]
     nodes.reference(...) / ref_node[k] = v / ref_node.append(child) -> the record [rnode] and its setters
     self.create_warning(f"...", MystWarnings.K, ...) -> an entry (kind, message parts) of the warning list
     f"...{x!r}...{y}..."      -> a list of message parts (literal / repr of a string / string / exception text)
     s.split(":")              -> split_all 58 s;  l[i] under suppress(IndexError) -> nth_error
   Executable definitions only. *)
From Coq Require Import List NArith Bool.
From MV Require Import Base.PyStr Inv.WildModel Inv.LinkModel InvLoad.Basics InvLoad.PyText.
Import ListNotations.
Open Scope N_scope.

Record tok := { t_href : option str; t_info : str; t_has_children : bool; t_reftitle : option str }.

(* urlparse(href): only .path and .fragment are used *)
Record urlparts := { up_path : str; up_fragment : str }.

Inductive warn_kind := W_invalid_attribute | W_iref_missing | W_iref_ambiguous | W_inv_load.
Inductive mpart := MLit (s : str) | MRepr (s : str) | MStr (s : str) | MExc.
Definition warning : Type := (warn_kind * list mpart)%type.

Record rnode := { n_inv_match : option str; n_refuri : option str; n_reftitle : option str;
                  n_child : option ref_text }.
Definition empty_rnode : rnode := {| n_inv_match := None; n_refuri := None; n_reftitle := None; n_child := None |}.
Definition set_n_inv_match (r : rnode) (v : str) : rnode :=
  {| n_inv_match := Some v; n_refuri := n_refuri r; n_reftitle := n_reftitle r; n_child := n_child r |}.
Definition set_n_refuri (r : rnode) (v : str) : rnode :=
  {| n_inv_match := n_inv_match r; n_refuri := Some v; n_reftitle := n_reftitle r; n_child := n_child r |}.
Definition set_n_reftitle (r : rnode) (v : str) : rnode :=
  {| n_inv_match := n_inv_match r; n_refuri := n_refuri r; n_reftitle := Some v; n_child := n_child r |}.
Definition set_n_child (r : rnode) (c : ref_text) : rnode :=
  {| n_inv_match := n_inv_match r; n_refuri := n_refuri r; n_reftitle := n_reftitle r; n_child := Some c |}.

(* self.copy_attributes(token, ref_node, ("class", "id", "reftitle"), aliases={"title": "reftitle"}):
   of the attributes modelled only reftitle is affected *)
Definition copy_attributes (t : tok) (r : rnode) : rnode :=
  match t_reftitle t with
  | Some v => set_n_reftitle r v
  | None => r
  end.

(* what the method leaves behind: the warnings in order and the node appended to current_node *)
Definition link_result : Type := (list warning * option rnode)%type.

(* s.split(c) *)
Fixpoint split_all (c : N) (s : str) : list str :=
  match s with
  | [] => [[]]
  | x :: s' => if x =? c then [] :: split_all c s'
               else match split_all c s' with
                    | l :: ls => (x :: l) :: ls
                    | [] => [[x]]
                    end
  end.

(* s.strip() *)
Definition strip (s : str) : str := lstrip (rstrip s).

(* an optional string used as a string under a truthiness guard *)
Definition oget (o : option str) : str := match o with Some s => s | None => [] end.
Definition otruthy (o : option str) : bool := match o with Some (_ :: _) => true | _ => false end.

Definition c_delim : str := [58].       (* filter_string's default delimiter ":" *)
