(* C19 statements transported to the definitions regenerated from inventory.py (Gen/FilterSrc.v). *)
From Coq Require Import List NArith Bool.
From MV Require Import Base.PyStr.
From MV Require Import Inv.WildModel.
From MV Require Import Inv.WildProofs.
From MV Require Import Inv.SphinxModel.
From MV Require Import Inv.SphinxProofs.
From MV Require Import Gen.FilterSrc.
From MV Require Import Inv.FilterSrcProofs.
Import ListNotations.

Lemma filter_exact_src invs qi qd qo qt :
  filter_inventories_src invs qi qd qo qt = filter (match4 qi qd qo qt) (flatten invs).
Proof. rewrite filter_inventories_src_eq. apply filter_exact. Qed.

Lemma native_equals_sphinx_src invs qi qd qo qt :
  forallb (fun '(k, i) => wf_inv i) invs = true ->
  filter_sphinx_inventories_src (map (fun '(k, i) => (k, to_sphinx i)) invs) qi qd qo qt =
  map erase_base (filter_inventories_src invs qi qd qo qt).
Proof.
  intro H. rewrite filter_sphinx_inventories_src_eq, filter_inventories_src_eq.
  apply native_equals_sphinx. exact H.
Qed.
