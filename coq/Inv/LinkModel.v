(* render_link_inventory (mdit_to_docutils/base.py): the reference node built from the first match. *)
From Coq Require Import List NArith Bool.
From MV Require Import Base.PyStr.
From MV Require Import Inv.WildModel.
From MV Require Import InvLoad.PyText.
Import ListNotations.
Open Scope N_scope.

Inductive ref_text :=
| RT_children                 (* explicit link text: the link's own children are rendered *)
| RT_text (s : str)           (* the entry's display text *)
| RT_literal (s : str).       (* the entry's name as a literal *)

Record invref := { r_refuri : str; r_text : ref_text }.

Definition truthy (o : option str) : bool :=
  match o with Some (_ :: _) => true | _ => false end.

(* refuri = posixpath.join(match.base_url, match.loc) if match.base_url else match.loc
   text   = children if explicit, elif match.text: Text(match.text), else literal(match.name) *)
Definition inv_ref_node (explicit : bool) (m : invmatch) : invref :=
  {| r_refuri := match m_base m with
                 | Some (c :: b) => pjoin (c :: b) (m_loc m)
                 | _ => m_loc m
                 end;
     r_text := if explicit then RT_children
               else match m_text m with
                    | Some (c :: t) => RT_text (c :: t)
                    | _ => RT_literal (m_name m)
                    end |}.

Inductive inv_link_result :=
| LR_missing                        (* warning iref_missing, nothing appended *)
| LR_ref (ambiguous : bool) (r : invref).   (* optional iref_ambiguous warning + the reference *)

Definition render_link_inventory (explicit : bool) (ms : list invmatch) : inv_link_result :=
  match ms with
  | [] => LR_missing
  | [m] => LR_ref false (inv_ref_node explicit m)
  | m :: _ => LR_ref true (inv_ref_node explicit m)
  end.
