From Coq Require Import List NArith Bool Lia.
From MV Require Import Base.PyStr Inv.WildModel.
Import ListNotations.
Open Scope N_scope.

(* ---------- documented semantics, stated on the raw pattern ---------- *)
(* '*' any run of characters, '\*' a literal star, every other character
   (including a backslash that is not followed by '*') only itself. *)
Inductive Matches : str -> str -> Prop :=
| M_nil  : Matches [] []
| M_star : forall p s1 s2, Matches p s2 -> Matches (c_star :: p) (s1 ++ s2)
| M_esc  : forall p s, Matches p s -> Matches (c_bsl :: c_star :: p) (c_star :: s)
| M_lit  : forall c p s, c <> c_star ->
             ~ (c = c_bsl /\ exists p', p = c_star :: p') ->
             Matches p s -> Matches (c :: p) (c :: s).

(* semantics of the compiled element list *)
Inductive PM : list pe -> str -> Prop :=
| PM_nil  : PM [] []
| PM_star : forall p s1 s2, PM p s2 -> PM (PStar :: p) (s1 ++ s2)
| PM_lit  : forall c p s, PM p s -> PM (PLit c :: p) (c :: s).

Lemma pmatch_star_unfold p s :
  pmatch true (PStar :: p) s =
  pmatch true p s || match s with [] => false | _ :: s' => pmatch true (PStar :: p) s' end.
Proof. destruct s; reflexivity. Qed.

Lemma pmatch_sound p : forall s, pmatch true p s = true -> PM p s.
Proof.
  induction p as [|e p IH]; intros s H.
  - destruct s; [constructor | discriminate].
  - destruct e as [|c].
    + induction s as [|x s IHs].
      * rewrite pmatch_star_unfold in H. rewrite orb_false_r in H.
        apply (PM_star p [] []). apply IH. exact H.
      * rewrite pmatch_star_unfold in H. apply orb_true_iff in H as [H|H].
        -- apply (PM_star p [] (x :: s)). apply IH. exact H.
        -- specialize (IHs H). inversion IHs as [|p0 s1 s2 Hp E1 E2|]; subst.
           apply (PM_star p (x :: s1) s2). exact Hp.
    + simpl in H. destruct s as [|x s]; [discriminate|].
      apply andb_true_iff in H as [H1 H2]. apply N.eqb_eq in H1. subst.
      constructor. apply IH. exact H2.
Qed.

Lemma pmatch_complete p s : PM p s -> pmatch true p s = true.
Proof.
  induction 1 as [|p s1 s2 H IH|c p s H IH].
  - reflexivity.
  - induction s1 as [|x s1 IH1].
    + simpl app. rewrite pmatch_star_unfold. rewrite IH. reflexivity.
    + simpl app. rewrite pmatch_star_unfold. rewrite IH1. apply orb_true_r.
  - simpl. rewrite N.eqb_refl. exact IH.
Qed.

Lemma pmatch_iff p s : pmatch true p s = true <-> PM p s.
Proof. split; [apply pmatch_sound | apply pmatch_complete]. Qed.

(* ---------- the compiler implements the documented semantics ---------- *)

Lemma comp_true_cons c p :
  comp true (c :: p) =
  if c =? c_star then PLit c_star :: comp false p
  else PLit c_bsl :: (if c =? c_bsl then comp true p else PLit c :: comp false p).
Proof.
  cbn [comp andb]. destruct (c =? c_star) eqn:E; [reflexivity|].
  cbn [app]. reflexivity.
Qed.

Lemma comp_false_cons c p :
  comp false (c :: p) =
  if c =? c_bsl then comp true p
  else if c =? c_star then PStar :: comp false p else PLit c :: comp false p.
Proof. reflexivity. Qed.

Lemma bsl_neq_star : c_bsl <> c_star. Proof. discriminate. Qed.

Ltac inv H := inversion H; subst; clear H.

Ltac crush_m :=
  repeat match goal with
  | H : c_bsl = c_star |- _ => exfalso; exact (bsl_neq_star H)
  | H : c_star = c_bsl |- _ => exfalso; exact (bsl_neq_star (eq_sym H))
  | H : ?c <> ?c |- _ => exfalso; apply H; reflexivity
  | H : _ ++ _ = [] |- _ => apply app_eq_nil in H; destruct H; subst
  | H : Matches [] _ |- _ => inv H
  | H : PM [] _ |- _ => inv H
  | H : PM (PLit _ :: _) _ |- _ => inv H
  | H : PM (PStar :: _) _ |- _ => inv H
  end.

Lemma M_lit' c p s : c <> c_star -> (c = c_bsl -> forall p', p <> c_star :: p') ->
  Matches p s -> Matches (c :: p) (c :: s).
Proof.
  intros H1 H2 H3. apply M_lit; auto. intros [E [p' E']]. exact (H2 E p' E').
Qed.

Lemma comp_spec p :
  (forall s, PM (comp false p) s <-> Matches p s) /\
  (forall s, PM (comp true p) s <-> Matches (c_bsl :: p) s).
Proof.
  induction p as [|c p [IHf IHt]].
  - split; intro s; simpl; split; intro H.
    + crush_m. constructor.
    + crush_m. constructor.
    + crush_m. apply M_lit'; [apply bsl_neq_star | intros _ p' E; discriminate | constructor].
    + inv H; crush_m. repeat constructor.
  - split; intro s.
    + rewrite comp_false_cons.
      destruct (c =? c_bsl) eqn:Eb.
      * apply N.eqb_eq in Eb; subst. apply IHt.
      * apply N.eqb_neq in Eb.
        destruct (c =? c_star) eqn:Es.
        -- apply N.eqb_eq in Es; subst. split; intro H.
           ++ crush_m. constructor. apply IHf. assumption.
           ++ inv H; crush_m. constructor. apply IHf. assumption.
        -- apply N.eqb_neq in Es. split; intro H.
           ++ crush_m. apply M_lit';
                [assumption | intros E; contradiction | apply IHf; assumption].
           ++ inv H; crush_m. constructor. apply IHf. assumption.
    + rewrite comp_true_cons.
      destruct (c =? c_star) eqn:Es.
      * apply N.eqb_eq in Es; subst. split; intro H.
        -- crush_m. apply M_esc. apply IHf. assumption.
        -- inv H; crush_m.
           ++ constructor. apply IHf. assumption.
           ++ exfalso. match goal with H : ~ _ |- _ => apply H end.
              split; [reflexivity | eexists; reflexivity].
      * apply N.eqb_neq in Es.
        destruct (c =? c_bsl) eqn:Eb.
        -- apply N.eqb_eq in Eb; subst. split; intro H.
           ++ crush_m. apply M_lit'.
              ** apply bsl_neq_star.
              ** intros _ p' E; inversion E; subst; crush_m.
              ** apply IHt. assumption.
           ++ inv H; crush_m. constructor. apply IHt. assumption.
        -- apply N.eqb_neq in Eb. split; intro H.
           ++ crush_m. apply M_lit'.
              ** apply bsl_neq_star.
              ** intros _ p' E; inversion E; subst; crush_m.
              ** apply M_lit';
                   [assumption | intros E; contradiction | apply IHf; assumption].
           ++ inv H; crush_m. constructor.
              match goal with H : Matches (c :: p) _ |- _ => inv H end; crush_m.
              constructor. apply IHf. assumption.
Qed.

Theorem wildcard_correct (n p : str) :
  match_with_wildcard n (Some p) = true <-> Matches p n.
Proof.
  unfold match_with_wildcard, create_regex. rewrite pmatch_iff. apply comp_spec.
Qed.

Theorem none_matches_all (n : str) : match_with_wildcard n None = true.
Proof. reflexivity. Qed.

(* ---------- the filter loops ---------- *)

Lemma flat_map_filter_nil {A B} (f : A -> list B) (g : B -> bool) l :
  filter g (flat_map f l) = flat_map (fun a => filter g (f a)) l.
Proof.
  induction l as [|a l IH]; simpl; [reflexivity|].
  rewrite filter_app, IH. reflexivity.
Qed.

Lemma flat_map_ext' {A B} (f g : A -> list B) l :
  (forall a, In a l -> f a = g a) -> flat_map f l = flat_map g l.
Proof.
  induction l as [|a l IH]; intro H; simpl; [reflexivity|].
  rewrite (H a (or_introl eq_refl)), IH; [reflexivity|].
  intros; apply H; right; assumption.
Qed.

Lemma filter_all_false {A} (g : A -> bool) l :
  (forall a, In a l -> g a = false) -> filter g l = [].
Proof.
  induction l as [|a l IH]; intro H; simpl; [reflexivity|].
  rewrite (H a (or_introl eq_refl)). apply IH. intros; apply H; right; assumption.
Qed.

Lemma filter_map_flat {A B} (g : B -> bool) (h : A -> B) l :
  filter g (map h l) = flat_map (fun a => if g (h a) then [h a] else []) l.
Proof.
  induction l as [|a l IH]; simpl; [reflexivity|].
  destruct (g (h a)); simpl; rewrite IH; reflexivity.
Qed.

Theorem filter_exact invs qi qd qo qt :
  filter_inventories invs qi qd qo qt = filter (match4 qi qd qo qt) (flatten invs).
Proof.
  unfold filter_inventories, flatten.
  rewrite flat_map_filter_nil. apply flat_map_ext'. intros [iname idata] _.
  rewrite flat_map_filter_nil.
  destruct (match_with_wildcard iname qi) eqn:Ei; simpl negb; cbv iota.
  2:{ symmetry. rewrite <- flat_map_filter_nil. apply filter_all_false.
      intros m Hm. apply in_flat_map in Hm as [[d dd] [_ Hm]].
      apply in_flat_map in Hm as [[o od] [_ Hm]].
      apply in_map_iff in Hm as [[t it] [E _]]. subst m.
      unfold match4; simpl. rewrite Ei. reflexivity. }
  apply flat_map_ext'. intros [dname ddata] _.
  rewrite flat_map_filter_nil.
  destruct (match_with_wildcard dname qd) eqn:Ed; simpl negb; cbv iota.
  2:{ symmetry. rewrite <- flat_map_filter_nil. apply filter_all_false.
      intros m Hm. apply in_flat_map in Hm as [[o od] [_ Hm]].
      apply in_map_iff in Hm as [[t it] [E _]]. subst m.
      unfold match4; simpl. rewrite Ed. rewrite andb_false_r. reflexivity. }
  apply flat_map_ext'. intros [oname odata] _.
  destruct (match_with_wildcard oname qo) eqn:Eo; simpl negb; cbv iota.
  2:{ symmetry. apply filter_all_false.
      intros m Hm. apply in_map_iff in Hm as [[t it] [E _]]. subst m.
      unfold match4; simpl. rewrite Eo. rewrite andb_false_r. reflexivity. }
  rewrite filter_map_flat. apply flat_map_ext'. intros [tname it] _.
  unfold match4; simpl. rewrite Ei, Ed, Eo. simpl. reflexivity.
Qed.

(* render_link_inventory: warning count and chosen entry *)
Definition il_warnings (o : inv_link_out) : nat :=
  match o with IL_one _ => 0%nat | _ => 1%nat end.

Theorem inv_link_spec ms :
  match ms with
  | [] => inv_link ms = IL_missing
  | [m] => inv_link ms = IL_one m
  | m :: _ :: _ => inv_link ms = IL_ambiguous m
  end.
Proof. destruct ms as [|m [|m' ms]]; reflexivity. Qed.

(* without re.DOTALL (the code before the fix) the documented semantics fails *)
Theorem nodotall_refuted :
  exists p n, Matches p n /\ pmatch false (create_regex p) n = false.
Proof.
  exists [c_star], [c_nl]. split.
  - apply (M_star [] [c_nl] []). constructor.
  - reflexivity.
Qed.
