(* C19 round 4: render_link_inventory / get_inventory_matches regenerated from base.py and sphinx_.py
   (Gen/InvLinkSrc.v, by gen/c19_link.py) equal the model: LinkModel.render_link_inventory / inv_ref_node
   for the reference (refuri, child), extended here with what LinkModel leaves out - the inv_match string
   (through filter_string_src_spec), the reftitle default, the path split into invs:domains:otypes, the
   warnings and their messages, and the lazy loading loop. *)
From Coq Require Import List NArith Bool Lia.
From MV Require Import Base.PyStr Inv.WildModel Inv.SphinxModel Inv.LinkModel Gen.WildSrc Gen.FilterSrc
  Inv.WildSrcProofs Inv.FilterSrcProofs InvLoad.Basics InvLoad.PyText InvLoad.SrcPrims Inv.InvLinkPrims Gen.InvLinkSrc.
Import ListNotations.
Open Scope N_scope.

(* ---------------- the extended model ---------------- *)

(* <invs>:<domains>:<otypes>, each part optional *)
Definition path_filters (path : str) : option str * option str * option str :=
  if is_nil path then (None, None, None)
  else let parts := split_all 58 path in (nth_error parts 0, nth_error parts 1, nth_error parts 2).

(* inventory.filter_string with the default delimiter, by its specification *)
Definition filter_str (a b c d : option str) : str :=
  join c_delim (map (filter_item c_delim) [a; b; c; d]).
Definition match_str (m : invmatch) : str :=
  filter_str (Some (m_inv m)) (Some (m_domain m)) (Some (m_otype m)) (Some (m_name m)).

(* at most three matches are listed *)
Definition matches_str (ms : list invmatch) : str :=
  let s := join [44; 32] (map match_str (firstn 3 ms)) in
  if Nat.ltb 3 (length ms) then s ++ [44; 32; 46; 46; 46] else s.

Definition s_no_matches : str := [78; 111; 32; 109; 97; 116; 99; 104; 101; 115; 32; 102; 111; 114; 32].
Definition s_multiple : str :=
  [77; 117; 108; 116; 105; 112; 108; 101; 32; 109; 97; 116; 99; 104; 101; 115; 32; 102; 111; 114; 32].
Definition s_invalid_href : str :=
  [73; 110; 118; 97; 108; 105; 100; 32; 39; 104; 114; 101; 102; 39; 32; 97; 116; 116; 114; 105; 98; 117; 116; 101; 32;
   118; 97; 108; 117; 101; 58; 32].
Definition s_failed_load : str :=
  [70; 97; 105; 108; 101; 100; 32; 116; 111; 32; 108; 111; 97; 100; 32; 105; 110; 118; 101; 110; 116; 111; 114; 121; 32].

(* the reference node: refuri and child are LinkModel.inv_ref_node's *)
Definition ref_of (token : tok) (explicit : bool) (m : invmatch) : rnode :=
  let r := inv_ref_node explicit m in
  {| n_inv_match := Some (match_str m);
     n_refuri := Some (r_refuri r);
     n_reftitle := Some (match t_reftitle token with
                         | Some v => v
                         | None => strip (m_project m ++ [32] ++ m_version m)
                         end);
     n_child := Some (r_text r) |}.

Section LinkModelExt.

Variable normalize_link_text : str -> str.
Variable urlparse : str -> option urlparts.
Variable get_matches : option str -> option str -> option str -> option str -> list invmatch.

Definition link_explicit (token : tok) : bool :=
  negb (str_eqb (t_info token) [97; 117; 116; 111]) && t_has_children token.
Definition link_href (token : tok) : str :=
  normalize_link_text (match t_href token with Some s => if is_nil s then [] else s | None => [] end).

Definition link_model (token : tok) : link_result :=
  let href := link_href token in
  match urlparse href with
  | None => ([(W_invalid_attribute, [MLit s_invalid_href; MRepr href; MLit [58; 32]; MExc])], None)
  | Some up =>
      let '(invs, domains, otypes) := path_filters (up_path up) in
      let target := Some (up_fragment up) in
      let ms := get_matches invs domains otypes target in
      match ms with
      | [] => ([(W_iref_missing, [MLit s_no_matches; MRepr (filter_str invs domains otypes target)])], None)
      | m :: rest =>
          (match rest with
           | [] => []
           | _ => [(W_iref_ambiguous, [MLit s_multiple; MRepr (filter_str invs domains otypes target);
                                       MLit [58; 32]; MStr (matches_str ms)])]
           end,
           Some (ref_of token (link_explicit token) m))
      end
  end.

(* the part LinkModel.v states: which reference, which warning kind *)
Lemma link_model_render token up :
  urlparse (link_href token) = Some up ->
  let '(invs, domains, otypes) := path_filters (up_path up) in
  let ms := get_matches invs domains otypes (Some (up_fragment up)) in
  match render_link_inventory (link_explicit token) ms with
  | LR_missing => map fst (fst (link_model token)) = [W_iref_missing] /\ snd (link_model token) = None
  | LR_ref amb r =>
      map fst (fst (link_model token)) = (if amb then [W_iref_ambiguous] else []) /\
      exists n, snd (link_model token) = Some n /\ n_refuri n = Some (r_refuri r) /\ n_child n = Some (r_text r)
  end.
Proof.
  intro H. unfold link_model. rewrite H. destruct (path_filters (up_path up)) as [[invs domains] otypes].
  destruct (get_matches invs domains otypes (Some (up_fragment up))) as [|m [|m2 ms]]; cbn.
  - auto.
  - split; [reflexivity|]. eexists. split; [reflexivity|]. auto.
  - split; [reflexivity|]. eexists. split; [reflexivity|]. auto.
Qed.

Lemma nth_error_1_2 {A} (l : list A) : nth_error l 1 = None -> nth_error l 2 = None.
Proof. destruct l as [|a [|b [|c l]]]; cbn; intro H; try reflexivity; discriminate. Qed.
Lemma nth_error_0_1 {A} (l : list A) : nth_error l 0 = None -> nth_error l 1 = None /\ nth_error l 2 = None.
Proof. destruct l; cbn; intro H; [auto | discriminate]. Qed.

Lemma match_str_spec m :
  filter_string_src (Some (m_inv m)) (Some (m_domain m)) (Some (m_otype m)) (Some (m_name m)) c_delim = match_str m.
Proof. apply filter_string_src_spec. Qed.

Ltac finish :=
  try rewrite (map_ext _ match_str match_str_spec);
  repeat match goal with
         | |- context [filter_string_src ?a ?b ?c ?d ?e] => rewrite (filter_string_src_spec a b c d e)
         end;
  unfold ref_of, inv_ref_node, matches_str, match_str, filter_str, copy_attributes, link_explicit,
         set_n_inv_match, set_n_refuri, set_n_reftitle, set_n_child, empty_rnode, s_no_matches, s_multiple;
  cbn [n_reftitle n_inv_match n_refuri n_child is_none r_refuri r_text length Nat.ltb Nat.leb app];
  repeat match goal with
         | |- context [t_reftitle ?t] => destruct (t_reftitle t); cbn [n_reftitle n_inv_match n_refuri n_child is_none]
         | |- context [m_base ?m] => destruct (m_base m) as [[|? ?]|]; cbn [otruthy oget]
         | |- context [m_text ?m] => destruct (m_text m) as [[|? ?]|]; cbn [otruthy oget]
         | |- context [if ?b then _ else _] => destruct b
         end; try reflexivity.

Theorem render_link_inventory_src_eq token :
  render_link_inventory_src normalize_link_text urlparse get_matches token = link_model token.
Proof.
  unfold render_link_inventory_src, link_model, link_href. cbv zeta.
  match goal with |- context [urlparse ?h] => destruct (urlparse h) as [up|] end; [|reflexivity].
  unfold path_filters. destruct (is_nil (up_path up)); cbn [negb].
  - destruct (get_matches None None None (Some (up_fragment up))) as [|m [|m2 ms]]; finish.
  - destruct (nth_error (split_all 58 (up_path up)) 0) as [a|] eqn:E0.
    + destruct (nth_error (split_all 58 (up_path up)) 1) as [b|] eqn:E1.
      * destruct (nth_error (split_all 58 (up_path up)) 2) as [c|] eqn:E2;
          match goal with |- context [get_matches ?i ?d ?o ?t] => destruct (get_matches i d o t) as [|m [|m2 ms]] end; finish.
      * rewrite (nth_error_1_2 _ E1).
        match goal with |- context [get_matches ?i ?d ?o ?t] => destruct (get_matches i d o t) as [|m [|m2 ms]] end; finish.
    + destruct (nth_error_0_1 _ E0) as [E1 E2]. rewrite E1, E2.
      match goal with |- context [get_matches ?i ?d ?o ?t] => destruct (get_matches i d o t) as [|m [|m2 ms]] end; finish.
Qed.

End LinkModelExt.

(* ---------------- get_inventory_matches ---------------- *)

Section GimModel.

Variable fetch : str -> option str -> option inventory.

Definition s_objects_inv : str := [111; 98; 106; 101; 99; 116; 115; 46; 105; 110; 118].

(* one entry key -> (uri, path) of myst_inventories: fetch it (from path, or uri/objects.inv) with base uri,
   or leave the warning *)
Definition load_step (st : list (str * inventory) * list warning) (e : str * (str * option str))
  : list (str * inventory) * list warning :=
  let '(invs, ws) := st in
  let '(key, (uri, path)) := e in
  let load_path := match path with None => pjoin uri s_objects_inv | Some p => p end in
  match fetch load_path (Some uri) with
  | None => (invs, ws ++ [(W_inv_load, [MLit s_failed_load; MRepr key; MLit [58; 32]; MExc])])
  | Some inv => (upd key (fun _ => inv) invs, ws)
  end.

(* lazy: the inventories are loaded on the first call only (cache = None), in configuration order *)
Definition gim_model (cache : option (list (str * inventory))) (cfg : list (str * (str * option str)))
           (ws : list warning) (qi qd qo qt : option str)
  : list invmatch * list (str * inventory) * list warning :=
  match cache with
  | Some invs => (filter_inventories invs qi qd qo qt, invs, ws)
  | None => let '(invs, ws') := fold_left load_step cfg ([], ws) in
            (filter_inventories invs qi qd qo qt, invs, ws')
  end.

Lemma gim_for_eq (K : list (str * inventory) -> list (str * (str * option str)) -> list warning -> option str ->
                      option str -> option str -> option str -> list invmatch * list (str * inventory) * list warning) :
  forall items invs cfg ws qi qd qo qt,
  get_inventory_matches_src_for1 fetch K items invs cfg ws qi qd qo qt =
  let '(invs', ws') := fold_left load_step items (invs, ws) in K invs' cfg ws' qi qd qo qt.
Proof.
  induction items as [|[key [uri path]] items IH]; intros; cbn [get_inventory_matches_src_for1 fold_left]; [reflexivity|].
  unfold load_step at 2. fold s_objects_inv. fold s_failed_load.
  destruct (fetch (match path with None => pjoin uri s_objects_inv | Some p => p end) (Some uri)); apply IH.
Qed.

Theorem get_inventory_matches_src_eq cache cfg ws qi qd qo qt :
  get_inventory_matches_src fetch cache cfg ws qi qd qo qt = gim_model cache cfg ws qi qd qo qt.
Proof.
  unfold get_inventory_matches_src, gim_model. destruct cache as [invs|].
  - rewrite filter_inventories_src_eq. reflexivity.
  - rewrite gim_for_eq. destruct (fold_left load_step cfg ([], ws)) as [invs ws'].
    rewrite filter_inventories_src_eq. reflexivity.
Qed.

(* a second call does not load anything again *)
Corollary gim_cached cache cfg ws qi qd qo qt ms invs ws' :
  gim_model cache cfg ws qi qd qo qt = (ms, invs, ws') ->
  forall ws2 qi2 qd2 qo2 qt2,
    gim_model (Some invs) cfg ws2 qi2 qd2 qo2 qt2 = (filter_inventories invs qi2 qd2 qo2 qt2, invs, ws2).
Proof. reflexivity. Qed.

End GimModel.

(* the Sphinx renderer filters intersphinx's named inventories *)
Theorem sphinx_get_inventory_matches_src_eq named qi qd qo qt :
  sphinx_get_inventory_matches_src named qi qd qo qt = filter_sphinx_inventories named qi qd qo qt.
Proof. unfold sphinx_get_inventory_matches_src. apply filter_sphinx_inventories_src_eq. Qed.

(* the docutils renderer end to end: the link rendered against the lazily loaded inventories *)
Theorem render_link_docutils_src_eq normalize_link_text urlparse fetch cache cfg token :
  render_link_inventory_src normalize_link_text urlparse
    (fun qi qd qo qt => fst (fst (get_inventory_matches_src fetch cache cfg [] qi qd qo qt))) token =
  link_model normalize_link_text urlparse
    (fun qi qd qo qt => fst (fst (gim_model fetch cache cfg [] qi qd qo qt))) token.
Proof.
  rewrite render_link_inventory_src_eq. unfold link_model.
  destruct (urlparse (link_href normalize_link_text token)) as [up|]; [|reflexivity].
  destruct (path_filters (up_path up)) as [[invs domains] otypes].
  rewrite get_inventory_matches_src_eq. reflexivity.
Qed.
