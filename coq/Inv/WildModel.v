(* Model of myst_parser/inventory.py: _create_regex / match_with_wildcard and the
   filter loops.  Executable definitions only; proofs are in WildProofs.v. *)
From Coq Require Import List NArith Bool.
From MV Require Import Base.PyStr.
Import ListNotations.
Open Scope N_scope.

Definition c_star : N := 42.   (* '*' *)
Definition c_bsl  : N := 92.   (* '\\' *)
Definition c_nl   : N := 10.

Inductive pe : Type := PStar | PLit (c : N).

(* _create_regex: the for-loop with its backslash_last flag [bl]; the compiled regex
   is represented by its element list: ".*" = PStar, re.escape(c) = PLit c.
   After the loop a pending backslash is emitted (fix: commit in /repo). *)
Fixpoint comp (bl : bool) (p : str) : list pe :=
  match p with
  | [] => if bl then [PLit c_bsl] else []
  | c :: p' =>
      if bl && (c =? c_star) then PLit c_star :: comp false p'
      else (if bl then [PLit c_bsl] else []) ++
           (if c =? c_bsl then comp true p'
            else if c =? c_star then PStar :: comp false p'
            else PLit c :: comp false p')
  end.

Definition create_regex (p : str) : list pe := comp false p.

(* regex.fullmatch(name) for the compiled form; [dotall] = re.DOTALL flag:
   without it "." does not match "\n". *)
Fixpoint pmatch (dotall : bool) (p : list pe) (s : str) {struct p} : bool :=
  match p with
  | [] => match s with [] => true | _ => false end
  | PLit c :: p' =>
      match s with x :: s' => (c =? x) && pmatch dotall p' s' | [] => false end
  | PStar :: p' =>
      (fix star (s : str) : bool :=
         pmatch dotall p' s ||
         match s with
         | [] => false
         | x :: s' => (dotall || negb (x =? c_nl)) && star s'
         end) s
  end.

Definition match_with_wildcard (name : str) (pattern : option str) : bool :=
  match pattern with
  | None => true
  | Some p => pmatch true (create_regex p) name
  end.

(* ---- inventories as ordered association lists (Python dict order) ---- *)

Record item := { it_loc : str; it_text : option str }.

Definition objs_t := list (str * list (str * list (str * item))).

Record inventory := {
  inv_name : str; inv_version : str; inv_base : option str; inv_objects : objs_t }.

Record invmatch := {
  m_inv : str; m_domain : str; m_otype : str; m_name : str;
  m_project : str; m_version : str; m_base : option str; m_loc : str; m_text : option str }.

(* filter_inventories: four nested loops with [continue] *)
Definition filter_inventories (invs : list (str * inventory))
           (qi qd qo qt : option str) : list invmatch :=
  flat_map (fun '(iname, idata) =>
    if negb (match_with_wildcard iname qi) then [] else
    flat_map (fun '(dname, ddata) =>
      if negb (match_with_wildcard dname qd) then [] else
      flat_map (fun '(oname, odata) =>
        if negb (match_with_wildcard oname qo) then [] else
        flat_map (fun '(tname, it) =>
          if match_with_wildcard tname qt then
            [{| m_inv := iname; m_domain := dname; m_otype := oname; m_name := tname;
                m_project := inv_name idata; m_version := inv_version idata;
                m_base := inv_base idata; m_loc := it_loc it; m_text := it_text it |}]
          else []) odata) ddata) (inv_objects idata)) invs.

(* the specification side: flatten every entry, then filter on the four coordinates *)
Definition flatten (invs : list (str * inventory)) : list invmatch :=
  flat_map (fun '(iname, idata) =>
    flat_map (fun '(dname, ddata) =>
      flat_map (fun '(oname, odata) =>
        map (fun '(tname, it) =>
            {| m_inv := iname; m_domain := dname; m_otype := oname; m_name := tname;
               m_project := inv_name idata; m_version := inv_version idata;
               m_base := inv_base idata; m_loc := it_loc it; m_text := it_text it |})
          odata) ddata) (inv_objects idata)) invs.

Definition match4 (qi qd qo qt : option str) (m : invmatch) : bool :=
  match_with_wildcard (m_inv m) qi && match_with_wildcard (m_domain m) qd &&
  match_with_wildcard (m_otype m) qo && match_with_wildcard (m_name m) qt.

(* render_link_inventory's decision on the match list *)
Inductive inv_link_out :=
| IL_missing                       (* one iref_missing warning, no reference *)
| IL_one (m : invmatch)            (* no warning *)
| IL_ambiguous (m : invmatch).     (* one iref_ambiguous warning, first match used *)

Definition inv_link (ms : list invmatch) : inv_link_out :=
  match ms with
  | [] => IL_missing
  | [m] => IL_one m
  | m :: _ => IL_ambiguous m
  end.
