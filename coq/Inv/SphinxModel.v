(* Model of inventory.to_sphinx / from_sphinx / filter_sphinx_inventories:
   Python dicts as association lists in insertion order. *)
From Coq Require Import List NArith Bool.
From MV Require Import Base.PyStr Inv.WildModel.
Import ListNotations.
Open Scope N_scope.

Definition c_colon : N := 58.
Definition s_dash : str := [45].

(* (project, version, uri, dispname) *)
Definition sitem := (str * str * str * str)%type.
Definition sinv := list (str * list (str * sitem)).

(* d[k] = f(d.get(k)) keeping the position of an existing key, appending a new one *)
Fixpoint upd {V : Type} (k : str) (f : option V -> V) (d : list (str * V)) : list (str * V) :=
  match d with
  | [] => [(k, f None)]
  | (k', v) :: d' => if str_eqb k k' then (k', f (Some v)) :: d' else (k', v) :: upd k f d'
  end.

Definition text_or_dash (t : option str) : str :=
  match t with None => s_dash | Some [] => s_dash | Some x => x end.

Definition dash_to_none (t : str) : option str :=
  match t with [] => None | _ => if str_eqb t s_dash then None else Some t end.

Definition skey (d t : str) : str := d ++ c_colon :: t.

(* objs.setdefault(f"{domain}:{otype}", {})[refname] = (name, version, loc, text or "-") *)
Definition to_sphinx (inv : inventory) : sinv :=
  fold_left (fun objs '(d, types) =>
    fold_left (fun objs '(t, refs) =>
      fold_left (fun objs '(n, it) =>
        upd (skey d t)
            (fun o => upd n (fun _ => (inv_name inv, inv_version inv, it_loc it, text_or_dash (it_text it)))
                          (match o with None => [] | Some m => m end))
            objs) refs objs) types objs) (inv_objects inv) [].

(* key.split(":", 1) when ":" in key *)
Fixpoint split_colon (s : str) : option (str * str) :=
  match s with
  | [] => None
  | c :: s' => if c =? c_colon then Some ([], s')
               else match split_colon s' with
                    | Some (a, b) => Some (c :: a, b)
                    | None => None
                    end
  end.

Definition filter_sphinx_inventories (invs : list (str * sinv))
           (qi qd qo qt : option str) : list invmatch :=
  flat_map (fun '(iname, idata) =>
    if negb (match_with_wildcard iname qi) then [] else
    flat_map (fun '(key, data) =>
      match split_colon key with
      | None => []
      | Some (dname, oname) =>
          if negb (match_with_wildcard dname qd && match_with_wildcard oname qo) then [] else
          flat_map (fun '(tname, (project, version, loc, text)) =>
            if match_with_wildcard tname qt then
              [{| m_inv := iname; m_domain := dname; m_otype := oname; m_name := tname;
                  m_project := project; m_version := version; m_base := None;
                  m_loc := loc; m_text := dash_to_none text |}]
            else []) data
      end) idata) invs.

(* from_sphinx *)
Definition from_sphinx (s : sinv) : inventory :=
  let '(proj, ver, objs) :=
    fold_left (fun '(proj, ver, objs) '(key, data) =>
      match split_colon key with
      | None => (proj, ver, objs)
      | Some (d, t) =>
          let objs1 := upd d (fun o => upd t (fun o2 => match o2 with None => [] | Some m => m end)
                                           (match o with None => [] | Some m => m end)) objs in
          fold_left (fun '(proj, ver, objs) '(n, (p, v, uri, text)) =>
            (p, v, upd d (fun o => upd t (fun o2 =>
                       upd n (fun _ => {| it_loc := uri; it_text := dash_to_none text |})
                             (match o2 with None => [] | Some m => m end))
                     (match o with None => [] | Some m => m end)) objs)) data (proj, ver, objs1)
      end) s ([], [], []) in
  {| inv_name := proj; inv_version := ver; inv_base := None; inv_objects := objs |}.

(* well-formedness needed for representation independence *)
Fixpoint nodup_keys {V : Type} (d : list (str * V)) : bool :=
  match d with
  | [] => true
  | (k, _) :: d' => negb (mem_str k (map fst d')) && nodup_keys d'
  end.

Definition text_ok (t : option str) : bool :=
  match t with None => true | Some x => negb (str_eqb x []) && negb (str_eqb x s_dash) end.

Definition wf_inv (inv : inventory) : bool :=
  nodup_keys (inv_objects inv) &&
  forallb (fun '(d, types) =>
    negb (mem_N c_colon d) && nodup_keys types &&
    forallb (fun '(t, refs) =>
      nodup_keys refs && forallb (fun '(n, it) => text_ok (it_text it)) refs) types)
    (inv_objects inv).
