From Coq Require Import List NArith Bool.
From MV Require Import Base.PyStr.
From MV Require Import Inv.WildModel.
From MV Require Import Inv.LinkModel.
From MV Require Import InvLoad.PyText.
From MV Require Import InvLoad.TextProofs.
Import ListNotations.
Open Scope N_scope.

(* the documented join: the location joined to the base URL *)
Definition joined (base : option str) (loc : str) : str :=
  match base with
  | None | Some [] => loc
  | Some b =>
      if startswith loc [47] then loc
      else if endswith b [47] then b ++ loc
      else b ++ [47] ++ loc
  end.

Lemma refuri_joined explicit m :
  r_refuri (inv_ref_node explicit m) = joined (m_base m) (m_loc m).
Proof.
  unfold inv_ref_node, joined. cbn [r_refuri].
  destruct (m_base m) as [[|c b]|]; reflexivity.
Qed.

Theorem inv_link_render explicit ms :
  match ms with
  | [] => render_link_inventory explicit ms = LR_missing
  | m :: rest =>
      exists r, render_link_inventory explicit ms = LR_ref (match rest with [] => false | _ => true end) r /\
                r_refuri r = joined (m_base m) (m_loc m) /\
                r_text r = (if explicit then RT_children
                            else if truthy (m_text m)
                                 then RT_text (match m_text m with Some t => t | None => [] end)
                                 else RT_literal (m_name m))
  end.
Proof.
  destruct ms as [|m rest]; [reflexivity|].
  exists (inv_ref_node explicit m). split; [destruct rest; reflexivity|].
  split; [apply refuri_joined|].
  unfold inv_ref_node, truthy. cbn [r_text].
  destruct explicit; [reflexivity|].
  destruct (m_text m) as [[|c t]|]; reflexivity.
Qed.
