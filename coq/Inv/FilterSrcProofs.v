(* C19 (round 3): the filter functions regenerated from inventory.py (Gen/FilterSrc.v, by
   gen/c19_filters.py) equal the hand-written models WildModel.filter_inventories and
   SphinxModel.filter_sphinx_inventories; filter_string gets its specification.
   These are the proof obligations that an edit of the three functions breaks. *)
From Coq Require Import List NArith Bool.
From MV Require Import Base.PyStr Inv.WildModel Inv.SphinxModel Inv.WildProofs Gen.WildSrc Inv.WildSrcProofs
  InvLoad.Basics InvLoad.PyText Gen.FilterSrc.
Import ListNotations.
Open Scope N_scope.

(* ---------------- filter_inventories ---------------- *)

Section FI.
Variables qi qd qo qt : option str.

Lemma fi_for4_eq (K : list (str * inventory) -> option str -> option str -> option str -> option str -> str ->
                      inventory -> str -> list (str * list (str * item)) -> str -> list (str * item) -> list invmatch) :
  forall items invs iname idata dname ddata oname odata,
  filter_inventories_src_for4 K items invs qi qd qo qt iname idata dname ddata oname odata =
  flat_map (fun '(tname, it) =>
      if match_with_wildcard tname qt then
        [{| m_inv := iname; m_domain := dname; m_otype := oname; m_name := tname;
            m_project := inv_name idata; m_version := inv_version idata;
            m_base := inv_base idata; m_loc := it_loc it; m_text := it_text it |}]
      else []) items
  ++ K invs qi qd qo qt iname idata dname ddata oname odata.
Proof.
  induction items as [|[tname it] items IH]; intros; cbn [filter_inventories_src_for4 flat_map app]; [reflexivity|].
  rewrite match_with_wildcard_src_eq. destruct (match_with_wildcard tname qt); rewrite IH; reflexivity.
Qed.

Lemma fi_for3_eq (K : list (str * inventory) -> option str -> option str -> option str -> option str -> str ->
                      inventory -> str -> list (str * list (str * item)) -> list invmatch) :
  forall items invs iname idata dname ddata,
  filter_inventories_src_for3 K items invs qi qd qo qt iname idata dname ddata =
  flat_map (fun '(oname, odata) =>
      if negb (match_with_wildcard oname qo) then [] else
      flat_map (fun '(tname, it) =>
        if match_with_wildcard tname qt then
          [{| m_inv := iname; m_domain := dname; m_otype := oname; m_name := tname;
              m_project := inv_name idata; m_version := inv_version idata;
              m_base := inv_base idata; m_loc := it_loc it; m_text := it_text it |}]
        else []) odata) items
  ++ K invs qi qd qo qt iname idata dname ddata.
Proof.
  induction items as [|[oname odata] items IH]; intros; cbn [filter_inventories_src_for3 flat_map app]; [reflexivity|].
  rewrite match_with_wildcard_src_eq. destruct (match_with_wildcard oname qo); cbn [negb app].
  - rewrite fi_for4_eq, IH, app_assoc. reflexivity.
  - apply IH.
Qed.

Lemma fi_for2_eq (K : list (str * inventory) -> option str -> option str -> option str -> option str -> str ->
                      inventory -> list invmatch) :
  forall items invs iname idata,
  filter_inventories_src_for2 K items invs qi qd qo qt iname idata =
  flat_map (fun '(dname, ddata) =>
      if negb (match_with_wildcard dname qd) then [] else
      flat_map (fun '(oname, odata) =>
        if negb (match_with_wildcard oname qo) then [] else
        flat_map (fun '(tname, it) =>
          if match_with_wildcard tname qt then
            [{| m_inv := iname; m_domain := dname; m_otype := oname; m_name := tname;
                m_project := inv_name idata; m_version := inv_version idata;
                m_base := inv_base idata; m_loc := it_loc it; m_text := it_text it |}]
          else []) odata) ddata) items
  ++ K invs qi qd qo qt iname idata.
Proof.
  induction items as [|[dname ddata] items IH]; intros; cbn [filter_inventories_src_for2 flat_map app]; [reflexivity|].
  rewrite match_with_wildcard_src_eq. destruct (match_with_wildcard dname qd); cbn [negb app].
  - rewrite fi_for3_eq, IH, app_assoc. reflexivity.
  - apply IH.
Qed.

Lemma fi_for1_eq (K : list (str * inventory) -> option str -> option str -> option str -> option str -> list invmatch) :
  forall items invs,
  filter_inventories_src_for1 K items invs qi qd qo qt =
  filter_inventories items qi qd qo qt ++ K invs qi qd qo qt.
Proof.
  induction items as [|[iname idata] items IH]; intros; cbn [filter_inventories_src_for1]; [reflexivity|].
  unfold filter_inventories. cbn [flat_map]. fold (filter_inventories items qi qd qo qt).
  rewrite match_with_wildcard_src_eq. destruct (match_with_wildcard iname qi); cbn [negb app].
  - rewrite fi_for2_eq, IH, app_assoc. reflexivity.
  - apply IH.
Qed.

End FI.

Theorem filter_inventories_src_eq invs qi qd qo qt :
  filter_inventories_src invs qi qd qo qt = filter_inventories invs qi qd qo qt.
Proof. unfold filter_inventories_src. rewrite fi_for1_eq. apply app_nil_r. Qed.

(* ---------------- filter_sphinx_inventories ---------------- *)

Lemma split_colon_none key : mem_N 58 key = false -> split_colon key = None.
Proof.
  induction key as [|c key IH]; cbn [split_colon]; intro H; [reflexivity|].
  unfold mem_N in H. cbn [existsb] in H. apply orb_false_iff in H. destruct H as [H1 H2].
  unfold c_colon. rewrite N.eqb_sym, H1. rewrite IH by exact H2. reflexivity.
Qed.

Lemma split_colon_some key : mem_N 58 key = true -> split_colon key = Some (split_at 58 key).
Proof.
  induction key as [|c key IH]; cbn [split_colon split_at]; intro H; [discriminate|].
  unfold c_colon. destruct (c =? 58) eqn:E; [reflexivity|].
  unfold mem_N in H. cbn [existsb] in H. rewrite N.eqb_sym, E in H. cbn [orb] in H.
  rewrite IH by exact H. destruct (split_at 58 key). reflexivity.
Qed.

Lemma dash_to_none_alt text :
  dash_to_none text = if is_nil text || str_eqb text [45] then None else Some text.
Proof. destruct text; reflexivity. Qed.

Section FS.
Variables qi qd qo qt : option str.

Lemma fs_for3_eq (K : list (str * sinv) -> option str -> option str -> option str -> option str -> str -> sinv ->
                      str -> list (str * sitem) -> str -> str -> list invmatch) :
  forall items invs iname idata key data dname oname,
  filter_sphinx_inventories_src_for3 K items invs qi qd qo qt iname idata key data dname oname =
  flat_map (fun '(tname, (project, version, loc, text)) =>
      if match_with_wildcard tname qt then
        [{| m_inv := iname; m_domain := dname; m_otype := oname; m_name := tname;
            m_project := project; m_version := version; m_base := None;
            m_loc := loc; m_text := dash_to_none text |}]
      else []) items
  ++ K invs qi qd qo qt iname idata key data dname oname.
Proof.
  induction items as [|[tname [[[project version] loc] text]] items IH]; intros;
    cbn [filter_sphinx_inventories_src_for3 flat_map app]; [reflexivity|].
  rewrite match_with_wildcard_src_eq. destruct (match_with_wildcard tname qt); rewrite IH; [|reflexivity].
  rewrite dash_to_none_alt, negb_involutive. reflexivity.
Qed.

Lemma fs_for2_eq (K : list (str * sinv) -> option str -> option str -> option str -> option str -> str -> sinv ->
                      list invmatch) :
  forall items invs iname idata,
  filter_sphinx_inventories_src_for2 K items invs qi qd qo qt iname idata =
  flat_map (fun '(key, data) =>
      match split_colon key with
      | None => []
      | Some (dname, oname) =>
          if negb (match_with_wildcard dname qd && match_with_wildcard oname qo) then [] else
          flat_map (fun '(tname, (project, version, loc, text)) =>
            if match_with_wildcard tname qt then
              [{| m_inv := iname; m_domain := dname; m_otype := oname; m_name := tname;
                  m_project := project; m_version := version; m_base := None;
                  m_loc := loc; m_text := dash_to_none text |}]
            else []) data
      end) items
  ++ K invs qi qd qo qt iname idata.
Proof.
  induction items as [|[key data] items IH]; intros; cbn [filter_sphinx_inventories_src_for2 flat_map app]; [reflexivity|].
  destruct (mem_N 58 key) eqn:M; cbn [negb].
  - rewrite (split_colon_some key M). destruct (split_at 58 key) as [dname oname].
    rewrite !match_with_wildcard_src_eq.
    destruct (match_with_wildcard dname qd && match_with_wildcard oname qo); cbn [negb app].
    + rewrite fs_for3_eq, IH, app_assoc. reflexivity.
    + apply IH.
  - rewrite (split_colon_none key M). cbn [app]. apply IH.
Qed.

Lemma fs_for1_eq (K : list (str * sinv) -> option str -> option str -> option str -> option str -> list invmatch) :
  forall items invs,
  filter_sphinx_inventories_src_for1 K items invs qi qd qo qt =
  filter_sphinx_inventories items qi qd qo qt ++ K invs qi qd qo qt.
Proof.
  induction items as [|[iname idata] items IH]; intros; cbn [filter_sphinx_inventories_src_for1]; [reflexivity|].
  unfold filter_sphinx_inventories. cbn [flat_map]. fold (filter_sphinx_inventories items qi qd qo qt).
  rewrite match_with_wildcard_src_eq. destruct (match_with_wildcard iname qi); cbn [negb app].
  - rewrite fs_for2_eq, IH, app_assoc. reflexivity.
  - apply IH.
Qed.

End FS.

Theorem filter_sphinx_inventories_src_eq invs qi qd qo qt :
  filter_sphinx_inventories_src invs qi qd qo qt = filter_sphinx_inventories invs qi qd qo qt.
Proof. unfold filter_sphinx_inventories_src. rewrite fs_for1_eq. apply app_nil_r. Qed.

(* ---------------- filter_string ---------------- *)

(* one component: None -> "*"; a string containing the delimiter is put in double quotes *)
Definition filter_item (delimiter : str) (item : option str) : str :=
  match item with
  | None => [42]
  | Some s => if contains delimiter s then [34] ++ s ++ [34] else s
  end.

Lemma fstr_for1_eq (K : option str -> option str -> option str -> option str -> str -> list str -> str) :
  forall items a b c d delimiter acc,
  filter_string_src_for1 K items a b c d delimiter acc =
  K a b c d delimiter (acc ++ map (filter_item delimiter) items).
Proof.
  induction items as [|[s|] items IH]; intros; cbn [filter_string_src_for1 map].
  - rewrite app_nil_r. reflexivity.
  - cbn [filter_item]. destruct (contains delimiter s); rewrite IH, <- app_assoc; reflexivity.
  - rewrite IH, <- app_assoc. reflexivity.
Qed.

Theorem filter_string_src_spec invs domains otype target delimiter :
  filter_string_src invs domains otype target delimiter =
  join delimiter (map (filter_item delimiter) [invs; domains; otype; target]).
Proof. unfold filter_string_src. rewrite fstr_for1_eq. reflexivity. Qed.
