(* The top-level loop of _tokenize (hand model, OptModel.tok_iter) over an arbitrary set of scanners,
   its instance with the scanners regenerated from options.py (Gen/OptSrc.v), used to relate the
   translated generator tokenize_src to the hand model.
   Definitions only; the proofs are in Opt/OptSrcCompose.v. *)
From Coq Require Import List NArith Bool.
From MV Require Import Base.PyStr.
From MV Require Import Base.Res.
From MV Require Import Gen.OptConsts.
From MV Require Import Opt.OptModel.
From MV Require Import Opt.OptSrcLib.
From MV Require Import Gen.OptSrc.
Import ListNotations.
Open Scope N_scope.

(* the four functions _tokenize calls; the flow scanner also gets is_key (used for marks only) *)
Record scanners : Type := mkSc {
  sc_next  : stream -> res stream;
  sc_plain : stream -> bool -> res (stream * str);
  sc_flow  : stream -> N -> bool -> res (stream * str);
  sc_block : stream -> N -> res (stream * str)
}.

Definition hand_scanners : scanners :=
  mkSc scan_to_next_token scan_plain_scalar (fun s style _ => scan_flow_scalar s style) scan_block_scalar.

Definition src_scanners : scanners :=
  mkSc scan_to_next_token_src scan_plain_scalar_src scan_flow_scalar_src scan_block_scalar_src.

(* OptModel.tok_iter, with the scanners abstracted *)
Definition tok_iter_with (sc : scanners) (s : stream) : wres (option stream) :=
  dow s1 <- liftw (sc_next sc s);
  dow ch <- liftw (peek s1 0);
  if is_end ch then liftw (Ok None)
  else if negb (s_col s1 =? 0) then liftw (Raise (TokenizeError (s_idx s1)))
  else
    dow kr <- liftw (if mem_N ch in_tokenize_0 then sc_flow sc s1 ch true
                     else sc_plain sc s1 true);
    let '(s2, k) := kr in
    dow _ <- yield (TKey k);
    dow s3 <- liftw (sc_next sc s2);
    dow ch3 <- liftw (peek s3 0);
    if negb (ch3 =? c_colon) then liftw (Raise (TokenizeError (s_idx s3)))
    else
      dow s4 <- liftw (forward s3 1);
      dow _ <- yield TColon;
      dow s5 <- liftw (sc_next sc s4);
      dow ch5 <- liftw (peek s5 0);
      if s_col s5 =? 0 then liftw (Ok (Some s5))
      else
        dow vr <- liftw (if mem_N ch5 in_tokenize_1 then sc_block sc s5 ch5
                         else if mem_N ch5 in_tokenize_2 then sc_flow sc s5 ch5 false
                         else sc_plain sc s5 false);
        let '(s6, v) := vr in
        dow _ <- yield (TValue (s_idx s5) v);
        liftw (Ok (Some s6)).

Fixpoint tokenize_f_with (sc : scanners) (fuel : nat) (s : stream) : list token * option exn :=
  match fuel with
  | O => ([], Some OutOfFuel)
  | S f =>
      match tok_iter_with sc s with
      | (ts, Raise e) => (ts, Some e)
      | (ts, Ok None) => (ts, None)
      | (ts, Ok (Some s')) => let '(ts', e) := tokenize_f_with sc f s' in (ts ++ ts', e)
      end
  end.

Definition tokenize_with (sc : scanners) (text : str) : list token * option exn :=
  let s := new_stream text in tokenize_f_with sc (fuel_of s) s.

Definition options_to_items_with (sc : scanners) (text : str) : res (list (str * str)) :=
  let '(toks, pending) := tokenize_with sc text in to_items toks pending None.
