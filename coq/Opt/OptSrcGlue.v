(* Refinement of the translated glue of options.py (Gen/OptSrc.v): class StreamBuffer, TokenizeError.clone,
   _to_tokens and options_to_items, against the hand model (OptModel.v, OptMarksDef.v). *)
From Coq Require Import List NArith Bool Lia Arith.
From MV Require Import Base.PyStr.
From MV Require Import Base.Res.
From MV Require Import Gen.OptConsts.
From MV Require Import Opt.OptModel.
From MV Require Import Opt.OptMarksDef.
From MV Require Import Opt.OptMarks.
From MV Require Import Opt.OptSrcLib.
From MV Require Import Gen.OptSrc.
Import ListNotations.
Open Scope N_scope.

(* ------------------------------------------------------------------ class StreamBuffer *)

Lemma new_stream_src_eq text : new_stream_src text = new_stream text.
Proof. reflexivity. Qed.

Lemma peek_src_eq s k : peek_src s k = peek s k.
Proof. unfold peek_src, sb_at, peek. destruct (nth_error (s_rest s) k); reflexivity. Qed.

Lemma prefix_src_eq s n : prefix_src s n = prefix s n.
Proof. reflexivity. Qed.

Lemma forward_src_eq : forall k s, forward_src s k = forward s k.
Proof.
  induction k as [|k IH]; intros s; [reflexivity|]. cbn [forward_src forward].
  unfold forward1, sb_at. destruct (s_rest s) as [|ch r] eqn:E; cbn [nth_error bind]; [reflexivity|].
  unfold sb_index_incr. rewrite E. cbn [tl s_rest s_idx s_line s_col].
  unfold in_forward_0, c_cr, c_lf, c_bom.
  destruct (mem_N ch [10; 133; 8232; 8233]); cbn [bind].
  - rewrite IH. reflexivity.
  - destruct (ch =? 13).
    + destruct r as [|n r']; cbn [nth_error bind]; [reflexivity|].
      destruct (negb (n =? 10)); cbn [bind]; [rewrite IH; reflexivity|].
      destruct (negb (ch =? 65279)); rewrite IH; reflexivity.
    + cbn [bind]. destruct (negb (ch =? 65279)); rewrite IH; reflexivity.
Qed.

Lemma get_position_src_eq s : get_position_src s = (s_idx s, s_line s, s_col s).
Proof. reflexivity. Qed.

(* get_position() after forwarding k characters of a fresh StreamBuffer is (k, line of k, column of k) *)
Theorem forward_positions_src text k s : forward_src (new_stream_src text) k = Ok s ->
  get_position_src s = (N.of_nat k, line_of (text ++ CHARS_END) k, col_of (text ++ CHARS_END) k).
Proof.
  rewrite forward_src_eq, new_stream_src_eq. intros H.
  destruct (forward_positions text k s H) as (H1 & H2 & H3). unfold get_position_src. congruence.
Qed.
