(* Refinement of the translated glue of options.py (Gen/OptSrc.v): class StreamBuffer, TokenizeError.clone,
   _to_tokens and options_to_items, against the hand model (OptModel.v, OptMarksDef.v). *)
From Coq Require Import List NArith Bool Lia Arith.
From MV Require Import Base.PyStr.
From MV Require Import Base.Res.
From MV Require Import Gen.OptConsts.
From MV Require Import Opt.OptModel.
From MV Require Import Opt.OptMarksDef.
From MV Require Import Opt.OptMarks.
From MV Require Import Opt.OptSrcLib.
From MV Require Import Gen.OptSrc.
Import ListNotations.
Open Scope N_scope.

(* ------------------------------------------------------------------ class StreamBuffer *)

Lemma new_stream_src_eq text : new_stream_src text = new_stream text.
Proof. reflexivity. Qed.

Lemma peek_src_eq s k : peek_src s k = peek s k.
Proof. unfold peek_src, sb_at, peek. destruct (nth_error (s_rest s) k); reflexivity. Qed.

Lemma prefix_src_eq s n : prefix_src s n = prefix s n.
Proof. reflexivity. Qed.

Lemma forward_src_eq : forall k s, forward_src s k = forward s k.
Proof.
  induction k as [|k IH]; intros s; [reflexivity|]. cbn [forward_src forward].
  unfold forward1, sb_at. destruct (s_rest s) as [|ch r] eqn:E; cbn [nth_error bind]; [reflexivity|].
  unfold sb_index_incr. rewrite E. cbn [tl s_rest s_idx s_line s_col].
  unfold in_forward_0, c_cr, c_lf, c_bom.
  destruct (mem_N ch [10; 133; 8232; 8233]); cbn [bind].
  - rewrite IH. reflexivity.
  - destruct (ch =? 13).
    + destruct r as [|n r']; cbn [nth_error bind]; [reflexivity|].
      destruct (negb (n =? 10)); cbn [bind]; [rewrite IH; reflexivity|].
      destruct (negb (ch =? 65279)); rewrite IH; reflexivity.
    + cbn [bind]. destruct (negb (ch =? 65279)); rewrite IH; reflexivity.
Qed.

Lemma get_position_src_eq s : get_position_src s = (s_idx s, s_line s, s_col s).
Proof. reflexivity. Qed.

(* get_position() after forwarding k characters of a fresh StreamBuffer is (k, line of k, column of k) *)
Theorem forward_positions_src text k s : forward_src (new_stream_src text) k = Ok s ->
  get_position_src s = (N.of_nat k, line_of (text ++ CHARS_END) k, col_of (text ++ CHARS_END) k).
Proof.
  rewrite forward_src_eq, new_stream_src_eq. intros H.
  destruct (forward_positions text k s H) as (H1 & H2 & H3). unfold get_position_src. congruence.
Qed.

(* ------------------------------------------------------------------ TokenizeError.clone, the handler of _to_tokens *)

(* the mark reported for an error at index p when options_to_items is called with offsets *)
Theorem reraise_mark_src_eq text lo co p :
  reraise_mark_src (error_mark text 0 0 p) lo co = error_mark text lo co p.
Proof.
  unfold reraise_mark_src, clone_src, error_mark. cbv zeta.
  destruct (lo =? 0) eqn:El, (co =? 0) eqn:Ec; cbn [negb orb]; rewrite ?N.add_0_r; try reflexivity.
  apply N.eqb_eq in El, Ec. subst. rewrite !N.add_0_r. reflexivity.
Qed.

Theorem clone_src_positions text lo co p :
  clone_src (error_mark text 0 0 p) lo co = error_mark text lo co p.
Proof. unfold clone_src, error_mark. cbv zeta. rewrite !N.add_0_r. reflexivity. Qed.

(* ------------------------------------------------------------------ _to_tokens, options_to_items *)

Definition conv (p : str * option str) : str * str :=
  (fst p, match snd p with Some v => v | None => [] end).

Lemma options_f1_map : forall todo out, options_to_items_src_f1 todo out = out ++ map conv todo.
Proof.
  induction todo as [|[k v] todo IH]; intros out; cbn [options_to_items_src_f1 map]; [rewrite app_nil_r; reflexivity|].
  rewrite IH, <- app_assoc. reflexivity.
Qed.

Definition fin (m : gw (str * option str) unit) : res (list (str * str)) :=
  let '(ps, r) := m in do _ <- r; Ok (map conv ps).

Lemma gbind_assoc {T A B D} (m : gw T A) (k1 : A -> gw T B) (k2 : B -> gw T D) :
  gbind (gbind m k1) k2 = gbind m (fun a => gbind (k1 a) k2).
Proof.
  destruct m as [ts [a|e]]; cbn [gbind]; [|reflexivity].
  destruct (k1 a) as [ts1 [b|e1]]; cbn [gbind]; [|reflexivity].
  destruct (k2 b) as [ts2 r]. rewrite app_assoc. reflexivity.
Qed.

Lemma fin_gbind {A} ts (a : A) (F : A -> gw (str * option str) unit) :
  fin (gbind (ts, Ok a) F) = do out <- fin (F a); Ok (map conv ts ++ out).
Proof.
  cbn [gbind]. destruct (F a) as [ts' [u|e]]; cbn [fin bind]; [rewrite map_app; reflexivity | reflexivity].
Qed.

Definition tail_of (pending : option exn) (key_token : option str) : gw (str * option str) unit :=
  match pending with
  | Some e => graise e
  | None => dog _ <- (match key_token with Some k => dog _ <- gyield (k, None); gret tt | None => gret tt end); gret tt
  end.

Lemma to_tokens_f1_eq pending : forall toks key,
  fin (dog k <- to_tokens_src_f1 toks key; tail_of pending k) = to_items toks pending key.
Proof.
  induction toks as [|t toks IH]; intros key.
  - cbn [to_tokens_src_f1]. unfold gret at 1. rewrite fin_gbind. cbn [map app].
    destruct pending as [e|]; cbn [tail_of to_items]; [reflexivity|].
    destruct key as [k|]; reflexivity.
  - cbn [to_tokens_src_f1]. rewrite gbind_assoc.
    destruct t as [v| |st v]; cbn [to_items].
    + destruct key as [k0|].
      * change (dog _ <- (dog _ <- gyield (k0, None); gret tt); gret (Some v)) with
          (([(k0, @None str)], Ok (Some v)) : gw (str * option str) (option str)).
        rewrite fin_gbind, IH. cbn [map conv fst snd app].
        destruct (to_items toks pending (Some v)); reflexivity.
      * change (dog _ <- gret tt; gret (Some v)) with (([], Ok (Some v)) : gw (str * option str) (option str)).
        rewrite fin_gbind, IH. cbn [map app]. destruct (to_items toks pending (Some v)); reflexivity.
    + unfold gret at 1. rewrite fin_gbind, IH. cbn [map app]. destruct (to_items toks pending key); reflexivity.
    + destruct key as [k0|].
      * change (dog _ <- gyield (k0, Some v); gret None) with
          (([(k0, Some v)], Ok (@None str)) : gw (str * option str) (option str)).
        rewrite fin_gbind, IH. cbn [map conv fst snd app]. reflexivity.
      * reflexivity.
Qed.

(* the translated _to_tokens / options_to_items over the translated generator are the hand model's to_items *)
Theorem options_to_items_src_glue text :
  options_to_items_src text = let '(toks, pending) := tokenize_src text in to_items toks pending None.
Proof.
  unfold options_to_items_src, to_tokens_src. cbv zeta. destruct (tokenize_src text) as [toks pending].
  rewrite <- (to_tokens_f1_eq pending toks None). unfold fin, tail_of.
  destruct (dog k <- to_tokens_src_f1 toks None;
            match pending with
            | Some e => graise e
            | None => dog _ <- (match k with Some k0 => dog _ <- gyield (k0, None); gret tt | None => gret tt end); gret tt
            end) as [ps r].
  destruct r as [u|e]; cbn [bind]; [|reflexivity]. rewrite options_f1_map. reflexivity.
Qed.
