(* Agreement: key_spec / value_spec for the plain family, and the theorem for whole blocks. *)
From Coq Require Import List NArith Bool Lia ZifyBool Arith.
From MV Require Import Base.PyStr.
From MV Require Import Base.Res.
From MV Require Import Gen.OptConsts.
From MV Require Import Opt.OptModel.
From MV Require Import Opt.YamlSpec.
From MV Require Import Opt.OptAgreeBase.
From MV Require Import Opt.OptAgreePlain.
From MV Require Import Opt.OptAgree.
Import ListNotations.
Open Scope N_scope.

Lemma indicator_facts c : indicator c = false ->
  c <> 35 /\ c <> 39 /\ c <> 34 /\ c <> 124 /\ c <> 62.
Proof. unfold indicator, mem_N. cbn [existsb]. lia. Qed.

(* ------------------------------------------------------------------ plain keys *)

Lemma key_spec_plain l : wf_key (KPlain l) = true -> key_spec (KPlain l).
Proof.
  cbn [wf_key]. intros H. apply andb_true_iff in H as [H _].
  unfold wf_pline_start in H. apply andb_true_iff in H as [Hp Hi].
  destruct (wf_pline_flat true l Hp) as [Hw Hfl].
  destruct (wf_word_inv _ Hw) as (c & w' & Ew & Hc & Hc35 & Hok & Hlast).
  rewrite Ew in Hi. cbn [first_is] in Hi. apply negb_true_iff in Hi.
  destruct (indicator_facts _ Hi) as (_ & I39 & I34 & _).
  unfold key_spec. cbn [print_key key_meaning].
  exists c, (w' ++ print_flat (flat_of_pline l)). split; [rewrite print_pline_flat, Ew; reflexivity|].
  split; [right; right; split; assumption|].
  intros s ksp x t Hx Hcol Hr. exists ksp. split; [lia|].
  unfold key_scan. replace (mem_N c in_tokenize_0) with false by charfact.
  rewrite print_pline_flat in Hr. rewrite (mean_pline_flat l) at 2. rewrite print_pline_flat.
  apply (scan_plain_flat true (sp ksp ++ 58 :: x :: t) (sp ksp)).
  - intros f. apply tailspec_key. destruct Hx as [Hx|[Hx|Hx]]; subst; reflexivity.
  - rewrite app_length. cbn [length]. lia.
  - exact Hw.
  - exact Hfl.
  - rewrite Hr, <- !app_assoc. reflexivity.
Qed.

(* ------------------------------------------------------------------ plain values *)

Lemma value_spec_plain vsp l0 more tsp cm trail :
  wf_value (VFlow vsp (FPlain l0 more) tsp cm) = true ->
  value_spec (VFlow vsp (FPlain l0 more) tsp cm) trail.
Proof.
  cbn [wf_value]. intros H. apply andb_true_iff in H as [H Hcm]. apply andb_true_iff in H as [_ Hfl].
  destruct (wf_plain_flat l0 more Hfl) as [Hw Hflat].
  cbn [wf_flow] in Hfl. apply andb_true_iff in Hfl as [Hst _].
  unfold wf_pline_start in Hst. apply andb_true_iff in Hst as [_ Hi].
  destruct (wf_word_inv _ Hw) as (c & w' & Ew & Hc & Hc35 & Hok & Hlast).
  rewrite Ew in Hi. cbn [first_is] in Hi. apply negb_true_iff in Hi.
  destruct (indicator_facts _ Hi) as (_ & I39 & I34 & I124 & I62).
  set (fl := flat_of_plain l0 more) in *.
  unfold value_spec. cbn [value_text value_meaning]. rewrite print_plain_flat, mean_plain_flat. fold fl.
  exists c, (w' ++ print_flat fl ++ sp tsp ++ print_comment cm ++ [10] ++ bl trail).
  split; [rewrite Ew, <- !app_assoc; reflexivity|].
  split; [unfold stopc, lbc; repeat split; charfact|].
  intros s c0 t0 Hcol Hc0 Hr. unfold value_scan.
  replace (mem_N c in_tokenize_1) with false by charfact.
  replace (mem_N c in_tokenize_2) with false by charfact.
  destruct cm as [tc|]; cbn [print_comment comment_ok] in *.
  - apply andb_true_iff in Hcm as [Htsp Htc]. apply negb_true_iff, Nat.eqb_neq in Htsp.
    exists ((pl_first l0 ++ print_flat fl) ++ sp tsp), ((O, Some tc) :: blanks trail).
    split; [|split; [|split]].
    + rewrite print_ltails_cons, print_blanks. unfold print_ltail. cbn [fst snd sp repeat print_comment app].
      rewrite <- !app_assoc. reflexivity.
    + cbn [forallb]. rewrite wf_blanks, andb_true_r. exact Htc.
    + discriminate.
    + apply (scan_plain_flat false (sp tsp ++ 35 :: (tc ++ [10] ++ bl trail ++ c0 :: t0)) (sp tsp)).
      * intros f. apply tailspec_comment. exact Htsp.
      * rewrite app_length. cbn [length]. lia.
      * exact Hw.
      * exact Hflat.
      * rewrite Hr, <- !app_assoc. reflexivity.
  - exists ((pl_first l0 ++ print_flat fl) ++ sp tsp ++ [10] ++ bl trail), [].
    split; [|split; [|split]].
    + cbn [print_ltails map concat app]. rewrite app_nil_r, <- !app_assoc. reflexivity.
    + reflexivity.
    + intros _. rewrite after_app.
      pose proof (col_after_bl (after s (pl_first l0 ++ print_flat fl)) (sp tsp) trail [] (Forall_nil _)) as Hc'.
      rewrite !app_nil_r in Hc'. exact Hc'.
    + apply (scan_plain_flat false ((sp tsp ++ [10] ++ bl trail) ++ c0 :: t0) (sp tsp ++ [10] ++ bl trail)).
      * intros f. apply tailspec_break. apply item_start_line. apply Hc0. reflexivity.
      * rewrite !app_length. cbn [length]. lia.
      * exact Hw.
      * exact Hflat.
      * rewrite Hr, <- !app_assoc. reflexivity.
Qed.

(* the last word, spaces, the line break, blank lines, then an indented comment line *)
Lemma plain_last_break_comment f s chunks spaces w tsp trail m t :
  wf_word w = true ->
  s_rest s = w ++ (sp tsp ++ [10] ++ bl trail ++ sp (S m)) ++ 35 :: t ->
  plain_scalar_f (S f) false s chunks spaces =
  Ok (after s (w ++ sp tsp ++ [10] ++ bl trail ++ sp (S m)), chunks ++ spaces ++ [w]).
Proof.
  intros Hw Hr.
  assert (Hr' : s_rest s = w ++ print_psep (PBr tsp trail (S m)) ++ 35 :: t).
  { rewrite Hr. cbn [print_psep]. rewrite <- !app_assoc. reflexivity. }
  rewrite (plain_word_sep false f s chunks spaces w (PBr tsp trail (S m)) 35 t Hw); [| reflexivity | reflexivity | exact Hr'].
  replace (35 =? c_hash) with true by reflexivity. cbn [orb print_psep]. reflexivity.
Qed.

Lemma value_spec_ic_plain vsp l0 more tsp cm trail :
  wf_value (VFlow vsp (FPlain l0 more) tsp cm) = true ->
  value_spec_ic (VFlow vsp (FPlain l0 more) tsp cm) trail.
Proof.
  cbn [wf_value]. intros H. apply andb_true_iff in H as [H Hcm]. apply andb_true_iff in H as [_ Hfl].
  destruct (wf_plain_flat l0 more Hfl) as [Hw Hflat].
  cbn [wf_flow] in Hfl. apply andb_true_iff in Hfl as [Hst _].
  unfold wf_pline_start in Hst. apply andb_true_iff in Hst as [_ Hi].
  destruct (wf_word_inv _ Hw) as (c & w' & Ew & Hc & Hc35 & Hok & Hlast).
  rewrite Ew in Hi. cbn [first_is] in Hi. apply negb_true_iff in Hi.
  destruct (indicator_facts _ Hi) as (_ & I39 & I34 & I124 & I62).
  set (fl := flat_of_plain l0 more) in *.
  intros m Heat _ c' r'. cbn [eats_value] in Heat. destruct cm as [tc|]; [discriminate|].
  cbn [value_text value_meaning print_comment app]. rewrite print_plain_flat, mean_plain_flat. fold fl.
  intros Ec' s t0 Hcol Hr.
  assert (c' = c) by (rewrite Ew, <- !app_assoc in Ec'; cbn [app] in Ec'; inversion Ec'; reflexivity). subst c'.
  unfold value_scan.
  replace (mem_N c in_tokenize_1) with false by charfact.
  replace (mem_N c in_tokenize_2) with false by charfact.
  pose proof (scan_plain_flat false ((sp tsp ++ [10] ++ bl trail ++ sp (S m)) ++ 35 :: t0)
                (sp tsp ++ [10] ++ bl trail ++ sp (S m))) as HS.
  rewrite (HS) with (l := fl) (w := pl_first l0).
  - f_equal. f_equal. f_equal. rewrite <- !app_assoc. reflexivity.
  - intros f s' chunks spaces w Hw' Hr'. eapply plain_last_break_comment; eassumption.
  - rewrite !app_length. cbn [length]. lia.
  - exact Hw.
  - exact Hflat.
  - rewrite Hr, <- !app_assoc. reflexivity.
Qed.

(* ------------------------------------------------------------------ whole blocks *)

Lemma print_items_length items : forallb wf_item items = true ->
  (length items <= length (print_items items))%nat.
Proof.
  intros Hwf. apply concat_length_ge. intros it _.
  destruct it as [n t tr|k ksp v tr]; cbn [print_item]; rewrite ?app_length; cbn [length]; lia.
Qed.

