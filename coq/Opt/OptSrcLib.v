(* Support for the code regenerated from options.py (Gen/OptSrc.v): how a `while` loop ends. *)
From Coq Require Import List NArith Bool.
From MV Require Import Base.PyStr.
From MV Require Import Base.Res.
From MV Require Import Opt.OptModel.
Import ListNotations.
Open Scope N_scope.

(* a loop is left by `break` / a false condition (Next: the loop variables) or by `return` (Done) *)
Inductive ctl (S R : Type) : Type :=
| Next (s : S)
| Done (r : R).
Arguments Next {S R} s.
Arguments Done {S R} r.

(* `not xs` for a Python list *)
Definition is_nil {A} (l : list A) : bool := match l with [] => true | _ => false end.

(* ---- StreamBuffer: representation chosen for the translated class ----
   The Python object (_buffer, _index, _line, _column) is the record OptModel.stream
   (s_idx, s_line, s_col, s_rest) with s_rest = _buffer[_index:].  The four accessors below are
   the only places where that representation is used by gen/c07_src.py. *)
(* self._buffer[self._index + k] *)
Definition sb_at (self : stream) (k : nat) : res N :=
  match nth_error (s_rest self) k with Some c => Ok c | None => Raise IndexError end.
(* self._buffer[self._index : self._index + n] *)
Definition sb_slice (self : stream) (n : nat) : str := firstn n (s_rest self).
(* self._index += 1 *)
Definition sb_index_incr (self : stream) : stream :=
  mkS (s_idx self + 1) (s_line self) (s_col self) (tl (s_rest self)).
Definition sb_set_line (self : stream) (v : N) : stream := mkS (s_idx self) v (s_col self) (s_rest self).
Definition sb_set_col (self : stream) (v : N) : stream := mkS (s_idx self) (s_line self) v (s_rest self).
(* StreamBuffer.__init__ : _buffer = b, _index = i, _line = l, _column = c (i = 0 only) *)
Definition sb_init (b : str) (l c : N) : stream := mkS 0 l c b.

(* a generator run over items of type T *)
Definition gw (T A : Type) : Type := (list T * res A)%type.
Definition gret {T A} (a : A) : gw T A := ([], Ok a).
Definition graise {T A} (e : exn) : gw T A := ([], Raise e).
Definition gyield {T} (t : T) : gw T unit := ([t], Ok tt).
Definition gbind {T A B} (m : gw T A) (f : A -> gw T B) : gw T B :=
  match m with
  | (ts, Raise e) => (ts, Raise e)
  | (ts, Ok a) => let '(ts', r) := f a in (ts ++ ts', r)
  end.
Notation "'dog' x <- r ; k" := (gbind r (fun x => k))
  (at level 200, x pattern, r at level 100, k at level 200, right associativity).
