(* Support for the code regenerated from options.py (Gen/OptSrc.v): how a `while` loop ends. *)
From Coq Require Import List NArith Bool.
From MV Require Import Base.PyStr.
From MV Require Import Base.Res.
Import ListNotations.

(* a loop is left by `break` / a false condition (Next: the loop variables) or by `return` (Done) *)
Inductive ctl (S R : Type) : Type :=
| Next (s : S)
| Done (r : R).
Arguments Next {S R} s.
Arguments Done {S R} r.

(* `not xs` for a Python list *)
Definition is_nil {A} (l : list A) : bool := match l with [] => true | _ => false end.
