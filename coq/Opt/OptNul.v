(* An embedded NUL is the end of the input: nothing after the first sentinel-like character is
   ever looked at.  [ext J s] is the stream s with extra text J after its buffer; every function
   of the model commutes with [ext] on well-formed streams (buffer ending in NUL), whatever the
   (sufficient) fuels.  Hence options_to_items (a ++ 0 :: b) = options_to_items a. *)
From Coq Require Import List NArith Bool Lia ZifyBool Arith.
From MV Require Import Base.PyStr.
From MV Require Import Base.Res.
From MV Require Import Gen.OptConsts.
From MV Require Import Opt.OptModel.
From MV Require Import Opt.OptSafe.
Import ListNotations.
Open Scope N_scope.

Section Ext.
Variable J : str.

Definition ext (s : stream) : stream := mkS (s_idx s) (s_line s) (s_col s) (s_rest s ++ J).

Definition e1 (r : res stream) : res stream := do s <- r; Ok (ext s).
Definition e2 {A} (r : res (stream * A)) : res (stream * A) := do x <- r; Ok (ext (fst x), snd x).
Definition e3 {A B} (r : res (stream * A * B)) : res (stream * A * B) :=
  do x <- r; Ok (ext (fst (fst x)), snd (fst x), snd x).
Definition e4 {A B C} (r : res (stream * A * B * C)) : res (stream * A * B * C) :=
  do x <- r; Ok (ext (fst (fst (fst x))), snd (fst (fst x)), snd (fst x), snd x).

Definition fits (s : stream) (f : nat) : Prop := (length (s_rest s) < f)%nat.
Lemma fits_ext_lt s s' f : fits (ext s) (S f) -> lt_s s s' -> fits (ext s') f.
Proof. unfold fits, lt_s, ext. cbn [s_rest]. rewrite !app_length. lia. Qed.
Lemma fits_lt s s' f : fits s (S f) -> lt_s s s' -> fits s' f.
Proof. unfold fits, lt_s. lia. Qed.
Lemma fits_of s : fits s (fuel_of s). Proof. unfold fits, fuel_of. lia. Qed.
Lemma fits_ext_le s s' f : fits (ext s) f -> le_s s s' -> fits (ext s') f.
Proof. unfold fits, le_s, ext. cbn [s_rest]. rewrite !app_length. lia. Qed.
Lemma fits_le s s' f : fits s f -> le_s s s' -> fits s' f.
Proof. unfold fits, le_s. lia. Qed.

(* ------------------------------------------------------------------ primitives *)

Lemma peek0_ext n s : wfs n s -> peek (ext s) 0 = peek s 0.
Proof.
  intros Hw. destruct (wfs_peek _ _ Hw) as [c [r [Hr _]]]. unfold peek, ext. cbn [s_rest]. rewrite Hr. reflexivity.
Qed.

Lemma forward1_ext n s c : wfs n s -> peek s 0 = Ok c -> c <> 0 -> forward1 (ext s) = e1 (forward1 s).
Proof.
  intros Hw Hp Hc. destruct (wfs_peek _ _ Hw) as [c' [r [Hr Hp']]]. rewrite Hp in Hp'. inversion Hp'; subst c'.
  destruct (wfs_tail _ _ _ _ Hw Hr Hc) as [pre' Hpre].
  unfold forward1, ext. cbn [s_rest s_idx s_line s_col]. rewrite Hr. cbn [app].
  destruct (mem_N c in_forward_0); [reflexivity|].
  destruct (c =? c_cr).
  - destruct r as [|x r']; [destruct pre'; discriminate|]. cbn [app].
    destruct (negb (x =? c_lf)); [reflexivity|]. destruct (negb (c =? c_bom)); reflexivity.
  - destruct (negb (c =? c_bom)); reflexivity.
Qed.

Lemma forward_ext n : forall k s, wfs n s -> Forall nz (firstn k (s_rest s)) ->
  forward (ext s) k = e1 (forward s k).
Proof.
  induction k as [|k IH]; intros s Hw HF; [reflexivity|].
  destruct (wfs_peek _ _ Hw) as [c [r [Hr Hp]]]. rewrite Hr in HF. cbn [firstn] in HF.
  inversion HF as [|? ? Hc HF']; subst.
  cbn [forward]. rewrite (forward1_ext n s c Hw Hp Hc).
  destruct (forward1_ok _ _ _ _ Hw Hr Hc) as [s1 [H1 [Hw1 Hr1]]]. rewrite H1. cbn [e1 bind].
  apply IH; [exact Hw1 | rewrite Hr1; exact HF'].
Qed.

Lemma forward_1_ext n s c : wfs n s -> peek s 0 = Ok c -> c <> 0 -> forward (ext s) 1 = e1 (forward s 1).
Proof.
  intros Hw Hp Hc. destruct (wfs_peek _ _ Hw) as [c' [r [Hr Hp']]]. rewrite Hp in Hp'. inversion Hp'; subst c'.
  apply (forward_ext n 1 s Hw). rewrite Hr. cbn. constructor; [exact Hc | constructor].
Qed.

Lemma count_while_ext p : p 0 = false -> forall pre,
  count_while p ((pre ++ [0]) ++ J) = count_while p (pre ++ [0]).
Proof.
  intros Hp. induction pre as [|c pre IH]; cbn [app count_while].
  - rewrite Hp. reflexivity.
  - destruct (p c); [rewrite IH|]; reflexivity.
Qed.

Lemma count_ext n p s : p 0 = false -> wfs n s ->
  count_while p (s_rest (ext s)) = count_while p (s_rest s).
Proof.
  intros Hp [_ [pre Hpre]]. unfold ext. cbn [s_rest]. rewrite Hpre. apply count_while_ext. exact Hp.
Qed.

Lemma prefix_ext s k : (k <= length (s_rest s))%nat -> prefix (ext s) k = prefix s k.
Proof.
  intros H. unfold prefix, ext. cbn [s_rest]. rewrite firstn_app.
  replace (k - length (s_rest s))%nat with O by lia. cbn [firstn]. apply app_nil_r.
Qed.

(* count then forward: the whole step *)
Lemma count_forward_ext n p s : p 0 = false -> wfs n s ->
  exists k s', count_while p (s_rest s) = Ok k /\ forward s k = Ok s' /\ wfs n s' /\
               (length (s_rest s') + k = length (s_rest s))%nat /\
               count_while p (s_rest (ext s)) = Ok k /\ forward (ext s) k = Ok (ext s') /\
               prefix (ext s) k = prefix s k.
Proof.
  intros Hp Hw. destruct Hw as [Hi [pre Hpre]].
  destruct (count_while_ok p Hp pre) as [k [Hk HF]]. rewrite <- Hpre in *.
  assert (Hw : wfs n s) by (split; eauto).
  destruct (forward_ok_len n k s Hw HF) as [s' [H1 [H2 H3]]].
  exists k, s'. split; [exact Hk|]. split; [exact H1|]. split; [exact H2|]. split; [exact H3|].
  split; [rewrite (count_ext n p s Hp Hw); exact Hk|].
  split; [rewrite (forward_ext n k s Hw HF), H1; reflexivity|].
  apply prefix_ext. lia.
Qed.

(* ------------------------------------------------------------------ simple loops *)

Lemma skip_while_f_ext n p : p 0 = false -> forall f1 f2 s, wfs n s -> fits s f1 -> fits (ext s) f2 ->
  skip_while_f f2 p (ext s) = e1 (skip_while_f f1 p s).
Proof.
  intros Hp. induction f1 as [|f1 IH]; intros f2 s Hw H1 H2; [unfold fits in H1; lia|].
  destruct f2 as [|f2]; [unfold fits in H2; lia|]. cbn [skip_while_f].
  rewrite (peek0_ext n s Hw). destruct (wfs_peek _ _ Hw) as [c [r [Hr Hpk]]]. rewrite Hpk. cbn [bind].
  destruct (p c) eqn:E; [|reflexivity].
  assert (Hc : c <> 0) by (intro; subst; congruence).
  rewrite (forward_1_ext n s c Hw Hpk Hc).
  destruct (forward_1 _ _ _ Hw Hpk Hc) as [s1 [Hf [Hw1 Hlt]]]. rewrite Hf. cbn [e1 bind].
  apply IH; [exact Hw1 | eapply fits_lt; eassumption | eapply fits_ext_lt; eassumption].
Qed.

Lemma skip_while_ext n p s : p 0 = false -> wfs n s -> skip_while p (ext s) = e1 (skip_while p s).
Proof. intros Hp Hw. unfold skip_while. apply (skip_while_f_ext n p Hp); auto using fits_of. Qed.

Lemma scan_line_break_ext n s : wfs n s -> scan_line_break (ext s) = e2 (scan_line_break s).
Proof.
  intros Hw. unfold scan_line_break. rewrite (peek0_ext n s Hw).
  destruct (wfs_peek _ _ Hw) as [c [r [Hr Hpk]]]. rewrite Hpk. cbn [bind].
  destruct (mem_N c in_scan_line_break_0) eqn:E0.
  - assert (Hc : c <> 0) by (eapply mem_nz; [apply F_lb0_nz | eassumption]).
    destruct (wfs_tail _ _ _ _ Hw Hr Hc) as [pre' Hpre].
    assert (Hlen : (2 <= length (s_rest s))%nat).
    { rewrite Hr, Hpre. cbn [length]. rewrite app_length. cbn [length]. lia. }
    rewrite (prefix_ext s 2 Hlen).
    destruct (str_eqb (prefix s 2) [c_cr; c_lf]) eqn:Ecrlf.
    + apply str_eqb_eq in Ecrlf. unfold prefix in Ecrlf.
      rewrite (forward_ext n 2 s Hw); [|rewrite Ecrlf; repeat constructor; discriminate].
      destruct (forward s 2); reflexivity.
    + rewrite (forward_1_ext n s c Hw Hpk Hc). destruct (forward s 1); reflexivity.
  - destruct (mem_N c in_scan_line_break_1) eqn:E1; [|reflexivity].
    assert (Hc : c <> 0) by (eapply mem_nz; [apply F_lb1_nz | eassumption]).
    rewrite (forward_1_ext n s c Hw Hpk Hc). destruct (forward s 1); reflexivity.
Qed.

(* a sub-call: rewrite the extended call, then case on the plain one using its safety lemma *)
Ltac sub1 Hext Hsafe s1 Hw1 Hle1 :=
  rewrite Hext; let HS := fresh "HS" in pose proof Hsafe as HS;
  match goal with |- context [e1 ?X] => destruct X as [s1|?e] end;
  [cbn [e1 bind safe] in *; destruct HS as [Hw1 Hle1] | reflexivity].

Lemma stnt_f_ext n : forall f1 f2 s, wfs n s -> fits s f1 -> fits (ext s) f2 ->
  scan_to_next_token_f f2 (ext s) = e1 (scan_to_next_token_f f1 s).
Proof.
  induction f1 as [|f1 IH]; intros f2 s Hw H1 H2; [unfold fits in H1; lia|].
  destruct f2 as [|f2]; [unfold fits in H2; lia|]. cbn [scan_to_next_token_f].
  rewrite (skip_while_ext n _ s eq_refl Hw).
  pose proof (skip_while_safe n (fun ch => ch =? c_space) s eq_refl Hw) as HS.
  destruct (skip_while (fun ch => ch =? c_space) s) as [s1|e]; [|reflexivity].
  cbn [e1 bind safe] in *. destruct HS as [Hw1 Hle1].
  rewrite (peek0_ext n s1 Hw1). destruct (wfs_peek _ _ Hw1) as [c [r [Hr Hpk]]]. rewrite Hpk. cbn [bind].
  assert (Hp0 : (fun ch => negb (mem_N ch in_scan_to_next_token_0)) 0 = false) by (cbn beta; rewrite F_stnt; reflexivity).
  assert (Hs2 : exists r2, (if c =? c_hash then skip_while (fun ch => negb (mem_N ch in_scan_to_next_token_0)) s1 else Ok s1) = r2 /\
                 (if c =? c_hash then skip_while (fun ch => negb (mem_N ch in_scan_to_next_token_0)) (ext s1) else Ok (ext s1)) = e1 r2 /\
                 safe n (adv n s1) r2).
  { eexists. split; [reflexivity|]. destruct (c =? c_hash).
    - split; [apply (skip_while_ext n _ s1 Hp0 Hw1) | apply (skip_while_safe n _ s1 Hp0 Hw1)].
    - split; [reflexivity | cbn [safe]; split; auto with opt]. }
  destruct Hs2 as (r2 & E2 & E2' & HS2). rewrite E2, E2'. destruct r2 as [s2|e]; [|reflexivity].
  cbn [e1 bind safe] in *. destruct HS2 as [Hw2 Hle2].
  rewrite (scan_line_break_ext n s2 Hw2). pose proof (scan_line_break_safe n s2 Hw2) as HS3.
  destruct (scan_line_break s2) as [[s3 lb]|e]; [|reflexivity]. cbn [e2 bind fst snd safe] in *.
  destruct HS3 as (Hw3 & Hle3 & _ & Hcons & _). cbn [fst snd] in *.
  destruct lb as [|x lb]; cbn [nonempty negb]; [reflexivity|].
  assert (Hlt : lt_s s s3).
  { assert (lt_s s2 s3) by (apply Hcons; discriminate). unfold lt_s, le_s in *. lia. }
  apply IH; [exact Hw3 | eapply fits_lt; eassumption | eapply fits_ext_lt; eassumption].
Qed.

Lemma stnt_ext n s : wfs n s -> scan_to_next_token (ext s) = e1 (scan_to_next_token s).
Proof.
  intros Hw. unfold scan_to_next_token.
  assert (H0 : exists r0, (if s_idx s =? 0 then do ch <- peek s 0; if ch =? c_bom then forward s 1 else Ok s else Ok s) = r0 /\
                (if s_idx (ext s) =? 0 then do ch <- peek (ext s) 0; if ch =? c_bom then forward (ext s) 1 else Ok (ext s) else Ok (ext s)) = e1 r0 /\
                safe n (adv n s) r0).
  { eexists. split; [reflexivity|]. change (s_idx (ext s)) with (s_idx s).
    destruct (s_idx s =? 0); [|split; [reflexivity | cbn [safe]; split; auto with opt]].
    rewrite (peek0_ext n s Hw). destruct (wfs_peek _ _ Hw) as [c [r [Hr Hpk]]]. rewrite Hpk. cbn [bind].
    destruct (c =? c_bom) eqn:E; [|split; [reflexivity | cbn [safe]; split; auto with opt]].
    apply N.eqb_eq in E. assert (Hc : c <> 0) by (subst; discriminate).
    split; [apply (forward_1_ext n s c Hw Hpk Hc)|].
    destruct (forward_1 _ _ _ Hw Hpk Hc) as [s' [Hf [Hw' Hlt]]]. rewrite Hf. cbn [safe]. split; auto with opt. }
  destruct H0 as (r0 & E0 & E0' & HS0). rewrite E0, E0'. destruct r0 as [s0|e]; [|reflexivity].
  cbn [e1 bind safe] in *. destruct HS0 as [Hw0 Hle0].
  apply (stnt_f_ext n); auto using fits_of.
Qed.

(* ------------------------------------------------------------------ plain scalars *)

Lemma plain_breaks_f_ext n : forall f1 f2 s br, wfs n s -> fits s f1 -> fits (ext s) f2 ->
  plain_breaks_f f2 (ext s) br = e2 (plain_breaks_f f1 s br).
Proof.
  induction f1 as [|f1 IH]; intros f2 s br Hw H1 H2; [unfold fits in H1; lia|].
  destruct f2 as [|f2]; [unfold fits in H2; lia|]. cbn [plain_breaks_f].
  rewrite (peek0_ext n s Hw). destruct (wfs_peek _ _ Hw) as [c [r [Hr Hpk]]]. rewrite Hpk. cbn [bind].
  destruct (mem_N c in_scan_plain_spaces_1) eqn:Em; [|reflexivity].
  destruct (c =? c_space) eqn:Es.
  - apply N.eqb_eq in Es. assert (Hc : c <> 0) by (subst; discriminate).
    rewrite (forward_1_ext n s c Hw Hpk Hc).
    destruct (forward_1 _ _ _ Hw Hpk Hc) as [s1 [Hf [Hw1 Hlt]]]. rewrite Hf. cbn [e1 bind].
    apply IH; [exact Hw1 | eapply fits_lt; eassumption | eapply fits_ext_lt; eassumption].
  - pose proof (mem_forallb _ _ _ F_ps1 Em) as Hl. cbn beta in Hl. rewrite Es in Hl. cbn [orb] in Hl.
    rewrite (scan_line_break_ext n s Hw).
    pose proof (scan_line_break_progress n s c Hw Hpk Hl) as HS.
    destruct (scan_line_break s) as [[s1 lb]|e]; [|reflexivity]. cbn [e2 bind fst snd safe] in *.
    destruct HS as [Hw1 Hlt].
    apply IH; [exact Hw1 | eapply fits_lt; eassumption | eapply fits_ext_lt; eassumption].
Qed.

Lemma scan_plain_spaces_ext n s b : wfs n s -> scan_plain_spaces (ext s) b = e2 (scan_plain_spaces s b).
Proof.
  intros Hw. unfold scan_plain_spaces.
  destruct (count_forward_ext n (fun ch => ch =? c_space) s eq_refl Hw)
    as (k & s1 & Hk & Hf & Hw1 & Hlen & Hk' & Hf' & Hpre).
  rewrite Hk, Hk'. cbn [bind]. rewrite Hf, Hf'. cbn [bind]. rewrite Hpre.
  rewrite (peek0_ext n s1 Hw1). destruct (wfs_peek _ _ Hw1) as [c [r [Hr Hpk]]]. rewrite Hpk. cbn [bind].
  destruct (b && mem_N c in_scan_plain_spaces_0).
  - rewrite (scan_line_break_ext n s1 Hw1). pose proof (scan_line_break_safe n s1 Hw1) as HS.
    destruct (scan_line_break s1) as [[s2 lb]|e]; [|reflexivity]. cbn [e2 bind fst snd safe] in *.
    destruct HS as (Hw2 & Hle2 & _). cbn [fst snd] in *.
    rewrite (plain_breaks_f_ext n (fuel_of s2) (fuel_of (ext s2)) s2 [] Hw2 (fits_of _) (fits_of _)).
    destruct (plain_breaks_f (fuel_of s2) s2 []) as [[s3 brk]|e]; reflexivity.
  - destruct (nonempty (prefix s k)); reflexivity.
Qed.

Lemma plain_len_ext is_key : forall pre,
  plain_len is_key ((pre ++ [0]) ++ J) = plain_len is_key (pre ++ [0]).
Proof.
  induction pre as [|a pre IH]; cbn [app plain_len].
  - rewrite F_plain0. reflexivity.
  - destruct (mem_N a in_scan_plain_scalar_0); [reflexivity|].
    rewrite IH. destruct (is_key && (a =? c_colon)); [|reflexivity].
    destruct pre; reflexivity.
Qed.

Lemma plain_scalar_f_ext n is_key : forall f1 f2 s ch sp, wfs n s -> fits s f1 -> fits (ext s) f2 ->
  plain_scalar_f f2 is_key (ext s) ch sp = e2 (plain_scalar_f f1 is_key s ch sp).
Proof.
  induction f1 as [|f1 IH]; intros f2 s chs sp Hw H1 H2; [unfold fits in H1; lia|].
  destruct f2 as [|f2]; [unfold fits in H2; lia|]. cbn [plain_scalar_f].
  rewrite (peek0_ext n s Hw). destruct (wfs_peek _ _ Hw) as [c [r [Hr Hpk]]]. rewrite Hpk. cbn [bind].
  destruct (c =? c_hash); [reflexivity|].
  destruct Hw as [Hi [pre Hpre]].
  assert (Hpl : plain_len is_key (s_rest (ext s)) = plain_len is_key (s_rest s)).
  { unfold ext. cbn [s_rest]. rewrite Hpre. apply plain_len_ext. }
  rewrite Hpl. destruct (plain_len_ok is_key pre) as [k [Hk HF]]. rewrite <- Hpre in Hk, HF. rewrite Hk. cbn [bind].
  assert (Hw : wfs n s) by (split; eauto).
  destruct k as [|k]; [reflexivity|].
  destruct (forward_ok_len n (S k) s Hw HF) as [s1 [Hf1 [Hw1 Hl1]]].
  rewrite (forward_ext n (S k) s Hw HF), Hf1. cbn [e1 bind].
  rewrite (prefix_ext s (S k)) by lia.
  rewrite (scan_plain_spaces_ext n s1 _ Hw1). pose proof (scan_plain_spaces_safe n s1 (negb is_key) Hw1) as HS.
  destruct (scan_plain_spaces s1 (negb is_key)) as [[s2 sp']|e]; [|reflexivity]. cbn [e2 bind fst snd safe] in *.
  destruct HS as [Hw2 Hle2]. cbn [fst] in *.
  rewrite (peek0_ext n s2 Hw2). destruct (wfs_peek _ _ Hw2) as [c2 [r2 [Hr2 Hpk2]]]. rewrite Hpk2. cbn [bind].
  destruct sp' as [|x sp']; [reflexivity|].
  change (s_col (ext s2)) with (s_col s2).
  destruct ((c2 =? c_hash) || (s_col s2 <? (if is_key then 0 else 1))); [reflexivity|].
  assert (Hlt : lt_s s s2) by (unfold lt_s, le_s in *; lia).
  apply IH; [exact Hw2 | eapply fits_lt; eassumption | eapply fits_ext_lt; eassumption].
Qed.

Lemma scan_plain_scalar_ext n s is_key : wfs n s ->
  scan_plain_scalar (ext s) is_key = e2 (scan_plain_scalar s is_key).
Proof.
  intros Hw. unfold scan_plain_scalar.
  rewrite (plain_scalar_f_ext n is_key (fuel_of s) (fuel_of (ext s)) s [] [] Hw (fits_of _) (fits_of _)).
  destruct (plain_scalar_f (fuel_of s) is_key s [] []) as [[s' ch]|e]; reflexivity.
Qed.

(* ------------------------------------------------------------------ flow scalars *)

Lemma flow_scalar_breaks_f_ext n : forall f1 f2 s ch, wfs n s -> fits s f1 -> fits (ext s) f2 ->
  flow_scalar_breaks_f f2 (ext s) ch = e2 (flow_scalar_breaks_f f1 s ch).
Proof.
  induction f1 as [|f1 IH]; intros f2 s chs Hw H1 H2; [unfold fits in H1; lia|].
  destruct f2 as [|f2]; [unfold fits in H2; lia|]. cbn [flow_scalar_breaks_f].
  rewrite (skip_while_ext n _ s F_fb0 Hw).
  pose proof (skip_while_safe n (fun ch => mem_N ch in_scan_flow_scalar_breaks_0) s F_fb0 Hw) as HS.
  destruct (skip_while (fun ch => mem_N ch in_scan_flow_scalar_breaks_0) s) as [s1|e]; [|reflexivity].
  cbn [e1 bind safe] in *. destruct HS as [Hw1 Hle1].
  rewrite (peek0_ext n s1 Hw1). destruct (wfs_peek _ _ Hw1) as [c [r [Hr Hpk]]]. rewrite Hpk. cbn [bind].
  destruct (mem_N c in_scan_flow_scalar_breaks_1) eqn:Em; [|reflexivity].
  pose proof (mem_forallb _ _ _ F_fb1 Em) as Hl.
  rewrite (scan_line_break_ext n s1 Hw1).
  pose proof (scan_line_break_progress n s1 c Hw1 Hpk Hl) as HS.
  destruct (scan_line_break s1) as [[s2 lb]|e]; [|reflexivity]. cbn [e2 bind fst snd safe] in *.
  destruct HS as [Hw2 Hlt].
  assert (Hlt' : lt_s s s2) by (unfold lt_s, le_s in *; lia).
  apply IH; [exact Hw2 | eapply fits_lt; eassumption | eapply fits_ext_lt; eassumption].
Qed.

Lemma scan_flow_scalar_breaks_ext n s : wfs n s ->
  scan_flow_scalar_breaks (ext s) = e2 (scan_flow_scalar_breaks s).
Proof. intros Hw. apply (flow_scalar_breaks_f_ext n); auto using fits_of. Qed.

Lemma scan_flow_scalar_spaces_ext n s : wfs n s ->
  scan_flow_scalar_spaces (ext s) = e2 (scan_flow_scalar_spaces s).
Proof.
  intros Hw. unfold scan_flow_scalar_spaces.
  destruct (count_forward_ext n (fun ch => mem_N ch in_scan_flow_scalar_spaces_0) s F_fs0 Hw)
    as (k & s1 & Hk & Hf & Hw1 & Hlen & Hk' & Hf' & Hpre).
  rewrite Hk, Hk'. cbn [bind]. rewrite Hf, Hf'. cbn [bind]. rewrite Hpre.
  rewrite (peek0_ext n s1 Hw1). destruct (wfs_peek _ _ Hw1) as [c [r [Hr Hpk]]]. rewrite Hpk. cbn [bind].
  destruct (is_end c); [reflexivity|].
  destruct (mem_N c in_scan_flow_scalar_spaces_1); [|reflexivity].
  rewrite (scan_line_break_ext n s1 Hw1). pose proof (scan_line_break_safe n s1 Hw1) as HS.
  destruct (scan_line_break s1) as [[s2 lb]|e]; [|reflexivity]. cbn [e2 bind fst snd safe] in *.
  destruct HS as (Hw2 & _). cbn [fst] in *.
  rewrite (scan_flow_scalar_breaks_ext n s2 Hw2).
  destruct (scan_flow_scalar_breaks s2) as [[s3 brk]|e]; reflexivity.
Qed.

Lemma hex_check_ext : forall k pre,
  hex_check k ((pre ++ [0]) ++ J) = hex_check k (pre ++ [0]).
Proof.
  induction k as [|k IH]; intros pre; [reflexivity|]. cbn [hex_check].
  destruct pre as [|c pre]; cbn [app].
  - rewrite F_hex_nz. reflexivity.
  - destruct (mem_N c in_scan_flow_scalar_non_spaces_2); [apply IH | reflexivity].
Qed.

Lemma scan_escape_ext n s ch : wfs n s -> peek s 0 = Ok ch -> ch <> 0 ->
  scan_escape (ext s) = e2 (scan_escape s).
Proof.
  intros Hw Hpk Hc. unfold scan_escape.
  rewrite (forward_1_ext n s ch Hw Hpk Hc).
  destruct (forward_1 _ _ _ Hw Hpk Hc) as [s1 [H1 [Hw1 Hlt1]]]. rewrite H1. cbn [e1 bind].
  rewrite (peek0_ext n s1 Hw1). destruct (wfs_peek _ _ Hw1) as [c [r [Hr Hpk1]]]. rewrite Hpk1. cbn [bind].
  destruct (assoc c ESCAPE_REPLACEMENTS) as [rep|] eqn:Erep.
  { apply assoc_In in Erep. pose proof F_repl_nz as HF. rewrite forallb_forall in HF.
    specialize (HF _ Erep). cbn [fst] in HF. apply negb_true_iff, N.eqb_neq in HF.
    rewrite (forward_1_ext n s1 c Hw1 Hpk1 HF). destruct (forward s1 1); reflexivity. }
  destruct (assoc c ESCAPE_CODES) as [len|] eqn:Ecode.
  { apply assoc_In in Ecode. pose proof F_codes as HF. rewrite forallb_forall in HF.
    specialize (HF _ Ecode). cbn [fst snd] in HF. apply andb_true_iff in HF as [HF1 HF2].
    apply negb_true_iff, N.eqb_neq in HF1.
    rewrite (forward_1_ext n s1 c Hw1 Hpk1 HF1).
    destruct (forward_1 _ _ _ Hw1 Hpk1 HF1) as [s2 [H2 [Hw2 Hlt2]]]. rewrite H2. cbn [e1 bind].
    destruct Hw2 as [Hi2 [pre2 Hp2]].
    assert (Hhc : hex_check (N.to_nat len) (s_rest (ext s2)) = hex_check (N.to_nat len) (s_rest s2)).
    { unfold ext. cbn [s_rest]. rewrite Hp2. apply hex_check_ext. }
    rewrite Hhc.
    destruct (hex_check_ok (N.to_nat len) pre2) as [b [Hb Hbt]]. rewrite <- Hp2 in Hb, Hbt.
    assert (Hw2 : wfs n s2) by (split; eauto).
    rewrite Hb. cbn [bind]. destruct b; cbn [negb]; [|reflexivity].
    destruct (Hbt eq_refl) as [Hhex Hlen].
    assert (Hle : (N.to_nat len <= length (s_rest s2))%nat)
      by (rewrite firstn_length in Hlen; lia).
    rewrite (prefix_ext s2 _ Hle).
    destruct (int16 (prefix s2 (N.to_nat len))) as [code|e]; [|reflexivity]. cbn [bind].
    change (s_idx (ext s2)) with (s_idx s2).
    destruct (match CHR_GUARD with Some g => g <? code | None => false end); [reflexivity|].
    destruct (py_chr code) as [cc|e]; [|reflexivity]. cbn [bind].
    rewrite (forward_ext n _ s2 Hw2 (hex_nz _ Hhex)). destruct (forward s2 (N.to_nat len)); reflexivity. }
  destruct (mem_N c in_scan_flow_scalar_non_spaces_3); [|reflexivity].
  rewrite (scan_line_break_ext n s1 Hw1). pose proof (scan_line_break_safe n s1 Hw1) as HS.
  destruct (scan_line_break s1) as [[s2 lb]|e]; [|reflexivity]. cbn [e2 bind fst snd safe] in *.
  destruct HS as (Hw2 & _). cbn [fst] in *.
  apply (scan_flow_scalar_breaks_ext n s2 Hw2).
Qed.

Definition eo (r : res (option (stream * list str))) : res (option (stream * list str)) :=
  do o <- r; Ok (match o with Some (s, c) => Some (ext s, c) | None => None end).

Lemma flow_ns_branch_ext n s double : wfs n s -> flow_ns_branch (ext s) double = eo (flow_ns_branch s double).
Proof.
  intros Hw. unfold flow_ns_branch.
  rewrite (peek0_ext n s Hw). destruct (wfs_peek _ _ Hw) as [c [r [Hr Hpk]]]. rewrite Hpk. cbn [bind].
  destruct (negb double && (c =? c_squote)) eqn:Eq.
  - apply andb_true_iff in Eq as [Ed Ec]. apply N.eqb_eq in Ec.
    assert (Hc : c <> 0) by (subst; discriminate).
    destruct (wfs_tail _ _ _ _ Hw Hr Hc) as [pre' Hp'].
    assert (Hp1 : peek (ext s) 1 = peek s 1).
    { unfold peek, ext. cbn [s_rest]. rewrite Hr. cbn [app nth_error]. rewrite Hp'. destruct pre'; reflexivity. }
    rewrite Hp1.
    assert (Hx : exists x, peek s 1 = Ok x /\ nth_error r 0 = Some x).
    { unfold peek. rewrite Hr. cbn [nth_error]. rewrite Hp'. destruct pre'; cbn; eauto. }
    destruct Hx as [x [Hx Hnx]]. rewrite Hx. cbn [bind].
    destruct (x =? c_squote) eqn:Ex.
    + apply N.eqb_eq in Ex.
      rewrite (forward_ext n 2 s Hw).
      2:{ rewrite Hr. destruct r as [|x' r']; [discriminate|]. cbn in Hnx. inversion Hnx; subst x'.
          cbn [firstn]. repeat constructor; [assumption | subst; discriminate]. }
      destruct (forward s 2); reflexivity.
    + destruct double; [discriminate|]. cbn [negb andb orb].
      destruct (mem_N c in_scan_flow_scalar_non_spaces_1); [|reflexivity].
      rewrite (forward_1_ext n s c Hw Hpk Hc). destruct (forward s 1); reflexivity.
  - cbn [bind].
    destruct ((double && (c =? c_squote)) || (negb double && mem_N c in_scan_flow_scalar_non_spaces_1)) eqn:E2.
    + assert (Hc : c <> 0).
      { apply orb_true_iff in E2 as [E2|E2]; apply andb_true_iff in E2 as [_ E2].
        - apply N.eqb_eq in E2. subst. discriminate.
        - eapply mem_nz; [apply F_fns1 | exact E2]. }
      rewrite (forward_1_ext n s c Hw Hpk Hc). destruct (forward s 1); reflexivity.
    + destruct (double && (c =? c_bslash)) eqn:E3; [|reflexivity].
      apply andb_true_iff in E3 as [_ E3]. apply N.eqb_eq in E3.
      assert (Hc : c <> 0) by (subst; discriminate).
      rewrite (scan_escape_ext n s c Hw Hpk Hc). destruct (scan_escape s) as [[s2 cs]|e]; reflexivity.
Qed.

Lemma flow_non_spaces_f_ext n double : forall f1 f2 s chunks, wfs n s -> fits s f1 -> fits (ext s) f2 ->
  flow_non_spaces_f f2 (ext s) double chunks = e2 (flow_non_spaces_f f1 s double chunks).
Proof.
  induction f1 as [|f1 IH]; intros f2 s chunks Hw H1 H2; [unfold fits in H1; lia|].
  destruct f2 as [|f2]; [unfold fits in H2; lia|]. cbn [flow_non_spaces_f].
  assert (Hp0 : (fun ch => negb (mem_N ch in_scan_flow_scalar_non_spaces_0)) 0 = false)
    by (cbn beta; rewrite F_fns0; reflexivity).
  destruct (count_forward_ext n _ s Hp0 Hw) as (k & s1 & Hk & Hf & Hw1 & Hlen & Hk' & Hf' & Hpre).
  rewrite Hk, Hk'. cbn [bind]. rewrite Hf, Hf'. cbn [bind]. rewrite Hpre.
  rewrite (flow_ns_branch_ext n s1 double Hw1).
  pose proof (flow_ns_branch_safe n s1 double Hw1) as HS.
  destruct (flow_ns_branch s1 double) as [[[s2 cs]|]|e]; cbn [eo bind safe] in *; try reflexivity.
  destruct HS as [Hw2 Hlt2]. cbn [fst] in *.
  assert (Hlt : lt_s s s2) by (unfold lt_s in *; lia).
  apply IH; [exact Hw2 | eapply fits_lt; eassumption | eapply fits_ext_lt; eassumption].
Qed.

Lemma scan_flow_scalar_non_spaces_ext n s double : wfs n s ->
  scan_flow_scalar_non_spaces (ext s) double = e2 (scan_flow_scalar_non_spaces s double).
Proof. intros Hw. apply (flow_non_spaces_f_ext n); auto using fits_of. Qed.

Lemma flow_scalar_f_ext n double quote : quote_ok double quote -> forall f1 f2 s chunks,
  wfs n s -> fits s f1 -> fits (ext s) f2 ->
  flow_scalar_f f2 (ext s) double quote chunks = e2 (flow_scalar_f f1 s double quote chunks).
Proof.
  intros Hq. induction f1 as [|f1 IH]; intros f2 s chunks Hw H1 H2; [unfold fits in H1; lia|].
  destruct f2 as [|f2]; [unfold fits in H2; lia|].
  (* one round, with the progress argument of the safety proof *)
  pose proof (flow_scalar_f_safe n double quote Hq (S f1) s chunks Hw H1) as Hsafe.
  cbn [flow_scalar_f] in *.
  rewrite (peek0_ext n s Hw). destruct (wfs_peek _ _ Hw) as [c [r [Hr Hpk]]]. rewrite Hpk in *. cbn [bind] in *.
  destruct (c =? quote) eqn:Ecq; cbn [negb] in *; [reflexivity|].
  rewrite (scan_flow_scalar_spaces_ext n s Hw). pose proof (scan_flow_scalar_spaces_safe n s Hw) as HS.
  destruct (scan_flow_scalar_spaces s) as [[s1 c1]|e]; [|reflexivity]. cbn [e2 bind fst snd safe] in *.
  destruct HS as [Hw1 Hsp]. cbn [fst] in *.
  rewrite (scan_flow_scalar_non_spaces_ext n s1 double Hw1).
  pose proof (scan_flow_scalar_non_spaces_safe n double s1 Hw1) as HS2.
  destruct (scan_flow_scalar_non_spaces s1 double) as [[s2 c2]|e]; [|reflexivity]. cbn [e2 bind fst snd safe] in *.
  destruct HS2 as [Hw2 Hns]. cbn [fst] in *.
  (* progress: as in flow_scalar_f_safe *)
  assert (Hlt : lt_s s s2).
  { apply N.eqb_neq in Ecq.
    destruct Hsp as [Hsp|[Hsp1 Hsp2]].
    - destruct Hns as [Hns|[Hns _]]; [|rewrite Hns]; unfold lt_s in *; lia.
    - subst s1. destruct Hns as [Hns|[Hns1 Hns2]]; [assumption|]. exfalso.
      destruct (Hsp2 _ Hpk) as (Hws & Hend & Hnl). destruct (Hns2 _ Hpk) as [Hin Hst].
      pose proof (mem_forallb _ _ _ F_fns0_class Hin) as Hcl. cbn beta in Hcl.
      rewrite Hws, Hend, Hnl in Hcl. rewrite !orb_false_r in Hcl.
      unfold stays in Hst.
      destruct Hq as [[Hd Hqq]|[Hd Hqq]]; subst double quote.
      + destruct Hst as [Hs1 Hs2].
        apply orb_true_iff in Hcl as [Hcl|Hcl]; [apply orb_true_iff in Hcl as [Hcl|Hcl]|];
          apply N.eqb_eq in Hcl; congruence.
      + destruct F_fns1 as (Fq & Fb & _).
        apply orb_true_iff in Hcl as [Hcl|Hcl]; [apply orb_true_iff in Hcl as [Hcl|Hcl]|];
          apply N.eqb_eq in Hcl; subst c; congruence. }
  apply IH; [exact Hw2 | eapply fits_lt; eassumption | eapply fits_ext_lt; eassumption].
Qed.

Lemma scan_flow_scalar_ext n s style : wfs n s -> peek s 0 = Ok style ->
  style = c_squote \/ style = c_dquote ->
  scan_flow_scalar (ext s) style = e2 (scan_flow_scalar s style).
Proof.
  intros Hw Hpk Hst. unfold scan_flow_scalar. rewrite (peek0_ext n s Hw), Hpk. cbn [bind].
  assert (Hc : style <> 0) by (destruct Hst; subst; discriminate).
  assert (Hq : quote_ok (style =? c_dquote) style).
  { destruct Hst; subst; [right | left]; split; reflexivity. }
  rewrite (forward_1_ext n s style Hw Hpk Hc).
  destruct (forward_1 _ _ _ Hw Hpk Hc) as [s1 [H1 [Hw1 Hlt1]]]. rewrite H1. cbn [e1 bind].
  rewrite (scan_flow_scalar_non_spaces_ext n s1 _ Hw1).
  pose proof (scan_flow_scalar_non_spaces_safe n (style =? c_dquote) s1 Hw1) as HS.
  destruct (scan_flow_scalar_non_spaces s1 (style =? c_dquote)) as [[s2 c0]|e]; [|reflexivity].
  cbn [e2 bind fst snd safe] in *. destruct HS as [Hw2 Hns]. cbn [fst] in *.
  assert (Hle2 : le_s s1 s2).
  { destruct Hns as [Hns|[Hns _]]; [|rewrite Hns]; auto with opt. }
  rewrite (flow_scalar_f_ext n _ _ Hq (fuel_of s1) (fuel_of (ext s1)) s2 c0 Hw2).
  2:{ eapply fits_le; [apply fits_of | exact Hle2]. }
  2:{ eapply fits_ext_le; [apply fits_of | exact Hle2]. }
  pose proof (flow_scalar_f_safe n _ _ Hq (fuel_of s1) s2 c0 Hw2 (fits_le _ _ _ (fits_of s1) Hle2)) as HS3.
  destruct (flow_scalar_f (fuel_of s1) s2 (style =? c_dquote) style c0) as [[s3 chunks]|e]; [|reflexivity].
  cbn [e2 bind fst snd safe] in *. destruct HS3 as [[Hw3 Hle3] Hpk3]. cbn [fst] in *.
  rewrite (forward_1_ext n s3 style Hw3 Hpk3 Hc). destruct (forward s3 1); reflexivity.
Qed.

(* ------------------------------------------------------------------ block scalars *)

Lemma scan_block_scalar_indicators_ext n s : wfs n s ->
  scan_block_scalar_indicators (ext s) = e3 (scan_block_scalar_indicators s).
Proof.
  intros Hw. unfold scan_block_scalar_indicators.
  rewrite (peek0_ext n s Hw). destruct (wfs_peek _ _ Hw) as [c [r [Hr Hpk]]]. rewrite Hpk. cbn [bind].
  set (R1 := if mem_N c in_scan_block_scalar_indicators_0 then _ else _).
  match goal with |- context [e3 (bind ?X _)] => set (R0 := X) end.
  assert (HR : R1 = e3 R0 /\ safe n (adv2 n s) R0).
  { unfold R1, R0. change (s_idx (ext s)) with (s_idx s).
    destruct (mem_N c in_scan_block_scalar_indicators_0) eqn:E0.
    - assert (Hc : c <> 0) by (eapply mem_nz; [apply F_ind0_nz | eassumption]).
      rewrite (forward_1_ext n s c Hw Hpk Hc).
      destruct (forward_1 _ _ _ Hw Hpk Hc) as [s1 [H1 [Hw1 Hlt1]]]. rewrite H1. cbn [e1 bind].
      rewrite (peek0_ext n s1 Hw1). destruct (wfs_peek _ _ Hw1) as [c1 [r1 [Hr1 Hpk1]]]. rewrite Hpk1. cbn [bind].
      change (s_idx (ext s1)) with (s_idx s1).
      destruct (mem_N c1 in_scan_block_scalar_indicators_1) eqn:E1.
      + pose proof (mem_forallb _ _ _ F_ind1 E1) as Hd. cbn beta in Hd.
        destruct (digit_val_ok _ Hd) as [v Hv]. rewrite Hv. cbn [bind].
        destruct (v =? 0); [split; [reflexivity | cbn [safe]; apply (wfs_idx _ _ Hw1)]|].
        assert (Hc1 : c1 <> 0) by lia.
        rewrite (forward_1_ext n s1 c1 Hw1 Hpk1 Hc1).
        destruct (forward_1 _ _ _ Hw1 Hpk1 Hc1) as [s2 [H2 [Hw2 Hlt2]]]. rewrite H2.
        split; [reflexivity|]. cbn [bind safe]. split; cbn [fst]; [assumption | unfold le_s, lt_s in *; lia].
      + split; [reflexivity|]. cbn [safe]. split; cbn [fst]; auto with opt.
    - destruct (mem_N c in_scan_block_scalar_indicators_2) eqn:E2.
      + pose proof (mem_forallb _ _ _ F_ind2 E2) as Hd. cbn beta in Hd.
        destruct (digit_val_ok _ Hd) as [v Hv]. rewrite Hv. cbn [bind].
        destruct (v =? 0); [split; [reflexivity | cbn [safe]; apply (wfs_idx _ _ Hw)]|].
        assert (Hc : c <> 0) by lia.
        rewrite (forward_1_ext n s c Hw Hpk Hc).
        destruct (forward_1 _ _ _ Hw Hpk Hc) as [s1 [H1 [Hw1 Hlt1]]]. rewrite H1. cbn [e1 bind].
        rewrite (peek0_ext n s1 Hw1). destruct (wfs_peek _ _ Hw1) as [c1 [r1 [Hr1 Hpk1]]]. rewrite Hpk1. cbn [bind].
        destruct (mem_N c1 in_scan_block_scalar_indicators_3) eqn:E3.
        * assert (Hc1 : c1 <> 0) by (eapply mem_nz; [apply F_ind3_nz | eassumption]).
          rewrite (forward_1_ext n s1 c1 Hw1 Hpk1 Hc1).
          destruct (forward_1 _ _ _ Hw1 Hpk1 Hc1) as [s2 [H2 [Hw2 Hlt2]]]. rewrite H2.
          split; [reflexivity|]. cbn [bind safe]. split; cbn [fst]; [assumption | unfold le_s, lt_s in *; lia].
        * split; [reflexivity|]. cbn [safe]. split; cbn [fst]; auto with opt.
      + split; [reflexivity|]. cbn [safe]. split; cbn [fst]; auto with opt. }
  destruct HR as [HR1 HS]. rewrite HR1. destruct R0 as [[[s' ch] inc]|e]; [|reflexivity].
  cbn [e3 bind fst snd safe] in *. destruct HS as [Hw' _]. cbn [fst] in *.
  rewrite (peek0_ext n s' Hw'). destruct (peek s' 0) as [c'|e]; [|reflexivity]. cbn [bind].
  destruct (negb (mem_N c' in_scan_block_scalar_indicators_4)); reflexivity.
Qed.

Lemma scan_block_scalar_ignored_line_ext n s : wfs n s ->
  scan_block_scalar_ignored_line (ext s) = e1 (scan_block_scalar_ignored_line s).
Proof.
  intros Hw. unfold scan_block_scalar_ignored_line.
  rewrite (skip_while_ext n _ s eq_refl Hw).
  pose proof (skip_while_safe n (fun ch => ch =? c_space) s eq_refl Hw) as HS.
  destruct (skip_while (fun ch => ch =? c_space) s) as [s1|e]; [|reflexivity].
  cbn [e1 bind safe] in *. destruct HS as [Hw1 Hle1].
  rewrite (peek0_ext n s1 Hw1). destruct (wfs_peek _ _ Hw1) as [c [r [Hr Hpk]]]. rewrite Hpk. cbn [bind].
  assert (Hp0 : (fun ch => negb (mem_N ch in_scan_block_scalar_ignored_line_0)) 0 = false) by (cbn beta; rewrite F_ign0; reflexivity).
  assert (Hs2 : exists r2, (if c =? c_hash then skip_while (fun ch => negb (mem_N ch in_scan_block_scalar_ignored_line_0)) s1 else Ok s1) = r2 /\
                 (if c =? c_hash then skip_while (fun ch => negb (mem_N ch in_scan_block_scalar_ignored_line_0)) (ext s1) else Ok (ext s1)) = e1 r2 /\
                 safe n (adv n s1) r2).
  { eexists. split; [reflexivity|]. destruct (c =? c_hash).
    - split; [apply (skip_while_ext n _ s1 Hp0 Hw1) | apply (skip_while_safe n _ s1 Hp0 Hw1)].
    - split; [reflexivity | cbn [safe]; split; auto with opt]. }
  destruct Hs2 as (r2 & E2 & E2' & HS2). rewrite E2, E2'. destruct r2 as [s2|e]; [|reflexivity].
  cbn [e1 bind safe] in *. destruct HS2 as [Hw2 Hle2].
  rewrite (peek0_ext n s2 Hw2). destruct (peek s2 0) as [c2|e]; [|reflexivity]. cbn [bind].
  change (s_idx (ext s2)) with (s_idx s2).
  destruct (negb (mem_N c2 in_scan_block_scalar_ignored_line_1)); [reflexivity|].
  rewrite (scan_line_break_ext n s2 Hw2). destruct (scan_line_break s2) as [[s3 lb]|e]; reflexivity.
Qed.

Lemma block_indentation_f_ext n : forall f1 f2 s ch mx, wfs n s -> fits s f1 -> fits (ext s) f2 ->
  block_indentation_f f2 (ext s) ch mx = e3 (block_indentation_f f1 s ch mx).
Proof.
  induction f1 as [|f1 IH]; intros f2 s chs mx Hw H1 H2; [unfold fits in H1; lia|].
  destruct f2 as [|f2]; [unfold fits in H2; lia|]. cbn [block_indentation_f].
  rewrite (peek0_ext n s Hw). destruct (wfs_peek _ _ Hw) as [c [r [Hr Hpk]]]. rewrite Hpk. cbn [bind].
  destruct (mem_N c in_scan_block_scalar_indentation_0) eqn:Em; [|reflexivity].
  destruct (c =? c_space) eqn:Es; cbn [negb].
  - apply N.eqb_eq in Es. assert (Hc : c <> 0) by (subst; discriminate).
    rewrite (forward_1_ext n s c Hw Hpk Hc).
    destruct (forward_1 _ _ _ Hw Hpk Hc) as [s1 [Hf [Hw1 Hlt]]]. rewrite Hf. cbn [e1 bind].
    change (s_col (ext s1)) with (s_col s1).
    apply IH; [exact Hw1 | eapply fits_lt; eassumption | eapply fits_ext_lt; eassumption].
  - pose proof (mem_forallb _ _ _ F_bi0 Em) as Hl. cbn beta in Hl. rewrite Es in Hl. cbn [orb] in Hl.
    rewrite (scan_line_break_ext n s Hw).
    pose proof (scan_line_break_progress n s c Hw Hpk Hl) as HS.
    destruct (scan_line_break s) as [[s1 lb]|e]; [|reflexivity]. cbn [e2 bind fst snd safe] in *.
    destruct HS as [Hw1 Hlt].
    apply IH; [exact Hw1 | eapply fits_lt; eassumption | eapply fits_ext_lt; eassumption].
Qed.

Lemma skip_indent_f_ext n indent : forall f1 f2 s, wfs n s -> fits s f1 -> fits (ext s) f2 ->
  skip_indent_f f2 indent (ext s) = e1 (skip_indent_f f1 indent s).
Proof.
  induction f1 as [|f1 IH]; intros f2 s Hw H1 H2; [unfold fits in H1; lia|].
  destruct f2 as [|f2]; [unfold fits in H2; lia|]. cbn [skip_indent_f].
  change (s_col (ext s)) with (s_col s). destruct (s_col s <? indent); [|reflexivity].
  rewrite (peek0_ext n s Hw). destruct (wfs_peek _ _ Hw) as [c [r [Hr Hpk]]]. rewrite Hpk. cbn [bind].
  destruct (c =? c_space) eqn:Es; [|reflexivity].
  apply N.eqb_eq in Es. assert (Hc : c <> 0) by (subst; discriminate).
  rewrite (forward_1_ext n s c Hw Hpk Hc).
  destruct (forward_1 _ _ _ Hw Hpk Hc) as [s1 [Hf [Hw1 Hlt]]]. rewrite Hf. cbn [e1 bind].
  apply IH; [exact Hw1 | eapply fits_lt; eassumption | eapply fits_ext_lt; eassumption].
Qed.

Lemma skip_indent_ext n indent s : wfs n s -> skip_indent indent (ext s) = e1 (skip_indent indent s).
Proof. intros Hw. apply (skip_indent_f_ext n); auto using fits_of. Qed.

Lemma block_breaks_f_ext n indent : forall f1 f2 s ch, wfs n s -> fits s f1 -> fits (ext s) f2 ->
  block_breaks_f f2 indent (ext s) ch = e2 (block_breaks_f f1 indent s ch).
Proof.
  induction f1 as [|f1 IH]; intros f2 s chs Hw H1 H2; [unfold fits in H1; lia|].
  destruct f2 as [|f2]; [unfold fits in H2; lia|]. cbn [block_breaks_f].
  rewrite (peek0_ext n s Hw). destruct (wfs_peek _ _ Hw) as [c [r [Hr Hpk]]]. rewrite Hpk. cbn [bind].
  destruct (mem_N c in_scan_block_scalar_breaks_0) eqn:Em; [|reflexivity].
  pose proof (mem_forallb _ _ _ F_bb0 Em) as Hl.
  rewrite (scan_line_break_ext n s Hw).
  pose proof (scan_line_break_progress n s c Hw Hpk Hl) as HS.
  destruct (scan_line_break s) as [[s1 lb]|e]; [|reflexivity]. cbn [e2 bind fst snd safe] in *.
  destruct HS as [Hw1 Hlt1].
  rewrite (skip_indent_ext n indent s1 Hw1). pose proof (skip_indent_safe n indent s1 Hw1) as HS2.
  destruct (skip_indent indent s1) as [s2|e]; [|reflexivity]. cbn [e1 bind safe] in *.
  destruct HS2 as [Hw2 Hle2].
  assert (Hlt : lt_s s s2) by (unfold lt_s, le_s in *; lia).
  apply IH; [exact Hw2 | eapply fits_lt; eassumption | eapply fits_ext_lt; eassumption].
Qed.

Lemma scan_block_scalar_breaks_ext n s indent : wfs n s ->
  scan_block_scalar_breaks (ext s) indent = e2 (scan_block_scalar_breaks s indent).
Proof.
  intros Hw. unfold scan_block_scalar_breaks.
  rewrite (skip_indent_ext n indent s Hw). pose proof (skip_indent_safe n indent s Hw) as HS.
  destruct (skip_indent indent s) as [s1|e]; [|reflexivity]. cbn [e1 bind safe] in *.
  destruct HS as [Hw1 _].
  apply (block_breaks_f_ext n); auto using fits_of.
Qed.

Lemma at_content_ext n s indent : wfs n s -> at_content (ext s) indent = at_content s indent.
Proof.
  intros Hw. unfold at_content. change (s_col (ext s)) with (s_col s).
  destruct (s_col s =? indent); [|reflexivity]. rewrite (peek0_ext n s Hw). reflexivity.
Qed.

Lemma block_lines_f_ext n folded indent : forall f1 f2 s ch chunks breaks,
  wfs n s -> peek s 0 = Ok ch -> is_end ch = false -> fits s f1 -> fits (ext s) f2 ->
  block_lines_f f2 folded indent (ext s) ch chunks breaks =
  e4 (block_lines_f f1 folded indent s ch chunks breaks).
Proof.
  induction f1 as [|f1 IH]; intros f2 s ch chunks breaks Hw Hpk Hne H1 H2; [unfold fits in H1; lia|].
  destruct f2 as [|f2]; [unfold fits in H2; lia|]. cbn [block_lines_f].
  destruct (wfs_peek _ _ Hw) as [c [r [Hr Hpk']]]. rewrite Hpk in Hpk'. inversion Hpk'; subst c.
  assert (Hp0 : (fun c => negb (mem_N c in_scan_block_scalar_1)) 0 = false) by (cbn beta; rewrite F_bs1_end; reflexivity).
  destruct (count_forward_ext n _ s Hp0 Hw) as (k & s1 & Hk & Hf & Hw1 & Hlen & Hk' & Hf' & Hpre).
  rewrite Hk, Hk'. cbn [bind]. rewrite Hf, Hf'. cbn [bind]. rewrite Hpre.
  (* progress of the line break when the line is empty, as in block_lines_f_safe *)
  assert (Hprog : lt_s s s1 \/ (s1 = s /\ is_lbc ch = true)).
  { destruct (mem_N ch in_scan_block_scalar_1) eqn:E1.
    - right. assert (k = O).
      { rewrite Hr in Hk. rewrite count_while_zero in Hk by (rewrite E1; reflexivity). inversion Hk. reflexivity. }
      subst k. cbn [forward] in Hf. inversion Hf; subst s1. split; [reflexivity|].
      pose proof (mem_forallb _ _ _ F_bs1 E1) as Hl. cbn beta in Hl. rewrite Hne in Hl. exact Hl.
    - left. assert (Hk0 : k <> O).
      { rewrite Hr in Hk. eapply count_while_pos; [eassumption|]. cbn beta. rewrite E1. reflexivity. }
      unfold lt_s. lia. }
  rewrite (scan_line_break_ext n s1 Hw1).
  assert (HS : safe n (fun r => wfs n (fst r) /\ lt_s s (fst r)) (scan_line_break s1)).
  { destruct Hprog as [Hlt|[Heq Hl]].
    - eapply safe_mono. { apply scan_line_break_safe; eassumption. }
      intros [s2 lb] (Hw2 & Hle2 & _). cbn [fst] in *. split; [assumption | unfold le_s, lt_s in *; lia].
    - subst s1. eapply scan_line_break_progress; eassumption. }
  destruct (scan_line_break s1) as [[s2 lb]|e]; [|reflexivity]. cbn [e2 bind fst snd safe] in *.
  destruct HS as [Hw2 Hlt2].
  rewrite (scan_block_scalar_breaks_ext n s2 indent Hw2).
  pose proof (scan_block_scalar_breaks_safe n s2 indent Hw2) as HS3.
  destruct (scan_block_scalar_breaks s2 indent) as [[s3 br']|e]; [|reflexivity]. cbn [e2 bind fst snd safe] in *.
  destruct HS3 as [Hw3 Hle3]. cbn [fst] in *.
  rewrite (at_content_ext n s3 indent Hw3). pose proof (at_content_safe n s3 indent Hw3) as HS4.
  destruct (at_content s3 indent) as [[ch3|]|e]; cbn [bind safe] in *; try reflexivity.
  destruct HS4 as [Hpk3 Hne3].
  assert (Hlt : lt_s s s3) by (unfold lt_s, le_s in *; lia).
  apply IH; [exact Hw3 | exact Hpk3 | exact Hne3 | eapply fits_lt; eassumption | eapply fits_ext_lt; eassumption].
Qed.

Lemma scan_block_scalar_ext n s style : wfs n s -> peek s 0 = Ok style -> style <> 0 ->
  scan_block_scalar (ext s) style = e2 (scan_block_scalar s style).
Proof.
  intros Hw Hpk Hc. unfold scan_block_scalar.
  rewrite (forward_1_ext n s style Hw Hpk Hc).
  destruct (forward_1 _ _ _ Hw Hpk Hc) as [s1 [H1 [Hw1 Hlt1]]]. rewrite H1. cbn [e1 bind].
  rewrite (scan_block_scalar_indicators_ext n s1 Hw1).
  pose proof (scan_block_scalar_indicators_safe n s1 Hw1) as HS.
  destruct (scan_block_scalar_indicators s1) as [[[s2 chomping] increment]|e]; [|reflexivity].
  cbn [e3 bind fst snd safe] in *. destruct HS as [Hw2 _]. cbn [fst] in *.
  rewrite (scan_block_scalar_ignored_line_ext n s2 Hw2).
  pose proof (scan_block_scalar_ignored_line_safe n s2 Hw2) as HS2.
  destruct (scan_block_scalar_ignored_line s2) as [s3|e]; [|reflexivity]. cbn [e1 bind safe] in *.
  destruct HS2 as [Hw3 _].
  set (R1 := match increment with None => _ | Some inc => _ end).
  match goal with |- context [e2 (bind ?X _)] => set (R0 := X) end.
  assert (HR : R1 = e3 R0 /\ safe n (adv2 n s3) R0).
  { unfold R1, R0. destruct increment as [inc|].
    - rewrite (scan_block_scalar_breaks_ext n s3 _ Hw3).
      pose proof (scan_block_scalar_breaks_safe n s3 (1 + inc - 1) Hw3) as HS3.
      destruct (scan_block_scalar_breaks s3 (1 + inc - 1)) as [[s4 brk]|e]; [|split; [reflexivity | exact HS3]].
      cbn [e2 bind fst snd safe] in *. split; [reflexivity | exact HS3].
    - unfold scan_block_scalar_indentation.
      rewrite (block_indentation_f_ext n (fuel_of s3) (fuel_of (ext s3)) s3 [] 0 Hw3 (fits_of _) (fits_of _)).
      pose proof (block_indentation_f_safe n (fuel_of s3) s3 [] 0 Hw3 (fits_of _)) as HS3.
      destruct (block_indentation_f (fuel_of s3) s3 [] 0) as [[[s4 brk] mx]|e]; [|split; [reflexivity | exact HS3]].
      cbn [e3 bind fst snd safe] in *. split; [reflexivity | exact HS3]. }
  destruct HR as [HR1 HS3]. rewrite HR1. destruct R0 as [[[s4 breaks] indent]|e]; [|reflexivity].
  cbn [e3 bind fst snd safe] in *. destruct HS3 as [Hw4 _]. cbn [fst] in *.
  rewrite (at_content_ext n s4 indent Hw4). pose proof (at_content_safe n s4 indent Hw4) as HS4.
  destruct (at_content s4 indent) as [[ch|]|e]; cbn [bind safe] in *; try reflexivity.
  destruct HS4 as [Hpk4 Hne4].
  rewrite (block_lines_f_ext n _ indent (fuel_of s4) (fuel_of (ext s4)) s4 ch [] breaks Hw4 Hpk4 Hne4 (fits_of _) (fits_of _)).
  destruct (block_lines_f (fuel_of s4) (style =? c_gt) indent s4 ch [] breaks) as [[[[s5 chunks] lb] br']|e]; reflexivity.
Qed.

(* ------------------------------------------------------------------ _tokenize *)

Definition we (m : wres (option stream)) : wres (option stream) :=
  (fst m, do o <- snd m; Ok (option_map ext o)).

Lemma tok_iter_ext n s : wfs n s -> tok_iter (ext s) = we (tok_iter s).
Proof.
  intros Hw. unfold tok_iter, we.
  rewrite (stnt_ext n s Hw). pose proof (stnt_safe n s Hw) as HS.
  destruct (scan_to_next_token s) as [s1|e]; [|reflexivity]. cbn [e1 bind liftw bindw fst snd safe] in *.
  destruct HS as [Hw1 _].
  rewrite (peek0_ext n s1 Hw1). destruct (wfs_peek _ _ Hw1) as [c [r [Hr Hpk]]]. rewrite Hpk. cbn [liftw bindw].
  destruct (is_end c); [reflexivity|].
  change (s_col (ext s1)) with (s_col s1). change (s_idx (ext s1)) with (s_idx s1).
  destruct (negb (s_col s1 =? 0)); [reflexivity|].
  set (K1 := if mem_N c in_tokenize_0 then scan_flow_scalar (ext s1) c else scan_plain_scalar (ext s1) true).
  set (K0 := if mem_N c in_tokenize_0 then scan_flow_scalar s1 c else scan_plain_scalar s1 true).
  assert (HK : K1 = e2 K0 /\ safe n (adv1 n s1) K0).
  { unfold K1, K0. destruct (mem_N c in_tokenize_0) eqn:E0.
    - pose proof (quote_cases _ _ F_tok0 E0) as Hqc.
      split; [apply (scan_flow_scalar_ext n s1 c Hw1 Hpk Hqc)|].
      eapply safe_mono. { apply scan_flow_scalar_safe; eassumption. }
      intros a [Ha1 Ha2]. split; auto with opt.
    - split; [apply (scan_plain_scalar_ext n s1 true Hw1) | apply scan_plain_scalar_safe; assumption]. }
  destruct HK as [HK1 HS2]. rewrite HK1. destruct K0 as [[s2 k]|e]; [|reflexivity].
  cbn [e2 bind liftw bindw fst snd safe yield app] in *. destruct HS2 as [Hw2 _]. cbn [fst] in *.
  rewrite (stnt_ext n s2 Hw2). pose proof (stnt_safe n s2 Hw2) as HS3.
  destruct (scan_to_next_token s2) as [s3|e]; [|reflexivity]. cbn [e1 bind liftw bindw fst snd safe app] in *.
  destruct HS3 as [Hw3 _].
  rewrite (peek0_ext n s3 Hw3). destruct (wfs_peek _ _ Hw3) as [c3 [r3 [Hr3 Hpk3]]]. rewrite Hpk3. cbn [liftw bindw app].
  change (s_idx (ext s3)) with (s_idx s3).
  destruct (c3 =? c_colon) eqn:Ec; cbn [negb]; [|reflexivity].
  apply N.eqb_eq in Ec. assert (Hc3 : c3 <> 0) by (subst; discriminate).
  rewrite (forward_1_ext n s3 c3 Hw3 Hpk3 Hc3).
  destruct (forward_1 _ _ _ Hw3 Hpk3 Hc3) as [s4 [H4 [Hw4 Hlt4]]]. rewrite H4. cbn [e1 bind liftw bindw yield app].
  rewrite (stnt_ext n s4 Hw4). pose proof (stnt_safe n s4 Hw4) as HS5.
  destruct (scan_to_next_token s4) as [s5|e]; [|reflexivity]. cbn [e1 bind liftw bindw fst snd safe app] in *.
  destruct HS5 as [Hw5 _].
  rewrite (peek0_ext n s5 Hw5). destruct (wfs_peek _ _ Hw5) as [c5 [r5 [Hr5 Hpk5]]]. rewrite Hpk5. cbn [liftw bindw app].
  change (s_col (ext s5)) with (s_col s5). change (s_idx (ext s5)) with (s_idx s5).
  destruct (s_col s5 =? 0); [reflexivity|].
  set (V1 := if mem_N c5 in_tokenize_1 then scan_block_scalar (ext s5) c5
             else if mem_N c5 in_tokenize_2 then scan_flow_scalar (ext s5) c5 else scan_plain_scalar (ext s5) false).
  set (V0 := if mem_N c5 in_tokenize_1 then scan_block_scalar s5 c5
             else if mem_N c5 in_tokenize_2 then scan_flow_scalar s5 c5 else scan_plain_scalar s5 false).
  assert (HV : V1 = e2 V0).
  { unfold V1, V0. destruct (mem_N c5 in_tokenize_1) eqn:E1.
    - apply (scan_block_scalar_ext n s5 c5 Hw5 Hpk5). eapply mem_nz; [apply F_tok1_nz | eassumption].
    - destruct (mem_N c5 in_tokenize_2) eqn:E2.
      + apply (scan_flow_scalar_ext n s5 c5 Hw5 Hpk5 (quote_cases _ _ F_tok2 E2)).
      + apply (scan_plain_scalar_ext n s5 false Hw5). }
  rewrite HV. destruct V0 as [[s6 v]|e]; reflexivity.
Qed.

Lemma tokenize_f_ext n : forall f1 f2 s, wfs n s -> fits s f1 -> fits (ext s) f2 ->
  tokenize_f f2 (ext s) = tokenize_f f1 s.
Proof.
  induction f1 as [|f1 IH]; intros f2 s Hw H1 H2; [unfold fits in H1; lia|].
  destruct f2 as [|f2]; [unfold fits in H2; lia|]. cbn [tokenize_f].
  rewrite (tok_iter_ext n s Hw). destruct (tok_iter_safe n s Hw) as [_ HS].
  destruct (tok_iter s) as [ts [[s'|]|e]]; cbn [we fst snd bind option_map safe iter_post] in *; try reflexivity.
  destruct HS as [Hw' Hlt].
  rewrite (IH f2 s' Hw'); [reflexivity | eapply fits_lt; eassumption | eapply fits_ext_lt; eassumption].
Qed.
End Ext.

(* whatever follows an embedded NUL is never looked at: the text is read as if it ended there *)
Theorem nul_truncates (a b : str) : options_to_items (a ++ 0 :: b) = options_to_items a.
Proof.
  unfold options_to_items, tokenize.
  assert (E : new_stream (a ++ 0 :: b) = ext (b ++ [0]) (new_stream a)).
  { unfold new_stream, ext. cbn [s_idx s_line s_col s_rest]. rewrite F_end.
    rewrite <- !app_assoc. reflexivity. }
  rewrite E.
  rewrite (tokenize_f_ext (b ++ [0]) (N.of_nat (length a)) (fuel_of (new_stream a)) _ (new_stream a)
             (new_stream_wfs a) (fits_of _) (fits_of _)).
  reflexivity.
Qed.
