(* Refinement of the composite scanners (_scan_flow_scalar, _scan_block_scalar) and of the whole
   options_to_items built from the translated scanners: options_to_items_src = options_to_items. *)
From Coq Require Import List NArith Bool Lia Arith.
From MV Require Import Base.PyStr.
From MV Require Import Base.Res.
From MV Require Import Gen.OptConsts.
From MV Require Import Opt.OptModel.
From MV Require Import Opt.OptSafe.
From MV Require Import Opt.OptSrcLib.
From MV Require Import Gen.OptSrc.
From MV Require Import Opt.OptSrcProofs.
From MV Require Import Opt.OptSrcTop.
From MV Require Import Opt.OptSrcGlue.
Import ListNotations.
Open Scope N_scope.

(* ------------------------------------------------------------------ _scan_block_scalar *)

Lemma block_w2_eq s :
  scan_block_scalar_src_w2 (fuel_of s) s O =
  count_while (fun c => negb (mem_N c in_scan_block_scalar_1)) (s_rest s).
Proof. apply (count_loop_0 _ scan_block_scalar_src_w2). intros [|f'] s' k; reflexivity. Qed.

Definition perm4 (r : res (stream * list str * str * list str)) : res (stream * str * list str * list str) :=
  do x <- r; let '(s, c, lb, br) := x in Ok (s, lb, br, c).

Lemma is_end_str c : str_eqb [c] [0] = is_end c.
Proof. unfold is_end, CHARS_END. cbn. destruct (c =? 0); reflexivity. Qed.

(* the generated loop tests `column == indent and peek() != END` at the top of every round and again
   at the bottom; the hand model tests once (at_content) and passes the character on *)
Lemma block_w1_eq : forall f s ind br ch lb fo,
  scan_block_scalar_src_w1 f s ind br ch lb fo =
  match f with
  | O => Raise OutOfFuel
  | S _ => do ac <- at_content s ind;
           match ac with
           | Some c => perm4 (block_lines_f f fo ind s c ch br)
           | None => Ok (s, lb, br, ch)
           end
  end.
Proof.
  induction f as [|f IH]; intros s ind br ch lb fo; [reflexivity|].
  cbn [scan_block_scalar_src_w1]. unfold at_content.
  destruct (s_col s =? ind); cbn [bind]; [|reflexivity].
  destruct (peek s 0) as [c|e] eqn:Ep; cbn [bind]; [|reflexivity].
  rewrite is_end_str. destruct (is_end c); cbn [negb bind]; [reflexivity|].
  cbn [block_lines_f]. cbv zeta. rewrite block_w2_eq. unfold perm4.
  destruct (count_while (fun c0 => negb (mem_N c0 in_scan_block_scalar_1)) (s_rest s)) as [k|e]; cbn [bind]; [|reflexivity].
  destruct (forward s k) as [s1|e]; cbn [bind]; [|reflexivity].
  rewrite scan_line_break_src_eq. destruct (scan_line_break s1) as [[s2 lb2]|e]; cbn [bind]; [|reflexivity].
  rewrite scan_block_scalar_breaks_src_eq.
  destruct (scan_block_scalar_breaks s2 ind) as [[s3 br3]|e]; cbn [bind]; [|reflexivity].
  unfold at_content.
  destruct (s_col s3 =? ind) eqn:Ecol; cbn [bind]; [|reflexivity].
  destruct (peek s3 0) as [c3|e] eqn:Ep3; cbn [bind]; [|reflexivity].
  rewrite is_end_str. destruct (is_end c3) eqn:Ee3; cbn [negb bind]; [reflexivity|].
  assert (Hnext : forall chunks,
    scan_block_scalar_src_w1 f s3 ind br3 chunks lb2 fo =
    do x <- block_lines_f f fo ind s3 c3 chunks br3; let '(s4, c4, lb4, br4) := x in Ok (s4, lb4, br4, c4)).
  { intros chunks. rewrite IH. destruct f as [|f]; [reflexivity|].
    unfold at_content. rewrite Ecol, Ep3. cbn [bind]. rewrite Ee3. reflexivity. }
  unfold_tabs.
  destruct fo, (str_eqb lb2 [10]), (mem_N c [32; 9]), (mem_N c3 [32; 9]), br3;
    cbn [andb negb bind is_nil]; rewrite Hnext; reflexivity.
Qed.

Lemma scan_block_scalar_src_eq s style : scan_block_scalar_src s style = scan_block_scalar s style.
Proof.
  unfold scan_block_scalar_src, scan_block_scalar, c_gt. cbv zeta.
  destruct (forward s 1) as [s1|e]; cbn [bind]; [|reflexivity].
  rewrite scan_block_scalar_indicators_src_eq.
  destruct (scan_block_scalar_indicators s1) as [[[s2 chomp] inc]|e]; cbn [bind]; [|reflexivity].
  rewrite scan_block_scalar_ignored_line_src_eq.
  destruct (scan_block_scalar_ignored_line s2) as [s3|e]; cbn [bind]; [|reflexivity].
  change (0 + 1) with 1. change (1 <? 1) with false. cbn [bind].
  assert (H : forall (K : stream * list str * N -> res (stream * str)),
    (do __j <- match inc with
               | Some increment => do __r8 <- scan_block_scalar_breaks_src s3 (1 + increment - 1);
                                   let '(stream, __v9) := __r8 in Ok (stream, __v9, 1 + increment - 1)
               | None => do __r5 <- scan_block_scalar_indentation_src s3;
                         let '(stream, __v6, __v7) := __r5 in Ok (stream, __v6, N.max 1 __v7)
               end; K __j) =
    (do r <- match inc with
             | Some inc0 => do x <- scan_block_scalar_breaks s3 (1 + inc0 - 1);
                            let '(s4, breaks) := x in Ok (s4, breaks, 1 + inc0 - 1)
             | None => do x <- scan_block_scalar_indentation s3;
                       let '(s4, breaks, max_indent) := x in Ok (s4, breaks, N.max 1 max_indent)
             end; K r)).
  { intros K. destruct inc as [i|].
    - rewrite scan_block_scalar_breaks_src_eq. reflexivity.
    - rewrite scan_block_scalar_indentation_src_eq. reflexivity. }
  etransitivity; [apply (H (fun j => let '(stream, breaks, indent) := j in _))|]. clear H.
  destruct (match inc with
            | Some inc0 => do x <- scan_block_scalar_breaks s3 (1 + inc0 - 1);
                           let '(s4, breaks) := x in Ok (s4, breaks, 1 + inc0 - 1)
            | None => do x <- scan_block_scalar_indentation s3;
                      let '(s4, breaks, max_indent) := x in Ok (s4, breaks, N.max 1 max_indent)
            end) as [[[s4 breaks] indent]|e]; cbn [bind]; [|reflexivity].
  rewrite block_w1_eq. unfold fuel_of at 1.
  destruct (at_content s4 indent) as [[c|]|e]; cbn [bind]; [| |reflexivity].
  - unfold perm4. fold (fuel_of s4).
    destruct (block_lines_f (fuel_of s4) (style =? 62) indent s4 c [] breaks) as [[[[s5 chunks] lb] br']|e];
      cbn [bind]; [|reflexivity].
    destruct chomp as [[|]|]; reflexivity.
  - destruct chomp as [[|]|]; reflexivity.
Qed.

(* ------------------------------------------------------------------ _scan_flow_scalar *)

Lemma flow_w1_eq : forall f s q ch d, scan_flow_scalar_src_w1 f s q ch d = flow_scalar_f f s d q ch.
Proof.
  induction f as [|f IH]; intros s q ch d; [reflexivity|].
  cbn [scan_flow_scalar_src_w1 flow_scalar_f].
  destruct (peek s 0) as [c|e]; cbn [bind]; [|reflexivity].
  destruct (negb (c =? q)); [|reflexivity].
  rewrite scan_flow_scalar_spaces_src_eq.
  destruct (scan_flow_scalar_spaces s) as [[s1 c1]|e]; cbn [bind]; [|reflexivity].
  rewrite scan_flow_scalar_non_spaces_src_eq.
  destruct (scan_flow_scalar_non_spaces s1 d) as [[s2 c2]|e]; cbn [bind]; [|reflexivity].
  rewrite <- app_assoc. apply IH.
Qed.

(* more fuel does not change a result that is not OutOfFuel *)
Lemma flow_scalar_f_mono : forall f f' s d q ch, (f <= f')%nat ->
  flow_scalar_f f s d q ch <> Raise OutOfFuel ->
  flow_scalar_f f' s d q ch = flow_scalar_f f s d q ch.
Proof.
  induction f as [|f IH]; intros f' s d q ch Hle Hne; [cbn in Hne; congruence|].
  destruct f' as [|f']; [lia|]. cbn [flow_scalar_f] in *.
  destruct (peek s 0) as [c|e]; cbn [bind] in *; [|reflexivity].
  destruct (negb (c =? q)); [|reflexivity].
  destruct (scan_flow_scalar_spaces s) as [[s1 c1]|e]; cbn [bind] in *; [|reflexivity].
  destruct (scan_flow_scalar_non_spaces s1 d) as [[s2 c2]|e]; cbn [bind] in *; [|reflexivity].
  apply IH; [lia | exact Hne].
Qed.

(* The generated loop takes its fuel from the stream at loop entry (after the first run of
   non-spaces), the hand model from the stream just after the opening quote; both suffice on a
   well-formed buffer, where every round consumes something (OptSafe.flow_scalar_f_safe). *)
Lemma scan_flow_scalar_src_eq n s style k : wfs n s -> peek s 0 = Ok style ->
  style = c_squote \/ style = c_dquote ->
  scan_flow_scalar_src s style k = scan_flow_scalar s style.
Proof.
  intros Hw Hpk Hst. unfold scan_flow_scalar_src, scan_flow_scalar. cbv zeta. rewrite Hpk. cbn [bind].
  assert (Hc : style <> 0) by (destruct Hst; subst; discriminate).
  assert (Hq : quote_ok (style =? c_dquote) style).
  { destruct Hst; subst; [right | left]; split; reflexivity. }
  destruct (forward_1 _ _ _ Hw Hpk Hc) as [s1 [H1 [Hw1 Hlt1]]]. rewrite H1. cbn [bind].
  rewrite scan_flow_scalar_non_spaces_src_eq. change (style =? 34) with (style =? c_dquote).
  pose proof (scan_flow_scalar_non_spaces_safe n (style =? c_dquote) s1 Hw1) as Hns.
  destruct (scan_flow_scalar_non_spaces s1 (style =? c_dquote)) as [[s2 c0]|e]; cbn [bind]; [|reflexivity].
  destruct Hns as [Hw2 Hns]. cbn [fst app] in *.
  assert (Hle2 : le_s s1 s2).
  { destruct Hns as [Hns|[Hns _]]; [|rewrite Hns]; auto with opt. }
  rewrite flow_w1_eq.
  rewrite (flow_scalar_f_mono (fuel_of s2) (fuel_of s1)); [reflexivity | unfold fuel_of, le_s in *; lia |].
  pose proof (flow_scalar_f_safe n _ _ Hq (fuel_of s2) s2 c0 Hw2) as Hs.
  intros E. rewrite E in Hs. apply Hs. unfold fuel_of. lia.
Qed.

(* ------------------------------------------------------------------ the whole tokenizer *)

Lemma tok_iter_hand s : tok_iter_with hand_scanners s = tok_iter s.
Proof. reflexivity. Qed.

Lemma bindw_ext {A B} (m : wres A) (f g : A -> wres B) :
  (forall a, snd m = Ok a -> f a = g a) -> bindw m f = bindw m g.
Proof. destruct m as [ts [a|e]]; cbn; intros H; [rewrite (H a eq_refl); reflexivity | reflexivity]. Qed.

Lemma tok_iter_src_eq n s : wfs n s -> tok_iter_with src_scanners s = tok_iter s.
Proof.
  intros Hw. unfold tok_iter_with, tok_iter. cbn [sc_next sc_plain sc_flow sc_block src_scanners].
  rewrite scan_to_next_token_src_eq.
  apply bindw_ext. intros s1 E1. cbn [liftw snd] in E1.
  pose proof (stnt_safe n s Hw) as H1. rewrite E1 in H1. destruct H1 as [Hw1 _].
  apply bindw_ext. intros c Hpk. cbn [liftw snd] in Hpk.
  destruct (is_end c); [reflexivity|].
  destruct (negb (s_col s1 =? 0)); [reflexivity|].
  assert (Hk : (if mem_N c in_tokenize_0 then scan_flow_scalar_src s1 c true else scan_plain_scalar_src s1 true) =
               (if mem_N c in_tokenize_0 then scan_flow_scalar s1 c else scan_plain_scalar s1 true)).
  { destruct (mem_N c in_tokenize_0) eqn:E0.
    - apply (scan_flow_scalar_src_eq n); [assumption | assumption | eapply quote_cases; [apply F_tok0 | eassumption]].
    - apply scan_plain_scalar_src_eq. }
  rewrite Hk.
  assert (Hks : safe n (adv1 n s1) (if mem_N c in_tokenize_0 then scan_flow_scalar s1 c else scan_plain_scalar s1 true)).
  { destruct (mem_N c in_tokenize_0) eqn:E0.
    - eapply safe_mono. { apply scan_flow_scalar_safe; [eassumption | eassumption | eapply quote_cases; [apply F_tok0 | eassumption]]. }
      intros a [Ha1 Ha2]. split; auto with opt.
    - apply scan_plain_scalar_safe. assumption. }
  apply bindw_ext. intros [s2 key] E2. cbn [liftw snd] in E2. rewrite E2 in Hks.
  destruct Hks as [Hw2 _]. cbn [fst] in Hw2.
  apply bindw_ext. intros _ _.
  rewrite scan_to_next_token_src_eq.
  apply bindw_ext. intros s3 E3. cbn [liftw snd] in E3.
  pose proof (stnt_safe n s2 Hw2) as H3. rewrite E3 in H3. destruct H3 as [Hw3 _].
  apply bindw_ext. intros c3 Hpk3. cbn [liftw snd] in Hpk3.
  destruct (c3 =? c_colon) eqn:Ec; cbn [negb]; [|reflexivity].
  apply N.eqb_eq in Ec. assert (Hc3 : c3 <> 0) by (subst; discriminate).
  destruct (forward_1 _ _ _ Hw3 Hpk3 Hc3) as [s4' [H4 [Hw4 _]]].
  apply bindw_ext. intros s4 E4. cbn [liftw snd] in E4. rewrite H4 in E4. inversion E4; subst s4'.
  apply bindw_ext. intros _ _.
  rewrite scan_to_next_token_src_eq.
  apply bindw_ext. intros s5 E5. cbn [liftw snd] in E5.
  pose proof (stnt_safe n s4 Hw4) as H5. rewrite E5 in H5. destruct H5 as [Hw5 _].
  apply bindw_ext. intros c5 Hpk5. cbn [liftw snd] in Hpk5.
  destruct (s_col s5 =? 0); [reflexivity|].
  assert (Hv : (if mem_N c5 in_tokenize_1 then scan_block_scalar_src s5 c5
                else if mem_N c5 in_tokenize_2 then scan_flow_scalar_src s5 c5 false
                else scan_plain_scalar_src s5 false) =
               (if mem_N c5 in_tokenize_1 then scan_block_scalar s5 c5
                else if mem_N c5 in_tokenize_2 then scan_flow_scalar s5 c5
                else scan_plain_scalar s5 false)).
  { destruct (mem_N c5 in_tokenize_1); [apply scan_block_scalar_src_eq|].
    destruct (mem_N c5 in_tokenize_2) eqn:E2'.
    - apply (scan_flow_scalar_src_eq n); [assumption | assumption | eapply quote_cases; [apply F_tok2 | eassumption]].
    - apply scan_plain_scalar_src_eq. }
  rewrite Hv. reflexivity.
Qed.

Lemma tokenize_f_src_eq n : forall fuel s, wfs n s ->
  tokenize_f_with src_scanners fuel s = tokenize_f fuel s.
Proof.
  induction fuel as [|f IH]; intros s Hw; [reflexivity|]. cbn [tokenize_f_with tokenize_f].
  rewrite (tok_iter_src_eq n s Hw).
  destruct (tok_iter_safe n s Hw) as [_ H2].
  destruct (tok_iter s) as [ts [[s'|]|e]]; cbn [fst snd safe iter_post] in *; try reflexivity.
  destruct H2 as [Hw' _]. rewrite (IH s' Hw'). reflexivity.
Qed.

(* ------------------------------------------------------------------ the translated _tokenize loop *)

Definition projw (m : wres unit) : list token * option exn :=
  (fst m, match snd m with Ok _ => None | Raise e => Some e end).

Lemma bindw_assoc {A B D} (m : wres A) (k1 : A -> wres B) (k2 : B -> wres D) :
  bindw (bindw m k1) k2 = bindw m (fun a => bindw (k1 a) k2).
Proof.
  destruct m as [ts [a|e]]; cbn [bindw]; [|reflexivity].
  destruct (k1 a) as [ts1 [b|e1]]; cbn [bindw]; [|reflexivity].
  destruct (k2 b) as [ts2 r]. rewrite app_assoc. reflexivity.
Qed.

Lemma bindw_ret {A B} (a : A) (k : A -> wres B) : bindw (liftw (Ok a)) k = k a.
Proof. unfold bindw, liftw. destruct (k a) as [ts r]. reflexivity. Qed.

(* how tokenize_f goes on after one round *)
Definition contw (f : nat) (m : wres (option stream)) : list token * option exn :=
  match m with
  | (ts, Raise e) => (ts, Some e)
  | (ts, Ok None) => (ts, None)
  | (ts, Ok (Some s')) => let '(ts', e) := tokenize_f_with src_scanners f s' in (ts ++ ts', e)
  end.

Lemma wstep {A} f (m : wres A) (k : A -> wres unit) (k' : A -> wres (option stream)) :
  (forall a, snd m = Ok a -> projw (k a) = contw f (k' a)) -> projw (bindw m k) = contw f (bindw m k').
Proof.
  destruct m as [ts [a|e]]; cbn [snd bindw]; intros H; [|reflexivity].
  specialize (H a eq_refl). unfold projw in *.
  destruct (k a) as [ts1 r1], (k' a) as [ts2 r2]. cbn [fst snd contw] in *.
  destruct r2 as [[s2|]|e2]; cbn [contw].
  - destruct (tokenize_f_with src_scanners f s2) as [ts3 e3]. destruct r1; inversion H; subst; rewrite app_assoc; reflexivity.
  - destruct r1; inversion H; subst; reflexivity.
  - destruct r1; inversion H; subst; reflexivity.
Qed.

(* the generated loop is tok_iter (over the translated scanners) iterated *)
Lemma tokenize_src_w1_eq : forall f s, projw (tokenize_src_w1 f s) = tokenize_f_with src_scanners f s.
Proof.
  induction f as [|f IH]; intros s; [reflexivity|].
  change (tokenize_f_with src_scanners (S f) s) with (contw f (tok_iter_with src_scanners s)).
  assert (Hfin : forall s6, projw (tokenize_src_w1 f s6) = contw f (liftw (Ok (Some s6)))).
  { intros s6. rewrite IH. cbn [contw liftw]. destruct (tokenize_f_with src_scanners f s6). reflexivity. }
  cbn [tokenize_src_w1]. unfold tok_iter_with. cbn [sc_next sc_plain sc_flow sc_block src_scanners]. unfold_tabs.
  apply wstep. intros s1 _.
  apply wstep. intros c Hpk. cbn [liftw snd] in Hpk.
  destruct (str_eqb [c] [0]); [reflexivity|].
  destruct (negb (s_col s1 =? 0)); [reflexivity|].
  rewrite Hpk, bindw_ret. cbv zeta.
  (* the key *)
  assert (Hkey : forall (X : res (stream * str)) (K : stream -> wres unit) (K' : stream -> wres (option stream)),
    (forall s2, projw (K s2) = contw f (K' s2)) ->
    projw (dow stream <- (dow r <- liftw X; let '(s6, v) := r in dow _ <- yield (TKey v); liftw (Ok s6)); K stream) =
    contw f (dow kr <- liftw X; let '(s2, k) := kr in dow _ <- yield (TKey k); K' s2)).
  { intros X K K' H. rewrite bindw_assoc. apply wstep. intros [s2 k] _. rewrite bindw_assoc.
    apply wstep. intros [] _. rewrite bindw_ret. apply H. }
  assert (Hrest : forall s2, projw
     (dow __r10 <- liftw (scan_to_next_token_src s2);
      dow __c11 <- liftw (peek __r10 0);
      if negb (__c11 =? 58) then liftw (Raise (TokenizeError (s_idx __r10)))
      else dow stream <- liftw (forward __r10 1);
           dow _ <- yield TColon;
           dow __r12 <- liftw (scan_to_next_token_src stream);
           dow __c13 <- liftw (peek __r12 0);
           dow stream0 <-
             (if s_col __r12 =? 0 then liftw (Ok __r12)
              else if mem_N __c13 [124; 62]
                   then dow __r14 <- liftw (scan_block_scalar_src __r12 __c13);
                        let '(__s16, __v15) := __r14 in dow _ <- yield (TValue (s_idx __r12) __v15); liftw (Ok __s16)
                   else if mem_N __c13 [39; 34]
                        then dow __r17 <- liftw (scan_flow_scalar_src __r12 __c13 false);
                             let '(__s19, __v18) := __r17 in dow _ <- yield (TValue (s_idx __r12) __v18); liftw (Ok __s19)
                        else dow __r20 <- liftw (scan_plain_scalar_src __r12 false);
                             let '(__s22, __v21) := __r20 in dow _ <- yield (TValue (s_idx __r12) __v21); liftw (Ok __s22));
           tokenize_src_w1 f stream0) =
     contw f
     (dow s3 <- liftw (scan_to_next_token_src s2);
      dow ch3 <- liftw (peek s3 0);
      if negb (ch3 =? 58) then liftw (Raise (TokenizeError (s_idx s3)))
      else dow s4 <- liftw (forward s3 1);
           dow _ <- yield TColon;
           dow s5 <- liftw (scan_to_next_token_src s4);
           dow ch5 <- liftw (peek s5 0);
           if s_col s5 =? 0 then liftw (Ok (Some s5))
           else dow vr <- liftw (if mem_N ch5 [124; 62] then scan_block_scalar_src s5 ch5
                                 else if mem_N ch5 [39; 34] then scan_flow_scalar_src s5 ch5 false
                                 else scan_plain_scalar_src s5 false);
                let '(s6, v) := vr in dow _ <- yield (TValue (s_idx s5) v); liftw (Ok (Some s6)))).
  { intros s2.
    apply wstep. intros s3 _. apply wstep. intros c3 _.
    destruct (negb (c3 =? 58)); [reflexivity|].
    apply wstep. intros s4 _. apply wstep. intros [] _. apply wstep. intros s5 _. apply wstep. intros c5 _.
    destruct (s_col s5 =? 0); [rewrite bindw_ret; apply Hfin|].
    assert (Hval : forall (X : res (stream * str)),
      projw (dow stream0 <- (dow r <- liftw X; let '(s6, v) := r in dow _ <- yield (TValue (s_idx s5) v); liftw (Ok s6));
             tokenize_src_w1 f stream0) =
      contw f (dow vr <- liftw X; let '(s6, v) := vr in dow _ <- yield (TValue (s_idx s5) v); liftw (Ok (Some s6)))).
    { intros X. rewrite bindw_assoc. apply wstep. intros [s6 v] _. rewrite bindw_assoc.
      apply wstep. intros [] _. rewrite bindw_ret. apply Hfin. }
    destruct (mem_N c5 [124; 62]); [apply Hval|]. destruct (mem_N c5 [39; 34]); apply Hval. }
  destruct (mem_N c [39; 34]); apply Hkey; intros s2; apply Hrest.
Qed.

(* the entry point translated from options.py (options_to_items, _to_tokens, _tokenize, the scanners) is the hand model *)
Theorem options_to_items_src_eq text : options_to_items_src text = options_to_items text.
Proof.
  rewrite options_to_items_src_glue. unfold tokenize_src, options_to_items, tokenize. cbv zeta.
  rewrite <- (tokenize_f_src_eq _ _ _ (new_stream_wfs text)), <- tokenize_src_w1_eq. unfold projw.
  destruct (tokenize_src_w1 (fuel_of (new_stream text)) (new_stream text)) as [ts r]. reflexivity.
Qed.
