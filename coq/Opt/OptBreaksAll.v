(* Agreement with YAML for texts whose line breaks are CR LF, CR or NEL. *)
From Coq Require Import List NArith Bool.
From MV Require Import Base.PyStr.
From MV Require Import Base.Res.
From MV Require Import Opt.OptModel.
From MV Require Import Opt.YamlSpec.
From MV Require Import Opt.OptAgreeAll.
From MV Require Import Opt.OptBreaksDef.
From MV Require Import Opt.OptBreaks.
From MV Require Import Opt.OptBreaksWf.
Import ListNotations.
Open Scope N_scope.

Theorem line_breaks_transparent (T : str) r : no_cr T = true -> options_to_items T = Ok r ->
  options_to_items (crlf T) = Ok r /\ options_to_items (cr_only T) = Ok r /\ options_to_items (nel_only T) = Ok r.
Proof. intros H1 H2. split; [|split]; [apply crlf_transparent | apply cr_transparent | apply nel_transparent]; assumption. Qed.

Theorem yaml_agree_crlf b : wf_block b = true -> options_to_items (crlf (print_block b)) = Ok (meaning_block b).
Proof. intros H. apply crlf_transparent; [apply print_block_no_cr; exact H | apply yaml_agree; exact H]. Qed.

Theorem yaml_agree_cr b : wf_block b = true -> options_to_items (cr_only (print_block b)) = Ok (meaning_block b).
Proof. intros H. apply cr_transparent; [apply print_block_no_cr; exact H | apply yaml_agree; exact H]. Qed.

Theorem yaml_agree_nel b : wf_block b = true -> options_to_items (nel_only (print_block b)) = Ok (meaning_block b).
Proof. intros H. apply nel_transparent; [apply print_block_no_cr; exact H | apply yaml_agree; exact H]. Qed.

(* Different kinds in ONE text do not compose in general: a CR directly followed by an LF is one
   line break (CR LF), so replacing the first of two consecutive line feeds by CR and keeping the
   second loses a blank line.  a: |  /  x  /  (blank)  /  y *)
Definition mixed_lf : str := [97; 58; 32; 124; 10; 32; 120; 10; 10; 32; 121; 10].
Definition mixed_cr_lf : str := [97; 58; 32; 124; 10; 32; 120; 13; 10; 32; 121; 10].

Theorem mixed_breaks_refuted :
  options_to_items mixed_lf = Ok [([97], [120; 10; 10; 121; 10])] /\
  options_to_items mixed_cr_lf = Ok [([97], [120; 10; 121; 10])].
Proof. split; vm_compute; reflexivity. Qed.
