(* Agreement, plain scalars: _scan_plain_scalar / _scan_plain_spaces on the printed form of
   single- and multi-line plain scalars (keys and values). *)
From Coq Require Import List NArith Bool Lia ZifyBool Arith.
From MV Require Import Base.PyStr.
From MV Require Import Base.Res.
From MV Require Import Gen.OptConsts.
From MV Require Import Opt.OptModel.
From MV Require Import Opt.YamlSpec.
From MV Require Import Opt.OptAgreeBase.
Import ListNotations.
Open Scope N_scope.

(* ------------------------------------------------------------------ words *)

Lemma wf_word_inv w : wf_word w = true ->
  exists c w', w = c :: w' /\ okc c = true /\ c <> 35 /\ forallb okc w = true /\
               last_is (fun x => x =? 58) w = false.
Proof.
  unfold wf_word. destruct w as [|c w']; [discriminate|]. intros H.
  apply andb_true_iff in H as [H H3]. apply andb_true_iff in H as [H1 H2].
  exists c, w'. split; [reflexivity|].
  assert (Hc : okc c = true) by (cbn [forallb] in H1; apply andb_true_iff in H1; tauto).
  split; [assumption|]. split; [lia|]. split; [assumption|]. apply negb_true_iff. assumption.
Qed.

Lemma okc_not_stop c : okc c = true -> mem_N c in_scan_plain_scalar_0 = false /\
                                      mem_N c in_scan_plain_scalar_1 = false.
Proof. intros H. split; charfact. Qed.

Lemma plain_len_word is_key : forall w tail,
  forallb okc w = true -> last_is (fun c => c =? 58) w = false ->
  plain_len is_key tail = Ok O ->
  plain_len is_key (w ++ tail) = Ok (length w).
Proof.
  induction w as [|c w IH]; intros tail Hok Hlast Hx; cbn [app length]; [exact Hx|].
  cbn [plain_len].
  cbn [forallb] in Hok. apply andb_true_iff in Hok as [Hc Hok].
  destruct (okc_not_stop c Hc) as [Hc0 _]. rewrite Hc0.
  destruct w as [|c' w'].
  - cbn [last_is] in Hlast. replace (c =? c_colon) with false by (unfold c_colon; lia).
    rewrite andb_false_r. cbn [bind app]. rewrite Hx. reflexivity.
  - assert (Hlast' : last_is (fun c => c =? 58) (c' :: w') = false) by exact Hlast.
    assert (Hc' : okc c' = true) by (cbn [forallb] in Hok; apply andb_true_iff in Hok; tauto).
    destruct (okc_not_stop c' Hc') as [_ Hc1].
    specialize (IH tail Hok Hlast' Hx).
    destruct (is_key && (c =? c_colon)); cbn [app bind].
    + rewrite Hc1. cbn [app] in IH. rewrite IH. reflexivity.
    + cbn [app] in IH. rewrite IH. reflexivity.
Qed.

Lemma plain_len_stop is_key x t : mem_N x in_scan_plain_scalar_0 = true ->
  plain_len is_key (x :: t) = Ok O.
Proof. intros H. cbn [plain_len]. rewrite H. reflexivity. Qed.

Lemma plain_len_key_end x t : mem_N x in_scan_plain_scalar_1 = true ->
  plain_len true (58 :: x :: t) = Ok O.
Proof.
  intros Hx. cbn [plain_len]. replace (mem_N 58 in_scan_plain_scalar_0) with false by reflexivity.
  replace (58 =? c_colon) with true by reflexivity. cbn [andb bind]. rewrite Hx. reflexivity.
Qed.

(* ------------------------------------------------------------------ separators between words *)

Inductive psep := PSp (n : nat) | PBr (tsp : nat) (ks : list nat) (ind : nat).

Definition print_psep (x : psep) : str :=
  match x with PSp n => sp n | PBr tsp ks ind => sp tsp ++ [10] ++ bl ks ++ sp ind end.
Definition mean_psep (x : psep) : str :=
  match x with PSp n => sp n | PBr _ ks _ => fold_sep (length ks) end.
Definition chunks_psep (x : psep) : list str :=
  match x with
  | PSp n => [sp n]
  | PBr _ ks _ => match ks with [] => [[32]] | _ => repeat [10] (length ks) end
  end.
Definition wf_psep (is_key : bool) (x : psep) : bool :=
  match x with
  | PSp n => negb (Nat.eqb n 0)
  | PBr _ _ ind => negb is_key && negb (Nat.eqb ind 0)
  end.

Lemma concat_repeat_lf k : concat (repeat [10] k) = nls k.
Proof. induction k as [|k IH]; [reflexivity|]. cbn [repeat concat]. rewrite IH. reflexivity. Qed.

Lemma concat_chunks_psep x : concat (chunks_psep x) = mean_psep x.
Proof.
  destruct x as [n|tsp ks ind]; cbn [chunks_psep mean_psep concat]; [apply app_nil_r|].
  destruct ks; [reflexivity|]. rewrite concat_repeat_lf. reflexivity.
Qed.

Lemma repeat_snoc {A} (x : A) k : repeat x (S k) = repeat x k ++ [x].
Proof. induction k as [|k IH]; [reflexivity|]. cbn [repeat app] in *. rewrite <- IH. reflexivity. Qed.

(* the `while stream.peek() in _CHARS_SPACE_NEWLINE:` loop over blank lines and an indentation *)
Lemma plain_breaks_peel_sp : forall n f s br X, s_rest s = sp n ++ X ->
  plain_breaks_f (n + f) s br = plain_breaks_f f (after s (sp n)) br.
Proof.
  induction n as [|n IH]; intros f s br X Hr; [reflexivity|].
  cbn [plus plain_breaks_f]. rewrite sp_S in *. cbn [app] in Hr.
  rewrite (peek0 _ _ _ Hr). cbn [bind].
  replace (mem_N 32 in_scan_plain_spaces_1) with true by reflexivity.
  replace (32 =? c_space) with true by reflexivity.
  cbn [forward]. rewrite (forward1_step _ _ _ Hr space_nocr). cbn [bind]. rewrite after_cons.
  apply (IH f _ br X). rewrite rest_step, Hr. reflexivity.
Qed.

Lemma plain_breaks_spec : forall ks ind fuel s br c t,
  mem_N c in_scan_plain_spaces_1 = false ->
  s_rest s = bl ks ++ sp ind ++ c :: t -> (length (bl ks) + ind < fuel)%nat ->
  plain_breaks_f fuel s br = Ok (after s (bl ks ++ sp ind), br ++ repeat [10] (length ks)).
Proof.
  induction ks as [|n ks IH]; intros ind fuel s br c t Hc Hr Hf.
  - cbn [bl map concat app length repeat] in *. rewrite app_nil_r.
    replace fuel with (ind + (fuel - ind))%nat by lia.
    rewrite (plain_breaks_peel_sp ind _ s br _ Hr).
    destruct (fuel - ind)%nat as [|f] eqn:E; [lia|]. cbn [plain_breaks_f].
    rewrite (peek_after _ _ _ _ Hr). cbn [bind]. rewrite Hc. reflexivity.
  - rewrite bl_cons in *. rewrite !app_length in Hf. cbn [length] in Hf.
    assert (Hr0 : s_rest s = sp n ++ 10 :: (bl ks ++ sp ind ++ c :: t)) by (rewrite Hr, <- !app_assoc; reflexivity).
    replace fuel with (n + (fuel - n))%nat by (rewrite sp_length in Hf; lia).
    rewrite (plain_breaks_peel_sp n _ s br _ Hr0).
    destruct (fuel - n)%nat as [|f] eqn:E; [rewrite sp_length in Hf; lia|]. cbn [plain_breaks_f].
    pose proof (rest_after _ _ _ Hr0) as Hr1.
    rewrite (peek0 _ _ _ Hr1). cbn [bind].
    replace (mem_N 10 in_scan_plain_spaces_1) with true by reflexivity.
    replace (10 =? c_space) with false by reflexivity.
    rewrite (scan_line_break_lf _ _ Hr1). cbn [bind].
    rewrite (IH ind f _ (br ++ [[10]]) c t Hc); [| apply (rest_after [10]); exact Hr1 | rewrite sp_length in Hf; lia].
    cbn [length repeat]. rewrite <- !after_app, <- !app_assoc. reflexivity.
Qed.

(* ------------------------------------------------------------------ one word followed by a separator *)

Definition sep_ok (is_key : bool) (x : psep) : Prop :=
  match x with PSp n => n <> O | PBr _ _ _ => is_key = false end.

Lemma wf_psep_ok is_key x : wf_psep is_key x = true -> sep_ok is_key x.
Proof.
  destruct x as [n|tsp ks ind]; cbn [wf_psep sep_ok].
  - destruct n; [discriminate | discriminate].
  - intros H. apply andb_true_iff in H as [H _]. apply negb_true_iff in H. exact H.
Qed.

Lemma scan_plain_spaces_sep is_key x s c t :
  sep_ok is_key x -> mem_N c in_scan_plain_spaces_1 = false ->
  s_rest s = print_psep x ++ c :: t ->
  scan_plain_spaces s (negb is_key) = Ok (after s (print_psep x), chunks_psep x).
Proof.
  intros Hok Hc Hr. unfold scan_plain_spaces.
  destruct x as [n|tsp ks ind]; cbn [print_psep sep_ok chunks_psep] in *.
  - rewrite (count_while_rest (fun ch => ch =? c_space) s (sp n) c t Hr);
      [| apply Forall_sp; reflexivity | charfact].
    cbn [bind]. rewrite sp_length.
    pose proof (forward_after (sp n) s (c :: t) (sp_nocr n) Hr) as Hf. rewrite sp_length in Hf.
    rewrite Hf. cbn [bind]. rewrite (peek_after _ _ _ _ Hr). cbn [bind].
    replace (mem_N c in_scan_plain_spaces_0) with false by charfact. rewrite andb_false_r.
    pose proof (prefix_app s (sp n) (c :: t) Hr) as Hp. rewrite sp_length in Hp. rewrite Hp.
    destruct n; [congruence|]. reflexivity.
  - subst is_key. cbn [negb].
    assert (Hr1 : s_rest s = sp tsp ++ 10 :: bl ks ++ sp ind ++ c :: t).
    { rewrite Hr. rewrite <- !app_assoc. reflexivity. }
    rewrite (count_while_rest (fun ch => ch =? c_space) s (sp tsp) 10 _ Hr1);
      [| apply Forall_sp; reflexivity | reflexivity].
    cbn [bind]. rewrite sp_length.
    pose proof (forward_after (sp tsp) s _ (sp_nocr tsp) Hr1) as Hf. rewrite sp_length in Hf.
    rewrite Hf. cbn [bind]. rewrite (peek_after _ _ _ _ Hr1). cbn [bind].
    replace (mem_N 10 in_scan_plain_spaces_0) with true by reflexivity. cbn [andb].
    pose proof (rest_after _ _ _ Hr1) as Hr2.
    rewrite (scan_line_break_lf _ _ Hr2). cbn [bind].
    assert (Hr3 : s_rest (after (after s (sp tsp)) [10]) = bl ks ++ sp ind ++ c :: t).
    { apply rest_after. rewrite Hr2. reflexivity. }
    rewrite (plain_breaks_spec ks ind _ _ [] c t); [| exact Hc | exact Hr3 |].
    2:{ unfold fuel_of. rewrite Hr3, !app_length, sp_length. cbn [length]. lia. }
    cbn [bind]. replace (is_lf [10]) with true by reflexivity. cbn [negb app].
    rewrite <- !after_app. f_equal. destruct ks; reflexivity.
Qed.

Lemma plain_word_sep is_key f s chunks spaces w x c t :
  wf_word w = true -> sep_ok is_key x -> mem_N c in_scan_plain_spaces_1 = false ->
  s_rest s = w ++ print_psep x ++ c :: t ->
  plain_scalar_f (S f) is_key s chunks spaces =
  if (c =? c_hash) || (s_col (after s (w ++ print_psep x)) <? (if is_key then 0 else 1))
  then Ok (after s (w ++ print_psep x), chunks ++ spaces ++ [w])
  else plain_scalar_f f is_key (after s (w ++ print_psep x)) (chunks ++ spaces ++ [w]) (chunks_psep x).
Proof.
  intros Hw Hx Hc Hr.
  destruct (wf_word_inv _ Hw) as (c0 & w' & Ew & Hc0 & Hc35 & Hok & Hlast).
  cbn [plain_scalar_f].
  assert (Hpk : peek s 0 = Ok c0). { eapply peek0. rewrite Hr, Ew. reflexivity. }
  rewrite Hpk. cbn [bind]. replace (c0 =? c_hash) with false by (unfold c_hash; lia).
  (* the separator begins with a space or a line feed *)
  assert (Hsep : exists y t', print_psep x ++ c :: t = y :: t' /\ mem_N y in_scan_plain_scalar_0 = true).
  { destruct x as [n|tsp ks ind]; cbn [print_psep sep_ok] in *.
    - destruct n; [congruence|]. rewrite sp_S. cbn [app]. eexists; eexists; split; reflexivity.
    - destruct tsp; [|rewrite sp_S]; cbn [sp repeat app]; eexists; eexists; split; reflexivity. }
  destruct Hsep as [y [t' [Hy Hy0]]].
  assert (Hpl : plain_len is_key (s_rest s) = Ok (length w)).
  { rewrite Hr, Hy. apply plain_len_word; [assumption | assumption | apply plain_len_stop; assumption]. }
  rewrite Hpl. cbn [bind].
  destruct (length w) as [|lw] eqn:Elw; [rewrite Ew in Elw; discriminate|]. rewrite <- Elw.
  rewrite (prefix_app s w _ Hr).
  assert (Hnocr : Forall nocr w) by (apply Forall_txtc_nocr, forallb_okc_txtc; assumption).
  rewrite (forward_after w s _ Hnocr Hr). cbn [bind].
  pose proof (rest_after _ _ _ Hr) as Hr1.
  rewrite (scan_plain_spaces_sep is_key x _ c _ Hx Hc Hr1). cbn [bind].
  assert (Hne : exists z zs, chunks_psep x = z :: zs).
  { destruct x as [n|tsp ks ind]; cbn [chunks_psep]; [eauto|]. destruct ks; cbn [repeat length]; eauto. }
  destruct Hne as [z [zs Hz]]. rewrite Hz.
  rewrite (peek_after _ _ _ _ Hr1). cbn [bind].
  rewrite <- Hz, <- after_app. reflexivity.
Qed.

(* a word followed by a separator and another word: once more round the loop *)
Lemma plain_step is_key f s chunks spaces w x w2 t :
  wf_word w = true -> wf_psep is_key x = true -> wf_word w2 = true ->
  s_rest s = w ++ print_psep x ++ w2 ++ t ->
  plain_scalar_f (S f) is_key s chunks spaces =
  plain_scalar_f f is_key (after s (w ++ print_psep x)) (chunks ++ spaces ++ [w]) (chunks_psep x).
Proof.
  intros Hw Hx Hw2 Hr.
  destruct (wf_word_inv _ Hw2) as (c2 & w2' & Ew2 & Hc2 & Hc235 & Hok2 & Hlast2).
  rewrite Ew2 in Hr. cbn [app] in Hr.
  rewrite (plain_word_sep is_key f s chunks spaces w x c2 (w2' ++ t) Hw (wf_psep_ok _ _ Hx)); [| charfact | exact Hr].
  replace (c2 =? c_hash) with false by (unfold c_hash; lia). cbn [orb].
  assert (Hcol : (s_col (after s (w ++ print_psep x)) <? (if is_key then 0 else 1)) = false).
  { destruct is_key; [lia|]. rewrite after_app.
    destruct x as [n|tsp ks ind]; cbn [print_psep wf_psep] in *.
    - rewrite (col_after _ _ (sp_colc n)), sp_length. destruct n; [discriminate|]. lia.
    - rewrite (col_after_bl _ (sp tsp) ks (sp ind) (sp_colc ind)), sp_length.
      destruct ind; [discriminate|]. lia. }
  rewrite Hcol. reflexivity.
Qed.

(* ------------------------------------------------------------------ the last word of a scalar *)

(* key: the last word, optional spaces, then ':' followed by a space or a line break *)
Lemma plain_last_key f s chunks spaces w ksp x t :
  wf_word w = true -> mem_N x in_scan_plain_scalar_1 = true ->
  s_rest s = w ++ sp ksp ++ 58 :: x :: t ->
  plain_scalar_f (S (S f)) true s chunks spaces =
  Ok (after s (w ++ sp ksp), chunks ++ spaces ++ [w]).
Proof.
  intros Hw Hx Hr. destruct ksp as [|ksp].
  - cbn [sp repeat app] in *. rewrite app_nil_r.
    destruct (wf_word_inv _ Hw) as (c0 & w' & Ew & Hc0 & Hc35 & Hok & Hlast).
    cbn [plain_scalar_f].
    assert (Hpk : peek s 0 = Ok c0). { eapply peek0. rewrite Hr, Ew. reflexivity. }
    rewrite Hpk. cbn [bind]. replace (c0 =? c_hash) with false by (unfold c_hash; lia).
    assert (Hpl : plain_len true (s_rest s) = Ok (length w)).
    { rewrite Hr. apply plain_len_word; [assumption | assumption | apply plain_len_key_end; assumption]. }
    rewrite Hpl. cbn [bind].
    destruct (length w) as [|lw] eqn:Elw; [rewrite Ew in Elw; discriminate|]. rewrite <- Elw.
    rewrite (prefix_app s w _ Hr).
    assert (Hnocr : Forall nocr w) by (apply Forall_txtc_nocr, forallb_okc_txtc; assumption).
    rewrite (forward_after w s _ Hnocr Hr). cbn [bind].
    pose proof (rest_after _ _ _ Hr) as Hr1.
    unfold scan_plain_spaces. rewrite Hr1. cbn [count_while].
    replace (58 =? c_space) with false by reflexivity. cbn [bind forward].
    rewrite (peek0 _ _ _ Hr1). cbn [bind negb andb]. unfold prefix. cbn [firstn nonempty bind].
    rewrite (peek0 _ _ _ Hr1). reflexivity.
  - rewrite (plain_word_sep true (S f) s chunks spaces w (PSp (S ksp)) 58 (x :: t) Hw);
      [| cbn; lia | reflexivity | exact Hr].
    replace (58 =? c_hash) with false by reflexivity. cbn [orb].
    replace (s_col (after s (w ++ print_psep (PSp (S ksp)))) <? 0) with false by lia.
    cbn [plain_scalar_f print_psep].
    assert (Hr1 : s_rest (after s (w ++ sp (S ksp))) = 58 :: x :: t).
    { apply rest_after. rewrite Hr, <- app_assoc. reflexivity. }
    rewrite (peek0 _ _ _ Hr1). cbn [bind]. replace (58 =? c_hash) with false by reflexivity.
    rewrite Hr1, (plain_len_key_end x t Hx). cbn [bind]. reflexivity.
Qed.

(* a character that begins a line after a plain value: not a space, not a line break *)
Definition line_start (c : N) : Prop := mem_N c in_scan_plain_spaces_1 = false.

(* value: the last word, spaces, a comment *)
Lemma plain_last_comment f s chunks spaces w tsp t :
  wf_word w = true -> tsp <> O ->
  s_rest s = w ++ sp tsp ++ 35 :: t ->
  plain_scalar_f (S f) false s chunks spaces =
  Ok (after s (w ++ sp tsp), chunks ++ spaces ++ [w]).
Proof.
  intros Hw Htsp Hr.
  rewrite (plain_word_sep false f s chunks spaces w (PSp tsp) 35 t Hw); [| exact Htsp | reflexivity | exact Hr].
  replace (35 =? c_hash) with true by reflexivity. reflexivity.
Qed.

(* value: the last word, spaces, the line break, blank lines, then a line that starts at column 0 *)
Lemma plain_last_break f s chunks spaces w tsp trail c t :
  wf_word w = true -> line_start c ->
  s_rest s = w ++ (sp tsp ++ [10] ++ bl trail) ++ c :: t ->
  plain_scalar_f (S f) false s chunks spaces =
  Ok (after s (w ++ sp tsp ++ [10] ++ bl trail), chunks ++ spaces ++ [w]).
Proof.
  intros Hw Hc Hr.
  assert (Hr' : s_rest s = w ++ print_psep (PBr tsp trail 0) ++ c :: t).
  { rewrite Hr. cbn [print_psep sp repeat]. rewrite !app_nil_r. reflexivity. }
  rewrite (plain_word_sep false f s chunks spaces w (PBr tsp trail 0) c t Hw); [| reflexivity | exact Hc | exact Hr'].
  cbn [print_psep sp repeat]. rewrite !app_nil_r.
  assert (Hcol : s_col (after s (w ++ sp tsp ++ [10] ++ bl trail)) = 0).
  { rewrite after_app. pose proof (col_after_bl (after s w) (sp tsp) trail [] (Forall_nil _)) as H.
    rewrite !app_nil_r in H. exact H. }
  rewrite Hcol. replace (0 <? 1) with true by reflexivity. rewrite orb_true_r. reflexivity.
Qed.

(* ------------------------------------------------------------------ a whole scalar as a flat list of (separator, word) *)

Definition flat := list (psep * str).
Definition print_flat (l : flat) : str := concat (map (fun '(x, w) => print_psep x ++ w) l).
Definition mean_flat (l : flat) : str := concat (map (fun '(x, w) => mean_psep x ++ w) l).
Definition chunks_flat (l : flat) : list str := concat (map (fun '(x, w) => chunks_psep x ++ [w]) l).
Definition wf_flat (is_key : bool) (l : flat) : bool :=
  forallb (fun '(x, w) => wf_psep is_key x && wf_word w) l.

Lemma concat_chunks_flat l : concat (chunks_flat l) = mean_flat l.
Proof.
  induction l as [|[x w] l IH]; [reflexivity|].
  unfold chunks_flat, mean_flat in *. cbn [map concat]. rewrite concat_app, IH.
  rewrite concat_app, concat_chunks_psep. cbn [concat]. rewrite app_nil_r. reflexivity.
Qed.


(* the words before the last one take one round of the loop each; the caller says what the
   loop does from the last word on ([tailspec]) *)
Definition tailspec (is_key : bool) (f : nat) (tail consumed : str) : Prop :=
  forall s chunks spaces w, wf_word w = true -> s_rest s = w ++ tail ->
    plain_scalar_f f is_key s chunks spaces = Ok (after s (w ++ consumed), chunks ++ spaces ++ [w]).

Lemma plain_flat is_key f tail consumed : tailspec is_key f tail consumed ->
  forall (l : flat) s chunks spaces w,
  wf_word w = true -> wf_flat is_key l = true ->
  s_rest s = w ++ print_flat l ++ tail ->
  plain_scalar_f (length l + f) is_key s chunks spaces =
  Ok (after s (w ++ print_flat l ++ consumed), chunks ++ spaces ++ [w] ++ chunks_flat l).
Proof.
  intros HT. induction l as [|[x w2] l IH]; intros s chunks spaces w Hw Hl Hr.
  - unfold print_flat, chunks_flat in *. cbn [length plus map concat app] in *.
    apply HT; assumption.
  - cbn [wf_flat forallb] in Hl. apply andb_true_iff in Hl as [Hxw Hl].
    apply andb_true_iff in Hxw as [Hx Hw2].
    unfold print_flat in Hr. cbn [map concat] in Hr. fold (print_flat l) in Hr.
    assert (Hr1 : s_rest s = w ++ print_psep x ++ w2 ++ (print_flat l ++ tail)).
    { rewrite Hr, <- !app_assoc. reflexivity. }
    cbn [length plus].
    rewrite (plain_step is_key (length l + f) s chunks spaces w x w2 _ Hw Hx Hw2 Hr1).
    rewrite (IH _ _ _ w2 Hw2 Hl).
    + f_equal. f_equal.
      * rewrite <- after_app. f_equal. unfold print_flat. cbn [map concat]. rewrite <- !app_assoc. reflexivity.
      * unfold chunks_flat. cbn [map concat]. rewrite <- !app_assoc. reflexivity.
    + apply rest_after. rewrite Hr1, <- !app_assoc. reflexivity.
Qed.

Lemma print_flat_length is_key l : wf_flat is_key l = true -> (length l <= length (print_flat l))%nat.
Proof.
  intros Hwf. apply concat_length_ge. intros [x w] Hin.
  unfold wf_flat in Hwf. rewrite forallb_forall in Hwf. specialize (Hwf _ Hin). cbn beta iota in Hwf.
  apply andb_true_iff in Hwf as [_ Hw]. destruct (wf_word_inv _ Hw) as (c & w' & -> & _).
  rewrite app_length. cbn [length]. lia.
Qed.

Lemma tailspec_key x t ksp f : mem_N x in_scan_plain_scalar_1 = true ->
  tailspec true (S (S f)) (sp ksp ++ 58 :: x :: t) (sp ksp).
Proof. intros Hx s chunks spaces w Hw Hr. eapply plain_last_key; eassumption. Qed.

Lemma tailspec_comment tsp t f : tsp <> O -> tailspec false (S f) (sp tsp ++ 35 :: t) (sp tsp).
Proof. intros H s chunks spaces w Hw Hr. eapply plain_last_comment; eassumption. Qed.

Lemma tailspec_break tsp trail c t f : line_start c ->
  tailspec false (S f) ((sp tsp ++ [10] ++ bl trail) ++ c :: t) (sp tsp ++ [10] ++ bl trail).
Proof. intros H s chunks spaces w Hw Hr. eapply plain_last_break; eassumption. Qed.

(* _scan_plain_scalar on a whole printed plain scalar *)
Lemma scan_plain_flat is_key tail consumed : (forall f, tailspec is_key (S (S f)) tail consumed) ->
  (1 <= length tail)%nat ->
  forall l s w, wf_word w = true -> wf_flat is_key l = true ->
  s_rest s = (w ++ print_flat l) ++ tail ->
  scan_plain_scalar s is_key = Ok (after s ((w ++ print_flat l) ++ consumed), w ++ mean_flat l).
Proof.
  intros HT Htl l s w Hw Hl Hr. unfold scan_plain_scalar.
  rewrite <- app_assoc in Hr.
  pose proof (print_flat_length is_key l Hl) as Hlen.
  destruct (wf_word_inv _ Hw) as (c & w' & Ew & _).
  assert (Hfuel : exists f, fuel_of s = (length l + S (S f))%nat).
  { unfold fuel_of. rewrite Hr, !app_length. rewrite Ew. cbn [length].
    exists (length w' + length (print_flat l) + length tail - length l)%nat. lia. }
  destruct Hfuel as [f Hf]. rewrite Hf.
  rewrite (plain_flat is_key (S (S f)) tail consumed (HT f) l s [] [] w Hw Hl Hr). cbn [bind app].
  rewrite <- app_assoc. f_equal. f_equal. cbn [concat]. rewrite concat_chunks_flat. reflexivity.
Qed.

(* ------------------------------------------------------------------ the AST forms *)

Definition flat_of_pline (l : pline) : flat := map (fun '(n, w) => (PSp n, w)) (pl_more l).

Definition flat_of_plain (l0 : pline) (more : list (nat * list nat * nat * pline)) : flat :=
  flat_of_pline l0 ++
  flat_map (fun '(tsp, k, ind, pl) => (PBr tsp k ind, pl_first pl) :: flat_of_pline pl) more.

Lemma print_flat_app a b : print_flat (a ++ b) = print_flat a ++ print_flat b.
Proof. unfold print_flat. rewrite map_app, concat_app. reflexivity. Qed.
Lemma mean_flat_app a b : mean_flat (a ++ b) = mean_flat a ++ mean_flat b.
Proof. unfold mean_flat. rewrite map_app, concat_app. reflexivity. Qed.
Lemma wf_flat_app k a b : wf_flat k (a ++ b) = wf_flat k a && wf_flat k b.
Proof. unfold wf_flat. apply forallb_app. Qed.

Lemma print_pline_flat l : print_pline l = pl_first l ++ print_flat (flat_of_pline l).
Proof.
  unfold print_pline, print_flat, flat_of_pline. f_equal. rewrite map_map. f_equal.
  apply map_ext. intros [n w]. reflexivity.
Qed.

Lemma mean_pline_flat l : print_pline l = pl_first l ++ mean_flat (flat_of_pline l).
Proof.
  unfold print_pline, mean_flat, flat_of_pline. f_equal. rewrite map_map. f_equal.
  apply map_ext. intros [n w]. reflexivity.
Qed.

Lemma wf_pline_flat is_key l : wf_pline l = true ->
  wf_word (pl_first l) = true /\ wf_flat is_key (flat_of_pline l) = true.
Proof.
  unfold wf_pline. intros H. apply andb_true_iff in H as [H1 H2]. split; [assumption|].
  unfold wf_flat, flat_of_pline. rewrite forallb_forall in *. intros [x w] Hin.
  apply in_map_iff in Hin as [[n w'] [E Hin]]. inversion E; subst. specialize (H2 _ Hin).
  cbn beta iota in H2. cbn [wf_psep]. exact H2.
Qed.

Lemma print_plain_flat l0 more :
  print_flow (FPlain l0 more) = pl_first l0 ++ print_flat (flat_of_plain l0 more).
Proof.
  cbn [print_flow]. unfold flat_of_plain. rewrite print_flat_app, print_pline_flat, <- app_assoc.
  f_equal. f_equal. induction more as [|[[[tsp k] ind] pl] more IH]; [reflexivity|].
  cbn [map concat flat_map]. rewrite print_flat_app, IH. f_equal.
  unfold print_flat at 1. cbn [map concat]. fold (print_flat (flat_of_pline pl)).
  rewrite print_pline_flat. cbn [print_psep]. rewrite <- !app_assoc. reflexivity.
Qed.

Lemma mean_plain_flat l0 more :
  flow_meaning (FPlain l0 more) = pl_first l0 ++ mean_flat (flat_of_plain l0 more).
Proof.
  cbn [flow_meaning]. unfold flat_of_plain. rewrite mean_flat_app, mean_pline_flat, <- app_assoc.
  f_equal. f_equal. induction more as [|[[[tsp k] ind] pl] more IH]; [reflexivity|].
  cbn [map concat flat_map]. rewrite mean_flat_app, IH. f_equal.
  unfold mean_flat at 1. cbn [map concat]. fold (mean_flat (flat_of_pline pl)).
  rewrite mean_pline_flat. cbn [mean_psep]. rewrite <- !app_assoc. reflexivity.
Qed.

Lemma wf_plain_flat l0 more : wf_flow (FPlain l0 more) = true ->
  wf_word (pl_first l0) = true /\ wf_flat false (flat_of_plain l0 more) = true.
Proof.
  cbn [wf_flow]. intros H. apply andb_true_iff in H as [H1 H2].
  unfold wf_pline_start in H1. apply andb_true_iff in H1 as [H1 _].
  destruct (wf_pline_flat false l0 H1) as [Hw Hf]. split; [assumption|].
  unfold flat_of_plain. rewrite wf_flat_app, Hf. cbn [andb].
  induction more as [|[[[tsp k] ind] pl] more IH]; [reflexivity|].
  cbn [forallb] in H2. apply andb_true_iff in H2 as [H2 H3]. apply andb_true_iff in H2 as [Hi Hp].
  destruct (wf_pline_flat false pl Hp) as [Hw' Hf'].
  cbn [flat_map]. change ((PBr tsp k ind, pl_first pl) :: flat_of_pline pl ++ ?x) with
    (((PBr tsp k ind, pl_first pl) :: flat_of_pline pl) ++ x).
  rewrite wf_flat_app, (IH H3), andb_true_r. cbn [wf_flat forallb wf_psep negb andb].
  rewrite Hi, Hw'. cbn [andb]. exact Hf'.
Qed.

(* ------------------------------------------------------------------ a value on the last line, without final line break *)

Lemma plain_last_eof f s chunks spaces w tsp :
  wf_word w = true ->
  s_rest s = w ++ sp tsp ++ [0] ->
  plain_scalar_f (S (S f)) false s chunks spaces =
  Ok (after s (w ++ sp tsp), chunks ++ spaces ++ [w]).
Proof.
  intros Hw Hr. destruct (wf_word_inv _ Hw) as (c0 & w' & Ew & Hc0 & Hc35 & Hok & Hlast).
  destruct tsp as [|tsp].
  - cbn [sp repeat app] in *. rewrite app_nil_r.
    cbn [plain_scalar_f].
    assert (Hpk : peek s 0 = Ok c0). { eapply peek0. rewrite Hr, Ew. reflexivity. }
    rewrite Hpk. cbn [bind]. replace (c0 =? c_hash) with false by (unfold c_hash; lia).
    assert (Hpl : plain_len false (s_rest s) = Ok (length w)).
    { rewrite Hr. apply plain_len_word; [assumption | assumption | apply plain_len_stop; reflexivity]. }
    rewrite Hpl. cbn [bind].
    destruct (length w) as [|lw] eqn:Elw; [rewrite Ew in Elw; discriminate|]. rewrite <- Elw.
    rewrite (prefix_app s w _ Hr).
    assert (Hnocr : Forall nocr w) by (apply Forall_txtc_nocr, forallb_okc_txtc; assumption).
    rewrite (forward_after w s _ Hnocr Hr). cbn [bind].
    pose proof (rest_after _ _ _ Hr) as Hr1.
    unfold scan_plain_spaces. rewrite Hr1. cbn [count_while].
    replace (0 =? c_space) with false by reflexivity. cbn [bind forward].
    rewrite (peek0 _ _ _ Hr1). cbn [bind negb andb].
    replace (mem_N 0 in_scan_plain_spaces_0) with false by reflexivity.
    unfold prefix. cbn [firstn nonempty bind]. rewrite (peek0 _ _ _ Hr1). reflexivity.
  - rewrite (plain_word_sep false (S f) s chunks spaces w (PSp (S tsp)) 0 [] Hw);
      [| cbn; lia | reflexivity | exact Hr].
    replace (0 =? c_hash) with false by reflexivity. cbn [orb print_psep].
    assert (Hcol : (s_col (after s (w ++ sp (S tsp))) <? 1) = false).
    { rewrite col_after.
      - rewrite app_length, sp_length. lia.
      - apply Forall_app. split; [apply Forall_txtc_colc, forallb_okc_txtc; assumption | apply sp_colc]. }
    rewrite Hcol. cbn [plain_scalar_f].
    assert (Hr1 : s_rest (after s (w ++ sp (S tsp))) = [0]).
    { apply rest_after. rewrite Hr, <- app_assoc. reflexivity. }
    rewrite (peek0 _ _ _ Hr1). cbn [bind]. replace (0 =? c_hash) with false by reflexivity.
    rewrite Hr1. cbn [plain_len]. replace (mem_N 0 in_scan_plain_scalar_0) with true by reflexivity.
    cbn [bind]. reflexivity.
Qed.

Lemma tailspec_eof tsp f : tailspec false (S (S f)) (sp tsp ++ [0]) (sp tsp).
Proof. intros s chunks spaces w Hw Hr. apply plain_last_eof; assumption. Qed.

Lemma tailspec_comment2 tsp t f : tsp <> O -> tailspec false (S (S f)) (sp tsp ++ 35 :: t) (sp tsp).
Proof. intros H. apply tailspec_comment. exact H. Qed.
