(* Agreement: the main loop of _tokenize over the items of a printed block, _to_tokens and
   options_to_items.  The scanning of keys and values enters through [key_spec] / [value_spec],
   proved per scalar family in OptAgreePlain.v, OptAgreeFlow.v, OptAgreeBlock.v. *)
From Coq Require Import List NArith Bool Lia ZifyBool Arith.
From MV Require Import Base.PyStr.
From MV Require Import Base.Res.
From MV Require Import Gen.OptConsts.
From MV Require Import Opt.OptModel.
From MV Require Import Opt.YamlSpec.
From MV Require Import Opt.OptAgreeBase.
From MV Require Import Opt.OptAgreePlain.
Import ListNotations.
Open Scope N_scope.

(* ------------------------------------------------------------------ token lists and pairs *)

Inductive tok_shape : list token -> list (str * str) -> Prop :=
| ts_nil : tok_shape [] []
| ts_kv k st v toks ps : tok_shape toks ps ->
    tok_shape (TKey k :: TColon :: TValue st v :: toks) ((k, v) :: ps)
| ts_k k toks ps : tok_shape toks ps -> tok_shape (TKey k :: TColon :: toks) ((k, []) :: ps).

Lemma to_items_shape toks ps : tok_shape toks ps ->
  to_items toks None None = Ok ps /\ forall k, to_items toks None (Some k) = Ok ((k, []) :: ps).
Proof.
  induction 1 as [|k st v toks ps H [IH1 IH2]|k toks ps H [IH1 IH2]].
  - split; reflexivity.
  - split; [|intros k0]; cbn [to_items]; rewrite IH1; reflexivity.
  - split; [|intros k0]; cbn [to_items]; rewrite IH2; reflexivity.
Qed.

(* ------------------------------------------------------------------ one round of the loop, unfolded *)

Lemma tok_iter_end s s1 ch : scan_to_next_token s = Ok s1 -> peek s1 0 = Ok ch -> is_end ch = true ->
  tok_iter s = ([], Ok None).
Proof.
  intros H1 H2 H3. unfold tok_iter. rewrite H1. cbn [liftw bindw]. rewrite H2. cbn [liftw bindw].
  rewrite H3. reflexivity.
Qed.

Definition key_scan (s : stream) (ch : N) : res (stream * str) :=
  if mem_N ch in_tokenize_0 then scan_flow_scalar s ch else scan_plain_scalar s true.
Definition value_scan (s : stream) (ch : N) : res (stream * str) :=
  if mem_N ch in_tokenize_1 then scan_block_scalar s ch
  else if mem_N ch in_tokenize_2 then scan_flow_scalar s ch
  else scan_plain_scalar s false.

Lemma tok_iter_key_only s s1 ch s2 k s3 s4 s5 ch5 :
  scan_to_next_token s = Ok s1 -> peek s1 0 = Ok ch -> is_end ch = false -> s_col s1 = 0 ->
  key_scan s1 ch = Ok (s2, k) ->
  scan_to_next_token s2 = Ok s3 -> peek s3 0 = Ok 58 -> forward s3 1 = Ok s4 ->
  scan_to_next_token s4 = Ok s5 -> peek s5 0 = Ok ch5 -> s_col s5 = 0 ->
  tok_iter s = ([TKey k; TColon], Ok (Some s5)).
Proof.
  intros H1 H2 H3 H4 H5 H6 H7 H8 H9 H10 H11. unfold tok_iter, key_scan in *.
  rewrite H1. cbn [liftw bindw]. rewrite H2. cbn [liftw bindw]. rewrite H3, H4. cbn [negb N.eqb].
  rewrite H5. cbn [liftw bindw yield app]. rewrite H6. cbn [liftw bindw app]. rewrite H7. cbn [liftw bindw app].
  replace (58 =? c_colon) with true by reflexivity. cbn [negb]. rewrite H8. cbn [liftw bindw app].
  rewrite H9. cbn [liftw bindw app]. rewrite H10. cbn [liftw bindw app]. rewrite H11. cbn [N.eqb].
  reflexivity.
Qed.

Lemma tok_iter_key_value s s1 ch s2 k s3 s4 s5 ch5 s6 v :
  scan_to_next_token s = Ok s1 -> peek s1 0 = Ok ch -> is_end ch = false -> s_col s1 = 0 ->
  key_scan s1 ch = Ok (s2, k) ->
  scan_to_next_token s2 = Ok s3 -> peek s3 0 = Ok 58 -> forward s3 1 = Ok s4 ->
  scan_to_next_token s4 = Ok s5 -> peek s5 0 = Ok ch5 -> s_col s5 <> 0 ->
  value_scan s5 ch5 = Ok (s6, v) ->
  tok_iter s = ([TKey k; TColon; TValue (s_idx s5) v], Ok (Some s6)).
Proof.
  intros H1 H2 H3 H4 H5 H6 H7 H8 H9 H10 H11 H12. unfold tok_iter, key_scan, value_scan in *.
  rewrite H1. cbn [liftw bindw]. rewrite H2. cbn [liftw bindw]. rewrite H3, H4. cbn [negb N.eqb].
  rewrite H5. cbn [liftw bindw yield app]. rewrite H6. cbn [liftw bindw app]. rewrite H7. cbn [liftw bindw app].
  replace (58 =? c_colon) with true by reflexivity. cbn [negb]. rewrite H8. cbn [liftw bindw app].
  rewrite H9. cbn [liftw bindw app]. rewrite H10. cbn [liftw bindw app].
  apply N.eqb_neq in H11. rewrite H11. rewrite H12. cbn [liftw bindw app]. reflexivity.
Qed.

(* ------------------------------------------------------------------ what follows an item *)

(* first character of an item or of the end of the text *)
Definition key_start (c : N) : Prop :=
  c = 39 \/ c = 34 \/ (okc c = true /\ indicator c = false).
Definition item_start (c : N) : Prop := c = 35 \/ c = 0 \/ key_start c.

Lemma indicator_hash c : indicator c = false -> c <> 35.
Proof. unfold indicator, mem_N. cbn [existsb]. lia. Qed.

Lemma key_start_stopc c : key_start c -> stopc c.
Proof.
  intros [H|[H|[H1 H2]]]; unfold stopc, lbc; subst; try (repeat split; try discriminate; reflexivity).
  pose proof (indicator_hash _ H2). repeat split; charfact.
Qed.

Lemma nul_stopc : stopc 0. Proof. unfold stopc, lbc. repeat split; try discriminate; reflexivity. Qed.

Lemma item_start_line c : item_start c -> line_start c.
Proof.
  unfold line_start. intros [H|[H|[H|[H|[H1 H2]]]]]; subst; try reflexivity. charfact.
Qed.

Lemma key_start_not_end c : key_start c -> is_end c = false.
Proof. intros [H|[H|[H1 H2]]]; subst; try reflexivity. charfact. Qed.

Lemma print_ltails_app a b : print_ltails (a ++ b) = print_ltails a ++ print_ltails b.
Proof. unfold print_ltails. rewrite map_app, concat_app. reflexivity. Qed.

Lemma print_ltails_cons x xs : print_ltails (x :: xs) = print_ltail x ++ print_ltails xs.
Proof. reflexivity. Qed.

Definition blanks (ns : list nat) : list ltail := map (fun n => (n, None)) ns.

Lemma print_blanks ns : print_ltails (blanks ns) = bl ns.
Proof.
  induction ns as [|n ns IH]; [reflexivity|]. cbn [blanks map]. rewrite print_ltails_cons.
  fold (blanks ns). rewrite IH, bl_cons. unfold print_ltail. cbn [fst snd print_comment app].
  rewrite <- app_assoc. reflexivity.
Qed.

Lemma wf_blanks ns : forallb wf_ltail (blanks ns) = true.
Proof. induction ns as [|n ns IH]; [reflexivity|]. cbn [blanks map forallb]. exact IH. Qed.

Lemma print_ltails_ends_lf xs : xs <> [] -> exists a, print_ltails xs = a ++ [10].
Proof.
  intros H. destruct (exists_last H) as [ys [y ->]]. rewrite print_ltails_app.
  unfold print_ltails at 2. cbn [map concat]. unfold print_ltail. rewrite app_nil_r.
  eexists. rewrite !app_assoc. reflexivity.
Qed.

(* ------------------------------------------------------------------ specs of key and value scanning *)

(* scanning a key printed at column 0 and followed by spaces, ':' and a space or line feed:
   the key text is consumed together with [j] of the [ksp] spaces *)
Lemma or_assoc_l {A B C : Prop} : A \/ B -> A \/ B \/ C. Proof. tauto. Qed.

Definition key_spec (k : key) : Prop :=
  exists c r, print_key k = c :: r /\ key_start c /\
  forall s ksp x t, (x = 32 \/ x = 10 \/ x = 0) -> s_col s = 0 ->
    s_rest s = print_key k ++ sp ksp ++ 58 :: x :: t ->
    exists j, (j <= ksp)%nat /\
      key_scan s c = Ok (after s (print_key k ++ sp j), key_meaning k).

(* the text of a value after the spaces that follow ':', up to the end of the item *)
Definition value_text (v : value) (trail : list nat) : str :=
  match v with
  | VNone tsp cm => sp tsp ++ print_comment cm ++ [10] ++ bl trail
  | VFlow _ f tsp cm => print_flow f ++ sp tsp ++ print_comment cm ++ [10] ++ bl trail
  | VBlock _ folded h lead indent first more =>
      print_header folded h indent ++ bl lead ++ sp indent ++ first ++ [10] ++
      concat (map (fun '(ks, t) => bl ks ++ sp indent ++ t ++ [10]) more) ++ bl trail
  end.

(* values whose scanning reads on into the indentation of the following line *)
Definition eats_value (v : value) : bool :=
  match v with
  | VFlow _ (FPlain _ _) _ None => true
  | VBlock _ _ _ _ _ _ _ => true
  | _ => false
  end.

(* scanning a value that starts after column 0: some prefix of the item's remaining text is
   consumed, what is left are line tails (white space, comment, line feed) *)
Definition value_spec (v : value) (trail : list nat) : Prop :=
  exists c r, value_text v trail = c :: r /\ stopc c /\
  forall s c0 t0, s_col s <> 0 -> (eats_value v = true -> item_start c0) ->
    s_rest s = value_text v trail ++ c0 :: t0 ->
    exists consumed xs,
      value_text v trail = consumed ++ print_ltails xs /\ forallb wf_ltail xs = true /\
      (xs = [] -> s_col (after s consumed) = 0) /\
      value_scan s c = Ok (after s consumed, value_meaning v trail).

(* the same value directly followed by an indented comment line: the scan reads on over that
   line's indentation and stops in front of the '#' *)
Definition icomment_value_ok (v : value) (n : nat) : bool :=
  match v with VBlock _ _ _ _ indent _ _ => Nat.ltb n indent | _ => true end.

Definition value_spec_ic (v : value) (trail : list nat) : Prop :=
  forall m, eats_value v = true -> icomment_value_ok v (S m) = true ->
  forall c r, value_text v trail = c :: r ->
  forall s t0, s_col s <> 0 ->
    s_rest s = value_text v trail ++ sp (S m) ++ 35 :: t0 ->
    value_scan s c = Ok (after s (value_text v trail ++ sp (S m)), value_meaning v trail).

(* ------------------------------------------------------------------ items *)

Definition is_comment (it : item) : bool := match it with IComment _ _ _ => true | _ => false end.

Definition ltails_of_comment (it : item) : list ltail :=
  match it with IComment n t trail => (n, Some t) :: blanks trail | _ => [] end.

Lemma print_comment_item n t trail :
  print_item (IComment n t trail) = print_ltails (ltails_of_comment (IComment n t trail)).
Proof.
  cbn [print_item ltails_of_comment]. rewrite print_ltails_cons, print_blanks.
  unfold print_ltail. cbn [fst snd print_comment]. rewrite <- !app_assoc. reflexivity.
Qed.

Definition print_items (items : list item) : str := concat (map print_item items).

Fixpoint meaning_items (items : list item) : list (str * str) :=
  match items with
  | [] => []
  | IComment _ _ _ :: r => meaning_items r
  | IKV k _ v trail :: r => (key_meaning k, value_meaning v trail) :: meaning_items r
  end.

Lemma meaning_block_items b : meaning_block b = meaning_items (b_items b).
Proof.
  unfold meaning_block. induction (b_items b) as [|[n t tr|k ksp v tr] r IH]; cbn [flat_map meaning_items app]; congruence.
Qed.

(* an item that the proofs cover: its key and value satisfy the scanning specs *)
Definition item_ok (it : item) : Prop :=
  match it with
  | IComment _ _ _ => True
  | IKV k _ v trail => key_spec k /\ (match v with VNone _ _ => True | _ => value_spec v trail end)
  end.

Definition item_ic_ok (it : item) : Prop :=
  match it with
  | IComment _ _ _ => True
  | IKV _ _ v trail => value_spec_ic v trail
  end.

Definition starts_icomment (items : list item) : Prop :=
  match items with IComment (S _) _ _ :: _ => True | _ => False end.

(* what follows the items: the end of the text, or a last line without line break that starts
   with a key *)
Definition fin_ok (FIN : str) : Prop := exists c t, FIN = c :: t /\ (c = 0 \/ key_start c).

Lemma items_start FIN items : fin_ok FIN -> forallb wf_item items = true ->
  exists c t, print_items items ++ FIN = c :: t /\
              (item_start c \/ (c = 32 /\ starts_icomment items)).
Proof.
  intros (cf & tf & Ef & Hcf).
  destruct items as [|[n tx tr|k ksp v tr] r]; intros Hwf.
  - exists cf, tf. split; [exact Ef | left; destruct Hcf; [right; left | right; right]; assumption].
  - unfold print_items. cbn [map concat print_item]. destruct n as [|n].
    + cbn [sp repeat app]. eexists; eexists. split; [reflexivity | left; left; reflexivity].
    + rewrite sp_S. cbn [app]. eexists; eexists. split; [reflexivity | right; split; [reflexivity | exact I]].
  - cbn [forallb wf_item] in Hwf. apply andb_true_iff in Hwf as [Hk _]. apply andb_true_iff in Hk as [Hk _].
    apply andb_true_iff in Hk as [Hk _].
    unfold print_items. cbn [map concat print_item].
    destruct k as [l|tx|tx]; cbn [print_key wf_key] in *.
    + apply andb_true_iff in Hk as [Hk _]. unfold wf_pline_start in Hk. apply andb_true_iff in Hk as [Hp Hi].
      unfold wf_pline in Hp. apply andb_true_iff in Hp as [Hw _].
      destruct (wf_word_inv _ Hw) as (c & w' & Ew & Hc & _).
      unfold print_pline. rewrite Ew. cbn [app]. eexists; eexists. split; [reflexivity|].
      left. right; right; right; right. split; [assumption|].
      rewrite Ew in Hi. cbn [first_is] in Hi. apply negb_true_iff in Hi. exact Hi.
    + cbn [app]. eexists; eexists. split; [reflexivity | left; right; right; left; reflexivity].
    + cbn [app]. eexists; eexists. split; [reflexivity | left; right; right; right; left; reflexivity].
Qed.

Lemma wf_adj_tail it r : wf_adj (it :: r) = true -> wf_adj r = true.
Proof. cbn [wf_adj]. intros H. apply andb_true_iff in H. tauto. Qed.

Lemma wf_adj_icomment it n tx tr r :
  wf_adj (it :: IComment (S n) tx tr :: r) = true -> icomment_ok it (S n) = true.
Proof. cbn [wf_adj]. intros H. apply andb_true_iff in H as [H _]. exact H. Qed.

(* leading comment items are line tails *)
Fixpoint lead_comments (items : list item) : list ltail * list item :=
  match items with
  | IComment n t trail :: r =>
      let '(xs, r') := lead_comments r in (((n, Some t) :: blanks trail) ++ xs, r')
  | _ => ([], items)
  end.

Lemma lead_comments_spec items : forallb wf_item items = true ->
  let '(xs, r) := lead_comments items in
  print_items items = print_ltails xs ++ print_items r /\ forallb wf_ltail xs = true /\
  forallb wf_item r = true /\ meaning_items items = meaning_items r /\
  (length r <= length items)%nat /\
  match r with IComment _ _ _ :: _ => False | _ => True end.
Proof.
  induction items as [|[n tx tr|k ksp v tr] r IH]; intros Hwf.
  - cbn. repeat split; auto.
  - cbn [forallb] in Hwf. apply andb_true_iff in Hwf as [Hw1 Hw2]. specialize (IH Hw2).
    cbn [lead_comments]. destruct (lead_comments r) as [xs r'].
    destruct IH as (H1 & H2 & H3 & H4 & H5 & H6).
    split; [|split; [|split; [|split; [|split]]]]; auto.
    + unfold print_items in *. cbn [map concat]. rewrite H1, print_comment_item.
      cbn [ltails_of_comment]. rewrite print_ltails_app, <- app_assoc. reflexivity.
    + cbn [app forallb]. rewrite forallb_app, wf_blanks. cbn [andb]. apply andb_true_iff. split; [exact Hw1 | exact H2].
    + cbn [length]. lia.
  - cbn [lead_comments]. repeat split; auto.
Qed.

Lemma lead_comments_ok items : Forall item_ok items -> Forall item_ok (snd (lead_comments items)).
Proof.
  induction items as [|[n tx tr|k ksp v tr] items IH]; intros H; cbn [lead_comments].
  - exact H.
  - inversion H; subst. destruct (lead_comments items) as [a b]. cbn [snd] in *. auto.
  - exact H.
Qed.

Lemma lead_comments_ic items : Forall item_ic_ok items -> Forall item_ic_ok (snd (lead_comments items)).
Proof.
  induction items as [|[n tx tr|k ksp v tr] items IH]; intros H; cbn [lead_comments].
  - exact H.
  - inversion H; subst. destruct (lead_comments items) as [a b]. cbn [snd] in *. auto.
  - exact H.
Qed.

Lemma lead_comments_adj items : wf_adj items = true -> wf_adj (snd (lead_comments items)) = true.
Proof.
  induction items as [|[n tx tr|k ksp v tr] items IH]; intros H; cbn [lead_comments].
  - exact H.
  - apply wf_adj_tail in H. destruct (lead_comments items) as [a b]. cbn [snd] in *. auto.
  - exact H.
Qed.

(* ------------------------------------------------------------------ the loop over the items *)

Definition value_vsp (v : value) : nat :=
  match v with VNone _ _ => O | VFlow vsp _ _ _ => vsp | VBlock vsp _ _ _ _ _ _ => vsp end.

Lemma print_value_text v trail : print_value v ++ bl trail = sp (value_vsp v) ++ value_text v trail.
Proof.
  destruct v as [tsp cm|vsp f tsp cm|vsp folded h lead indent first more];
    cbn [print_value value_vsp value_text sp repeat app]; rewrite <- ?app_assoc; reflexivity.
Qed.

Lemma value_first v trail t : wf_value v = true ->
  exists x t', sp (value_vsp v) ++ value_text v trail ++ t = x :: t' /\ (x = 32 \/ x = 10).
Proof.
  destruct v as [tsp cm|vsp f tsp cm|vsp folded h lead indent first more]; cbn [wf_value value_vsp value_text]; intros H.
  - cbn [sp repeat app]. destruct tsp as [|tsp].
    + destruct cm as [tx|]; [cbn [comment_ok Nat.eqb negb andb] in H; discriminate|].
      cbn [sp repeat print_comment app]. eexists; eexists; split; [reflexivity | right; reflexivity].
    + rewrite sp_S. cbn [app]. eexists; eexists; split; [reflexivity | left; reflexivity].
  - apply andb_true_iff in H as [H _]. apply andb_true_iff in H as [H _].
    destruct vsp; [discriminate|]. rewrite sp_S. cbn [app]. eexists; eexists; split; [reflexivity | left; reflexivity].
  - repeat (apply andb_true_iff in H as [H _]).
    destruct vsp; [discriminate|]. rewrite sp_S. cbn [app]. eexists; eexists; split; [reflexivity | left; reflexivity].
Qed.

Definition tok_inv (FIN : str) (s : stream) (xs : list ltail) (items : list item) : Prop :=
  s_rest s = print_ltails xs ++ print_items items ++ FIN /\ forallb wf_ltail xs = true /\
  (xs = [] -> s_col s = 0).

(* what the loop does on the final part *)
Definition fin_spec (FIN : str) (PF : list (str * str)) (K : nat) : Prop :=
  forall fuel s xs, forallb wf_ltail xs = true -> (xs = [] -> s_col s = 0) ->
    s_rest s = print_ltails xs ++ FIN -> (K < fuel)%nat ->
    exists toks, tokenize_f fuel s = (toks, None) /\ tok_shape toks PF.

Lemma col_after_ltails s xs : (xs = [] -> s_col s = 0) -> s_col (after s (print_ltails xs)) = 0.
Proof.
  intros H. destruct xs as [|x xs]; [cbn; auto|].
  destruct (print_ltails_ends_lf (x :: xs)) as [a Ha]; [discriminate|]. rewrite Ha. apply col_after_lf.
Qed.

Lemma colon_nocr : nocr 58. Proof. charfact. Qed.

Lemma colon_stopc : stopc 58. Proof. unfold stopc, lbc. repeat split; try discriminate; reflexivity. Qed.

(* the round of the loop for an item that has a value (same script for flow and block values) *)
Ltac value_case :=
  match goal with
  | Hvs : value_spec ?v ?trail, Hrs4 : s_rest ?s4 = sp (value_vsp ?v) ++ _ ++ ?c0 :: ?t0,
    Hwv : wf_value ?v = true, Hc0 : _ -> item_start ?c0 |- _ =>
      let cv := fresh "cv" in let rv := fresh "rv" in let Ev := fresh "Ev" in
      let Hcv := fresh "Hcv" in let Hscan := fresh "Hscan" in
      destruct Hvs as (cv & rv & Ev & Hcv & Hscan);
      assert (Hvsp : value_vsp v <> O)
        by (cbn [value_vsp wf_value] in *; repeat (apply andb_true_iff in Hwv as [Hwv _]);
            match goal with |- ?n <> O => destruct n; [discriminate | discriminate] end);
      assert (Hrs4' : s_rest s4 = print_ltails [] ++ sp (value_vsp v) ++ cv :: (rv ++ c0 :: t0))
        by (rewrite Hrs4, Ev; reflexivity);
      pose proof (stnt_spec [] s4 (value_vsp v) cv _ eq_refl Hcv Hrs4') as H5;
      cbn [print_ltails map concat app] in H5;
      set (s5 := after s4 (sp (value_vsp v))) in *;
      assert (Hrs5 : s_rest s5 = value_text v trail ++ c0 :: t0)
        by (unfold s5; erewrite rest_after; [|exact Hrs4']; rewrite Ev; reflexivity);
      assert (Hc5 : s_col s5 <> 0)
        by (unfold s5; rewrite (col_after _ _ (sp_colc _)), sp_length; clear - Hvsp; lia);
      assert (Hp5 : peek s5 0 = Ok cv) by (eapply peek0; rewrite Hrs5, Ev; reflexivity);
      destruct (Hscan s5 c0 t0 Hc5 Hc0 Hrs5) as (consumed & xs' & Esplit & Hxs' & Hcol' & Hval)
  end;
  match goal with
  | H1 : scan_to_next_token ?s = Ok ?s1, Hp1 : peek ?s1 0 = Ok ?c, Hkc : key_start ?c, Hcs1 : s_col ?s1 = 0,
    Hkey : key_scan ?s1 ?c = Ok (?s2, ?km), H3 : scan_to_next_token ?s2 = Ok ?s3,
    Hp3 : peek ?s3 0 = Ok 58, Hf3 : forward ?s3 1 = Ok ?s4, H5 : scan_to_next_token ?s4 = Ok ?s5,
    Hp5 : peek ?s5 0 = Ok ?cv, Hc5 : s_col ?s5 <> 0, Hval : value_scan ?s5 ?cv = Ok (?s6, ?vm) |- _ =>
      rewrite (tok_iter_key_value s s1 c s2 km s3 s4 s5 cv s6 vm H1 Hp1
                 (key_start_not_end _ Hkc) Hcs1 Hkey H3 Hp3 Hf3 H5 Hp5 Hc5 Hval)
  end.

Ltac value_case_end IH r' f n HREST :=
  match goal with
  | Hrs5 : s_rest ?s5 = value_text ?v ?trail ++ ?c0 :: ?t0,
    Esplit : value_text ?v ?trail = ?consumed ++ print_ltails ?xs' |- _ =>
      let toks := fresh "toks" in let Ht := fresh "Ht" in let Hs := fresh "Hs" in
      destruct (IH r') with (fuel := f) (s := after s5 consumed) (xs := xs') as (toks & Ht & Hs);
      [ assumption
      | assumption
      | assumption
      | assumption
      | assumption
      | split; [|split; assumption];
        apply rest_after; rewrite Hrs5, Esplit, <- HREST, <- !app_assoc; reflexivity
      | assumption
      | rewrite Ht; eexists; split; [reflexivity|];
        cbn [meaning_items app]; apply ts_kv; exact Hs ]
  end.

Lemma fin_spec_nul : fin_spec [0] [] 0.
Proof.
  intros fuel s xs Hxs Hcol Hr Hf. destruct fuel as [|f]; [lia|]. cbn [tokenize_f].
  assert (Hr' : s_rest s = print_ltails xs ++ sp 0 ++ 0 :: []) by exact Hr.
  pose proof (stnt_spec xs s 0 0 [] Hxs nul_stopc Hr') as H1.
  rewrite (tok_iter_end s _ 0 H1); [| eapply peek_after; rewrite <- app_assoc; exact Hr' | reflexivity].
  exists []. split; [reflexivity | constructor].
Qed.

Lemma tokenize_f_spec FIN PF K : fin_ok FIN -> fin_spec FIN PF K ->
  forall n items, (length items <= n)%nat -> forall fuel s xs,
  forallb wf_item items = true -> wf_adj items = true -> Forall item_ok items -> Forall item_ic_ok items ->
  tok_inv FIN s xs items ->
  (length items + K < fuel)%nat ->
  exists toks, tokenize_f fuel s = (toks, None) /\ tok_shape toks (meaning_items items ++ PF).
Proof.
  intros HFIN HFS.
  induction n as [|n IH]; intros items Hn fuel s xs Hwf Hadj Hok Hic [Hr [Hxs Hcol]] Hf.
  - (* no item left *)
    destruct items; [|cbn [length] in Hn; lia].
    unfold print_items in Hr. cbn [map concat app] in Hr.
    apply (HFS fuel s xs Hxs Hcol Hr). cbn [length] in Hf. lia.
  - pose proof (lead_comments_spec items Hwf) as HL. pose proof (lead_comments_ok items Hok) as Hokr.
    pose proof (lead_comments_adj items Hadj) as Hadjr. pose proof (lead_comments_ic items Hic) as Hicr.
    assert (Hf0 : (K < fuel)%nat) by (clear - Hf; lia).
    destruct (lead_comments items) as [cx r]. cbn [snd] in Hokr, Hadjr, Hicr.
    destruct HL as (HL1 & HL2 & HL3 & HL4 & HL5 & HL6).
    assert (Hr1 : s_rest s = print_ltails (xs ++ cx) ++ print_items r ++ FIN).
    { rewrite Hr, HL1, print_ltails_app, <- !app_assoc. reflexivity. }
    assert (Hxs1 : forallb wf_ltail (xs ++ cx) = true) by (rewrite forallb_app, Hxs, HL2; reflexivity).
    assert (Hcol1 : xs ++ cx = [] -> s_col s = 0).
    { intros E. apply app_eq_nil in E as [E _]. auto. }
    rewrite HL4. clear Hr Hxs Hcol HL1. set (ys := xs ++ cx) in *. clearbody ys. clear xs cx HL2.
    destruct r as [|[n0 tx tr|k ksp v trail] r']; [| contradiction |].
    + (* only comments and blank lines are left *)
      unfold print_items in Hr1. cbn [map concat app] in Hr1.
      apply (HFS fuel s ys Hxs1 Hcol1 Hr1 Hf0).
    + (* a key/value item *)
      destruct fuel as [|f]; [clear - Hf; lia|]. cbn [tokenize_f].
      cbn [forallb wf_item] in HL3. apply andb_true_iff in HL3 as [Hkv Hwf'].
      apply andb_true_iff in Hkv as [Hkv Hwtr]. apply andb_true_iff in Hkv as [Hwk Hwv].
      inversion Hokr as [|? ? Hio Hok']; subst. cbn [item_ok] in Hio. destruct Hio as [Hks Hvs].
      inversion Hicr as [|? ? Hvic Hic']; subst. cbn [item_ic_ok] in Hvic.
      destruct Hks as (c & rk & Ek & Hkc & Hkscan).
      pose proof (wf_adj_tail _ _ Hadjr) as Hadj'.
      destruct (items_start FIN r' HFIN Hwf') as (c0 & t0 & HREST & Hc0').
      unfold print_items in Hr1. cbn [map concat print_item] in Hr1. fold (print_items r') in Hr1.
      destruct (value_first v trail (c0 :: t0) Hwv) as (x & tx & Ex & Hx).
      (* the text from the key on *)
      assert (Hr2 : s_rest s = print_ltails ys ++ sp 0 ++ c :: (rk ++ sp ksp ++ 58 :: x :: tx)).
      { rewrite Hr1. cbn [sp repeat app]. f_equal. rewrite <- Ex, <- HREST.
        rewrite <- !app_assoc. rewrite Ek. cbn [app]. f_equal. f_equal. f_equal.
        rewrite print_value_text, <- !app_assoc. reflexivity. }
      pose proof (stnt_spec ys s 0 c _ Hxs1 (key_start_stopc _ Hkc) Hr2) as H1.
      cbn [sp repeat] in H1. rewrite app_nil_r in H1.
      set (s1 := after s (print_ltails ys)) in *.
      assert (Hrs1 : s_rest s1 = print_key k ++ sp ksp ++ 58 :: x :: tx).
      { unfold s1. erewrite rest_after; [|exact Hr2]. rewrite Ek. reflexivity. }
      assert (Hcs1 : s_col s1 = 0) by (apply col_after_ltails; assumption).
      assert (Hp1 : peek s1 0 = Ok c) by (eapply peek0; rewrite Hrs1, Ek; reflexivity).
      destruct (Hkscan s1 ksp x tx (or_assoc_l Hx) Hcs1 Hrs1) as (j & Hj & Hkey).
      set (s2 := after s1 (print_key k ++ sp j)) in *.
      assert (Hrs2 : s_rest s2 = [] ++ sp (ksp - j) ++ 58 :: x :: tx).
      { unfold s2. apply rest_after. rewrite Hrs1, <- !app_assoc. f_equal. cbn [app].
        rewrite app_assoc. f_equal. unfold sp. rewrite <- repeat_app. f_equal. clear - Hj. lia. }
      pose proof (stnt_spec [] s2 (ksp - j) 58 _ eq_refl colon_stopc Hrs2) as H3.
      cbn [print_ltails map concat app] in H3.
      set (s3 := after s2 (sp (ksp - j))) in *.
      assert (Hrs3 : s_rest s3 = [58] ++ x :: tx) by (unfold s3; apply rest_after; exact Hrs2).
      assert (Hp3 : peek s3 0 = Ok 58) by (eapply peek0; exact Hrs3).
      assert (Hf3 : forward s3 1 = Ok (after s3 [58])).
      { apply (forward_after [58] s3 (x :: tx)); [constructor; [exact colon_nocr | constructor] | exact Hrs3]. }
      set (s4 := after s3 [58]) in *.
      assert (Hrs4 : s_rest s4 = sp (value_vsp v) ++ value_text v trail ++ c0 :: t0).
      { unfold s4. erewrite rest_after; [|exact Hrs3]. symmetry. exact Ex. }
      assert (Hn' : (length r' <= n)%nat) by (cbn [length] in Hn, HL5; clear - Hn HL5; lia).
      assert (Hf' : (length r' + K < f)%nat) by (cbn [length] in Hf, HL5; clear - Hf HL5; lia).
      assert (Hsplit : (eats_value v = true -> item_start c0) \/
                       (eats_value v = true /\ starts_icomment r')).
      { destruct Hc0' as [Hc0'|[_ Hsc]]; [left; intros _; exact Hc0'|].
        destruct (eats_value v); [right; split; [reflexivity | exact Hsc] | left; discriminate]. }
      destruct Hsplit as [Hc0|[Heat Hsc]].
      2:{ (* the value reads on into the indentation of a comment line that follows directly *)
        destruct r' as [|[[|m] ctx tr|k1 ksp1 v1 tr1] r'']; cbn [starts_icomment] in Hsc; try contradiction.
        pose proof (wf_adj_icomment _ _ _ _ _ Hadjr) as Hico.
        assert (Hvs' : value_spec v trail) by (destruct v; [discriminate Heat | exact Hvs | exact Hvs]).
        destruct Hvs' as (cv & rv & Ev & Hcv & _).
        assert (Hvsp : value_vsp v <> O).
        { destruct v as [tsp cm|vsp fl tsp cm|vsp folded h lead indent first more]; [discriminate Heat| |];
            cbn [value_vsp wf_value] in *; repeat (apply andb_true_iff in Hwv as [Hwv _]);
            (destruct vsp; [discriminate | discriminate]). }
        set (TXT := ctx ++ [10] ++ bl tr ++ print_items r'' ++ FIN).
        assert (HREST' : c0 :: t0 = sp (S m) ++ 35 :: TXT).
        { rewrite <- HREST. unfold print_items, TXT. cbn [map concat print_item]. rewrite <- !app_assoc.
          cbn [app]. rewrite <- !app_assoc. reflexivity. }
        assert (Hrs4' : s_rest s4 = print_ltails [] ++ sp (value_vsp v) ++ cv :: (rv ++ c0 :: t0))
          by (rewrite Hrs4, Ev; reflexivity).
        pose proof (stnt_spec [] s4 (value_vsp v) cv _ eq_refl Hcv Hrs4') as H5.
        cbn [print_ltails map concat app] in H5.
        set (s5 := after s4 (sp (value_vsp v))) in *.
        assert (Hrs5 : s_rest s5 = value_text v trail ++ sp (S m) ++ 35 :: TXT).
        { unfold s5. erewrite rest_after; [|exact Hrs4']. rewrite Ev, HREST'. reflexivity. }
        assert (Hc5 : s_col s5 <> 0)
          by (unfold s5; rewrite (col_after _ _ (sp_colc _)), sp_length; clear - Hvsp; lia).
        assert (Hp5 : peek s5 0 = Ok cv) by (eapply peek0; rewrite Hrs5, Ev; reflexivity).
        assert (Hicv : icomment_value_ok v (S m) = true).
        { clear - Hico. destruct v; exact Hico. }
        pose proof (Hvic m Heat Hicv cv rv Ev s5 TXT Hc5 Hrs5) as Hval.
        rewrite (tok_iter_key_value s s1 c s2 (key_meaning k) s3 s4 s5 cv _ _ H1 Hp1
                   (key_start_not_end _ Hkc) Hcs1 Hkey H3 Hp3 Hf3 H5 Hp5 Hc5 Hval).
        cbn [forallb wf_item] in Hwf'. apply andb_true_iff in Hwf' as [Hwtx Hwf''].
        inversion Hok' as [|? ? _ Hok'']; subst. inversion Hic' as [|? ? _ Hic'']; subst.
        destruct (IH r'') with (fuel := f) (s := after s5 (value_text v trail ++ sp (S m)))
                               (xs := (O, Some ctx) :: blanks tr) as (toks & Ht & Hs).
        - cbn [length] in Hn'. clear - Hn'. lia.
        - exact Hwf''.
        - exact (wf_adj_tail _ _ Hadj').
        - exact Hok''.
        - exact Hic''.
        - split; [|split].
          + apply rest_after. rewrite Hrs5. unfold TXT.
            rewrite print_ltails_cons, print_blanks. unfold print_ltail. cbn [fst snd sp repeat print_comment app].
            rewrite <- !app_assoc. reflexivity.
          + cbn [forallb]. rewrite wf_blanks, andb_true_r. exact Hwtx.
          + discriminate.
        - cbn [length] in Hf'. clear - Hf'. lia.
        - rewrite Ht. eexists. split; [reflexivity|].
          cbn [meaning_items app]. apply ts_kv. exact Hs. }
      destruct v as [tsp cm|vsp fl tsp cm|vsp folded h lead indent first more].
      * (* key only: everything up to the next key is skipped *)
        pose proof (lead_comments_spec r' Hwf') as HL'. pose proof (lead_comments_ok r' Hok') as Hok''.
        pose proof (lead_comments_adj r' Hadj') as Hadj''. pose proof (lead_comments_ic r' Hic') as Hic''.
        destruct (lead_comments r') as [cx' r'']. cbn [snd] in Hok'', Hadj'', Hic''.
        destruct HL' as (HM1 & HM2 & HM3 & HM4 & HM5 & HM6).
        destruct (items_start FIN r'' HFIN HM3) as (c1 & t1 & HREST1 & Hc1).
        assert (Hc1s : stopc c1).
        { destruct Hc1 as [[E|[E|E]]|[_ Hsc]]; [|subst; apply nul_stopc | apply key_start_stopc; assumption |].
          2:{ exfalso. destruct r'' as [|[[|n1] tx1 tr1|k1 ksp1 v1 trail1] r3]; cbn [starts_icomment] in Hsc; contradiction. }
          subst c1. destruct r'' as [|[n1 tx1 tr1|k1 ksp1 v1 trail1] r3]; [| contradiction |].
          { exfalso. destruct HFIN as (cf & tf & Ef & Hcf). unfold print_items in HREST1. cbn [map concat app] in HREST1.
            rewrite Ef in HREST1. inversion HREST1; subst.
            destruct Hcf as [Hcf|[Hcf|[Hcf|[_ Hcf]]]]; discriminate. }
          exfalso. clear - HREST1 HM3. cbn [forallb wf_item] in HM3.
          apply andb_true_iff in HM3 as [H _]. apply andb_true_iff in H as [H _]. apply andb_true_iff in H as [H _].
          unfold print_items in HREST1. cbn [map concat print_item] in HREST1.
          destruct k1 as [l|txx|txx]; cbn [print_key wf_key app] in *; try discriminate.
          apply andb_true_iff in H as [H _]. unfold wf_pline_start in H. apply andb_true_iff in H as [Hp Hi].
          unfold wf_pline in Hp. apply andb_true_iff in Hp as [Hw _].
          destruct (wf_word_inv _ Hw) as (c & w' & Ew & Hc & Hc35 & _).
          unfold print_pline in HREST1. rewrite Ew in HREST1. cbn [app] in HREST1. inversion HREST1. congruence. }
        set (L := ((tsp, cm) :: blanks trail) ++ cx').
        assert (Hrs4' : s_rest s4 = print_ltails L ++ sp 0 ++ c1 :: t1).
        { rewrite Hrs4. cbn [value_vsp value_text sp repeat app]. unfold L.
          rewrite print_ltails_app, print_ltails_cons, print_blanks. unfold print_ltail. cbn [fst snd].
          rewrite <- HREST1, <- !app_assoc.
          replace (c0 :: t0) with (print_items r' ++ FIN) by exact HREST.
          rewrite HM1, <- !app_assoc. reflexivity. }
        assert (HL : forallb wf_ltail L = true).
        { unfold L. cbn [app forallb]. apply andb_true_iff. split.
          - unfold wf_ltail. cbn [snd]. cbn [wf_value] in Hwv. destruct cm as [tc|]; [|reflexivity].
            cbn [comment_ok] in Hwv. apply andb_true_iff in Hwv as [_ Hwv]. exact Hwv.
          - rewrite forallb_app, wf_blanks. exact HM2. }
        pose proof (stnt_spec L s4 0 c1 t1 HL Hc1s Hrs4') as H5. cbn [sp repeat] in H5. rewrite app_nil_r in H5.
        set (s5 := after s4 (print_ltails L)) in *.
        assert (Hc5 : s_col s5 = 0) by (apply col_after_ltails; intros E; discriminate).
        assert (Hrs5 : s_rest s5 = c1 :: t1) by (unfold s5; erewrite rest_after; [|exact Hrs4']; reflexivity).
        rewrite (tok_iter_key_only s s1 c s2 (key_meaning k) s3 s4 s5 c1 H1 Hp1
                   (key_start_not_end _ Hkc) Hcs1 Hkey H3 Hp3 Hf3 H5 (peek0 _ _ _ Hrs5) Hc5).
        destruct (IH r'') with (fuel := f) (s := s5) (xs := @nil ltail) as (toks & Ht & Hs); auto.
        { clear - Hn' HM5. lia. }
        { split; [|split; auto]. cbn [print_ltails map concat app]. rewrite Hrs5. symmetry. exact HREST1. }
        { clear - Hf' HM5. lia. }
        rewrite Ht. eexists. split; [reflexivity|].
        cbn [meaning_items app value_meaning]. rewrite HM4. apply ts_k. exact Hs.
      * (* a flow value *) value_case. value_case_end IH r' f n HREST.
      * (* a block value *) value_case. value_case_end IH r' f n HREST.
Qed.
