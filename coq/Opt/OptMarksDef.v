(* Definitions only (proofs in OptMarks.v).  Line / column bookkeeping of StreamBuffer and the marks carried by TokenizeError.
   Spec: the line of index p is the number of recognised line breaks before p (LF, NEL, LS, PS,
   and a CR that is not followed by LF), the column is the number of characters other than the
   byte order mark between the last such break and p.  Theorem: StreamBuffer.forward keeps
   exactly this bookkeeping, so get_position() at index p is (p, line_of p, col_of p).
   TokenizeError.clone adds the offsets to line and column and keeps the index. *)
From Coq Require Import List NArith Bool Lia ZifyBool Arith.
From MV Require Import Base.PyStr.
From MV Require Import Base.Res.
From MV Require Import Gen.OptConsts.
From MV Require Import Opt.OptModel.
Import ListNotations.
Open Scope N_scope.

(* ---------- specification on the buffer B = text ++ sentinel ---------- *)

Definition LINE_BREAKS : list N := [10; 133; 8232; 8233].

(* is the character at position i a line break for the bookkeeping *)
Definition brk (B : str) (i : nat) : bool :=
  match nth_error B i with
  | Some ch =>
      mem_N ch LINE_BREAKS ||
      ((ch =? 13) && match nth_error B (S i) with Some n => negb (n =? 10) | None => true end)
  | None => false
  end.

Definition counts (B : str) (i : nat) : bool :=     (* contributes to the column *)
  match nth_error B i with Some ch => negb (ch =? 65279) | None => false end.

Definition line_of (B : str) (p : nat) : N := N.of_nat (length (filter (brk B) (seq 0 p))).

(* start of the line that contains position p *)
Fixpoint line_start (B : str) (p : nat) : nat :=
  match p with
  | O => O
  | S p' => if brk B p' then S p' else line_start B p'
  end.

Definition col_of (B : str) (p : nat) : N :=
  let st := line_start B p in N.of_nat (length (filter (counts B) (seq st (p - st)))).

(* what a TokenizeError raised at index p reports when options_to_items is called with offsets:
   _to_tokens re-raises exc.clone(line_offset, column_offset) (no change when both are 0) *)
Definition error_mark (text : str) (line_offset column_offset : N) (p : nat) : N * N * N :=
  let B := text ++ CHARS_END in
  (N.of_nat p, line_of B p + line_offset, col_of B p + column_offset).

