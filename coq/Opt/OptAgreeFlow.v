(* Agreement, quoted scalars (generic part): _scan_flow_scalar with its two alternating loops
   (_scan_flow_scalar_non_spaces / _scan_flow_scalar_spaces + _scan_flow_scalar_breaks) on a
   quoted scalar seen as a list of elements: ordinary characters, white space characters,
   special items consumed by the if-elif chain (a doubled quote, a foreign quote, an escape) and line
   breaks with the surrounding white space.  Instances for single and double quotes are in OptAgreeQuoted.v. *)
From Coq Require Import List NArith Bool Lia ZifyBool Arith.
From MV Require Import Base.PyStr.
From MV Require Import Base.Res.
From MV Require Import Gen.OptConsts.
From MV Require Import Opt.OptModel.
From MV Require Import Opt.YamlSpec.
From MV Require Import Opt.OptAgreeBase.
From MV Require Import Opt.OptAgreePlain.
Import ListNotations.
Open Scope N_scope.

(* ------------------------------------------------------------------ elements *)

Inductive qkind := QOrd | QWs | QSpecial.
(* q_ns: the item must be followed by a character that is neither white space nor a break
   (escaped line break: it swallows the following white space) *)
Record qitem := QI { q_print : str; q_mean : str; q_kind : qkind; q_ns : bool }.
Inductive qel := QItem (it : qitem) | QBrk (tws : str) (k : list str) (ind : str).

Definition print_el (e : qel) : str :=
  match e with QItem it => q_print it | QBrk tws k ind => tws ++ [10] ++ blw k ++ ind end.
Definition mean_el (e : qel) : str :=
  match e with QItem it => q_mean it | QBrk _ k _ => fold_sep (length k) end.
Definition print_els (E : list qel) : str := flat_map print_el E.
Definition mean_els (E : list qel) : str := flat_map mean_el E.

(* ordinary character: not in the stop set of the non-space run *)
Definition ordc (c : N) : Prop := mem_N c in_scan_flow_scalar_non_spaces_0 = false /\ c <> c_cr.
Definition wsq (c : N) : Prop := c = 32 \/ c = 9.
(* a character at which neither the white space run nor the break scan continues *)
Definition solid (c : N) : Prop :=
  mem_N c in_scan_flow_scalar_spaces_0 = false /\ mem_N c in_scan_flow_scalar_spaces_1 = false /\
  mem_N c in_scan_flow_scalar_breaks_0 = false /\ mem_N c in_scan_flow_scalar_breaks_1 = false /\
  is_end c = false.

Lemma ordc_solid c : ordc c -> solid c.
Proof. intros [H _]. unfold solid. repeat split; charfact. Qed.
Lemma wsq_nocr c : wsq c -> nocr c. Proof. intros [H|H]; subst; charfact. Qed.
Lemma wsq_set0 c : wsq c -> mem_N c in_scan_flow_scalar_non_spaces_0 = true.
Proof. intros [H|H]; subst; reflexivity. Qed.

Definition item_ok (double : bool) (it : qitem) : Prop :=
  match q_kind it with
  | QOrd => exists c, q_print it = [c] /\ q_mean it = [c] /\ ordc c
  | QWs => exists c, q_print it = [c] /\ q_mean it = [c] /\ wsq c
  | QSpecial =>
      exists c r, q_print it = c :: r /\ mem_N c in_scan_flow_scalar_non_spaces_0 = true /\ solid c /\
        Forall nocr (q_print it) /\
        forall s rest', s_rest s = q_print it ++ rest' ->
          (q_ns it = true -> exists c t, rest' = c :: t /\ solid c) ->
          exists cs, flow_ns_branch s double = Ok (Some (after s (q_print it), cs)) /\
                     concat cs = q_mean it
  end.

(* the next element, if any, is an item that is not white space *)
Definition next_solid (E : list qel) : Prop :=
  match E with
  | [] => True
  | QItem it :: _ => q_kind it <> QWs
  | QBrk _ _ _ :: _ => False
  end.

Fixpoint els_wf (double : bool) (E : list qel) : Prop :=
  match E with
  | [] => True
  | QItem it :: E' =>
      item_ok double it /\
      (q_kind it = QWs -> match E' with QBrk _ _ _ :: _ => False | _ => True end) /\
      (q_ns it = true -> next_solid E') /\
      els_wf double E'
  | QBrk tws k ind :: E' =>
      Forall wsq tws /\ Forall wsq ind /\ Forall (Forall wsq) k /\
      (match E' with
       | QBrk _ _ _ :: _ => False
       | QItem it :: _ => q_kind it <> QWs
       | [] => True
       end) /\
      els_wf double E'
  end.

(* ------------------------------------------------------------------ the closing quote *)

Definition quote_ok (double : bool) (quote : N) : Prop :=
  (double = true /\ quote = c_dquote) \/ (double = false /\ quote = c_squote).

(* [quote :: x :: _] ends the scalar: for ' the next character must not be another ' *)
Definition closes (double : bool) (x : N) : Prop := double = false -> x <> c_squote.

Lemma quote_solid double quote : quote_ok double quote -> solid quote.
Proof. intros [[_ H]|[_ H]]; subst; unfold solid; repeat split; reflexivity. Qed.

Lemma quote_set0 double quote : quote_ok double quote ->
  mem_N quote in_scan_flow_scalar_non_spaces_0 = true.
Proof. intros [[_ H]|[_ H]]; subst; reflexivity. Qed.

(* the if/elif chain returns at the closing quote, at white space and at a line feed *)
Lemma branch_stop_quote double quote s x t : quote_ok double quote -> closes double x ->
  s_rest s = quote :: x :: t -> flow_ns_branch s double = Ok None.
Proof.
  intros Hq Hx Hr. unfold flow_ns_branch. rewrite (peek0 _ _ _ Hr). cbn [bind].
  destruct Hq as [[Hd Hqq]|[Hd Hqq]]; subst double quote; cbn [negb andb orb].
  - reflexivity.
  - replace (c_squote =? c_squote) with true by reflexivity.
    assert (Hp1 : peek s 1 = Ok x) by (unfold peek; rewrite Hr; reflexivity).
    rewrite Hp1. cbn [bind]. specialize (Hx eq_refl). apply N.eqb_neq in Hx. rewrite Hx. reflexivity.
Qed.

Lemma branch_stop_ws double s c t : (wsq c \/ c = 10) -> s_rest s = c :: t ->
  flow_ns_branch s double = Ok None.
Proof.
  intros Hc Hr. unfold flow_ns_branch. rewrite (peek0 _ _ _ Hr). cbn [bind].
  assert (H1 : (c =? c_squote) = false) by (destruct Hc as [[H|H]|H]; subst; reflexivity).
  assert (H2 : mem_N c in_scan_flow_scalar_non_spaces_1 = false) by (destruct Hc as [[H|H]|H]; subst; reflexivity).
  assert (H3 : (c =? c_bslash) = false) by (destruct Hc as [[H|H]|H]; subst; reflexivity).
  rewrite H1, H2, H3. rewrite !andb_false_r. cbn [bind orb]. reflexivity.
Qed.

(* a character at which the non-space run and the if/elif chain both stop *)
Definition word_stop (double : bool) (quote : N) (l : str) : Prop :=
  match l with
  | c :: t => (wsq c \/ c = 10) \/ (c = quote /\ quote_ok double quote /\ exists x t', t = x :: t' /\ closes double x)
  | [] => False
  end.

Lemma word_stop_branch double quote s l : word_stop double quote l -> s_rest s = l ->
  flow_ns_branch s double = Ok None.
Proof.
  destruct l as [|c t]; [contradiction|]. intros [H|(Hc & Hq & x & t' & Et & Hx)] Hr.
  - eapply branch_stop_ws; eassumption.
  - subst. eapply branch_stop_quote; eassumption.
Qed.

Lemma word_stop_set0 double quote c t : word_stop double quote (c :: t) ->
  mem_N c in_scan_flow_scalar_non_spaces_0 = true.
Proof.
  intros [[H|H]|(Hc & Hq & _)].
  - apply wsq_set0. exact H.
  - subst. reflexivity.
  - subst. eapply quote_set0. exact Hq.
Qed.

(* ------------------------------------------------------------------ the non-space loop *)

Definition chunk_of (run : str) : list str := match run with [] => [] | _ => [run] end.
Lemma concat_chunk_of run : concat (chunk_of run) = run.
Proof. destruct run; [reflexivity|]. cbn [chunk_of concat]. apply app_nil_r. Qed.

Lemma Forall_ordc_nocr run : Forall ordc run -> Forall nocr run.
Proof. intros H. eapply Forall_impl; [|exact H]. intros c [_ Hc]. exact Hc. Qed.

Lemma ns_count s run c t : Forall ordc run -> mem_N c in_scan_flow_scalar_non_spaces_0 = true ->
  s_rest s = run ++ c :: t ->
  count_while (fun ch => negb (mem_N ch in_scan_flow_scalar_non_spaces_0)) (s_rest s) = Ok (length run).
Proof.
  intros HF Hc Hr. apply (count_while_rest _ s run c t Hr).
  - eapply Forall_impl; [|exact HF]. intros x [Hx _]. cbn beta. rewrite Hx. reflexivity.
  - cbn beta. rewrite Hc. reflexivity.
Qed.

Lemma chunks1_eq (chunks : list str) s run t : s_rest s = run ++ t ->
  match length run with O => chunks | _ => chunks ++ [prefix s (length run)] end = chunks ++ chunk_of run.
Proof.
  intros Hr. rewrite (prefix_app s run t Hr). destruct run; cbn [length chunk_of]; [rewrite app_nil_r|]; reflexivity.
Qed.

(* the word ends: the loop returns *)
Lemma ns_end double quote fns s run l nsch : Forall ordc run -> word_stop double quote l ->
  s_rest s = run ++ l ->
  flow_non_spaces_f (S fns) s double nsch = Ok (after s run, nsch ++ chunk_of run).
Proof.
  intros HF Hl Hr. destruct l as [|c t]; [contradiction|].
  cbn [flow_non_spaces_f].
  rewrite (ns_count s run c t HF (word_stop_set0 _ _ _ _ Hl) Hr). cbn [bind].
  rewrite (chunks1_eq nsch s run _ Hr).
  rewrite (forward_after run s _ (Forall_ordc_nocr _ HF) Hr). cbn [bind].
  rewrite (word_stop_branch double quote (after s run) (c :: t) Hl (rest_after _ _ _ Hr)). reflexivity.
Qed.

(* a special item: one more round *)
Lemma ns_special double fns s run it rest' nsch : Forall ordc run ->
  q_kind it = QSpecial -> item_ok double it ->
  (q_ns it = true -> exists c t, rest' = c :: t /\ solid c) ->
  s_rest s = run ++ q_print it ++ rest' ->
  exists cs, concat cs = q_mean it /\
  flow_non_spaces_f (S fns) s double nsch =
  flow_non_spaces_f fns (after s (run ++ q_print it)) double (nsch ++ chunk_of run ++ cs).
Proof.
  intros HF Hk Hit Hsol Hr. unfold item_ok in Hit. rewrite Hk in Hit.
  destruct Hit as (c & r & Ep & Hc0 & _ & _ & Hbr).
  destruct (Hbr (after s run) rest' (rest_after _ _ _ Hr) Hsol) as (cs & Hb & Hcs).
  exists cs. split; [exact Hcs|].
  cbn [flow_non_spaces_f].
  assert (Hr' : s_rest s = run ++ c :: (r ++ rest')) by (rewrite Hr, Ep; reflexivity).
  rewrite (ns_count s run c _ HF Hc0 Hr'). cbn [bind].
  rewrite (chunks1_eq nsch s run _ Hr).
  rewrite (forward_after run s _ (Forall_ordc_nocr _ HF) Hr). cbn [bind].
  rewrite Hb. cbn [bind].
  rewrite <- after_app, <- app_assoc. reflexivity.
Qed.

(* ------------------------------------------------------------------ white space and breaks *)

Definition fold_chunks (k : nat) : list str := match k with O => [[32]] | _ => repeat [10] k end.
Lemma concat_fold_chunks k : concat (fold_chunks k) = fold_sep k.
Proof. destruct k; [reflexivity|]. cbn [fold_chunks fold_sep]. apply concat_repeat_lf. Qed.

Lemma wsq_fs0 c : wsq c -> mem_N c in_scan_flow_scalar_spaces_0 = true.
Proof. intros [H|H]; subst; reflexivity. Qed.
Lemma wsq_fb0 c : wsq c -> mem_N c in_scan_flow_scalar_breaks_0 = true.
Proof. intros [H|H]; subst; reflexivity. Qed.

Lemma Forall_wsq_nocr l : Forall wsq l -> Forall nocr l.
Proof. intros H. eapply Forall_impl; [|exact H]. apply wsq_nocr. Qed.

(* white space inside a line *)
Lemma spaces_inline s wsrun x t : Forall wsq wsrun -> solid x ->
  s_rest s = wsrun ++ x :: t ->
  scan_flow_scalar_spaces s = Ok (after s wsrun, [wsrun]).
Proof.
  intros HF (H1 & H2 & _ & _ & H5) Hr. unfold scan_flow_scalar_spaces.
  rewrite (count_while_rest _ s wsrun x t Hr); [| | exact H1].
  2:{ eapply Forall_impl; [|exact HF]. intros c Hc. apply wsq_fs0. exact Hc. }
  cbn [bind]. rewrite (prefix_app s wsrun _ Hr).
  rewrite (forward_after wsrun s _ (Forall_wsq_nocr _ HF) Hr). cbn [bind].
  rewrite (peek_after _ _ _ _ Hr). cbn [bind]. rewrite H5, H2. reflexivity.
Qed.

Lemma blw_cons w ws : blw (w :: ws) = w ++ [10] ++ blw ws.
Proof. unfold blw. cbn [map concat]. rewrite <- app_assoc. reflexivity. Qed.

Lemma blw_length ws : (length ws <= length (blw ws))%nat.
Proof. induction ws as [|w ws IH]; [cbn; lia|]. rewrite blw_cons, !app_length. cbn [length]. lia. Qed.

Lemma flow_breaks_spec : forall (k : list str) fuel s chunks ind x t, Forall (Forall wsq) k -> Forall wsq ind -> solid x ->
  s_rest s = blw k ++ ind ++ x :: t -> (length k < fuel)%nat ->
  flow_scalar_breaks_f fuel s chunks = Ok (after s (blw k ++ ind), chunks ++ repeat [10] (length k)).
Proof.
  induction k as [|w k IH]; intros fuel s chunks ind x t Hk Hind Hx Hr Hf; (destruct fuel as [|f]; [cbn [length] in Hf; lia|]);
    cbn [flow_scalar_breaks_f].
  - cbn [blw map concat app length repeat] in *. destruct Hx as (_ & _ & H3 & H4 & _).
    rewrite (skip_while_spec (fun ch => mem_N ch in_scan_flow_scalar_breaks_0) ind s x t); [| | apply Forall_wsq_nocr; exact Hind | exact H3 | exact Hr].
    2:{ eapply Forall_impl; [|exact Hind]. intros c Hc. apply wsq_fb0. exact Hc. }
    cbn [bind]. rewrite (peek_after _ _ _ _ Hr). cbn [bind]. rewrite H4. rewrite app_nil_r. reflexivity.
  - inversion Hk as [|? ? Hw Hk']; subst. rewrite blw_cons in Hr.
    assert (Hr0 : s_rest s = w ++ 10 :: (blw k ++ ind ++ x :: t)) by (rewrite Hr, <- ?app_assoc; reflexivity).
    rewrite (skip_while_spec (fun ch => mem_N ch in_scan_flow_scalar_breaks_0) w s 10 (blw k ++ ind ++ x :: t)); [| | apply Forall_wsq_nocr; exact Hw | reflexivity | exact Hr0].
    2:{ eapply Forall_impl; [|exact Hw]. intros c Hc. apply wsq_fb0. exact Hc. }
    cbn [bind]. pose proof (rest_after _ _ _ Hr0) as Hr1. rewrite (peek0 _ _ _ Hr1). cbn [bind].
    replace (mem_N 10 in_scan_flow_scalar_breaks_1) with true by reflexivity.
    rewrite (scan_line_break_lf _ _ Hr1). cbn [bind].
    rewrite (IH f _ (chunks ++ [[10]]) ind x t Hk' Hind Hx); [| apply (rest_after [10]); exact Hr1 | cbn [length] in Hf; lia].
    rewrite blw_cons. cbn [length repeat]. rewrite <- !after_app, <- ?app_assoc. reflexivity.
Qed.

(* a line break with the white space around it *)
Lemma spaces_break s tws (k : list str) ind x t : Forall wsq tws -> Forall wsq ind -> Forall (Forall wsq) k -> solid x ->
  s_rest s = (tws ++ [10] ++ blw k ++ ind) ++ x :: t ->
  scan_flow_scalar_spaces s = Ok (after s (tws ++ [10] ++ blw k ++ ind), fold_chunks (length k)).
Proof.
  intros Htws Hind Hk Hx Hr. unfold scan_flow_scalar_spaces.
  assert (Hr0 : s_rest s = tws ++ 10 :: (blw k ++ ind ++ x :: t)) by (rewrite Hr, <- ?app_assoc; reflexivity).
  rewrite (count_while_rest _ s tws 10 _ Hr0); [| | reflexivity].
  2:{ eapply Forall_impl; [|exact Htws]. intros c Hc. apply wsq_fs0. exact Hc. }
  cbn [bind]. rewrite (forward_after tws s _ (Forall_wsq_nocr _ Htws) Hr0). cbn [bind].
  rewrite (peek_after _ _ _ _ Hr0). cbn [bind].
  replace (is_end 10) with false by reflexivity.
  replace (mem_N 10 in_scan_flow_scalar_spaces_1) with true by reflexivity.
  pose proof (rest_after _ _ _ Hr0) as Hr1.
  rewrite (scan_line_break_lf _ _ Hr1). cbn [bind].
  pose proof (rest_after [10] _ _ Hr1) as Hr2.
  unfold scan_flow_scalar_breaks.
  rewrite (flow_breaks_spec k _ _ [] ind x t Hk Hind Hx Hr2).
  2:{ unfold fuel_of. rewrite Hr2, app_length. pose proof (blw_length k) as Hbl. clear - Hbl. unfold str in *. lia. }
  cbn [bind app]. replace (is_lf [10]) with true by reflexivity. cbn [negb].
  rewrite <- !after_app. f_equal. f_equal. destruct k; reflexivity.
Qed.

(* ------------------------------------------------------------------ the two modes *)

(* non-space scan followed by the outer loop, as in the body of the `while` of _scan_flow_scalar *)
Definition ns_loop (fns f : nat) (s : stream) (double : bool) (quote : N)
           (nsch chunks c1 : list str) : res (stream * list str) :=
  do r2 <- flow_non_spaces_f fns s double nsch;
  let '(s2, c2) := r2 in flow_scalar_f f s2 double quote (chunks ++ c1 ++ c2).

(* outer-loop fuel needed in non-space mode / at the loop head *)
Fixpoint req (E : list qel) : nat * nat :=
  match E with
  | [] => (1, 2)%nat
  | e :: E' =>
      let '(n, p) := req E' in
      match e with
      | QItem it => match q_kind it with QWs => (p, p) | _ => (n, S n) end
      | QBrk _ _ _ => (S n, S n)
      end
  end.

Lemma req_bound E : (fst (req E) <= length E + 2 /\ snd (req E) <= length E + 2)%nat.
Proof.
  induction E as [|e E [IH1 IH2]]; cbn [req length fst snd]; [lia|].
  destruct (req E) as [n p]. cbn [fst snd] in *.
  destruct e as [it|tws k ind]; [destruct (q_kind it)|]; cbn [fst snd]; lia.
Qed.

Definition sp_pre (wsrun : str) (E : list qel) : Prop :=
  match E with
  | [] => True
  | QItem it :: _ => q_kind it = QWs \/ wsrun <> []
  | QBrk _ _ _ :: _ => wsrun = []
  end.

Lemma els_head_solid double quote E x t : quote_ok double quote -> els_wf double E ->
  next_solid E ->
  exists c r, print_els E ++ quote :: x :: t = c :: r /\ solid c.
Proof.
  intros Hq Hwf Hn. destruct E as [|[it|tws k ind] E']; cbn [next_solid] in Hn.
  - cbn [print_els flat_map app]. eexists; eexists; split; [reflexivity | eapply quote_solid; exact Hq].
  - cbn [els_wf] in Hwf. destruct Hwf as (Hit & _ & _). unfold item_ok in Hit.
    cbn [print_els flat_map print_el].
    destruct (q_kind it) eqn:Ek; [| congruence |].
    + destruct Hit as (c & Ep & _ & Hc). rewrite Ep. cbn [app]. eexists; eexists; split; [reflexivity | apply ordc_solid; exact Hc].
    + destruct Hit as (c & r & Ep & _ & Hc & _). rewrite Ep. cbn [app]. eexists; eexists; split; [reflexivity | exact Hc].
  - contradiction.
Qed.

Lemma print_els_length double E : els_wf double E -> (length E <= length (print_els E))%nat.
Proof.
  induction E as [|e E IH]; intros Hwf; cbn [print_els flat_map length]; [lia|].
  rewrite app_length. fold (print_els E).
  assert (H1 : (1 <= length (print_el e))%nat).
  { destruct e as [it|tws k ind]; cbn [els_wf print_el] in *.
    - destruct Hwf as (Hit & _). unfold item_ok in Hit. destruct (q_kind it).
      + destruct Hit as (c & -> & _). cbn; lia.
      + destruct Hit as (c & -> & _). cbn; lia.
      + destruct Hit as (c & r & -> & _). cbn; lia.
    - rewrite !app_length. cbn [length]. lia. }
  assert (els_wf double E) by (destruct e; cbn [els_wf] in Hwf; tauto).
  specialize (IH H). lia.
Qed.

Section Machine.
  Variable double : bool.
  Variable quote : N.
  Variable x : N.
  Variable tl : str.
  Hypothesis Hq : quote_ok double quote.
  Hypothesis Hx : closes double x.

  Definition ENDT : str := quote :: x :: tl.

  Lemma end_stop : word_stop double quote ENDT.
  Proof. right. split; [reflexivity|]. split; [exact Hq|]. eauto. Qed.

  Lemma peek_not_quote c : wsq c \/ c = 10 -> (c =? quote) = false.
  Proof. intros H. destruct Hq as [[_ E]|[_ E]]; subst quote; destruct H as [[H|H]|H]; subst; reflexivity. Qed.

  Definition PNS (E : list qel) : Prop :=
    forall run s nsch chunks c1 fns f,
      Forall ordc run -> s_rest s = run ++ print_els E ++ ENDT ->
      (length E < fns)%nat -> (fst (req E) <= f)%nat ->
      exists CH, ns_loop fns f s double quote nsch chunks c1 = Ok (after s (run ++ print_els E), CH) /\
                 concat CH = concat chunks ++ concat c1 ++ concat nsch ++ run ++ mean_els E.

  Definition PSP (E : list qel) : Prop :=
    forall wsrun s chunks f,
      Forall wsq wsrun -> s_rest s = wsrun ++ print_els E ++ ENDT ->
      (snd (req E) <= f)%nat -> sp_pre wsrun E ->
      exists CH, flow_scalar_f f s double quote chunks = Ok (after s (wsrun ++ print_els E), CH) /\
                 concat CH = concat chunks ++ wsrun ++ mean_els E.

  Ltac ccat2 := repeat rewrite concat_app; cbn [concat app]; repeat rewrite concat_chunk_of;
                repeat rewrite app_nil_r; repeat rewrite <- app_assoc; cbn [app]; try reflexivity.

  Lemma machine_nil : PNS [] /\ PSP [].
  Proof.
    split.
    - intros run s nsch chunks c1 fns f HF Hr Hfns Hf. cbn [print_els flat_map app req fst] in *.
      destruct fns as [|fns]; [lia|]. destruct f as [|f]; [lia|].
      unfold ns_loop. rewrite (ns_end double quote fns s run ENDT nsch HF end_stop Hr). cbn [bind].
      cbn [flow_scalar_f]. rewrite (peek_after _ _ _ _ Hr). cbn [bind]. rewrite N.eqb_refl. cbn [negb].
      eexists. split; [rewrite app_nil_r; reflexivity|]. cbn [mean_els flat_map]. ccat2.
    - intros wsrun s chunks f HF Hr Hf _. cbn [print_els flat_map app req snd mean_els] in *.
      destruct f as [|[|f]]; try lia. destruct wsrun as [|w ws].
      + cbn [app] in Hr. cbn [flow_scalar_f]. rewrite (peek0 _ _ _ Hr). cbn [bind]. rewrite N.eqb_refl. cbn [negb].
        eexists. split; [reflexivity|]. ccat2.
      + cbn [flow_scalar_f]. cbn [app] in Hr. rewrite (peek0 _ _ _ Hr). cbn [bind].
        inversion HF as [|? ? Hw HF']; subst.
        rewrite (peek_not_quote w (or_introl Hw)). cbn [negb].
        assert (Hr' : s_rest s = (w :: ws) ++ quote :: x :: tl) by exact Hr.
        rewrite (spaces_inline s (w :: ws) quote _ HF (quote_solid _ _ Hq) Hr'). cbn [bind].
        unfold scan_flow_scalar_non_spaces.
        pose proof (rest_after _ _ _ Hr') as Hr1.
        assert (Hr1' : s_rest (after s (w :: ws)) = [] ++ ENDT) by exact Hr1.
        unfold fuel_of at 1. rewrite (ns_end double quote _ _ [] ENDT [] (Forall_nil _) end_stop Hr1'). cbn [bind].
        cbn [flow_scalar_f]. rewrite !after_nil. rewrite (peek0 _ _ _ Hr1). cbn [bind]. rewrite N.eqb_refl. cbn [negb].
        eexists. split; [cbn [chunk_of app]; rewrite !app_nil_r; reflexivity|]. ccat2.
  Qed.

  Lemma machine_cons e E : els_wf double (e :: E) -> PNS E /\ PSP E -> PNS (e :: E) /\ PSP (e :: E).
  Proof.
    intros Hwf [IHN IHS]. destruct e as [it|tws k ind].
    - cbn [els_wf] in Hwf. destruct Hwf as (Hit & Hwsb & Hnsol & Hwf').
      pose proof Hit as Hit0. unfold item_ok in Hit.
      destruct (q_kind it) eqn:Ek.
      + (* ordinary character *)
        destruct Hit as (c & Ep & Em & Hc).
        assert (HN : PNS (QItem it :: E)).
        { intros run s nsch chunks c1 fns f HF Hr Hfns Hf.
          cbn [print_els flat_map print_el mean_els mean_el req] in *. rewrite Ek in Hf.
          fold (print_els E) in *. fold (mean_els E). rewrite Ep in *. rewrite Em.
          destruct (req E) as [n p] eqn:Ereq. cbn [fst] in Hf.
          destruct (IHN (run ++ [c]) s nsch chunks c1 fns f) as (CH & H1 & H2).
          - apply Forall_app. split; [exact HF | constructor; [exact Hc | constructor]].
          - rewrite Hr, <- ?app_assoc. reflexivity.
          - cbn [length] in Hfns. lia.
          - rewrite Ereq. exact Hf.
          - exists CH. split; [rewrite H1, <- ?app_assoc; reflexivity | rewrite H2, <- ?app_assoc; reflexivity]. }
        split; [exact HN|].
        intros wsrun s chunks f HF Hr Hf Hpre. cbn [sp_pre] in Hpre. rewrite Ek in Hpre.
        destruct Hpre as [Hpre|Hpre]; [discriminate|].
        cbn [req] in Hf. rewrite Ek in Hf. destruct (req E) as [n p] eqn:Ereq. cbn [snd] in Hf.
        destruct f as [|f]; [lia|]. cbn [flow_scalar_f].
        destruct wsrun as [|w ws]; [congruence|]. cbn [app] in Hr. rewrite (peek0 _ _ _ Hr). cbn [bind].
        inversion HF as [|? ? Hw HF']; subst. rewrite (peek_not_quote w (or_introl Hw)). cbn [negb].
        cbn [print_els flat_map print_el] in Hr. fold (print_els E) in Hr. rewrite Ep in Hr.
        assert (Hr' : s_rest s = (w :: ws) ++ c :: (print_els E ++ ENDT)) by (rewrite Hr; reflexivity).
        rewrite (spaces_inline s (w :: ws) c _ HF (ordc_solid _ Hc) Hr'). cbn [bind].
        pose proof (rest_after _ _ _ Hr') as Hr1.
        destruct (HN [] (after s (w :: ws)) [] chunks [w :: ws] (fuel_of (after s (w :: ws))) f) as (CH & H1 & H2).
        * constructor.
        * cbn [print_els flat_map print_el app]. rewrite Ep. exact Hr1.
        * unfold fuel_of. rewrite Hr1. cbn [length]. rewrite app_length.
          pose proof (print_els_length double E Hwf'). lia.
        * cbn [req]. rewrite Ek, Ereq. cbn [fst]. lia.
        * unfold ns_loop, scan_flow_scalar_non_spaces in *. rewrite H1. exists CH. split.
          -- rewrite <- after_app. cbn [print_els flat_map print_el app]. rewrite Ep. reflexivity.
          -- rewrite H2. cbn [mean_els flat_map mean_el]. ccat2.
      + (* white space character *)
        destruct Hit as (c & Ep & Em & Hc).
        assert (HS : PSP (QItem it :: E)).
        { intros wsrun s chunks f HF Hr Hf Hpre.
          cbn [print_els flat_map print_el mean_els mean_el req] in *. rewrite Ek in Hf.
          fold (print_els E) in *. fold (mean_els E). rewrite Ep in *. rewrite Em.
          destruct (req E) as [n p] eqn:Ereq. cbn [snd] in Hf.
          destruct (IHS (wsrun ++ [c]) s chunks f) as (CH & H1 & H2).
          - apply Forall_app. split; [exact HF | constructor; [exact Hc | constructor]].
          - rewrite Hr, <- ?app_assoc. reflexivity.
          - rewrite Ereq. exact Hf.
          - destruct E as [|[it'|? ? ?] E']; cbn [sp_pre]; auto.
            + right. destruct wsrun; discriminate.
            + exfalso. apply (Hwsb eq_refl).
          - exists CH. split; [rewrite H1, <- ?app_assoc; reflexivity | rewrite H2, <- ?app_assoc; reflexivity]. }
        split; [|exact HS].
        intros run s nsch chunks c1 fns f HF Hr Hfns Hf.
        cbn [req] in Hf. rewrite Ek in Hf. destruct (req E) as [n p] eqn:Ereq. cbn [fst] in Hf.
        destruct fns as [|fns]; [lia|]. unfold ns_loop.
        assert (Hstop : word_stop double quote (print_els (QItem it :: E) ++ ENDT)).
        { cbn [print_els flat_map print_el]. rewrite Ep. cbn [app word_stop]. left. left. exact Hc. }
        rewrite (ns_end double quote fns s run _ nsch HF Hstop Hr). cbn [bind].
        destruct (HS [] (after s run) (chunks ++ c1 ++ nsch ++ chunk_of run) f) as (CH & H1 & H2).
        * constructor.
        * apply rest_after. exact Hr.
        * cbn [req]. rewrite Ek, Ereq. cbn [snd]. exact Hf.
        * cbn [sp_pre]. left. exact Ek.
        * exists CH. split; [rewrite H1, <- after_app; reflexivity | rewrite H2; ccat2].
      + (* special item *)
        destruct Hit as (c & r & Ep & Hc0 & Hcs & Hncr & Hbr).
        assert (HN : PNS (QItem it :: E)).
        { intros run s nsch chunks c1 fns f HF Hr Hfns Hf.
          cbn [print_els flat_map print_el mean_els mean_el req] in *. rewrite Ek in Hf.
          fold (print_els E) in *. fold (mean_els E).
          destruct (req E) as [n p] eqn:Ereq. cbn [fst] in Hf.
          destruct fns as [|fns]; [lia|]. unfold ns_loop.
          assert (Hr' : s_rest s = run ++ q_print it ++ (print_els E ++ ENDT)) by (rewrite Hr, <- ?app_assoc; reflexivity).
          assert (Hsol : q_ns it = true -> exists c t, print_els E ++ ENDT = c :: t /\ solid c).
          { intros Hns. destruct (els_head_solid double quote E x tl Hq Hwf' (Hnsol Hns)) as (c' & r' & Ec & Hc').
            exists c', r'. split; [exact Ec | exact Hc']. }
          destruct (ns_special double fns s run it _ nsch HF Ek Hit0 Hsol Hr') as (cs & Hcat & Hstep).
          rewrite Hstep.
          destruct (IHN [] (after s (run ++ q_print it)) (nsch ++ chunk_of run ++ cs) chunks c1 fns f) as (CH & H1 & H2).
          - constructor.
          - cbn [app]. apply rest_after. rewrite Hr', <- ?app_assoc. reflexivity.
          - cbn [length] in Hfns. lia.
          - rewrite Ereq. exact Hf.
          - unfold ns_loop in H1. exists CH. split.
            + rewrite H1. cbn [app]. rewrite <- after_app, <- ?app_assoc. reflexivity.
            + rewrite H2. rewrite <- Hcat. ccat2. }
        split; [exact HN|].
        intros wsrun s chunks f HF Hr Hf Hpre. cbn [sp_pre] in Hpre. rewrite Ek in Hpre.
        destruct Hpre as [Hpre|Hpre]; [discriminate|].
        cbn [req] in Hf. rewrite Ek in Hf. destruct (req E) as [n p] eqn:Ereq. cbn [snd] in Hf.
        destruct f as [|f]; [lia|]. cbn [flow_scalar_f].
        destruct wsrun as [|w ws]; [congruence|]. cbn [app] in Hr. rewrite (peek0 _ _ _ Hr). cbn [bind].
        inversion HF as [|? ? Hw HF']; subst. rewrite (peek_not_quote w (or_introl Hw)). cbn [negb].
        cbn [print_els flat_map print_el] in Hr. fold (print_els E) in Hr. rewrite Ep in Hr.
        assert (Hr' : s_rest s = (w :: ws) ++ c :: (r ++ print_els E ++ ENDT)) by (rewrite Hr, <- ?app_assoc; reflexivity).
        rewrite (spaces_inline s (w :: ws) c _ HF Hcs Hr'). cbn [bind].
        pose proof (rest_after _ _ _ Hr') as Hr1.
        destruct (HN [] (after s (w :: ws)) [] chunks [w :: ws] (fuel_of (after s (w :: ws))) f) as (CH & H1 & H2).
        * constructor.
        * cbn [print_els flat_map print_el app]. rewrite Ep. rewrite Hr1, <- ?app_assoc. reflexivity.
        * unfold fuel_of. rewrite Hr1. cbn [length]. rewrite !app_length.
          pose proof (print_els_length double E Hwf'). lia.
        * cbn [req]. rewrite Ek, Ereq. cbn [fst]. lia.
        * unfold ns_loop, scan_flow_scalar_non_spaces in *. rewrite H1. exists CH. split.
          -- rewrite <- after_app. cbn [print_els flat_map print_el app]. rewrite Ep. reflexivity.
          -- rewrite H2. cbn [mean_els flat_map mean_el]. ccat2.
    - (* a line break *)
      cbn [els_wf] in Hwf. destruct Hwf as (Htws & Hind & Hks & Hnext & Hwf').
      assert (Hns : next_solid E).
      { destruct E as [|[it'|? ? ?] E']; cbn [next_solid]; auto. }
      assert (HS : PSP (QBrk tws k ind :: E)).
      { intros wsrun s chunks f HF Hr Hf Hpre. cbn [sp_pre] in Hpre. subst wsrun. cbn [app] in Hr |- *.
        cbn [req] in Hf. destruct (req E) as [n p] eqn:Ereq. cbn [snd] in Hf.
        destruct f as [|f]; [lia|]. cbn [flow_scalar_f].
        cbn [print_els flat_map print_el] in Hr. fold (print_els E) in Hr.
        destruct (els_head_solid double quote E x tl Hq Hwf' Hns) as (c & r & Ec & Hc).
        assert (Hr' : s_rest s = (tws ++ [10] ++ blw k ++ ind) ++ c :: r).
        { rewrite Hr, <- ?app_assoc. rewrite <- Ec. unfold ENDT. rewrite <- ?app_assoc. reflexivity. }
        assert (Hpk : exists y, peek s 0 = Ok y /\ (wsq y \/ y = 10)).
        { destruct tws as [|y tws']; [|inversion Htws; subst]; cbn [app] in Hr'; eexists; (split; [eapply peek0; exact Hr'|]); auto. }
        destruct Hpk as (y & Hpk & Hy). rewrite Hpk. cbn [bind]. rewrite (peek_not_quote y Hy). cbn [negb].
        rewrite (spaces_break s tws k ind c r Htws Hind Hks Hc Hr'). cbn [bind].
        pose proof (rest_after _ _ _ Hr') as Hr1.
        destruct (IHN [] (after s (tws ++ [10] ++ blw k ++ ind)) [] chunks (fold_chunks (length k))
                      (fuel_of (after s (tws ++ [10] ++ blw k ++ ind))) f) as (CH & H1 & H2).
        - constructor.
        - rewrite Hr1. symmetry. exact Ec.
        - unfold fuel_of. rewrite Hr1, <- Ec. rewrite app_length.
          pose proof (print_els_length double E Hwf'). lia.
        - rewrite Ereq. cbn [fst]. lia.
        - unfold ns_loop, scan_flow_scalar_non_spaces in *. rewrite H1. exists CH. split.
          + rewrite <- after_app. cbn [print_els flat_map print_el app]. rewrite <- ?app_assoc. reflexivity.
          + rewrite H2. cbn [mean_els flat_map mean_el]. rewrite concat_fold_chunks. ccat2. }
      split; [|exact HS].
      intros run s nsch chunks c1 fns f HF Hr Hfns Hf.
      cbn [req] in Hf. destruct (req E) as [n p] eqn:Ereq. cbn [fst] in Hf.
      destruct fns as [|fns]; [lia|]. unfold ns_loop.
      assert (Hstop : word_stop double quote (print_els (QBrk tws k ind :: E) ++ ENDT)).
      { cbn [print_els flat_map print_el]. destruct tws as [|y tws']; [|inversion Htws; subst];
          cbn [app word_stop]; left; auto. }
      rewrite (ns_end double quote fns s run _ nsch HF Hstop Hr). cbn [bind].
      destruct (HS [] (after s run) (chunks ++ c1 ++ nsch ++ chunk_of run) f) as (CH & H1 & H2).
      + constructor.
      + apply rest_after. exact Hr.
      + cbn [req]. rewrite Ereq. cbn [snd]. exact Hf.
      + reflexivity.
      + exists CH. split; [rewrite H1, <- after_app; reflexivity | rewrite H2; ccat2].
  Qed.

  Lemma machine E : els_wf double E -> PNS E /\ PSP E.
  Proof.
    induction E as [|e E IH]; intros Hwf; [apply machine_nil|].
    apply machine_cons; [exact Hwf|]. apply IH. destruct e; cbn [els_wf] in Hwf; tauto.
  Qed.

  (* _scan_flow_scalar on  quote ++ elements ++ quote *)
  Theorem scan_flow_scalar_els E s : els_wf double E -> (double = (quote =? c_dquote)) ->
    s_rest s = quote :: print_els E ++ ENDT ->
    scan_flow_scalar s quote = Ok (after s (quote :: print_els E ++ [quote]), mean_els E).
  Proof.
    intros Hwf Hd Hr. unfold scan_flow_scalar. rewrite (peek0 _ _ _ Hr). cbn [bind].
    assert (Hqn : nocr quote) by (destruct Hq as [[_ E1]|[_ E1]]; rewrite E1; charfact).
    assert (Hf1 : forward s 1 = Ok (after s [quote])).
    { apply (forward_after [quote] s (print_els E ++ ENDT)); [repeat constructor; exact Hqn | exact Hr]. }
    rewrite Hf1. cbn [bind]. rewrite <- Hd.
    pose proof (rest_after [quote] s _ Hr) as Hr1. set (s1 := after s [quote]) in *.
    destruct (machine E Hwf) as [HN _].
    destruct (HN [] s1 [] [] [] (fuel_of s1) (fuel_of s1)) as (CH & H1 & H2).
    - constructor.
    - exact Hr1.
    - unfold fuel_of. rewrite Hr1, app_length. pose proof (print_els_length double E Hwf). lia.
    - unfold fuel_of. rewrite Hr1, app_length. pose proof (print_els_length double E Hwf).
      pose proof (req_bound E). unfold ENDT. cbn [length]. lia.
    - unfold ns_loop, scan_flow_scalar_non_spaces in *. cbn [app] in H1.
      destruct (flow_non_spaces_f (fuel_of s1) s1 double []) as [[s2 c2]|e]; cbn [bind] in *; [|discriminate].
      rewrite H1. cbn [bind].
      assert (Hr3 : s_rest (after s1 (print_els E)) = quote :: x :: tl) by (apply rest_after; exact Hr1).
      assert (Hf3 : forward (after s1 (print_els E)) 1 = Ok (after (after s1 (print_els E)) [quote])).
      { apply (forward_after [quote] _ (x :: tl)); [repeat constructor; exact Hqn | exact Hr3]. }
      rewrite Hf3. cbn [bind]. unfold s1. rewrite <- !after_app. f_equal. f_equal.
      rewrite H2. cbn [concat app]. reflexivity.
  Qed.
End Machine.
