(* Texts whose line breaks are CR LF, CR or NEL instead of LF: [expand_nl nl t] replaces every line
   feed of [t] by [nl].  Definitions only; the proofs are in Opt/OptBreaks.v. *)
From Coq Require Import List NArith Bool.
From MV Require Import Base.PyStr.
Import ListNotations.
Open Scope N_scope.

Fixpoint expand_nl (nl : str) (t : str) : str :=
  match t with
  | [] => []
  | c :: r => (if c =? 10 then nl else [c]) ++ expand_nl nl r
  end.

Definition crlf (t : str) : str := expand_nl [13; 10] t.
Definition cr_only (t : str) : str := expand_nl [13] t.
Definition nel_only (t : str) : str := expand_nl [133] t.

(* no carriage return in the text *)
Definition no_cr (t : str) : bool := forallb (fun c => negb (c =? 13)) t.
