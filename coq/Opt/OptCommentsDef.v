(* State.has_comments.  options.py only ever writes the flag (four sites: _scan_to_next_token,
   two in _scan_plain_scalar, _scan_block_scalar_ignored_line); parse_directive_options reads it
   to emit the directive_comments warning.  The functions that set it (or call one that does)
   are given here in an instrumented form that also returns the flag; [*_erase] shows that the
   instrumented functions compute exactly what the functions of OptModel.v compute, so the flag
   never influences pairs or errors.  Executable definitions only; the erasure proofs are in OptComments.v. *)
From Coq Require Import List NArith Bool.
From MV Require Import Base.PyStr.
From MV Require Import Base.Res.
From MV Require Import Gen.OptConsts.
From MV Require Import Opt.OptModel.
Import ListNotations.
Open Scope N_scope.

Fixpoint scan_to_next_token_f_cm (fuel : nat) (s : stream) (cm : bool) : res (stream * bool) :=
  match fuel with
  | O => Raise OutOfFuel
  | S f =>
      do s1 <- skip_while (fun ch => ch =? c_space) s;
      do ch <- peek s1 0;
      do s2 <- (if ch =? c_hash
                then skip_while (fun ch => negb (mem_N ch in_scan_to_next_token_0)) s1
                else Ok s1);
      let cm' := cm || (ch =? c_hash) in                    (* state.has_comments = True *)
      do sb <- scan_line_break s2;
      let '(s3, lb) := sb in
      if negb (nonempty lb) then Ok (s3, cm') else scan_to_next_token_f_cm f s3 cm'
  end.

Definition scan_to_next_token_cm (s : stream) : res (stream * bool) :=
  do s0 <- (if s_idx s =? 0 then
              do ch <- peek s 0; if ch =? c_bom then forward s 1 else Ok s
            else Ok s);
  scan_to_next_token_f_cm (fuel_of s0) s0 false.

Fixpoint plain_scalar_f_cm (fuel : nat) (is_key : bool) (s : stream)
         (chunks spaces : list str) : res (stream * list str * bool) :=
  match fuel with
  | O => Raise OutOfFuel
  | S f =>
      do ch <- peek s 0;
      if ch =? c_hash then Ok (s, chunks, true)
      else
        do length <- plain_len is_key (s_rest s);
        match length with
        | O => Ok (s, chunks, false)
        | _ =>
            let chunks' := chunks ++ spaces ++ [prefix s length] in
            do s1 <- forward s length;
            do sp <- scan_plain_spaces s1 (negb is_key);
            let '(s2, spaces') := sp in
            let indent := if is_key then 0 else 1 in
            match spaces' with
            | [] => do ch2 <- peek s2 0; Ok (s2, chunks', ch2 =? c_hash)
            | _ =>
                do ch2 <- peek s2 0;
                if (ch2 =? c_hash) || (s_col s2 <? indent) then Ok (s2, chunks', ch2 =? c_hash)
                else plain_scalar_f_cm f is_key s2 chunks' spaces'
            end
        end
  end.

Definition scan_plain_scalar_cm (s : stream) (is_key : bool) : res (stream * str * bool) :=
  do r <- plain_scalar_f_cm (fuel_of s) is_key s [] [];
  let '(s', chunks, cm) := r in Ok (s', concat chunks, cm).

Definition scan_block_scalar_ignored_line_cm (s : stream) : res (stream * bool) :=
  do s1 <- skip_while (fun ch => ch =? c_space) s;
  do ch <- peek s1 0;
  do s2 <- (if ch =? c_hash
            then skip_while (fun ch => negb (mem_N ch in_scan_block_scalar_ignored_line_0)) s1
            else Ok s1);
  do ch2 <- peek s2 0;
  if negb (mem_N ch2 in_scan_block_scalar_ignored_line_1) then Raise (TokenizeError (s_idx s2))
  else do sb <- scan_line_break s2; Ok (fst sb, ch =? c_hash).

Definition scan_block_scalar_cm (s : stream) (style : N) : res (stream * str * bool) :=
  let folded := style =? c_gt in
  do s1 <- forward s 1;
  do ind <- scan_block_scalar_indicators s1;
  let '(s2, chomping, increment) := ind in
  do ig <- scan_block_scalar_ignored_line_cm s2;
  let '(s3, cm) := ig in
  let min_indent := 1 in
  do r <- (match increment with
           | None =>
               do x <- scan_block_scalar_indentation s3;
               let '(s4, breaks, max_indent) := x in
               Ok (s4, breaks, N.max min_indent max_indent)
           | Some inc =>
               let indent := min_indent + inc - 1 in
               do x <- scan_block_scalar_breaks s3 indent;
               let '(s4, breaks) := x in Ok (s4, breaks, indent)
           end);
  let '(s4, breaks, indent) := r in
  do ac <- at_content s4 indent;
  do r2 <- (match ac with
            | Some ch => block_lines_f (fuel_of s4) folded indent s4 ch [] breaks
            | None => Ok (s4, [], [], breaks)
            end);
  let '(s5, chunks, line_break, breaks') := r2 in
  let chunks1 := match chomping with Some false => chunks | _ => chunks ++ [line_break] end in
  let chunks2 := match chomping with Some true => chunks1 ++ breaks' | _ => chunks1 end in
  Ok (s5, concat chunks2, cm).

Definition flag0 {A} (r : res A) : res (A * bool) := do a <- r; Ok (a, false).

Definition tok_iter_cm (s : stream) : wres (option stream * bool) :=
  dow r1 <- liftw (scan_to_next_token_cm s);
  let '(s1, cm1) := r1 in
  dow ch <- liftw (peek s1 0);
  if is_end ch then liftw (Ok (None, cm1))
  else if negb (s_col s1 =? 0) then liftw (Raise (TokenizeError (s_idx s1)))
  else
    dow kr <- liftw (if mem_N ch in_tokenize_0 then flag0 (scan_flow_scalar s1 ch)
                     else scan_plain_scalar_cm s1 true);
    let '(s2, k, cm2) := kr in
    dow _ <- yield (TKey k);
    dow r3 <- liftw (scan_to_next_token_cm s2);
    let '(s3, cm3) := r3 in
    dow ch3 <- liftw (peek s3 0);
    if negb (ch3 =? c_colon) then liftw (Raise (TokenizeError (s_idx s3)))
    else
      dow s4 <- liftw (forward s3 1);
      dow _ <- yield TColon;
      dow r5 <- liftw (scan_to_next_token_cm s4);
      let '(s5, cm5) := r5 in
      dow ch5 <- liftw (peek s5 0);
      let cm := cm1 || cm2 || cm3 || cm5 in
      if s_col s5 =? 0 then liftw (Ok (Some s5, cm))
      else
        dow vr <- liftw (if mem_N ch5 in_tokenize_1 then scan_block_scalar_cm s5 ch5
                         else if mem_N ch5 in_tokenize_2 then flag0 (scan_flow_scalar s5 ch5)
                         else scan_plain_scalar_cm s5 false);
        let '(s6, v, cm6) := vr in
        dow _ <- yield (TValue (s_idx s5) v);
        liftw (Ok (Some s6, cm || cm6)).

Fixpoint tokenize_f_cm (fuel : nat) (s : stream) (cm : bool) : list token * option exn * bool :=
  match fuel with
  | O => ([], Some OutOfFuel, cm)
  | S f =>
      match tok_iter_cm s with
      | (ts, Raise e) => (ts, Some e, cm)
      | (ts, Ok (None, c)) => (ts, None, cm || c)
      | (ts, Ok (Some s', c)) =>
          let '(ts', e, c') := tokenize_f_cm f s' (cm || c) in (ts ++ ts', e, c')
      end
  end.

(* options_to_items: (pairs, state.has_comments) *)
Definition options_to_items_state (text : str) : res (list (str * str) * bool) :=
  let s := new_stream text in
  let '(toks, pending, cm) := tokenize_f_cm (fuel_of s) s false in
  do items <- to_items toks pending None; Ok (items, cm).

Definition has_comments (text : str) : bool :=
  match options_to_items_state text with Ok (_, cm) => cm | Raise _ => false end.

