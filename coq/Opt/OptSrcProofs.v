(* Refinement: every function regenerated from options.py (Gen/OptSrc.v) equals its hand-written
   counterpart in OptModel.v, for every argument (no invariant needed, same fuel discipline).
   These are the proof obligations that an edit of the Python source breaks. *)
From Coq Require Import List NArith Bool Lia Arith.
From MV Require Import Base.PyStr.
From MV Require Import Base.Res.
From MV Require Import Gen.OptConsts.
From MV Require Import Opt.OptModel.
From MV Require Import Opt.OptSrcLib.
From MV Require Import Gen.OptSrc.
Import ListNotations.
Open Scope N_scope.

(* the hand model names its tables and characters, the generated code inlines them *)
Ltac unfold_tabs :=
  unfold is_end, is_lf, CHARS_END,
    c_space, c_tab, c_hash, c_colon, c_squote, c_dquote, c_bslash, c_plus, c_gt, c_cr, c_lf, c_bom,
    in_forward_0, in_scan_to_next_token_0, in_scan_plain_scalar_0, in_scan_plain_scalar_1,
    in_scan_plain_spaces_0, in_scan_plain_spaces_1, in_scan_line_break_0, in_scan_line_break_1,
    in_scan_flow_scalar_non_spaces_0, in_scan_flow_scalar_non_spaces_1, in_scan_flow_scalar_non_spaces_2,
    in_scan_flow_scalar_non_spaces_3,
    in_scan_flow_scalar_spaces_0, in_scan_flow_scalar_spaces_1, in_scan_flow_scalar_breaks_0,
    in_scan_flow_scalar_breaks_1, in_scan_block_scalar_0, in_scan_block_scalar_1, in_scan_block_scalar_2,
    in_scan_block_scalar_indicators_0, in_scan_block_scalar_indicators_1, in_scan_block_scalar_indicators_2,
    in_scan_block_scalar_indicators_3, in_scan_block_scalar_indicators_4,
    in_scan_block_scalar_ignored_line_0, in_scan_block_scalar_ignored_line_1,
    in_scan_block_scalar_indentation_0, in_scan_block_scalar_breaks_0,
    in_tokenize_0, in_tokenize_1, in_tokenize_2 in *.

(* one step: case on a closed scrutinee that occurs in the goal *)
Ltac dstep :=
  cbn [bind fst snd] in *;
  match goal with
  | |- ?x = ?x => reflexivity
  | |- context [peek ?s ?k] => destruct (peek s k)
  | |- context [forward ?s ?k] => destruct (forward s k)
  | |- context [scan_line_break ?s] => destruct (scan_line_break s) as [[? ?]|?]
  | |- context [scan_flow_scalar_breaks ?s] => destruct (scan_flow_scalar_breaks s) as [[? ?]|?]
  | |- context [hex_check ?n ?l] => destruct (hex_check n l) as [[|]|?]
  | |- context [int16 ?l] => destruct (int16 l)
  | |- context [py_chr ?c] => destruct (py_chr c)
  | |- context [digit_val ?c] => destruct (digit_val c)
  | |- context [assoc ?c ?t] => destruct (assoc c t)
  | |- context [is_nil ?l] => destruct l
  | |- context [nonempty ?l] => destruct l
  | |- context [match ?l with [] => _ | _ :: _ => _ end] => destruct l
  | |- context [match ?o with Some _ => _ | None => _ end] => destruct o
  | |- context [if ?c then _ else _] => destruct c
  | |- context [match ?o with Ok _ => _ | Raise _ => _ end] => destruct o
  | |- context [let '(_, _) := ?p in _] => destruct p
  end.
Ltac dsteps := repeat first [ progress cbn [bind fst snd] | progress autorewrite with src | dstep ].

(* ------------------------------------------------------------------ generic facts about loops *)

(* `while stream.peek(length) <in class>: length += 1` against the structural count *)
Section Count.
  Variable p : N -> bool.
  Variable loop : nat -> stream -> nat -> res nat.
  Hypothesis loop_eq : forall f s k,
    loop f s k = match f with
                 | O => Raise OutOfFuel
                 | S f' => do c <- peek s k; if p c then loop f' s (S k) else Ok k
                 end.

  Lemma count_loop_spec : forall f s k, (1 <= f)%nat -> (length (s_rest s) < f + k)%nat ->
    loop f s k = do n <- count_while p (skipn k (s_rest s)); Ok (k + n)%nat.
  Proof.
    induction f as [|f IH]; intros s k H1 Hf; rewrite loop_eq; [lia|].
    unfold peek. destruct (nth_error (s_rest s) k) as [c|] eqn:E.
    - cbn [bind]. assert (Hs : skipn k (s_rest s) = c :: skipn (S k) (s_rest s)).
      { clear - E. revert k E. induction (s_rest s) as [|x l IHl]; intros [|k] E; cbn in *; try discriminate.
        - inversion E. reflexivity.
        - apply IHl. exact E. }
      assert (Hk : (k < length (s_rest s))%nat) by (apply nth_error_Some; congruence).
      rewrite Hs. cbn [count_while]. destruct (p c).
      + rewrite IH by lia. destruct (count_while p (skipn (S k) (s_rest s))); cbn [bind]; [f_equal; lia | reflexivity].
      + cbn [bind]. f_equal. lia.
    - cbn [bind]. apply nth_error_None in E. rewrite skipn_all2 by lia. reflexivity.
  Qed.

  Lemma count_loop_0 s : loop (fuel_of s) s O = count_while p (s_rest s).
  Proof.
    rewrite count_loop_spec by (unfold fuel_of; lia). cbn [skipn].
    destruct (count_while p (s_rest s)); reflexivity.
  Qed.
End Count.

(* `while <test on stream.peek()>: stream.forward()` against skip_while_f *)
Section Skip.
  Variable p : N -> bool.
  Variable loop : nat -> stream -> res stream.
  Hypothesis loop_eq : forall f s,
    loop f s = match f with
               | O => Raise OutOfFuel
               | S f' => do c <- peek s 0; if p c then do s' <- forward s 1; loop f' s' else Ok s
               end.
  Lemma skip_loop_spec : forall f s, loop f s = skip_while_f f p s.
  Proof.
    induction f as [|f IH]; intros s; rewrite loop_eq; [reflexivity|]. cbn [skip_while_f].
    destruct (peek s 0); cbn [bind]; [|reflexivity]. destruct (p a); [|reflexivity].
    destruct (forward s 1); cbn [bind]; [apply IH | reflexivity].
  Qed.
End Skip.

(* ------------------------------------------------------------------ _scan_line_break *)

Lemma scan_line_break_src_eq s : scan_line_break_src s = scan_line_break s.
Proof. unfold scan_line_break_src, scan_line_break. unfold_tabs. dsteps. Qed.
#[export] Hint Rewrite scan_line_break_src_eq : src.

(* ------------------------------------------------------------------ lengths (any stream) *)

Lemma forward1_len s s' : forward1 s = Ok s' -> length (s_rest s) = S (length (s_rest s')).
Proof.
  unfold forward1. destruct (s_rest s) as [|ch r]; [discriminate|].
  destruct (mem_N ch in_forward_0); [intros H; inversion H; reflexivity|].
  destruct (ch =? c_cr).
  - destruct r as [|n r']; [discriminate|].
    destruct (negb (n =? c_lf)); [intros H; inversion H; reflexivity|].
    destruct (negb (ch =? c_bom)); intros H; inversion H; reflexivity.
  - destruct (negb (ch =? c_bom)); intros H; inversion H; reflexivity.
Qed.

Lemma forward_len : forall k s s', forward s k = Ok s' -> length (s_rest s) = (k + length (s_rest s'))%nat.
Proof.
  induction k as [|k IH]; intros s s' H; [inversion H; reflexivity|].
  cbn [forward] in H. destruct (forward1 s) as [s1|e] eqn:E1; cbn [bind] in H; [|discriminate].
  rewrite (forward1_len _ _ E1), (IH _ _ H). lia.
Qed.

Lemma skip_while_f_len p : forall f s s', skip_while_f f p s = Ok s' ->
  (length (s_rest s') <= length (s_rest s))%nat.
Proof.
  induction f as [|f IH]; intros s s' H; [discriminate|]. cbn [skip_while_f] in H.
  destruct (peek s 0) as [c|e]; cbn [bind] in H; [|discriminate].
  destruct (p c); [|inversion H; lia].
  destruct (forward s 1) as [s1|e] eqn:E1; cbn [bind] in H; [|discriminate].
  pose proof (forward_len _ _ _ E1). specialize (IH _ _ H). lia.
Qed.

Lemma scan_line_break_len s s' lb : scan_line_break s = Ok (s', lb) ->
  (lb = [] -> s' = s) /\ (lb <> [] -> (length (s_rest s') < length (s_rest s))%nat).
Proof.
  unfold scan_line_break. destruct (peek s 0) as [c|e]; cbn [bind]; [|discriminate].
  destruct (mem_N c in_scan_line_break_0).
  - destruct (str_eqb (prefix s 2) [c_cr; c_lf]).
    + destruct (forward s 2) as [s1|e] eqn:E; cbn [bind]; [|discriminate]. intros H; inversion H; subst.
      pose proof (forward_len _ _ _ E). split; [discriminate | lia].
    + destruct (forward s 1) as [s1|e] eqn:E; cbn [bind]; [|discriminate]. intros H; inversion H; subst.
      pose proof (forward_len _ _ _ E). split; [discriminate | lia].
  - destruct (mem_N c in_scan_line_break_1).
    + destruct (forward s 1) as [s1|e] eqn:E; cbn [bind]; [|discriminate]. intros H; inversion H; subst.
      pose proof (forward_len _ _ _ E). split; [discriminate | lia].
    + intros H; inversion H; subst. split; [reflexivity | congruence].
Qed.

(* ------------------------------------------------------------------ _scan_to_next_token *)

Lemma stnt_w2_eq f s : scan_to_next_token_src_w2 f s = skip_while_f f (fun ch => ch =? c_space) s.
Proof. apply (skip_loop_spec _ scan_to_next_token_src_w2). intros [|f'] s'; reflexivity. Qed.

Lemma stnt_w3_eq f s :
  scan_to_next_token_src_w3 f s = skip_while_f f (fun ch => negb (mem_N ch in_scan_to_next_token_0)) s.
Proof. apply (skip_loop_spec _ scan_to_next_token_src_w3). intros [|f'] s'; reflexivity. Qed.

Lemma stnt_w1_eq : forall f s, (length (s_rest s) < f)%nat ->
  scan_to_next_token_src_w1 f s false = do s' <- scan_to_next_token_f f s; Ok (s', true).
Proof.
  induction f as [|f IH]; intros s Hf; [lia|].
  cbn [scan_to_next_token_src_w1 scan_to_next_token_f negb].
  rewrite stnt_w2_eq. fold (skip_while (fun ch => ch =? c_space) s).
  destruct (skip_while (fun ch => ch =? c_space) s) as [s1|e] eqn:E1; cbn [bind]; [|reflexivity].
  pose proof (skip_while_f_len _ _ _ _ E1) as L1.
  destruct (peek s1 0) as [c|e] eqn:Ep; cbn [bind]; [|reflexivity].
  assert (L0 : (1 <= length (s_rest s1))%nat).
  { unfold peek in Ep. destruct (s_rest s1); [discriminate | cbn; lia]. }
  change (c =? 35) with (c =? c_hash).
  assert (Hc : exists r2, (if c =? c_hash then skip_while (fun ch => negb (mem_N ch in_scan_to_next_token_0)) s1 else Ok s1) = r2 /\
              (if c =? c_hash then (do __l <- scan_to_next_token_src_w3 (fuel_of s1) s1; Ok __l) else Ok s1) = r2 /\
              (forall s2, r2 = Ok s2 -> (length (s_rest s2) <= length (s_rest s1))%nat)).
  { eexists. split; [reflexivity|]. destruct (c =? c_hash).
    - rewrite stnt_w3_eq. fold (skip_while (fun ch => negb (mem_N ch in_scan_to_next_token_0)) s1).
      split; [destruct (skip_while _ s1); reflexivity|]. intros s2 H2. apply (skip_while_f_len _ _ _ _ H2).
    - split; [reflexivity|]. intros s2 H2. inversion H2. lia. }
  destruct Hc as (r2 & E2 & E2' & L2). rewrite E2, E2'. destruct r2 as [s2|e]; cbn [bind]; [|reflexivity].
  specialize (L2 s2 eq_refl).
  rewrite scan_line_break_src_eq.
  destruct (scan_line_break s2) as [[s3 lb]|e] eqn:E3; cbn [bind]; [|reflexivity].
  destruct (scan_line_break_len _ _ _ E3) as [Hn Hc3].
  destruct lb as [|x lb]; cbn [nonempty negb bind].
  - (* found: the loop test is evaluated once more *)
    destruct f as [|f]; [lia|]. reflexivity.
  - apply IH. assert ((length (s_rest s3) < length (s_rest s2))%nat) by (apply Hc3; discriminate). lia.
Qed.

Lemma scan_to_next_token_src_eq s : scan_to_next_token_src s = scan_to_next_token s.
Proof.
  unfold scan_to_next_token_src, scan_to_next_token.
  assert (H0 : forall K : stream -> res stream,
    (do __b2 <- (if s_idx s =? 0 then (do __c1 <- peek s 0; Ok (__c1 =? 65279)) else Ok false);
     do __j <- (if __b2 then (do stream <- forward s 1; Ok stream) else Ok s); K __j) =
    (do s0 <- (if s_idx s =? 0 then do ch <- peek s 0; if ch =? c_bom then forward s 1 else Ok s else Ok s); K s0)).
  { intros K. unfold c_bom. destruct (s_idx s =? 0); [|reflexivity].
    destruct (peek s 0) as [c|e]; cbn [bind]; [|reflexivity].
    destruct (c =? 65279); [|reflexivity]. destruct (forward s 1); reflexivity. }
  rewrite (H0 (fun st => do __l <- scan_to_next_token_src_w1 (fuel_of st) st false; let '(stream, _) := __l in Ok stream)).
  destruct (if s_idx s =? 0 then do ch <- peek s 0; if ch =? c_bom then forward s 1 else Ok s else Ok s) as [s0|e];
    cbn [bind]; [|reflexivity].
  rewrite stnt_w1_eq by (unfold fuel_of; lia).
  destruct (scan_to_next_token_f (fuel_of s0) s0); reflexivity.
Qed.
#[export] Hint Rewrite scan_to_next_token_src_eq : src.

(* stepping with an induction hypothesis for the recursive call *)
Ltac ssteps IH := repeat first [ progress cbn [bind fst snd] | progress autorewrite with src | rewrite IH | dstep ].

(* ------------------------------------------------------------------ _scan_plain_spaces *)

Lemma plain_spaces_w1_eq s :
  scan_plain_spaces_src_w1 (fuel_of s) s O = count_while (fun ch => ch =? c_space) (s_rest s).
Proof. apply (count_loop_0 _ scan_plain_spaces_src_w1). intros [|f'] s' k; reflexivity. Qed.

Lemma plain_spaces_w2_eq : forall f s br, scan_plain_spaces_src_w2 f s br = plain_breaks_f f s br.
Proof.
  induction f as [|f IH]; intros s br; [reflexivity|].
  cbn [scan_plain_spaces_src_w2 plain_breaks_f]. rewrite ?scan_line_break_src_eq. unfold_tabs. ssteps IH.
Qed.

Lemma scan_plain_spaces_src_eq s b : scan_plain_spaces_src s b = scan_plain_spaces s b.
Proof.
  unfold scan_plain_spaces_src, scan_plain_spaces. rewrite plain_spaces_w1_eq.
  destruct (count_while (fun ch => ch =? c_space) (s_rest s)) as [k|e]; cbn [bind]; [|reflexivity].
  destruct (forward s k) as [s1|e]; cbn [bind]; [|reflexivity].
  destruct (peek s1 0) as [c|e]; cbn [bind]; [|reflexivity].
  unfold_tabs. destruct (b && mem_N c [13; 10; 133; 8232; 8233]).
  - rewrite scan_line_break_src_eq. destruct (scan_line_break s1) as [[s2 lb]|e]; cbn [bind]; [|reflexivity].
    rewrite plain_spaces_w2_eq. destruct (plain_breaks_f (fuel_of s2) s2 []) as [[s3 br]|e]; cbn [bind]; [|reflexivity].
    destruct (str_eqb lb [10]); cbn [negb bind]; [destruct br; reflexivity | reflexivity].
  - destruct (prefix s k); reflexivity.
Qed.
#[export] Hint Rewrite scan_plain_spaces_src_eq : src.

(* ------------------------------------------------------------------ _scan_flow_scalar_breaks / _spaces *)

Lemma flow_breaks_w2_eq f s :
  scan_flow_scalar_breaks_src_w2 f s = skip_while_f f (fun ch => mem_N ch in_scan_flow_scalar_breaks_0) s.
Proof. apply (skip_loop_spec _ scan_flow_scalar_breaks_src_w2). intros [|f'] s'; reflexivity. Qed.

Lemma flow_breaks_w1_eq : forall f s ch,
  scan_flow_scalar_breaks_src_w1 f s ch = do r <- flow_scalar_breaks_f f s ch; Ok (Done r).
Proof.
  induction f as [|f IH]; intros s ch; [reflexivity|].
  cbn [scan_flow_scalar_breaks_src_w1 flow_scalar_breaks_f]. rewrite flow_breaks_w2_eq, ?scan_line_break_src_eq.
  fold (skip_while (fun ch0 => mem_N ch0 in_scan_flow_scalar_breaks_0) s).
  destruct (skip_while (fun ch0 => mem_N ch0 in_scan_flow_scalar_breaks_0) s) as [s1|e]; cbn [bind]; [|reflexivity].
  unfold_tabs. ssteps IH.
Qed.

Lemma scan_flow_scalar_breaks_src_eq s : scan_flow_scalar_breaks_src s = scan_flow_scalar_breaks s.
Proof.
  unfold scan_flow_scalar_breaks_src, scan_flow_scalar_breaks. rewrite flow_breaks_w1_eq.
  destruct (flow_scalar_breaks_f (fuel_of s) s []) as [[s1 c]|e]; reflexivity.
Qed.
#[export] Hint Rewrite scan_flow_scalar_breaks_src_eq : src.

Lemma flow_spaces_w1_eq s :
  scan_flow_scalar_spaces_src_w1 (fuel_of s) s O =
  count_while (fun ch => mem_N ch in_scan_flow_scalar_spaces_0) (s_rest s).
Proof. apply (count_loop_0 _ scan_flow_scalar_spaces_src_w1). intros [|f'] s' k; reflexivity. Qed.

Lemma scan_flow_scalar_spaces_src_eq s : scan_flow_scalar_spaces_src s = scan_flow_scalar_spaces s.
Proof.
  unfold scan_flow_scalar_spaces_src, scan_flow_scalar_spaces. rewrite flow_spaces_w1_eq.
  destruct (count_while (fun ch => mem_N ch in_scan_flow_scalar_spaces_0) (s_rest s)) as [k|e]; cbn [bind]; [|reflexivity].
  destruct (forward s k) as [s1|e]; cbn [bind]; [|reflexivity].
  destruct (peek s1 0) as [c|e]; cbn [bind]; [|reflexivity].
  unfold_tabs. destruct (str_eqb [c] [0]); [reflexivity|]. cbn [bind].
  destruct (mem_N c [13; 10; 133; 8232; 8233]); [|reflexivity].
  rewrite scan_line_break_src_eq. destruct (scan_line_break s1) as [[s2 lb]|e]; cbn [bind]; [|reflexivity].
  rewrite scan_flow_scalar_breaks_src_eq. destruct (scan_flow_scalar_breaks s2) as [[s3 br]|e]; cbn [bind]; [|reflexivity].
  destruct (str_eqb lb [10]); cbn [negb bind]; [destruct br; reflexivity | reflexivity].
Qed.
#[export] Hint Rewrite scan_flow_scalar_spaces_src_eq : src.

(* ------------------------------------------------------------------ _scan_flow_scalar_non_spaces *)

Lemma skipn_nth {A} : forall (l : list A) k c, nth_error l k = Some c -> skipn k l = c :: skipn (S k) l.
Proof.
  induction l as [|x l IHl]; intros [|k] c E; cbn in *; try discriminate.
  - inversion E. reflexivity.
  - apply IHl. exact E.
Qed.

Lemma flow_ns_w2_eq s :
  scan_flow_scalar_non_spaces_src_w2 (fuel_of s) s O =
  count_while (fun ch => negb (mem_N ch in_scan_flow_scalar_non_spaces_0)) (s_rest s).
Proof. apply (count_loop_0 _ scan_flow_scalar_non_spaces_src_w2). intros [|f'] s' k; reflexivity. Qed.

(* for k in range(length): if stream.peek(k) not in hex digits: raise *)
Lemma flow_ns_f3_eq : forall n k s len,
  scan_flow_scalar_non_spaces_src_f3 n k s len =
  do b <- hex_check n (skipn k (s_rest s)); if negb b then Raise (TokenizeError (s_idx s)) else Ok tt.
Proof.
  induction n as [|n IH]; intros k s len; [reflexivity|].
  cbn [scan_flow_scalar_non_spaces_src_f3 hex_check]. unfold peek.
  destruct (nth_error (s_rest s) k) as [c|] eqn:E.
  - rewrite (skipn_nth _ _ _ E). cbn [bind]. unfold_tabs.
    destruct (mem_N c [48; 49; 50; 51; 52; 53; 54; 55; 56; 57; 65; 66; 67; 68; 69; 70; 97; 98; 99; 100; 101; 102]);
      cbn [negb bind]; [apply IH | reflexivity].
  - apply nth_error_None in E. rewrite skipn_all2 by lia. reflexivity.
Qed.
Lemma flow_ns_f3_eq0 n s len :
  scan_flow_scalar_non_spaces_src_f3 n 0 s len =
  do b <- hex_check n (s_rest s); if negb b then Raise (TokenizeError (s_idx s)) else Ok tt.
Proof. apply flow_ns_f3_eq. Qed.
#[export] Hint Rewrite flow_ns_f3_eq0 : src.

Lemma flow_ns_w1_eq : forall f s ch d,
  scan_flow_scalar_non_spaces_src_w1 f s ch d = do r <- flow_non_spaces_f f s d ch; Ok (Done r).
Proof.
  induction f as [|f IH]; intros s ch d; [reflexivity|].
  cbn [scan_flow_scalar_non_spaces_src_w1 flow_non_spaces_f]. cbv zeta. rewrite flow_ns_w2_eq.
  destruct (count_while (fun ch0 => negb (mem_N ch0 in_scan_flow_scalar_non_spaces_0)) (s_rest s)) as [k|e];
    cbn [bind]; [|reflexivity].
  assert (H : exists s1 c1,
     (forward s k = Ok s1 /\ c1 = match k with O => ch | S _ => ch ++ [prefix s k] end /\
      (if negb (Nat.eqb k 0) then do stream <- forward s k; Ok (stream, ch ++ [prefix s k]) else Ok (s, ch)) = Ok (s1, c1))
     \/ (exists e, forward s k = Raise e /\
         (if negb (Nat.eqb k 0) then do stream <- forward s k; Ok (stream, ch ++ [prefix s k]) else Ok (s, ch)) = Raise e)).
  { destruct k as [|k]; [exists s, ch; left; repeat split|].
    cbn [Nat.eqb negb]. destruct (forward s (S k)) as [s1|e]; [exists s1, (ch ++ [prefix s (S k)]); left; repeat split|].
    exists s, ch. right. exists e. split; reflexivity. }
  destruct H as (s1 & c1 & [(E1 & Ec & E2) | (e & E1 & E2)]); rewrite E2, E1; cbn [bind]; [|reflexivity].
  rewrite <- Ec. clear E1 E2 Ec.
  unfold flow_ns_branch, scan_escape, CHR_GUARD. unfold_tabs.
  ssteps IH.
Qed.

Lemma scan_flow_scalar_non_spaces_src_eq s d :
  scan_flow_scalar_non_spaces_src s d = scan_flow_scalar_non_spaces s d.
Proof.
  unfold scan_flow_scalar_non_spaces_src, scan_flow_scalar_non_spaces. rewrite flow_ns_w1_eq.
  destruct (flow_non_spaces_f (fuel_of s) s d []) as [[s1 c]|e]; reflexivity.
Qed.
#[export] Hint Rewrite scan_flow_scalar_non_spaces_src_eq : src.

(* ------------------------------------------------------------------ block scalar leaf scanners *)

Lemma scan_block_scalar_indicators_src_eq s :
  scan_block_scalar_indicators_src s = scan_block_scalar_indicators s.
Proof.
  unfold scan_block_scalar_indicators_src, scan_block_scalar_indicators. unfold_tabs. dsteps.
Qed.
#[export] Hint Rewrite scan_block_scalar_indicators_src_eq : src.

Lemma ignored_w1_eq f s : scan_block_scalar_ignored_line_src_w1 f s = skip_while_f f (fun ch => ch =? c_space) s.
Proof. apply (skip_loop_spec _ scan_block_scalar_ignored_line_src_w1). intros [|f'] s'; reflexivity. Qed.

Lemma ignored_w2_eq f s :
  scan_block_scalar_ignored_line_src_w2 f s =
  skip_while_f f (fun ch => negb (mem_N ch in_scan_block_scalar_ignored_line_0)) s.
Proof. apply (skip_loop_spec _ scan_block_scalar_ignored_line_src_w2). intros [|f'] s'; reflexivity. Qed.

Lemma scan_block_scalar_ignored_line_src_eq s :
  scan_block_scalar_ignored_line_src s = scan_block_scalar_ignored_line s.
Proof.
  unfold scan_block_scalar_ignored_line_src, scan_block_scalar_ignored_line. rewrite ignored_w1_eq.
  fold (skip_while (fun ch => ch =? c_space) s).
  destruct (skip_while (fun ch => ch =? c_space) s) as [s1|e]; cbn [bind]; [|reflexivity].
  destruct (peek s1 0) as [c|e]; cbn [bind]; [|reflexivity]. change (c =? 35) with (c =? c_hash).
  destruct (c =? c_hash).
  - rewrite ignored_w2_eq. fold (skip_while (fun ch => negb (mem_N ch in_scan_block_scalar_ignored_line_0)) s1).
    destruct (skip_while (fun ch => negb (mem_N ch in_scan_block_scalar_ignored_line_0)) s1) as [s2|e]; cbn [bind]; [|reflexivity].
    unfold_tabs. dsteps.
  - unfold_tabs. dsteps.
Qed.
#[export] Hint Rewrite scan_block_scalar_ignored_line_src_eq : src.

Lemma block_indentation_w1_eq : forall f s m ch,
  scan_block_scalar_indentation_src_w1 f s m ch = block_indentation_f f s ch m.
Proof.
  induction f as [|f IH]; intros s m ch; [reflexivity|].
  cbn [scan_block_scalar_indentation_src_w1 block_indentation_f]. unfold_tabs. ssteps IH.
Qed.

Lemma scan_block_scalar_indentation_src_eq s :
  scan_block_scalar_indentation_src s = scan_block_scalar_indentation s.
Proof.
  unfold scan_block_scalar_indentation_src, scan_block_scalar_indentation. rewrite block_indentation_w1_eq.
  destruct (block_indentation_f (fuel_of s) s [] 0) as [[[s1 c] m]|e]; reflexivity.
Qed.
#[export] Hint Rewrite scan_block_scalar_indentation_src_eq : src.

Lemma block_breaks_w1_eq : forall f s i, scan_block_scalar_breaks_src_w1 f s i = skip_indent_f f i s.
Proof.
  induction f as [|f IH]; intros s i; [reflexivity|].
  cbn [scan_block_scalar_breaks_src_w1 skip_indent_f]. unfold_tabs. ssteps IH.
Qed.

Lemma block_breaks_w3_eq : forall f s i, scan_block_scalar_breaks_src_w3 f s i = skip_indent_f f i s.
Proof.
  induction f as [|f IH]; intros s i; [reflexivity|].
  cbn [scan_block_scalar_breaks_src_w3 skip_indent_f]. unfold_tabs. ssteps IH.
Qed.

Lemma block_breaks_w2_eq : forall f s ch i, scan_block_scalar_breaks_src_w2 f s ch i = block_breaks_f f i s ch.
Proof.
  induction f as [|f IH]; intros s ch i; [reflexivity|].
  cbn [scan_block_scalar_breaks_src_w2 block_breaks_f]. unfold_tabs.
  destruct (peek s 0) as [c|e]; cbn [bind]; [|reflexivity].
  destruct (mem_N c [13; 10; 133; 8232; 8233]); [|reflexivity].
  rewrite scan_line_break_src_eq. destruct (scan_line_break s) as [[s1 lb]|e]; cbn [bind]; [|reflexivity].
  rewrite block_breaks_w3_eq. fold (skip_indent i s1).
  destruct (skip_indent i s1) as [s2|e]; cbn [bind]; [apply IH | reflexivity].
Qed.

Lemma scan_block_scalar_breaks_src_eq s i : scan_block_scalar_breaks_src s i = scan_block_scalar_breaks s i.
Proof.
  unfold scan_block_scalar_breaks_src, scan_block_scalar_breaks. rewrite block_breaks_w1_eq.
  fold (skip_indent i s). destruct (skip_indent i s) as [s1|e]; cbn [bind]; [|reflexivity].
  rewrite block_breaks_w2_eq. destruct (block_breaks_f (fuel_of s1) i s1 []) as [[s2 c]|e]; reflexivity.
Qed.
#[export] Hint Rewrite scan_block_scalar_breaks_src_eq : src.

(* ------------------------------------------------------------------ _scan_plain_scalar *)

Lemma nth_error_skipn {A} : forall (l : list A) k, nth_error l k = hd_error (skipn k l).
Proof. induction l as [|x l IHl]; intros [|k]; cbn; auto. Qed.

Lemma skipn_S_cons {A} (l : list A) k c l' : skipn k l = c :: l' -> skipn (S k) l = l'.
Proof.
  revert k. induction l as [|x l IHl]; intros [|k] E; cbn in *; try discriminate.
  - inversion E. reflexivity.
  - apply IHl in E. exact E.
Qed.

Lemma plain_w2_spec : forall f s k b, (1 <= f)%nat -> (length (s_rest s) < f + k)%nat ->
  scan_plain_scalar_src_w2 f s k b = do n <- plain_len b (skipn k (s_rest s)); Ok (k + n)%nat.
Proof.
  induction f as [|f IH]; intros s k b H1 Hf.
  - lia.
  - cbn [scan_plain_scalar_src_w2]. unfold peek. rewrite !nth_error_skipn.
    destruct (skipn k (s_rest s)) as [|c l'] eqn:E; [reflexivity|].
    rewrite (skipn_S_cons _ _ _ _ E). cbn [hd_error bind plain_len]. unfold_tabs.
    destruct (mem_N c [0; 32; 9; 13; 10; 133; 8232; 8233]); cbn [bind]; [f_equal; lia|].
    assert (Hl : (k < length (s_rest s))%nat).
    { assert (H : length (skipn k (s_rest s)) = S (length l')) by (rewrite E; reflexivity).
      rewrite skipn_length in H. lia. }
    assert (Hrec : scan_plain_scalar_src_w2 f s (S k) b = do n <- plain_len b l'; Ok (k + S n)%nat).
    { rewrite IH by lia. rewrite (skipn_S_cons _ _ _ _ E).
      destruct (plain_len b l'); cbn [bind]; [f_equal; lia | reflexivity]. }
    destruct (b && (c =? 58)).
    + destruct l' as [|n l'']; cbn [hd_error bind]; [reflexivity|].
      destruct (mem_N n [0; 32; 9; 13; 10; 133; 8232; 8233]); cbn [bind]; [f_equal; lia|].
      rewrite Hrec. destruct (plain_len b (n :: l'')); reflexivity.
    + cbn [bind]. rewrite Hrec. destruct (plain_len b l'); reflexivity.
Qed.

Lemma plain_w2_0 s b : scan_plain_scalar_src_w2 (fuel_of s) s O b = plain_len b (s_rest s).
Proof.
  rewrite plain_w2_spec by (unfold fuel_of; lia). cbn [skipn].
  destruct (plain_len b (s_rest s)); reflexivity.
Qed.

(* the generated loop also returns `spaces`, which the caller drops *)
Lemma plain_w1_eq : forall f s b sp ch,
  (do x <- scan_plain_scalar_src_w1 f s b sp ch (if b then 0 else 1); let '(st, _, c) := x in Ok (st, c)) =
  plain_scalar_f f b s ch sp.
Proof.
  induction f as [|f IH]; intros s b sp ch; [reflexivity|].
  cbn [scan_plain_scalar_src_w1 plain_scalar_f]. cbv zeta. rewrite plain_w2_0. unfold_tabs.
  destruct (peek s 0) as [c|e]; cbn [bind]; [|reflexivity].
  destruct (c =? 35); [reflexivity|].
  destruct (plain_len b (s_rest s)) as [[|k]|e]; cbn [bind Nat.eqb]; [reflexivity | | reflexivity].
  rewrite <- (app_assoc ch sp).
  destruct (forward s (S k)) as [s1|e]; cbn [bind]; [|reflexivity].
  rewrite scan_plain_spaces_src_eq.
  destruct (scan_plain_spaces s1 (negb b)) as [[s2 sp']|e]; cbn [bind]; [|reflexivity].
  destruct sp' as [|x sp']; cbn [is_nil negb bind].
  - cbn [orb]. destruct (peek s2 0) as [c2|e]; cbn [bind]; [|reflexivity]. destruct (c2 =? 35); reflexivity.
  - destruct (peek s2 0) as [c2|e]; cbn [bind]; [|reflexivity].
    destruct ((c2 =? 35) || (s_col s2 <? (if b then 0 else 1))); cbn [bind]; [destruct (c2 =? 35); reflexivity|].
    apply IH.
Qed.

Lemma scan_plain_scalar_src_eq s b : scan_plain_scalar_src s b = scan_plain_scalar s b.
Proof.
  unfold scan_plain_scalar_src, scan_plain_scalar. cbv zeta. rewrite <- plain_w1_eq.
  destruct (scan_plain_scalar_src_w1 (fuel_of s) s b [] [] (if b then 0 else 1)) as [[[s1 sp] c]|e]; reflexivity.
Qed.
#[export] Hint Rewrite scan_plain_scalar_src_eq : src.
