(* Erasure: the instrumented functions of OptCommentsDef.v compute exactly what the functions of
   OptModel.v compute; State.has_comments never influences pairs or errors. *)
From Coq Require Import List NArith Bool.
From MV Require Import Base.PyStr.
From MV Require Import Base.Res.
From MV Require Import Gen.OptConsts.
From MV Require Import Opt.OptModel.
From MV Require Export Opt.OptCommentsDef.
Import ListNotations.
Open Scope N_scope.

(* ------------------------------------------------------------------ erasure *)

Definition strip {A} (r : res (A * bool)) : res A := do x <- r; Ok (fst x).

Lemma stnt_f_cm_erase : forall fuel s cm,
  strip (scan_to_next_token_f_cm fuel s cm) = scan_to_next_token_f fuel s.
Proof.
  induction fuel as [|f IH]; intros s cm; [reflexivity|].
  cbn [scan_to_next_token_f_cm scan_to_next_token_f].
  destruct (skip_while (fun ch => ch =? c_space) s) as [s1|e]; [|reflexivity]. cbn [bind].
  destruct (peek s1 0) as [ch|e]; [|reflexivity]. cbn [bind].
  destruct (if ch =? c_hash then skip_while (fun ch0 => negb (mem_N ch0 in_scan_to_next_token_0)) s1 else Ok s1)
    as [s2|e]; [|reflexivity]. cbn [bind].
  destruct (scan_line_break s2) as [[s3 lb]|e]; [|reflexivity]. cbn [bind].
  destruct (negb (nonempty lb)); [reflexivity | apply IH].
Qed.

Lemma stnt_cm_erase s : strip (scan_to_next_token_cm s) = scan_to_next_token s.
Proof.
  unfold scan_to_next_token_cm, scan_to_next_token.
  destruct (if s_idx s =? 0 then do ch <- peek s 0; if ch =? c_bom then forward s 1 else Ok s else Ok s)
    as [s0|e]; [|reflexivity]. cbn [bind]. apply stnt_f_cm_erase.
Qed.

Definition strip2 {A B} (r : res (A * B * bool)) : res (A * B) := do x <- r; Ok (fst x).

Lemma plain_f_cm_erase is_key : forall fuel s chunks spaces,
  strip2 (plain_scalar_f_cm fuel is_key s chunks spaces) = plain_scalar_f fuel is_key s chunks spaces.
Proof.
  induction fuel as [|f IH]; intros s chunks spaces; [reflexivity|].
  cbn [plain_scalar_f_cm plain_scalar_f].
  destruct (peek s 0) as [ch|e]; [|reflexivity]. cbn [bind].
  destruct (ch =? c_hash); [reflexivity|].
  destruct (plain_len is_key (s_rest s)) as [len|e]; [|reflexivity]. cbn [bind].
  destruct len as [|len]; [reflexivity|].
  destruct (forward s (S len)) as [s1|e]; [|reflexivity]. cbn [bind].
  destruct (scan_plain_spaces s1 (negb is_key)) as [[s2 sp']|e]; [|reflexivity]. cbn [bind].
  destruct sp' as [|x sp'].
  - destruct (peek s2 0); reflexivity.
  - destruct (peek s2 0) as [ch2|e]; [|reflexivity]. cbn [bind].
    destruct ((ch2 =? c_hash) || (s_col s2 <? (if is_key then 0 else 1))); [reflexivity | apply IH].
Qed.

Lemma plain_cm_erase s is_key : strip2 (scan_plain_scalar_cm s is_key) = scan_plain_scalar s is_key.
Proof.
  unfold scan_plain_scalar_cm, scan_plain_scalar.
  rewrite <- (plain_f_cm_erase is_key (fuel_of s) s [] []).
  destruct (plain_scalar_f_cm (fuel_of s) is_key s [] []) as [[[s' ch] cm]|e]; reflexivity.
Qed.

Lemma ignored_cm_erase s : strip (scan_block_scalar_ignored_line_cm s) = scan_block_scalar_ignored_line s.
Proof.
  unfold scan_block_scalar_ignored_line_cm, scan_block_scalar_ignored_line.
  destruct (skip_while (fun ch => ch =? c_space) s) as [s1|e]; [|reflexivity]. cbn [bind].
  destruct (peek s1 0) as [ch|e]; [|reflexivity]. cbn [bind].
  destruct (if ch =? c_hash then skip_while (fun ch0 => negb (mem_N ch0 in_scan_block_scalar_ignored_line_0)) s1 else Ok s1)
    as [s2|e]; [|reflexivity]. cbn [bind].
  destruct (peek s2 0) as [ch2|e]; [|reflexivity]. cbn [bind].
  destruct (negb (mem_N ch2 in_scan_block_scalar_ignored_line_1)); [reflexivity|].
  destruct (scan_line_break s2); reflexivity.
Qed.

Lemma block_cm_erase s style : strip2 (scan_block_scalar_cm s style) = scan_block_scalar s style.
Proof.
  unfold scan_block_scalar_cm, scan_block_scalar.
  destruct (forward s 1) as [s1|e]; [|reflexivity]. cbn [bind].
  destruct (scan_block_scalar_indicators s1) as [[[s2 chomping] increment]|e]; [|reflexivity]. cbn [bind].
  rewrite <- (ignored_cm_erase s2).
  destruct (scan_block_scalar_ignored_line_cm s2) as [[s3 cm]|e]; [|reflexivity]. cbn [bind strip fst].
  match goal with |- context [bind ?X _] =>
    match X with context [scan_block_scalar_indentation] => destruct X as [[[s4 breaks] indent]|e]; [|reflexivity] end end.
  cbn [bind].
  destruct (at_content s4 indent) as [ac|e]; [|reflexivity]. cbn [bind].
  match goal with |- context [bind ?X _] =>
    match X with context [block_lines_f] => destruct X as [[[[s5 chunks] lb] br']|e]; [|reflexivity] end end.
  reflexivity.
Qed.

Lemma flag0_erase2 {A B} (r : res (A * B)) : strip2 (flag0 r) = r.
Proof. destruct r as [[a b]|e]; reflexivity. Qed.

Definition wstrip {A} (m : wres (A * bool)) : wres A := (fst m, strip (snd m)).

Lemma tok_iter_cm_erase s : wstrip (tok_iter_cm s) = tok_iter s.
Proof.
  unfold tok_iter_cm, tok_iter, wstrip.
  rewrite <- (stnt_cm_erase s).
  destruct (scan_to_next_token_cm s) as [[s1 cm1]|e]; [|reflexivity]. cbn [liftw bindw strip bind fst snd].
  destruct (peek s1 0) as [ch|e]; [|reflexivity]. cbn [liftw bindw].
  destruct (is_end ch); [reflexivity|].
  destruct (negb (s_col s1 =? 0)); [reflexivity|].
  assert (Hk : strip2 (if mem_N ch in_tokenize_0 then flag0 (scan_flow_scalar s1 ch) else scan_plain_scalar_cm s1 true)
               = (if mem_N ch in_tokenize_0 then scan_flow_scalar s1 ch else scan_plain_scalar s1 true)).
  { destruct (mem_N ch in_tokenize_0); [apply flag0_erase2 | apply plain_cm_erase]. }
  rewrite <- Hk.
  destruct (if mem_N ch in_tokenize_0 then flag0 (scan_flow_scalar s1 ch) else scan_plain_scalar_cm s1 true)
    as [[[s2 k] cm2]|e]; [|reflexivity]. cbn [liftw bindw strip2 bind fst snd yield app].
  rewrite <- (stnt_cm_erase s2).
  destruct (scan_to_next_token_cm s2) as [[s3 cm3]|e]; [|reflexivity]. cbn [liftw bindw strip bind fst snd app].
  destruct (peek s3 0) as [ch3|e]; [|reflexivity]. cbn [liftw bindw app].
  destruct (negb (ch3 =? c_colon)); [reflexivity|].
  destruct (forward s3 1) as [s4|e]; [|reflexivity]. cbn [liftw bindw yield app].
  rewrite <- (stnt_cm_erase s4).
  destruct (scan_to_next_token_cm s4) as [[s5 cm5]|e]; [|reflexivity]. cbn [liftw bindw strip bind fst snd app].
  destruct (peek s5 0) as [ch5|e]; [|reflexivity]. cbn [liftw bindw app].
  destruct (s_col s5 =? 0); [reflexivity|].
  assert (Hv : strip2 (if mem_N ch5 in_tokenize_1 then scan_block_scalar_cm s5 ch5
                       else if mem_N ch5 in_tokenize_2 then flag0 (scan_flow_scalar s5 ch5)
                       else scan_plain_scalar_cm s5 false)
               = (if mem_N ch5 in_tokenize_1 then scan_block_scalar s5 ch5
                  else if mem_N ch5 in_tokenize_2 then scan_flow_scalar s5 ch5
                  else scan_plain_scalar s5 false)).
  { destruct (mem_N ch5 in_tokenize_1); [apply block_cm_erase|].
    destruct (mem_N ch5 in_tokenize_2); [apply flag0_erase2 | apply plain_cm_erase]. }
  rewrite <- Hv.
  destruct (if mem_N ch5 in_tokenize_1 then scan_block_scalar_cm s5 ch5
            else if mem_N ch5 in_tokenize_2 then flag0 (scan_flow_scalar s5 ch5)
            else scan_plain_scalar_cm s5 false) as [[[s6 v] cm6]|e]; reflexivity.
Qed.

Lemma tokenize_f_cm_erase : forall fuel s cm,
  fst (tokenize_f_cm fuel s cm) = tokenize_f fuel s.
Proof.
  induction fuel as [|f IH]; intros s cm; [reflexivity|].
  cbn [tokenize_f_cm tokenize_f]. rewrite <- (tok_iter_cm_erase s). unfold wstrip.
  destruct (tok_iter_cm s) as [ts [[[s'|] c]|e]]; cbn [fst snd strip bind]; try reflexivity.
  specialize (IH s' (cm || c)). destruct (tokenize_f_cm f s' (cm || c)) as [[ts' e] c'].
  cbn [fst] in IH. rewrite <- IH. reflexivity.
Qed.

(* the flag never influences the pairs or the error *)
Theorem options_to_items_state_erase text :
  strip (options_to_items_state text) = options_to_items text.
Proof.
  unfold options_to_items_state, options_to_items, tokenize.
  pose proof (tokenize_f_cm_erase (fuel_of (new_stream text)) (new_stream text) false) as H.
  destruct (tokenize_f_cm (fuel_of (new_stream text)) (new_stream text) false) as [[toks pending] cm].
  cbn [fst] in H. rewrite <- H. destruct (to_items toks pending None); reflexivity.
Qed.
