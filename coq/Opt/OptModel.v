(* Model of myst_parser/parsers/options.py, function by function.
   Executable definitions only; proofs are in OptSafe.v / OptAgree*.v.

   - StreamBuffer = record (index, line, column, remaining code points); the remaining
     buffer ends with the sentinel _CHARS_END that StreamBuffer.__init__ appends.
   - peek k = buffer[index+k] : IndexError when out of range; prefix = slice (never raises).
   - every character class / table comes from Gen/OptConsts.v (regenerated from the source).
   - every `while` that is not a plain count over the buffer is a fuel loop whose fuel is
     S (number of remaining code points) at loop entry; OutOfFuel is shown unreachable
     (C07_terminates).
   - exceptions are values; generator laziness of _tokenize (tokens yielded before an
     exception are consumed first by _to_tokens) is kept by the writer [wres]. *)
From Coq Require Import List NArith Bool.
From MV Require Import Base.PyStr.
From MV Require Import Base.Res.
From MV Require Import Gen.OptConsts.
Import ListNotations.
Open Scope N_scope.

Definition c_space : N := 32.
Definition c_tab   : N := 9.
Definition c_hash  : N := 35.
Definition c_colon : N := 58.
Definition c_squote : N := 39.
Definition c_dquote : N := 34.
Definition c_bslash : N := 92.
Definition c_plus  : N := 43.
Definition c_gt    : N := 62.
Definition c_cr    : N := 13.
Definition c_lf    : N := 10.
Definition c_bom   : N := 65279.   (* "﻿" *)

(* ------------------------------------------------------------------ StreamBuffer *)

Record stream := mkS { s_idx : N; s_line : N; s_col : N; s_rest : str }.

(* StreamBuffer(text): buffer = text + _CHARS_END *)
Definition new_stream (text : str) : stream := mkS 0 0 0 (text ++ CHARS_END).

Definition peek (s : stream) (k : nat) : res N :=
  match nth_error (s_rest s) k with Some c => Ok c | None => Raise IndexError end.

Definition prefix (s : stream) (k : nat) : str := firstn k (s_rest s).

(* one round of the `while length:` loop of forward *)
Definition forward1 (s : stream) : res stream :=
  match s_rest s with
  | [] => Raise IndexError
  | ch :: r =>
      let nl := mkS (s_idx s + 1) (s_line s + 1) 0 r in
      let other := if negb (ch =? c_bom) then mkS (s_idx s + 1) (s_line s) (s_col s + 1) r
                   else mkS (s_idx s + 1) (s_line s) (s_col s) r in
      if mem_N ch in_forward_0 then Ok nl
      else if ch =? c_cr then
        match r with
        | [] => Raise IndexError                     (* self._buffer[self._index] *)
        | n :: _ => if negb (n =? c_lf) then Ok nl else Ok other
        end
      else Ok other
  end.

Fixpoint forward (s : stream) (k : nat) : res stream :=
  match k with
  | O => Ok s
  | S k' => do s' <- forward1 s; forward s' k'
  end.

(* `while stream.peek(length) <in class>: length += 1` : a count over the buffer *)
Fixpoint count_while (p : N -> bool) (l : str) : res nat :=
  match l with
  | [] => Raise IndexError
  | c :: l' => if p c then do n <- count_while p l'; Ok (S n) else Ok O
  end.

(* `while <p (stream.peek())>: stream.forward()` *)
Fixpoint skip_while_f (fuel : nat) (p : N -> bool) (s : stream) : res stream :=
  match fuel with
  | O => Raise OutOfFuel
  | S f => do ch <- peek s 0;
           if p ch then do s' <- forward s 1; skip_while_f f p s' else Ok s
  end.

Definition fuel_of (s : stream) : nat := S (length (s_rest s)).

Definition skip_while (p : N -> bool) (s : stream) : res stream :=
  skip_while_f (fuel_of s) p s.

Definition is_end (ch : N) : bool := str_eqb [ch] CHARS_END.      (* ch == _CHARS_END *)

(* ------------------------------------------------------------------ _scan_line_break *)

Definition scan_line_break (s : stream) : res (stream * str) :=
  do ch <- peek s 0;
  if mem_N ch in_scan_line_break_0 then
    if str_eqb (prefix s 2) [c_cr; c_lf] then do s' <- forward s 2; Ok (s', [c_lf])
    else do s' <- forward s 1; Ok (s', [c_lf])
  else if mem_N ch in_scan_line_break_1 then do s' <- forward s 1; Ok (s', [ch])
  else Ok (s, []).

(* truthiness / comparisons of the returned str *)
Definition nonempty (x : str) : bool := match x with [] => false | _ => true end.
Definition is_lf (x : str) : bool := str_eqb x [c_lf].

(* ------------------------------------------------------------------ _scan_to_next_token *)

Fixpoint scan_to_next_token_f (fuel : nat) (s : stream) : res stream :=
  match fuel with
  | O => Raise OutOfFuel
  | S f =>
      do s1 <- skip_while (fun ch => ch =? c_space) s;
      do ch <- peek s1 0;
      do s2 <- (if ch =? c_hash
                then skip_while (fun ch => negb (mem_N ch in_scan_to_next_token_0)) s1
                else Ok s1);
      do sb <- scan_line_break s2;
      let '(s3, lb) := sb in
      if negb (nonempty lb) then Ok s3 else scan_to_next_token_f f s3
  end.

Definition scan_to_next_token (s : stream) : res stream :=
  do s0 <- (if s_idx s =? 0 then
              do ch <- peek s 0; if ch =? c_bom then forward s 1 else Ok s
            else Ok s);
  scan_to_next_token_f (fuel_of s0) s0.

(* ------------------------------------------------------------------ _scan_plain_spaces *)

(* while stream.peek() in _CHARS_SPACE_NEWLINE: space -> forward, else breaks.append(line break) *)
Fixpoint plain_breaks_f (fuel : nat) (s : stream) (breaks : list str) : res (stream * list str) :=
  match fuel with
  | O => Raise OutOfFuel
  | S f =>
      do ch <- peek s 0;
      if mem_N ch in_scan_plain_spaces_1 then
        if ch =? c_space then do s' <- forward s 1; plain_breaks_f f s' breaks
        else do sb <- scan_line_break s; let '(s', lb) := sb in plain_breaks_f f s' (breaks ++ [lb])
      else Ok (s, breaks)
  end.

Definition scan_plain_spaces (s : stream) (allow_newline : bool) : res (stream * list str) :=
  do length <- count_while (fun ch => ch =? c_space) (s_rest s);
  let whitespaces := prefix s length in
  do s1 <- forward s length;
  do ch <- peek s1 0;
  if allow_newline && mem_N ch in_scan_plain_spaces_0 then
    do sb <- scan_line_break s1;
    let '(s2, line_break) := sb in
    do sb2 <- plain_breaks_f (fuel_of s2) s2 [];
    let '(s3, breaks) := sb2 in
    let chunks :=
      if negb (is_lf line_break) then [line_break]
      else match breaks with [] => [[c_space]] | _ => [] end in
    Ok (s3, chunks ++ breaks)
  else if nonempty whitespaces then Ok (s1, [whitespaces])
  else Ok (s1, []).

(* ------------------------------------------------------------------ _scan_plain_scalar *)

(* the inner `while True:` computing length *)
Fixpoint plain_len (is_key : bool) (l : str) : res nat :=
  match l with
  | [] => Raise IndexError
  | ch :: l' =>
      if mem_N ch in_scan_plain_scalar_0 then Ok O
      else
        do stop <- (if is_key && (ch =? c_colon) then
                      match l' with
                      | [] => Raise IndexError
                      | n :: _ => Ok (mem_N n in_scan_plain_scalar_1)
                      end
                    else Ok false);
        if stop then Ok O else do n <- plain_len is_key l'; Ok (S n)
  end.

Fixpoint plain_scalar_f (fuel : nat) (is_key : bool) (s : stream)
         (chunks spaces : list str) : res (stream * list str) :=
  match fuel with
  | O => Raise OutOfFuel
  | S f =>
      do ch <- peek s 0;
      if ch =? c_hash then Ok (s, chunks)
      else
        do length <- plain_len is_key (s_rest s);
        match length with
        | O => Ok (s, chunks)
        | _ =>
            let chunks' := chunks ++ spaces ++ [prefix s length] in
            do s1 <- forward s length;
            do sp <- scan_plain_spaces s1 (negb is_key);
            let '(s2, spaces') := sp in
            let indent := if is_key then 0 else 1 in
            match spaces' with
            | [] => do _ <- peek s2 0; Ok (s2, chunks')     (* `if stream.peek() == "#"` inside the if *)
            | _ =>
                do ch2 <- peek s2 0;
                if (ch2 =? c_hash) || (s_col s2 <? indent) then Ok (s2, chunks')
                else plain_scalar_f f is_key s2 chunks' spaces'
            end
        end
  end.

Definition scan_plain_scalar (s : stream) (is_key : bool) : res (stream * str) :=
  do r <- plain_scalar_f (fuel_of s) is_key s [] [];
  let '(s', chunks) := r in Ok (s', concat chunks).

(* ------------------------------------------------------------------ flow scalars *)

Fixpoint flow_scalar_breaks_f (fuel : nat) (s : stream) (chunks : list str)
  : res (stream * list str) :=
  match fuel with
  | O => Raise OutOfFuel
  | S f =>
      do s1 <- skip_while (fun ch => mem_N ch in_scan_flow_scalar_breaks_0) s;
      do ch <- peek s1 0;
      if mem_N ch in_scan_flow_scalar_breaks_1 then
        do sb <- scan_line_break s1;
        let '(s2, lb) := sb in flow_scalar_breaks_f f s2 (chunks ++ [lb])
      else Ok (s1, chunks)
  end.

Definition scan_flow_scalar_breaks (s : stream) : res (stream * list str) :=
  flow_scalar_breaks_f (fuel_of s) s [].

Definition scan_flow_scalar_spaces (s : stream) : res (stream * list str) :=
  do length <- count_while (fun ch => mem_N ch in_scan_flow_scalar_spaces_0) (s_rest s);
  let whitespaces := prefix s length in
  do s1 <- forward s length;
  do ch <- peek s1 0;
  if is_end ch then Raise (TokenizeError (s_idx s1))
  else if mem_N ch in_scan_flow_scalar_spaces_1 then
    do sb <- scan_line_break s1;
    let '(s2, line_break) := sb in
    do sb2 <- scan_flow_scalar_breaks s2;
    let '(s3, breaks) := sb2 in
    let chunks :=
      if negb (is_lf line_break) then [line_break]
      else match breaks with [] => [[c_space]] | _ => [] end in
    Ok (s3, chunks ++ breaks)
  else Ok (s1, [whitespaces]).

Fixpoint assoc {A} (c : N) (l : list (N * A)) : option A :=
  match l with
  | [] => None
  | (k, v) :: l' => if c =? k then Some v else assoc c l'
  end.

(* for k in range(length): if stream.peek(k) not in <hex digits>: raise *)
Fixpoint hex_check (n : nat) (l : str) : res bool :=
  match n with
  | O => Ok true
  | S n' =>
      match l with
      | [] => Raise IndexError
      | c :: l' => if mem_N c in_scan_flow_scalar_non_spaces_2 then hex_check n' l' else Ok false
      end
  end.

(* int(c, 16) of one character *)
Definition hexdig (c : N) : option N :=
  if (48 <=? c) && (c <=? 57) then Some (c - 48)
  else if (65 <=? c) && (c <=? 70) then Some (c - 55)
  else if (97 <=? c) && (c <=? 102) then Some (c - 87)
  else None.

Fixpoint hex_acc (acc : N) (l : str) : res N :=
  match l with
  | [] => Ok acc
  | c :: l' => match hexdig c with
               | Some d => hex_acc (16 * acc + d) l'
               | None => Raise ValueError
               end
  end.

(* int(s, 16) for the strings that can reach it (ASCII); int("", 16) is a ValueError *)
Definition int16 (l : str) : res N :=
  match l with [] => Raise ValueError | _ => hex_acc 0 l end.

(* chr(code): ValueError above 0x10FFFF, OverflowError above the C int range *)
Definition py_chr (code : N) : res N :=
  if code <=? 1114111 then Ok code
  else if code <=? 2147483647 then Raise ValueError
  else Raise OverflowError.

(* the `elif double and ch == "\\":` branch of _scan_flow_scalar_non_spaces *)
Definition scan_escape (s : stream) : res (stream * list str) :=
  do s1 <- forward s 1;
  do ch <- peek s1 0;
  match assoc ch ESCAPE_REPLACEMENTS with
  | Some rep => do s2 <- forward s1 1; Ok (s2, [rep])
  | None =>
      match assoc ch ESCAPE_CODES with
      | Some len =>
          let length := N.to_nat len in
          do s2 <- forward s1 1;
          do allhex <- hex_check length (s_rest s2);
          if negb allhex then Raise (TokenizeError (s_idx s2))
          else
            do code <- int16 (prefix s2 length);
            if (match CHR_GUARD with Some g => g <? code | None => false end)
            then Raise (TokenizeError (s_idx s2))
            else
              do c <- py_chr code;
              do s3 <- forward s2 length;
              Ok (s3, [[c]])
      | None =>
          if mem_N ch in_scan_flow_scalar_non_spaces_3 then
            do sb <- scan_line_break s1;
            let '(s2, _) := sb in
            scan_flow_scalar_breaks s2
          else Raise (TokenizeError (s_idx s1))
      end
  end.

(* the if / elif chain of _scan_flow_scalar_non_spaces after the run of ordinary characters:
   Some (stream, chunks) = something was scanned, go round the `while True:` again; None = return *)
Definition flow_ns_branch (s1 : stream) (double : bool) : res (option (stream * list str)) :=
  do ch <- peek s1 0;
  do q2 <- (if negb double && (ch =? c_squote)
            then do n <- peek s1 1; Ok (n =? c_squote) else Ok false);
  if q2 then
    do s2 <- forward s1 2; Ok (Some (s2, [[c_squote]]))
  else if (double && (ch =? c_squote))
          || (negb double && mem_N ch in_scan_flow_scalar_non_spaces_1) then
    do s2 <- forward s1 1; Ok (Some (s2, [[ch]]))
  else if double && (ch =? c_bslash) then
    do r <- scan_escape s1; Ok (Some r)
  else Ok None.

Fixpoint flow_non_spaces_f (fuel : nat) (s : stream) (double : bool) (chunks : list str)
  : res (stream * list str) :=
  match fuel with
  | O => Raise OutOfFuel
  | S f =>
      do length <- count_while (fun ch => negb (mem_N ch in_scan_flow_scalar_non_spaces_0))
                               (s_rest s);
      let chunks1 := match length with O => chunks | _ => chunks ++ [prefix s length] end in
      do s1 <- forward s length;
      do b <- flow_ns_branch s1 double;
      match b with
      | Some (s2, cs) => flow_non_spaces_f f s2 double (chunks1 ++ cs)
      | None => Ok (s1, chunks1)
      end
  end.

Definition scan_flow_scalar_non_spaces (s : stream) (double : bool)
  : res (stream * list str) := flow_non_spaces_f (fuel_of s) s double [].

(* while stream.peek() != quote: spaces; non_spaces *)
Fixpoint flow_scalar_f (fuel : nat) (s : stream) (double : bool) (quote : N)
         (chunks : list str) : res (stream * list str) :=
  match fuel with
  | O => Raise OutOfFuel
  | S f =>
      do ch <- peek s 0;
      if negb (ch =? quote) then
        do r1 <- scan_flow_scalar_spaces s;
        let '(s1, c1) := r1 in
        do r2 <- scan_flow_scalar_non_spaces s1 double;
        let '(s2, c2) := r2 in
        flow_scalar_f f s2 double quote (chunks ++ c1 ++ c2)
      else Ok (s, chunks)
  end.

Definition scan_flow_scalar (s : stream) (style : N) : res (stream * str) :=
  let double := style =? c_dquote in
  do quote <- peek s 0;
  do s1 <- forward s 1;
  do r <- scan_flow_scalar_non_spaces s1 double;
  let '(s2, c0) := r in
  do r2 <- flow_scalar_f (fuel_of s1) s2 double quote c0;
  let '(s3, chunks) := r2 in
  do s4 <- forward s3 1;
  Ok (s4, concat chunks).

(* ------------------------------------------------------------------ block scalars *)

(* int(ch) for ch in "0123456789" *)
Definition digit_val (ch : N) : res N :=
  if (48 <=? ch) && (ch <=? 57) then Ok (ch - 48) else Raise ValueError.

(* chomping: None / Some true (+) / Some false (-) ; increment: None / Some n *)
Definition scan_block_scalar_indicators (s : stream)
  : res (stream * option bool * option N) :=
  do ch <- peek s 0;
  do r <-
    (if mem_N ch in_scan_block_scalar_indicators_0 then
       let chomping := Some (ch =? c_plus) in
       do s1 <- forward s 1;
       do ch1 <- peek s1 0;
       if mem_N ch1 in_scan_block_scalar_indicators_1 then
         do inc <- digit_val ch1;
         if inc =? 0 then Raise (TokenizeError (s_idx s1))
         else do s2 <- forward s1 1; Ok (s2, chomping, Some inc)
       else Ok (s1, chomping, None)
     else if mem_N ch in_scan_block_scalar_indicators_2 then
       do inc <- digit_val ch;
       if inc =? 0 then Raise (TokenizeError (s_idx s))
       else
         do s1 <- forward s 1;
         do ch1 <- peek s1 0;
         if mem_N ch1 in_scan_block_scalar_indicators_3 then
           do s2 <- forward s1 1; Ok (s2, Some (ch1 =? c_plus), Some inc)
         else Ok (s1, None, Some inc)
     else Ok (s, None, None));
  let '(s', chomping, increment) := r in
  do ch' <- peek s' 0;
  if negb (mem_N ch' in_scan_block_scalar_indicators_4) then Raise (TokenizeError (s_idx s'))
  else Ok (s', chomping, increment).

Definition scan_block_scalar_ignored_line (s : stream) : res stream :=
  do s1 <- skip_while (fun ch => ch =? c_space) s;
  do ch <- peek s1 0;
  do s2 <- (if ch =? c_hash
            then skip_while (fun ch => negb (mem_N ch in_scan_block_scalar_ignored_line_0)) s1
            else Ok s1);
  do ch2 <- peek s2 0;
  if negb (mem_N ch2 in_scan_block_scalar_ignored_line_1) then Raise (TokenizeError (s_idx s2))
  else do sb <- scan_line_break s2; Ok (fst sb).

Fixpoint block_indentation_f (fuel : nat) (s : stream) (chunks : list str) (max_indent : N)
  : res (stream * list str * N) :=
  match fuel with
  | O => Raise OutOfFuel
  | S f =>
      do ch <- peek s 0;
      if mem_N ch in_scan_block_scalar_indentation_0 then
        if negb (ch =? c_space) then
          do sb <- scan_line_break s;
          let '(s', lb) := sb in block_indentation_f f s' (chunks ++ [lb]) max_indent
        else
          do s' <- forward s 1;
          block_indentation_f f s' chunks
            (if max_indent <? s_col s' then s_col s' else max_indent)
      else Ok (s, chunks, max_indent)
  end.

Definition scan_block_scalar_indentation (s : stream) : res (stream * list str * N) :=
  block_indentation_f (fuel_of s) s [] 0.

(* while stream.column < indent and stream.peek() == " ": stream.forward() *)
Fixpoint skip_indent_f (fuel : nat) (indent : N) (s : stream) : res stream :=
  match fuel with
  | O => Raise OutOfFuel
  | S f =>
      if s_col s <? indent then
        do ch <- peek s 0;
        if ch =? c_space then do s' <- forward s 1; skip_indent_f f indent s' else Ok s
      else Ok s
  end.

Definition skip_indent (indent : N) (s : stream) : res stream :=
  skip_indent_f (fuel_of s) indent s.

Fixpoint block_breaks_f (fuel : nat) (indent : N) (s : stream) (chunks : list str)
  : res (stream * list str) :=
  match fuel with
  | O => Raise OutOfFuel
  | S f =>
      do ch <- peek s 0;
      if mem_N ch in_scan_block_scalar_breaks_0 then
        do sb <- scan_line_break s;
        let '(s1, lb) := sb in
        do s2 <- skip_indent indent s1;
        block_breaks_f f indent s2 (chunks ++ [lb])
      else Ok (s, chunks)
  end.

Definition scan_block_scalar_breaks (s : stream) (indent : N) : res (stream * list str) :=
  do s1 <- skip_indent indent s;
  block_breaks_f (fuel_of s1) indent s1 [].

(* `stream.column == indent and stream.peek() != _CHARS_END` : Some ch when it holds *)
Definition at_content (s : stream) (indent : N) : res (option N) :=
  if s_col s =? indent then
    do ch <- peek s 0; if negb (is_end ch) then Ok (Some ch) else Ok None
  else Ok None.

(* the body of the `while stream.column == indent and stream.peek() != _CHARS_END:` loop,
   entered with the test already true and [ch] = stream.peek();
   returns (stream, chunks, line_break, breaks) at loop exit *)
Fixpoint block_lines_f (fuel : nat) (folded : bool) (indent : N) (s : stream) (ch : N)
         (chunks : list str) (breaks : list str)
  : res (stream * list str * str * list str) :=
  match fuel with
  | O => Raise OutOfFuel
  | S f =>
      let chunks1 := chunks ++ breaks in
      let leading_non_space := negb (mem_N ch in_scan_block_scalar_0) in
      do length <- count_while (fun c => negb (mem_N c in_scan_block_scalar_1)) (s_rest s);
      let chunks2 := chunks1 ++ [prefix s length] in
      do s1 <- forward s length;
      do sb <- scan_line_break s1;
      let '(s2, line_break) := sb in
      do bb <- scan_block_scalar_breaks s2 indent;
      let '(s3, breaks') := bb in
      do ac <- at_content s3 indent;
      match ac with
      | Some ch3 =>
          let chunks3 :=
            if folded && is_lf line_break && leading_non_space
               && negb (mem_N ch3 in_scan_block_scalar_2)
            then match breaks' with [] => chunks2 ++ [[c_space]] | _ => chunks2 end
            else chunks2 ++ [line_break] in
          block_lines_f f folded indent s3 ch3 chunks3 breaks'
      | None => Ok (s3, chunks2, line_break, breaks')
      end
  end.

Definition scan_block_scalar (s : stream) (style : N) : res (stream * str) :=
  let folded := style =? c_gt in
  do s1 <- forward s 1;
  do ind <- scan_block_scalar_indicators s1;
  let '(s2, chomping, increment) := ind in
  do s3 <- scan_block_scalar_ignored_line s2;
  let min_indent := 1 in
  do r <- (match increment with
           | None =>
               do x <- scan_block_scalar_indentation s3;
               let '(s4, breaks, max_indent) := x in
               Ok (s4, breaks, N.max min_indent max_indent)
           | Some inc =>
               let indent := min_indent + inc - 1 in
               do x <- scan_block_scalar_breaks s3 indent;
               let '(s4, breaks) := x in Ok (s4, breaks, indent)
           end);
  let '(s4, breaks, indent) := r in
  do ac <- at_content s4 indent;
  do r2 <- (match ac with
            | Some ch => block_lines_f (fuel_of s4) folded indent s4 ch [] breaks
            | None => Ok (s4, [], [], breaks)
            end);
  let '(s5, chunks, line_break, breaks') := r2 in
  let chunks1 := match chomping with Some false => chunks | _ => chunks ++ [line_break] end in
  let chunks2 := match chomping with Some true => chunks1 ++ breaks' | _ => chunks1 end in
  Ok (s5, concat chunks2).

(* ------------------------------------------------------------------ _tokenize *)

Inductive token :=
| TKey (v : str)
| TColon
| TValue (start : N) (v : str).

(* a generator run: the tokens yielded so far and how it went on *)
Definition wres (A : Type) : Type := (list token * res A)%type.
Definition liftw {A} (r : res A) : wres A := ([], r).
Definition yield (t : token) : wres unit := ([t], Ok tt).
Definition bindw {A B} (m : wres A) (f : A -> wres B) : wres B :=
  match m with
  | (ts, Raise e) => (ts, Raise e)
  | (ts, Ok a) => let '(ts', r) := f a in (ts ++ ts', r)
  end.

Notation "'dow' x <- r ; k" := (bindw r (fun x => k))
  (at level 200, x pattern, r at level 100, k at level 200, right associativity).

(* one round of the `while True:` of _tokenize; None = break *)
Definition tok_iter (s : stream) : wres (option stream) :=
  dow s1 <- liftw (scan_to_next_token s);
  dow ch <- liftw (peek s1 0);
  if is_end ch then liftw (Ok None)
  else if negb (s_col s1 =? 0) then liftw (Raise (TokenizeError (s_idx s1)))
  else
    dow kr <- liftw (if mem_N ch in_tokenize_0 then scan_flow_scalar s1 ch
                     else scan_plain_scalar s1 true);
    let '(s2, k) := kr in
    dow _ <- yield (TKey k);
    dow s3 <- liftw (scan_to_next_token s2);
    dow ch3 <- liftw (peek s3 0);
    if negb (ch3 =? c_colon) then liftw (Raise (TokenizeError (s_idx s3)))
    else
      dow s4 <- liftw (forward s3 1);
      dow _ <- yield TColon;
      dow s5 <- liftw (scan_to_next_token s4);
      dow ch5 <- liftw (peek s5 0);
      if s_col s5 =? 0 then liftw (Ok (Some s5))
      else
        dow vr <- liftw (if mem_N ch5 in_tokenize_1 then scan_block_scalar s5 ch5
                         else if mem_N ch5 in_tokenize_2 then scan_flow_scalar s5 ch5
                         else scan_plain_scalar s5 false);
        let '(s6, v) := vr in
        dow _ <- yield (TValue (s_idx s5) v);
        liftw (Ok (Some s6)).

Fixpoint tokenize_f (fuel : nat) (s : stream) : list token * option exn :=
  match fuel with
  | O => ([], Some OutOfFuel)
  | S f =>
      match tok_iter s with
      | (ts, Raise e) => (ts, Some e)
      | (ts, Ok None) => (ts, None)
      | (ts, Ok (Some s')) => let '(ts', e) := tokenize_f f s' in (ts ++ ts', e)
      end
  end.

Definition tokenize (text : str) : list token * option exn :=
  let s := new_stream text in tokenize_f (fuel_of s) s.

(* ------------------------------------------------------------------ _to_tokens / options_to_items *)

(* the for-loop of _to_tokens merged with the one of options_to_items:
   (key, value or "") pairs; [pending] is the exception the generator ends with *)
Fixpoint to_items (toks : list token) (pending : option exn) (key : option str)
  : res (list (str * str)) :=
  match toks with
  | [] =>
      match pending with
      | Some e => Raise e
      | None => Ok (match key with Some k => [(k, [])] | None => [] end)
      end
  | TKey k :: r =>
      do out <- to_items r pending (Some k);
      Ok (match key with Some k0 => (k0, []) :: out | None => out end)
  | TColon :: r => to_items r pending key
  | TValue start v :: r =>
      match key with
      | None => Raise (TokenizeError start)
      | Some k0 => do out <- to_items r pending None; Ok ((k0, v) :: out)
      end
  end.

Definition options_to_items (text : str) : res (list (str * str)) :=
  let '(toks, pending) := tokenize text in to_items toks pending None.
