(* The property theorems restated for the tokenizer built from the translated scanners. *)
From Coq Require Import List NArith Bool.
From MV Require Import Base.PyStr.
From MV Require Import Base.Res.
From MV Require Import Opt.OptModel.
From MV Require Import Opt.OptSafe.
From MV Require Import Opt.YamlSpec.
From MV Require Import Opt.OptAgreeAll.
From MV Require Import Opt.OptNul.
From MV Require Import Opt.OptSrcTop.
From MV Require Import Opt.OptSrcCompose.
Import ListNotations.
Open Scope N_scope.

Theorem terminates_src text : options_to_items_src text <> Raise OutOfFuel.
Proof. rewrite options_to_items_src_eq. apply terminates. Qed.

Theorem only_tokenize_error_src text :
  (exists pairs, options_to_items_src text = Ok pairs) \/
  (exists p, options_to_items_src text = Raise (TokenizeError p) /\ p <= N.of_nat (length text)).
Proof. rewrite options_to_items_src_eq. apply only_tokenize_error. Qed.

Theorem yaml_agree_src b : wf_block b = true -> options_to_items_src (print_block b) = Ok (meaning_block b).
Proof. rewrite options_to_items_src_eq. apply yaml_agree. Qed.

Theorem nul_truncates_src (a b : str) : options_to_items_src (a ++ 0 :: b) = options_to_items_src a.
Proof. rewrite !options_to_items_src_eq. apply nul_truncates. Qed.
