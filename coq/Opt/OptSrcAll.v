(* The property theorems restated for the entry point translated from options.py
   (options_to_items_full: every function and the class StreamBuffer are translated code). *)
From Coq Require Import List NArith Bool.
From MV Require Import Base.PyStr.
From MV Require Import Base.Res.
From MV Require Import Opt.OptModel.
From MV Require Import Opt.OptSafe.
From MV Require Import Opt.YamlSpec.
From MV Require Import Opt.OptAgreeAll.
From MV Require Import Opt.OptNul.
From MV Require Import Opt.OptMarksDef.
From MV Require Import Opt.OptSrcLib.
From MV Require Import Gen.OptSrc.
From MV Require Import Opt.OptSrcTop.
From MV Require Import Opt.OptSrcCompose.
From MV Require Import Opt.OptSrcGlue.
From MV Require Import Opt.OptSrcFull.
Import ListNotations.
Open Scope N_scope.

Theorem full_refines text : options_to_items_full text = options_to_items text.
Proof. rewrite options_to_items_full_eq. apply options_to_items_src_eq. Qed.

Theorem terminates_src text : options_to_items_full text <> Raise OutOfFuel.
Proof. rewrite full_refines. apply terminates. Qed.

Theorem in_bounds_src text : options_to_items_full text <> Raise IndexError.
Proof. rewrite full_refines. apply in_bounds. Qed.

Theorem only_tokenize_error_src text :
  (exists pairs, options_to_items_full text = Ok pairs) \/
  (exists p, options_to_items_full text = Raise (TokenizeError p) /\ p <= N.of_nat (length text)).
Proof. rewrite full_refines. apply only_tokenize_error. Qed.

Theorem yaml_agree_src b : wf_block b = true -> options_to_items_full (print_block b) = Ok (meaning_block b).
Proof. rewrite full_refines. apply yaml_agree. Qed.

Theorem nul_truncates_src (a b : str) : options_to_items_full (a ++ 0 :: b) = options_to_items_full a.
Proof. rewrite !full_refines. apply nul_truncates. Qed.

(* class StreamBuffer as translated from the source = the primitives of the model *)
Theorem streambuffer_src (s : stream) (k : nat) (text : str) :
  peek_src s k = peek s k /\ prefix_src s k = prefix s k /\ forward_src s k = forward s k /\
  get_position_src s = (s_idx s, s_line s, s_col s) /\ new_stream_src text = new_stream text.
Proof. repeat split; [apply peek_src_eq | apply forward_src_eq]. Qed.

Theorem clone_positions_src text lo co p :
  clone_src (OptMarksDef.error_mark text 0 0 p) lo co = OptMarksDef.error_mark text lo co p /\
  reraise_mark_src (OptMarksDef.error_mark text 0 0 p) lo co = OptMarksDef.error_mark text lo co p.
Proof. split; [apply clone_src_positions | apply reraise_mark_src_eq]. Qed.
