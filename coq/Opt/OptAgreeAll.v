(* Agreement: every scalar family of the supported subset is covered; the theorem for whole
   blocks needs no premise beyond well-formedness. *)
From Coq Require Import List NArith Bool Lia ZifyBool Arith.
From MV Require Import Base.PyStr.
From MV Require Import Base.Res.
From MV Require Import Gen.OptConsts.
From MV Require Import Opt.OptModel.
From MV Require Import Opt.YamlSpec.
From MV Require Import Opt.OptAgreeBase.
From MV Require Import Opt.OptAgreePlain.
From MV Require Import Opt.OptAgree.
From MV Require Import Opt.OptAgreeTop.
From MV Require Import Opt.OptAgreeBlock.
From MV Require Import Opt.OptAgreeFlow.
From MV Require Import Opt.OptAgreeQuoted.
Import ListNotations.
Open Scope N_scope.

Lemma wf_item_ok it : wf_item it = true -> OptAgree.item_ok it.
Proof.
  destruct it as [t tr|k ksp v tr]; [intros; exact I|].
  cbn [wf_item OptAgree.item_ok]. intros Hwf. apply andb_true_iff in Hwf as [Hk Hv]. split.
  - destruct k as [l|t|t].
    + apply key_spec_plain. exact Hk.
    + apply key_spec_single. exact Hk.
    + apply key_spec_double. exact Hk.
  - destruct v as [tsp cm|vsp f tsp cm|vsp folded h lead indent first more]; [exact I | |].
    + destruct f as [l0 more|l0 more|l0 more].
      * apply value_spec_plain. exact Hv.
      * apply value_spec_single. exact Hv.
      * apply value_spec_double. exact Hv.
    + apply value_spec_block. exact Hv.
Qed.

(* per family: a block whose only item has the given key / value *)
Theorem yaml_agree b : wf_block b = true ->
  options_to_items (print_block b) = Ok (meaning_block b).
Proof.
  intros Hwf. apply block_agree; [exact Hwf|].
  unfold wf_block in Hwf. rewrite forallb_forall in Hwf.
  apply Forall_forall. intros it Hin. apply wf_item_ok. auto.
Qed.
