(* Agreement: the families of scalars covered by proofs, assembled. *)
From Coq Require Import List NArith Bool Lia ZifyBool Arith.
From MV Require Import Base.PyStr.
From MV Require Import Base.Res.
From MV Require Import Gen.OptConsts.
From MV Require Import Opt.OptModel.
From MV Require Import Opt.YamlSpec.
From MV Require Import Opt.OptAgreeBase.
From MV Require Import Opt.OptAgreePlain.
From MV Require Import Opt.OptAgree.
From MV Require Import Opt.OptAgreeTop.
Import ListNotations.
Open Scope N_scope.

(* the scalar families for which key_spec / value_spec are proved *)
Definition covered_key (k : key) : bool :=
  match k with KPlain _ => true | _ => false end.
Definition covered_value (v : value) : bool :=
  match v with
  | VNone _ _ => true
  | VFlow _ (FPlain _ _) _ _ => true
  | _ => false
  end.
Definition covered_item (it : item) : bool :=
  match it with IComment _ _ => true | IKV k _ v _ => covered_key k && covered_value v end.
Definition covered_block (b : block) : bool := forallb covered_item (b_items b).

Lemma covered_item_ok it : wf_item it = true -> covered_item it = true -> item_ok it.
Proof.
  destruct it as [t tr|k ksp v tr]; [intros; exact I|].
  cbn [wf_item covered_item item_ok]. intros Hwf Hcov.
  apply andb_true_iff in Hwf as [Hk Hv]. apply andb_true_iff in Hcov as [Ck Cv]. split.
  - destruct k as [l|t|t]; try discriminate. apply key_spec_plain. exact Hk.
  - destruct v as [tsp cm|vsp f tsp cm|vsp folded h lead indent first more]; [exact I | | discriminate].
    destruct f as [l0 more|l0 more|l0 more]; try discriminate. apply value_spec_plain. exact Hv.
Qed.

Theorem yaml_agree_covered b : wf_block b = true -> covered_block b = true ->
  options_to_items (print_block b) = Ok (meaning_block b).
Proof.
  intros Hwf Hcov. apply block_agree; [exact Hwf|].
  unfold wf_block, covered_block in *. rewrite forallb_forall in *.
  apply Forall_forall. intros it Hin. apply covered_item_ok; auto.
Qed.
