(* Agreement: every scalar family of the supported subset is covered; the theorem for whole
   blocks needs no premise beyond well-formedness. *)
From Coq Require Import List NArith Bool Lia ZifyBool Arith.
From MV Require Import Base.PyStr.
From MV Require Import Base.Res.
From MV Require Import Gen.OptConsts.
From MV Require Import Opt.OptModel.
From MV Require Import Opt.YamlSpec.
From MV Require Import Opt.OptAgreeBase.
From MV Require Import Opt.OptAgreePlain.
From MV Require Import Opt.OptAgree.
From MV Require Import Opt.OptAgreeTop.
From MV Require Import Opt.OptAgreeBlock.
From MV Require Import Opt.OptAgreeFlow.
From MV Require Import Opt.OptAgreeQuoted.
From MV Require Import Opt.OptAgreeFin.
Import ListNotations.
Open Scope N_scope.

Lemma wf_item_ok it : wf_item it = true -> OptAgree.item_ok it.
Proof.
  destruct it as [n t tr|k ksp v tr]; [intros; exact I|].
  cbn [wf_item OptAgree.item_ok]. intros Hwf. apply andb_true_iff in Hwf as [Hwf Htr].
  apply andb_true_iff in Hwf as [Hk Hv]. split.
  - destruct k as [l|t|t].
    + apply key_spec_plain. exact Hk.
    + apply key_spec_single. exact Hk.
    + apply key_spec_double. exact Hk.
  - destruct v as [tsp cm|vsp f tsp cm|vsp folded h lead indent first more]; [exact I | |].
    + destruct f as [l0 more|l0 more|l0 more].
      * apply value_spec_plain. exact Hv.
      * apply value_spec_single. exact Hv.
      * apply value_spec_double. exact Hv.
    + apply value_spec_block; [exact Hv | exact Htr].
Qed.

Lemma wf_item_ic_ok it : wf_item it = true -> item_ic_ok it.
Proof.
  destruct it as [n t tr|k ksp v tr]; [intros; exact I|].
  cbn [wf_item item_ic_ok]. intros Hwf. apply andb_true_iff in Hwf as [Hwf Htr].
  apply andb_true_iff in Hwf as [Hk Hv].
  destruct v as [tsp cm|vsp f tsp cm|vsp folded h lead indent first more].
  - intros m Heat. discriminate Heat.
  - destruct f as [l0 more|l0 more|l0 more].
    + apply value_spec_ic_plain. exact Hv.
    + intros m Heat. discriminate Heat.
    + intros m Heat. discriminate Heat.
  - apply value_spec_ic_block; [exact Hv | exact Htr].
Qed.

Theorem yaml_agree b : wf_block b = true ->
  options_to_items (print_block b) = Ok (meaning_block b).
Proof.
  intros Hwf. pose proof Hwf as Hwf0. unfold wf_block in Hwf0.
  apply andb_true_iff in Hwf0 as [Hwf0 _]. apply andb_true_iff in Hwf0 as [Hwf0 _].
  rewrite forallb_forall in Hwf0.
  apply block_agree; [exact Hwf | | |].
  - apply Forall_forall. intros it Hin. apply wf_item_ok. auto.
  - apply Forall_forall. intros it Hin. apply wf_item_ic_ok. auto.
  - intros k ksp vsp f tsp cm tr Hin. specialize (Hwf0 _ Hin). cbn [wf_item wf_value] in Hwf0.
    apply bare_flow. apply andb_true_iff in Hwf0 as [Hwf0 _]. apply andb_true_iff in Hwf0 as [_ Hv].
    apply andb_true_iff in Hv as [Hv _]. apply andb_true_iff in Hv as [_ Hv]. exact Hv.
Qed.

(* the final line break is optional when the last line is a key with its value (if any) on it *)
Lemma print_block_nolf lead items : last_item_ok items = true ->
  print_block (BK lead items true) = print_block (BK lead items false) ++ [10].
Proof.
  intros H. unfold print_block. cbn [b_lead b_items b_final_nl]. rewrite <- app_assoc. f_equal.
  induction items as [|it r IH]; [discriminate|].
  destruct r as [|it' r'].
  - cbn [last_item_ok] in H. cbn [print_items_fin].
    destruct it as [n t tr|k ksp v tr]; [discriminate|].
    destruct v as [tsp cm|vsp f tsp cm|]; destruct tr; try discriminate;
      cbn [print_item print_item_nolf print_value print_value_nolf bl map concat];
      rewrite ?app_nil_r, <- ?app_assoc; reflexivity.
  - cbn [last_item_ok] in H.
    change (print_items_fin true (it :: it' :: r')) with (print_item it ++ print_items_fin true (it' :: r')).
    change (print_items_fin false (it :: it' :: r')) with (print_item it ++ print_items_fin false (it' :: r')).
    rewrite (IH H), <- app_assoc. reflexivity.
Qed.

Theorem final_newline_optional lead items :
  wf_block (BK lead items true) = true -> last_item_ok items = true ->
  options_to_items (print_block (BK lead items false)) = options_to_items (print_block (BK lead items true)).
Proof.
  intros Hwf Hlast. rewrite (yaml_agree _ Hwf).
  assert (Hwf' : wf_block (BK lead items false) = true).
  { unfold wf_block in *. cbn [b_items b_final_nl] in *. rewrite Hlast.
    apply andb_true_iff in Hwf as [Hwf _]. rewrite Hwf. reflexivity. }
  rewrite (yaml_agree _ Hwf'). reflexivity.
Qed.
