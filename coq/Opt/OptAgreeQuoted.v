(* Agreement, quoted scalars: the single- and double-quoted instances of the machine of
   OptAgreeFlow.v (doubled quote, foreign quote characters, every escape form incl. hex escapes,
   multi-line folding), and key_spec / value_spec for quoted keys and values. *)
From Coq Require Import List NArith Bool Lia ZifyBool Arith.
From MV Require Import Base.PyStr.
From MV Require Import Base.Res.
From MV Require Import Gen.OptConsts.
From MV Require Import Opt.OptModel.
From MV Require Import Opt.YamlSpec.
From MV Require Import Opt.OptAgreeBase.
From MV Require Import Opt.OptAgreePlain.
From MV Require Import Opt.OptAgree.
From MV Require Import Opt.OptAgreeFlow.
Import ListNotations.
Open Scope N_scope.

(* ------------------------------------------------------------------ the if/elif chain on special items *)

Lemma fwd1 s c t : nocr c -> s_rest s = c :: t -> forward s 1 = Ok (after s [c]).
Proof. intros Hc Hr. apply (forward_after [c] s t); [repeat constructor; exact Hc | exact Hr]. Qed.

(* '' inside a single-quoted scalar *)
Lemma branch_sq_quote s rest' : s_rest s = [39; 39] ++ rest' ->
  flow_ns_branch s false = Ok (Some (after s [39; 39], [[39]])).
Proof.
  intros Hr. cbn [app] in Hr. unfold flow_ns_branch. rewrite (peek0 _ _ _ Hr). cbn [bind negb andb].
  replace (39 =? c_squote) with true by reflexivity.
  assert (Hp1 : peek s 1 = Ok 39) by (unfold peek; rewrite Hr; reflexivity).
  rewrite Hp1. cbn [bind]. replace (39 =? c_squote) with true by reflexivity.
  assert (Hf : forward s 2 = Ok (after s [39; 39])).
  { apply (forward_after [39; 39] s rest'); [repeat constructor; charfact | exact Hr]. }
  rewrite Hf. reflexivity.
Qed.

(* a double quote or a backslash inside a single-quoted scalar *)
Lemma branch_sq_lit c s rest' : c = 34 \/ c = 92 -> s_rest s = [c] ++ rest' ->
  flow_ns_branch s false = Ok (Some (after s [c], [[c]])).
Proof.
  intros Hc Hr. cbn [app] in Hr. unfold flow_ns_branch. rewrite (peek0 _ _ _ Hr). cbn [bind negb andb].
  replace (c =? c_squote) with false by (destruct Hc; subst; reflexivity). cbn [bind orb].
  replace (mem_N c in_scan_flow_scalar_non_spaces_1) with true by (destruct Hc; subst; reflexivity).
  rewrite (fwd1 s c rest'); [reflexivity | destruct Hc; subst; charfact | exact Hr].
Qed.

(* a single quote inside a double-quoted scalar *)
Lemma branch_dq_quote s rest' : s_rest s = [39] ++ rest' ->
  flow_ns_branch s true = Ok (Some (after s [39], [[39]])).
Proof.
  intros Hr. cbn [app] in Hr. unfold flow_ns_branch. rewrite (peek0 _ _ _ Hr). cbn [bind negb andb orb].
  replace (39 =? c_squote) with true by reflexivity. cbn [orb].
  rewrite (fwd1 s 39 rest'); [reflexivity | charfact | exact Hr].
Qed.

Lemma branch_dq_bslash s t : s_rest s = 92 :: t ->
  flow_ns_branch s true = do r <- scan_escape s; Ok (Some r).
Proof.
  intros Hr. unfold flow_ns_branch. rewrite (peek0 _ _ _ Hr). cbn [bind negb andb orb].
  replace (92 =? c_squote) with false by reflexivity.
  replace (92 =? c_bslash) with true by reflexivity. reflexivity.
Qed.

(* the escape table of the code against the YAML 1.1 table of the spec *)
Lemma lookup_In c l r : lookup c l = Some r -> In (c, r) l.
Proof.
  induction l as [|[k v] l IH]; cbn [lookup]; [discriminate|].
  destruct (c =? k) eqn:E.
  - intros H. inversion H; subst. apply N.eqb_eq in E. subst. left. reflexivity.
  - intros H. right. auto.
Qed.

Lemma F_escape_table :
  forallb (fun kv => match assoc (fst kv) ESCAPE_REPLACEMENTS with
                     | Some [v'] => (snd kv =? v') && negb (fst kv =? 13)
                     | _ => false
                     end) yaml_escapes = true.
Proof. vm_compute. reflexivity. Qed.

Lemma escape_table c r : yaml_escape c = Some r ->
  assoc c ESCAPE_REPLACEMENTS = Some [r] /\ c <> 13.
Proof.
  intros H. apply lookup_In in H. pose proof F_escape_table as HF. rewrite forallb_forall in HF.
  specialize (HF _ H). cbn [fst snd] in HF.
  destruct (assoc c ESCAPE_REPLACEMENTS) as [[|v' [|? ?]]|]; try discriminate.
  apply andb_true_iff in HF as [H1 H2]. apply N.eqb_eq in H1. subst. split; [reflexivity | lia].
Qed.

Lemma branch_dq_esc c r s rest' : yaml_escape c = Some r -> s_rest s = [92; c] ++ rest' ->
  flow_ns_branch s true = Ok (Some (after s [92; c], [[r]])).
Proof.
  intros He Hr. cbn [app] in Hr. destruct (escape_table c r He) as [Ha Hc].
  rewrite (branch_dq_bslash s _ Hr). unfold scan_escape.
  rewrite (fwd1 s 92 _ ltac:(charfact) Hr). cbn [bind].
  pose proof (rest_after [92] s _ Hr) as Hr1.
  rewrite (peek0 _ _ _ Hr1). cbn [bind]. rewrite Ha.
  rewrite (fwd1 _ c rest' Hc Hr1). cbn [bind]. rewrite <- after_app. reflexivity.
Qed.

(* hex escapes *)
Lemma is_hex_mem c : is_hex c = true -> mem_N c in_scan_flow_scalar_non_spaces_2 = true.
Proof.
  unfold is_hex, mem_N, in_scan_flow_scalar_non_spaces_2. cbn [existsb]. lia.
Qed.

Lemma is_hex_dig c : is_hex c = true -> hexdig c = Some (hexval1 c).
Proof.
  unfold is_hex, hexdig, hexval1. intros H.
  destruct ((48 <=? c) && (c <=? 57)) eqn:E1.
  - replace (c <=? 57) with true by lia. reflexivity.
  - destruct ((65 <=? c) && (c <=? 70)) eqn:E2.
    + replace (c <=? 57) with false by lia. replace (c <=? 70) with true by lia. reflexivity.
    + replace ((97 <=? c) && (c <=? 102)) with true by lia.
      replace (c <=? 57) with false by lia. replace (c <=? 70) with false by lia. reflexivity.
Qed.

Lemma hex_check_all : forall ds rest', forallb is_hex ds = true ->
  hex_check (length ds) (ds ++ rest') = Ok true.
Proof.
  induction ds as [|c ds IH]; intros rest' H; [reflexivity|].
  cbn [forallb] in H. apply andb_true_iff in H as [Hc H].
  cbn [length hex_check app]. rewrite (is_hex_mem c Hc). apply IH. exact H.
Qed.

Lemma hex_acc_val : forall ds a, forallb is_hex ds = true ->
  hex_acc a ds = Ok (fold_left (fun a c => 16 * a + hexval1 c) ds a).
Proof.
  induction ds as [|c ds IH]; intros a H; [reflexivity|].
  cbn [forallb] in H. apply andb_true_iff in H as [Hc H].
  cbn [hex_acc fold_left]. rewrite (is_hex_dig c Hc). apply IH. exact H.
Qed.

Lemma is_hex_nocr ds : forallb is_hex ds = true -> Forall nocr ds.
Proof.
  rewrite forallb_forall. intros H. apply Forall_forall. intros c Hc. specialize (H _ Hc).
  unfold is_hex in H. unfold nocr, c_cr. lia.
Qed.

(* the range test of the repaired code does not reject a valid code point *)
Lemma F_guard_ge : match CHR_GUARD with Some g => 1114111 <=? g | None => true end = true.
Proof. reflexivity. Qed.

Lemma branch_dq_hex k ds len s rest' :
  assoc k ESCAPE_REPLACEMENTS = None -> assoc k ESCAPE_CODES = Some len ->
  N.to_nat len = length ds -> ds <> [] -> nocr k ->
  forallb is_hex ds = true -> hexval ds <= 1114111 ->
  s_rest s = (92 :: k :: ds) ++ rest' ->
  flow_ns_branch s true = Ok (Some (after s (92 :: k :: ds), [[hexval ds]])).
Proof.
  intros Hrep Hcode Hlen Hne Hk Hhex Hval Hr. cbn [app] in Hr.
  rewrite (branch_dq_bslash s _ Hr). unfold scan_escape.
  rewrite (fwd1 s 92 _ ltac:(charfact) Hr). cbn [bind].
  pose proof (rest_after [92] s _ Hr) as Hr1.
  rewrite (peek0 _ _ _ Hr1). cbn [bind]. rewrite Hrep, Hcode.
  rewrite (fwd1 _ k _ Hk Hr1). cbn [bind].
  pose proof (rest_after [k] _ _ Hr1) as Hr2. set (s2 := after (after s [92]) [k]) in *.
  rewrite Hlen, Hr2, (hex_check_all ds rest' Hhex). cbn [bind negb].
  rewrite (prefix_app s2 ds rest' Hr2).
  assert (Hint : int16 ds = Ok (hexval ds)).
  { unfold int16, hexval. destruct ds; [congruence|]. apply hex_acc_val. exact Hhex. }
  rewrite Hint. cbn [bind].
  pose proof F_guard_ge as HG.
  assert (Hg : (match CHR_GUARD with Some g => g <? hexval ds | None => false end) = false).
  { destruct CHR_GUARD as [g|]; [lia | reflexivity]. }
  rewrite Hg. unfold py_chr. replace (hexval ds <=? 1114111) with true by lia. cbn [bind].
  rewrite (forward_after ds s2 rest' (is_hex_nocr ds Hhex) Hr2). cbn [bind].
  unfold s2. rewrite <- !after_app. reflexivity.
Qed.

Lemma Forall_wsc_wsq0 l : forallb wsc l = true -> Forall wsq l.
Proof.
  rewrite forallb_forall. intros H. apply Forall_forall. intros c Hc. specialize (H _ Hc).
  unfold wsc in H. unfold wsq. lia.
Qed.

(* an escaped line break: backslash, line feed, blank lines, leading white space of the next line *)
Lemma branch_dq_brk (k : list str) ind c t s : Forall (Forall wsq) k -> Forall wsq ind -> solid c ->
  s_rest s = [92; 10] ++ blw k ++ ind ++ c :: t ->
  flow_ns_branch s true = Ok (Some (after s ([92; 10] ++ blw k ++ ind), repeat [10] (length k))).
Proof.
  intros Hk Hind Hc Hr. cbn [app] in Hr.
  rewrite (branch_dq_bslash s _ Hr). unfold scan_escape.
  rewrite (fwd1 s 92 _ ltac:(charfact) Hr). cbn [bind].
  pose proof (rest_after [92] s _ Hr) as Hr1.
  rewrite (peek0 _ _ _ Hr1). cbn [bind].
  replace (assoc 10 ESCAPE_REPLACEMENTS) with (@None (list N)) by reflexivity.
  replace (assoc 10 ESCAPE_CODES) with (@None N) by reflexivity.
  replace (mem_N 10 in_scan_flow_scalar_non_spaces_3) with true by reflexivity.
  rewrite (scan_line_break_lf _ _ Hr1). cbn [bind].
  pose proof (rest_after [10] _ _ Hr1) as Hr2.
  unfold scan_flow_scalar_breaks.
  rewrite (flow_breaks_spec k _ _ [] ind c t Hk Hind Hc Hr2).
  2:{ unfold fuel_of. rewrite Hr2, app_length. pose proof (blw_length k) as Hbl. clear - Hbl. lia. }
  cbn [app]. rewrite <- !after_app. reflexivity.
Qed.

(* ------------------------------------------------------------------ items of the two styles *)

Definition sq_item (c : N) : qitem :=
  if c =? 39 then QI [39; 39] [39] QSpecial false
  else if (c =? 34) || (c =? 92) then QI [c] [c] QSpecial false
  else if wsc c then QI [c] [c] QWs false
  else QI [c] [c] QOrd false.

Definition dq_el (d : dq_item) : qitem :=
  match d with
  | DChr c => if c =? 39 then QI [c] [c] QSpecial false
              else if wsc c then QI [c] [c] QWs false else QI [c] [c] QOrd false
  | DEsc c => QI [92; c] (dq_meaning_item (DEsc c)) QSpecial false
  | DHex k ds => QI (92 :: k :: ds) [hexval ds] QSpecial false
  | DBrk k ind => QI ([92; 10] ++ blw k ++ ind) (nls (length k)) QSpecial true
  end.

Lemma solid_39 : solid 39. Proof. unfold solid. repeat split; reflexivity. Qed.
Lemma solid_34 : solid 34. Proof. unfold solid. repeat split; reflexivity. Qed.
Lemma solid_92 : solid 92. Proof. unfold solid. repeat split; reflexivity. Qed.

Lemma sq_item_ok c : txtc c = true -> item_ok false (sq_item c).
Proof.
  intros Hc. unfold sq_item, item_ok.
  destruct (c =? 39) eqn:E39; cbn [q_kind q_print q_mean].
  { exists 39, [39]. split; [reflexivity|]. split; [reflexivity|]. split; [apply solid_39|].
    split; [repeat constructor; charfact|]. intros s rest' Hr _. eexists. split; [apply (branch_sq_quote s rest' Hr) | reflexivity]. }
  destruct ((c =? 34) || (c =? 92)) eqn:Eq; cbn [q_kind q_print q_mean].
  { assert (Hc' : c = 34 \/ c = 92) by lia.
    exists c, []. split; [reflexivity|].
    split; [destruct Hc'; subst; reflexivity|].
    split; [destruct Hc'; subst; [apply solid_34 | apply solid_92]|].
    split; [repeat constructor; destruct Hc'; subst; charfact|].
    intros s rest' Hr _. eexists. split; [apply (branch_sq_lit c s rest' Hc' Hr) | reflexivity]. }
  destruct (wsc c) eqn:Ew; cbn [q_kind q_print q_mean].
  { exists c. split; [reflexivity|]. split; [reflexivity|]. unfold wsq, wsc in *. lia. }
  exists c. split; [reflexivity|]. split; [reflexivity|]. unfold ordc. split; charfact.
Qed.

Lemma wf_dq_hex k ds : wf_dq_item (DHex k ds) = true ->
  exists len, assoc k ESCAPE_REPLACEMENTS = None /\ assoc k ESCAPE_CODES = Some len /\
              N.to_nat len = length ds /\ ds <> [] /\ nocr k /\
              forallb is_hex ds = true /\ hexval ds <= 1114111.
Proof.
  cbn [wf_dq_item]. intros H. apply andb_true_iff in H as [H Hv]. apply andb_true_iff in H as [Hk Hh].
  assert (Hne : forall n, Nat.eqb (length ds) (S n) = true -> ds <> []).
  { intros n E Eds. subst. discriminate. }
  apply orb_true_iff in Hk as [Hk|Hk]; [apply orb_true_iff in Hk as [Hk|Hk]|];
    apply andb_true_iff in Hk as [Ek El]; apply N.eqb_eq in Ek; subst k;
    pose proof (Hne _ El) as Hn; apply Nat.eqb_eq in El.
  - exists 2. repeat split; try reflexivity; try assumption; try (rewrite El; reflexivity); try charfact; lia.
  - exists 4. repeat split; try reflexivity; try assumption; try (rewrite El; reflexivity); try charfact; lia.
  - exists 8. repeat split; try reflexivity; try assumption; try (rewrite El; reflexivity); try charfact; lia.
Qed.

Lemma dq_el_ok d : wf_dq_item d = true -> item_ok true (dq_el d).
Proof.
  intros Hwf. destruct d as [c|c|k ds|k ind]; unfold item_ok; cbn [dq_el].
  - cbn [wf_dq_item] in Hwf. apply andb_true_iff in Hwf as [Hwf H92]. apply andb_true_iff in Hwf as [Hc H34].
    destruct (c =? 39) eqn:E39; cbn [q_kind q_print q_mean].
    { apply N.eqb_eq in E39. subst c.
      exists 39, []. split; [reflexivity|]. split; [reflexivity|]. split; [apply solid_39|].
      split; [repeat constructor; charfact|]. intros s rest' Hr _. eexists. split; [apply (branch_dq_quote s rest' Hr) | reflexivity]. }
    destruct (wsc c) eqn:Ew; cbn [q_kind q_print q_mean].
    { exists c. split; [reflexivity|]. split; [reflexivity|]. unfold wsq, wsc in *. lia. }
    exists c. split; [reflexivity|]. split; [reflexivity|]. unfold ordc. split; charfact.
  - cbn [wf_dq_item] in Hwf. cbn [q_kind q_print q_mean dq_meaning_item].
    destruct (yaml_escape c) as [r|] eqn:Ee; [|discriminate].
    destruct (escape_table c r Ee) as [_ Hc13].
    exists 92, [c]. split; [reflexivity|]. split; [reflexivity|]. split; [apply solid_92|].
    split; [repeat constructor; [charfact | exact Hc13]|].
    intros s rest' Hr _. eexists. split; [apply (branch_dq_esc c r s rest' Ee Hr) | reflexivity].
  - destruct (wf_dq_hex k ds Hwf) as (len & H1 & H2 & H3 & H4 & H5 & H6 & H7).
    cbn [q_kind q_print q_mean].
    exists 92, (k :: ds). split; [reflexivity|]. split; [reflexivity|]. split; [apply solid_92|].
    split; [constructor; [charfact|]; constructor; [exact H5 | apply is_hex_nocr; exact H6]|].
    intros s rest' Hr _. eexists. split; [apply (branch_dq_hex k ds len s rest' H1 H2 H3 H4 H5 H6 H7 Hr) | reflexivity].
  - (* escaped line break *)
    cbn [wf_dq_item] in Hwf. apply andb_true_iff in Hwf as [Hwk Hwf]. cbn [q_kind q_print q_mean q_ns].
    assert (Hks : Forall (Forall wsq) k).
    { rewrite forallb_forall in Hwk. apply Forall_forall. intros w Hw. apply Forall_wsc_wsq0. auto. }
    exists 92, ([10] ++ blw k ++ ind). split; [reflexivity|]. split; [reflexivity|]. split; [apply solid_92|].
    split.
    { constructor; [charfact|]. constructor; [charfact|]. apply Forall_app. split.
      - clear - Hks. induction k as [|w k IH]; [constructor|]. inversion Hks; subst. rewrite blw_cons.
        apply Forall_app. split; [apply Forall_wsq_nocr; assumption|]. constructor; [charfact | auto].
      - apply Forall_wsq_nocr. apply Forall_wsc_wsq0. exact Hwf. }
    intros s rest' Hr Hsol. destruct (Hsol eq_refl) as (c & t & -> & Hc).
    exists (repeat [10] (length k)). split; [|apply concat_repeat_lf].
    apply (branch_dq_brk k ind c t s Hks (Forall_wsc_wsq0 _ Hwf) Hc). rewrite Hr, <- !app_assoc. reflexivity.
Qed.

(* ------------------------------------------------------------------ lines as element lists *)

Section Lines.
  Variable A : Type.
  Variable double : bool.
  Variable f : A -> qitem.
  Variable wf_a : A -> bool.
  Variable wf_t : list A -> bool.
  Variable isws nsol : A -> bool.
  Variable ends_ws starts_ws : list A -> bool.

  (* an item that needs a solid follower is not followed by white space *)
  Fixpoint adj (t : list A) : bool :=
    match t with
    | [] => true
    | a :: t' => negb (nsol a && match t' with a' :: _ => isws a' | [] => false end) && adj t'
    end.

  Hypothesis H_ok : forall a, wf_a a = true -> item_ok double (f a).
  Hypothesis H_isws : forall a, wf_a a = true -> (q_kind (f a) = QWs <-> isws a = true).
  Hypothesis H_ns : forall a, q_ns (f a) = nsol a.
  Hypothesis H_wf_t : forall t, wf_t t = true -> forallb wf_a t = true /\ adj t = true.
  Hypothesis H_ends_nil : ends_ws [] = false.
  Hypothesis H_ends_cons : forall a t,
    ends_ws (a :: t) = match t with [] => isws a || nsol a | _ => ends_ws t end.
  Hypothesis H_starts : forall t, starts_ws t = match t with a :: _ => isws a | [] => false end.

  Definition line_els (t : list A) : list qel := map (fun a => QItem (f a)) t.
  Definition more_els (more : list (str * list str * str * list A)) : list qel :=
    flat_map (fun '(tws, k, ind, t) => QBrk tws k ind :: line_els t) more.

  Definition starts_brk (R : list qel) : Prop := match R with QBrk _ _ _ :: _ => True | _ => False end.

  Lemma els_wf_line : forall t R, forallb wf_a t = true -> adj t = true -> els_wf double R ->
    (starts_brk R -> ends_ws t = false) -> (R = [] \/ starts_brk R) ->
    els_wf double (line_els t ++ R).
  Proof.
    induction t as [|a t IH]; intros R Hwf Hadj HR Hb HRs; [exact HR|].
    cbn [forallb] in Hwf. apply andb_true_iff in Hwf as [Ha Hwf].
    cbn [adj] in Hadj. apply andb_true_iff in Hadj as [Hadj1 Hadj].
    cbn [line_els map app els_wf]. fold (line_els t).
    split; [apply H_ok; exact Ha|]. split; [|split].
    - intros Hk. apply (H_isws a Ha) in Hk.
      destruct t as [|a' t'].
      + cbn [line_els map app]. destruct R as [|[?|? ? ?] ?]; auto.
        specialize (Hb I). rewrite H_ends_cons, Hk in Hb. discriminate.
      + cbn [line_els map app]. exact I.
    - rewrite H_ns. intros Hn. destruct t as [|a' t'].
      + cbn [line_els map app]. destruct HRs as [->|Hs]; [exact I|].
        specialize (Hb Hs). rewrite H_ends_cons, Hn, orb_true_r in Hb. discriminate.
      + cbn [line_els map app next_solid]. rewrite Hn in Hadj1. cbn [andb] in Hadj1.
        apply negb_true_iff in Hadj1.
        cbn [forallb] in Hwf. apply andb_true_iff in Hwf as [Ha' _].
        intros Hk. apply (H_isws a' Ha') in Hk. congruence.
    - apply IH; [exact Hwf | exact Hadj | exact HR | | exact HRs]. intros Hs. specialize (Hb Hs).
      rewrite H_ends_cons in Hb. destruct t; [apply H_ends_nil | exact Hb].
  Qed.

  Lemma Forall_wsc_wsq l : forallb wsc l = true -> Forall wsq l.
  Proof. apply Forall_wsc_wsq0. Qed.

  Lemma more_els_head more : more_els more = [] \/ starts_brk (more_els more).
  Proof. destruct more as [|[[[tws k] ind] t] more]; [left; reflexivity | right; exact I]. Qed.

  Lemma els_wf_more : forall more first prev,
    wf_qmore wf_t ends_ws starts_ws is_nil first prev more = true ->
    wf_t prev = true ->
    els_wf double (line_els prev ++ more_els more) /\
    (first = false -> prev = [] -> more = []).
  Proof.
    induction more as [|[[[tws k] ind] t] more IH]; intros first prev Hq Hprev;
      destruct (H_wf_t prev Hprev) as [Hpa Hpadj].
    - cbn [more_els flat_map]. split; [|auto].
      apply (els_wf_line prev [] Hpa Hpadj I); [intros [] | left; reflexivity].
    - cbn [wf_qmore] in Hq.
      apply andb_true_iff in Hq as [Hq Hrec]. apply andb_true_iff in Hq as [Hq Hst].
      apply andb_true_iff in Hq as [Hq Hwt]. apply andb_true_iff in Hq as [Hq Hind].
      apply andb_true_iff in Hq as [Hq Hfi]. apply andb_true_iff in Hq as [Hq Hkws].
      apply andb_true_iff in Hq as [Hq Htws].
      apply andb_true_iff in Hq as [Hends Hne].
      apply negb_true_iff in Hends. apply negb_true_iff in Hst.
      destruct (IH false t Hrec Hwt) as [IH1 IH2].
      destruct (H_wf_t t Hwt) as [Hta _].
      split.
      + cbn [more_els flat_map]. fold (more_els more).
        apply (els_wf_line prev _ Hpa Hpadj); [|intros _; exact Hends | right; exact I].
        cbn [els_wf]. split; [apply Forall_wsc_wsq; exact Htws|]. split; [apply Forall_wsc_wsq; exact Hind|].
        split; [rewrite forallb_forall in Hkws; apply Forall_forall; intros w Hw; apply Forall_wsc_wsq; auto|].
        split; [|exact IH1].
        destruct t as [|a t'].
        * cbn [line_els map app]. rewrite (IH2 eq_refl eq_refl). exact I.
        * cbn [line_els map app]. rewrite H_starts in Hst.
          cbn [forallb] in Hta. apply andb_true_iff in Hta as [Ha _].
          intros Hk. apply (H_isws a Ha) in Hk. congruence.
      + intros Hf Hp. subst. cbn [orb is_nil negb] in Hne. discriminate.
  Qed.

  Lemma print_line_els t : print_els (line_els t) = flat_map (fun a => q_print (f a)) t.
  Proof. induction t as [|a t IH]; [reflexivity|]. unfold print_els, line_els in *. cbn [map flat_map print_el]. rewrite IH. reflexivity. Qed.
  Lemma mean_line_els t : mean_els (line_els t) = flat_map (fun a => q_mean (f a)) t.
  Proof. induction t as [|a t IH]; [reflexivity|]. unfold mean_els, line_els in *. cbn [map flat_map mean_el]. rewrite IH. reflexivity. Qed.

  Lemma print_els_app a b : print_els (a ++ b) = print_els a ++ print_els b.
  Proof. unfold print_els. apply flat_map_app. Qed.
  Lemma mean_els_app a b : mean_els (a ++ b) = mean_els a ++ mean_els b.
  Proof. unfold mean_els. apply flat_map_app. Qed.

  Lemma print_more_els (pr : list A -> str) more :
    (forall t, print_els (line_els t) = pr t) ->
    print_els (more_els more) =
    concat (map (fun '(tws, k, ind, t) => tws ++ [10] ++ blw k ++ ind ++ pr t) more).
  Proof.
    intros Hpr. induction more as [|[[[tws k] ind] t] more IH]; [reflexivity|].
    cbn [more_els flat_map map concat]. fold (more_els more). rewrite print_els_app, IH.
    cbn [print_els flat_map print_el]. fold (print_els (line_els t)). rewrite Hpr, <- !app_assoc. reflexivity.
  Qed.

  Lemma mean_more_els (mn : list A -> str) more :
    (forall t, mean_els (line_els t) = mn t) ->
    mean_els (more_els more) = concat (map (fun '(_, k, _, t) => fold_sep (length k) ++ mn t) more).
  Proof.
    intros Hmn. induction more as [|[[[tws k] ind] t] more IH]; [reflexivity|].
    cbn [more_els flat_map map concat]. fold (more_els more). rewrite mean_els_app, IH.
    cbn [mean_els flat_map mean_el]. fold (mean_els (line_els t)). rewrite Hmn, <- !app_assoc. reflexivity.
  Qed.
End Lines.

(* ------------------------------------------------------------------ the two styles *)

Lemma scan_quoted double quote E s X TL : quote_ok double quote -> els_wf double E ->
  X <> c_squote ->
  s_rest s = ([quote] ++ print_els E ++ [quote]) ++ X :: TL ->
  scan_flow_scalar s quote = Ok (after s ([quote] ++ print_els E ++ [quote]), mean_els E).
Proof.
  intros Hq Hwf HX Hr.
  apply (scan_flow_scalar_els double quote X TL Hq (fun _ => HX) E s Hwf).
  - destruct Hq as [[-> ->]|[-> ->]]; reflexivity.
  - rewrite Hr. unfold ENDT. cbn [app]. rewrite <- !app_assoc. reflexivity.
Qed.

Lemma last_is_cons p a t : last_is p (a :: t) = match t with [] => p a | _ => last_is p t end.
Proof. destruct t; reflexivity. Qed.

Definition isws_dq (d : dq_item) : bool := match d with DChr c => wsc c | _ => false end.

Lemma sq_isws c : txtc c = true -> (q_kind (sq_item c) = QWs <-> wsc c = true).
Proof.
  intros _. unfold sq_item.
  destruct (c =? 39) eqn:E1; cbn [q_kind]; [split; [discriminate | unfold wsc; lia]|].
  destruct ((c =? 34) || (c =? 92)) eqn:E2; cbn [q_kind]; [split; [discriminate | unfold wsc; lia]|].
  destruct (wsc c); cbn [q_kind]; split; congruence.
Qed.

Lemma dq_isws d : wf_dq_item d = true -> (q_kind (dq_el d) = QWs <-> isws_dq d = true).
Proof.
  intros _. destruct d as [c|c|k ds|k ind]; cbn [dq_el isws_dq q_kind]; try (split; discriminate).
  destruct (c =? 39) eqn:E1; cbn [q_kind]; [split; [discriminate | unfold wsc; lia]|].
  destruct (wsc c); cbn [q_kind]; split; congruence.
Qed.

Definition els_single (l0 : str) (more : list (str * list str * str * str)) : list qel :=
  line_els _ sq_item l0 ++ more_els _ sq_item more.
Definition els_double (l0 : list dq_item) (more : list (str * list str * str * list dq_item)) : list qel :=
  line_els _ dq_el l0 ++ more_els _ dq_el more.

Definition isbrk_dq (d : dq_item) : bool := dq_is_brk d.

Lemma adj_false {A} (isws : A -> bool) (t : list A) : adj A isws (fun _ => false) t = true.
Proof. induction t as [|a t IH]; [reflexivity|]. cbn [adj andb negb]. exact IH. Qed.

Lemma els_single_wf l0 more : wf_flow (FSingle l0 more) = true -> els_wf false (els_single l0 more).
Proof.
  cbn [wf_flow]. intros H. apply andb_true_iff in H as [H0 Hm].
  refine (proj1 (els_wf_more N false sq_item txtc sq_ok wsc (fun _ => false) (last_is wsc) (first_is wsc)
                   sq_item_ok sq_isws _ _ eq_refl _ _ more true l0 Hm H0)).
  - intros c. unfold sq_item. destruct (c =? 39); [reflexivity|].
    destruct ((c =? 34) || (c =? 92)); [reflexivity|]. destruct (wsc c); reflexivity.
  - intros t Ht. split; [exact Ht | apply adj_false].
  - intros a t. rewrite last_is_cons, orb_false_r. reflexivity.
  - intros t. destruct t; reflexivity.
Qed.

Lemma dq_adj t : adj dq_item isws_dq dq_is_brk t = dq_brk_ok t.
Proof.
  induction t as [|d t IH]; [reflexivity|]. cbn [adj dq_brk_ok]. rewrite IH.
  destruct t as [|d' t']; reflexivity.
Qed.

Lemma dq_last_ws_cons' d t :
  dq_last_ws (d :: t) = match t with [] => isws_dq d || dq_is_brk d | _ => dq_last_ws t end.
Proof. destruct t; reflexivity. Qed.

Lemma els_double_wf l0 more : wf_flow (FDouble l0 more) = true -> els_wf true (els_double l0 more).
Proof.
  cbn [wf_flow]. intros H. apply andb_true_iff in H as [H0 Hm].
  refine (proj1 (els_wf_more dq_item true dq_el wf_dq_item wf_dq_line isws_dq dq_is_brk dq_last_ws dq_first_ws
                   dq_el_ok dq_isws _ _ eq_refl dq_last_ws_cons' _ more true l0 Hm H0)).
  - intros [c|c|k ds|k ind]; cbn [dq_el q_ns dq_is_brk]; try reflexivity.
    destruct (c =? 39); [reflexivity|]. destruct (wsc c); reflexivity.
  - intros t Ht. unfold wf_dq_line in Ht. apply andb_true_iff in Ht as [H1 H2].
    split; [exact H1 | rewrite dq_adj; exact H2].
  - intros t. destruct t as [|[c|c|k ds|k ind] t]; reflexivity.
Qed.

Lemma print_sq_els t : print_els (line_els _ sq_item t) = print_sq t.
Proof.
  rewrite print_line_els. unfold print_sq. apply flat_map_ext. intros c. unfold sq_item.
  destruct (c =? 39); [reflexivity|]. destruct ((c =? 34) || (c =? 92)); [reflexivity|].
  destruct (wsc c); reflexivity.
Qed.

Lemma mean_sq_els t : mean_els (line_els _ sq_item t) = t.
Proof.
  rewrite mean_line_els. induction t as [|c t IH]; [reflexivity|]. cbn [flat_map]. rewrite IH.
  unfold sq_item. destruct (c =? 39) eqn:E; [apply N.eqb_eq in E; subst; reflexivity|].
  destruct ((c =? 34) || (c =? 92)); [reflexivity|]. destruct (wsc c); reflexivity.
Qed.

Lemma print_dq_els t : print_els (line_els _ dq_el t) = print_dq t.
Proof.
  rewrite print_line_els. unfold print_dq. apply flat_map_ext. intros [c|c|k ds|k ind]; cbn [dq_el print_dq_item q_print]; try reflexivity.
  destruct (c =? 39); [reflexivity|]. destruct (wsc c); reflexivity.
Qed.

Lemma mean_dq_els t : mean_els (line_els _ dq_el t) = dq_meaning t.
Proof.
  rewrite mean_line_els. unfold dq_meaning. apply flat_map_ext. intros [c|c|k ds|k ind]; cbn [dq_el dq_meaning_item q_mean]; try reflexivity.
  destruct (c =? 39); [reflexivity|]. destruct (wsc c); reflexivity.
Qed.

Lemma print_single l0 more : print_flow (FSingle l0 more) = [39] ++ print_els (els_single l0 more) ++ [39].
Proof.
  cbn [print_flow]. unfold els_single. rewrite print_els_app, print_sq_els.
  rewrite (print_more_els _ sq_item print_sq more print_sq_els). rewrite <- !app_assoc. reflexivity.
Qed.

Lemma mean_single l0 more : flow_meaning (FSingle l0 more) = mean_els (els_single l0 more).
Proof.
  cbn [flow_meaning]. unfold els_single. rewrite mean_els_app, mean_sq_els.
  rewrite (mean_more_els _ sq_item (fun t => t) more mean_sq_els). reflexivity.
Qed.

Lemma print_double l0 more : print_flow (FDouble l0 more) = [34] ++ print_els (els_double l0 more) ++ [34].
Proof.
  cbn [print_flow]. unfold els_double. rewrite print_els_app, print_dq_els.
  rewrite (print_more_els _ dq_el print_dq more print_dq_els). rewrite <- !app_assoc. reflexivity.
Qed.

Lemma mean_double l0 more : flow_meaning (FDouble l0 more) = mean_els (els_double l0 more).
Proof.
  cbn [flow_meaning]. unfold els_double. rewrite mean_els_app, mean_dq_els.
  rewrite (mean_more_els _ dq_el dq_meaning more mean_dq_els). reflexivity.
Qed.

(* ------------------------------------------------------------------ keys *)

Lemma key_spec_quoted double quote E k :
  quote_ok double quote -> els_wf double E ->
  print_key k = [quote] ++ print_els E ++ [quote] -> key_meaning k = mean_els E ->
  key_spec k.
Proof.
  intros Hq Hwf Hp Hm. unfold key_spec.
  exists quote, (print_els E ++ [quote]). split; [rewrite Hp; reflexivity|].
  split; [destruct Hq as [[_ ->]|[_ ->]]; [right; left | left]; reflexivity|].
  intros s ksp x t Hx Hcol Hr. exists O. split; [lia|].
  unfold key_scan. replace (mem_N quote in_tokenize_0) with true
    by (destruct Hq as [[_ ->]|[_ ->]]; reflexivity).
  cbn [sp repeat]. rewrite app_nil_r, Hp, Hm.
  assert (HX : exists X TL, sp ksp ++ 58 :: x :: t = X :: TL /\ X <> c_squote).
  { destruct ksp; [|rewrite sp_S]; cbn [sp repeat app]; eexists; eexists; (split; [reflexivity | discriminate]). }
  destruct HX as (X & TL & EX & HX).
  apply (scan_quoted double quote E s X TL Hq Hwf HX). rewrite Hr, Hp, EX. reflexivity.
Qed.

Lemma key_spec_single t : wf_key (KSingle t) = true -> key_spec (KSingle t).
Proof.
  cbn [wf_key]. intros H.
  apply (key_spec_quoted false 39 (els_single t [])); [right; split; reflexivity | | |].
  - apply els_single_wf. cbn [wf_flow wf_qmore]. rewrite H. reflexivity.
  - rewrite <- print_single. reflexivity.
  - rewrite <- mean_single. cbn [flow_meaning map concat key_meaning]. rewrite app_nil_r. reflexivity.
Qed.

Lemma key_spec_double t : wf_key (KDouble t) = true -> key_spec (KDouble t).
Proof.
  cbn [wf_key]. intros H. apply andb_true_iff in H as [H _].
  apply (key_spec_quoted true 34 (els_double t [])); [left; split; reflexivity | | |].
  - apply els_double_wf. cbn [wf_flow wf_qmore]. rewrite H. reflexivity.
  - rewrite <- print_double. reflexivity.
  - rewrite <- mean_double. cbn [flow_meaning map concat key_meaning]. rewrite app_nil_r. reflexivity.
Qed.

(* ------------------------------------------------------------------ values *)

Lemma value_spec_quoted double quote E vsp f tsp cm trail :
  quote_ok double quote -> els_wf double E -> comment_ok tsp cm = true ->
  print_flow f = [quote] ++ print_els E ++ [quote] -> flow_meaning f = mean_els E ->
  value_spec (VFlow vsp f tsp cm) trail.
Proof.
  intros Hq Hwf Hcm Hp Hm. unfold value_spec. cbn [value_text value_meaning]. rewrite Hp, Hm.
  exists quote, (print_els E ++ [quote] ++ sp tsp ++ print_comment cm ++ [10] ++ bl trail).
  split; [cbn [app]; rewrite <- !app_assoc; reflexivity|].
  split; [destruct Hq as [[_ ->]|[_ ->]]; unfold stopc, lbc; repeat split; try discriminate; reflexivity|].
  intros s c0 t0 Hcol Hc0 Hr.
  exists ([quote] ++ print_els E ++ [quote]), ((tsp, cm) :: blanks trail).
  split; [|split; [|split]].
  - rewrite print_ltails_cons, print_blanks. unfold print_ltail. cbn [fst snd].
    rewrite <- !app_assoc. reflexivity.
  - cbn [forallb]. rewrite wf_blanks, andb_true_r. unfold wf_ltail. cbn [snd].
    destruct cm as [tc|]; [|reflexivity]. cbn [comment_ok] in Hcm. apply andb_true_iff in Hcm. tauto.
  - discriminate.
  - unfold value_scan.
    replace (mem_N quote in_tokenize_1) with false by (destruct Hq as [[_ ->]|[_ ->]]; reflexivity).
    replace (mem_N quote in_tokenize_2) with true by (destruct Hq as [[_ ->]|[_ ->]]; reflexivity).
    assert (HX : exists X TL, sp tsp ++ print_comment cm ++ [10] ++ bl trail ++ c0 :: t0 = X :: TL /\ X <> c_squote).
    { destruct tsp; [|rewrite sp_S]; cbn [sp repeat app].
      - destruct cm; cbn [print_comment app]; eexists; eexists; (split; [reflexivity | discriminate]).
      - eexists; eexists; (split; [reflexivity | discriminate]). }
    destruct HX as (X & TL & EX & HX).
    apply (scan_quoted double quote E s X TL Hq Hwf HX). rewrite Hr, <- EX, <- !app_assoc. reflexivity.
Qed.

Lemma value_spec_single vsp l0 more tsp cm trail :
  wf_value (VFlow vsp (FSingle l0 more) tsp cm) = true ->
  value_spec (VFlow vsp (FSingle l0 more) tsp cm) trail.
Proof.
  cbn [wf_value]. intros H. apply andb_true_iff in H as [H Hcm]. apply andb_true_iff in H as [_ Hf].
  apply (value_spec_quoted false 39 (els_single l0 more)); [right; split; reflexivity | | exact Hcm | |].
  - apply els_single_wf. exact Hf.
  - apply print_single.
  - apply mean_single.
Qed.

Lemma value_spec_double vsp l0 more tsp cm trail :
  wf_value (VFlow vsp (FDouble l0 more) tsp cm) = true ->
  value_spec (VFlow vsp (FDouble l0 more) tsp cm) trail.
Proof.
  cbn [wf_value]. intros H. apply andb_true_iff in H as [H Hcm]. apply andb_true_iff in H as [_ Hf].
  apply (value_spec_quoted true 34 (els_double l0 more)); [left; split; reflexivity | | exact Hcm | |].
  - apply els_double_wf. exact Hf.
  - apply print_double.
  - apply mean_double.
Qed.
