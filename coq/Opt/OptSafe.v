(* Totality of the tokenizer model: every loop terminates within its fuel, the buffer is never
   indexed out of range (the sentinel is never consumed), and the only exception is
   TokenizeError with an index inside the text. *)
From Coq Require Import List NArith Bool Lia ZifyBool Arith.
From MV Require Import Base.PyStr.
From MV Require Import Base.Res.
From MV Require Import Gen.OptConsts.
From MV Require Import Opt.OptModel.
Import ListNotations.
Open Scope N_scope.

(* ------------------------------------------------------------------ result predicates *)

Definition safe {A} (n : N) (Q : A -> Prop) (r : res A) : Prop :=
  match r with
  | Ok a => Q a
  | Raise (TokenizeError p) => p <= n
  | Raise _ => False
  end.

Lemma safe_bind {A B} n (Q : A -> Prop) (Q' : B -> Prop) (r : res A) (f : A -> res B) :
  safe n Q r -> (forall a, Q a -> safe n Q' (f a)) -> safe n Q' (bind r f).
Proof.
  destruct r as [a|e]; cbn [safe bind]; intros H1 H2; [auto|].
  destruct e; auto.
Qed.

Lemma safe_mono {A} n (Q Q' : A -> Prop) (r : res A) :
  safe n Q r -> (forall a, Q a -> Q' a) -> safe n Q' r.
Proof. destruct r as [a|e]; cbn [safe]; auto. Qed.

(* ------------------------------------------------------------------ stream invariant *)

Definition nz (c : N) : Prop := c <> 0.

Definition wfs (n : N) (s : stream) : Prop :=
  s_idx s + N.of_nat (length (s_rest s)) = n + 1 /\ exists pre, s_rest s = pre ++ [0].

Definition le_s (s s' : stream) : Prop := (length (s_rest s') <= length (s_rest s))%nat.
Definition lt_s (s s' : stream) : Prop := (length (s_rest s') < length (s_rest s))%nat.

Lemma le_s_refl s : le_s s s. Proof. unfold le_s; lia. Qed.
Lemma le_s_trans a b c : le_s a b -> le_s b c -> le_s a c. Proof. unfold le_s; lia. Qed.
Lemma lt_le_s a b : lt_s a b -> le_s a b. Proof. unfold le_s, lt_s; lia. Qed.
Lemma lt_le_trans a b c : lt_s a b -> le_s b c -> lt_s a c. Proof. unfold le_s, lt_s; lia. Qed.
Lemma le_lt_trans a b c : le_s a b -> lt_s b c -> lt_s a c. Proof. unfold le_s, lt_s; lia. Qed.
#[export] Hint Resolve le_s_refl lt_le_s : opt.

Lemma wfs_idx n s : wfs n s -> s_idx s <= n.
Proof.
  intros [H [pre Hp]]. rewrite Hp, app_length in H. cbn [length] in H. lia.
Qed.

Lemma wfs_peek n s : wfs n s -> exists c r, s_rest s = c :: r /\ peek s 0 = Ok c.
Proof.
  intros [_ [pre Hp]]. unfold peek. rewrite Hp.
  destruct pre as [|c pre]; cbn; eauto.
Qed.

Lemma wfs_tail n s c r : wfs n s -> s_rest s = c :: r -> c <> 0 -> exists pre', r = pre' ++ [0].
Proof.
  intros [_ [pre Hp]] Hr Hc. rewrite Hr in Hp.
  destruct pre as [|c' pre]; cbn in Hp; inversion Hp; subst; [congruence | eauto].
Qed.

Lemma forward1_ok n s c r : wfs n s -> s_rest s = c :: r -> c <> 0 ->
  exists s', forward1 s = Ok s' /\ wfs n s' /\ s_rest s' = r.
Proof.
  intros Hw Hr Hc. destruct (wfs_tail _ _ _ _ Hw Hr Hc) as [pre' Hp'].
  assert (Hidx : s_idx s + 1 + N.of_nat (length r) = n + 1).
  { destruct Hw as [H _]. rewrite Hr in H. cbn [length] in H. lia. }
  unfold forward1. rewrite Hr.
  assert (W : forall l c', wfs n (mkS (s_idx s + 1) l c' r)).
  { intros; split; cbn; eauto. }
  destruct (mem_N c in_forward_0); [eexists; split; [reflexivity|split; [apply W | reflexivity]]|].
  destruct (c =? c_cr).
  - destruct r as [|x r']; [destruct pre'; discriminate|].
    destruct (negb (x =? c_lf)); [eexists; split; [reflexivity|split; [apply W | reflexivity]]|].
    destruct (negb (c =? c_bom)); eexists; (split; [reflexivity|split; [apply W | reflexivity]]).
  - destruct (negb (c =? c_bom)); eexists; (split; [reflexivity|split; [apply W | reflexivity]]).
Qed.

Lemma nz_firstn_lt l pre k : l = pre ++ [0] -> Forall nz (firstn k l) -> (k < length l)%nat.
Proof.
  intros Hl HF. destruct (Nat.lt_ge_cases k (length l)) as [|Hge]; [assumption|].
  rewrite firstn_all2 in HF by lia. rewrite Hl in HF.
  apply Forall_app in HF as [_ HF]. inversion HF as [|? ? H0 _]; subst. exfalso; apply H0; reflexivity.
Qed.

Lemma forward_ok n : forall k s, wfs n s -> Forall nz (firstn k (s_rest s)) ->
  exists s', forward s k = Ok s' /\ wfs n s' /\ s_rest s' = skipn k (s_rest s).
Proof.
  induction k as [|k IH]; intros s Hw HF.
  - exists s. cbn. auto.
  - destruct (wfs_peek _ _ Hw) as [c [r [Hr _]]]. rewrite Hr in HF. cbn [firstn] in HF.
    inversion HF as [|? ? Hc HF']; subst.
    destruct (forward1_ok _ _ _ _ Hw Hr Hc) as [s1 [H1 [Hw1 Hr1]]].
    cbn [forward]. rewrite H1. cbn [bind].
    rewrite <- Hr1 in HF'. destruct (IH s1 Hw1 HF') as [s' [H2 [Hw2 Hr2]]].
    exists s'. split; [assumption|]. split; [assumption|]. rewrite Hr2, Hr1, Hr. reflexivity.
Qed.

Lemma forward_ok_len n k s : wfs n s -> Forall nz (firstn k (s_rest s)) ->
  exists s', forward s k = Ok s' /\ wfs n s' /\ (length (s_rest s') + k = length (s_rest s))%nat.
Proof.
  intros Hw HF. destruct (forward_ok n k s Hw HF) as [s' [H1 [H2 H3]]].
  exists s'. split; [assumption|]. split; [assumption|].
  destruct Hw as [_ [pre Hp]]. pose proof (nz_firstn_lt _ _ _ Hp HF).
  rewrite H3, skipn_length. lia.
Qed.

(* forward over one known non-NUL character *)
Lemma forward_1 n s c : wfs n s -> peek s 0 = Ok c -> c <> 0 ->
  exists s', forward s 1 = Ok s' /\ wfs n s' /\ lt_s s s'.
Proof.
  intros Hw Hp Hc. destruct (wfs_peek _ _ Hw) as [c' [r [Hr Hp']]].
  rewrite Hp in Hp'. inversion Hp'; subst c'.
  destruct (forward_ok_len n 1 s Hw) as [s' [H1 [H2 H3]]].
  { rewrite Hr. cbn. constructor; [assumption|constructor]. }
  exists s'. split; [assumption|]. split; [assumption|]. unfold lt_s. lia.
Qed.

(* ------------------------------------------------------------------ counting loops *)

Lemma count_while_ok (p : N -> bool) : p 0 = false -> forall pre,
  exists k, count_while p (pre ++ [0]) = Ok k /\ Forall nz (firstn k (pre ++ [0])).
Proof.
  intros Hp. induction pre as [|c pre IH]; cbn [app count_while].
  - rewrite Hp. exists O. split; [reflexivity|constructor].
  - destruct (p c) eqn:E.
    + destruct IH as [k [Hk HF]]. rewrite Hk. cbn [bind]. exists (S k). split; [reflexivity|].
      cbn [firstn]. constructor; [|assumption]. intro; subst; congruence.
    + exists O. split; [reflexivity|constructor].
Qed.

Lemma count_forward n p s : p 0 = false -> wfs n s ->
  exists k s', count_while p (s_rest s) = Ok k /\ forward s k = Ok s' /\ wfs n s' /\
               (length (s_rest s') + k = length (s_rest s))%nat.
Proof.
  intros Hp Hw. destruct Hw as [Hi [pre Hpre]].
  destruct (count_while_ok p Hp pre) as [k [Hk HF]]. rewrite <- Hpre in *.
  destruct (forward_ok_len n k s (conj Hi (ex_intro _ pre Hpre)) HF) as [s' [H1 [H2 H3]]].
  exists k, s'. auto.
Qed.

(* ------------------------------------------------------------------ facts about the generated tables *)

Lemma mem_forallb (P : N -> bool) l c : forallb P l = true -> mem_N c l = true -> P c = true.
Proof.
  intros HF Hm. apply mem_N_In in Hm. rewrite forallb_forall in HF. auto.
Qed.

Lemma mem_nz l c : mem_N 0 l = false -> mem_N c l = true -> c <> 0.
Proof. intros H0 Hm E. subst. congruence. Qed.

Lemma F_end : CHARS_END = [0]. Proof. reflexivity. Qed.

Lemma is_end_true ch : is_end ch = true -> ch = 0.
Proof.
  unfold is_end. rewrite F_end. cbn [str_eqb]. rewrite andb_true_r. apply N.eqb_eq.
Qed.
Lemma is_end_false ch : is_end ch = false -> ch <> 0.
Proof.
  unfold is_end. rewrite F_end. cbn [str_eqb]. rewrite andb_true_r. apply N.eqb_neq.
Qed.

Definition is_lbc (c : N) : bool := mem_N c in_scan_line_break_0 || mem_N c in_scan_line_break_1.

Lemma F_lb0_nz : mem_N 0 in_scan_line_break_0 = false. Proof. reflexivity. Qed.
Lemma F_lb1_nz : mem_N 0 in_scan_line_break_1 = false. Proof. reflexivity. Qed.
Lemma F_stnt : mem_N 0 in_scan_to_next_token_0 = true. Proof. reflexivity. Qed.
Lemma F_plain0 : mem_N 0 in_scan_plain_scalar_0 = true. Proof. reflexivity. Qed.
Lemma F_ps1 : forallb (fun c => (c =? c_space) || is_lbc c) in_scan_plain_spaces_1 = true.
Proof. vm_compute. reflexivity. Qed.
Lemma F_fb0 : mem_N 0 in_scan_flow_scalar_breaks_0 = false. Proof. reflexivity. Qed.
Lemma F_fb1 : forallb is_lbc in_scan_flow_scalar_breaks_1 = true. Proof. vm_compute. reflexivity. Qed.
Lemma F_fs0 : mem_N 0 in_scan_flow_scalar_spaces_0 = false. Proof. reflexivity. Qed.
Lemma F_fs1 : forallb is_lbc in_scan_flow_scalar_spaces_1 = true. Proof. vm_compute. reflexivity. Qed.
Lemma F_fns0 : mem_N 0 in_scan_flow_scalar_non_spaces_0 = true. Proof. reflexivity. Qed.
(* a character that stops the non-space run is a quote, a backslash, the end, white space or a break *)
Lemma F_fns0_class :
  forallb (fun c => (c =? c_squote) || (c =? c_dquote) || (c =? c_bslash) || is_end c
                    || mem_N c in_scan_flow_scalar_spaces_0 || mem_N c in_scan_flow_scalar_spaces_1)
          in_scan_flow_scalar_non_spaces_0 = true.
Proof. vm_compute. reflexivity. Qed.
Lemma F_fns1 : mem_N c_dquote in_scan_flow_scalar_non_spaces_1 = true /\
               mem_N c_bslash in_scan_flow_scalar_non_spaces_1 = true /\
               mem_N 0 in_scan_flow_scalar_non_spaces_1 = false.
Proof. repeat split. Qed.
Lemma F_repl_nz : forallb (fun kv => negb (fst kv =? 0)) ESCAPE_REPLACEMENTS = true.
Proof. vm_compute. reflexivity. Qed.
Lemma F_codes : forallb (fun kv => negb (fst kv =? 0) && negb (snd kv =? 0)) ESCAPE_CODES = true.
Proof. vm_compute. reflexivity. Qed.
Lemma F_hex_nz : mem_N 0 in_scan_flow_scalar_non_spaces_2 = false. Proof. reflexivity. Qed.
Lemma F_hex_dig :
  forallb (fun c => match hexdig c with Some _ => true | None => false end)
          in_scan_flow_scalar_non_spaces_2 = true.
Proof. vm_compute. reflexivity. Qed.
(* the repaired code tests `code > 0x10FFFF` before chr() *)
Lemma F_guard : match CHR_GUARD with Some g => g <=? 1114111 | None => false end = true.
Proof. reflexivity. Qed.
Lemma F_bs1_end : mem_N 0 in_scan_block_scalar_1 = true. Proof. reflexivity. Qed.
Lemma F_bs1 : forallb (fun c => is_end c || is_lbc c) in_scan_block_scalar_1 = true.
Proof. vm_compute. reflexivity. Qed.
Lemma F_ind0_nz : mem_N 0 in_scan_block_scalar_indicators_0 = false. Proof. reflexivity. Qed.
Lemma F_ind1 : forallb (fun c => (48 <=? c) && (c <=? 57)) in_scan_block_scalar_indicators_1 = true.
Proof. vm_compute. reflexivity. Qed.
Lemma F_ind2 : forallb (fun c => (48 <=? c) && (c <=? 57)) in_scan_block_scalar_indicators_2 = true.
Proof. vm_compute. reflexivity. Qed.
Lemma F_ind3_nz : mem_N 0 in_scan_block_scalar_indicators_3 = false. Proof. reflexivity. Qed.
Lemma F_ign0 : mem_N 0 in_scan_block_scalar_ignored_line_0 = true. Proof. reflexivity. Qed.
Lemma F_bi0 : forallb (fun c => (c =? c_space) || is_lbc c) in_scan_block_scalar_indentation_0 = true.
Proof. vm_compute. reflexivity. Qed.
Lemma F_bb0 : forallb is_lbc in_scan_block_scalar_breaks_0 = true. Proof. vm_compute. reflexivity. Qed.
Lemma F_tok0 : forallb (fun c => (c =? c_squote) || (c =? c_dquote)) in_tokenize_0 = true.
Proof. vm_compute. reflexivity. Qed.
Lemma F_tok2 : forallb (fun c => (c =? c_squote) || (c =? c_dquote)) in_tokenize_2 = true.
Proof. vm_compute. reflexivity. Qed.
Lemma F_tok1_nz : mem_N 0 in_tokenize_1 = false. Proof. reflexivity. Qed.

Lemma is_lbc_nz c : is_lbc c = true -> c <> 0.
Proof.
  unfold is_lbc. intros H E. subst. rewrite F_lb0_nz, F_lb1_nz in H. discriminate.
Qed.

(* ------------------------------------------------------------------ simple loops *)

Definition adv (n : N) (s : stream) (s' : stream) : Prop := wfs n s' /\ le_s s s'.
Definition adv1 {A} (n : N) (s : stream) (r : stream * A) : Prop := wfs n (fst r) /\ le_s s (fst r).

Lemma adv_le n s s' a : le_s s s' -> adv n s' a -> adv n s a.
Proof. intros H [H1 H2]. split; [assumption | eapply le_s_trans; eassumption]. Qed.
Lemma adv1_le {A} n s s' (a : stream * A) : le_s s s' -> adv1 n s' a -> adv1 n s a.
Proof. intros H [H1 H2]. split; [assumption | eapply le_s_trans; eassumption]. Qed.
Lemma adv1_intro {A} n s s' (x : A) : wfs n s' -> le_s s s' -> adv1 n s (s', x).
Proof. intros; split; assumption. Qed.
#[export] Hint Resolve adv1_intro : opt.

Lemma skip_while_f_safe n p : p 0 = false -> forall fuel s,
  wfs n s -> (length (s_rest s) < fuel)%nat -> safe n (adv n s) (skip_while_f fuel p s).
Proof.
  intros Hp. induction fuel as [|f IH]; intros s Hw Hf; [lia|].
  cbn [skip_while_f]. destruct (wfs_peek _ _ Hw) as [c [r [Hr Hpk]]]. rewrite Hpk. cbn [bind].
  destruct (p c) eqn:E.
  - assert (Hc : c <> 0) by (intro; subst; congruence).
    destruct (forward_1 _ _ _ Hw Hpk Hc) as [s1 [H1 [Hw1 Hlt]]]. rewrite H1. cbn [bind].
    eapply safe_mono. { apply IH; [assumption| unfold lt_s in Hlt; lia]. }
    intros s' [Hw' Hle]. split; [assumption|]. unfold le_s, lt_s in *. lia.
  - cbn [safe]. split; auto with opt.
Qed.

Lemma skip_while_safe n p s : p 0 = false -> wfs n s -> safe n (adv n s) (skip_while p s).
Proof. intros. apply skip_while_f_safe; auto; unfold fuel_of; lia. Qed.

(* ------------------------------------------------------------------ _scan_line_break *)

Definition lb_post (n : N) (s : stream) (r : stream * str) : Prop :=
  wfs n (fst r) /\ le_s s (fst r) /\ (snd r = [] -> fst r = s) /\ (snd r <> [] -> lt_s s (fst r)) /\
  (forall ch, peek s 0 = Ok ch -> is_lbc ch = true -> snd r <> []).

Lemma lb_post_cons n s s' x lb : wfs n s' -> lt_s s s' -> lb_post n s (s', x :: lb).
Proof.
  intros Hw Hlt. unfold lb_post. cbn [fst snd].
  split; [assumption|]. split; [auto with opt|]. split; [discriminate|].
  split; [auto|]. intros; discriminate.
Qed.

Lemma scan_line_break_safe n s : wfs n s -> safe n (lb_post n s) (scan_line_break s).
Proof.
  intros Hw. unfold scan_line_break.
  destruct (wfs_peek _ _ Hw) as [c [r [Hr Hpk]]]. rewrite Hpk. cbn [bind].
  destruct (mem_N c in_scan_line_break_0) eqn:E0.
  - assert (Hc : c <> 0) by (eapply mem_nz; [apply F_lb0_nz | eassumption]).
    destruct (str_eqb (prefix s 2) [c_cr; c_lf]) eqn:Ecrlf.
    + apply str_eqb_eq in Ecrlf. unfold prefix in Ecrlf.
      destruct (forward_ok_len n 2 s Hw) as [s' [H1 [H2 H3]]].
      { rewrite Ecrlf. repeat constructor; discriminate. }
      rewrite H1. cbn [bind safe]. apply lb_post_cons; [assumption | unfold lt_s; lia].
    + destruct (forward_1 _ _ _ Hw Hpk Hc) as [s' [H1 [H2 H3]]].
      rewrite H1. cbn [bind safe]. apply lb_post_cons; assumption.
  - destruct (mem_N c in_scan_line_break_1) eqn:E1.
    + assert (Hc : c <> 0) by (eapply mem_nz; [apply F_lb1_nz | eassumption]).
      destruct (forward_1 _ _ _ Hw Hpk Hc) as [s' [H1 [H2 H3]]].
      rewrite H1. cbn [bind safe]. apply lb_post_cons; assumption.
    + cbn [safe]. unfold lb_post. cbn [fst snd].
      split; [assumption|]. split; [auto with opt|]. split; [reflexivity|].
      split; [congruence|].
      intros ch Hch Hl. rewrite Hpk in Hch. inversion Hch; subst ch.
      unfold is_lbc in Hl. rewrite E0, E1 in Hl. discriminate.
Qed.

(* a line break that is known to be one makes progress *)
Lemma scan_line_break_progress n s c : wfs n s -> peek s 0 = Ok c -> is_lbc c = true ->
  safe n (fun r => wfs n (fst r) /\ lt_s s (fst r)) (scan_line_break s).
Proof.
  intros Hw Hp Hl. eapply safe_mono; [apply scan_line_break_safe; assumption|].
  intros [s' lb] (H1 & H2 & H3 & H4 & H5). cbn [fst snd] in *. split; [assumption|].
  apply H4. eapply H5; eassumption.
Qed.

(* ------------------------------------------------------------------ _scan_to_next_token *)

Lemma stnt_f_safe n : forall fuel s, wfs n s -> (length (s_rest s) < fuel)%nat ->
  safe n (adv n s) (scan_to_next_token_f fuel s).
Proof.
  induction fuel as [|f IH]; intros s Hw Hf; [lia|]. cbn [scan_to_next_token_f].
  eapply safe_bind. { apply skip_while_safe; [reflexivity | assumption]. }
  intros s1 [Hw1 Hle1]. destruct (wfs_peek _ _ Hw1) as [c [r [Hr Hpk]]]. rewrite Hpk. cbn [bind].
  eapply safe_bind with (Q := adv n s1).
  { destruct (c =? c_hash).
    - apply skip_while_safe; [cbn beta; rewrite F_stnt; reflexivity | assumption].
    - cbn [safe]. split; auto with opt. }
  intros s2 [Hw2 Hle2].
  eapply safe_bind. { apply scan_line_break_safe; eassumption. }
  intros [s3 lb] (Hw3 & Hle3 & Hnil & Hcons & _). cbn [fst snd] in *.
  destruct lb as [|x lb]; cbn [nonempty negb].
  - cbn [safe]. split; [assumption|]. unfold le_s in *. lia.
  - assert (Hlt : lt_s s2 s3) by (apply Hcons; discriminate).
    eapply safe_mono. { apply IH; [assumption|]. unfold le_s, lt_s in *. lia. }
    intros s' [Hw' Hle']. split; [assumption|]. unfold le_s, lt_s in *. lia.
Qed.

Lemma stnt_safe n s : wfs n s -> safe n (adv n s) (scan_to_next_token s).
Proof.
  intros Hw. unfold scan_to_next_token.
  eapply safe_bind with (Q := adv n s).
  { destruct (s_idx s =? 0); [|cbn [safe]; split; auto with opt].
    destruct (wfs_peek _ _ Hw) as [c [r [Hr Hpk]]]. rewrite Hpk. cbn [bind].
    destruct (c =? c_bom) eqn:E; [|cbn [safe]; split; auto with opt].
    apply N.eqb_eq in E.
    assert (Hc : c <> 0) by (subst; discriminate).
    destruct (forward_1 _ _ _ Hw Hpk Hc) as [s' [H1 [H2 H3]]]. rewrite H1.
    cbn [safe]. split; auto with opt. }
  intros s0 [Hw0 Hle0]. eapply safe_mono.
  { apply stnt_f_safe; [assumption | unfold fuel_of; lia]. }
  intros s' [Hw' Hle']. split; [assumption|]. eapply le_s_trans; eassumption.
Qed.

(* ------------------------------------------------------------------ plain scalars *)

Lemma plain_breaks_f_safe n : forall fuel s br, wfs n s -> (length (s_rest s) < fuel)%nat ->
  safe n (adv1 n s) (plain_breaks_f fuel s br).
Proof.
  induction fuel as [|f IH]; intros s br Hw Hf; [lia|]. cbn [plain_breaks_f].
  destruct (wfs_peek _ _ Hw) as [c [r [Hr Hpk]]]. rewrite Hpk. cbn [bind].
  destruct (mem_N c in_scan_plain_spaces_1) eqn:Em; [|cbn [safe]; auto with opt].
  destruct (c =? c_space) eqn:Es.
  - apply N.eqb_eq in Es. assert (Hc : c <> 0) by (subst; discriminate).
    destruct (forward_1 _ _ _ Hw Hpk Hc) as [s' [H1 [H2 H3]]]. rewrite H1. cbn [bind].
    eapply safe_mono. { apply IH; [assumption | unfold lt_s in *; lia]. }
    intros a Ha. eapply adv1_le; [|eassumption]. auto with opt.
  - pose proof (mem_forallb _ _ _ F_ps1 Em) as Hl. cbn beta in Hl. rewrite Es in Hl. cbn [orb] in Hl.
    eapply safe_bind. { eapply scan_line_break_progress; eassumption. }
    intros [s' lb] [Hw' Hlt]. cbn [fst] in *.
    eapply safe_mono. { apply IH; [assumption | unfold lt_s in *; lia]. }
    intros a Ha. eapply adv1_le; [|eassumption]. auto with opt.
Qed.

Lemma scan_plain_spaces_safe n s b : wfs n s -> safe n (adv1 n s) (scan_plain_spaces s b).
Proof.
  intros Hw. unfold scan_plain_spaces.
  destruct (count_forward n (fun ch => ch =? c_space) s eq_refl Hw) as [k [s1 [Hk [Hf [Hw1 Hlen]]]]].
  rewrite Hk. cbn [bind]. rewrite Hf. cbn [bind].
  destruct (wfs_peek _ _ Hw1) as [c [r [Hr Hpk]]]. rewrite Hpk. cbn [bind].
  destruct (b && mem_N c in_scan_plain_spaces_0).
  - eapply safe_bind. { apply scan_line_break_safe; eassumption. }
    intros [s2 lb] (Hw2 & Hle2 & _). cbn [fst snd] in *.
    eapply safe_bind. { apply plain_breaks_f_safe; [eassumption | unfold fuel_of; lia]. }
    intros [s3 brk] [Hw3 Hle3]. cbn [fst] in *. cbn [safe]. apply adv1_intro; [assumption|].
    unfold le_s in *. lia.
  - destruct (nonempty (prefix s k)); cbn [safe]; (apply adv1_intro; [assumption | unfold le_s; lia]).
Qed.

Lemma plain_len_ok is_key : forall pre,
  exists k, plain_len is_key (pre ++ [0]) = Ok k /\ Forall nz (firstn k (pre ++ [0])).
Proof.
  induction pre as [|a pre IH]; cbn [app plain_len].
  - rewrite F_plain0. exists O. split; [reflexivity | constructor].
  - destruct (mem_N a in_scan_plain_scalar_0) eqn:E; [exists O; split; [reflexivity | constructor]|].
    assert (Ha : a <> 0) by (intro; subst; rewrite F_plain0 in E; discriminate).
    destruct IH as [k [Hk HF]].
    assert (Hrec : exists k', (do n <- plain_len is_key (pre ++ [0]); Ok (S n)) = Ok k' /\
                              Forall nz (firstn k' (a :: pre ++ [0]))).
    { rewrite Hk. cbn [bind]. exists (S k). split; [reflexivity|]. cbn [firstn]. constructor; assumption. }
    destruct (is_key && (a =? c_colon)).
    + destruct (pre ++ [0]) as [|x l'] eqn:El; [destruct pre; discriminate|].
      cbn [bind]. destruct (mem_N x in_scan_plain_scalar_1).
      * exists O. split; [reflexivity | constructor].
      * exact Hrec.
    + cbn [bind]. exact Hrec.
Qed.

Lemma plain_scalar_f_safe n is_key : forall fuel s ch sp,
  wfs n s -> (length (s_rest s) < fuel)%nat ->
  safe n (adv1 n s) (plain_scalar_f fuel is_key s ch sp).
Proof.
  induction fuel as [|f IH]; intros s chs sp Hw Hf; [lia|]. cbn [plain_scalar_f].
  destruct (wfs_peek _ _ Hw) as [c [r [Hr Hpk]]]. rewrite Hpk. cbn [bind].
  destruct (c =? c_hash); [cbn [safe]; auto with opt|].
  destruct Hw as [Hi [pre Hpre]]. destruct (plain_len_ok is_key pre) as [k [Hk HF]].
  rewrite <- Hpre in Hk, HF. rewrite Hk. cbn [bind].
  assert (Hw : wfs n s) by (split; eauto).
  destruct k as [|k]; [cbn [safe]; auto with opt|].
  destruct (forward_ok_len n (S k) s Hw HF) as [s1 [H1 [Hw1 Hl1]]]. rewrite H1. cbn [bind].
  eapply safe_bind. { apply scan_plain_spaces_safe; eassumption. }
  intros [s2 sp'] [Hw2 Hle2]. cbn [fst] in *.
  assert (Hlt : lt_s s s2) by (unfold le_s, lt_s in *; lia).
  destruct (wfs_peek _ _ Hw2) as [c2 [r2 [Hr2 Hpk2]]]. rewrite Hpk2. cbn [bind].
  destruct sp' as [|x sp']; [cbn [safe]; auto with opt|].
  destruct ((c2 =? c_hash) || (s_col s2 <? (if is_key then 0 else 1)));
    [cbn [safe]; auto with opt|].
  eapply safe_mono. { apply IH; [assumption | unfold lt_s in *; lia]. }
  intros a Ha. eapply adv1_le; [|eassumption]. auto with opt.
Qed.

Lemma scan_plain_scalar_safe n s is_key : wfs n s -> safe n (adv1 n s) (scan_plain_scalar s is_key).
Proof.
  intros Hw. unfold scan_plain_scalar.
  eapply safe_bind. { apply plain_scalar_f_safe; [eassumption | unfold fuel_of; lia]. }
  intros [s' ch] [Hw' Hle']. cbn [fst safe] in *. split; assumption.
Qed.

(* ------------------------------------------------------------------ flow scalars *)

Lemma flow_scalar_breaks_f_safe n : forall fuel s ch, wfs n s -> (length (s_rest s) < fuel)%nat ->
  safe n (adv1 n s) (flow_scalar_breaks_f fuel s ch).
Proof.
  induction fuel as [|f IH]; intros s chs Hw Hf; [lia|]. cbn [flow_scalar_breaks_f].
  eapply safe_bind. { apply skip_while_safe; [cbn beta; apply F_fb0 | assumption]. }
  intros s1 [Hw1 Hle1]. destruct (wfs_peek _ _ Hw1) as [c [r [Hr Hpk]]]. rewrite Hpk. cbn [bind].
  destruct (mem_N c in_scan_flow_scalar_breaks_1) eqn:Em; [|cbn [safe]; auto with opt].
  pose proof (mem_forallb _ _ _ F_fb1 Em) as Hl.
  eapply safe_bind. { eapply scan_line_break_progress; eassumption. }
  intros [s2 lb] [Hw2 Hlt]. cbn [fst] in *.
  eapply safe_mono. { apply IH; [assumption | unfold le_s, lt_s in *; lia]. }
  intros a Ha. eapply adv1_le; [|eassumption]. unfold le_s, lt_s in *; lia.
Qed.

Lemma scan_flow_scalar_breaks_safe n s : wfs n s -> safe n (adv1 n s) (scan_flow_scalar_breaks s).
Proof. intros. apply flow_scalar_breaks_f_safe; [assumption | unfold fuel_of; lia]. Qed.

Lemma count_while_pos p c l k : count_while p (c :: l) = Ok k -> p c = true -> k <> O.
Proof.
  cbn [count_while]. intros H Hp. rewrite Hp in H.
  destruct (count_while p l); cbn [bind] in H; inversion H. discriminate.
Qed.

Lemma count_while_zero p c l : p c = false -> count_while p (c :: l) = Ok O.
Proof. intros Hp. cbn [count_while]. rewrite Hp. reflexivity. Qed.

(* either white space / a break was consumed, or the current character is none of these *)
Definition sp_post (n : N) (s : stream) (r : stream * list str) : Prop :=
  wfs n (fst r) /\
  (lt_s s (fst r) \/
   (fst r = s /\ forall ch, peek s 0 = Ok ch ->
        mem_N ch in_scan_flow_scalar_spaces_0 = false /\ is_end ch = false /\
        mem_N ch in_scan_flow_scalar_spaces_1 = false)).

Lemma scan_flow_scalar_spaces_safe n s : wfs n s -> safe n (sp_post n s) (scan_flow_scalar_spaces s).
Proof.
  intros Hw. unfold scan_flow_scalar_spaces.
  destruct (wfs_peek _ _ Hw) as [c [r [Hr Hpk]]].
  destruct (mem_N c in_scan_flow_scalar_spaces_0) eqn:Ews.
  - destruct (count_forward n (fun ch => mem_N ch in_scan_flow_scalar_spaces_0) s F_fs0 Hw)
      as [k [s1 [Hk [Hf [Hw1 Hlen]]]]].
    rewrite Hk. cbn [bind]. rewrite Hf. cbn [bind].
    assert (Hk0 : k <> O). { rewrite Hr in Hk. eapply count_while_pos; eassumption. }
    assert (Hlt : lt_s s s1) by (unfold lt_s; lia).
    destruct (wfs_peek _ _ Hw1) as [c1 [r1 [Hr1 Hpk1]]]. rewrite Hpk1. cbn [bind].
    destruct (is_end c1); [cbn [safe]; apply (wfs_idx _ _ Hw1)|].
    destruct (mem_N c1 in_scan_flow_scalar_spaces_1).
    + eapply safe_bind. { apply scan_line_break_safe; eassumption. }
      intros [s2 lb] (Hw2 & Hle2 & _). cbn [fst snd] in *.
      eapply safe_bind. { apply scan_flow_scalar_breaks_safe; eassumption. }
      intros [s3 brk] [Hw3 Hle3]. cbn [fst] in *. cbn [safe]. split; cbn [fst]; [assumption|].
      left. unfold le_s, lt_s in *. lia.
    + cbn [safe]. split; cbn [fst]; auto.
  - assert (Hcz : count_while (fun ch => mem_N ch in_scan_flow_scalar_spaces_0) (s_rest s) = Ok O)
      by (rewrite Hr; apply count_while_zero; assumption).
    rewrite Hcz. cbn [bind forward]. rewrite Hpk. cbn [bind].
    destruct (is_end c) eqn:Ee; [cbn [safe]; apply (wfs_idx _ _ Hw)|].
    destruct (mem_N c in_scan_flow_scalar_spaces_1) eqn:Enl.
    + pose proof (mem_forallb _ _ _ F_fs1 Enl) as Hl.
      eapply safe_bind. { eapply scan_line_break_progress; eassumption. }
      intros [s2 lb] [Hw2 Hlt2]. cbn [fst] in *.
      eapply safe_bind. { apply scan_flow_scalar_breaks_safe; eassumption. }
      intros [s3 brk] [Hw3 Hle3]. cbn [fst] in *. cbn [safe]. split; cbn [fst]; [assumption|].
      left. unfold le_s, lt_s in *. lia.
    + cbn [safe]. split; cbn [fst]; [assumption|]. right. split; [reflexivity|].
      intros ch Hch. rewrite Hpk in Hch. inversion Hch; subst. auto.
Qed.

Lemma assoc_In {A} c (l : list (N * A)) v : assoc c l = Some v -> In (c, v) l.
Proof.
  induction l as [|[k x] l IH]; cbn [assoc]; [discriminate|].
  destruct (c =? k) eqn:E.
  - intros H. inversion H; subst. apply N.eqb_eq in E. subst. left. reflexivity.
  - intros H. right. auto.
Qed.

Lemma hex_check_ok : forall k pre, exists b, hex_check k (pre ++ [0]) = Ok b /\
  (b = true -> Forall (fun c => mem_N c in_scan_flow_scalar_non_spaces_2 = true) (firstn k (pre ++ [0]))
               /\ length (firstn k (pre ++ [0])) = k).
Proof.
  induction k as [|k IH]; intros pre.
  - exists true. split; [reflexivity|]. intros _. cbn. split; [constructor | reflexivity].
  - cbn [hex_check]. destruct pre as [|c pre]; cbn [app].
    + rewrite F_hex_nz. exists false. split; [reflexivity | discriminate].
    + destruct (mem_N c in_scan_flow_scalar_non_spaces_2) eqn:E.
      * destruct (IH pre) as [b [Hb Hf]]. exists b. split; [assumption|].
        intros Hbt. destruct (Hf Hbt) as [H1 H2]. cbn [firstn length]. split; [constructor; assumption | lia].
      * exists false. split; [reflexivity | discriminate].
Qed.

Lemma hex_acc_ok : forall l a, Forall (fun c => mem_N c in_scan_flow_scalar_non_spaces_2 = true) l ->
  exists v, hex_acc a l = Ok v.
Proof.
  induction l as [|c l IH]; intros a HF; cbn [hex_acc]; [eauto|].
  inversion HF as [|? ? Hc HF']; subst.
  pose proof (mem_forallb _ _ _ F_hex_dig Hc) as Hd. cbn beta in Hd.
  destruct (hexdig c); [|discriminate]. apply IH. assumption.
Qed.

Lemma hex_nz l : Forall (fun c => mem_N c in_scan_flow_scalar_non_spaces_2 = true) l -> Forall nz l.
Proof.
  intros H. eapply Forall_impl; [|exact H]. intros c Hc. eapply mem_nz; [apply F_hex_nz | exact Hc].
Qed.

Definition prog1 {A} (n : N) (s : stream) (r : stream * A) : Prop := wfs n (fst r) /\ lt_s s (fst r).

Lemma scan_escape_safe n s ch : wfs n s -> peek s 0 = Ok ch -> ch <> 0 ->
  safe n (prog1 n s) (scan_escape s).
Proof.
  intros Hw Hpk Hc. unfold scan_escape.
  destruct (forward_1 _ _ _ Hw Hpk Hc) as [s1 [H1 [Hw1 Hlt1]]]. rewrite H1. cbn [bind].
  destruct (wfs_peek _ _ Hw1) as [c [r [Hr Hpk1]]]. rewrite Hpk1. cbn [bind].
  destruct (assoc c ESCAPE_REPLACEMENTS) as [rep|] eqn:Erep.
  { apply assoc_In in Erep. pose proof F_repl_nz as HF. rewrite forallb_forall in HF.
    specialize (HF _ Erep). cbn [fst] in HF. apply negb_true_iff, N.eqb_neq in HF.
    destruct (forward_1 _ _ _ Hw1 Hpk1 HF) as [s2 [H2 [Hw2 Hlt2]]]. rewrite H2. cbn [bind safe].
    split; cbn [fst]; [assumption | unfold lt_s in *; lia]. }
  destruct (assoc c ESCAPE_CODES) as [len|] eqn:Ecode.
  { apply assoc_In in Ecode. pose proof F_codes as HF. rewrite forallb_forall in HF.
    specialize (HF _ Ecode). cbn [fst snd] in HF. apply andb_true_iff in HF as [HF1 HF2].
    apply negb_true_iff, N.eqb_neq in HF1. apply negb_true_iff, N.eqb_neq in HF2.
    destruct (forward_1 _ _ _ Hw1 Hpk1 HF1) as [s2 [H2 [Hw2 Hlt2]]]. rewrite H2. cbn [bind].
    destruct Hw2 as [Hi2 [pre2 Hp2]].
    destruct (hex_check_ok (N.to_nat len) pre2) as [b [Hb Hbt]]. rewrite <- Hp2 in Hb, Hbt.
    assert (Hw2 : wfs n s2) by (split; eauto).
    rewrite Hb. cbn [bind].
    destruct b; cbn [negb]; [|cbn [safe]; apply (wfs_idx _ _ Hw2)].
    destruct (Hbt eq_refl) as [Hhex Hlen].
    unfold prefix, int16.
    destruct (firstn (N.to_nat len) (s_rest s2)) as [|d ds] eqn:Efn.
    { cbn [length] in Hlen. lia. }
    destruct (hex_acc_ok (d :: ds) 0 Hhex) as [v Hv]. rewrite Hv. cbn [bind].
    pose proof F_guard as HG. destruct CHR_GUARD as [g|]; [|discriminate].
    destruct (g <? v) eqn:Egv; [cbn [safe]; apply (wfs_idx _ _ Hw2)|].
    assert (Hchr : py_chr v = Ok v). { unfold py_chr. replace (v <=? 1114111) with true by lia. reflexivity. }
    rewrite Hchr. cbn [bind].
    destruct (forward_ok_len n (N.to_nat len) s2 Hw2) as [s3 [H3 [Hw3 Hl3]]].
    { rewrite Efn. apply hex_nz. assumption. }
    rewrite H3. cbn [bind safe]. split; cbn [fst]; [assumption | unfold lt_s in *; lia]. }
  destruct (mem_N c in_scan_flow_scalar_non_spaces_3).
  - eapply safe_bind. { apply scan_line_break_safe; eassumption. }
    intros [s2 lb] (Hw2 & Hle2 & _). cbn [fst snd] in *.
    eapply safe_mono. { apply scan_flow_scalar_breaks_safe; eassumption. }
    intros [s3 b] [Hw3 Hle3]. cbn [fst] in *. split; cbn [fst]; [assumption|].
    unfold le_s, lt_s in *. lia.
  - cbn [safe]. apply (wfs_idx _ _ Hw1).
Qed.

(* what is known about the current character when the if / elif chain returns *)
Definition stays (double : bool) (ch : N) : Prop :=
  if double then ch <> c_squote /\ ch <> c_bslash
  else mem_N ch in_scan_flow_scalar_non_spaces_1 = false.

Lemma flow_ns_branch_safe n s double : wfs n s ->
  safe n (fun b => match b with
                   | Some r => prog1 n s r
                   | None => forall ch, peek s 0 = Ok ch -> stays double ch
                   end) (flow_ns_branch s double).
Proof.
  intros Hw. unfold flow_ns_branch.
  destruct (wfs_peek _ _ Hw) as [c [r [Hr Hpk]]]. rewrite Hpk. cbn [bind].
  destruct (negb double && (c =? c_squote)) eqn:Eq.
  - apply andb_true_iff in Eq as [Ed Ec]. apply N.eqb_eq in Ec.
    assert (Hc : c <> 0) by (subst; discriminate).
    destruct (wfs_tail _ _ _ _ Hw Hr Hc) as [pre' Hp'].
    assert (Hp1 : exists x, peek s 1 = Ok x /\ nth_error r 0 = Some x).
    { unfold peek. rewrite Hr. cbn [nth_error]. rewrite Hp'. destruct pre'; cbn; eauto. }
    destruct Hp1 as [x [Hx Hnx]]. rewrite Hx. cbn [bind].
    destruct (x =? c_squote) eqn:Ex.
    + apply N.eqb_eq in Ex.
      destruct (forward_ok_len n 2 s Hw) as [s2 [H2 [Hw2 Hl2]]].
      { rewrite Hr. destruct r as [|x' r']; [discriminate|]. cbn in Hnx. inversion Hnx; subst x'.
        cbn [firstn]. repeat constructor; [assumption | subst; discriminate]. }
      rewrite H2. cbn [bind safe]. split; cbn [fst]; [assumption | unfold lt_s; lia].
    + destruct double; [discriminate|]. cbn [negb andb orb].
      destruct (mem_N c in_scan_flow_scalar_non_spaces_1) eqn:E1.
      * destruct (forward_1 _ _ _ Hw Hpk Hc) as [s2 [H2 [Hw2 Hlt2]]]. rewrite H2. cbn [bind safe].
        split; cbn [fst]; assumption.
      * cbn [safe]. intros ch Hch. inversion Hch; subst ch. exact E1.
  - cbn [bind].
    destruct ((double && (c =? c_squote)) || (negb double && mem_N c in_scan_flow_scalar_non_spaces_1)) eqn:E2.
    + assert (Hc : c <> 0).
      { apply orb_true_iff in E2 as [E2|E2]; apply andb_true_iff in E2 as [_ E2].
        - apply N.eqb_eq in E2. subst. discriminate.
        - eapply mem_nz; [apply F_fns1 | exact E2]. }
      destruct (forward_1 _ _ _ Hw Hpk Hc) as [s2 [H2 [Hw2 Hlt2]]]. rewrite H2. cbn [bind safe].
      split; cbn [fst]; assumption.
    + destruct (double && (c =? c_bslash)) eqn:E3.
      * apply andb_true_iff in E3 as [_ E3]. apply N.eqb_eq in E3.
        assert (Hc : c <> 0) by (subst; discriminate).
        eapply safe_bind. { eapply scan_escape_safe; eassumption. }
        intros a Ha. cbn [safe]. exact Ha.
      * cbn [safe]. intros ch Hch. inversion Hch; subst ch.
        unfold stays. destruct double; cbn [negb andb orb] in *.
        -- split; intro; subst; discriminate.
        -- exact E2.
Qed.

Definition ns_post (n : N) (double : bool) (s : stream) (r : stream * list str) : Prop :=
  wfs n (fst r) /\
  (lt_s s (fst r) \/
   (fst r = s /\ forall ch, peek s 0 = Ok ch ->
        mem_N ch in_scan_flow_scalar_non_spaces_0 = true /\ stays double ch)).

Lemma ns_post_le n double s s' r : le_s s s' -> lt_s s' (fst r) \/ le_s s' (fst r) /\ lt_s s s' ->
  wfs n (fst r) -> ns_post n double s r.
Proof.
  intros Hle H Hw. split; [assumption|]. left. unfold le_s, lt_s in *. lia.
Qed.

Lemma flow_non_spaces_f_safe n double : forall fuel s chunks,
  wfs n s -> (length (s_rest s) < fuel)%nat ->
  safe n (ns_post n double s) (flow_non_spaces_f fuel s double chunks).
Proof.
  induction fuel as [|f IH]; intros s chunks Hw Hf; [lia|]. cbn [flow_non_spaces_f].
  destruct (wfs_peek _ _ Hw) as [c [r [Hr Hpk]]].
  destruct (mem_N c in_scan_flow_scalar_non_spaces_0) eqn:E0.
  - (* no ordinary character: the stream does not move before the branch *)
    assert (Hcz : count_while (fun ch => negb (mem_N ch in_scan_flow_scalar_non_spaces_0)) (s_rest s) = Ok O)
      by (rewrite Hr; apply count_while_zero; rewrite E0; reflexivity).
    rewrite Hcz. cbn [bind forward].
    eapply safe_bind. { apply flow_ns_branch_safe; eassumption. }
    intros [[s2 cs]|] Hb.
    + destruct Hb as [Hw2 Hlt2]. cbn [fst] in *.
      eapply safe_mono. { apply IH; [assumption | unfold lt_s in *; lia]. }
      intros a [Hwa Ha]. split; [assumption|]. left.
      destruct Ha as [Ha|[Ha _]]; [|rewrite Ha]; unfold lt_s in *; lia.
    + cbn [safe]. split; cbn [fst]; [assumption|]. right. split; [reflexivity|].
      intros ch Hch. split; [|auto]. rewrite Hpk in Hch. inversion Hch; subst. assumption.
  - destruct (count_forward n (fun ch => negb (mem_N ch in_scan_flow_scalar_non_spaces_0)) s) as
        [k [s1 [Hk [Hfw [Hw1 Hlen]]]]]; [cbn beta; rewrite F_fns0; reflexivity | assumption |].
    rewrite Hk. cbn [bind]. rewrite Hfw. cbn [bind].
    assert (Hk0 : k <> O). { rewrite Hr in Hk. eapply count_while_pos; [eassumption|]. cbn beta. rewrite E0. reflexivity. }
    assert (Hlt1 : lt_s s s1) by (unfold lt_s; lia).
    eapply safe_bind. { apply flow_ns_branch_safe; eassumption. }
    intros [[s2 cs]|] Hb.
    + destruct Hb as [Hw2 Hlt2]. cbn [fst] in *.
      eapply safe_mono. { apply IH; [assumption | unfold lt_s in *; lia]. }
      intros a [Hwa Ha]. split; [assumption|]. left.
      destruct Ha as [Ha|[Ha _]]; [|rewrite Ha]; unfold lt_s in *; lia.
    + cbn [safe]. split; cbn [fst]; [assumption|]. left. assumption.
Qed.

Lemma scan_flow_scalar_non_spaces_safe n double s : wfs n s ->
  safe n (ns_post n double s) (scan_flow_scalar_non_spaces s double).
Proof. intros. apply flow_non_spaces_f_safe; [assumption | unfold fuel_of; lia]. Qed.

Definition quote_ok (double : bool) (quote : N) : Prop :=
  (double = true /\ quote = c_dquote) \/ (double = false /\ quote = c_squote).

Lemma flow_scalar_f_safe n double quote : quote_ok double quote -> forall fuel s chunks,
  wfs n s -> (length (s_rest s) < fuel)%nat ->
  safe n (fun r => adv1 n s r /\ peek (fst r) 0 = Ok quote) (flow_scalar_f fuel s double quote chunks).
Proof.
  intros Hq. induction fuel as [|f IH]; intros s chunks Hw Hf; [lia|]. cbn [flow_scalar_f].
  destruct (wfs_peek _ _ Hw) as [c [r [Hr Hpk]]]. rewrite Hpk. cbn [bind].
  destruct (c =? quote) eqn:Ecq; cbn [negb].
  { apply N.eqb_eq in Ecq. subst c. cbn [safe]. split; [auto with opt | exact Hpk]. }
  apply N.eqb_neq in Ecq.
  eapply safe_bind. { apply scan_flow_scalar_spaces_safe; eassumption. }
  intros [s1 c1] [Hw1 Hsp]. cbn [fst] in *.
  eapply safe_bind. { apply scan_flow_scalar_non_spaces_safe; eassumption. }
  intros [s2 c2] [Hw2 Hns]. cbn [fst] in *.
  assert (Hlt : lt_s s s2).
  { destruct Hsp as [Hsp|[Hsp1 Hsp2]].
    - destruct Hns as [Hns|[Hns _]]; [|rewrite Hns]; unfold lt_s in *; lia.
    - subst s1. destruct Hns as [Hns|[Hns1 Hns2]]; [assumption|]. exfalso.
      destruct (Hsp2 _ Hpk) as (Hws & Hend & Hnl). destruct (Hns2 _ Hpk) as [Hin Hst].
      pose proof (mem_forallb _ _ _ F_fns0_class Hin) as Hcl. cbn beta in Hcl.
      rewrite Hws, Hend, Hnl in Hcl. rewrite !orb_false_r in Hcl.
      unfold stays in Hst.
      destruct Hq as [[Hd Hqq]|[Hd Hqq]]; subst double quote.
      + destruct Hst as [Hs1 Hs2].
        apply orb_true_iff in Hcl as [Hcl|Hcl]; [apply orb_true_iff in Hcl as [Hcl|Hcl]|];
          apply N.eqb_eq in Hcl; congruence.
      + destruct F_fns1 as (Fq & Fb & _).
        apply orb_true_iff in Hcl as [Hcl|Hcl]; [apply orb_true_iff in Hcl as [Hcl|Hcl]|];
          apply N.eqb_eq in Hcl; subst c; congruence. }
  eapply safe_mono. { apply IH; [assumption | unfold lt_s in *; lia]. }
  intros a [Ha Hpa]. split; [|assumption]. eapply adv1_le; [|eassumption]. auto with opt.
Qed.

Lemma scan_flow_scalar_safe n s style : wfs n s -> peek s 0 = Ok style ->
  style = c_squote \/ style = c_dquote ->
  safe n (prog1 n s) (scan_flow_scalar s style).
Proof.
  intros Hw Hpk Hst. unfold scan_flow_scalar. rewrite Hpk. cbn [bind].
  assert (Hc : style <> 0) by (destruct Hst; subst; discriminate).
  assert (Hq : quote_ok (style =? c_dquote) style).
  { destruct Hst; subst; [right | left]; split; reflexivity. }
  destruct (forward_1 _ _ _ Hw Hpk Hc) as [s1 [H1 [Hw1 Hlt1]]]. rewrite H1. cbn [bind].
  eapply safe_bind. { apply scan_flow_scalar_non_spaces_safe; eassumption. }
  intros [s2 c0] [Hw2 Hns]. cbn [fst] in *.
  assert (Hle2 : le_s s1 s2).
  { destruct Hns as [Hns|[Hns _]]; [|rewrite Hns]; auto with opt. }
  eapply safe_bind. { apply (flow_scalar_f_safe n _ _ Hq); [eassumption | unfold fuel_of, le_s in *; lia]. }
  intros [s3 chunks] [[Hw3 Hle3] Hpk3]. cbn [fst] in *.
  destruct (forward_1 _ _ _ Hw3 Hpk3 Hc) as [s4 [H4 [Hw4 Hlt4]]]. rewrite H4. cbn [bind safe].
  split; cbn [fst]; [assumption | unfold le_s, lt_s in *; lia].
Qed.

(* ------------------------------------------------------------------ block scalars *)

Definition adv2 {A B} (n : N) (s : stream) (r : stream * A * B) : Prop :=
  wfs n (fst (fst r)) /\ le_s s (fst (fst r)).

Lemma digit_val_ok c : (48 <=? c) && (c <=? 57) = true -> exists v, digit_val c = Ok v.
Proof. intros H. unfold digit_val. rewrite H. eauto. Qed.

Lemma scan_block_scalar_indicators_safe n s : wfs n s ->
  safe n (adv2 n s) (scan_block_scalar_indicators s).
Proof.
  intros Hw. unfold scan_block_scalar_indicators.
  destruct (wfs_peek _ _ Hw) as [c [r [Hr Hpk]]]. rewrite Hpk. cbn [bind].
  eapply safe_bind with (Q := adv2 n s).
  { destruct (mem_N c in_scan_block_scalar_indicators_0) eqn:E0.
    - assert (Hc : c <> 0) by (eapply mem_nz; [apply F_ind0_nz | eassumption]).
      destruct (forward_1 _ _ _ Hw Hpk Hc) as [s1 [H1 [Hw1 Hlt1]]]. rewrite H1. cbn [bind].
      destruct (wfs_peek _ _ Hw1) as [c1 [r1 [Hr1 Hpk1]]]. rewrite Hpk1. cbn [bind].
      destruct (mem_N c1 in_scan_block_scalar_indicators_1) eqn:E1.
      + pose proof (mem_forallb _ _ _ F_ind1 E1) as Hd. cbn beta in Hd.
        destruct (digit_val_ok _ Hd) as [v Hv]. rewrite Hv. cbn [bind].
        destruct (v =? 0); [cbn [safe]; apply (wfs_idx _ _ Hw1)|].
        assert (Hc1 : c1 <> 0) by lia.
        destruct (forward_1 _ _ _ Hw1 Hpk1 Hc1) as [s2 [H2 [Hw2 Hlt2]]]. rewrite H2. cbn [bind safe].
        split; cbn [fst]; [assumption | unfold le_s, lt_s in *; lia].
      + cbn [safe]. split; cbn [fst]; auto with opt.
    - destruct (mem_N c in_scan_block_scalar_indicators_2) eqn:E2.
      + pose proof (mem_forallb _ _ _ F_ind2 E2) as Hd. cbn beta in Hd.
        destruct (digit_val_ok _ Hd) as [v Hv]. rewrite Hv. cbn [bind].
        destruct (v =? 0); [cbn [safe]; apply (wfs_idx _ _ Hw)|].
        assert (Hc : c <> 0) by lia.
        destruct (forward_1 _ _ _ Hw Hpk Hc) as [s1 [H1 [Hw1 Hlt1]]]. rewrite H1. cbn [bind].
        destruct (wfs_peek _ _ Hw1) as [c1 [r1 [Hr1 Hpk1]]]. rewrite Hpk1. cbn [bind].
        destruct (mem_N c1 in_scan_block_scalar_indicators_3) eqn:E3.
        * assert (Hc1 : c1 <> 0) by (eapply mem_nz; [apply F_ind3_nz | eassumption]).
          destruct (forward_1 _ _ _ Hw1 Hpk1 Hc1) as [s2 [H2 [Hw2 Hlt2]]]. rewrite H2. cbn [bind safe].
          split; cbn [fst]; [assumption | unfold le_s, lt_s in *; lia].
        * cbn [safe]. split; cbn [fst]; auto with opt.
      + cbn [safe]. split; cbn [fst]; auto with opt. }
  intros [[s' ch] inc] [Hw' Hle']. cbn [fst] in *.
  destruct (wfs_peek _ _ Hw') as [c' [r' [Hr' Hpk']]]. rewrite Hpk'. cbn [bind].
  destruct (negb (mem_N c' in_scan_block_scalar_indicators_4)); cbn [safe].
  - apply (wfs_idx _ _ Hw').
  - split; cbn [fst]; assumption.
Qed.

Lemma scan_block_scalar_ignored_line_safe n s : wfs n s ->
  safe n (adv n s) (scan_block_scalar_ignored_line s).
Proof.
  intros Hw. unfold scan_block_scalar_ignored_line.
  eapply safe_bind. { apply skip_while_safe; [reflexivity | assumption]. }
  intros s1 [Hw1 Hle1]. destruct (wfs_peek _ _ Hw1) as [c [r [Hr Hpk]]]. rewrite Hpk. cbn [bind].
  eapply safe_bind with (Q := adv n s1).
  { destruct (c =? c_hash).
    - apply skip_while_safe; [cbn beta; rewrite F_ign0; reflexivity | assumption].
    - cbn [safe]. split; auto with opt. }
  intros s2 [Hw2 Hle2]. destruct (wfs_peek _ _ Hw2) as [c2 [r2 [Hr2 Hpk2]]]. rewrite Hpk2. cbn [bind].
  destruct (negb (mem_N c2 in_scan_block_scalar_ignored_line_1)); [cbn [safe]; apply (wfs_idx _ _ Hw2)|].
  eapply safe_bind. { apply scan_line_break_safe; eassumption. }
  intros [s3 lb] (Hw3 & Hle3 & _). cbn [fst snd safe] in *. split; [assumption|].
  unfold le_s in *. lia.
Qed.

Lemma block_indentation_f_safe n : forall fuel s ch mx, wfs n s -> (length (s_rest s) < fuel)%nat ->
  safe n (adv2 n s) (block_indentation_f fuel s ch mx).
Proof.
  induction fuel as [|f IH]; intros s chs mx Hw Hf; [lia|]. cbn [block_indentation_f].
  destruct (wfs_peek _ _ Hw) as [c [r [Hr Hpk]]]. rewrite Hpk. cbn [bind].
  destruct (mem_N c in_scan_block_scalar_indentation_0) eqn:Em;
    [|cbn [safe]; split; cbn [fst]; auto with opt].
  destruct (c =? c_space) eqn:Es; cbn [negb].
  - apply N.eqb_eq in Es. assert (Hc : c <> 0) by (subst; discriminate).
    destruct (forward_1 _ _ _ Hw Hpk Hc) as [s' [H1 [H2 H3]]]. rewrite H1. cbn [bind].
    eapply safe_mono. { apply IH; [assumption | unfold lt_s in *; lia]. }
    intros a [Ha1 Ha2]. split; [assumption|]. unfold le_s, lt_s in *; lia.
  - pose proof (mem_forallb _ _ _ F_bi0 Em) as Hl. cbn beta in Hl. rewrite Es in Hl. cbn [orb] in Hl.
    eapply safe_bind. { eapply scan_line_break_progress; eassumption. }
    intros [s' lb] [Hw' Hlt]. cbn [fst] in *.
    eapply safe_mono. { apply IH; [assumption | unfold lt_s in *; lia]. }
    intros a [Ha1 Ha2]. split; [assumption|]. unfold le_s, lt_s in *; lia.
Qed.

Lemma skip_indent_f_safe n indent : forall fuel s, wfs n s -> (length (s_rest s) < fuel)%nat ->
  safe n (adv n s) (skip_indent_f fuel indent s).
Proof.
  induction fuel as [|f IH]; intros s Hw Hf; [lia|]. cbn [skip_indent_f].
  destruct (s_col s <? indent); [|cbn [safe]; split; auto with opt].
  destruct (wfs_peek _ _ Hw) as [c [r [Hr Hpk]]]. rewrite Hpk. cbn [bind].
  destruct (c =? c_space) eqn:Es; [|cbn [safe]; split; auto with opt].
  apply N.eqb_eq in Es. assert (Hc : c <> 0) by (subst; discriminate).
  destruct (forward_1 _ _ _ Hw Hpk Hc) as [s' [H1 [H2 H3]]]. rewrite H1. cbn [bind].
  eapply safe_mono. { apply IH; [assumption | unfold lt_s in *; lia]. }
  intros a Ha. eapply adv_le; [|eassumption]. auto with opt.
Qed.

Lemma skip_indent_safe n indent s : wfs n s -> safe n (adv n s) (skip_indent indent s).
Proof. intros. apply skip_indent_f_safe; [assumption | unfold fuel_of; lia]. Qed.

Lemma block_breaks_f_safe n indent : forall fuel s ch, wfs n s -> (length (s_rest s) < fuel)%nat ->
  safe n (adv1 n s) (block_breaks_f fuel indent s ch).
Proof.
  induction fuel as [|f IH]; intros s chs Hw Hf; [lia|]. cbn [block_breaks_f].
  destruct (wfs_peek _ _ Hw) as [c [r [Hr Hpk]]]. rewrite Hpk. cbn [bind].
  destruct (mem_N c in_scan_block_scalar_breaks_0) eqn:Em; [|cbn [safe]; auto with opt].
  pose proof (mem_forallb _ _ _ F_bb0 Em) as Hl.
  eapply safe_bind. { eapply scan_line_break_progress; eassumption. }
  intros [s1 lb] [Hw1 Hlt1]. cbn [fst] in *.
  eapply safe_bind. { apply skip_indent_safe; eassumption. }
  intros s2 [Hw2 Hle2].
  eapply safe_mono. { apply IH; [assumption | unfold le_s, lt_s in *; lia]. }
  intros a Ha. eapply adv1_le; [|eassumption]. unfold le_s, lt_s in *; lia.
Qed.

Lemma scan_block_scalar_breaks_safe n s indent : wfs n s ->
  safe n (adv1 n s) (scan_block_scalar_breaks s indent).
Proof.
  intros Hw. unfold scan_block_scalar_breaks.
  eapply safe_bind. { apply skip_indent_safe; eassumption. }
  intros s1 [Hw1 Hle1].
  eapply safe_mono. { apply block_breaks_f_safe; [assumption | unfold fuel_of; lia]. }
  intros a Ha. eapply adv1_le; eassumption.
Qed.

Lemma at_content_safe n s indent : wfs n s ->
  safe n (fun o => match o with
                   | Some ch => peek s 0 = Ok ch /\ is_end ch = false
                   | None => True
                   end) (at_content s indent).
Proof.
  intros Hw. unfold at_content. destruct (s_col s =? indent); [|exact I].
  destruct (wfs_peek _ _ Hw) as [c [r [Hr Hpk]]]. rewrite Hpk. cbn [bind].
  destruct (is_end c) eqn:E; cbn [negb safe]; auto.
Qed.

Definition adv3 {A B C} (n : N) (s : stream) (r : stream * A * B * C) : Prop :=
  wfs n (fst (fst (fst r))) /\ le_s s (fst (fst (fst r))).

Lemma block_lines_f_safe n folded indent : forall fuel s ch chunks breaks,
  wfs n s -> peek s 0 = Ok ch -> is_end ch = false -> (length (s_rest s) <= fuel)%nat ->
  safe n (adv3 n s) (block_lines_f fuel folded indent s ch chunks breaks).
Proof.
  induction fuel as [|f IH]; intros s ch chunks breaks Hw Hpk Hne Hf.
  { exfalso. destruct Hw as [_ [pre Hp]]. rewrite Hp, app_length in Hf. cbn [length] in Hf. lia. }
  cbn [block_lines_f].
  destruct (wfs_peek _ _ Hw) as [c [r [Hr Hpk']]]. rewrite Hpk in Hpk'. inversion Hpk'; subst c.
  assert (Hstep : exists k s1, count_while (fun c => negb (mem_N c in_scan_block_scalar_1)) (s_rest s) = Ok k
            /\ forward s k = Ok s1 /\ wfs n s1 /\ le_s s s1 /\
            (lt_s s s1 \/ (s1 = s /\ is_lbc ch = true))).
  { destruct (mem_N ch in_scan_block_scalar_1) eqn:E1.
    - exists O, s. split; [rewrite Hr; apply count_while_zero; rewrite E1; reflexivity|].
      split; [reflexivity|]. split; [assumption|]. split; [auto with opt|]. right. split; [reflexivity|].
      pose proof (mem_forallb _ _ _ F_bs1 E1) as Hl. cbn beta in Hl. rewrite Hne in Hl. exact Hl.
    - destruct (count_forward n (fun c => negb (mem_N c in_scan_block_scalar_1)) s) as
          [k [s1 [Hk [Hfw [Hw1 Hlen]]]]]; [cbn beta; rewrite F_bs1_end; reflexivity | assumption |].
      exists k, s1. split; [assumption|]. split; [assumption|]. split; [assumption|].
      assert (Hk0 : k <> O).
      { rewrite Hr in Hk. eapply count_while_pos; [eassumption|]. cbn beta. rewrite E1. reflexivity. }
      split; [unfold le_s; lia|]. left. unfold lt_s. lia. }
  destruct Hstep as [k [s1 [Hk [Hfw [Hw1 [Hle1 Hprog]]]]]].
  rewrite Hk. cbn [bind]. rewrite Hfw. cbn [bind].
  eapply safe_bind with (Q := fun r => wfs n (fst r) /\ lt_s s (fst r)).
  { destruct Hprog as [Hlt|[Heq Hl]].
    - eapply safe_mono. { apply scan_line_break_safe; eassumption. }
      intros [s2 lb] (Hw2 & Hle2 & _). cbn [fst] in *. split; [assumption | unfold le_s, lt_s in *; lia].
    - subst s1. eapply scan_line_break_progress; eassumption. }
  intros [s2 lb] [Hw2 Hlt2]. cbn [fst] in *.
  eapply safe_bind. { apply scan_block_scalar_breaks_safe; eassumption. }
  intros [s3 br'] [Hw3 Hle3]. cbn [fst] in *.
  eapply safe_bind. { apply at_content_safe; eassumption. }
  intros [ch3|] Hac.
  - destruct Hac as [Hpk3 Hne3].
    eapply safe_mono. { apply IH; [assumption | eassumption | assumption | unfold le_s, lt_s in *; lia]. }
    intros a [Ha1 Ha2]. split; [assumption | unfold le_s, lt_s in *; lia].
  - cbn [safe]. split; cbn [fst]; [assumption | unfold le_s, lt_s in *; lia].
Qed.

Lemma scan_block_scalar_safe n s style : wfs n s -> peek s 0 = Ok style -> style <> 0 ->
  safe n (prog1 n s) (scan_block_scalar s style).
Proof.
  intros Hw Hpk Hc. unfold scan_block_scalar.
  destruct (forward_1 _ _ _ Hw Hpk Hc) as [s1 [H1 [Hw1 Hlt1]]]. rewrite H1. cbn [bind].
  eapply safe_bind. { apply scan_block_scalar_indicators_safe; eassumption. }
  intros [[s2 chomping] increment] [Hw2 Hle2]. cbn [fst] in *.
  eapply safe_bind. { apply scan_block_scalar_ignored_line_safe; eassumption. }
  intros s3 [Hw3 Hle3].
  eapply safe_bind with (Q := adv2 n s3).
  { destruct increment as [inc|].
    - eapply safe_bind. { apply scan_block_scalar_breaks_safe; eassumption. }
      intros [s4 brk] [Hw4 Hle4]. cbn [fst safe] in *. split; cbn [fst]; assumption.
    - eapply safe_bind. { apply block_indentation_f_safe; [eassumption | unfold fuel_of; lia]. }
      intros [[s4 brk] mx] [Hw4 Hle4]. cbn [fst safe] in *. split; cbn [fst]; assumption. }
  intros [[s4 breaks] indent] [Hw4 Hle4]. cbn [fst] in *.
  eapply safe_bind. { apply at_content_safe; eassumption. }
  intros ac Hac.
  eapply safe_bind with (Q := adv3 n s4).
  { destruct ac as [ch|].
    - destruct Hac as [Hpk4 Hne4]. apply block_lines_f_safe; [assumption | assumption | assumption | unfold fuel_of; lia].
    - cbn [safe]. split; cbn [fst]; auto with opt. }
  intros [[[s5 chunks] lb] br'] [Hw5 Hle5]. cbn [fst safe] in *.
  split; cbn [fst]; [assumption | unfold le_s, lt_s in *; lia].
Qed.

(* ------------------------------------------------------------------ _tokenize *)

Definition tok_ok (n : N) (t : token) : Prop :=
  match t with TValue st _ => st <= n | _ => True end.

Definition wsafe {A} (n : N) (Q : A -> Prop) (m : wres A) : Prop :=
  Forall (tok_ok n) (fst m) /\ safe n Q (snd m).

Lemma wsafe_bind {A B} n (Q : A -> Prop) (Q' : B -> Prop) (m : wres A) (f : A -> wres B) :
  wsafe n Q m -> (forall a, Q a -> wsafe n Q' (f a)) -> wsafe n Q' (bindw m f).
Proof.
  destruct m as [ts [a|e]]; intros [H1 H2] Hf; cbn [fst snd safe] in *.
  - unfold bindw. specialize (Hf a H2). destruct (f a) as [ts' r]. destruct Hf as [Hf1 Hf2].
    cbn [fst snd] in *. split; [apply Forall_app; split; assumption | assumption].
  - unfold bindw. split; cbn [fst snd]; assumption.
Qed.

Lemma wsafe_lift {A} n (Q : A -> Prop) (r : res A) : safe n Q r -> wsafe n Q (liftw r).
Proof. intros H. split; [constructor | exact H]. Qed.

Lemma wsafe_yield n t : tok_ok n t -> wsafe n (fun _ => True) (yield t).
Proof. intros H. split; cbn; [repeat constructor; assumption | exact I]. Qed.

Definition iter_post (n : N) (s : stream) (o : option stream) : Prop :=
  match o with Some s' => wfs n s' /\ lt_s s s' | None => True end.

Lemma quote_cases l c : forallb (fun c => (c =? c_squote) || (c =? c_dquote)) l = true ->
  mem_N c l = true -> c = c_squote \/ c = c_dquote.
Proof.
  intros HF Hm. pose proof (mem_forallb _ _ _ HF Hm) as H. cbn beta in H.
  apply orb_true_iff in H as [H|H]; apply N.eqb_eq in H; auto.
Qed.

Lemma tok_iter_safe n s : wfs n s -> wsafe n (iter_post n s) (tok_iter s).
Proof.
  intros Hw. unfold tok_iter.
  eapply wsafe_bind. { apply wsafe_lift. apply stnt_safe. eassumption. }
  intros s1 [Hw1 Hle1].
  destruct (wfs_peek _ _ Hw1) as [c [r [Hr Hpk]]]. rewrite Hpk.
  eapply wsafe_bind. { apply wsafe_lift. cbn [safe]. instantiate (1 := fun x => x = c). reflexivity. }
  intros ? ->.
  destruct (is_end c); [apply wsafe_lift; exact I|].
  destruct (negb (s_col s1 =? 0)); [apply wsafe_lift; cbn [safe]; apply (wfs_idx _ _ Hw1)|].
  eapply wsafe_bind with (Q := adv1 n s1).
  { apply wsafe_lift. destruct (mem_N c in_tokenize_0) eqn:E0.
    - eapply safe_mono. { apply scan_flow_scalar_safe; [eassumption | eassumption | eapply quote_cases; [apply F_tok0 | eassumption]]. }
      intros a [Ha1 Ha2]. split; auto with opt.
    - apply scan_plain_scalar_safe. assumption. }
  intros [s2 k] [Hw2 Hle2]. cbn [fst] in *.
  eapply wsafe_bind. { apply wsafe_yield. exact I. }
  intros _ _.
  eapply wsafe_bind. { apply wsafe_lift. apply stnt_safe. eassumption. }
  intros s3 [Hw3 Hle3].
  destruct (wfs_peek _ _ Hw3) as [c3 [r3 [Hr3 Hpk3]]]. rewrite Hpk3.
  eapply wsafe_bind. { apply wsafe_lift. cbn [safe]. instantiate (1 := fun x => x = c3). reflexivity. }
  intros ? ->.
  destruct (c3 =? c_colon) eqn:Ec; cbn [negb]; [|apply wsafe_lift; cbn [safe]; apply (wfs_idx _ _ Hw3)].
  apply N.eqb_eq in Ec. assert (Hc3 : c3 <> 0) by (subst; discriminate).
  destruct (forward_1 _ _ _ Hw3 Hpk3 Hc3) as [s4 [H4 [Hw4 Hlt4]]]. rewrite H4.
  eapply wsafe_bind. { apply wsafe_lift. cbn [safe]. instantiate (1 := fun x => x = s4). reflexivity. }
  intros ? ->.
  eapply wsafe_bind. { apply wsafe_yield. exact I. }
  intros _ _.
  eapply wsafe_bind. { apply wsafe_lift. apply stnt_safe. eassumption. }
  intros s5 [Hw5 Hle5].
  assert (Hlt5 : lt_s s s5) by (unfold le_s, lt_s in *; lia).
  destruct (wfs_peek _ _ Hw5) as [c5 [r5 [Hr5 Hpk5]]]. rewrite Hpk5.
  eapply wsafe_bind. { apply wsafe_lift. cbn [safe]. instantiate (1 := fun x => x = c5). reflexivity. }
  intros ? ->.
  destruct (s_col s5 =? 0); [apply wsafe_lift; cbn [safe iter_post]; auto|].
  eapply wsafe_bind with (Q := adv1 n s5).
  { apply wsafe_lift. destruct (mem_N c5 in_tokenize_1) eqn:E1.
    - eapply safe_mono. { apply scan_block_scalar_safe; [eassumption | eassumption | eapply mem_nz; [apply F_tok1_nz | eassumption]]. }
      intros a [Ha1 Ha2]. split; auto with opt.
    - destruct (mem_N c5 in_tokenize_2) eqn:E2.
      + eapply safe_mono. { apply scan_flow_scalar_safe; [eassumption | eassumption | eapply quote_cases; [apply F_tok2 | eassumption]]. }
        intros a [Ha1 Ha2]. split; auto with opt.
      + apply scan_plain_scalar_safe. assumption. }
  intros [s6 v] [Hw6 Hle6]. cbn [fst] in *.
  eapply wsafe_bind. { apply wsafe_yield. cbn [tok_ok]. apply (wfs_idx _ _ Hw5). }
  intros _ _. apply wsafe_lift. cbn [safe iter_post]. split; [assumption | unfold le_s, lt_s in *; lia].
Qed.

Definition pending_ok (n : N) (e : option exn) : Prop :=
  match e with
  | None => True
  | Some (TokenizeError p) => p <= n
  | Some _ => False
  end.

Lemma tokenize_f_safe n : forall fuel s, wfs n s -> (length (s_rest s) < fuel)%nat ->
  Forall (tok_ok n) (fst (tokenize_f fuel s)) /\ pending_ok n (snd (tokenize_f fuel s)).
Proof.
  induction fuel as [|f IH]; intros s Hw Hf; [lia|]. cbn [tokenize_f].
  destruct (tok_iter_safe n s Hw) as [H1 H2].
  destruct (tok_iter s) as [ts [[s'|]|e]]; cbn [fst snd safe iter_post] in *.
  - destruct H2 as [Hw' Hlt']. destruct (IH s' Hw') as [H3 H4]; [unfold lt_s in *; lia|].
    destruct (tokenize_f f s') as [ts' e']. cbn [fst snd] in *. split; [apply Forall_app; split; assumption | assumption].
  - split; [assumption | exact I].
  - split; [assumption|]. destruct e; cbn [pending_ok]; auto.
Qed.

Lemma new_stream_wfs text : wfs (N.of_nat (length text)) (new_stream text).
Proof.
  unfold new_stream, wfs. cbn [s_idx s_rest]. rewrite F_end. split; [|eauto].
  rewrite app_length. cbn [length]. lia.
Qed.

Lemma to_items_safe n : forall toks pending key, Forall (tok_ok n) toks -> pending_ok n pending ->
  safe n (fun _ => True) (to_items toks pending key).
Proof.
  induction toks as [|t toks IH]; intros pending key HF Hp; cbn [to_items].
  - destruct pending as [e|]; [|exact I]. destruct e; cbn [pending_ok safe] in *; auto.
  - inversion HF as [|? ? Ht HF']; subst. destruct t as [k| |st v].
    + eapply safe_bind; [apply IH; assumption|]. intros; exact I.
    + apply IH; assumption.
    + destruct key as [k0|]; [|cbn [safe]; exact Ht].
      eapply safe_bind; [apply IH; assumption|]. intros; exact I.
Qed.

(* the tokenizer returns pairs or raises TokenizeError with an index inside the text *)
Theorem options_to_items_safe text :
  safe (N.of_nat (length text)) (fun _ => True) (options_to_items text).
Proof.
  unfold options_to_items, tokenize.
  pose proof (tokenize_f_safe _ (fuel_of (new_stream text)) (new_stream text) (new_stream_wfs text)) as H.
  destruct H as [H1 H2]; [unfold fuel_of; lia|].
  destruct (tokenize_f (fuel_of (new_stream text)) (new_stream text)) as [toks pending].
  cbn [fst snd] in *. apply to_items_safe; assumption.
Qed.

Theorem terminates text : options_to_items text <> Raise OutOfFuel.
Proof. pose proof (options_to_items_safe text) as H. intros E. rewrite E in H. exact H. Qed.

Theorem in_bounds text : options_to_items text <> Raise IndexError.
Proof. pose proof (options_to_items_safe text) as H. intros E. rewrite E in H. exact H. Qed.

Theorem only_tokenize_error text :
  (exists pairs, options_to_items text = Ok pairs) \/
  (exists p, options_to_items text = Raise (TokenizeError p) /\ p <= N.of_nat (length text)).
Proof.
  pose proof (options_to_items_safe text) as H.
  destruct (options_to_items text) as [a|e]; [left; eauto|].
  destruct e; cbn [safe] in H; try contradiction. right. eauto.
Qed.
