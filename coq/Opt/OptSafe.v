(* Totality of the tokenizer model: every loop terminates within its fuel, the buffer is never
   indexed out of range (the sentinel is never consumed), and the only exception is
   TokenizeError with an index inside the text. *)
From Coq Require Import List NArith Bool Lia ZifyBool Arith.
From MV Require Import Base.PyStr.
From MV Require Import Base.Res.
From MV Require Import Gen.OptConsts.
From MV Require Import Opt.OptModel.
Import ListNotations.
Open Scope N_scope.

(* ------------------------------------------------------------------ result predicates *)

Definition safe {A} (n : N) (Q : A -> Prop) (r : res A) : Prop :=
  match r with
  | Ok a => Q a
  | Raise (TokenizeError p) => p <= n
  | Raise _ => False
  end.

Lemma safe_bind {A B} n (Q : A -> Prop) (Q' : B -> Prop) (r : res A) (f : A -> res B) :
  safe n Q r -> (forall a, Q a -> safe n Q' (f a)) -> safe n Q' (bind r f).
Proof.
  destruct r as [a|e]; cbn [safe bind]; intros H1 H2; [auto|].
  destruct e; auto.
Qed.

Lemma safe_mono {A} n (Q Q' : A -> Prop) (r : res A) :
  safe n Q r -> (forall a, Q a -> Q' a) -> safe n Q' r.
Proof. destruct r as [a|e]; cbn [safe]; auto. Qed.

(* ------------------------------------------------------------------ stream invariant *)

Definition nz (c : N) : Prop := c <> 0.

Definition wfs (n : N) (s : stream) : Prop :=
  s_idx s + N.of_nat (length (s_rest s)) = n + 1 /\ exists pre, s_rest s = pre ++ [0].

Definition le_s (s s' : stream) : Prop := (length (s_rest s') <= length (s_rest s))%nat.
Definition lt_s (s s' : stream) : Prop := (length (s_rest s') < length (s_rest s))%nat.

Lemma le_s_refl s : le_s s s. Proof. unfold le_s; lia. Qed.
Lemma le_s_trans a b c : le_s a b -> le_s b c -> le_s a c. Proof. unfold le_s; lia. Qed.
Lemma lt_le_s a b : lt_s a b -> le_s a b. Proof. unfold le_s, lt_s; lia. Qed.
Lemma lt_le_trans a b c : lt_s a b -> le_s b c -> lt_s a c. Proof. unfold le_s, lt_s; lia. Qed.
Lemma le_lt_trans a b c : le_s a b -> lt_s b c -> lt_s a c. Proof. unfold le_s, lt_s; lia. Qed.
#[export] Hint Resolve le_s_refl lt_le_s : opt.

Lemma wfs_idx n s : wfs n s -> s_idx s <= n.
Proof.
  intros [H [pre Hp]]. rewrite Hp, app_length in H. cbn [length] in H. lia.
Qed.

Lemma wfs_peek n s : wfs n s -> exists c r, s_rest s = c :: r /\ peek s 0 = Ok c.
Proof.
  intros [_ [pre Hp]]. unfold peek. rewrite Hp.
  destruct pre as [|c pre]; cbn; eauto.
Qed.

Lemma wfs_tail n s c r : wfs n s -> s_rest s = c :: r -> c <> 0 -> exists pre', r = pre' ++ [0].
Proof.
  intros [_ [pre Hp]] Hr Hc. rewrite Hr in Hp.
  destruct pre as [|c' pre]; cbn in Hp; inversion Hp; subst; [congruence | eauto].
Qed.

Lemma forward1_ok n s c r : wfs n s -> s_rest s = c :: r -> c <> 0 ->
  exists s', forward1 s = Ok s' /\ wfs n s' /\ s_rest s' = r.
Proof.
  intros Hw Hr Hc. destruct (wfs_tail _ _ _ _ Hw Hr Hc) as [pre' Hp'].
  assert (Hidx : s_idx s + 1 + N.of_nat (length r) = n + 1).
  { destruct Hw as [H _]. rewrite Hr in H. cbn [length] in H. lia. }
  unfold forward1. rewrite Hr.
  assert (W : forall l c', wfs n (mkS (s_idx s + 1) l c' r)).
  { intros; split; cbn; eauto. }
  destruct (mem_N c in_forward_0); [eexists; split; [reflexivity|split; [apply W | reflexivity]]|].
  destruct (c =? c_cr).
  - destruct r as [|x r']; [destruct pre'; discriminate|].
    destruct (negb (x =? c_lf)); [eexists; split; [reflexivity|split; [apply W | reflexivity]]|].
    destruct (negb (c =? c_bom)); eexists; (split; [reflexivity|split; [apply W | reflexivity]]).
  - destruct (negb (c =? c_bom)); eexists; (split; [reflexivity|split; [apply W | reflexivity]]).
Qed.

Lemma nz_firstn_lt l pre k : l = pre ++ [0] -> Forall nz (firstn k l) -> (k < length l)%nat.
Proof.
  intros Hl HF. destruct (Nat.lt_ge_cases k (length l)) as [|Hge]; [assumption|].
  rewrite firstn_all2 in HF by lia. rewrite Hl in HF.
  apply Forall_app in HF as [_ HF]. inversion HF as [|? ? H0 _]; subst. exfalso; apply H0; reflexivity.
Qed.

Lemma forward_ok n : forall k s, wfs n s -> Forall nz (firstn k (s_rest s)) ->
  exists s', forward s k = Ok s' /\ wfs n s' /\ s_rest s' = skipn k (s_rest s).
Proof.
  induction k as [|k IH]; intros s Hw HF.
  - exists s. cbn. auto.
  - destruct (wfs_peek _ _ Hw) as [c [r [Hr _]]]. rewrite Hr in HF. cbn [firstn] in HF.
    inversion HF as [|? ? Hc HF']; subst.
    destruct (forward1_ok _ _ _ _ Hw Hr Hc) as [s1 [H1 [Hw1 Hr1]]].
    cbn [forward]. rewrite H1. cbn [bind].
    rewrite <- Hr1 in HF'. destruct (IH s1 Hw1 HF') as [s' [H2 [Hw2 Hr2]]].
    exists s'. split; [assumption|]. split; [assumption|]. rewrite Hr2, Hr1, Hr. reflexivity.
Qed.

Lemma forward_ok_len n k s : wfs n s -> Forall nz (firstn k (s_rest s)) ->
  exists s', forward s k = Ok s' /\ wfs n s' /\ (length (s_rest s') + k = length (s_rest s))%nat.
Proof.
  intros Hw HF. destruct (forward_ok n k s Hw HF) as [s' [H1 [H2 H3]]].
  exists s'. split; [assumption|]. split; [assumption|].
  destruct Hw as [_ [pre Hp]]. pose proof (nz_firstn_lt _ _ _ Hp HF).
  rewrite H3, skipn_length. lia.
Qed.

(* forward over one known non-NUL character *)
Lemma forward_1 n s c : wfs n s -> peek s 0 = Ok c -> c <> 0 ->
  exists s', forward s 1 = Ok s' /\ wfs n s' /\ lt_s s s'.
Proof.
  intros Hw Hp Hc. destruct (wfs_peek _ _ Hw) as [c' [r [Hr Hp']]].
  rewrite Hp in Hp'. inversion Hp'; subst c'.
  destruct (forward_ok_len n 1 s Hw) as [s' [H1 [H2 H3]]].
  { rewrite Hr. cbn. constructor; [assumption|constructor]. }
  exists s'. split; [assumption|]. split; [assumption|]. unfold lt_s. lia.
Qed.

(* ------------------------------------------------------------------ counting loops *)

Lemma count_while_ok (p : N -> bool) : p 0 = false -> forall pre,
  exists k, count_while p (pre ++ [0]) = Ok k /\ Forall nz (firstn k (pre ++ [0])).
Proof.
  intros Hp. induction pre as [|c pre IH]; cbn [app count_while].
  - rewrite Hp. exists O. split; [reflexivity|constructor].
  - destruct (p c) eqn:E.
    + destruct IH as [k [Hk HF]]. rewrite Hk. cbn [bind]. exists (S k). split; [reflexivity|].
      cbn [firstn]. constructor; [|assumption]. intro; subst; congruence.
    + exists O. split; [reflexivity|constructor].
Qed.

Lemma count_forward n p s : p 0 = false -> wfs n s ->
  exists k s', count_while p (s_rest s) = Ok k /\ forward s k = Ok s' /\ wfs n s' /\
               (length (s_rest s') + k = length (s_rest s))%nat.
Proof.
  intros Hp Hw. destruct Hw as [Hi [pre Hpre]].
  destruct (count_while_ok p Hp pre) as [k [Hk HF]]. rewrite <- Hpre in *.
  destruct (forward_ok_len n k s (conj Hi (ex_intro _ pre Hpre)) HF) as [s' [H1 [H2 H3]]].
  exists k, s'. auto.
Qed.

(* ------------------------------------------------------------------ facts about the generated tables *)

Lemma mem_forallb (P : N -> bool) l c : forallb P l = true -> mem_N c l = true -> P c = true.
Proof.
  intros HF Hm. apply mem_N_In in Hm. rewrite forallb_forall in HF. auto.
Qed.

Lemma mem_nz l c : mem_N 0 l = false -> mem_N c l = true -> c <> 0.
Proof. intros H0 Hm E. subst. congruence. Qed.

Lemma F_end : CHARS_END = [0]. Proof. reflexivity. Qed.

Lemma is_end_true ch : is_end ch = true -> ch = 0.
Proof.
  unfold is_end. rewrite F_end. cbn [str_eqb]. rewrite andb_true_r. apply N.eqb_eq.
Qed.
Lemma is_end_false ch : is_end ch = false -> ch <> 0.
Proof.
  unfold is_end. rewrite F_end. cbn [str_eqb]. rewrite andb_true_r. apply N.eqb_neq.
Qed.

Definition is_lbc (c : N) : bool := mem_N c in_scan_line_break_0 || mem_N c in_scan_line_break_1.

Lemma F_lb0_nz : mem_N 0 in_scan_line_break_0 = false. Proof. reflexivity. Qed.
Lemma F_lb1_nz : mem_N 0 in_scan_line_break_1 = false. Proof. reflexivity. Qed.
Lemma F_stnt : mem_N 0 in_scan_to_next_token_0 = true. Proof. reflexivity. Qed.
Lemma F_plain0 : mem_N 0 in_scan_plain_scalar_0 = true. Proof. reflexivity. Qed.
Lemma F_ps1 : forallb (fun c => (c =? c_space) || is_lbc c) in_scan_plain_spaces_1 = true.
Proof. vm_compute. reflexivity. Qed.
Lemma F_fb0 : mem_N 0 in_scan_flow_scalar_breaks_0 = false. Proof. reflexivity. Qed.
Lemma F_fb1 : forallb is_lbc in_scan_flow_scalar_breaks_1 = true. Proof. vm_compute. reflexivity. Qed.
Lemma F_fs0 : mem_N 0 in_scan_flow_scalar_spaces_0 = false. Proof. reflexivity. Qed.
Lemma F_fs1 : forallb is_lbc in_scan_flow_scalar_spaces_1 = true. Proof. vm_compute. reflexivity. Qed.
Lemma F_fns0 : mem_N 0 in_scan_flow_scalar_non_spaces_0 = true. Proof. reflexivity. Qed.
(* a character that stops the non-space run is a quote, a backslash, the end, white space or a break *)
Lemma F_fns0_class :
  forallb (fun c => (c =? c_squote) || (c =? c_dquote) || (c =? c_bslash) || is_end c
                    || mem_N c in_scan_flow_scalar_spaces_0 || mem_N c in_scan_flow_scalar_spaces_1)
          in_scan_flow_scalar_non_spaces_0 = true.
Proof. vm_compute. reflexivity. Qed.
Lemma F_fns1 : mem_N c_dquote in_scan_flow_scalar_non_spaces_1 = true /\
               mem_N c_bslash in_scan_flow_scalar_non_spaces_1 = true /\
               mem_N 0 in_scan_flow_scalar_non_spaces_1 = false.
Proof. repeat split. Qed.
Lemma F_repl_nz : forallb (fun kv => negb (fst kv =? 0)) ESCAPE_REPLACEMENTS = true.
Proof. vm_compute. reflexivity. Qed.
Lemma F_codes : forallb (fun kv => negb (fst kv =? 0) && negb (snd kv =? 0)) ESCAPE_CODES = true.
Proof. vm_compute. reflexivity. Qed.
Lemma F_hex_nz : mem_N 0 in_scan_flow_scalar_non_spaces_2 = false. Proof. reflexivity. Qed.
Lemma F_hex_dig :
  forallb (fun c => match hexdig c with Some _ => true | None => false end)
          in_scan_flow_scalar_non_spaces_2 = true.
Proof. vm_compute. reflexivity. Qed.
(* the repaired code tests `code > 0x10FFFF` before chr() *)
Lemma F_guard : match CHR_GUARD with Some g => g <=? 1114111 | None => false end = true.
Proof. reflexivity. Qed.
Lemma F_bs1_end : mem_N 0 in_scan_block_scalar_1 = true. Proof. reflexivity. Qed.
Lemma F_bs1 : forallb (fun c => is_end c || is_lbc c) in_scan_block_scalar_1 = true.
Proof. vm_compute. reflexivity. Qed.
Lemma F_ind0_nz : mem_N 0 in_scan_block_scalar_indicators_0 = false. Proof. reflexivity. Qed.
Lemma F_ind1 : forallb (fun c => (48 <=? c) && (c <=? 57)) in_scan_block_scalar_indicators_1 = true.
Proof. vm_compute. reflexivity. Qed.
Lemma F_ind2 : forallb (fun c => (48 <=? c) && (c <=? 57)) in_scan_block_scalar_indicators_2 = true.
Proof. vm_compute. reflexivity. Qed.
Lemma F_ind3_nz : mem_N 0 in_scan_block_scalar_indicators_3 = false. Proof. reflexivity. Qed.
Lemma F_ign0 : mem_N 0 in_scan_block_scalar_ignored_line_0 = true. Proof. reflexivity. Qed.
Lemma F_bi0 : forallb (fun c => (c =? c_space) || is_lbc c) in_scan_block_scalar_indentation_0 = true.
Proof. vm_compute. reflexivity. Qed.
Lemma F_bb0 : forallb is_lbc in_scan_block_scalar_breaks_0 = true. Proof. vm_compute. reflexivity. Qed.
Lemma F_tok0 : forallb (fun c => (c =? c_squote) || (c =? c_dquote)) in_tokenize_0 = true.
Proof. vm_compute. reflexivity. Qed.
Lemma F_tok2 : forallb (fun c => (c =? c_squote) || (c =? c_dquote)) in_tokenize_2 = true.
Proof. vm_compute. reflexivity. Qed.
Lemma F_tok1_nz : mem_N 0 in_tokenize_1 = false. Proof. reflexivity. Qed.

Lemma is_lbc_nz c : is_lbc c = true -> c <> 0.
Proof.
  unfold is_lbc. intros H E. subst. rewrite F_lb0_nz, F_lb1_nz in H. discriminate.
Qed.
