(* Proofs about the line / column bookkeeping defined in OptMarksDef.v. *)
From Coq Require Import List NArith Bool Lia ZifyBool Arith.
From MV Require Import Base.PyStr.
From MV Require Import Base.Res.
From MV Require Import Gen.OptConsts.
From MV Require Import Opt.OptModel.
From MV Require Export Opt.OptMarksDef.
Import ListNotations.
Open Scope N_scope.

(* ---------- the implementation keeps this bookkeeping ---------- *)

Lemma F_fwd_breaks : in_forward_0 = LINE_BREAKS. Proof. reflexivity. Qed.

Lemma forward_snoc : forall k s, forward s (S k) = do s' <- forward s k; forward1 s'.
Proof.
  induction k as [|k IH]; intros s.
  - cbn [forward bind]. destruct (forward1 s); reflexivity.
  - change (forward s (S (S k))) with (do s1 <- forward1 s; forward s1 (S k)).
    cbn [forward]. destruct (forward1 s) as [s1|e]; cbn [bind]; [apply IH | reflexivity].
Qed.

Lemma line_start_le B p : (line_start B p <= p)%nat.
Proof. induction p as [|p IH]; cbn [line_start]; [lia|]. destruct (brk B p); lia. Qed.

Lemma line_of_S B p : line_of B (S p) = line_of B p + (if brk B p then 1 else 0).
Proof.
  unfold line_of. rewrite seq_S, filter_app, app_length. cbn [filter plus].
  destruct (brk B p); cbn [length]; lia.
Qed.

Lemma col_of_S B p : col_of B (S p) =
  if brk B p then 0 else col_of B p + (if counts B p then 1 else 0).
Proof.
  unfold col_of. cbn [line_start]. destruct (brk B p) eqn:E.
  - rewrite Nat.sub_diag. reflexivity.
  - pose proof (line_start_le B p) as Hle.
    replace (S p - line_start B p)%nat with (S (p - line_start B p)) by lia.
    rewrite seq_S, filter_app, app_length. cbn [filter].
    replace (line_start B p + (p - line_start B p))%nat with p by lia.
    destruct (counts B p); cbn [length]; lia.
Qed.

Definition mark_ok (B : str) (s : stream) : Prop :=
  exists p, s_idx s = N.of_nat p /\ s_rest s = skipn p B /\
            s_line s = line_of B p /\ s_col s = col_of B p.

Lemma nth_error_skipn {A} (l : list A) p : nth_error l p = hd_error (skipn p l).
Proof.
  revert l. induction p as [|p IH]; intros l; destruct l; cbn; auto.
Qed.

Lemma skipn_S_tl {A} (l : list A) p : skipn (S p) l = tl (skipn p l).
Proof. revert l. induction p as [|p IH]; intros l; destruct l; cbn [skipn tl]; auto. apply IH. Qed.

Lemma forward1_mark B s s' : mark_ok B s -> forward1 s = Ok s' -> mark_ok B s'.
Proof.
  intros (p & Hi & Hr & Hl & Hc) H. unfold forward1 in H.
  destruct (s_rest s) as [|ch r] eqn:Er; [discriminate|].
  assert (Hch : nth_error B p = Some ch) by (rewrite nth_error_skipn, <- Hr; reflexivity).
  assert (Hr' : r = skipn (S p) B) by (rewrite skipn_S_tl, <- Hr; reflexivity).
  assert (Hnext : nth_error B (S p) = hd_error r) by (rewrite nth_error_skipn, <- Hr'; reflexivity).
  assert (Hbrk : brk B p = mem_N ch in_forward_0 ||
                           ((ch =? c_cr) && match r with n :: _ => negb (n =? c_lf) | [] => true end)).
  { unfold brk. rewrite Hch, Hnext, F_fwd_breaks. f_equal. f_equal.
    destruct r as [|n r']; reflexivity. }
  assert (Hcnt : counts B p = negb (ch =? c_bom)) by (unfold counts; rewrite Hch; reflexivity).
  assert (K : forall l c, l = line_of B (S p) -> c = col_of B (S p) ->
                          mark_ok B (mkS (s_idx s + 1) l c r)).
  { intros l c -> ->. exists (S p). cbn [s_idx s_rest s_line s_col]. repeat split; auto. lia. }
  rewrite line_of_S, col_of_S in K. rewrite Hbrk, Hcnt in K.
  destruct (mem_N ch in_forward_0) eqn:Em; cbn [orb] in K.
  { inversion H; subst. apply K; [lia | reflexivity]. }
  destruct (ch =? c_cr) eqn:Ecr; cbn [andb] in K.
  - destruct r as [|n r']; [discriminate|].
    destruct (negb (n =? c_lf)); cbn [andb] in K.
    + inversion H; subst. apply K; [lia | reflexivity].
    + destruct (negb (ch =? c_bom)); inversion H; subst; apply K; lia.
  - destruct (negb (ch =? c_bom)); inversion H; subst; apply K; lia.
Qed.

Lemma forward_mark B : forall k s s', mark_ok B s -> forward s k = Ok s' -> mark_ok B s'.
Proof.
  induction k as [|k IH]; intros s s' Hm H.
  - inversion H; subst. exact Hm.
  - cbn [forward] in H. destruct (forward1 s) as [s1|e] eqn:E1; cbn [bind] in H; [|discriminate].
    eapply IH; [eapply forward1_mark; eassumption | exact H].
Qed.

Lemma new_stream_mark text : mark_ok (text ++ CHARS_END) (new_stream text).
Proof. exists O. unfold new_stream. cbn. repeat split. Qed.

Lemma mark_ok_idx B s p : mark_ok B s -> s_idx s = N.of_nat p ->
  s_line s = line_of B p /\ s_col s = col_of B p.
Proof.
  intros (q & Hi & _ & Hl & Hc) Hp. assert (q = p) by lia. subst. auto.
Qed.

Lemma forward1_idx s s' : forward1 s = Ok s' -> s_idx s' = s_idx s + 1.
Proof.
  unfold forward1. destruct (s_rest s) as [|ch r]; [discriminate|].
  destruct (mem_N ch in_forward_0); [intros H; inversion H; reflexivity|].
  destruct (ch =? c_cr).
  - destruct r as [|n r']; [discriminate|].
    destruct (negb (n =? c_lf)); [intros H; inversion H; reflexivity|].
    destruct (negb (ch =? c_bom)); intros H; inversion H; reflexivity.
  - destruct (negb (ch =? c_bom)); intros H; inversion H; reflexivity.
Qed.

Lemma forward_idx : forall k s s', forward s k = Ok s' -> s_idx s' = s_idx s + N.of_nat k.
Proof.
  induction k as [|k IH]; intros s s' H.
  - inversion H. lia.
  - cbn [forward] in H. destruct (forward1 s) as [s1|e] eqn:E1; cbn [bind] in H; [|discriminate].
    rewrite (IH _ _ H), (forward1_idx _ _ E1). lia.
Qed.

(* StreamBuffer: after forwarding k characters from the start, get_position() is
   (k, line of k, column of k) *)
Theorem forward_positions text k s : forward (new_stream text) k = Ok s ->
  s_idx s = N.of_nat k /\ s_line s = line_of (text ++ CHARS_END) k /\
  s_col s = col_of (text ++ CHARS_END) k.
Proof.
  intros H. pose proof (forward_mark _ k _ _ (new_stream_mark text) H) as Hm.
  assert (Hk : s_idx s = N.of_nat k) by (rewrite (forward_idx _ _ _ H); cbn; lia).
  split; [exact Hk|]. apply (mark_ok_idx _ _ _ Hm Hk).
Qed.

(* TokenizeError.clone: index kept, line and column shifted by the offsets *)
Theorem clone_positions text lo co p :
  error_mark text lo co p =
  let '(i, l, c) := error_mark text 0 0 p in (i, l + lo, c + co).
Proof. unfold error_mark. cbn zeta. rewrite !N.add_0_r. reflexivity. Qed.
