(* The printed text of a well-formed block contains no carriage return (every line break of
   print_block is a line feed), so the line-break simulation of Opt/OptBreaks.v applies to it. *)
From Coq Require Import List NArith Bool Lia Arith.
From MV Require Import Base.PyStr.
From MV Require Import Opt.YamlSpec.
From MV Require Import Opt.OptBreaksDef.
Import ListNotations.
Open Scope N_scope.

Definition ncr (c : N) : bool := negb (c =? 13).

Lemma no_cr_app a b : no_cr (a ++ b) = no_cr a && no_cr b.
Proof. apply forallb_app. Qed.

Lemma no_cr_cons c a : no_cr (c :: a) = ncr c && no_cr a.
Proof. reflexivity. Qed.

Lemma no_cr_imp (p : N -> bool) t : (forall c, p c = true -> ncr c = true) -> forallb p t = true -> no_cr t = true.
Proof.
  intros Hp H. unfold no_cr. rewrite forallb_forall in *. intros c Hc. apply (Hp c). auto.
Qed.

Lemma okc_ncr c : okc c = true -> ncr c = true.
Proof. unfold okc, ncr. intros H. apply negb_true_iff, N.eqb_neq. intros ->. discriminate H. Qed.
Lemma wsc_ncr c : wsc c = true -> ncr c = true.
Proof. unfold wsc, ncr. intros H. apply negb_true_iff, N.eqb_neq. intros ->. discriminate H. Qed.
Lemma txtc_ncr c : txtc c = true -> ncr c = true.
Proof. unfold txtc. intros H. apply orb_true_iff in H as [H|H]; [apply okc_ncr | apply wsc_ncr]; exact H. Qed.
Lemma hex_ncr c : is_hex c = true -> ncr c = true.
Proof. unfold is_hex, ncr. intros H. apply negb_true_iff, N.eqb_neq. intros ->. discriminate H. Qed.

Lemma no_cr_sp n : no_cr (sp n) = true.
Proof. induction n as [|n IH]; [reflexivity|]. exact IH. Qed.

Lemma no_cr_concat {A} (f : A -> str) l : (forall x, In x l -> no_cr (f x) = true) -> no_cr (concat (map f l)) = true.
Proof.
  induction l as [|x l IH]; intros H; [reflexivity|]. cbn [map concat]. rewrite no_cr_app, (H x (or_introl eq_refl)).
  apply IH. intros y Hy. apply H. right. exact Hy.
Qed.

Lemma no_cr_bl ns : no_cr (bl ns) = true.
Proof. unfold bl. apply no_cr_concat. intros n _. rewrite no_cr_app, no_cr_sp. reflexivity. Qed.

Lemma no_cr_blw ks : forallb (forallb wsc) ks = true -> no_cr (blw ks) = true.
Proof.
  intros H. unfold blw. apply no_cr_concat. intros w Hw. rewrite forallb_forall in H.
  rewrite no_cr_app, (no_cr_imp wsc w wsc_ncr (H w Hw)). reflexivity.
Qed.

Lemma no_cr_nil : no_cr [] = true. Proof. reflexivity. Qed.

Ltac ncr_split := repeat (rewrite ?no_cr_app, ?no_cr_cons, ?no_cr_nil, ?no_cr_sp, ?no_cr_bl; cbn [andb ncr N.eqb Pos.eqb negb]).

Lemma no_cr_word w : wf_word w = true -> no_cr w = true.
Proof.
  unfold wf_word. destruct w as [|c w]; [discriminate|]. intros H.
  apply andb_true_iff in H as [H _]. apply andb_true_iff in H as [H _]. exact (no_cr_imp okc _ okc_ncr H).
Qed.

Lemma no_cr_pline l : wf_pline l = true -> no_cr (print_pline l) = true.
Proof.
  unfold wf_pline, print_pline. intros H. apply andb_true_iff in H as [H1 H2].
  rewrite no_cr_app, (no_cr_word _ H1). cbn [andb]. apply no_cr_concat. intros [n w] Hin.
  rewrite forallb_forall in H2. specialize (H2 _ Hin). cbn beta iota in H2. apply andb_true_iff in H2 as [_ H2].
  rewrite no_cr_app, no_cr_sp, (no_cr_word _ H2). reflexivity.
Qed.

Lemma no_cr_sq t : sq_ok t = true -> no_cr (print_sq t) = true.
Proof.
  unfold sq_ok, print_sq. induction t as [|c t IH]; intros H; [reflexivity|]. cbn [forallb flat_map] in *.
  apply andb_true_iff in H as [Hc H]. rewrite no_cr_app, (IH H), andb_true_r.
  destruct (c =? 39); [reflexivity|]. rewrite no_cr_cons, (txtc_ncr _ Hc). reflexivity.
Qed.

Lemma escape_ncr c : (match yaml_escape c with Some _ => true | None => false end) = true -> ncr c = true.
Proof.
  intros H. unfold ncr. apply negb_true_iff, N.eqb_neq. intros ->. vm_compute in H. discriminate H.
Qed.

Lemma no_cr_dq_item d : wf_dq_item d = true -> no_cr (print_dq_item d) = true.
Proof.
  destruct d as [c|c|k ds|ks ind]; cbn [wf_dq_item print_dq_item]; intros H.
  - apply andb_true_iff in H as [H _]. apply andb_true_iff in H as [H _]. rewrite no_cr_cons, (txtc_ncr _ H). reflexivity.
  - rewrite !no_cr_cons, (escape_ncr _ H). reflexivity.
  - apply andb_true_iff in H as [H _]. apply andb_true_iff in H as [Hk Hd].
    rewrite !no_cr_cons, (no_cr_imp is_hex _ hex_ncr Hd), andb_true_r. cbn [ncr N.eqb Pos.eqb negb andb].
    unfold ncr. apply negb_true_iff, N.eqb_neq. intros ->. cbn in Hk. discriminate Hk.
  - apply andb_true_iff in H as [H1 H2]. ncr_split.
    rewrite (no_cr_blw _ H1), (no_cr_imp wsc _ wsc_ncr H2). reflexivity.
Qed.

Lemma no_cr_dq t : wf_dq_line t = true -> no_cr (print_dq t) = true.
Proof.
  unfold wf_dq_line, print_dq. intros H. apply andb_true_iff in H as [H _].
  induction t as [|d t IH]; [reflexivity|]. cbn [forallb flat_map] in *. apply andb_true_iff in H as [Hd H].
  rewrite no_cr_app, (no_cr_dq_item _ Hd), (IH H). reflexivity.
Qed.

(* continuation lines of quoted scalars *)
Lemma no_cr_qmore {T} (wf_t ends_ws starts_ws empty : T -> bool) (pr : T -> str) :
  (forall t, wf_t t = true -> no_cr (pr t) = true) ->
  forall more first prev, wf_qmore wf_t ends_ws starts_ws empty first prev more = true ->
  no_cr (concat (map (fun '(tws, ks, ind, t) => tws ++ [10] ++ blw ks ++ ind ++ pr t) more)) = true.
Proof.
  intros Hpr. induction more as [|[[[tws ks] ind] t] more IH]; intros first prev H; [reflexivity|].
  cbn [wf_qmore] in H. apply andb_true_iff in H as [H Hrec]. apply andb_true_iff in H as [H _].
  apply andb_true_iff in H as [H Ht]. apply andb_true_iff in H as [H Hind]. apply andb_true_iff in H as [H _].
  apply andb_true_iff in H as [H Hks]. apply andb_true_iff in H as [_ Htws].
  cbn [map concat]. ncr_split.
  rewrite (no_cr_imp wsc _ wsc_ncr Htws), (no_cr_blw _ Hks), (no_cr_imp wsc _ wsc_ncr Hind), (Hpr _ Ht). cbn [andb].
  exact (IH _ _ Hrec).
Qed.

Lemma no_cr_flow f : wf_flow f = true -> no_cr (print_flow f) = true.
Proof.
  destruct f as [l0 more|l0 more|l0 more]; cbn [wf_flow print_flow]; intros H; apply andb_true_iff in H as [H0 Hm].
  - unfold wf_pline_start in H0. apply andb_true_iff in H0 as [H0 _].
    rewrite no_cr_app, (no_cr_pline _ H0). cbn [andb]. apply no_cr_concat. intros [[[tsp ks] ind] l] Hin.
    rewrite forallb_forall in Hm. specialize (Hm _ Hin). cbn beta iota in Hm. apply andb_true_iff in Hm as [_ Hm].
    ncr_split. exact (no_cr_pline _ Hm).
  - ncr_split. rewrite (no_cr_sq _ H0), (no_cr_qmore _ _ _ _ print_sq no_cr_sq _ _ _ Hm). reflexivity.
  - ncr_split. rewrite (no_cr_dq _ H0), (no_cr_qmore _ _ _ _ print_dq no_cr_dq _ _ _ Hm). reflexivity.
Qed.

Lemma no_cr_comment n cm : comment_ok n cm = true -> no_cr (print_comment cm) = true.
Proof.
  destruct cm as [t|]; [|reflexivity]. cbn [comment_ok print_comment]. intros H. apply andb_true_iff in H as [_ H].
  rewrite no_cr_cons. exact (no_cr_imp txtc _ txtc_ncr H).
Qed.

Lemma no_cr_btext t : wf_btext t = true -> no_cr t = true.
Proof. unfold wf_btext. intros H. apply andb_true_iff in H as [_ H]. exact (no_cr_imp txtc _ txtc_ncr H). Qed.

Lemma no_cr_header folded h indent : comment_ok (h_sp h) (h_comment h) = true -> (indent <= 9)%nat \/ h_explicit h = false ->
  no_cr (print_header folded h indent) = true.
Proof.
  intros Hcm Hi. unfold print_header. cbv zeta. ncr_split.
  assert (Hf : ncr (if folded then 62 else 124) = true) by (destruct folded; reflexivity). rewrite Hf. cbn [andb].
  assert (Hch : no_cr (print_chomp (h_chomp h)) = true) by (destruct (h_chomp h); reflexivity).
  match goal with |- context [if h_chomp_first h then _ ++ ?I else _] => assert (Hind : no_cr I = true) end.
  { destruct (h_explicit h); [|reflexivity]. destruct Hi as [Hi|Hi]; [|discriminate].
    rewrite no_cr_cons. unfold ncr. rewrite andb_true_r. apply negb_true_iff, N.eqb_neq. lia. }
  rewrite (no_cr_comment _ _ Hcm), andb_true_r.
  destruct (h_chomp_first h); rewrite no_cr_app, Hch, Hind; reflexivity.
Qed.

Lemma no_cr_value_nolf v : wf_value v = true -> no_cr (print_value_nolf v) = true /\ no_cr (print_value v) = true.
Proof.
  destruct v as [tsp cm|vsp f tsp cm|vsp folded h lead indent first more]; cbn [wf_value print_value_nolf print_value]; intros H.
  - ncr_split. rewrite (no_cr_comment _ _ H). split; reflexivity.
  - apply andb_true_iff in H as [H Hcm]. apply andb_true_iff in H as [_ Hf].
    ncr_split. rewrite (no_cr_flow _ Hf), (no_cr_comment _ _ Hcm). split; reflexivity.
  - apply andb_true_iff in H as [H _]. apply andb_true_iff in H as [H Hmore]. apply andb_true_iff in H as [H Hfirst].
    apply andb_true_iff in H as [H Hexpl]. apply andb_true_iff in H as [H _]. apply andb_true_iff in H as [_ Hcm].
    assert (Hh : no_cr (print_header folded h indent) = true).
    { apply no_cr_header; [exact Hcm|]. destruct (h_explicit h); [left; apply Nat.leb_le; exact Hexpl | right; reflexivity]. }
    assert (Hm : no_cr (concat (map (fun '(ks, t) => bl ks ++ sp indent ++ t ++ [10]) more)) = true).
    { apply no_cr_concat. intros [ks t] Hin. rewrite forallb_forall in Hmore. specialize (Hmore _ Hin). cbn beta iota in Hmore.
      apply andb_true_iff in Hmore as [_ Ht]. ncr_split. rewrite (no_cr_btext _ Ht). reflexivity. }
    ncr_split. rewrite Hh, (no_cr_btext _ Hfirst), Hm. split; reflexivity.
Qed.

Lemma no_cr_key k : wf_key k = true -> no_cr (print_key k) = true.
Proof.
  destruct k as [l|t|t]; cbn [wf_key print_key]; intros H.
  - apply andb_true_iff in H as [H _]. unfold wf_pline_start in H. apply andb_true_iff in H as [H _]. exact (no_cr_pline _ H).
  - ncr_split. rewrite (no_cr_sq _ H). reflexivity.
  - apply andb_true_iff in H as [H _]. ncr_split. rewrite (no_cr_dq _ H). reflexivity.
Qed.

Lemma no_cr_item it : wf_item it = true -> no_cr (print_item it) = true /\ no_cr (print_item_nolf it) = true.
Proof.
  destruct it as [n t tr|k ksp v tr]; cbn [wf_item print_item print_item_nolf]; intros H.
  - ncr_split. rewrite (no_cr_imp txtc _ txtc_ncr H). split; reflexivity.
  - apply andb_true_iff in H as [H _]. apply andb_true_iff in H as [Hk Hv].
    destruct (no_cr_value_nolf _ Hv) as [Hv1 Hv2]. ncr_split. rewrite (no_cr_key _ Hk), Hv1, Hv2. split; reflexivity.
Qed.

Lemma no_cr_items fin items : forallb wf_item items = true -> no_cr (print_items_fin fin items) = true.
Proof.
  induction items as [|it r IH]; intros H; [reflexivity|]. cbn [forallb] in H. apply andb_true_iff in H as [Hit Hr].
  destruct (no_cr_item _ Hit) as [H1 H2]. destruct r as [|it' r'].
  - cbn [print_items_fin]. destruct fin; assumption.
  - change (print_items_fin fin (it :: it' :: r')) with (print_item it ++ print_items_fin fin (it' :: r')).
    rewrite no_cr_app, H1, (IH Hr). reflexivity.
Qed.

Theorem print_block_no_cr b : wf_block b = true -> no_cr (print_block b) = true.
Proof.
  unfold wf_block, print_block. intros H. apply andb_true_iff in H as [H _]. apply andb_true_iff in H as [H _].
  rewrite no_cr_app, no_cr_bl. exact (no_cr_items _ _ H).
Qed.
