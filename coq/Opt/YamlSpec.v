(* The supported YAML subset as an AST, with its concrete syntax [print_block] and its
   YAML meaning [meaning_block] (all scalars read as strings), written from the YAML 1.1
   rules independently of the tokenizer model: flow folding of multi-line plain / quoted
   scalars, '' doubling, double-quote escapes, literal / folded block scalars with chomping
   and indentation indicators, comments, blank lines.
   [wf_block] delimits the texts on which the reading is unambiguous.
   Executable definitions only.  PyYAML validates print/meaning on every run (props/C07.py). *)
From Coq Require Import List NArith Bool.
From MV Require Import Base.PyStr.
Import ListNotations.
Open Scope N_scope.

Definition sp (n : nat) : str := repeat 32 n.          (* n spaces *)
Definition nls (n : nat) : str := repeat 10 n.         (* n line feeds *)
(* blank lines, each with the given number of spaces *)
Definition bl (ns : list nat) : str := concat (map (fun n => sp n ++ [10]) ns).
(* blank lines inside quoted scalars: each consists of white space (spaces and tabs) *)
Definition blw (ws : list str) : str := concat (map (fun w => w ++ [10]) ws).

(* ---------- characters ---------- *)
(* printable, not white space, not a line break, not the BOM, not a surrogate *)
Definition okc (c : N) : bool :=
  ((33 <=? c) && (c <=? 126)) ||
  ((160 <=? c) && (c <=? 55295) && negb (c =? 8232) && negb (c =? 8233)).
Definition wsc (c : N) : bool := (c =? 32) || (c =? 9).
Definition txtc (c : N) : bool := okc c || wsc c.       (* inside comments, quotes, block lines *)

(* characters that may not start a plain scalar: - ? : , [ ] { } # & * ! | > quote dquote % @ backquote *)
Definition indicator (c : N) : bool :=
  mem_N c [45; 63; 58; 44; 91; 93; 123; 125; 35; 38; 42; 33; 124; 62; 39; 34; 37; 64; 96].

(* ---------- AST ---------- *)

(* one line of a plain scalar: words separated by runs of spaces *)
Record pline := PL { pl_first : str; pl_more : list (nat * str) }.

(* double-quoted content *)
Inductive dq_item :=
| DChr (c : N)                       (* the character itself *)
| DEsc (c : N)                       (* backslash c, a single-character escape *)
| DHex (k : N) (digits : str)        (* backslash x / u / U followed by 2 / 4 / 8 hex digits *)
| DBrk (ks : list str) (ind : str).  (* escaped line break: backslash, line feed, blank lines,
                                        the leading white space of the next line (all dropped,
                                        the k line feeds are kept) *)

Inductive chomp := Clip | Strip | Keep.

Inductive flow :=
| FPlain  (l0 : pline) (more : list (nat * list nat * nat * pline))
          (* continuation: trailing spaces of the previous line, blank lines, indent, words *)
| FSingle (l0 : str) (more : list (str * list str * str * str))
          (* continuation: trailing white space of the previous line (dropped), blank lines,
             indentation white space (dropped), content *)
| FDouble (l0 : list dq_item) (more : list (str * list str * str * list dq_item)).

Record header := HD {
  h_chomp : chomp;
  h_explicit : bool;          (* indentation indicator digit present *)
  h_chomp_first : bool;       (* order of the two indicators when both are present *)
  h_sp : nat;                 (* spaces after the indicators *)
  h_comment : option str }.   (* "#..." comment on the header line *)

Inductive value :=
| VNone  (tsp : nat) (cm : option str)                               (* key only *)
| VFlow  (vsp : nat) (f : flow) (tsp : nat) (cm : option str)
| VBlock (vsp : nat) (folded : bool) (h : header) (lead : list nat) (indent : nat)
         (first : str) (more : list (list nat * str)).
         (* lead blank lines, then lines at [indent]; each later line preceded by blank lines *)

Inductive key :=
| KPlain (l : pline)
| KSingle (t : str)
| KDouble (t : list dq_item).

Inductive item :=
| IComment (indent : nat) (text : str) (trail : list nat)   (* indented #text line, then blank lines *)
| IKV (k : key) (ksp : nat) (v : value) (trail : list nat).

(* b_final_nl = false: the text ends without the line break of its last line *)
Record block := BK { b_lead : list nat; b_items : list item; b_final_nl : bool }.

(* ---------- concrete syntax ---------- *)

Definition print_pline (l : pline) : str :=
  pl_first l ++ concat (map (fun '(n, w) => sp n ++ w) (pl_more l)).

Definition print_sq (t : str) : str :=
  flat_map (fun c => if c =? 39 then [39; 39] else [c]) t.

Definition print_dq_item (d : dq_item) : str :=
  match d with
  | DChr c => [c]
  | DEsc c => [92; c]
  | DHex k ds => 92 :: k :: ds
  | DBrk ks ind => [92; 10] ++ blw ks ++ ind
  end.
Definition print_dq (t : list dq_item) : str := flat_map print_dq_item t.

Definition print_comment (cm : option str) : str :=
  match cm with Some t => 35 :: t | None => [] end.

Definition print_flow (f : flow) : str :=
  match f with
  | FPlain l0 more =>
      print_pline l0 ++
      concat (map (fun '(tsp, ks, ind, l) => sp tsp ++ [10] ++ bl ks ++ sp ind ++ print_pline l) more)
  | FSingle l0 more =>
      [39] ++ print_sq l0 ++
      concat (map (fun '(tws, ks, ind, t) => tws ++ [10] ++ blw ks ++ ind ++ print_sq t) more) ++ [39]
  | FDouble l0 more =>
      [34] ++ print_dq l0 ++
      concat (map (fun '(tws, ks, ind, t) => tws ++ [10] ++ blw ks ++ ind ++ print_dq t) more) ++ [34]
  end.

Definition print_chomp (c : chomp) : str :=
  match c with Clip => [] | Strip => [45] | Keep => [43] end.

Definition print_header (folded : bool) (h : header) (indent : nat) : str :=
  let ind := if h_explicit h then [48 + N.of_nat indent] else [] in
  [if folded then 62 else 124] ++
  (if h_chomp_first h then print_chomp (h_chomp h) ++ ind else ind ++ print_chomp (h_chomp h)) ++
  sp (h_sp h) ++ print_comment (h_comment h) ++ [10].

Definition print_value (v : value) : str :=
  match v with
  | VNone tsp cm => sp tsp ++ print_comment cm ++ [10]
  | VFlow vsp f tsp cm => sp vsp ++ print_flow f ++ sp tsp ++ print_comment cm ++ [10]
  | VBlock vsp folded h lead indent first more =>
      sp vsp ++ print_header folded h indent ++ bl lead ++
      sp indent ++ first ++ [10] ++
      concat (map (fun '(ks, t) => bl ks ++ sp indent ++ t ++ [10]) more)
  end.

Definition print_key (k : key) : str :=
  match k with
  | KPlain l => print_pline l
  | KSingle t => [39] ++ print_sq t ++ [39]
  | KDouble t => [34] ++ print_dq t ++ [34]
  end.

Definition print_item (it : item) : str :=
  match it with
  | IComment n t trail => sp n ++ 35 :: t ++ [10] ++ bl trail
  | IKV k ksp v trail => print_key k ++ sp ksp ++ [58] ++ print_value v ++ bl trail
  end.

(* the last line without its line break (for a key/value item whose value is on the key's line) *)
Definition print_value_nolf (v : value) : str :=
  match v with
  | VNone tsp cm => sp tsp ++ print_comment cm
  | VFlow vsp f tsp cm => sp vsp ++ print_flow f ++ sp tsp ++ print_comment cm
  | VBlock _ _ _ _ _ _ _ => print_value v
  end.

Definition print_item_nolf (it : item) : str :=
  match it with
  | IComment n t _ => sp n ++ 35 :: t
  | IKV k ksp v _ => print_key k ++ sp ksp ++ [58] ++ print_value_nolf v
  end.

Fixpoint print_items_fin (fin : bool) (items : list item) : str :=
  match items with
  | [] => []
  | [it] => if fin then print_item it else print_item_nolf it
  | it :: r => print_item it ++ print_items_fin fin r
  end.

Definition print_block (b : block) : str :=
  bl (b_lead b) ++ print_items_fin (b_final_nl b) (b_items b).

(* ---------- meaning (YAML 1.1, every scalar a string) ---------- *)

(* YAML 1.1 section 5.6 escape sequences (single character ones): escape character, meaning *)
Definition yaml_escapes : list (N * N) :=
  [ (48, 0);       (* \0 null *)
    (97, 7);       (* \a bell *)
    (98, 8);       (* \b backspace *)
    (116, 9);      (* \t tab *)
    (9, 9);        (* backslash TAB *)
    (110, 10);     (* \n line feed *)
    (118, 11);     (* \v vertical tab *)
    (102, 12);     (* \f form feed *)
    (114, 13);     (* \r carriage return *)
    (101, 27);     (* \e escape *)
    (32, 32);      (* backslash space *)
    (34, 34);      (* backslash dquote *)
    (47, 47);      (* \/ slash *)
    (92, 92);      (* backslash backslash *)
    (78, 133);     (* \N next line *)
    (95, 160);     (* \_ non-breaking space *)
    (76, 8232);    (* \L line separator *)
    (80, 8233) ].  (* \P paragraph separator *)

Fixpoint lookup (c : N) (l : list (N * N)) : option N :=
  match l with
  | [] => None
  | (k, v) :: l' => if c =? k then Some v else lookup c l'
  end.

Definition yaml_escape (c : N) : option N := lookup c yaml_escapes.

Definition hexval1 (c : N) : N :=
  if c <=? 57 then c - 48 else if c <=? 70 then c - 55 else c - 87.
Definition hexval (ds : str) : N := fold_left (fun a c => 16 * a + hexval1 c) ds 0.

Definition dq_meaning_item (d : dq_item) : str :=
  match d with
  | DChr c => [c]
  | DEsc c => match yaml_escape c with Some r => [r] | None => [] end
  | DHex _ ds => [hexval ds]
  | DBrk ks _ => nls (length ks)
  end.
Definition dq_meaning (t : list dq_item) : str := flat_map dq_meaning_item t.

(* flow line folding: one break -> a space, 1+k breaks -> k line feeds *)
Definition fold_sep (k : nat) : str := match k with O => [32] | _ => nls k end.

Definition flow_meaning (f : flow) : str :=
  match f with
  | FPlain l0 more =>
      print_pline l0 ++ concat (map (fun '(_, ks, _, l) => fold_sep (length ks) ++ print_pline l) more)
  | FSingle l0 more =>
      l0 ++ concat (map (fun '(_, ks, _, t) => fold_sep (length ks) ++ t) more)
  | FDouble l0 more =>
      dq_meaning l0 ++ concat (map (fun '(_, ks, _, t) => fold_sep (length ks) ++ dq_meaning t) more)
  end.

Definition more_indented (t : str) : bool :=
  match t with c :: _ => wsc c | [] => false end.

(* the text between two content lines of a block scalar separated by k blank lines *)
Definition block_sep (folded : bool) (prev next : str) (k : nat) : str :=
  if folded && negb (more_indented prev) && negb (more_indented next)
  then fold_sep k
  else 10 :: nls k.

Fixpoint block_body (folded : bool) (prev : str) (more : list (list nat * str)) : str :=
  match more with
  | [] => []
  | (ks, t) :: more' => block_sep folded prev t (length ks) ++ t ++ block_body folded t more'
  end.

Definition chomp_tail (c : chomp) (trail : nat) : str :=
  match c with Clip => [10] | Strip => [] | Keep => 10 :: nls trail end.

Definition value_meaning (v : value) (trail : list nat) : str :=
  match v with
  | VNone _ _ => []
  | VFlow _ f _ _ => flow_meaning f
  | VBlock _ folded h lead _ first more =>
      nls (length lead) ++ first ++ block_body folded first more ++ chomp_tail (h_chomp h) (length trail)
  end.

Definition key_meaning (k : key) : str :=
  match k with
  | KPlain l => print_pline l
  | KSingle t => t
  | KDouble t => dq_meaning t
  end.

Definition meaning_block (b : block) : list (str * str) :=
  flat_map (fun it => match it with
                      | IComment _ _ _ => []
                      | IKV k _ v trail => [(key_meaning k, value_meaning v trail)]
                      end) (b_items b).

(* ---------- well-formedness ---------- *)

Fixpoint last_is (p : N -> bool) (t : str) : bool :=
  match t with [] => false | [c] => p c | _ :: t' => last_is p t' end.
Definition first_is (p : N -> bool) (t : str) : bool :=
  match t with c :: _ => p c | [] => false end.

(* a word of a plain scalar: printable non-space characters, no leading '#', no trailing ':' *)
Definition wf_word (w : str) : bool :=
  match w with
  | [] => false
  | c :: _ => forallb okc w && negb (c =? 35) && negb (last_is (fun x => x =? 58) w)
  end.

Definition wf_pline (l : pline) : bool :=
  wf_word (pl_first l) &&
  forallb (fun '(n, w) => negb (Nat.eqb n 0) && wf_word w) (pl_more l).

(* the first line of a plain scalar must not begin with an indicator *)
Definition wf_pline_start (l : pline) : bool :=
  wf_pline l && negb (first_is indicator (pl_first l)).

Definition is_hex (c : N) : bool :=
  ((48 <=? c) && (c <=? 57)) || ((65 <=? c) && (c <=? 70)) || ((97 <=? c) && (c <=? 102)).

Definition wf_dq_item (d : dq_item) : bool :=
  match d with
  | DChr c => txtc c && negb (c =? 34) && negb (c =? 92)
  | DEsc c => match yaml_escape c with Some _ => true | None => false end
  | DHex k ds =>
      (((k =? 120) && Nat.eqb (length ds) 2) || ((k =? 117) && Nat.eqb (length ds) 4)
       || ((k =? 85) && Nat.eqb (length ds) 8))
      && forallb is_hex ds && (hexval ds <=? 1114111)
  | DBrk ks ind => forallb (forallb wsc) ks && forallb wsc ind
  end.

(* what follows an escaped line break is not white space (it would be read as indentation) *)
Definition dq_is_brk (d : dq_item) : bool := match d with DBrk _ _ => true | _ => false end.
Definition dq_is_ws (d : dq_item) : bool := match d with DChr c => wsc c | _ => false end.
Fixpoint dq_brk_ok (t : list dq_item) : bool :=
  match t with
  | [] => true
  | d :: t' =>
      negb (dq_is_brk d && match t' with d' :: _ => dq_is_ws d' | [] => false end) && dq_brk_ok t'
  end.
Definition wf_dq_line (t : list dq_item) : bool := forallb wf_dq_item t && dq_brk_ok t.

Definition comment_ok (sp_before : nat) (cm : option str) : bool :=
  match cm with
  | None => true
  | Some t => negb (Nat.eqb sp_before 0) && forallb txtc t
  end.

Definition dq_first_ws (t : list dq_item) : bool :=
  match t with DChr c :: _ => wsc c | _ => false end.
(* the line ends in white space or in an escaped line break: not allowed before a line fold *)
Fixpoint dq_last_ws (t : list dq_item) : bool :=
  match t with
  | [] => false
  | [d] => dq_is_ws d || dq_is_brk d
  | _ :: t' => dq_last_ws t'
  end.
Definition is_nil {A} (l : list A) : bool := match l with [] => true | _ => false end.

(* continuation lines of a quoted scalar; [prev] is the content of the line before the break *)
Fixpoint wf_qmore {T} (wf_t ends_ws starts_ws empty : T -> bool) (first : bool) (prev : T)
         (more : list (str * list str * str * T)) : bool :=
  match more with
  | [] => true
  | (tws, ks, ind, t) :: more' =>
      negb (ends_ws prev) && (first || negb (empty prev)) &&
      forallb wsc tws && forallb (forallb wsc) ks && first_is (fun c => c =? 32) ind && forallb wsc ind &&
      wf_t t && negb (starts_ws t) &&
      wf_qmore wf_t ends_ws starts_ws empty false t more'
  end.

Definition sq_ok (t : str) : bool := forallb txtc t.

Definition wf_flow (f : flow) : bool :=
  match f with
  | FPlain l0 more =>
      wf_pline_start l0 &&
      forallb (fun '(_, _, ind, l) => negb (Nat.eqb ind 0) && wf_pline l) more
  | FSingle l0 more =>
      sq_ok l0 && wf_qmore sq_ok (last_is wsc) (first_is wsc) is_nil true l0 more
  | FDouble l0 more =>
      wf_dq_line l0 &&
      wf_qmore wf_dq_line dq_last_ws dq_first_ws is_nil true l0 more
  end.

Definition wf_btext (t : str) : bool := negb (is_nil t) && forallb txtc t.

(* blank lines inside and after a block scalar have at most [indent] spaces
   (with more they would be content) *)
Definition bl_le (indent : nat) (ns : list nat) : bool := forallb (fun n => Nat.leb n indent) ns.

Definition wf_value (v : value) : bool :=
  match v with
  | VNone tsp cm => comment_ok tsp cm
  | VFlow vsp f tsp cm => negb (Nat.eqb vsp 0) && wf_flow f && comment_ok tsp cm
  | VBlock vsp _ h lead indent first more =>
      negb (Nat.eqb vsp 0) && comment_ok (h_sp h) (h_comment h) &&
      negb (Nat.eqb indent 0) &&
      (if h_explicit h then Nat.leb indent 9 else negb (first_is (fun c => c =? 32) first)) &&
      wf_btext first && forallb (fun '(ks, t) => bl_le indent ks && wf_btext t) more &&
      bl_le indent lead
  end.

Definition wf_key (k : key) : bool :=
  match k with
  | KPlain l => wf_pline_start l && negb (str_eqb (pl_first l) [46; 46; 46])
  | KSingle t => sq_ok t
  | KDouble t => wf_dq_line t && negb (existsb dq_is_brk t)      (* a key is on one line *)
  end.

Definition wf_item (it : item) : bool :=
  match it with
  | IComment _ t _ => forallb txtc t
  | IKV k _ v trail =>
      wf_key k && wf_value v &&
      match v with VBlock _ _ _ _ indent _ _ => bl_le indent trail | _ => true end
  end.

(* a plain value without trailing comment and a block scalar read on into the indentation of the
   next line *)
Definition eats_indent (it : item) : bool :=
  match it with
  | IKV _ _ (VFlow _ (FPlain _ _) _ None) _ => true
  | IKV _ _ (VBlock _ _ _ _ _ _ _) _ => true
  | _ => false
  end.

(* an indented comment line directly after an item: after a block scalar it must be indented less
   than the scalar (otherwise it is a line of the scalar) *)
Definition icomment_ok (it : item) (n : nat) : bool :=
  match it with
  | IKV _ _ (VBlock _ _ _ _ indent _ _) _ => Nat.ltb n indent
  | _ => true
  end.

Fixpoint wf_adj (items : list item) : bool :=
  match items with
  | [] => true
  | it :: r =>
      match r with IComment (S n) _ _ :: _ => icomment_ok it (S n) | _ => true end && wf_adj r
  end.

(* without the final line break the last line is a key/value item with the value (if any) on it *)
Definition last_ok (it : item) : bool :=
  match it with
  | IKV _ _ (VNone _ _) [] => true
  | IKV _ _ (VFlow _ _ _ _) [] => true
  | _ => false
  end.

Fixpoint last_item_ok (items : list item) : bool :=
  match items with
  | [] => false
  | [it] => last_ok it
  | _ :: r => last_item_ok r
  end.

Definition wf_block (b : block) : bool :=
  forallb wf_item (b_items b) && wf_adj (b_items b) &&
  (b_final_nl b || last_item_ok (b_items b)).
