(* Agreement: the last line without its line break, and the theorem for whole blocks. *)
From Coq Require Import List NArith Bool Lia ZifyBool Arith.
From MV Require Import Base.PyStr.
From MV Require Import Base.Res.
From MV Require Import Gen.OptConsts.
From MV Require Import Opt.OptModel.
From MV Require Import Opt.YamlSpec.
From MV Require Import Opt.OptAgreeBase.
From MV Require Import Opt.OptAgreePlain.
From MV Require Import Opt.OptAgree.
From MV Require Import Opt.OptAgreeTop.
From MV Require Import Opt.OptAgreeFlow.
From MV Require Import Opt.OptAgreeQuoted.
Import ListNotations.
Open Scope N_scope.

(* ------------------------------------------------------------------ a flow value followed by spaces, a comment and the end *)

Definition bare_spec (f : flow) : Prop :=
  exists c r, print_flow f = c :: r /\ stopc c /\
  forall s tsp cm, s_col s <> 0 -> comment_ok tsp cm = true ->
    s_rest s = print_flow f ++ sp tsp ++ print_comment cm ++ [0] ->
    exists m, (m <= tsp)%nat /\
      value_scan s c = Ok (after s (print_flow f ++ sp m), flow_meaning f).

Lemma bare_plain l0 more : wf_flow (FPlain l0 more) = true -> bare_spec (FPlain l0 more).
Proof.
  intros Hfl. destruct (wf_plain_flat l0 more Hfl) as [Hw Hflat].
  cbn [wf_flow] in Hfl. apply andb_true_iff in Hfl as [Hst _].
  unfold wf_pline_start in Hst. apply andb_true_iff in Hst as [_ Hi].
  destruct (wf_word_inv _ Hw) as (c & w' & Ew & Hc & Hc35 & Hok & Hlast).
  rewrite Ew in Hi. cbn [first_is] in Hi. apply negb_true_iff in Hi.
  destruct (indicator_facts _ Hi) as (_ & I39 & I34 & I124 & I62).
  set (fl := flat_of_plain l0 more) in *.
  unfold bare_spec. rewrite print_plain_flat, mean_plain_flat. fold fl.
  exists c, (w' ++ print_flat fl). split; [rewrite Ew; reflexivity|].
  split; [unfold stopc, lbc; repeat split; charfact|].
  intros s tsp cm Hcol Hcm Hr. exists tsp. split; [lia|]. unfold value_scan.
  replace (mem_N c in_tokenize_1) with false by charfact.
  replace (mem_N c in_tokenize_2) with false by charfact.
  destruct cm as [tc|]; cbn [print_comment comment_ok app] in *.
  - apply andb_true_iff in Hcm as [Htsp Htc]. apply negb_true_iff, Nat.eqb_neq in Htsp.
    apply (scan_plain_flat false (sp tsp ++ 35 :: (tc ++ [0])) (sp tsp)).
    + intros f. apply tailspec_comment2. exact Htsp.
    + rewrite app_length. cbn [length]. lia.
    + exact Hw.
    + exact Hflat.
    + rewrite Hr, <- !app_assoc. reflexivity.
  - apply (scan_plain_flat false (sp tsp ++ [0]) (sp tsp)).
    + intros f. apply tailspec_eof.
    + rewrite app_length. cbn [length]. lia.
    + exact Hw.
    + exact Hflat.
    + rewrite Hr, <- !app_assoc. reflexivity.
Qed.

Lemma bare_quoted double quote E f : quote_ok double quote -> els_wf double E ->
  print_flow f = [quote] ++ print_els E ++ [quote] -> flow_meaning f = mean_els E -> bare_spec f.
Proof.
  intros Hq Hwf Hp Hm. unfold bare_spec. rewrite Hp, Hm.
  exists quote, (print_els E ++ [quote]). split; [reflexivity|].
  split; [destruct Hq as [[_ ->]|[_ ->]]; unfold stopc, lbc; repeat split; try discriminate; reflexivity|].
  intros s tsp cm Hcol Hcm Hr. exists O. split; [lia|]. cbn [sp repeat]. rewrite app_nil_r.
  unfold value_scan.
  replace (mem_N quote in_tokenize_1) with false by (destruct Hq as [[_ ->]|[_ ->]]; reflexivity).
  replace (mem_N quote in_tokenize_2) with true by (destruct Hq as [[_ ->]|[_ ->]]; reflexivity).
  assert (HX : exists X TL, sp tsp ++ print_comment cm ++ [0] = X :: TL /\ X <> c_squote).
  { destruct tsp; [|rewrite sp_S]; cbn [sp repeat app].
    - destruct cm; cbn [print_comment app]; eexists; eexists; (split; [reflexivity | discriminate]).
    - eexists; eexists; (split; [reflexivity | discriminate]). }
  destruct HX as (X & TL & EX & HX).
  apply (scan_quoted double quote E s X TL Hq Hwf HX). rewrite Hr, <- EX, <- !app_assoc. reflexivity.
Qed.

Lemma bare_flow f : wf_flow f = true -> bare_spec f.
Proof.
  intros Hwf. destruct f as [l0 more|l0 more|l0 more].
  - apply bare_plain. exact Hwf.
  - apply (bare_quoted false 39 (els_single l0 more)); [right; split; reflexivity | apply els_single_wf; exact Hwf | apply print_single | apply mean_single].
  - apply (bare_quoted true 34 (els_double l0 more)); [left; split; reflexivity | apply els_double_wf; exact Hwf | apply print_double | apply mean_double].
Qed.

(* ------------------------------------------------------------------ the last item without line break *)

Lemma comment_ok_txt n cm : comment_ok n cm = true -> comment_txt cm = true.
Proof. destruct cm; cbn [comment_ok comment_txt]; [intros H; apply andb_true_iff in H; tauto | reflexivity]. Qed.

Lemma comment_colc cm : comment_txt cm = true -> Forall colc (print_comment cm).
Proof.
  destruct cm as [t|]; cbn [comment_txt print_comment]; [|constructor]. intros H.
  constructor; [split; charfact | apply Forall_txtc_colc; exact H].
Qed.

Lemma empty_plain_at_end s : s_rest s = [0] -> scan_plain_scalar s false = Ok (s, []).
Proof.
  intros Hr. unfold scan_plain_scalar, fuel_of. rewrite Hr. cbn [length plain_scalar_f].
  rewrite (peek0 _ _ _ Hr). cbn [bind]. replace (0 =? c_hash) with false by reflexivity.
  rewrite Hr. cbn [plain_len]. replace (mem_N 0 in_scan_plain_scalar_0) with true by reflexivity.
  reflexivity.
Qed.

Lemma end_iter s k cm : comment_txt cm = true -> s_rest s = sp k ++ print_comment cm ++ [0] ->
  tok_iter s = ([], Ok None).
Proof.
  intros Hcm Hr.
  assert (Hr' : s_rest s = print_ltails [] ++ sp k ++ print_comment cm ++ [0]) by exact Hr.
  pose proof (stnt_spec_end [] s k cm eq_refl Hcm Hr') as H1. cbn [print_ltails map concat app] in H1.
  apply (tok_iter_end s _ 0 H1); [| reflexivity].
  eapply peek0. apply rest_after. rewrite Hr, <- !app_assoc. reflexivity.
Qed.

Lemma fin_spec_last k ksp v : key_spec k -> wf_value v = true ->
  match v with VNone _ _ => True | VFlow _ f _ _ => bare_spec f | VBlock _ _ _ _ _ _ _ => False end ->
  fin_spec (print_item_nolf (IKV k ksp v []) ++ [0]) [(key_meaning k, value_meaning v [])] 1.
Proof.
  intros Hks Hwv Hbare fuel s xs Hxs Hcol Hr Hf.
  destruct fuel as [|[|f]]; try lia. cbn [tokenize_f].
  destruct Hks as (c & rk & Ek & Hkc & Hkscan).
  cbn [print_item_nolf] in Hr.
  (* first character after the colon *)
  assert (Hx : exists x tx, print_value_nolf v ++ [0] = x :: tx /\ (x = 32 \/ x = 10 \/ x = 0)).
  { destruct v as [tsp cm|vsp fl tsp cm|]; [| |contradiction]; cbn [print_value_nolf wf_value] in *.
    - destruct tsp as [|tsp].
      + destruct cm as [tc|]; [cbn [comment_ok Nat.eqb negb andb] in Hwv; discriminate|].
        cbn [sp repeat print_comment app]. eexists; eexists; split; [reflexivity | auto].
      + rewrite sp_S. cbn [app]. eexists; eexists; split; [reflexivity | auto].
    - apply andb_true_iff in Hwv as [Hwv _]. apply andb_true_iff in Hwv as [Hwv _].
      destruct vsp; [discriminate|]. rewrite sp_S. cbn [app]. eexists; eexists; split; [reflexivity | auto]. }
  destruct Hx as (x & tx & Ex & Hx).
  assert (Hr2 : s_rest s = print_ltails xs ++ sp 0 ++ c :: (rk ++ sp ksp ++ 58 :: x :: tx)).
  { rewrite Hr. cbn [sp repeat app]. f_equal. rewrite <- Ex. rewrite <- !app_assoc. rewrite Ek. reflexivity. }
  pose proof (stnt_spec xs s 0 c _ Hxs (key_start_stopc _ Hkc) Hr2) as H1.
  cbn [sp repeat] in H1. rewrite app_nil_r in H1.
  set (s1 := after s (print_ltails xs)) in *.
  assert (Hrs1 : s_rest s1 = print_key k ++ sp ksp ++ 58 :: x :: tx).
  { unfold s1. erewrite rest_after; [|exact Hr2]. rewrite Ek. reflexivity. }
  assert (Hcs1 : s_col s1 = 0) by (apply col_after_ltails; assumption).
  assert (Hp1 : peek s1 0 = Ok c) by (eapply peek0; rewrite Hrs1, Ek; reflexivity).
  destruct (Hkscan s1 ksp x tx Hx Hcs1 Hrs1) as (j & Hj & Hkey).
  set (s2 := after s1 (print_key k ++ sp j)) in *.
  assert (Hrs2 : s_rest s2 = [] ++ sp (ksp - j) ++ 58 :: x :: tx).
  { unfold s2. apply rest_after. rewrite Hrs1, <- !app_assoc. f_equal. cbn [app].
    rewrite app_assoc. f_equal. unfold sp. rewrite <- repeat_app. f_equal. clear - Hj. lia. }
  pose proof (stnt_spec [] s2 (ksp - j) 58 _ eq_refl colon_stopc Hrs2) as H3.
  cbn [print_ltails map concat app] in H3.
  set (s3 := after s2 (sp (ksp - j))) in *.
  assert (Hrs3 : s_rest s3 = [58] ++ x :: tx) by (unfold s3; apply rest_after; exact Hrs2).
  assert (Hp3 : peek s3 0 = Ok 58) by (eapply peek0; exact Hrs3).
  assert (Hf3 : forward s3 1 = Ok (after s3 [58])).
  { apply (forward_after [58] s3 (x :: tx)); [constructor; [exact colon_nocr | constructor] | exact Hrs3]. }
  set (s4 := after s3 [58]) in *.
  assert (Hrs4 : s_rest s4 = print_value_nolf v ++ [0]).
  { unfold s4. erewrite rest_after; [|exact Hrs3]. symmetry. exact Ex. }
  assert (Hcs4 : s_col s4 <> 0).
  { unfold s4. cbn [after fold_left]. rewrite col_step; [lia | split; charfact]. }
  destruct v as [tsp cm|vsp fl tsp cm|]; [| |contradiction]; cbn [print_value_nolf wf_value value_meaning] in *.
  - (* key only *)
    pose proof (comment_ok_txt _ _ Hwv) as Hcm.
    assert (Hrs4' : s_rest s4 = print_ltails [] ++ sp tsp ++ print_comment cm ++ [0]) by (rewrite Hrs4, <- !app_assoc; reflexivity).
    pose proof (stnt_spec_end [] s4 tsp cm eq_refl Hcm Hrs4') as H5. cbn [print_ltails map concat app] in H5.
    set (s5 := after s4 (sp tsp ++ print_comment cm)) in *.
    assert (Hrs5 : s_rest s5 = [0]) by (unfold s5; apply rest_after; rewrite Hrs4, <- !app_assoc; reflexivity).
    assert (Hc5 : s_col s5 <> 0).
    { unfold s5. rewrite col_after; [lia|]. apply Forall_app. split; [apply sp_colc | apply comment_colc; exact Hcm]. }
    assert (Hval : value_scan s5 0 = Ok (s5, [])) by (unfold value_scan; cbn; apply empty_plain_at_end; exact Hrs5).
    rewrite (tok_iter_key_value s s1 c s2 (key_meaning k) s3 s4 s5 0 s5 [] H1 Hp1
               (key_start_not_end _ Hkc) Hcs1 Hkey H3 Hp3 Hf3 H5 (peek0 _ _ _ Hrs5) Hc5 Hval).
    assert (Hr5' : s_rest s5 = sp 0 ++ print_comment None ++ [0]) by exact Hrs5.
    rewrite (end_iter s5 0 None eq_refl Hr5').
    eexists. split; [reflexivity|]. cbn [app]. apply ts_kv. constructor.
  - (* a flow value *)
    apply andb_true_iff in Hwv as [Hwv Hcm]. apply andb_true_iff in Hwv as [Hvsp Hwf].
    destruct Hbare as (cv & rv & Ev & Hcv & Hscan).
    assert (Hrs4' : s_rest s4 = print_ltails [] ++ sp vsp ++ cv :: (rv ++ sp tsp ++ print_comment cm ++ [0])).
    { rewrite Hrs4. cbn [print_ltails map concat app]. rewrite <- !app_assoc. f_equal. rewrite Ev. reflexivity. }
    pose proof (stnt_spec [] s4 vsp cv _ eq_refl Hcv Hrs4') as H5. cbn [print_ltails map concat app] in H5.
    set (s5 := after s4 (sp vsp)) in *.
    assert (Hrs5 : s_rest s5 = print_flow fl ++ sp tsp ++ print_comment cm ++ [0]).
    { unfold s5. erewrite rest_after; [|exact Hrs4']. rewrite Ev. reflexivity. }
    assert (Hc5 : s_col s5 <> 0).
    { unfold s5. rewrite (col_after _ _ (sp_colc _)), sp_length. destruct vsp; [discriminate | lia]. }
    assert (Hp5 : peek s5 0 = Ok cv) by (eapply peek0; rewrite Hrs5, Ev; reflexivity).
    destruct (Hscan s5 tsp cm Hc5 Hcm Hrs5) as (m & Hm & Hval).
    rewrite (tok_iter_key_value s s1 c s2 (key_meaning k) s3 s4 s5 cv _ _ H1 Hp1
               (key_start_not_end _ Hkc) Hcs1 Hkey H3 Hp3 Hf3 H5 Hp5 Hc5 Hval).
    assert (Hr6 : s_rest (after s5 (print_flow fl ++ sp m)) = sp (tsp - m) ++ print_comment cm ++ [0]).
    { apply rest_after. rewrite Hrs5, <- !app_assoc. f_equal.
      replace (sp tsp) with (sp m ++ sp (tsp - m)); [rewrite <- app_assoc; reflexivity|].
      unfold sp. rewrite <- repeat_app. f_equal. clear - Hm. lia. }
    rewrite (end_iter _ (tsp - m) cm (comment_ok_txt _ _ Hcm) Hr6).
    eexists. split; [reflexivity|]. cbn [app]. apply ts_kv. constructor.
Qed.

(* ------------------------------------------------------------------ whole blocks *)

Lemma print_items_fin_true items : print_items_fin true items = print_items items.
Proof.
  induction items as [|it r IH]; [reflexivity|]. unfold print_items in *. cbn [print_items_fin map concat].
  destruct r as [|it' r']; [cbn [map concat]; rewrite app_nil_r; reflexivity|]. rewrite IH. reflexivity.
Qed.

Lemma print_items_fin_false items : last_item_ok items = true ->
  exists init last, items = init ++ [last] /\ last_ok last = true /\
                    print_items_fin false items = print_items init ++ print_item_nolf last.
Proof.
  induction items as [|it r IH]; [discriminate|]. intros H.
  destruct r as [|it' r'].
  - exists [], it. cbn [last_item_ok] in H. repeat split; auto.
  - cbn [last_item_ok] in H. destruct (IH H) as (init & last & E & Hl & Hp).
    exists (it :: init), last. split; [rewrite E; reflexivity|]. split; [exact Hl|].
    change (print_items_fin false (it :: it' :: r')) with (print_item it ++ print_items_fin false (it' :: r')).
    rewrite Hp. unfold print_items. cbn [map concat]. rewrite <- app_assoc. reflexivity.
Qed.

Lemma wf_adj_init init last : wf_adj (init ++ [last]) = true -> wf_adj init = true.
Proof.
  induction init as [|it r IH]; [reflexivity|]. cbn [app wf_adj]. intros H.
  apply andb_true_iff in H as [H1 H2]. rewrite (IH H2), andb_true_r.
  destruct r as [|it' r']; [reflexivity | exact H1].
Qed.

Lemma meaning_items_app a b : meaning_items (a ++ b) = meaning_items a ++ meaning_items b.
Proof.
  induction a as [|[n t tr|k ksp v tr] a IH]; cbn [app meaning_items]; [reflexivity | exact IH | rewrite IH; reflexivity].
Qed.

Theorem block_agree b : wf_block b = true -> Forall OptAgree.item_ok (b_items b) ->
  Forall item_ic_ok (b_items b) ->
  (forall k ksp vsp f tsp cm tr, In (IKV k ksp (VFlow vsp f tsp cm) tr) (b_items b) -> bare_spec f) ->
  options_to_items (print_block b) = Ok (meaning_block b).
Proof.
  intros Hwf Hok Hic Hbare. unfold wf_block in Hwf.
  apply andb_true_iff in Hwf as [Hwf Hfin]. apply andb_true_iff in Hwf as [Hwf Hadj].
  unfold options_to_items, tokenize. rewrite meaning_block_items.
  set (s := new_stream (print_block b)).
  destruct (b_final_nl b) eqn:Efin.
  - (* with the final line break *)
    assert (Hinv : tok_inv [0] s (blanks (b_lead b)) (b_items b)).
    { split; [|split].
      - unfold s, new_stream. cbn [s_rest]. unfold print_block. rewrite Efin, print_blanks, print_items_fin_true.
        replace CHARS_END with [0] by reflexivity. rewrite <- app_assoc. reflexivity.
      - apply wf_blanks.
      - reflexivity. }
    assert (HF : fin_ok [0]) by (exists 0, []; split; [reflexivity | left; reflexivity]).
    destruct (tokenize_f_spec [0] [] 0 HF fin_spec_nul (length (b_items b)) (b_items b) (le_n _) (fuel_of s) s _ Hwf Hadj Hok Hic Hinv)
      as (toks & Ht & Hs).
    { unfold fuel_of. destruct Hinv as [Hr _]. rewrite Hr, !app_length.
      pose proof (print_items_length _ Hwf). lia. }
    rewrite Ht. rewrite app_nil_r in Hs. apply to_items_shape. exact Hs.
  - (* the last line has no line break *)
    cbn [orb] in Hfin. destruct (print_items_fin_false _ Hfin) as (init & last & Eitems & Hlast & Hprint).
    rewrite Eitems in *.
    rewrite forallb_app in Hwf. apply andb_true_iff in Hwf as [Hwfi Hwfl].
    cbn [forallb] in Hwfl. rewrite andb_true_r in Hwfl.
    apply Forall_app in Hok as [Hoki Hokl]. inversion Hokl as [|? ? Hokl' _]; subst.
    apply Forall_app in Hic as [Hici _].
    destruct last as [n t tr|k ksp v tr]; [discriminate|].
    assert (Htr : tr = []) by (destruct v, tr; cbn [last_ok] in Hlast; congruence). subst tr.
    cbn [OptAgree.item_ok] in Hokl'. destruct Hokl' as [Hks _].
    cbn [wf_item] in Hwfl. apply andb_true_iff in Hwfl as [Hwfl _]. apply andb_true_iff in Hwfl as [Hwk Hwv].
    set (FIN := print_item_nolf (IKV k ksp v []) ++ [0]).
    assert (HF : fin_ok FIN).
    { destruct Hks as (c & rk & Ek & Hkc & _). exists c, (rk ++ sp ksp ++ [58] ++ print_value_nolf v ++ [0]).
      split; [unfold FIN; cbn [print_item_nolf]; rewrite Ek, <- !app_assoc; reflexivity | right; exact Hkc]. }
    assert (HFS : fin_spec FIN [(key_meaning k, value_meaning v [])] 1).
    { apply fin_spec_last; [exact Hks | exact Hwv|].
      destruct v as [tsp cm|vsp f tsp cm|]; [exact I | | discriminate].
      apply (Hbare k ksp vsp f tsp cm []). apply in_or_app. right. left. reflexivity. }
    assert (Hinv : tok_inv FIN s (blanks (b_lead b)) init).
    { split; [|split].
      - unfold s, new_stream. cbn [s_rest]. unfold print_block. rewrite Efin, Eitems, print_blanks, Hprint.
        replace CHARS_END with [0] by reflexivity. unfold FIN. rewrite <- !app_assoc. reflexivity.
      - apply wf_blanks.
      - reflexivity. }
    destruct (tokenize_f_spec FIN _ 1 HF HFS (length init) init (le_n _) (fuel_of s) s _ Hwfi (wf_adj_init _ _ Hadj) Hoki Hici Hinv)
      as (toks & Ht & Hs).
    { unfold fuel_of. destruct Hinv as [Hr _]. rewrite Hr, !app_length.
      pose proof (print_items_length _ Hwfi). unfold FIN. rewrite app_length. cbn [length]. lia. }
    rewrite Ht. rewrite meaning_items_app. cbn [meaning_items]. apply to_items_shape. exact Hs.
Qed.
