(* The translated functions over the translated class StreamBuffer (`<fn>_full`, Gen/OptSrc.v) equal the
   translated functions over the primitives of OptModel.v (`<fn>_src`): both are the same code, the methods
   peek_src / prefix_src / forward_src / new_stream_src are equal to the primitives (Opt/OptSrcGlue.v).
   One congruence proof per definition, all by the same tactic. *)
From Coq Require Import List NArith Bool Lia Arith.
From MV Require Import Base.PyStr.
From MV Require Import Base.Res.
From MV Require Import Gen.OptConsts.
From MV Require Import Opt.OptModel.
From MV Require Import Opt.OptSrcLib.
From MV Require Import Gen.OptSrc.
From MV Require Import Opt.OptSrcGlue.
Import ListNotations.
Open Scope N_scope.

Lemma bind_ext {A B} (r r' : res A) (k k' : A -> res B) :
  r = r' -> (forall a, k a = k' a) -> bind r k = bind r' k'.
Proof. intros -> H. destruct r' as [a|e]; cbn [bind]; auto. Qed.

Lemma bindw_ext2 {A B} (m m' : wres A) (k k' : A -> wres B) :
  m = m' -> (forall a, k a = k' a) -> bindw m k = bindw m' k'.
Proof. intros -> H. destruct m' as [ts [a|e]]; cbn [bindw]; [rewrite H|]; reflexivity. Qed.

Lemma gbind_ext {T A B} (m m' : gw T A) (k k' : A -> gw T B) :
  m = m' -> (forall a, k a = k' a) -> gbind m k = gbind m' k'.
Proof. intros -> H. destruct m' as [ts [a|e]]; cbn [gbind]; [rewrite H|]; reflexivity. Qed.

Ltac prims := rewrite ?peek_src_eq, ?prefix_src_eq, ?forward_src_eq, ?new_stream_src_eq.

(* both sides have the same shape: go down in parallel *)
Ltac cong1 IH :=
  first
  [ reflexivity
  | progress prims
  | progress autorewrite with full
  | rewrite IH
  | apply bind_ext; [|intros ?]
  | apply bindw_ext2; [|intros ?]
  | apply gbind_ext; [|intros ?]
  | apply (f_equal liftw)
  | match goal with
    | |- (if ?c then _ else _) = (if ?c then _ else _) => destruct c
    | |- (let '(_, _) := ?p in _) = (let '(_, _) := ?p in _) => destruct p
    | |- context [match ?o with Some _ => _ | None => _ end] => is_var o; destruct o
    | |- context [match ?l with [] => _ | _ :: _ => _ end] => is_var l; destruct l
    | |- context [match ?c with Next _ => _ | Done _ => _ end] => is_var c; destruct c
    | |- context [match ?t with TKey _ => _ | TColon => _ | TValue _ _ => _ end] => is_var t; destruct t
    | |- context [let '(_, _) := ?p in _] => is_var p; destruct p
    | |- context [match ?r with Ok _ => _ | Raise _ => _ end] => is_var r; destruct r
    end
  | progress cbv zeta ].
Ltac cong IH := repeat cong1 IH.

Lemma scan_line_break_full_eq stream : scan_line_break_full stream = scan_line_break_src stream.
Proof. unfold scan_line_break_full, scan_line_break_src. cong tt. Qed.
#[export] Hint Rewrite scan_line_break_full_eq : full.

Lemma scan_to_next_token_full_w2_eq : forall __fuel0 stream, scan_to_next_token_full_w2 __fuel0 stream = scan_to_next_token_src_w2 __fuel0 stream.
Proof.
  induction __fuel0 as [|? IH]; intros stream; [reflexivity|]. cbn [scan_to_next_token_full_w2 scan_to_next_token_src_w2]. cong IH.
Qed.
#[export] Hint Rewrite scan_to_next_token_full_w2_eq : full.

Lemma scan_to_next_token_full_w3_eq : forall __fuel0 stream, scan_to_next_token_full_w3 __fuel0 stream = scan_to_next_token_src_w3 __fuel0 stream.
Proof.
  induction __fuel0 as [|? IH]; intros stream; [reflexivity|]. cbn [scan_to_next_token_full_w3 scan_to_next_token_src_w3]. cong IH.
Qed.
#[export] Hint Rewrite scan_to_next_token_full_w3_eq : full.

Lemma scan_to_next_token_full_w1_eq : forall __fuel0 stream found, scan_to_next_token_full_w1 __fuel0 stream found = scan_to_next_token_src_w1 __fuel0 stream found.
Proof.
  induction __fuel0 as [|? IH]; intros stream found; [reflexivity|]. cbn [scan_to_next_token_full_w1 scan_to_next_token_src_w1]. cong IH.
Qed.
#[export] Hint Rewrite scan_to_next_token_full_w1_eq : full.

Lemma scan_to_next_token_full_eq stream : scan_to_next_token_full stream = scan_to_next_token_src stream.
Proof. unfold scan_to_next_token_full, scan_to_next_token_src. cong tt. Qed.
#[export] Hint Rewrite scan_to_next_token_full_eq : full.

Lemma scan_plain_spaces_full_w1_eq : forall __fuel0 stream length, scan_plain_spaces_full_w1 __fuel0 stream length = scan_plain_spaces_src_w1 __fuel0 stream length.
Proof.
  induction __fuel0 as [|? IH]; intros stream length; [reflexivity|]. cbn [scan_plain_spaces_full_w1 scan_plain_spaces_src_w1]. cong IH.
Qed.
#[export] Hint Rewrite scan_plain_spaces_full_w1_eq : full.

Lemma scan_plain_spaces_full_w2_eq : forall __fuel0 stream breaks, scan_plain_spaces_full_w2 __fuel0 stream breaks = scan_plain_spaces_src_w2 __fuel0 stream breaks.
Proof.
  induction __fuel0 as [|? IH]; intros stream breaks; [reflexivity|]. cbn [scan_plain_spaces_full_w2 scan_plain_spaces_src_w2]. cong IH.
Qed.
#[export] Hint Rewrite scan_plain_spaces_full_w2_eq : full.

Lemma scan_plain_spaces_full_eq stream allow_newline : scan_plain_spaces_full stream allow_newline = scan_plain_spaces_src stream allow_newline.
Proof. unfold scan_plain_spaces_full, scan_plain_spaces_src. cong tt. Qed.
#[export] Hint Rewrite scan_plain_spaces_full_eq : full.

Lemma scan_flow_scalar_breaks_full_w2_eq : forall __fuel0 stream, scan_flow_scalar_breaks_full_w2 __fuel0 stream = scan_flow_scalar_breaks_src_w2 __fuel0 stream.
Proof.
  induction __fuel0 as [|? IH]; intros stream; [reflexivity|]. cbn [scan_flow_scalar_breaks_full_w2 scan_flow_scalar_breaks_src_w2]. cong IH.
Qed.
#[export] Hint Rewrite scan_flow_scalar_breaks_full_w2_eq : full.

Lemma scan_flow_scalar_breaks_full_w1_eq : forall __fuel0 stream chunks, scan_flow_scalar_breaks_full_w1 __fuel0 stream chunks = scan_flow_scalar_breaks_src_w1 __fuel0 stream chunks.
Proof.
  induction __fuel0 as [|? IH]; intros stream chunks; [reflexivity|]. cbn [scan_flow_scalar_breaks_full_w1 scan_flow_scalar_breaks_src_w1]. cong IH.
Qed.
#[export] Hint Rewrite scan_flow_scalar_breaks_full_w1_eq : full.

Lemma scan_flow_scalar_breaks_full_eq stream : scan_flow_scalar_breaks_full stream = scan_flow_scalar_breaks_src stream.
Proof. unfold scan_flow_scalar_breaks_full, scan_flow_scalar_breaks_src. cong tt. Qed.
#[export] Hint Rewrite scan_flow_scalar_breaks_full_eq : full.

Lemma scan_flow_scalar_spaces_full_w1_eq : forall __fuel0 stream length, scan_flow_scalar_spaces_full_w1 __fuel0 stream length = scan_flow_scalar_spaces_src_w1 __fuel0 stream length.
Proof.
  induction __fuel0 as [|? IH]; intros stream length; [reflexivity|]. cbn [scan_flow_scalar_spaces_full_w1 scan_flow_scalar_spaces_src_w1]. cong IH.
Qed.
#[export] Hint Rewrite scan_flow_scalar_spaces_full_w1_eq : full.

Lemma scan_flow_scalar_spaces_full_eq stream : scan_flow_scalar_spaces_full stream = scan_flow_scalar_spaces_src stream.
Proof. unfold scan_flow_scalar_spaces_full, scan_flow_scalar_spaces_src. cong tt. Qed.
#[export] Hint Rewrite scan_flow_scalar_spaces_full_eq : full.

Lemma scan_flow_scalar_non_spaces_full_w2_eq : forall __fuel0 stream length, scan_flow_scalar_non_spaces_full_w2 __fuel0 stream length = scan_flow_scalar_non_spaces_src_w2 __fuel0 stream length.
Proof.
  induction __fuel0 as [|? IH]; intros stream length; [reflexivity|]. cbn [scan_flow_scalar_non_spaces_full_w2 scan_flow_scalar_non_spaces_src_w2]. cong IH.
Qed.
#[export] Hint Rewrite scan_flow_scalar_non_spaces_full_w2_eq : full.

Lemma scan_flow_scalar_non_spaces_full_f3_eq : forall __todo0 k stream length, scan_flow_scalar_non_spaces_full_f3 __todo0 k stream length = scan_flow_scalar_non_spaces_src_f3 __todo0 k stream length.
Proof.
  induction __todo0 as [|? IH]; intros k stream length; [reflexivity|]. cbn [scan_flow_scalar_non_spaces_full_f3 scan_flow_scalar_non_spaces_src_f3]. cong IH.
Qed.
#[export] Hint Rewrite scan_flow_scalar_non_spaces_full_f3_eq : full.

Lemma scan_flow_scalar_non_spaces_full_w1_eq : forall __fuel0 stream chunks double, scan_flow_scalar_non_spaces_full_w1 __fuel0 stream chunks double = scan_flow_scalar_non_spaces_src_w1 __fuel0 stream chunks double.
Proof.
  induction __fuel0 as [|? IH]; intros stream chunks double; [reflexivity|]. cbn [scan_flow_scalar_non_spaces_full_w1 scan_flow_scalar_non_spaces_src_w1]. cong IH.
Qed.
#[export] Hint Rewrite scan_flow_scalar_non_spaces_full_w1_eq : full.

Lemma scan_flow_scalar_non_spaces_full_eq stream double : scan_flow_scalar_non_spaces_full stream double = scan_flow_scalar_non_spaces_src stream double.
Proof. unfold scan_flow_scalar_non_spaces_full, scan_flow_scalar_non_spaces_src. cong tt. Qed.
#[export] Hint Rewrite scan_flow_scalar_non_spaces_full_eq : full.

Lemma scan_block_scalar_indicators_full_eq stream : scan_block_scalar_indicators_full stream = scan_block_scalar_indicators_src stream.
Proof. unfold scan_block_scalar_indicators_full, scan_block_scalar_indicators_src. cong tt. Qed.
#[export] Hint Rewrite scan_block_scalar_indicators_full_eq : full.

Lemma scan_block_scalar_ignored_line_full_w1_eq : forall __fuel0 stream, scan_block_scalar_ignored_line_full_w1 __fuel0 stream = scan_block_scalar_ignored_line_src_w1 __fuel0 stream.
Proof.
  induction __fuel0 as [|? IH]; intros stream; [reflexivity|]. cbn [scan_block_scalar_ignored_line_full_w1 scan_block_scalar_ignored_line_src_w1]. cong IH.
Qed.
#[export] Hint Rewrite scan_block_scalar_ignored_line_full_w1_eq : full.

Lemma scan_block_scalar_ignored_line_full_w2_eq : forall __fuel0 stream, scan_block_scalar_ignored_line_full_w2 __fuel0 stream = scan_block_scalar_ignored_line_src_w2 __fuel0 stream.
Proof.
  induction __fuel0 as [|? IH]; intros stream; [reflexivity|]. cbn [scan_block_scalar_ignored_line_full_w2 scan_block_scalar_ignored_line_src_w2]. cong IH.
Qed.
#[export] Hint Rewrite scan_block_scalar_ignored_line_full_w2_eq : full.

Lemma scan_block_scalar_ignored_line_full_eq stream : scan_block_scalar_ignored_line_full stream = scan_block_scalar_ignored_line_src stream.
Proof. unfold scan_block_scalar_ignored_line_full, scan_block_scalar_ignored_line_src. cong tt. Qed.
#[export] Hint Rewrite scan_block_scalar_ignored_line_full_eq : full.

Lemma scan_block_scalar_indentation_full_w1_eq : forall __fuel0 stream max_indent chunks, scan_block_scalar_indentation_full_w1 __fuel0 stream max_indent chunks = scan_block_scalar_indentation_src_w1 __fuel0 stream max_indent chunks.
Proof.
  induction __fuel0 as [|? IH]; intros stream max_indent chunks; [reflexivity|]. cbn [scan_block_scalar_indentation_full_w1 scan_block_scalar_indentation_src_w1]. cong IH.
Qed.
#[export] Hint Rewrite scan_block_scalar_indentation_full_w1_eq : full.

Lemma scan_block_scalar_indentation_full_eq stream : scan_block_scalar_indentation_full stream = scan_block_scalar_indentation_src stream.
Proof. unfold scan_block_scalar_indentation_full, scan_block_scalar_indentation_src. cong tt. Qed.
#[export] Hint Rewrite scan_block_scalar_indentation_full_eq : full.

Lemma scan_block_scalar_breaks_full_w1_eq : forall __fuel0 stream indent, scan_block_scalar_breaks_full_w1 __fuel0 stream indent = scan_block_scalar_breaks_src_w1 __fuel0 stream indent.
Proof.
  induction __fuel0 as [|? IH]; intros stream indent; [reflexivity|]. cbn [scan_block_scalar_breaks_full_w1 scan_block_scalar_breaks_src_w1]. cong IH.
Qed.
#[export] Hint Rewrite scan_block_scalar_breaks_full_w1_eq : full.

Lemma scan_block_scalar_breaks_full_w3_eq : forall __fuel0 stream indent, scan_block_scalar_breaks_full_w3 __fuel0 stream indent = scan_block_scalar_breaks_src_w3 __fuel0 stream indent.
Proof.
  induction __fuel0 as [|? IH]; intros stream indent; [reflexivity|]. cbn [scan_block_scalar_breaks_full_w3 scan_block_scalar_breaks_src_w3]. cong IH.
Qed.
#[export] Hint Rewrite scan_block_scalar_breaks_full_w3_eq : full.

Lemma scan_block_scalar_breaks_full_w2_eq : forall __fuel0 stream chunks indent, scan_block_scalar_breaks_full_w2 __fuel0 stream chunks indent = scan_block_scalar_breaks_src_w2 __fuel0 stream chunks indent.
Proof.
  induction __fuel0 as [|? IH]; intros stream chunks indent; [reflexivity|]. cbn [scan_block_scalar_breaks_full_w2 scan_block_scalar_breaks_src_w2]. cong IH.
Qed.
#[export] Hint Rewrite scan_block_scalar_breaks_full_w2_eq : full.

Lemma scan_block_scalar_breaks_full_eq stream indent : scan_block_scalar_breaks_full stream indent = scan_block_scalar_breaks_src stream indent.
Proof. unfold scan_block_scalar_breaks_full, scan_block_scalar_breaks_src. cong tt. Qed.
#[export] Hint Rewrite scan_block_scalar_breaks_full_eq : full.

Lemma scan_plain_scalar_full_w2_eq : forall __fuel0 stream length is_key, scan_plain_scalar_full_w2 __fuel0 stream length is_key = scan_plain_scalar_src_w2 __fuel0 stream length is_key.
Proof.
  induction __fuel0 as [|? IH]; intros stream length is_key; [reflexivity|]. cbn [scan_plain_scalar_full_w2 scan_plain_scalar_src_w2]. cong IH.
Qed.
#[export] Hint Rewrite scan_plain_scalar_full_w2_eq : full.

Lemma scan_plain_scalar_full_w1_eq : forall __fuel0 stream is_key spaces chunks indent, scan_plain_scalar_full_w1 __fuel0 stream is_key spaces chunks indent = scan_plain_scalar_src_w1 __fuel0 stream is_key spaces chunks indent.
Proof.
  induction __fuel0 as [|? IH]; intros stream is_key spaces chunks indent; [reflexivity|]. cbn [scan_plain_scalar_full_w1 scan_plain_scalar_src_w1]. cong IH.
Qed.
#[export] Hint Rewrite scan_plain_scalar_full_w1_eq : full.

Lemma scan_plain_scalar_full_eq stream is_key : scan_plain_scalar_full stream is_key = scan_plain_scalar_src stream is_key.
Proof. unfold scan_plain_scalar_full, scan_plain_scalar_src. cong tt. Qed.
#[export] Hint Rewrite scan_plain_scalar_full_eq : full.

Lemma scan_flow_scalar_full_w1_eq : forall __fuel0 stream quote chunks double, scan_flow_scalar_full_w1 __fuel0 stream quote chunks double = scan_flow_scalar_src_w1 __fuel0 stream quote chunks double.
Proof.
  induction __fuel0 as [|? IH]; intros stream quote chunks double; [reflexivity|]. cbn [scan_flow_scalar_full_w1 scan_flow_scalar_src_w1]. cong IH.
Qed.
#[export] Hint Rewrite scan_flow_scalar_full_w1_eq : full.

Lemma scan_flow_scalar_full_eq stream style is_key : scan_flow_scalar_full stream style is_key = scan_flow_scalar_src stream style is_key.
Proof. unfold scan_flow_scalar_full, scan_flow_scalar_src. cong tt. Qed.
#[export] Hint Rewrite scan_flow_scalar_full_eq : full.

Lemma scan_block_scalar_full_w2_eq : forall __fuel0 stream length, scan_block_scalar_full_w2 __fuel0 stream length = scan_block_scalar_src_w2 __fuel0 stream length.
Proof.
  induction __fuel0 as [|? IH]; intros stream length; [reflexivity|]. cbn [scan_block_scalar_full_w2 scan_block_scalar_src_w2]. cong IH.
Qed.
#[export] Hint Rewrite scan_block_scalar_full_w2_eq : full.

Lemma scan_block_scalar_full_w1_eq : forall __fuel0 stream indent breaks chunks line_break folded, scan_block_scalar_full_w1 __fuel0 stream indent breaks chunks line_break folded = scan_block_scalar_src_w1 __fuel0 stream indent breaks chunks line_break folded.
Proof.
  induction __fuel0 as [|? IH]; intros stream indent breaks chunks line_break folded; [reflexivity|]. cbn [scan_block_scalar_full_w1 scan_block_scalar_src_w1]. cong IH.
Qed.
#[export] Hint Rewrite scan_block_scalar_full_w1_eq : full.

Lemma scan_block_scalar_full_eq stream style : scan_block_scalar_full stream style = scan_block_scalar_src stream style.
Proof. unfold scan_block_scalar_full, scan_block_scalar_src. cong tt. Qed.
#[export] Hint Rewrite scan_block_scalar_full_eq : full.

Lemma tokenize_full_w1_eq : forall __fuel0 stream, tokenize_full_w1 __fuel0 stream = tokenize_src_w1 __fuel0 stream.
Proof.
  induction __fuel0 as [|? IH]; intros stream; [reflexivity|]. cbn [tokenize_full_w1 tokenize_src_w1]. cong IH.
Qed.
#[export] Hint Rewrite tokenize_full_w1_eq : full.

Lemma tokenize_full_eq text : tokenize_full text = tokenize_src text.
Proof. unfold tokenize_full, tokenize_src. cong tt. Qed.
#[export] Hint Rewrite tokenize_full_eq : full.

Lemma to_tokens_full_f1_eq : forall __todo key_token, to_tokens_full_f1 __todo key_token = to_tokens_src_f1 __todo key_token.
Proof.
  induction __todo as [|? IH]; intros key_token; [reflexivity|]. cbn [to_tokens_full_f1 to_tokens_src_f1]. cong IH.
Qed.
#[export] Hint Rewrite to_tokens_full_f1_eq : full.

Lemma to_tokens_full_eq text : to_tokens_full text = to_tokens_src text.
Proof. unfold to_tokens_full, to_tokens_src. cong tt. Qed.
#[export] Hint Rewrite to_tokens_full_eq : full.

Lemma reraise_mark_full_eq problem_mark : reraise_mark_full problem_mark = reraise_mark_src problem_mark.
Proof. unfold reraise_mark_full, reraise_mark_src. cong tt. Qed.
#[export] Hint Rewrite reraise_mark_full_eq : full.

Lemma options_to_items_full_eq text : options_to_items_full text = options_to_items_src text.
Proof. unfold options_to_items_full, options_to_items_src. cong tt. Qed.
#[export] Hint Rewrite options_to_items_full_eq : full.
